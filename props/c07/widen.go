package c07

// Widening of the C07 alphabet in the generic input dimensions of DESIGN §11.4:
//   own/...      capacity classes, record layout, result ownership and input integrity of every byte-slice argument and
//                result of Encrypt / Decrypt / the converters / the enveloped-key helpers
//   history/...  every ordered pair of operations (all options, layouts, entry points, converters, failing calls) and of
//                KDF block-count classes on one process and on two key objects used alternately
//   variant/...  option values and key objects that reach the same mechanism through other doors
//   retry depth  more than one restart of the encryption loop (A5 -> A1)

import (
	"bytes"
	"crypto"
	"crypto/ecdsa"
	"crypto/elliptic"
	"fmt"
	"io"
	"math/big"
	"unsafe"

	"github.com/emmansun/gmsm/sm2"

	"verif/engine"
	"verif/props/c06"
	"verif/ref/ecref"
)

// ---------------------------------------------------------------------------------------------
// argument placement classes

// argClasses: how a byte-slice argument lies in memory.
//
//	exact        its own array, cap == len
//	cap+1        one spare byte (dirty)
//	ample-dirty  96 spare bytes (dirty)
//	record       pre(8) || argument || next field(72) carved from one array, capacity reaching to the end of the record
//	guard-end    the argument ends at a PROT_NONE page (reads or writes past the end kill the worker)
var argClasses = []string{"exact", "cap+1", "ample-dirty", "record", "guard-end"}

func dirty(b []byte, lane byte) {
	for i := range b {
		b[i] = byte(i*29+3) ^ lane
	}
}

// place copies content into a buffer of the given class. whole is the complete backing region the harness owns;
// apart from nothing at all it must be unchanged after a library call that only reads the argument.
func place(pool *engine.Pool, class string, content []byte) (arg, whole []byte) {
	n := len(content)
	switch class {
	case "exact":
		whole = make([]byte, n)
		arg = whole
	case "cap+1":
		whole = make([]byte, n+1)
		dirty(whole, 0xa5)
		arg = whole[:n]
	case "ample-dirty":
		whole = make([]byte, n+96)
		dirty(whole, 0x5a)
		arg = whole[:n]
	case "record":
		whole = make([]byte, 8+n+72)
		dirty(whole, 0xc3)
		whole[8+n] = 0x04 // the next field looks like another ciphertext
		arg = whole[8 : 8+n]
	case "guard-end":
		arg = pool.Get(n)
		whole = arg
	default:
		panic("c07: unknown argument class " + class)
	}
	copy(arg, content)
	return arg, whole
}

// overlaps reports whether the backing regions (up to capacity) of a and b share memory.
func overlaps(a, b []byte) bool {
	a, b = a[:cap(a)], b[:cap(b)]
	if len(a) == 0 || len(b) == 0 {
		return false
	}
	pa := uintptr(unsafe.Pointer(unsafe.SliceData(a)))
	pb := uintptr(unsafe.Pointer(unsafe.SliceData(b)))
	return pa < pb+uintptr(len(b)) && pb < pa+uintptr(len(a))
}

// scribble overwrites a result the library handed out, including its spare capacity: it belongs to the caller now.
func scribble(b []byte) {
	b = b[:cap(b)]
	for i := range b {
		b[i] = 0xee ^ byte(i)
	}
}

// damage reports how whole differs from its snapshot: "" (intact), "argument" or "outside".
func damage(whole, snap, arg []byte) string {
	if bytes.Equal(whole, snap) {
		return ""
	}
	off := 0
	if len(arg) > 0 && len(whole) > 0 {
		off = int(uintptr(unsafe.Pointer(unsafe.SliceData(arg))) - uintptr(unsafe.Pointer(unsafe.SliceData(whole))))
	}
	for i := range whole {
		if whole[i] != snap[i] && (i < off || i >= off+len(arg)) {
			return "outside"
		}
	}
	return "argument"
}

// block is the scripted reader block that makes the library draw the ephemeral scalar k.
func (kc *kctx) block(k *big.Int) []byte { b := make([]byte, kc.nb()); k.FillBytes(b); return b }

// eph is a deterministic ephemeral scalar for this key context: full width on the 256-bit curves (window tables make
// the reference cheap there), small on the other curves (plain double-and-add on the reference side).
func (kc *kctx) eph(label string, i int) *big.Int {
	if kc.bl == 0 {
		return scalarFor(label, i)
	}
	return scalarForCurve(kc, label, i)
}

// nb is the number of bytes the library reads for one candidate scalar: ceil(bitlen(n)/8).
func (kc *kctx) nb() int { return (kc.c.N.BitLen() + 7) / 8 }

// keyIntact: the key objects handed to the library are the caller's; their numbers must not have changed.
func (kc *kctx) keyIntact(t *engine.T, where string) {
	if kc.priv.D.Cmp(kc.key.D) != 0 || kc.priv.X.Cmp(kc.key.Pub.X) != 0 || kc.priv.Y.Cmp(kc.key.Pub.Y) != 0 ||
		kc.pub.X.Cmp(kc.key.Pub.X) != 0 || kc.pub.Y.Cmp(kc.key.Pub.Y) != 0 {
		t.Fail(kc.pfx+"own/key-object-modified", "after %s the key object of %s holds D=%x X=%x Y=%x / public X=%x Y=%x", where, kc.key.Name, kc.priv.D, kc.priv.X, kc.priv.Y, kc.pub.X, kc.pub.Y)
	} else {
		t.Outcome("key-objects-intact")
	}
}

// ---------------------------------------------------------------------------------------------
// own/decrypt

func ownLens(quick bool) []int {
	if quick {
		return []int{1, 32, 33, 100, 129, 257}
	}
	return []int{1, 2, 31, 32, 33, 64, 65, 100, 129, 224, 225, 257, 513}
}

func otherOf(kc *kctx) (*sm2.PrivateKey, *decryptor) {
	ks := c06.Keys()
	o := ks[(kc.idx+1)%len(ks)]
	return c06.LibPriv(o.D, o.Pub), newDecryptor(kc.c, o.D)
}

// ownDecrypt: for every length x layout x argument class x entry point: the ciphertext buffer (and everything around
// it) is unchanged by a successful, a failing and a wrong-key call; the plaintext does not share memory with the
// ciphertext or with another result; after the harness has overwritten the plaintext the same call gives the same
// answer; a failing call does not disturb the next good one.
func ownDecrypt(t *engine.T, kc *kctx, otherPriv *sm2.PrivateKey, lens []int, label string) {
	ownDecryptK(t, kc, otherPriv, lens, func(n int) *big.Int { return kc.eph(label, n) })
}

func ownDecryptK(t *engine.T, kc *kctx, otherPriv *sm2.PrivateKey, lens []int, kOf func(n int) *big.Int) {
	pool := &engine.Pool{}
	K := kc.pfx + "own/decrypt/"
	var held, heldWant []byte
	heldWhat := ""
	seq := 0
	for _, n := range lens {
		msg := c06.Pattern(n, 0x35)
		ref, _ := kc.refEncryptStream([][]byte{kc.block(kOf(n))}, msg)
		for _, l := range layouts {
			enc := l.encode(ref)
			for _, class := range argClasses {
				for _, de := range decEntries(l) {
					seq++
					arg, whole := place(pool, class, enc)
					snap := append([]byte{}, whole...)
					what := fmt.Sprintf("key %s, msgLen=%d, layout %s, ciphertext placed as %q, %s", kc.key.Name, n, l, class, de.name)
					t.Nontrivial(fmt.Sprintf("%sown/decrypt/%s/len=%d/%s/%s/%s", kc.pfx, kc.key.Name, n, l, class, de.name))
					call := func(p *sm2.PrivateKey) (got []byte, err error, ok bool) {
						if t.Guard(K+de.name, func() { got, err = de.f(p, arg) }) {
							return nil, nil, false
						}
						t.Eval(1)
						return got, err, true
					}
					intact := func(stage string, snap []byte) bool {
						if d := damage(whole, snap, arg); d != "" {
							if d == "outside" {
								t.Fail(K+"writes-outside-ciphertext/"+class, "%s: memory outside the ciphertext argument changed (%s); first difference at offset %d of the backing array", what, stage, engine.FirstDiff(whole, snap))
							} else {
								t.Fail(K+"ciphertext-modified/"+class, "%s: the caller's ciphertext changed (%s); first difference at offset %d of the backing array", what, stage, engine.FirstDiff(whole, snap))
							}
							copy(whole, snap)
							return false
						}
						return true
					}
					// 1. good call
					p1, err, ok := call(kc.priv)
					if !ok {
						continue
					}
					if err != nil || !bytes.Equal(p1, msg) {
						t.Fail(K+"wrong-result/"+class, "%s: got %s, %v; want %s", what, engine.Hex(p1), err, engine.Hex(msg))
						copy(whole, snap)
						continue
					}
					intact("successful call", snap)
					if overlaps(p1, whole) {
						t.Fail(K+"plaintext-aliases-ciphertext", "%s: the returned plaintext shares memory with the ciphertext buffer", what)
						continue
					}
					// 2. the result is ours: overwrite it, repeat
					scribble(p1)
					intact("plaintext overwritten by the caller", snap)
					p2, err, ok := call(kc.priv)
					if !ok {
						continue
					}
					if err != nil || !bytes.Equal(p2, msg) {
						t.Fail(K+"not-repeatable-after-result-overwritten", "%s: second call after the caller overwrote the first plaintext: got %s, %v; want %s", what, engine.Hex(p2), err, engine.Hex(msg))
						continue
					}
					if overlaps(p1, p2) {
						t.Fail(K+"results-alias-each-other", "%s: the plaintexts of two calls share memory", what)
					}
					if held != nil && !bytes.Equal(held, heldWant) {
						t.Fail(K+"earlier-result-overwritten", "%s: the plaintext returned earlier (%s) changed to %s, want %s", what, heldWhat, engine.Hex(held), engine.Hex(heldWant))
					}
					held, heldWant, heldWhat = p2, msg, what
					// 3. a failing call (one corrupted byte) in between
					pos := []int{0, len(arg) / 2, len(arg) - 1}[seq%3]
					arg[pos] ^= 0x04
					bad := append([]byte{}, whole...)
					if _, acc, _ := kc.dc.open(arg, l.order); !acc {
						_, err, ok = call(kc.priv)
						if ok {
							if err != nil {
								t.Outcome("own-failing-call-rejected")
							}
							intact("failing call", bad)
						}
					}
					copy(whole, snap)
					p3, err, ok := call(kc.priv)
					if ok && (err != nil || !bytes.Equal(p3, msg)) {
						t.Fail(K+"after-failed-call", "%s: a call with byte %d corrupted, then the intact ciphertext in the same buffer: got %s, %v; want %s", what, pos, engine.Hex(p3), err, engine.Hex(msg))
						continue
					}
					// 4. wrong key on the same buffer, then the right one
					if _, _, ok = call(otherPriv); ok {
						intact("wrong-key call", snap)
					}
					p4, err, ok := call(kc.priv)
					if ok && (err != nil || !bytes.Equal(p4, msg)) {
						t.Fail(K+"after-wrong-key-call", "%s: wrong key then right key on the same buffer: got %s, %v; want %s", what, engine.Hex(p4), err, engine.Hex(msg))
						continue
					}
					t.Outcome("own-decrypt-sequence-ok")
				}
			}
		}
		if !pool.Release() {
			t.Fail(K+"writes-before-ciphertext", "key %s, msgLen=%d: the canary in front of a guard-page ciphertext buffer changed", kc.key.Name, n)
		}
	}
	kc.keyIntact(t, "the decryption sequences")
}

// ---------------------------------------------------------------------------------------------
// own/encrypt

type encVariant struct {
	name  string
	opts  func() *sm2.EncrypterOpts // the options object of one call (nil: none)
	fn    bool                      // use sm2.EncryptASN1
	lay   layout
	exact bool
}

func encVariants() []encVariant {
	vs := []encVariant{{"Encrypt(nil)", func() *sm2.EncrypterOpts { return nil }, false, layout{false, 0, false}, true}}
	for mode := byte(0); mode < 3; mode++ {
		for o := 0; o < 2; o++ {
			mode, o := mode, o
			vs = append(vs, encVariant{fmt.Sprintf("Encrypt(plain,%s,%s)", []string{"uncompressed", "compressed", "hybrid"}[mode], []string{"C1C3C2", "C1C2C3"}[o]),
				func() *sm2.EncrypterOpts { return encOptsOf(mode, o) }, false, layout{false, o, mode == 1}, mode != 2})
		}
	}
	return append(vs,
		encVariant{"Encrypt(ASN1EncrypterOpts)", func() *sm2.EncrypterOpts { return sm2.ASN1EncrypterOpts }, false, layout{asn1: true}, true},
		encVariant{"EncryptASN1", func() *sm2.EncrypterOpts { return nil }, true, layout{asn1: true}, true},
		encVariant{"Encrypt(&EncrypterOpts{})", func() *sm2.EncrypterOpts { return &sm2.EncrypterOpts{} }, false, layout{false, 0, false}, true})
}

func (v encVariant) run(rd io.Reader, pub *ecdsa.PublicKey, msg []byte, opts *sm2.EncrypterOpts) ([]byte, error) {
	if v.fn {
		return sm2.EncryptASN1(rd, pub, msg)
	}
	return sm2.Encrypt(rd, pub, msg, opts)
}

// ownEncrypt: for every length x option x argument class of the message: message buffer and surroundings unchanged,
// options object unchanged, result equal to the reference ciphertext whatever the class, result memory disjoint from
// the message and from the result of another call, same answer after the harness overwrote the first result.
func ownEncrypt(t *engine.T, kc *kctx, lens []int, label string) {
	ownEncryptK(t, kc, lens, func(n int) *big.Int { return kc.eph(label, n) })
}

func ownEncryptK(t *engine.T, kc *kctx, lens []int, kOf func(n int) *big.Int) {
	pool := &engine.Pool{}
	K := kc.pfx + "own/encrypt/"
	var held, heldWant []byte
	for _, n := range lens {
		msg := c06.Pattern(n, 0x36)
		blocks := [][]byte{kc.block(kOf(n))}
		ref, _ := kc.refEncryptStream(blocks, msg)
		for _, v := range encVariants() {
			for _, class := range argClasses {
				arg, whole := place(pool, class, msg)
				snap := append([]byte{}, whole...)
				what := fmt.Sprintf("%s, key %s, msgLen=%d, message placed as %q", v.name, kc.key.Name, n, class)
				t.Nontrivial(fmt.Sprintf("%sown/encrypt/%s/len=%d/%s/%s", kc.pfx, kc.key.Name, n, v.name, class))
				call := func() (out []byte, err error, ok bool) {
					opts := v.opts()
					var before sm2.EncrypterOpts
					if opts != nil {
						before = *opts
					}
					if t.Guard(K+v.name, func() { out, err = v.run(engine.NewScriptReader(blocks...), kc.pub, arg, opts) }) {
						return nil, nil, false
					}
					t.Eval(1)
					if opts != nil && *opts != before {
						t.Fail(K+"options-modified", "%s: the caller's options object changed from %+v to %+v", what, before, *opts)
						*opts = before
					}
					return out, err, true
				}
				intact := func(stage string) {
					if d := damage(whole, snap, arg); d != "" {
						if d == "outside" {
							t.Fail(K+"writes-outside-message/"+class, "%s: memory outside the message argument changed (%s); first difference at offset %d of the backing array", what, stage, engine.FirstDiff(whole, snap))
						} else {
							t.Fail(K+"message-modified/"+class, "%s: the caller's message changed (%s); first difference at offset %d", what, stage, engine.FirstDiff(whole, snap))
						}
						copy(whole, snap)
					}
				}
				o1, err, ok := call()
				if !ok {
					continue
				}
				if err != nil {
					t.Fail(K+"error/"+class, "%s: %v", what, err)
					continue
				}
				intact("after the call")
				if v.exact {
					if want := v.lay.encode(ref); !bytes.Equal(o1, want) {
						t.Fail(K+"wrong-result/"+class, "%s: ciphertext %s, reference %s", what, engine.Hex(o1), engine.Hex(want))
						continue
					}
				} else if m, acc, _ := kc.dc.open(o1, v.lay.order); !acc || !bytes.Equal(m, msg) {
					t.Fail(K+"wrong-result/"+class, "%s: ciphertext %s is not decrypted to the message by the reference", what, engine.Hex(o1))
					continue
				}
				if overlaps(o1, whole) {
					t.Fail(K+"ciphertext-aliases-message", "%s: the returned ciphertext shares memory with the message buffer", what)
					continue
				}
				save := append([]byte{}, o1...)
				scribble(o1)
				intact("ciphertext overwritten by the caller")
				o2, err, ok := call()
				if !ok {
					continue
				}
				if err != nil || !bytes.Equal(o2, save) {
					t.Fail(K+"not-repeatable-after-result-overwritten", "%s: second call with the same scripted scalar after the caller overwrote the first ciphertext: %s, %v; first call gave %s", what, engine.Hex(o2), err, engine.Hex(save))
					continue
				}
				if overlaps(o1, o2) {
					t.Fail(K+"results-alias-each-other", "%s: the ciphertexts of two calls share memory", what)
				}
				if held != nil && !bytes.Equal(held, heldWant) {
					t.Fail(K+"earlier-result-overwritten", "%s: a ciphertext returned earlier changed afterwards", what)
				}
				held, heldWant = o2, save
				t.Outcome("own-encrypt-sequence-ok")
			}
		}
		if !pool.Release() {
			t.Fail(K+"writes-before-message", "key %s, msgLen=%d: the canary in front of a guard-page message buffer changed", kc.key.Name, n)
		}
	}
	kc.keyIntact(t, "the encryption sequences")
}

// ---------------------------------------------------------------------------------------------
// own/convert

// ownConvert: every converter transition with the input in every argument class. AdjustCiphertextSplicingOrder with
// from == to returns its argument itself (an identity; nothing is demanded about the memory of that result).
func ownConvert(t *engine.T, kc *kctx, lens []int, label string) {
	pool := &engine.Pool{}
	ops := convOps()
	for _, n := range lens {
		msg := c06.Pattern(n, 0x37)
		ref, _ := kc.refEncryptStream([][]byte{kc.block(kc.eph(label, n))}, msg)
		for _, l := range layouts {
			enc := l.encode(ref)
			for _, op := range ops {
				if !op.from(l) {
					continue
				}
				nl := op.to(l)
				for _, class := range argClasses {
					arg, whole := place(pool, class, enc)
					snap := append([]byte{}, whole...)
					what := fmt.Sprintf("%s on a %s ciphertext (key %s, msgLen=%d) placed as %q", op.name, l, kc.key.Name, n, class)
					t.Nontrivial(fmt.Sprintf("own/convert/%s/len=%d/%s/%s/%s", kc.key.Name, n, l, op.name, class))
					call := func() (out []byte, err error, ok bool) {
						if t.Guard("convert/"+op.name, func() { out, err = op.f(l, arg) }) {
							return nil, nil, false
						}
						t.Eval(1)
						return out, err, true
					}
					intact := func(stage string) {
						if d := damage(whole, snap, arg); d != "" {
							if d == "outside" {
								t.Fail("own/convert/writes-outside-input/"+class, "%s: memory outside the input changed (%s); first difference at offset %d of the backing array", what, stage, engine.FirstDiff(whole, snap))
							} else {
								t.Fail("convert/"+op.name+"/input-modified", "%s modified its input (%s)", what, stage)
							}
							copy(whole, snap)
						}
					}
					o1, err, ok := call()
					if !ok {
						continue
					}
					if err != nil {
						t.Fail("convert/"+op.name+"/error-on-valid-ciphertext", "%s: %v", what, err)
						continue
					}
					intact("after the call")
					if op.exact {
						if want := nl.encode(ref); !bytes.Equal(o1, want) {
							t.Fail("convert/"+op.name+"/wrong-output", "%s = %s, want the %s encoding %s", what, engine.Hex(o1), nl, engine.Hex(want))
							continue
						}
					} else if m, acc, _ := kc.dc.open(o1, nl.order); !acc || !bytes.Equal(m, msg) {
						t.Fail("convert/"+op.name+"/output-refused", "%s = %s is not decrypted to the message by the reference", what, engine.Hex(o1))
						continue
					}
					if len(o1) > 0 && len(o1) == len(arg) && unsafe.SliceData(o1) == unsafe.SliceData(arg) {
						t.Outcome("converter-identity-returns-its-argument")
						continue
					}
					if overlaps(o1, whole) {
						t.Fail("own/convert/output-aliases-input", "%s: the converted ciphertext shares memory with the input buffer", what)
						continue
					}
					save := append([]byte{}, o1...)
					scribble(o1)
					intact("output overwritten by the caller")
					o2, err, ok := call()
					if ok && (err != nil || !bytes.Equal(o2, save)) {
						t.Fail("own/convert/not-repeatable-after-result-overwritten", "%s: second call after the caller overwrote the first output: %s, %v; first call gave %s", what, engine.Hex(o2), err, engine.Hex(save))
						continue
					}
					t.Outcome("own-convert-sequence-ok")
				}
			}
		}
		if !pool.Release() {
			t.Fail("own/convert/writes-before-input", "key %s, msgLen=%d: the canary in front of a guard-page input buffer changed", kc.key.Name, n)
		}
	}
}

// ---------------------------------------------------------------------------------------------
// own/enveloped

// ownEnveloped: the enveloped-key helpers with the blob in every argument class; wrong recipient first, then the right
// one on the same buffer; the key to be enveloped and the recipient key unchanged; an envelope whose SM2Cipher has an
// all-zero C2 (the SM4 key equals the KDF mask) is a legitimate output and must open.
func ownEnveloped(t *engine.T, ki int) {
	kc := newKctx(ki)
	ks := c06.Keys()
	pool := &engine.Pool{}
	otherPriv, _ := otherOf(kc)
	for j := 0; j <= 2; j++ {
		inner := ks[(ki+j+2)%len(ks)]
		innerPriv := c06.LibPriv(inner.D, inner.Pub)
		recipient := kc.pub
		if j == 0 {
			// a key enveloped to itself: the recipient's public key is the public half of the very object to envelope
			inner, innerPriv = kc.key, kc.priv
			recipient = &kc.priv.PublicKey
		}
		k := scalarFor(fmt.Sprintf("verif/c07/own-env/%d", ki), j)
		symKey := c06.Pattern(16, byte(0xa0+j))
		zero := j == 2
		if zero {
			symKey = maskOf(kc.p.Mul(k), 16) // the SM4 key equals the mask t: C2 is all zero
			if allZero(symKey) {
				continue
			}
		}
		var blob []byte
		var err error
		if t.Guard("enveloped/marshal", func() {
			blob, err = sm2.MarshalEnvelopedPrivateKey(engine.NewScriptReader(symKey, kc.block(k)), recipient, innerPriv)
		}) {
			continue
		}
		t.Eval(1)
		if err != nil {
			t.Fail("enveloped/marshal-error", "MarshalEnvelopedPrivateKey(recipient %s, key %s): %v", kc.key.Name, inner.Name, err)
			continue
		}
		if innerPriv.D.Cmp(inner.D) != 0 || innerPriv.X.Cmp(inner.Pub.X) != 0 || innerPriv.Y.Cmp(inner.Pub.Y) != 0 {
			t.Fail("own/enveloped/key-to-envelope-modified", "MarshalEnvelopedPrivateKey changed the key object it was asked to envelope (%s)", inner.Name)
		}
		ref, _ := kc.refEncryptStream([][]byte{kc.block(k)}, symKey)
		if zero {
			if !allZero(ref.C2) {
				t.Fail("HARNESS/zero-c2-envelope-construction", "C2 = %x", ref.C2)
				return
			}
			t.Nontrivial(fmt.Sprintf("own/enveloped/zero-c2/%s", kc.key.Name))
		}
		if !bytes.Contains(blob, layout{asn1: true}.encode(ref)) {
			t.Fail("enveloped/sm2cipher-differs-from-reference", "enveloped blob %s does not contain the reference SM2Cipher %s", engine.Hex(blob), engine.Hex(layout{asn1: true}.encode(ref)))
			continue
		}
		for _, class := range argClasses {
			arg, whole := place(pool, class, blob)
			snap := append([]byte{}, whole...)
			what := fmt.Sprintf("ParseEnvelopedPrivateKey(recipient %s, enveloped %s, blob placed as %q)", kc.key.Name, inner.Name, class)
			t.Nontrivial(fmt.Sprintf("own/enveloped/%s/%s/%s", kc.key.Name, inner.Name, class))
			parse := func(p *sm2.PrivateKey) (got *sm2.PrivateKey, err error, ok bool) {
				if t.Guard("enveloped/parse", func() { got, err = sm2.ParseEnvelopedPrivateKey(p, arg) }) {
					return nil, nil, false
				}
				t.Eval(1)
				if d := damage(whole, snap, arg); d != "" {
					t.Fail("own/enveloped/blob-modified/"+class, "%s changed the caller's memory (%s); first difference at offset %d of the backing array", what, d, engine.FirstDiff(whole, snap))
					copy(whole, snap)
				}
				return got, err, true
			}
			if inner.D.Cmp(kc.key.D) != 0 {
				if g, err, ok := parse(otherPriv); ok && err == nil && g != nil && otherPriv.D.Cmp(kc.key.D) != 0 {
					t.Fail("enveloped/wrong-recipient-accepted", "%s succeeded with a key that is not the recipient", what)
				}
			}
			for rep := 0; rep < 2; rep++ {
				g, err, ok := parse(kc.priv)
				if !ok {
					break
				}
				if err != nil || g == nil {
					key := "own/enveloped/after-wrong-recipient-call"
					if zero {
						key = "enveloped/all-zero-c2-refused"
					}
					t.Fail(key, "%s (call %d, after a call with the wrong recipient key on the same buffer): %v", what, rep+1, err)
					break
				}
				if g.D.Cmp(inner.D) != 0 || g.X.Cmp(inner.Pub.X) != 0 || g.Y.Cmp(inner.Pub.Y) != 0 {
					t.Fail("enveloped/wrong-key", "%s came back as D=%x", what, g.D)
					break
				}
				g.D.SetInt64(0) // the returned key is ours
				t.Outcome("own-enveloped-ok")
			}
		}
		if !pool.Release() {
			t.Fail("own/enveloped/writes-before-blob", "recipient %s: the canary in front of a guard-page blob changed", kc.key.Name)
		}
	}
	kc.keyIntact(t, "the enveloped-key sequences")
}

// ---------------------------------------------------------------------------------------------
// history: ordered pairs

// hop is one operation with a self-contained verdict: run returns "" when the result is the specified one.
type hop struct {
	kind string // coarse class used in the finding key
	name string
	size int
	run  func() string
}

func guardedRun(fn func() string) (res string) {
	pv, frame := c06.Guarded(func() { res = fn() })
	if pv != nil {
		return fmt.Sprintf("panic %v at %s", pv, frame)
	}
	return res
}

func (kc *kctx) encHop(v encVariant, n int, label string) hop {
	msg := c06.Pattern(n, 0x38)
	blocks := [][]byte{kc.block(kc.eph(label, n))}
	ref, _ := kc.refEncryptStream(blocks, msg)
	want := v.lay.encode(ref)
	opts := v.opts() // one options object for all calls of this operation: it is set up once and reused
	return hop{"encrypt", fmt.Sprintf("%s key %s msgLen=%d", v.name, kc.key.Name, n), n, func() string {
		out, err := v.run(engine.NewScriptReader(blocks...), kc.pub, msg, opts)
		if err != nil {
			return "error " + err.Error()
		}
		if v.exact {
			if !bytes.Equal(out, want) {
				return fmt.Sprintf("ciphertext %s, reference %s", engine.Hex(out), engine.Hex(want))
			}
		} else if m, acc, _ := kc.dc.open(out, v.lay.order); !acc || !bytes.Equal(m, msg) {
			return fmt.Sprintf("ciphertext %s not decrypted to the message by the reference", engine.Hex(out))
		}
		return ""
	}}
}

func (kc *kctx) decHop(l layout, de decEntry, n int, label string) hop {
	msg := c06.Pattern(n, 0x39)
	ref, _ := kc.refEncryptStream([][]byte{kc.block(kc.eph(label, n))}, msg)
	ct := l.encode(ref)
	return hop{"decrypt", fmt.Sprintf("%s of a %s ciphertext, key %s msgLen=%d", de.name, l, kc.key.Name, n), n, func() string {
		got, err := de.f(kc.priv, ct)
		if err != nil || !bytes.Equal(got, msg) {
			return fmt.Sprintf("got %s, %v; want %s", engine.Hex(got), err, engine.Hex(msg))
		}
		return ""
	}}
}

// failing operations: their specified answer is an error.
func (kc *kctx) failingHops(n int, label string) []hop {
	msg := c06.Pattern(n, 0x3a)
	ref, _ := kc.refEncryptStream([][]byte{kc.block(kc.eph(label, n))}, msg)
	otherPriv, _ := otherOf(kc)
	var hs []hop
	for _, l := range []layout{layouts[0], layouts[3], layouts[4]} {
		l := l
		good := l.encode(ref)
		bad := append([]byte{}, good...)
		bad[len(bad)-1] ^= 0x01
		hs = append(hs,
			hop{"failed-decrypt", fmt.Sprintf("Decrypt of a %s ciphertext with its last byte flipped, key %s", l, kc.key.Name), n, func() string {
				if got, err := kc.priv.Decrypt(nil, bad, decOptsOf(l.order)); err == nil {
					return fmt.Sprintf("accepted, plaintext %s", engine.Hex(got))
				}
				return ""
			}},
			hop{"failed-decrypt", fmt.Sprintf("Decrypt of a %s ciphertext with another key, key %s", l, kc.key.Name), n, func() string {
				if got, err := otherPriv.Decrypt(nil, good, decOptsOf(l.order)); err == nil {
					return fmt.Sprintf("accepted, plaintext %s", engine.Hex(got))
				}
				return ""
			}},
			hop{"failed-decrypt", fmt.Sprintf("Decrypt of a truncated %s ciphertext, key %s", l, kc.key.Name), n, func() string {
				if got, err := kc.priv.Decrypt(nil, good[:len(good)-33], decOptsOf(l.order)); err == nil {
					return fmt.Sprintf("accepted, plaintext %s", engine.Hex(got))
				}
				return ""
			}})
	}
	hs = append(hs,
		hop{"failed-encrypt", "Encrypt with a reader that fails on the first read", n, func() string {
			rd := engine.NewScriptReader()
			rd.Fault = map[int]int{0: engine.AnsErr}
			if out, err := sm2.Encrypt(rd, kc.pub, msg, nil); err == nil {
				return fmt.Sprintf("no error, output %s", engine.Hex(out))
			}
			return ""
		}},
		hop{"failed-convert", "PlainCiphertext2ASN1 of a truncated ciphertext", n, func() string {
			if out, err := sm2.PlainCiphertext2ASN1(layouts[0].encode(ref)[:60], sm2.C1C3C2); err == nil {
				return fmt.Sprintf("no error, output %s", engine.Hex(out))
			}
			return ""
		}},
		hop{"failed-convert", "ASN1Ciphertext2Plain of a plain ciphertext", n, func() string {
			if out, err := sm2.ASN1Ciphertext2Plain(layouts[0].encode(ref), nil); err == nil {
				return fmt.Sprintf("no error, output %s", engine.Hex(out))
			}
			return ""
		}})
	return hs
}

func (kc *kctx) convHops(n int, label string) []hop {
	msg := c06.Pattern(n, 0x3b)
	ref, _ := kc.refEncryptStream([][]byte{kc.block(kc.eph(label, n))}, msg)
	var hs []hop
	for _, l := range layouts {
		for _, op := range convOps() {
			if !op.from(l) {
				continue
			}
			l, op := l, op
			in := l.encode(ref)
			nl := op.to(l)
			want := nl.encode(ref)
			hs = append(hs, hop{"convert", fmt.Sprintf("%s of a %s ciphertext", op.name, l), n, func() string {
				out, err := op.f(l, append([]byte{}, in...))
				if err != nil {
					return "error " + err.Error()
				}
				if op.exact {
					if !bytes.Equal(out, want) {
						return fmt.Sprintf("output %s, want the %s encoding %s", engine.Hex(out), nl, engine.Hex(want))
					}
				} else if m, acc, _ := kc.dc.open(out, nl.order); !acc || !bytes.Equal(m, msg) {
					return fmt.Sprintf("output %s not decrypted to the message by the reference", engine.Hex(out))
				}
				return ""
			}})
		}
	}
	return hs
}

// runPairs executes every ordered pair (a, b) of the alphabet: a, then b; b's result must be the specified one
// whatever ran before it. sizeRel adds the size relation of the two operations to the finding key.
func runPairs(t *engine.T, pfx, family string, ops []hop, sizeRel bool) {
	// every operation once before any pair. (In a worker process whose state an earlier case has already disturbed this
	// fails too, but does not reproduce in the fresh process of the confirmation run; the pair below does.)
	for _, o := range ops {
		r := guardedRun(o.run)
		t.Eval(1)
		if r != "" {
			t.Fail(pfx+"history/"+family+"/"+o.kind+"/wrong-at-start", "%s: %s", o.name, r)
		}
	}
	n := 0
	for _, a := range ops {
		for _, b := range ops {
			guardedRun(a.run)
			r := guardedRun(b.run)
			t.Eval(2)
			n++
			key := pfx + "history/" + family + "/" + b.kind + "-after-" + a.kind
			if sizeRel {
				switch {
				case b.size > a.size:
					key += "/longer"
				case b.size < a.size:
					key += "/shorter"
				default:
					key += "/same-length"
				}
			}
			t.Nontrivial(key)
			if r != "" {
				t.Fail(key, "after [%s], [%s] gave: %s", a.name, b.name, r)
			} else {
				t.Outcome("history-pair-ok")
			}
		}
	}
	t.AddTraces(n)
	t.Extra("history_pairs", n)
}

// historyOptionsCase: the alphabet is every option / layout / entry point / converter / failing call at one length.
func historyOptionsCase(t *engine.T, ki, n int) {
	kc := newKctx(ki)
	label := fmt.Sprintf("verif/c07/hist-opt/%d", ki)
	var ops []hop
	for _, v := range encVariants() {
		ops = append(ops, kc.encHop(v, n, label))
	}
	for _, l := range layouts {
		for _, de := range decEntries(l) {
			ops = append(ops, kc.decHop(l, de, n, label))
		}
	}
	ops = append(ops, kc.convHops(n, label)...)
	ops = append(ops, kc.failingHops(n, label)...)
	t.Extra("history_alphabet", len(ops))
	runPairs(t, kc.pfx, "options", ops, false)
	kc.keyIntact(t, "the option histories")
}

// histLens: one message length in each KDF block-count class that the dispatch treats differently
// (1,2,3 generic; 4,5,7 four lanes + tail; 8,9,12,13,16,17 eight lanes + four lanes + tail).
var histLens = []int{1, 33, 65, 97, 129, 200, 225, 257, 353, 385, 481, 513}

// historyLengthsCase: lengths going up and down, on two key objects used alternately, encryption and decryption.
func historyLengthsCase(t *engine.T, ka, kb int) {
	var ops []hop
	v := encVariants()
	for _, ki := range []int{ka, kb} {
		kc := newKctx(ki)
		label := fmt.Sprintf("verif/c07/hist-len/%d", ki)
		for _, n := range histLens {
			ops = append(ops, kc.encHop(v[0], n, label), kc.decHop(layouts[0], decEntries(layouts[0])[0], n, label))
			if ki == ka {
				ops = append(ops, kc.decHop(layouts[4], decEntries(layouts[4])[0], n, label))
			}
		}
	}
	t.Extra("history_alphabet", len(ops))
	runPairs(t, "", "lengths", ops, true)
}

// ---------------------------------------------------------------------------------------------
// variants: other doors to the same mechanism

// variantDecryptCase: option values and call forms of decryption that mean "the default".
func variantDecryptCase(t *engine.T, ki int) {
	kc := newKctx(ki)
	type dv struct {
		name string
		ok   func(l layout) bool
		f    func(p *sm2.PrivateKey, ct []byte) ([]byte, error)
	}
	def := func(l layout) bool { return l.asn1 || l.order == 0 }
	var typedNil *sm2.DecrypterOpts
	vs := []dv{
		{"PrivateKey.Decrypt(typed-nil *DecrypterOpts)", def, func(p *sm2.PrivateKey, ct []byte) ([]byte, error) { return p.Decrypt(nil, ct, typedNil) }},
		{"PrivateKey.Decrypt(&DecrypterOpts{})", def, func(p *sm2.PrivateKey, ct []byte) ([]byte, error) { return p.Decrypt(nil, ct, &sm2.DecrypterOpts{}) }},
		{"PrivateKey.Decrypt(rand=deterministic reader,nil)", def, func(p *sm2.PrivateKey, ct []byte) ([]byte, error) {
			return p.Decrypt(&engine.DetReader{Lane: 7}, ct, nil)
		}},
		{"crypto.Decrypter.Decrypt(nil)", def, func(p *sm2.PrivateKey, ct []byte) ([]byte, error) {
			var d crypto.Decrypter = p
			return d.Decrypt(nil, ct, nil)
		}},
		{"crypto.Decrypter.Decrypt(PlainDecrypterOpts(C1C2C3))", func(l layout) bool { return l.asn1 || l.order == 1 }, func(p *sm2.PrivateKey, ct []byte) ([]byte, error) {
			var d crypto.Decrypter = p
			return d.Decrypt(nil, ct, sm2.NewPlainDecrypterOpts(sm2.C1C2C3))
		}},
	}
	for _, n := range []int{1, 32, 33, 100, 257} {
		msg := c06.Pattern(n, 0x3c)
		ref, _ := kc.refEncryptStream([][]byte{kc.block(scalarFor(fmt.Sprintf("verif/c07/variant/%d", ki), n))}, msg)
		for _, l := range layouts {
			ct := l.encode(ref)
			for _, v := range vs {
				if !v.ok(l) {
					continue
				}
				var got []byte
				var err error
				if t.Guard(kc.pfx+"variant/decrypt/"+v.name, func() { got, err = v.f(kc.priv, ct) }) {
					continue
				}
				t.Eval(1)
				t.Nontrivial(fmt.Sprintf("variant/decrypt/%s/%s/len=%d/%s", v.name, kc.key.Name, n, l))
				if err != nil || !bytes.Equal(got, msg) {
					t.Fail(kc.pfx+"variant/decrypt/"+v.name, "%s of a legitimate %s ciphertext (key %s, msgLen=%d): got %s, %v; want %s", v.name, l, kc.key.Name, n, engine.Hex(got), err, engine.Hex(msg))
				} else {
					t.Outcome("variant-decrypt=M")
				}
			}
		}
	}
}

// onlyCurve exposes only the elliptic.Curve interface of a curve object. Around sm2.P256() it still hands out the same
// *CurveParams, so the library takes its SM2 path for such a key.
type onlyCurve struct{ elliptic.Curve }

// variantKeysCase: key objects obtained through every constructor, with the constructor arguments overwritten
// afterwards (they are the caller's), used for encryption and decryption against the reference.
func variantKeysCase(t *engine.T, ki int) {
	kc := newKctx(ki)
	d, pubPt := kc.key.D, kc.key.Pub
	type privRoute struct {
		name string
		mk   func() (*sm2.PrivateKey, error)
	}
	privs := []privRoute{
		{"NewPrivateKey(bytes; bytes overwritten)", func() (*sm2.PrivateKey, error) {
			b := ecref.Bytes32(d)
			p, err := sm2.NewPrivateKey(b)
			keep := ecref.Bytes32(d)
			if err == nil && !bytes.Equal(b, keep) {
				t.Fail("variant/key/constructor-argument-modified", "NewPrivateKey changed its argument to %x", b)
			}
			dirty(b, 0x11)
			return p, err
		}},
		{"NewPrivateKeyFromInt(int; int overwritten)", func() (*sm2.PrivateKey, error) {
			v := new(big.Int).Set(d)
			p, err := sm2.NewPrivateKeyFromInt(v)
			if err == nil && v.Cmp(d) != 0 {
				t.Fail("variant/key/constructor-argument-modified", "NewPrivateKeyFromInt changed its argument to %x", v)
			}
			v.SetInt64(7)
			return p, err
		}},
		{"GenerateKey(scripted reader)", func() (*sm2.PrivateKey, error) {
			return sm2.GenerateKey(engine.NewScriptReader(ecref.Bytes32(d), ecref.Bytes32(scalarFor("verif/c07/variant-gen", ki))))
		}},
		{"FromECPrivateKey(struct)", func() (*sm2.PrivateKey, error) {
			ec := &ecdsa.PrivateKey{PublicKey: *c06.LibPub(pubPt), D: new(big.Int).Set(d)}
			return new(sm2.PrivateKey).FromECPrivateKey(ec)
		}},
		{"struct literal with the curve object wrapped", func() (*sm2.PrivateKey, error) {
			p := c06.LibPriv(d, pubPt)
			p.Curve = onlyCurve{sm2.P256()}
			return p, nil
		}},
	}
	type pubRoute struct {
		name string
		mk   func(p *sm2.PrivateKey) (*ecdsa.PublicKey, error)
	}
	pubs := []pubRoute{
		{"NewPublicKey(bytes; bytes overwritten)", func(p *sm2.PrivateKey) (*ecdsa.PublicKey, error) {
			b := pubPt.Uncompressed()
			k, err := sm2.NewPublicKey(b)
			if err == nil && !bytes.Equal(b, pubPt.Uncompressed()) {
				t.Fail("variant/key/constructor-argument-modified", "NewPublicKey changed its argument")
			}
			dirty(b, 0x22)
			return k, err
		}},
		{"&priv.PublicKey", func(p *sm2.PrivateKey) (*ecdsa.PublicKey, error) { return &p.PublicKey, nil }},
		{"priv.Public()", func(p *sm2.PrivateKey) (*ecdsa.PublicKey, error) {
			k, ok := p.Public().(*ecdsa.PublicKey)
			if !ok {
				return nil, fmt.Errorf("Public() is a %T", p.Public())
			}
			return k, nil
		}},
	}
	vs := encVariants()
	for _, pr := range privs {
		var priv *sm2.PrivateKey
		var err error
		if t.Guard("variant/key/"+pr.name, func() { priv, err = pr.mk() }) {
			continue
		}
		t.Eval(1)
		if err != nil || priv == nil {
			// d = n-1 and the like are refused by the validating constructors; key validity is C14's subject
			t.Outcome("variant-key-route-refuses")
			continue
		}
		if priv.D.Cmp(d) != 0 {
			// GenerateKey may map the stream to another scalar; the object then is a key pair of its own
			t.Outcome("variant-key-route-other-scalar")
			continue
		}
		for _, pu := range pubs {
			var pub *ecdsa.PublicKey
			if t.Guard("variant/key/"+pu.name, func() { pub, err = pu.mk(priv) }) {
				continue
			}
			if err != nil || pub == nil {
				t.Fail("variant/key/public-route-error", "%s for key %s: %v", pu.name, kc.key.Name, err)
				continue
			}
			for _, n := range []int{1, 33, 100} {
				msg := c06.Pattern(n, 0x3d)
				blocks := [][]byte{kc.block(scalarFor(fmt.Sprintf("verif/c07/variant-key/%d", ki), n))}
				ref, _ := kc.refEncryptStream(blocks, msg)
				for _, v := range []encVariant{vs[0], vs[4], vs[7]} {
					what := fmt.Sprintf("%s with public key from %s, private key from %s (key %s, msgLen=%d)", v.name, pu.name, pr.name, kc.key.Name, n)
					t.Nontrivial(fmt.Sprintf("variant/key/%s/%s/%s/%s/len=%d", pr.name, pu.name, v.name, kc.key.Name, n))
					var out []byte
					if t.Guard("variant/key/encrypt", func() { out, err = v.run(engine.NewScriptReader(blocks...), pub, msg, v.opts()) }) {
						continue
					}
					t.Eval(1)
					if want := v.lay.encode(ref); err != nil || !bytes.Equal(out, want) {
						t.Fail("variant/key/encrypt-differs-from-reference", "%s: %s, %v; reference %s", what, engine.Hex(out), err, engine.Hex(want))
						continue
					}
					mustDecrypt(t, "variant/key/own-ciphertext-refused", priv, v.lay, out, msg, what)
				}
			}
		}
	}
}

// ---------------------------------------------------------------------------------------------
// retry depth

// retryDepthCase: the reader hands the library r times a scalar whose mask t is all zero (step A5 sends the algorithm
// back to A1 each time), then a good one. The standard's loop ends with the ciphertext of the good scalar. The library
// may give up with an error (it counts its restarts; an error is not an output), but whatever it returns without an
// error must be that ciphertext.
func retryDepthCase(t *engine.T, kc *kctx, n int, depths []int) {
	k, _, ok := kc.searchMask(make([]byte, n), 8192)
	t.Extra("mask_search_trials", k)
	if !ok {
		t.Cap(fmt.Sprintf("no k <= 8192 with all-zero %d-byte mask for key %s", n, kc.key.Name))
		return
	}
	zeroBlock := kc.block(big.NewInt(int64(k)))
	good := kc.eph("verif/c07/retry-good", kc.idx)
	msg := c06.Pattern(n, 0x3e)
	ref, ok := fastEncryptWithKN(kc.bl, kc.g, kc.p, good, msg)
	if !ok {
		t.Cap("retry depth: the good scalar has an all-zero mask too")
		return
	}
	for _, r := range depths {
		var blocks [][]byte
		for i := 0; i < r; i++ {
			blocks = append(blocks, zeroBlock)
		}
		blocks = append(blocks, kc.block(good))
		for _, v := range encVariants() {
			if !v.exact {
				continue
			}
			what := fmt.Sprintf("%s, key %s, msgLen=%d, %d scripted scalars with an all-zero mask (k=%d) before the good one", v.name, kc.key.Name, n, r, k)
			t.Nontrivial(fmt.Sprintf("%sretry-depth/%s/r=%d/%s", kc.pfx, kc.key.Name, r, v.name))
			var out []byte
			var err error
			if t.Guard(kc.pfx+"encrypt/"+v.name, func() { out, err = v.run(engine.NewScriptReader(blocks...), kc.pub, msg, v.opts()) }) {
				continue
			}
			t.Eval(1)
			if err != nil {
				t.Outcome(fmt.Sprintf("encryption-gives-up-after-%d-restarts", r))
				continue
			}
			if want := v.lay.encode(ref); !bytes.Equal(out, want) {
				t.Fail(kc.pfx+"encrypt/retry-after-all-zero-mask/repeated/ciphertext-differs-from-reference", "%s: %s, reference (ciphertext of the good scalar) %s", what, engine.Hex(out), engine.Hex(want))
				continue
			}
			t.Outcome(fmt.Sprintf("encryption-survives-%d-restarts", r))
			mustDecrypt(t, kc.pfx+"roundtrip/retry-after-all-zero-mask/repeated/own-ciphertext-refused", kc.priv, v.lay, out, msg, what)
		}
	}
}

// ---------------------------------------------------------------------------------------------
// registration

func runWiden(c *engine.Ctx) {
	quick := c.Quick()
	ownKeys := []int{0, 4, 5}
	if !quick {
		ownKeys = []int{0, 1, 2, 3, 4, 5, 6, 7, 8, 9, 10, 11}
	}
	for _, ki := range ownKeys {
		ki := ki
		c.Case(fmt.Sprintf("own/decrypt/key=%d", ki), func(t *engine.T) {
			kc := newKctx(ki)
			op, _ := otherOf(kc)
			ownDecrypt(t, kc, op, ownLens(t.Quick()), fmt.Sprintf("verif/c07/own-dec/%d", ki))
		})
		c.Case(fmt.Sprintf("own/encrypt/key=%d", ki), func(t *engine.T) {
			ownEncrypt(t, newKctx(ki), ownLens(t.Quick()), fmt.Sprintf("verif/c07/own-enc/%d", ki))
		})
		c.Case(fmt.Sprintf("own/convert/key=%d", ki), func(t *engine.T) {
			ownConvert(t, newKctx(ki), []int{1, 33, 100, 257}, fmt.Sprintf("verif/c07/own-conv/%d", ki))
		})
		c.Case(fmt.Sprintf("own/enveloped/key=%d", ki), func(t *engine.T) { ownEnveloped(t, ki) })
		c.Case(fmt.Sprintf("variant/decrypt/key=%d", ki), func(t *engine.T) { variantDecryptCase(t, ki) })
		c.Case(fmt.Sprintf("variant/keys/key=%d", ki), func(t *engine.T) { variantKeysCase(t, ki) })
		c.Case(fmt.Sprintf("retry-depth/key=%d", ki), func(t *engine.T) { retryDepthCase(t, newKctx(ki), 1, []int{2, 3, 100, 101}) })
	}
	histKeys := []int{4}
	if !quick {
		histKeys = []int{0, 2, 4, 7}
	}
	for _, ki := range histKeys {
		ki := ki
		for _, n := range []int{1, 33, 257} {
			n := n
			if quick && n == 257 {
				continue
			}
			c.Case(fmt.Sprintf("history/options/key=%d/len=%d", ki, n), func(t *engine.T) { historyOptionsCase(t, ki, n) })
		}
		c.Case(fmt.Sprintf("history/lengths/keys=%d,%d", ki, (ki+5)%12), func(t *engine.T) { historyLengthsCase(t, ki, (ki+5)%12) })
	}
	// legacy (math/big) path
	for ci, cv := range legacyCurves() {
		cv := cv
		nm := []string{"P-256", "P-256-generic"}[ci]
		c.Case("legacy/own/decrypt/"+nm, func(t *engine.T) {
			kc := legacyKctx(cv, 0)
			ownDecrypt(t, kc, legacyKctx(cv, 2).priv, []int{1, 33, 100}, "verif/c07/legacy-own-dec")
		})
		c.Case("legacy/own/encrypt/"+nm, func(t *engine.T) {
			ownEncrypt(t, legacyKctx(cv, 0), []int{1, 33, 100}, "verif/c07/legacy-own-enc")
		})
		c.Case("legacy/history/"+nm, func(t *engine.T) {
			kc := legacyKctx(cv, 0)
			var ops []hop
			v := encVariants()
			for _, n := range []int{1, 33, 97, 129, 257} {
				for _, vi := range []int{0, 4, 7} {
					ops = append(ops, kc.encHop(v[vi], n, "verif/c07/legacy-hist"))
				}
				for _, l := range []layout{layouts[0], layouts[3], layouts[4]} {
					ops = append(ops, kc.decHop(l, decEntries(l)[len(decEntries(l))-1], n, "verif/c07/legacy-hist"))
				}
			}
			ref, _ := kc.refEncryptStream([][]byte{kc.block(scalarFor("verif/c07/legacy-hist", 999))}, []byte("failing"))
			bad := layouts[0].encode(ref)
			bad[40] ^= 1
			ops = append(ops, hop{"failed-decrypt", "Decrypt of a corrupted ciphertext", 7, func() string {
				if got, err := sm2.Decrypt(kc.priv, bad); err == nil {
					return fmt.Sprintf("accepted, plaintext %s", engine.Hex(got))
				}
				return ""
			}})
			runPairs(t, "legacy/", "lengths", ops, true)
			kc.keyIntact(t, "the legacy histories")
		})
		c.Case("legacy/retry-depth/"+nm, func(t *engine.T) { retryDepthCase(t, legacyKctx(cv, 0), 1, []int{2, 3, 100, 101}) })
	}
}

// ---------------------------------------------------------------------------------------------
// hash-bound subset for the dispatch configurations that differ from c-noavx2 only in the SM3 block function

func liteConfig(cfg string) bool { return cfg == "c-sse" || cfg == "c-scalar" }

func runLite(c *engine.Ctx) {
	lens := msgLens()
	const ki = 4
	for from := 0; from < len(lens); from += 10 {
		to := from + 10
		if to > len(lens) {
			to = len(lens)
		}
		chunk := lens[from:to]
		c.Case(fmt.Sprintf("roundtrip/key=%d/len=%d..%d", ki, chunk[0], chunk[len(chunk)-1]), func(t *engine.T) { roundTripCase(t, ki, chunk) })
	}
	c.Case(fmt.Sprintf("roundtrip/key=%d/kdf-classes-14..65-blocks", ki), func(t *engine.T) { roundTripCase(t, ki, kdfClassLens()) })
	c.Case(fmt.Sprintf("roundtrip/key=%d/der-length-255-256", ki), func(t *engine.T) { roundTripCase(t, ki, derBoundaryLens()) })
	for _, n := range []int{65535, 65536, 65537} {
		n := n
		c.Case(fmt.Sprintf("roundtrip/key=%d/der-length-65535-65536/len=%d", ki, n), func(t *engine.T) { roundTripCase(t, ki, []int{n}) })
	}
	c.Case(fmt.Sprintf("zero-c2/M=t/key=%d/k=1..16", ki), func(t *engine.T) { zeroC2Case(t, ki, 16) })
	c.Case(fmt.Sprintf("history/lengths/keys=%d,%d", ki, 9), func(t *engine.T) { historyLengthsCase(t, ki, 9) })
	c.Case(fmt.Sprintf("own/encrypt/key=%d", ki), func(t *engine.T) {
		ownEncrypt(t, newKctx(ki), ownLens(t.Quick()), fmt.Sprintf("verif/c07/own-enc/%d", ki))
	})
	cv := c06.WrappedP256()
	c.Case("legacy/roundtrip/P-256-generic/d#0", func(t *engine.T) { legacyRoundTrip(t, cv, 0) })
}
