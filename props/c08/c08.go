// Package c08: SM2 key agreement (GB/T 32918.3). E2 over (dA,dB,rA,rB) x identities x key lengths x confirmation
// options on the two implementations (sm2.KeyExchange: math/big; ecdh: SM2MQV+SM2SharedKey) against the
// reference ecref.KeyExchange; rejection of invalid peer points and wrong confirmation values; E1 over
// operation histories of one sm2.KeyExchange object.
package c08

import (
	"bytes"
	"crypto/ecdsa"
	"fmt"
	"math/big"
	"strings"
	c06 "verif/props/c06"

	"github.com/emmansun/gmsm/ecdh"
	"github.com/emmansun/gmsm/sm2"
	"github.com/emmansun/gmsm/sm2/sm2ec"

	"verif/engine"
	"verif/ref/ecref"
)

type Prop struct{}

func (Prop) ID() string    { return "C08" }
func (Prop) Level() string { return "exploration" }
func (Prop) Configs(tier string) []string {
	return []string{"c-default", "c-noavx2", "c-nobmi2", "c-purego"}
}
func (Prop) SelfTest() error { return selfTest() }
func (Prop) Rule() string {
	return "E2: full 4-fold product (dA,dB,rA,rB) over an 8-element (quick) / 14-element (thorough) set per role " +
		"{1,2,3,n-2,n-1 (r only),2^127,2^127+-1,2^128-1, the r in 1..4096 whose x([r]G) mod 2^127 resp. mod 2^128 is minimal/maximal, SM3-chain values}; every tuple runs the complete protocol on " +
		"sm2.NewKeyExchange/InitKeyExchange/RepondKeyExchange/ConfirmResponder/ConfirmInitiator (ephemeral scalars chosen exactly through a scripted io.Reader) and on ecdh (NewPrivateKey, SM2MQV, SM2SharedKey) in both roles; " +
		"the (UID pair, key length, confirmation mode) of a tuple rotates through all 25x7x4 combinations with the tuple index, and the full 25x7x4 option product is run on fixed tuples (UIDs: empty->default, 1, 16, 64, 8191 bytes; 8192 -> error; klen 1,16,32,33,48,97,256; confirmation both/none/initiator-only/responder-only). " +
		"Oracle: initiator key = responder key = GB/T 32918.3 value computed with ecref affine math/big arithmetic (cached evaluation validated at start-up against ecref.KeyExchange in both roles, which is anchored by the GB/T 32918.5 annex B example incl. S1/S2), ephemeral points = [r]G, confirmation values = reference S_B/S_A, ecdh keys = same value, explicit default UID = empty UID; plain ECDH = x([d]Q) on the d x d product. " +
		"Exceptional tuples constructed from the reference: dB = +-avf(x([rB]G))*rB mod n (peer sum is a doubling / the point at infinity -> both sides must fail), tA = 0. " +
		"Rejection: ephemeral peer points off-curve, infinity, x>=p, y>=p, negative, on P-256 -> error from RepondKeyExchange/ConfirmResponder; invalid encodings -> error from ecdh.NewPublicKey; invalid static peer key (struct literal) must never yield a key; every byte of S_B and S_A flipped (^01, ^80), truncated, extended, zeroed, swapped -> refused. " +
		"E1: BFS to depth 5 (quick 4) over histories of {Init, Respond, ConfirmResponder(nil/correct/wrong), ConfirmInitiator(nil/correct/wrong), SetPeerParameters, Respond(off-curve R), ConfirmResponder(off-curve R)} on one object (4 variants: peer known at construction or not x confirmation on/off), states merged on the full private state dump + model; " +
		"oracle: never a panic; steps whose required data is missing (no peer, no ephemeral key, no derived point) or that repeat SetPeerParameters return an error; every key/confirmation returned in a state the model defines equals the reference value for the data actually supplied. " +
		"Widening (widen*.go), all against the same reference, on 3 fixed tuples (GB/T annex B; small scalars whose public keys have a leading zero byte; n-2/dense scalars): " +
		"(klen) every key length 1..320 and 479..481, 511..513, 1023..1025 (thorough 1..1100, 2047..2049, 4096, 4097) on both implementations, reference = prefix of one KDF evaluation; every ordered pair of 12 (thorough 21) key-length classes in direct succession (ecdh: two SM2SharedKey calls; sm2: two responder objects used alternately), the second key judged; " +
		"(uidlen) every identity length 0..200, 255..257, 511..513, 1023, 1024, 4095, 4096, 8190, 8191 (thorough 0..1100, 2047..2049, 4095..4097, 8120..8191) as own and as peer identity, constructor and SetPeerParameters route, SM2ZA directly; " +
		"(args) identities as records own||peer, peer||own, one slice for both, separate buffers ending at a guard page, slack 0,1,31,32,33,64,128,192,256 (thorough 16 classes) of dirty bytes, empty identities as empty slices with spare capacity; arguments and slack compared after construction, then overwritten, the same memory handed to a second constructor, then both objects driven; the same for the encodings given to ecdh NewPrivateKey/NewPublicKey (records d||r, P||R), for SM2SharedKey/SM2ZA (two passes) and for S_B/S_A given to ConfirmResponder/ConfirmInitiator (wrong value, then twice the right value in the same buffer); " +
		"(ownership) every returned key / confirmation value / Bytes() / ZA / ECDH / SM2MQV result is overwritten after comparison and the call repeated three times; key and S_A of one call must not share memory; Destroy must leave returned results, the caller's key objects and other objects intact; " +
		"(history) one initiator and one responder object through sessions with changing r_A, r_B, R_A, R_B, a refused confirmation value / off-curve point followed by the genuine one, a second InitKeyExchange, objects of key length 256/1/97 sharing key objects and identity slices used alternately; ecdh key objects cold (public key never derived) and warm, partners changing and coming back, one object in two argument positions, exchange with oneself; " +
		"(peer-points) static and ephemeral peer points chosen by coordinates: x = 0, x just below p, x = 2^127 (x-bar minimal), x = 2^128-1 (x-bar maximal), y with a leading zero byte, G (thorough: 14 points) as full P x R product x both roles x own pairs, one-sided reference; (agreed-point) the agreed point V itself chosen from that list, peer static key solved as [1/t]V - [x-bar]R; " +
		"(implicit-sig) static keys solved so that t = 2^k, 2^k - 1 (k = 1,8,16,64,128,192,248,255), n-2 and so that the integer sum d + (x-bar r mod n) is n-1, n+1, n+2, n+2^223, 2^256-2, 2^256-1, 2^256, 2^256+1, 2^256+2^64 (all three branches of the final conditional subtraction), as initiator, responder and both; " +
		"(variants) SM2ZA with SM3, SHA-1, SHA-224, SHA-256, SHA-512, SHA-512/256 and a hash object reused after Reset; private keys from NewPrivateKey, NewPrivateKeyFromInt, FromECPrivateKey, struct literal x peer keys from struct literal, sm2.NewPublicKey, &priv.PublicKey; ecdh keys from NewPrivateKey, sm2.PrivateKey.ECDH x NewPublicKey, PrivateKey.PublicKey, sm2.PublicKeyToECDH; returned pointers passed on directly; one key object on both sides; " +
		"(rand) InitKeyExchange / RepondKeyExchange / ecdh.GenerateKey on streams that begin with one or two unusable blocks (0, n, n+1, 2^256-1, n-1; raw and under GenerateKey's byte tweak): the point sent must be a finite curve point and the exchange must end with the value the peer computes from that point alone."
}
func (Prop) Assumptions() []string {
	return []string{
		"reference: verif/ref/ecref KeyExchange written from GB/T 32918.3, anchored by the GB/T 32918.5 annex B example (key and both confirmation hashes)",
		"the (UID pair, klen, confirmation) axes are crossed with the scalar product by rotation (each of the 700 combinations occurs several times) and fully only on fixed scalar tuples; the complete 6-fold product is not run",
		"ecdh.NewPrivateKey rejects n-1, so tuples with r = n-1 are run on the sm2 implementation only",
		"E1 model leaves behaviour open (only 'no panic') after a failed Respond/ConfirmResponder and for ConfirmInitiator after a later InitKeyExchange replaced the ephemeral key; Destroy is not part of the alphabet",
		"nil coordinates / nil keys (programmer errors) are not presented; cofactor h = 1",
		"dispatch tiers reachable on this amd64 host only",
		"widening: *ecdsa.PublicKey values returned by InitKeyExchange / RepondKeyExchange are views of the object's state (the library's tests pass them on directly), so the ownership oracle covers byte slices only; peer key objects handed in are required to stay unmodified, not to be copied",
		"widening: after a refused peer input (wrong confirmation value, off-curve point) the next valid input on the same object must be processed normally (the refused call changed nothing the caller supplied); behaviour of an object after Destroy is not examined beyond 'other objects and caller data intact'",
		"widening: key length 0 / negative, a hash object handed to SM2ZA that already holds data, and private scalars outside [1,n-2] handed to ecdh.NewPrivateKey are not presented (not defined by the property); how a generator samples its scalar is not assumed",
		"widening: writes into the dirty spare capacity behind an input-only argument (identity, key encoding, confirmation value) are reported (key .../spare-capacity-written), separately from a modified argument",
	}
}

var (
	ref   = ecref.SM2()
	curve = sm2ec.P256()
	one   = big.NewInt(1)
)

func pow2(k int) *big.Int { return new(big.Int).Lsh(one, uint(k)) }

// scalar sets --------------------------------------------------------------------------------------------

type named struct {
	name string
	v    *big.Int
}

// patternRs returns the r in 1..4096 for which x([r]G) mod 2^127 and mod 2^128 are minimal / maximal.
func patternRs() []named {
	g := ref.G()
	acc := ecref.Inf()
	m127 := new(big.Int).Sub(pow2(127), one)
	m128 := new(big.Int).Sub(pow2(128), one)
	type best struct {
		r int
		v *big.Int
	}
	var lo127, hi127, lo128, hi128 best
	for r := 1; r <= 4096; r++ {
		acc = ref.Add(acc, g)
		a := new(big.Int).And(acc.X, m127)
		b := new(big.Int).And(acc.X, m128)
		if lo127.v == nil || a.Cmp(lo127.v) < 0 {
			lo127 = best{r, a}
		}
		if hi127.v == nil || a.Cmp(hi127.v) > 0 {
			hi127 = best{r, a}
		}
		if lo128.v == nil || b.Cmp(lo128.v) < 0 {
			lo128 = best{r, b}
		}
		if hi128.v == nil || b.Cmp(hi128.v) > 0 {
			hi128 = best{r, b}
		}
	}
	return []named{
		{fmt.Sprintf("xlow127min(r=%d)", lo127.r), big.NewInt(int64(lo127.r))},
		{fmt.Sprintf("xlow127max(r=%d)", hi127.r), big.NewInt(int64(hi127.r))},
		{fmt.Sprintf("xlow128min(r=%d)", lo128.r), big.NewInt(int64(lo128.r))},
		{fmt.Sprintf("xlow128max(r=%d)", hi128.r), big.NewInt(int64(hi128.r))},
	}
}

func chainScalar(label string) *big.Int {
	h := [32]byte{}
	copy(h[:], label)
	// a fixed dense value below n: SM3-free, simple arithmetic progression of bytes xor label
	for i := range h {
		h[i] ^= byte(0x9e + 37*i)
	}
	v := new(big.Int).SetBytes(h[:])
	return v.Mod(v, new(big.Int).Sub(ref.N, big.NewInt(2))).Add(v, one)
}

// leadingZeroShapes: the smallest scalars whose multiple of G has a leading zero byte in exactly one coordinate (x only,
// y only). ZA, the confirmation hashes and the KDF input all take coordinates at fixed width.
func leadingZeroShapes() []named {
	var out []named
	for _, k := range c06.Keys() {
		if strings.HasPrefix(k.Name, "d=pub-") {
			out = append(out, named{strings.TrimPrefix(k.Name, "d="), k.D})
		}
	}
	return out
}

func scalarSets(quick bool) (ds, rs []named) {
	defer func() {
		lz := leadingZeroShapes()
		ds = append(ds, lz...)
		rs = append(rs, lz...)
	}()
	n := ref.N
	pat := patternRs()
	nm := func(k int64) *big.Int { return new(big.Int).Sub(n, big.NewInt(k)) }
	p127, p128 := pow2(127), pow2(128)
	if quick {
		ds = []named{{"1", big.NewInt(1)}, {"2", big.NewInt(2)}, {"n-2", nm(2)}, {"2^127", p127}, {"2^127-1", new(big.Int).Sub(p127, one)},
			{"2^128-1", new(big.Int).Sub(p128, one)}, pat[0], pat[1]}
		rs = []named{{"1", big.NewInt(1)}, {"3", big.NewInt(3)}, {"n-1", nm(1)}, {"n-2", nm(2)}, {"2^127+1", new(big.Int).Add(p127, one)},
			{"2^128-1", new(big.Int).Sub(p128, one)}, pat[0], pat[1]}
		return
	}
	ds = []named{{"1", big.NewInt(1)}, {"2", big.NewInt(2)}, {"3", big.NewInt(3)}, {"n-2", nm(2)}, {"n-3", nm(3)}, {"2^127", p127},
		{"2^127+1", new(big.Int).Add(p127, one)}, {"2^127-1", new(big.Int).Sub(p127, one)}, {"2^128-1", new(big.Int).Sub(p128, one)},
		pat[0], pat[1], pat[2], pat[3], {"chainD", chainScalar("d")}}
	rs = []named{{"1", big.NewInt(1)}, {"2", big.NewInt(2)}, {"3", big.NewInt(3)}, {"n-2", nm(2)}, {"n-1", nm(1)}, {"2^127", p127},
		{"2^127+1", new(big.Int).Add(p127, one)}, {"2^127-1", new(big.Int).Sub(p127, one)}, {"2^128-1", new(big.Int).Sub(p128, one)},
		pat[0], pat[1], pat[2], pat[3], {"chainR", chainScalar("r")}}
	return
}

// options ------------------------------------------------------------------------------------------------

func uidOf(n int, salt byte) []byte {
	if n == 0 {
		return nil
	}
	b := make([]byte, n)
	for i := range b {
		b[i] = byte(i*7+3) ^ salt ^ byte(i>>8)
	}
	return b
}

var uidLens = []int{0, 1, 16, 64, 8191}
var klens = []int{1, 16, 32, 33, 48, 97, 256}

// confirmation modes: which side asks for confirmation values (genSignature of initiator, of responder)
var confModes = []struct {
	name   string
	gi, gr bool
}{{"both", true, true}, {"none", false, false}, {"initiator-only", true, false}, {"responder-only", false, true}}

type options struct {
	uidA, uidB []byte
	klen       int
	conf       int
}

func (o options) String() string {
	return fmt.Sprintf("uidA=%dB uidB=%dB klen=%d conf=%s", len(o.uidA), len(o.uidB), o.klen, confModes[o.conf].name)
}

func optionsAt(i int) options {
	u := i % 25
	return options{uidA: uidOf(uidLens[u/5], 0xa0), uidB: uidOf(uidLens[u%5], 0x0b), klen: klens[i%7], conf: (i / 7) % 4}
}

func effUID(u []byte) []byte {
	if len(u) == 0 {
		return ecref.DefaultUID
	}
	return u
}

// one protocol run ------------------------------------------------------------------------------------------

func b32(v *big.Int) []byte { return v.FillBytes(make([]byte, 32)) }

func toPub(p ecref.Point) *ecdsa.PublicKey {
	return &ecdsa.PublicKey{Curve: curve, X: new(big.Int).Set(p.X), Y: new(big.Int).Set(p.Y)}
}

func samePoint(k *ecdsa.PublicKey, p ecref.Point) bool {
	return k != nil && k.X != nil && k.Y != nil && !p.Inf && k.X.Cmp(p.X) == 0 && k.Y.Cmp(p.Y) == 0
}

type tuple struct {
	dA, dB, rA, rB named
}

func (tp tuple) String() string {
	return fmt.Sprintf("dA=%s dB=%s rA=%s rB=%s", tp.dA.name, tp.dB.name, tp.rA.name, tp.rB.name)
}

// runTuple executes the complete exchange for one tuple and one option set on both implementations.
// keyPrefix distinguishes the product from the special families in the finding keys.
func runTuple(t *engine.T, kr *kxRef, tp tuple, o options, keyPrefix string) {
	dA, dB, rA, rB := tp.dA.v, tp.dB.v, tp.rA.v, tp.rB.v
	PB, RA, RB := kr.G(dB), kr.G(rA), kr.G(rB)
	ka := kr.result(dA, dB, rA, rB, effUID(o.uidA), effUID(o.uidB), o.klen)
	ctx := tp.String() + " " + o.String()
	cm := confModes[o.conf]
	if ka.OK {
		t.Outcome("ref/key")
	} else {
		t.Outcome("ref/V=infinity")
	}

	// ---- sm2.KeyExchange (math/big implementation)
	t.Guard(keyPrefix+"/sm2", func() {
		privA, err := sm2.NewPrivateKey(b32(dA))
		if err != nil {
			t.Fail(keyPrefix+"/sm2/NewPrivateKey", "%s: NewPrivateKey(dA): %v", ctx, err)
			return
		}
		privB, err := sm2.NewPrivateKey(b32(dB))
		if err != nil {
			t.Fail(keyPrefix+"/sm2/NewPrivateKey", "%s: NewPrivateKey(dB): %v", ctx, err)
			return
		}
		ua, ub := adjacentUIDs(o.uidA, o.uidB)
		ini, err := sm2.NewKeyExchange(privA, &privB.PublicKey, ua, ub, o.klen, cm.gi)
		if err != nil {
			t.Fail(keyPrefix+"/sm2/NewKeyExchange", "%s: initiator: %v", ctx, err)
			return
		}
		ub2, ua2 := adjacentUIDs(o.uidB, o.uidA)
		rsp, err := sm2.NewKeyExchange(privB, &privA.PublicKey, ub2, ua2, o.klen, cm.gr)
		if err != nil {
			t.Fail(keyPrefix+"/sm2/NewKeyExchange", "%s: responder: %v", ctx, err)
			return
		}
		rdA := engine.NewScriptReader(b32(rA))
		gotRA, err := ini.InitKeyExchange(rdA)
		t.Eval(1)
		if err != nil || !samePoint(gotRA, RA) {
			t.Fail(keyPrefix+"/sm2/Init/ephemeral-point", "%s: InitKeyExchange = %v, %v; want [rA]G", ctx, gotRA, err)
			return
		}
		if rdA.Calls != 1 || rdA.Consumed != 32 {
			t.Fail(keyPrefix+"/sm2/Init/reader-use", "%s: InitKeyExchange made %d reads, %d bytes", ctx, rdA.Calls, rdA.Consumed)
		}
		// hand the responder a copy of R_A (the returned pointer aliases the initiator's state)
		rdB := engine.NewScriptReader(b32(rB))
		gotRB, sB, err := rsp.RepondKeyExchange(rdB, toPub(RA))
		t.Eval(1)
		if !ka.OK {
			if err == nil {
				t.Fail(keyPrefix+"/sm2/Respond/accepts-V-infinity", "%s: RepondKeyExchange succeeded although V is the point at infinity", ctx)
			}
			// the initiator must fail as well
			_, _, err2 := ini.ConfirmResponder(toPub(RB), nil)
			t.Eval(1)
			if err2 == nil {
				t.Fail(keyPrefix+"/sm2/ConfirmResponder/accepts-U-infinity", "%s: ConfirmResponder succeeded although U is the point at infinity", ctx)
			}
			// a responder whose RepondKeyExchange failed must not hand out a key either
			if err != nil {
				t.Guard(keyPrefix+"/sm2/ConfirmInitiator-after-V-infinity", func() {
					key, err3 := rsp.ConfirmInitiator(nil)
					t.Eval(1)
					if err3 == nil {
						t.Fail(keyPrefix+"/sm2/ConfirmInitiator-after-V-infinity/key-derived", "%s: ConfirmInitiator returned key %x after RepondKeyExchange failed with V = infinity", ctx, key)
					}
				})
			}
			return
		}
		if err != nil || !samePoint(gotRB, RB) {
			t.Fail(keyPrefix+"/sm2/Respond/ephemeral-point", "%s: RepondKeyExchange = %v, %v; want [rB]G", ctx, gotRB, err)
			return
		}
		if cm.gr != (sB != nil) || (cm.gr && !bytes.Equal(sB, ka.S1)) {
			t.Fail(keyPrefix+"/sm2/Respond/SB", "%s: S_B = %x want %x (requested=%v)", ctx, sB, ka.S1, cm.gr)
			return
		}
		keyA, sA, err := ini.ConfirmResponder(toPub(RB), sB)
		t.Eval(1)
		if err != nil {
			t.Fail(keyPrefix+"/sm2/ConfirmResponder/rejects-valid", "%s: ConfirmResponder: %v", ctx, err)
			return
		}
		if !bytes.Equal(keyA, ka.Key) {
			t.Fail(keyPrefix+"/sm2/initiator-key", "%s: K_A = %x want %x", ctx, keyA, ka.Key)
		}
		if cm.gi != (sA != nil) || (cm.gi && !bytes.Equal(sA, ka.S2)) {
			t.Fail(keyPrefix+"/sm2/ConfirmResponder/SA", "%s: S_A = %x want %x (requested=%v)", ctx, sA, ka.S2, cm.gi)
			return
		}
		keyB, err := rsp.ConfirmInitiator(sA)
		t.Eval(1)
		if err != nil {
			t.Fail(keyPrefix+"/sm2/ConfirmInitiator/rejects-valid", "%s: ConfirmInitiator: %v", ctx, err)
			return
		}
		if !bytes.Equal(keyB, ka.Key) {
			t.Fail(keyPrefix+"/sm2/responder-key", "%s: K_B = %x want %x", ctx, keyB, ka.Key)
		}
		t.Outcome("sm2/key")
	})

	// ---- ecdh (byte-oriented implementation)
	t.Guard(keyPrefix+"/ecdh", func() {
		c := ecdh.P256()
		mk := func(v *big.Int) *ecdh.PrivateKey {
			k, err := c.NewPrivateKey(b32(v))
			if err != nil {
				return nil
			}
			return k
		}
		sA, sB, eA, eB := mk(dA), mk(dB), mk(rA), mk(rB)
		if sA == nil || sB == nil {
			t.Fail(keyPrefix+"/ecdh/NewPrivateKey", "%s: static key rejected", ctx)
			return
		}
		if eA == nil || eB == nil {
			nm1 := new(big.Int).Sub(ref.N, one)
			if (eA == nil && rA.Cmp(nm1) != 0) || (eB == nil && rB.Cmp(nm1) != 0) {
				t.Fail(keyPrefix+"/ecdh/NewPrivateKey", "%s: ephemeral key rejected", ctx)
			}
			t.Outcome("ecdh/skipped-r=n-1")
			return
		}
		if !bytes.Equal(eA.PublicKey().Bytes(), RA.Uncompressed()) || !bytes.Equal(sB.PublicKey().Bytes(), PB.Uncompressed()) {
			t.Fail(keyPrefix+"/ecdh/public-key", "%s: PublicKey() differs from [k]G", ctx)
			return
		}
		uvA, errA := sA.SM2MQV(eA, sB.PublicKey(), eB.PublicKey())
		uvB, errB := sB.SM2MQV(eB, sA.PublicKey(), eA.PublicKey())
		t.Eval(2)
		if !ka.OK {
			if errA == nil || errB == nil {
				t.Fail(keyPrefix+"/ecdh/SM2MQV/accepts-infinity", "%s: SM2MQV succeeded (%v,%v) although the shared point is infinity", ctx, errA, errB)
			}
			return
		}
		if errA != nil || errB != nil {
			t.Fail(keyPrefix+"/ecdh/SM2MQV/rejects-valid", "%s: SM2MQV: %v / %v", ctx, errA, errB)
			return
		}
		if !bytes.Equal(uvA.Bytes(), uvB.Bytes()) {
			t.Fail(keyPrefix+"/ecdh/SM2MQV/points-differ", "%s: U = %x, V = %x", ctx, uvA.Bytes(), uvB.Bytes())
		}
		// record layouts: the initiator holds ownID||peerID, the responder peerID||ownID, each in one array with ample
		// dirty slack behind it; the second pass reuses the same records (a second session from the same buffers)
		iaOwn, iaPeer := adjacentUIDs(o.uidA, o.uidB)
		rbPeer, rbOwn := adjacentUIDs(o.uidA, o.uidB)
		var keyA, keyB []byte
		for pass := 0; pass < 2; pass++ {
			kA, eA2 := uvA.SM2SharedKey(false, o.klen, sA.PublicKey(), sB.PublicKey(), iaOwn, iaPeer)
			kB, eB2 := uvB.SM2SharedKey(true, o.klen, sB.PublicKey(), sA.PublicKey(), rbOwn, rbPeer)
			t.Eval(2)
			if !bytes.Equal(iaOwn, o.uidA) || !bytes.Equal(iaPeer, o.uidB) || !bytes.Equal(rbPeer, o.uidA) || !bytes.Equal(rbOwn, o.uidB) {
				t.Fail(keyPrefix+"/ecdh/SM2SharedKey/caller-memory-modified", "%s: an identity argument was modified by SM2SharedKey (record layout own||peer resp. peer||own, pass %d)", ctx, pass)
				return
			}
			if pass == 1 && (!bytes.Equal(kA, keyA) || !bytes.Equal(kB, keyB) || (eA2 == nil) != (errA == nil) || (eB2 == nil) != (errB == nil)) {
				t.Fail(keyPrefix+"/ecdh/SM2SharedKey/second-call-differs", "%s: the same call on the same buffers gives %x/%x, then %x/%x", ctx, keyA, keyB, kA, kB)
				return
			}
			keyA, keyB, errA, errB = kA, kB, eA2, eB2
		}
		if errA != nil || errB != nil {
			t.Fail(keyPrefix+"/ecdh/SM2SharedKey/error", "%s: %v / %v", ctx, errA, errB)
			return
		}
		if !bytes.Equal(keyA, ka.Key) {
			t.Fail(keyPrefix+"/ecdh/initiator-key", "%s: K_A = %x want %x", ctx, keyA, ka.Key)
		}
		if !bytes.Equal(keyB, ka.Key) {
			t.Fail(keyPrefix+"/ecdh/responder-key", "%s: K_B = %x want %x", ctx, keyB, ka.Key)
		}
		t.Outcome("ecdh/key")
	})
}

func (Prop) Run(c *engine.Ctx) {
	quick := c.Quick()
	ds, rs := scalarSets(quick)

	// ---- E2: the 4-fold scalar product, options rotating with the tuple index --------------------------
	idx := 0
	for _, dA := range ds {
		for _, dB := range ds {
			dA, dB := dA, dB
			base := idx
			idx += len(rs) * len(rs)
			c.Case(fmt.Sprintf("product/dA=%s/dB=%s", dA.name, dB.name), func(t *engine.T) {
				kr := newKXRef()
				i := base
				for _, rA := range rs {
					for _, rB := range rs {
						tp := tuple{dA, dB, rA, rB}
						o := optionsAt(i)
						runTuple(t, kr, tp, o, "kx")
						t.Nontrivial(fmt.Sprintf("product/%s/%d", tp.String(), i%700))
						if i == 1 {
							t.Sample(map[string]any{"tuple": tp.String(), "options": o.String()})
						}
						i++
					}
				}
			})
		}
	}

	// ---- E2: full option product on fixed tuples -----------------------------------------------------------
	hx := func(s string) *big.Int { v, _ := new(big.Int).SetString(s, 16); return v }
	fixed := []tuple{
		{named{"gbt-dA", hx("81EB26E941BB5AF16DF116495F90695272AE2CD63D6C4AE1678418BE48230029")}, named{"gbt-dB", hx("785129917D45A9EA5437A59356B82338EAADDA6CEB199088F14AE10DEFA229B5")},
			named{"gbt-rA", hx("D4DE15474DB74D06491C440D305E012400990F3E390C7E87153C12DB2EA60BB3")}, named{"gbt-rB", hx("7E07124814B309489125EAED101113164EBF0F3458C5BD88335C1F9D596243D6")}},
		{ds[2], ds[0], rs[2], rs[len(rs)-1]},
	}
	if !quick {
		fixed = append(fixed, tuple{ds[len(ds)-1], ds[3], rs[len(rs)-1], rs[4]}, tuple{ds[5], ds[len(ds)-2], rs[0], rs[len(rs)-2]})
	}
	for fi, tp := range fixed {
		for ua := range uidLens {
			fi, tp, ua := fi, tp, ua
			c.Case(fmt.Sprintf("options/tuple#%d/uidA=%dB", fi, uidLens[ua]), func(t *engine.T) {
				kr := newKXRef()
				for ub := range uidLens {
					for _, kl := range klens {
						for cf := range confModes {
							o := options{uidA: uidOf(uidLens[ua], 0xa0), uidB: uidOf(uidLens[ub], 0x0b), klen: kl, conf: cf}
							runTuple(t, kr, tp, o, "kx-options")
							t.Nontrivial("options/" + o.String())
						}
					}
				}
				if fi == 0 && ua == 0 {
					t.Sample(map[string]any{"tuple": tp.String(), "options": "all 5 uidB x 7 klen x 4 confirmation modes"})
				}
			})
		}
	}
	c.Case("options/uid-edge", func(t *engine.T) { uidEdges(t, fixed[0]) })

	// ---- exceptional tuples --------------------------------------------------------------------------------
	c.Case("exceptional", func(t *engine.T) { exceptional(t, ds, rs) })

	// ---- plain ECDH ------------------------------------------------------------------------------------------
	c.Case("ecdh/plain", func(t *engine.T) { plainECDH(t, ds, rs) })
	c.Case("ecdh/scalar-range/limb-boundaries", scalarRange)

	// ---- rejection ---------------------------------------------------------------------------------------------
	c.Case("reject/ephemeral-peer-point", func(t *engine.T) { rejectEphemeral(t, fixed[0]) })
	c.Case("reject/static-peer-point", func(t *engine.T) { rejectStatic(t, fixed[0]) })
	c.Case("reject/ecdh-peer-encoding", func(t *engine.T) { rejectECDH(t, fixed[0]) })
	for fi, tp := range fixed {
		fi, tp := fi, tp
		c.Case(fmt.Sprintf("reject/confirmation/tuple#%d", fi), func(t *engine.T) { rejectConfirmation(t, tp) })
	}

	// ---- E1 histories --------------------------------------------------------------------------------------
	depth := 5
	if quick {
		depth = 4
	}
	for _, peerAtCtor := range []bool{true, false} {
		for _, gen := range []bool{true, false} {
			peerAtCtor, gen := peerAtCtor, gen
			c.Case(fmt.Sprintf("history/bfs/depth=%d/peerAtCtor=%v/confirm=%v", depth, peerAtCtor, gen), func(t *engine.T) {
				engine.BFS(t, machine(fixed[0], peerAtCtor, gen), depth)
			})
		}
	}

	// ---- widening along the generic input dimensions (widen*.go) ------------------------------------------
	widen(c, fixed, ds, rs)
}

// adjacentUIDs lays the two identities out as one record (own uid directly followed by the peer uid, the first one's
// capacity reaching over the second): results must not depend on what lies behind an argument.
func adjacentUIDs(a, b []byte) ([]byte, []byte) {
	if len(a) == 0 {
		return a, b
	}
	rec := make([]byte, len(a)+len(b)+256) // ample dirty slack: any append the callee does lands in place
	copy(rec, a)
	copy(rec[len(a):], b)
	for i := len(a) + len(b); i < len(rec); i++ {
		rec[i] = 0xD1
	}
	return rec[:len(a):len(rec)], rec[len(a) : len(a)+len(b) : len(rec)]
}
