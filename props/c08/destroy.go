package c08

// In-process exchange where the parties hand each other the *ecdsa.PublicKey POINTERS the library returns (as the
// library's own tests do), and one party tears its object down (Destroy) before the other has run its last step.
// Destroy may clear what belongs to the object (its scalar, the agreed point, the Z values); the ephemeral public
// keys it handed out or received are shared with the peer and the caller. Oracle: the party that is still running
// completes with the key of an undisturbed run, and the pointer values the caller holds are unchanged.

import (
	"bytes"
	"crypto/ecdsa"
	"crypto/elliptic"
	"fmt"
	"math/big"

	"github.com/emmansun/gmsm/sm2"

	"verif/engine"
	"verif/ref/ecref"
)

// runPeerCurveField: the Curve field of the peer's ephemeral *ecdsa.PublicKey is caller-controlled like its
// coordinates: nil, another curve on which the coordinates ARE valid, another curve with SM2 coordinates, a wrapper that
// only shares the parameters. Whatever the object says about itself, the point must be judged on the curve of the
// exchange: a point that is not on the SM2 curve is refused with an error, an SM2 point gives the right key or an
// error, and nothing panics.
func runPeerCurveField(c *engine.Ctx, tp tuple) {
	c.Case("peer-key/curve-field-variants", func(t *engine.T) {
		dA, dB, rA, rB := tp.dA.v, tp.dB.v, tp.rA.v, tp.rB.v
		pubA, pubB := ref.BaseMul(dA), ref.BaseMul(dB)
		RAref, RBref := ref.BaseMul(rA), ref.BaseMul(rB)
		nx, ny := elliptic.P256().ScalarBaseMult([]byte{9})
		type variant struct {
			name  string
			mk    func(p ecref.Point) *ecdsa.PublicKey
			onSM2 bool
		}
		vs := []variant{
			{"curve=nil,sm2-point", func(p ecref.Point) *ecdsa.PublicKey {
				return &ecdsa.PublicKey{X: new(big.Int).Set(p.X), Y: new(big.Int).Set(p.Y)}
			}, true},
			{"curve=nist-p256,nist-point", func(p ecref.Point) *ecdsa.PublicKey {
				return &ecdsa.PublicKey{Curve: elliptic.P256(), X: new(big.Int).Set(nx), Y: new(big.Int).Set(ny)}
			}, false},
			{"curve=nist-p256,sm2-point", func(p ecref.Point) *ecdsa.PublicKey {
				return &ecdsa.PublicKey{Curve: elliptic.P256(), X: new(big.Int).Set(p.X), Y: new(big.Int).Set(p.Y)}
			}, true},
			{"curve=sm2,nist-point", func(p ecref.Point) *ecdsa.PublicKey {
				return &ecdsa.PublicKey{Curve: curve, X: new(big.Int).Set(nx), Y: new(big.Int).Set(ny)}
			}, false},
			{"curve=p384,sm2-point", func(p ecref.Point) *ecdsa.PublicKey {
				return &ecdsa.PublicKey{Curve: elliptic.P384(), X: new(big.Int).Set(p.X), Y: new(big.Int).Set(p.Y)}
			}, true},
		}
		mkPriv := func(d *big.Int) *sm2.PrivateKey {
			k, err := sm2.NewPrivateKeyFromInt(d)
			if err != nil {
				panic(err)
			}
			return k
		}
		for _, conf := range []bool{false, true} {
			want := ref.KeyExchange(true, dA, rA, []byte("A-id"), []byte("B-id"), pubB, RBref, 32)
			for _, v := range vs {
				// responder receives the variant as R_A
				{
					rsp, err := sm2.NewKeyExchange(mkPriv(dB), toPub(pubA), []byte("B-id"), []byte("A-id"), 32, conf)
					if err == nil {
						key := "peer-key/curve-field/" + v.name + "/respond"
						var e error
						t.Eval(1)
						if !t.Guard(key, func() { _, _, e = rsp.RepondKeyExchange(engine.NewScriptReader(b32(rB)), v.mk(RAref)) }) {
							if !v.onSM2 && e == nil {
								t.Fail(key+"/off-curve-point-accepted", "conf=%v: RepondKeyExchange accepted a point that is not on the SM2 curve", conf)
							}
							if e == nil {
								t.Outcome(key + "/accepted")
							} else {
								t.Outcome(key + "/refused")
							}
						}
					}
				}
				// initiator receives the variant as R_B
				{
					ini, err := sm2.NewKeyExchange(mkPriv(dA), toPub(pubB), []byte("A-id"), []byte("B-id"), 32, false)
					if err == nil {
						key := "peer-key/curve-field/" + v.name + "/confirm-responder"
						if _, err := ini.InitKeyExchange(engine.NewScriptReader(b32(rA))); err != nil {
							continue
						}
						var k []byte
						var e error
						t.Eval(1)
						if !t.Guard(key, func() { k, _, e = ini.ConfirmResponder(v.mk(RBref), nil) }) {
							switch {
							case !v.onSM2 && e == nil:
								t.Fail(key+"/off-curve-point-accepted", "ConfirmResponder accepted a point that is not on the SM2 curve (key %x)", k)
							case v.onSM2 && e == nil && want.OK && !bytes.Equal(k, want.Key):
								t.Fail(key+"/wrong-key", "ConfirmResponder with the SM2 point under Curve variant %s gives %x, reference %x", v.name, k, want.Key)
							}
						}
					}
				}
				t.Nontrivial("peer-key/curve-field/" + v.name)
			}
		}
	})
}

func runDestroy(c *engine.Ctx, tuples []tuple) {
	runPeerCurveField(c, tuples[0])
	for ti, tp := range tuples {
		ti, tp := ti, tp
		c.Case(fmt.Sprintf("destroy/shared-ephemeral-pointers/tuple#%d", ti), func(t *engine.T) {
			dA, dB, rA, rB := tp.dA.v, tp.dB.v, tp.rA.v, tp.rB.v
			pubA, pubB := ref.BaseMul(dA), ref.BaseMul(dB)
			uidA, uidB := []byte("Alice-destroy"), []byte("Bob-destroy")
			priv := func(d *big.Int, p ecref.Point) *sm2.PrivateKey {
				k, err := sm2.NewPrivateKeyFromInt(d)
				if err != nil {
					panic(err)
				}
				return k
			}
			for _, conf := range []bool{false, true} {
				mk := func() (ini, rsp *sm2.KeyExchange, ok bool) {
					var e1, e2 error
					ini, e1 = sm2.NewKeyExchange(priv(dA, pubA), toPub(pubB), uidA, uidB, 32, conf)
					rsp, e2 = sm2.NewKeyExchange(priv(dB, pubB), toPub(pubA), uidB, uidA, 32, conf)
					if e1 != nil || e2 != nil {
						t.Fail("destroy/setup", "NewKeyExchange: %v %v", e1, e2)
						return nil, nil, false
					}
					return ini, rsp, true
				}
				// undisturbed run
				ini, rsp, ok := mk()
				if !ok {
					return
				}
				RA, err := ini.InitKeyExchange(engine.NewScriptReader(b32(rA)))
				if err != nil {
					t.Outcome("destroy/clean-run-refused")
					continue
				}
				RB, SB, err := rsp.RepondKeyExchange(engine.NewScriptReader(b32(rB)), RA)
				if err != nil {
					t.Outcome("destroy/clean-run-refused")
					continue
				}
				keyA, SA, err := ini.ConfirmResponder(RB, SB)
				if err != nil {
					t.Outcome("destroy/clean-run-refused")
					continue
				}
				keyB, err := rsp.ConfirmInitiator(SA)
				if err != nil || !bytes.Equal(keyA, keyB) {
					t.Fail("destroy/clean-run", "undisturbed run: %v, keys %x / %x", err, keyA, keyB)
					continue
				}
				t.Eval(4)
				snap := func(p *ecdsa.PublicKey) [2]string { return [2]string{p.X.Text(16), p.Y.Text(16)} }
				// variant 1: the responder finishes first and destroys its object before the initiator confirms
				{
					ini, rsp, _ := mk()
					RA, _ := ini.InitKeyExchange(engine.NewScriptReader(b32(rA)))
					sRA := snap(RA)
					RB, SB, err := rsp.RepondKeyExchange(engine.NewScriptReader(b32(rB)), RA)
					if err == nil {
						sRB := snap(RB)
						if !conf {
							if kb, err := rsp.ConfirmInitiator(nil); err != nil || !bytes.Equal(kb, keyB) {
								t.Fail("destroy/responder-first/responder-key", "conf=%v: %v", conf, err)
							}
						}
						t.Guard("destroy/responder-first", func() { rsp.Destroy() })
						if snap(RA) != sRA {
							t.Fail("destroy/responder-first/callers-RA-modified", "conf=%v: the initiator's ephemeral public key object (the pointer InitKeyExchange returned and the responder was given) was changed by the responder's Destroy: %v -> %v", conf, sRA, snap(RA))
						}
						if snap(RB) != sRB {
							t.Fail("destroy/responder-first/returned-RB-modified", "conf=%v: the responder's ephemeral public key object handed to the caller was changed by the responder's Destroy", conf)
						} else {
							var ka []byte
							var err error
							if !t.Guard("destroy/responder-first", func() { ka, _, err = ini.ConfirmResponder(RB, SB) }) {
								if err != nil || !bytes.Equal(ka, keyA) {
									t.Fail("destroy/responder-first/initiator-cannot-finish", "conf=%v: after the responder's Destroy the initiator's ConfirmResponder gives err=%v key=%x, undisturbed key %x", conf, err, ka, keyA)
								}
							}
						}
						t.Eval(3)
					}
				}
				// variant 2: the initiator finishes first and destroys its object before the responder confirms
				{
					ini, rsp, _ := mk()
					RA, _ := ini.InitKeyExchange(engine.NewScriptReader(b32(rA)))
					RB, SB, err := rsp.RepondKeyExchange(engine.NewScriptReader(b32(rB)), RA)
					if err == nil {
						ka, SA, err := ini.ConfirmResponder(RB, SB)
						if err == nil && bytes.Equal(ka, keyA) {
							sRA, sRB := snap(RA), snap(RB)
							var keep []byte
							if SA != nil {
								keep = append([]byte{}, SA...)
							}
							t.Guard("destroy/initiator-first", func() { ini.Destroy() })
							if snap(RB) != sRB {
								t.Fail("destroy/initiator-first/callers-RB-modified", "conf=%v: the responder's ephemeral public key object was changed by the initiator's Destroy", conf)
							}
							if snap(RA) != sRA {
								t.Fail("destroy/initiator-first/returned-RA-modified", "conf=%v: the initiator's ephemeral public key object handed to the caller (and held by the responder) was changed by the initiator's Destroy", conf)
							}
							var kb []byte
							if !t.Guard("destroy/initiator-first", func() { kb, err = rsp.ConfirmInitiator(keep) }) {
								if err != nil || !bytes.Equal(kb, keyB) {
									t.Fail("destroy/initiator-first/responder-cannot-finish", "conf=%v: after the initiator's Destroy the responder's ConfirmInitiator gives err=%v key=%x, undisturbed key %x", conf, err, kb, keyB)
								}
							}
							t.Eval(3)
						}
					}
				}
				t.Nontrivial(fmt.Sprintf("destroy/%d/%v", ti, conf))
			}
			// the SAME long-term key objects through three sessions in a row, default identities (nil) and explicit
			// ones alternating, every session object destroyed at its end: each session must give the key of the first
			{
				ka, kb := priv(dA, pubA), priv(dB, pubB)
				var first [2][]byte
				for round := 0; round < 4; round++ {
					var ua, ub []byte
					if round == 2 {
						ua, ub = uidA, uidB
					}
					ini, e1 := sm2.NewKeyExchange(ka, &kb.PublicKey, ua, ub, 32, true)
					rsp, e2 := sm2.NewKeyExchange(kb, &ka.PublicKey, ub, ua, 32, true)
					if e1 != nil || e2 != nil {
						t.Fail("destroy/setup", "NewKeyExchange: %v %v", e1, e2)
						break
					}
					RA, err := ini.InitKeyExchange(engine.NewScriptReader(b32(rA)))
					if err != nil {
						break
					}
					RB, SB, err := rsp.RepondKeyExchange(engine.NewScriptReader(b32(rB)), RA)
					if err != nil {
						break
					}
					k1, SA, err := ini.ConfirmResponder(RB, SB)
					var k2 []byte
					if err == nil {
						k2, err = rsp.ConfirmInitiator(SA)
					}
					t.Eval(4)
					idx := 0
					if round == 2 {
						idx = 1
					}
					switch {
					case err != nil || !bytes.Equal(k1, k2):
						t.Fail("destroy/sessions-on-one-key-object/session-fails", "session %d on the same key objects (after %d destroyed sessions): err=%v keys %x / %x", round+1, round, err, k1, k2)
					case first[idx] == nil:
						first[idx] = k1
					case !bytes.Equal(first[idx], k1):
						t.Fail("destroy/sessions-on-one-key-object/key-differs", "session %d gives %x, the first session with the same inputs gave %x", round+1, k1, first[idx])
					}
					ini.Destroy()
					rsp.Destroy()
				}
				t.Nontrivial(fmt.Sprintf("destroy/sessions/%d", ti))
			}
		})
	}
}
