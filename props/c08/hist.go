package c08

import (
	"bytes"
	"fmt"
	"hash"
	"math/big"

	"github.com/emmansun/gmsm/sm2"
	"github.com/emmansun/gmsm/sm3"

	"verif/engine"
	"verif/ref/ecref"
)

func newSM3() hash.Hash { return sm3.New() }

// E1: operation histories on ONE sm2.KeyExchange object (owner: static key dA of the tuple; peer: dB).
//
// model: what the GB/T 32918.3 flow defines for the data supplied so far.
//   r  : the object's ephemeral scalar: none / known value / open (unknown after a failed step)
//   v  : the derived point: none / valid for (r, peerR) / open
// Oracle: see Prop.Rule.

const (
	stNone = iota
	stKnown
	stOpen
)

type hstate struct {
	ke      *sm2.KeyExchange
	peerSet bool
	rSt     int
	r       *big.Int
	vSt     int
	peerR   ecref.Point
	err     string // set when construction failed
}

const (
	opInit = iota
	opRespond
	opConfRespNil
	opConfRespGood
	opConfRespBad
	opConfInitNil
	opConfInitGood
	opConfInitBad
	opSetPeer
	opRespondOffCurve
	opConfRespOffCurve
)

var opNames = []string{"Init", "Respond", "ConfirmResponder(nil)", "ConfirmResponder(correct S_B)", "ConfirmResponder(wrong S_B)",
	"ConfirmInitiator(nil)", "ConfirmInitiator(correct S_A)", "ConfirmInitiator(wrong S_A)", "SetPeerParameters", "Respond(off-curve R)", "ConfirmResponder(off-curve R)"}

var opFamily = []string{"Init", "Respond", "ConfirmResponder", "ConfirmResponder", "ConfirmResponder", "ConfirmInitiator", "ConfirmInitiator", "ConfirmInitiator", "SetPeerParameters", "Respond", "ConfirmResponder"}

func machine(tp tuple, peerAtCtor, gen bool) engine.Machine[*hstate] {
	const klen = 16
	d, dPeer := tp.dA.v, tp.dB.v
	PPeer := ref.BaseMul(dPeer)
	r1, r2 := tp.rA.v, new(big.Int).Add(tp.rA.v, big.NewInt(2)) // ephemeral scalar drawn by Init / by Respond
	rP := tp.rB.v                                               // the peer's ephemeral scalar (same point offered to Respond and ConfirmResponder)
	RPeer := ref.BaseMul(rP)
	R1, R2 := ref.BaseMul(r1), ref.BaseMul(r2)
	privOwn, errOwn := sm2.NewPrivateKey(b32(d))
	privPeer, errPeer := sm2.NewPrivateKey(b32(dPeer))
	cache := map[string]ecref.KXResult{}
	refKX := func(initiator bool, r *big.Int) ecref.KXResult {
		k := fmt.Sprintf("%v/%x", initiator, r)
		if v, ok := cache[k]; ok {
			return v
		}
		v := ref.KeyExchange(initiator, d, r, ecref.DefaultUID, ecref.DefaultUID, PPeer, RPeer, klen)
		cache[k] = v
		return v
	}
	wrong := func(b []byte) []byte {
		m := append([]byte{}, b...)
		m[len(m)-1] ^= 1
		return m
	}
	filler := bytes.Repeat([]byte{0x5c}, 32)
	name := fmt.Sprintf("sm2.KeyExchange(peerAtCtor=%v,confirm=%v)", peerAtCtor, gen)
	kp := "kx-history/"

	return engine.Machine[*hstate]{
		Name: name,
		Ops:  opNames,
		New: func() *hstate {
			s := &hstate{}
			if errOwn != nil || errPeer != nil {
				s.err = fmt.Sprint(errOwn, errPeer)
				return s
			}
			var err error
			if peerAtCtor {
				s.ke, err = sm2.NewKeyExchange(privOwn, &privPeer.PublicKey, nil, nil, klen, gen)
				s.peerSet = true
			} else {
				s.ke, err = sm2.NewKeyExchange(privOwn, nil, nil, nil, klen, gen)
			}
			if err != nil {
				s.err = err.Error()
			}
			return s
		},
		Key: func(s *hstate) string {
			return fmt.Sprintf("%v/%d/%x/%d|", s.peerSet, s.rSt, s.r, s.vSt) + engine.DumpString(s.ke)
		},
		Step: func(s *hstate, op int, t *engine.T) bool {
			bad := false
			fail := func(key, format string, a ...any) {
				bad = true
				t.Fail(key, format, a...)
			}
			if s.err != "" {
				fail(kp+"setup", "NewKeyExchange failed: %s", s.err)
				return false
			}
			on := opFamily[op]
			panicked := t.Guard(kp+on, func() {
				switch op {
				case opInit:
					got, err := s.ke.InitKeyExchange(engine.NewScriptReader(b32(r1)))
					if err != nil || !samePoint(got, R1) {
						fail(kp+"Init/ephemeral-point", "InitKeyExchange = %v, %v; want [r]G", got, err)
					}
					s.rSt, s.r = stKnown, r1
					if s.vSt != stNone {
						s.vSt = stOpen // the derived point belongs to the previous ephemeral key
					}
					t.Outcome("hist/init")
				case opRespond:
					got, sig, err := s.ke.RepondKeyExchange(engine.NewScriptReader(b32(r2)), toPub(RPeer))
					if !s.peerSet {
						if err == nil {
							fail(kp+"Respond/no-peer-accepted", "RepondKeyExchange succeeded without peer parameters")
						}
						t.Outcome("hist/respond/no-peer")
						return
					}
					want := refKX(false, r2)
					if !want.OK {
						if err == nil {
							fail(kp+"Respond/accepts-V-infinity", "RepondKeyExchange succeeded for V = infinity")
						}
						s.rSt, s.vSt = stOpen, stOpen
						return
					}
					if err != nil {
						fail(kp+"Respond/rejects-valid", "RepondKeyExchange: %v", err)
						s.rSt, s.vSt = stOpen, stOpen
						return
					}
					if !samePoint(got, R2) || gen != (sig != nil) || (gen && !bytes.Equal(sig, want.S1)) {
						fail(kp+"Respond/wrong-output", "RepondKeyExchange = %v, S_B=%x want [r]G, %x", got, sig, want.S1)
					}
					s.rSt, s.r, s.vSt, s.peerR = stKnown, r2, stKnown, RPeer
					t.Outcome("hist/respond/ok")
				case opConfRespNil, opConfRespGood, opConfRespBad:
					var sB []byte
					var want ecref.KXResult
					if s.rSt == stKnown {
						want = refKX(true, s.r)
					}
					switch op {
					case opConfRespGood:
						sB = filler
						if want.OK {
							sB = want.S1
						}
					case opConfRespBad:
						sB = filler
						if want.OK {
							sB = wrong(want.S1)
						}
					}
					key, sig, err := s.ke.ConfirmResponder(toPub(RPeer), sB)
					switch {
					case !s.peerSet:
						if err == nil {
							fail(kp+"ConfirmResponder/no-peer-accepted", "ConfirmResponder returned key %x without peer parameters", key)
						}
						t.Outcome("hist/confresp/no-peer")
					case s.rSt == stNone:
						if err == nil {
							fail(kp+"ConfirmResponder/no-ephemeral-accepted", "ConfirmResponder returned key %x although no ephemeral key was ever generated", key)
						}
						t.Outcome("hist/confresp/no-r")
					case s.rSt == stOpen:
						s.vSt = stOpen
					case !want.OK:
						if err == nil {
							fail(kp+"ConfirmResponder/accepts-U-infinity", "ConfirmResponder succeeded for U = infinity")
						}
						s.vSt = stOpen
					case op == opConfRespBad:
						if err == nil {
							fail(kp+"ConfirmResponder/wrong-SB-accepted", "ConfirmResponder accepted a wrong S_B, key %x", key)
						}
						s.vSt = stOpen
						t.Outcome("hist/confresp/bad-sig")
					default:
						if err != nil {
							fail(kp+"ConfirmResponder/rejects-valid", "ConfirmResponder(S_B %x): %v", sB, err)
							s.vSt = stOpen
							return
						}
						if !bytes.Equal(key, want.Key) || gen != (sig != nil) || (gen && !bytes.Equal(sig, want.S2)) {
							fail(kp+"ConfirmResponder/wrong-output", "ConfirmResponder = key %x S_A %x; want %x %x", key, sig, want.Key, want.S2)
						}
						s.vSt, s.peerR = stKnown, RPeer
						t.Outcome("hist/confresp/ok")
					}
				case opConfInitNil, opConfInitGood, opConfInitBad:
					var s1 []byte
					var want ecref.KXResult
					defined := s.vSt == stKnown && s.rSt == stKnown
					if defined {
						want = refKX(false, s.r)
					}
					switch op {
					case opConfInitGood:
						s1 = filler
						if want.OK {
							s1 = want.S2
						}
					case opConfInitBad:
						s1 = filler
						if want.OK {
							s1 = wrong(want.S2)
						}
					}
					key, err := s.ke.ConfirmInitiator(s1)
					switch {
					case s.vSt == stNone:
						if err == nil {
							fail(kp+"ConfirmInitiator/no-derived-point-accepted", "ConfirmInitiator returned key %x although no shared point was ever derived", key)
						}
						t.Outcome("hist/confinit/no-v")
					case !defined || !want.OK:
						// open
					case op == opConfInitBad:
						if err == nil {
							fail(kp+"ConfirmInitiator/wrong-SA-accepted", "ConfirmInitiator accepted a wrong S_A, key %x", key)
						}
						t.Outcome("hist/confinit/bad-sig")
					default:
						if err != nil {
							fail(kp+"ConfirmInitiator/rejects-valid", "ConfirmInitiator(%x): %v", s1, err)
							return
						}
						if !bytes.Equal(key, want.Key) {
							fail(kp+"ConfirmInitiator/wrong-key", "ConfirmInitiator = %x want %x", key, want.Key)
						}
						t.Outcome("hist/confinit/ok")
					}
				case opRespondOffCurve, opConfRespOffCurve:
					// a refused message in the middle of a history: whatever the object held before, the call returns an
					// error; what a later step makes of the session is left open by the model (no panic is required)
					offCurve := ecref.Point{X: RPeer.X, Y: new(big.Int).Add(RPeer.Y, big.NewInt(1))}
					var err error
					if op == opRespondOffCurve {
						_, _, err = s.ke.RepondKeyExchange(engine.NewScriptReader(b32(r2)), toPub(offCurve))
					} else {
						_, _, err = s.ke.ConfirmResponder(toPub(offCurve), filler)
					}
					if err == nil {
						fail(kp+on+"/accepts-off-curve-point", "%s returned no error", opNames[op])
					}
					if op == opRespondOffCurve {
						s.rSt = stOpen
					}
					if s.vSt != stNone || s.peerSet && (op == opRespondOffCurve || s.rSt != stNone) {
						s.vSt = stOpen
					}
					t.Outcome("hist/refused-point")
				case opSetPeer:
					err := s.ke.SetPeerParameters(&privPeer.PublicKey, nil)
					if s.peerSet {
						if err == nil {
							fail(kp+"SetPeerParameters/repeated-accepted", "SetPeerParameters succeeded although peer parameters were already set")
						}
						t.Outcome("hist/setpeer/repeat")
					} else {
						if err != nil {
							fail(kp+"SetPeerParameters/rejects-valid", "SetPeerParameters: %v", err)
						}
						s.peerSet = true
						t.Outcome("hist/setpeer/ok")
					}
				}
			})
			return !panicked && !bad
		},
	}
}
