package c08

import (
	"bytes"
	"fmt"
	"math/big"

	"verif/ref/ecref"
	"verif/ref/sm3ref"
)

// kxRef evaluates GB/T 32918.3 with the ecref primitives (affine Add/Mul, ZA) and caches the pieces that repeat
// across the products: [k]G per scalar, the peer sum W = P + [x̄]R per (d, r) pair, the shared point per tuple,
// Z per (UID, key). SelfTest validates it against the uncached ecref.KeyExchange (both roles), which is
// anchored by the GB/T 32918.5 annex B example.
type kxRef struct {
	base map[string]ecref.Point
	w    map[string]ecref.Point
	v    map[string]ecref.Point
	za   map[string][]byte
}

func newKXRef() *kxRef {
	return &kxRef{base: map[string]ecref.Point{}, w: map[string]ecref.Point{}, v: map[string]ecref.Point{}, za: map[string][]byte{}}
}

func (k *kxRef) G(s *big.Int) ecref.Point {
	key := s.Text(16)
	if p, ok := k.base[key]; ok {
		return p
	}
	p := ref.BaseMul(s)
	k.base[key] = p
	return p
}

// avf: x̄ = 2^w + (x & (2^w - 1)), w = ceil(ceil(log2 n)/2) - 1 = 127
func avf(x *big.Int) *big.Int {
	w := uint((ref.N.BitLen()+1)/2 - 1)
	m := new(big.Int).Lsh(one, w)
	r := new(big.Int).And(x, new(big.Int).Sub(m, one))
	return r.Add(r, m)
}

// W = P + [x̄(R)]R for the party holding (d, r)
func (k *kxRef) W(d, r *big.Int) ecref.Point {
	key := d.Text(16) + "/" + r.Text(16)
	if p, ok := k.w[key]; ok {
		return p
	}
	P, R := k.G(d), k.G(r)
	p := ref.Add(P, ref.Mul(avf(R.X), R))
	k.w[key] = p
	return p
}

// T = (d + x̄(R) r) mod n
func (k *kxRef) T(d, r *big.Int) *big.Int {
	t := new(big.Int).Mul(avf(k.G(r).X), r)
	t.Add(t, d)
	return t.Mod(t, ref.N)
}

// U is the initiator's shared point [h tA](PB + [x̄B]RB), h = 1.
func (k *kxRef) U(dA, dB, rA, rB *big.Int) ecref.Point {
	key := dA.Text(16) + "/" + dB.Text(16) + "/" + rA.Text(16) + "/" + rB.Text(16)
	if p, ok := k.v[key]; ok {
		return p
	}
	p := ref.Mul(k.T(dA, rA), k.W(dB, rB))
	k.v[key] = p
	return p
}

func (k *kxRef) Z(uid []byte, d *big.Int) []byte {
	key := fmt.Sprintf("%x/%s", uid, d.Text(16))
	if z, ok := k.za[key]; ok {
		return z
	}
	z := ref.ZA(uid, k.G(d))
	k.za[key] = z
	return z
}

// result is K, S1 (= S_B, tag 02) and S2 (= S_A, tag 03) for initiator A and responder B.
func (k *kxRef) result(dA, dB, rA, rB *big.Int, uidA, uidB []byte, klen int) ecref.KXResult {
	u := k.U(dA, dB, rA, rB)
	if u.Inf {
		return ecref.KXResult{}
	}
	xv, yv := ecref.Bytes32(u.X), ecref.Bytes32(u.Y)
	za, zb := k.Z(uidA, dA), k.Z(uidB, dB)
	RA, RB := k.G(rA), k.G(rB)
	cat := func(parts ...[]byte) []byte {
		var r []byte
		for _, p := range parts {
			r = append(r, p...)
		}
		return r
	}
	key := sm3ref.KDF(cat(xv, yv, za, zb), klen)
	inner := sm3ref.Sum(cat(xv, za, zb, ecref.Bytes32(RA.X), ecref.Bytes32(RA.Y), ecref.Bytes32(RB.X), ecref.Bytes32(RB.Y)))
	s1 := sm3ref.Sum(cat([]byte{2}, yv, inner[:]))
	s2 := sm3ref.Sum(cat([]byte{3}, yv, inner[:]))
	return ecref.KXResult{Key: key, S1: s1[:], S2: s2[:], OK: true}
}

func sameKX(a, b ecref.KXResult) bool {
	return a.OK == b.OK && bytes.Equal(a.Key, b.Key) && bytes.Equal(a.S1, b.S1) && bytes.Equal(a.S2, b.S2)
}

func selfTest() error {
	if err := ecref.SelfTest(); err != nil {
		return err
	}
	k := newKXRef()
	n := ref.N
	hx := func(s string) *big.Int { v, _ := new(big.Int).SetString(s, 16); return v }
	tuples := [][4]*big.Int{
		{hx("81EB26E941BB5AF16DF116495F90695272AE2CD63D6C4AE1678418BE48230029"), hx("785129917D45A9EA5437A59356B82338EAADDA6CEB199088F14AE10DEFA229B5"),
			hx("D4DE15474DB74D06491C440D305E012400990F3E390C7E87153C12DB2EA60BB3"), hx("7E07124814B309489125EAED101113164EBF0F3458C5BD88335C1F9D596243D6")},
		{big.NewInt(1), big.NewInt(2), big.NewInt(3), new(big.Int).Sub(n, one)},
		{new(big.Int).Sub(n, big.NewInt(2)), pow2(127), new(big.Int).Sub(pow2(128), one), big.NewInt(1)},
		{chainScalar("d"), chainScalar("x"), chainScalar("r"), chainScalar("y")},
	}
	uids := [][2][]byte{{ecref.DefaultUID, ecref.DefaultUID}, {uidOf(1, 3), uidOf(64, 9)}}
	for i, tp := range tuples {
		for j, u := range uids {
			klen := []int{16, 97}[j]
			got := k.result(tp[0], tp[1], tp[2], tp[3], u[0], u[1], klen)
			a := ref.KeyExchange(true, tp[0], tp[2], u[0], u[1], ref.BaseMul(tp[1]), ref.BaseMul(tp[3]), klen)
			b := ref.KeyExchange(false, tp[1], tp[3], u[1], u[0], ref.BaseMul(tp[0]), ref.BaseMul(tp[2]), klen)
			if !sameKX(got, a) || !sameKX(got, b) {
				return fmt.Errorf("c08: cached key-exchange reference disagrees with ecref.KeyExchange on tuple %d/%d", i, j)
			}
		}
	}
	if fmt.Sprintf("%X", k.result(tuples[0][0], tuples[0][1], tuples[0][2], tuples[0][3], ecref.DefaultUID, ecref.DefaultUID, 16).Key) != "6C89347354DE2484C60B4AB1FDE4C6E5" {
		return fmt.Errorf("c08: GB/T 32918.5 annex B key not reproduced")
	}
	// a tuple with t = 0 must be reported as failure by both
	rr := big.NewInt(5)
	dInf := new(big.Int).Sub(n, new(big.Int).Mod(new(big.Int).Mul(avf(ref.BaseMul(rr).X), rr), n))
	a := ref.KeyExchange(true, dInf, rr, ecref.DefaultUID, ecref.DefaultUID, ref.BaseMul(big.NewInt(9)), ref.BaseMul(big.NewInt(11)), 16)
	if a.OK || k.result(dInf, big.NewInt(9), rr, big.NewInt(11), ecref.DefaultUID, ecref.DefaultUID, 16).OK {
		return fmt.Errorf("c08: t = 0 tuple not refused by the references")
	}
	return selfTestWiden()
}
