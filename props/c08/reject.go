package c08

import (
	"bytes"
	"crypto/ecdsa"
	"crypto/elliptic"
	"fmt"
	"math/big"
	"sync"

	"github.com/emmansun/gmsm/ecdh"
	"github.com/emmansun/gmsm/sm2"

	"verif/engine"
	"verif/ref/ecref"
)

// session is a pair of fresh sm2.KeyExchange objects for a tuple.
type session struct {
	tp             tuple
	PA, PB, RA, RB ecref.Point
	privA, privB   *sm2.PrivateKey
	ini, rsp       *sm2.KeyExchange
	ka             ecref.KXResult
}

var sessKX = newKXRef()

func newSession(tp tuple, gi, gr bool, klen int) (*session, error) {
	s := &session{tp: tp}
	s.PA, s.PB, s.RA, s.RB = sessKX.G(tp.dA.v), sessKX.G(tp.dB.v), sessKX.G(tp.rA.v), sessKX.G(tp.rB.v)
	var err error
	if s.privA, err = sm2.NewPrivateKey(b32(tp.dA.v)); err != nil {
		return nil, err
	}
	if s.privB, err = sm2.NewPrivateKey(b32(tp.dB.v)); err != nil {
		return nil, err
	}
	if s.ini, err = sm2.NewKeyExchange(s.privA, &s.privB.PublicKey, nil, nil, klen, gi); err != nil {
		return nil, err
	}
	if s.rsp, err = sm2.NewKeyExchange(s.privB, &s.privA.PublicKey, nil, nil, klen, gr); err != nil {
		return nil, err
	}
	s.ka = sessKX.result(tp.dA.v, tp.dB.v, tp.rA.v, tp.rB.v, ecref.DefaultUID, ecref.DefaultUID, klen)
	return s, nil
}

func (s *session) init() error {
	_, err := s.ini.InitKeyExchange(engine.NewScriptReader(b32(s.tp.rA.v)))
	return err
}

func (s *session) respond() ([]byte, error) {
	_, sB, err := s.rsp.RepondKeyExchange(engine.NewScriptReader(b32(s.tp.rB.v)), toPub(s.RA))
	return sB, err
}

// uidEdges: UID of 8192 bytes must be refused by both implementations; the explicit default UID equals the empty one.
func uidEdges(t *engine.T, tp tuple) {
	long := uidOf(8192, 1)
	s, err := newSession(tp, true, true, 16)
	if err != nil {
		t.Fail("kx-options/setup", "%v", err)
		return
	}
	t.Guard("kx-options/uid8192", func() {
		if _, err := sm2.NewKeyExchange(s.privA, &s.privB.PublicKey, long, nil, 16, true); err == nil {
			t.Fail("kx-options/sm2/uid8192-accepted", "NewKeyExchange accepted an 8192-byte own UID")
		}
		if _, err := sm2.NewKeyExchange(s.privA, &s.privB.PublicKey, nil, long, 16, true); err == nil {
			t.Fail("kx-options/sm2/uid8192-accepted", "NewKeyExchange accepted an 8192-byte peer UID")
		}
		ke, err := sm2.NewKeyExchange(s.privA, nil, nil, nil, 16, true)
		if err != nil {
			t.Fail("kx-options/sm2/NewKeyExchange", "without peer: %v", err)
		} else if err := ke.SetPeerParameters(&s.privB.PublicKey, long); err == nil {
			t.Fail("kx-options/sm2/uid8192-accepted", "SetPeerParameters accepted an 8192-byte peer UID")
		}
		t.Eval(3)
		c := ecdh.P256()
		sA, _ := c.NewPrivateKey(b32(tp.dA.v))
		sB, _ := c.NewPrivateKey(b32(tp.dB.v))
		eA, _ := c.NewPrivateKey(b32(tp.rA.v))
		eB, _ := c.NewPrivateKey(b32(tp.rB.v))
		uv, err := sA.SM2MQV(eA, sB.PublicKey(), eB.PublicKey())
		if err != nil {
			t.Fail("kx-options/ecdh/SM2MQV/rejects-valid", "%v", err)
			return
		}
		if _, err := uv.SM2SharedKey(false, 16, sA.PublicKey(), sB.PublicKey(), long, nil); err == nil {
			t.Fail("kx-options/ecdh/uid8192-accepted", "SM2SharedKey accepted an 8192-byte own UID")
		}
		if _, err := uv.SM2SharedKey(false, 16, sA.PublicKey(), sB.PublicKey(), nil, long); err == nil {
			t.Fail("kx-options/ecdh/uid8192-accepted", "SM2SharedKey accepted an 8192-byte peer UID")
		}
		if _, err := sA.PublicKey().SM2ZA(newSM3(), long); err == nil {
			t.Fail("kx-options/ecdh/uid8192-accepted", "SM2ZA accepted an 8192-byte UID")
		}
		t.Eval(3)
		// ZA values against the reference for every UID length of the alphabet
		for _, n := range uidLens {
			u := uidOf(n, 0x33)
			za, err := sA.PublicKey().SM2ZA(newSM3(), u)
			want := ref.ZA(effUID(u), s.PA)
			if err != nil || !bytes.Equal(za, want) {
				t.Fail("kx-options/ecdh/SM2ZA", "SM2ZA(uid %d bytes) = %x, %v want %x", n, za, err, want)
			}
			t.Eval(1)
		}
		// explicit default UID == empty UID
		k1, e1 := uv.SM2SharedKey(false, 32, sA.PublicKey(), sB.PublicKey(), nil, nil)
		k2, e2 := uv.SM2SharedKey(false, 32, sA.PublicKey(), sB.PublicKey(), ecref.DefaultUID, ecref.DefaultUID)
		if e1 != nil || e2 != nil || !bytes.Equal(k1, k2) {
			t.Fail("kx-options/ecdh/default-uid", "empty UID and explicit default UID give different keys: %x / %x (%v,%v)", k1, k2, e1, e2)
		}
		t.Eval(2)
	})
	t.Nontrivial("uid-edge")
}

// exceptional: tuples built so that the peer sum P + [x̄]R is a doubling, or the point at infinity, or t = 0.
func exceptional(t *engine.T, ds, rs []named) {
	pc := newKXRef()
	n := ref.N
	i := 0
	for _, r := range []int64{1, 2, 3, 5, 4096} {
		rr := big.NewInt(r)
		xb := avf(pc.G(rr).X)
		dbl := new(big.Int).Mul(xb, rr)
		dbl.Mod(dbl, n)                 // P = [x̄ r]G = [x̄]R  -> P + [x̄]R is a doubling
		inf := new(big.Int).Sub(n, dbl) // P = -[x̄]R -> sum is infinity; also t = d + x̄ r = 0 for the owner of (d, r)
		for _, kind := range []struct {
			name string
			d    *big.Int
		}{{"doubling", dbl}, {"infinity", inf}} {
			if kind.d.Sign() <= 0 || kind.d.Cmp(new(big.Int).Sub(n, one)) >= 0 {
				continue
			}
			special := named{fmt.Sprintf("%s(r=%d)", kind.name, r), kind.d}
			rn := named{fmt.Sprint(r), rr}
			for _, od := range []named{ds[0], ds[2], ds[len(ds)-1]} {
				for _, or := range []named{rs[0], rs[3], rs[len(rs)-1]} {
					// the special pair as responder and as initiator
					runTuple(t, pc, tuple{od, special, or, rn}, optionsAt(i), "kx-exceptional/"+kind.name)
					i++
					runTuple(t, pc, tuple{special, od, rn, or}, optionsAt(i), "kx-exceptional/"+kind.name)
					i++
				}
			}
			// both parties special
			runTuple(t, pc, tuple{special, special, rn, rn}, optionsAt(i), "kx-exceptional/"+kind.name)
			i++
			t.Nontrivial("exceptional/" + special.name)
		}
	}
	t.Sample(map[string]any{"family": "exceptional", "tuples": i})
}

// plainECDH: PrivateKey.ECDH(peer) = x([d]Q) on the d x (d ∪ r) product.
func plainECDH(t *engine.T, ds, rs []named) {
	c := ecdh.P256()
	nm1 := new(big.Int).Sub(ref.N, one)
	var qs []named
	qs = append(qs, ds...)
	qs = append(qs, rs...)
	for _, d := range ds {
		k, err := c.NewPrivateKey(b32(d.v))
		if err != nil {
			t.Fail("ecdh/NewPrivateKey", "NewPrivateKey(%s): %v", d.name, err)
			continue
		}
		for _, q := range qs {
			Q := ref.BaseMul(q.v)
			want := ref.Mul(d.v, Q)
			t.Guard("ecdh/plain", func() {
				pk, err := c.NewPublicKey(Q.Uncompressed())
				if err != nil {
					t.Fail("ecdh/NewPublicKey/rejects-valid", "NewPublicKey([%s]G): %v", q.name, err)
					return
				}
				got, err := k.ECDH(pk)
				t.Eval(1)
				if want.Inf {
					if err == nil {
						t.Fail("ecdh/plain/accepts-infinity", "ECDH(d=%s, [%s]G) returned %x for the point at infinity", d.name, q.name, got)
					}
					t.Outcome("ecdh/plain/infinity")
					return
				}
				if err != nil || !bytes.Equal(got, ecref.Bytes32(want.X)) {
					t.Fail("ecdh/plain/mismatch", "ECDH(d=%s, [%s]G) = %x, %v want %x", d.name, q.name, got, err, want.X)
				}
				t.Outcome("ecdh/plain/ok")
			})
			t.Nontrivial("ecdh/plain/" + d.name + "/" + q.name)
			// the sm2 package's view of the same keys
			if q.v.Cmp(nm1) < 0 {
				t.Guard("ecdh/sm2-bridge", func() {
					priv, err := sm2.NewPrivateKey(b32(d.v))
					if err != nil {
						t.Fail("ecdh/sm2-bridge", "sm2.NewPrivateKey: %v", err)
						return
					}
					ek, err := priv.ECDH()
					if err != nil || !bytes.Equal(ek.Bytes(), b32(d.v)) {
						t.Fail("ecdh/sm2-bridge", "PrivateKey.ECDH(): %v", err)
						return
					}
					pk, err := sm2.PublicKeyToECDH(toPub(Q))
					if err != nil || !bytes.Equal(pk.Bytes(), Q.Uncompressed()) {
						t.Fail("ecdh/sm2-bridge", "PublicKeyToECDH: %v", err)
						return
					}
					got, err := ek.ECDH(pk)
					t.Eval(1)
					if !want.Inf && (err != nil || !bytes.Equal(got, ecref.Bytes32(want.X))) {
						t.Fail("ecdh/plain/mismatch", "bridge ECDH(d=%s, [%s]G) = %x, %v", d.name, q.name, got, err)
					}
				})
			}
		}
	}
}

var smallYOnce struct {
	sync.Once
	p ecref.Point
}

func smallYPoint() ecref.Point {
	smallYOnce.Do(func() { smallYOnce.p = ecref.SmallYPoints(ref, 1)[0] })
	return smallYOnce.p
}

// invalidPoints returns named invalid "points" as big.Int pairs, derived from a valid point p.
func invalidPoints(p ecref.Point) []struct {
	name string
	x, y *big.Int
} {
	P := ref.P
	// a valid point with a small abscissa so that x+p still fits 256 bits
	var small ecref.Point
	for x := int64(0); ; x++ {
		if q, ok := ref.LiftX(big.NewInt(x), 0); ok {
			small = q
			break
		}
	}
	// a valid point with a small ordinate so that y+p still fits 256 bits (root of the cubic x^3 - 3x + b - y^2)
	smallY := smallYPoint()
	p256 := elliptic.P256().Params()
	out := []struct {
		name string
		x, y *big.Int
	}{
		{"off-curve/y+1", p.X, new(big.Int).Add(p.Y, one)},
		{"off-curve/y-1", p.X, new(big.Int).Sub(p.Y, one)},
		{"off-curve/x+1", new(big.Int).Add(p.X, one), p.Y},
		{"off-curve/swapped", p.Y, p.X},
		{"infinity/(0,0)", new(big.Int), new(big.Int)},
		{"off-curve/(0,y)", new(big.Int), p.Y},
		{"off-curve/(x,0)", p.X, new(big.Int)},
		{"x>=p/x+p", new(big.Int).Add(small.X, P), small.Y},
		{"y>=p/y+p", smallY.X, new(big.Int).Add(smallY.Y, P)},
		{"x>=p,y>=p/both+p", new(big.Int).Add(small.X, P), new(big.Int).Add(small.Y, P)},
		{"y=p", p.X, new(big.Int).Set(P)},
		{"y>=p/y+p(257bit)", p.X, new(big.Int).Add(p.Y, P)},
		{"x>=p/x+p(257bit)", new(big.Int).Add(p.X, P), p.Y},
		{"x=p", new(big.Int).Set(P), p.Y},
		{"negative/x", new(big.Int).Neg(p.X), p.Y},
		{"negative/y", p.X, new(big.Int).Neg(p.Y)},
		{"other-curve/P-256-G", p256.Gx, p256.Gy},
		{"x=2^256-1", new(big.Int).Sub(pow2(256), one), p.Y},
	}
	var keep []struct {
		name string
		x, y *big.Int
	}
	for _, o := range out {
		if ref.OnCurve(ecref.Point{X: o.x, Y: o.y}) { // accidental validity (x+1, swapped): skip
			continue
		}
		keep = append(keep, o)
	}
	return keep
}

// rejectEphemeral: invalid ephemeral peer points must be refused by RepondKeyExchange and ConfirmResponder.
func rejectEphemeral(t *engine.T, tp tuple) {
	for _, gen := range []bool{true, false} {
		s0, err := newSession(tp, gen, gen, 16)
		if err != nil {
			t.Fail("kx-reject/setup", "%v", err)
			return
		}
		for _, iv := range invalidPoints(s0.RA) {
			iv := iv
			// responder receives an invalid R_A
			var refused *sm2.KeyExchange
			t.Guard("kx-reject/ephemeral/Respond", func() {
				s, _ := newSession(tp, gen, gen, 16)
				rb, sb, err := s.rsp.RepondKeyExchange(engine.NewScriptReader(b32(tp.rB.v)), &ecdsa.PublicKey{Curve: curve, X: iv.x, Y: iv.y})
				t.Eval(1)
				if err == nil {
					t.Fail("kx-reject/ephemeral/Respond/accepts/"+iv.name, "RepondKeyExchange accepted R_A = (%x,%x): R_B=%v S_B=%x", iv.x, iv.y, rb, sb)
					return
				}
				t.Outcome("reject/respond")
				refused = s.rsp
			})
			// ... and must not hand out a key afterwards (no shared point exists)
			if refused != nil {
				t.Guard("kx-reject/ephemeral/ConfirmInitiator-after-refused-Respond", func() {
					key, err := refused.ConfirmInitiator(nil)
					t.Eval(1)
					if err == nil {
						t.Fail("kx-reject/ephemeral/ConfirmInitiator-after-refused-Respond/key-derived", "ConfirmInitiator returned a key %x after RepondKeyExchange had refused R_A (%s)", key, iv.name)
					}
				})
			}
			// initiator receives an invalid R_B
			t.Guard("kx-reject/ephemeral/ConfirmResponder", func() {
				s, _ := newSession(tp, gen, gen, 16)
				if err := s.init(); err != nil {
					t.Fail("kx-reject/setup", "%v", err)
					return
				}
				var sB []byte
				if gen {
					sB = s.ka.S1
				}
				key, sa, err := s.ini.ConfirmResponder(&ecdsa.PublicKey{Curve: curve, X: iv.x, Y: iv.y}, sB)
				t.Eval(1)
				if err == nil {
					t.Fail("kx-reject/ephemeral/ConfirmResponder/accepts/"+iv.name, "ConfirmResponder accepted R_B = (%x,%x): key=%x S_A=%x", iv.x, iv.y, key, sa)
					return
				}
				t.Outcome("reject/confirm")
			})
			t.Nontrivial("reject/ephemeral/" + iv.name)
		}
	}
}

// rejectStatic: an invalid static peer key given as an ecdsa.PublicKey struct literal must never lead to a key
// (the property requires rejection; where in the flow the error is raised is left open).
func rejectStatic(t *engine.T, tp tuple) {
	s0, err := newSession(tp, true, true, 16)
	if err != nil {
		t.Fail("kx-reject/setup", "%v", err)
		return
	}
	for _, iv := range invalidPoints(s0.PB) {
		iv := iv
		bad := func() *ecdsa.PublicKey {
			return &ecdsa.PublicKey{Curve: curve, X: new(big.Int).Set(iv.x), Y: new(big.Int).Set(iv.y)}
		}
		// as initiator: peer static key invalid
		t.Guard("kx-reject/static-peer-key", func() {
			t.Eval(1)
			ke, err := sm2.NewKeyExchange(s0.privA, bad(), nil, nil, 16, false)
			if err != nil {
				t.Outcome("reject/static/ctor")
				return
			}
			if _, err := ke.InitKeyExchange(engine.NewScriptReader(b32(tp.rA.v))); err != nil {
				return
			}
			key, _, err := ke.ConfirmResponder(toPub(s0.RB), nil)
			if err == nil {
				t.Fail("kx-reject/static-peer-key/key-derived", "initiator: key %x derived with invalid static peer key %s (%x,%x)", key, iv.name, iv.x, iv.y)
			}
		})
		// as responder
		t.Guard("kx-reject/static-peer-key", func() {
			t.Eval(1)
			ke, err := sm2.NewKeyExchange(s0.privB, bad(), nil, nil, 16, false)
			if err != nil {
				return
			}
			_, _, err = ke.RepondKeyExchange(engine.NewScriptReader(b32(tp.rB.v)), toPub(s0.RA))
			if err != nil {
				return
			}
			key, err := ke.ConfirmInitiator(nil)
			if err == nil {
				t.Fail("kx-reject/static-peer-key/key-derived", "responder: key %x derived with invalid static peer key %s (%x,%x)", key, iv.name, iv.x, iv.y)
			}
		})
		// via SetPeerParameters
		t.Guard("kx-reject/static-peer-key", func() {
			t.Eval(1)
			ke, err := sm2.NewKeyExchange(s0.privB, nil, nil, nil, 16, false)
			if err != nil {
				t.Fail("kx-reject/setup", "%v", err)
				return
			}
			if err := ke.SetPeerParameters(bad(), nil); err != nil {
				return
			}
			_, _, err = ke.RepondKeyExchange(engine.NewScriptReader(b32(tp.rB.v)), toPub(s0.RA))
			if err != nil {
				return
			}
			key, err := ke.ConfirmInitiator(nil)
			if err == nil {
				t.Fail("kx-reject/static-peer-key/key-derived", "responder: key %x derived with invalid static peer key %s set by SetPeerParameters (%x,%x)", key, iv.name, iv.x, iv.y)
			}
		})
		t.Nontrivial("reject/static/" + iv.name)
	}
	// peer key on another curve object
	t.Guard("kx-reject/static-peer-key/other-curve", func() {
		p := elliptic.P256()
		if _, err := sm2.NewKeyExchange(s0.privA, &ecdsa.PublicKey{Curve: p, X: p.Params().Gx, Y: p.Params().Gy}, nil, nil, 16, false); err == nil {
			t.Fail("kx-reject/static-peer-key/other-curve-accepted", "NewKeyExchange accepted a NIST P-256 peer key")
		}
		t.Eval(1)
	})
}

// rejectECDH: invalid peer encodings never become ecdh public keys (so SM2MQV / ECDH cannot be reached with them).
func rejectECDH(t *engine.T, tp tuple) {
	c := ecdh.P256()
	P := ref.BaseMul(tp.dB.v)
	X, Y := ecref.Bytes32(P.X), ecref.Bytes32(P.Y)
	cat := func(parts ...[]byte) []byte {
		var r []byte
		for _, p := range parts {
			r = append(r, p...)
		}
		return r
	}
	encs := map[string][]byte{
		"infinity/00": {0}, "empty": {}, "compressed": P.Compressed(), "hybrid/06": cat([]byte{6}, X, Y), "hybrid/07": cat([]byte{7}, X, Y),
		"truncated/64": cat([]byte{4}, X, Y)[:64], "extended/66": cat([]byte{4}, X, Y, []byte{0}),
		"zero-coordinates": cat([]byte{4}, make([]byte, 64)),
	}
	for _, iv := range invalidPoints(P) {
		if iv.x.Sign() < 0 || iv.y.Sign() < 0 || iv.x.BitLen() > 256 || iv.y.BitLen() > 256 {
			continue
		}
		encs[iv.name] = cat([]byte{4}, b32(iv.x), b32(iv.y))
	}
	names := make([]string, 0, len(encs))
	for k := range encs {
		names = append(names, k)
	}
	sortStrings(names)
	for _, k := range names {
		e := encs[k]
		t.Guard("kx-reject/ecdh/"+k, func() {
			_, err := c.NewPublicKey(e)
			t.Eval(1)
			if err == nil {
				t.Fail("kx-reject/ecdh/NewPublicKey-accepts/"+k, "ecdh NewPublicKey accepted %x", e)
			}
		})
		t.Nontrivial("reject/ecdh/" + k)
	}
}

func sortStrings(s []string) {
	for i := 1; i < len(s); i++ {
		for j := i; j > 0 && s[j] < s[j-1]; j-- {
			s[j], s[j-1] = s[j-1], s[j]
		}
	}
}

// confirmation mutants of a 32-byte value
func confMutants(v []byte, other []byte) []struct {
	name string
	b    []byte
} {
	var out []struct {
		name string
		b    []byte
	}
	add := func(n string, b []byte) {
		out = append(out, struct {
			name string
			b    []byte
		}{n, b})
	}
	for i := range v {
		for _, x := range []byte{0x01, 0x80} {
			m := append([]byte{}, v...)
			m[i] ^= x
			add("byte-flip", m)
		}
	}
	add("truncated/31", append([]byte{}, v[:31]...))
	add("truncated/1", append([]byte{}, v[:1]...))
	add("extended/33", append(append([]byte{}, v...), 0))
	add("zeroed", make([]byte, 32))
	add("swapped-with-other-side", append([]byte{}, other...))
	return out
}

// rejectConfirmation: a wrong S_B must be refused by ConfirmResponder, a wrong S_A by ConfirmInitiator.
func rejectConfirmation(t *engine.T, tp tuple) {
	base, err := newSession(tp, true, true, 32)
	if err != nil || !base.ka.OK {
		t.Fail("kx-reject/setup", "%v", err)
		return
	}
	// wrong S_B
	for _, m := range confMutants(base.ka.S1, base.ka.S2) {
		m := m
		t.Guard("kx-reject/confirmation/SB", func() {
			s, _ := newSession(tp, true, true, 32)
			if err := s.init(); err != nil {
				t.Fail("kx-reject/setup", "%v", err)
				return
			}
			key, sa, err := s.ini.ConfirmResponder(toPub(s.RB), m.b)
			t.Eval(1)
			if err == nil {
				t.Fail("kx-reject/confirmation/SB-accepted/"+m.name, "ConfirmResponder accepted S_B = %x (correct %x): key=%x S_A=%x", m.b, s.ka.S1, key, sa)
			}
			t.Outcome("reject/SB")
		})
		t.Nontrivial("reject/SB/" + m.name)
	}
	// wrong S_A
	for _, m := range confMutants(base.ka.S2, base.ka.S1) {
		m := m
		t.Guard("kx-reject/confirmation/SA", func() {
			s, _ := newSession(tp, true, true, 32)
			if _, err := s.respond(); err != nil {
				t.Fail("kx-reject/setup", "%v", err)
				return
			}
			key, err := s.rsp.ConfirmInitiator(m.b)
			t.Eval(1)
			if err == nil {
				t.Fail("kx-reject/confirmation/SA-accepted/"+m.name, "ConfirmInitiator accepted S_A = %x (correct %x): key=%x", m.b, s.ka.S2, key)
			}
			t.Outcome("reject/SA")
		})
		t.Nontrivial("reject/SA/" + m.name)
	}
	// confirmation values computed for another session (other ephemeral key) must be refused as well
	t.Guard("kx-reject/confirmation/other-session", func() {
		ro := new(big.Int).Add(tp.rA.v, one)
		if ro.Cmp(ref.N) >= 0 {
			ro.Sub(tp.rA.v, one)
		}
		other := tuple{tp.dA, tp.dB, named{"rA+-1", ro}, tp.rB}
		ko := ref.KeyExchange(true, other.dA.v, other.rA.v, ecref.DefaultUID, ecref.DefaultUID, base.PB, base.RB, 32)
		s, _ := newSession(tp, true, true, 32)
		if err := s.init(); err != nil {
			return
		}
		_, _, err := s.ini.ConfirmResponder(toPub(s.RB), ko.S1)
		t.Eval(1)
		if err == nil {
			t.Fail("kx-reject/confirmation/SB-accepted/other-session", "ConfirmResponder accepted the S_B of a session with another R_A")
		}
	})
}

// scalarRange: the private-scalar range check of the byte-oriented implementation, limb by limb. The check compares a
// 32-byte string with n-1 in 64-bit limbs; the scalars of the protocol tuples never sit at a limb boundary. Here: for
// every 64-bit limb position the values 2^(64i) - 1, 2^(64i), 2^(64(i+1)) - 2^(64i) (one limb all ones), n with limb i
// raised / lowered by one, n - 1 -/+ 2^(64i), 2^256 - 2^(64i). Oracle: NewPrivateKey accepts exactly 1 <= d <= n-2
// (sm2.NewPrivateKey agrees), and an accepted scalar completes an SM2-MQV exchange with the reference key.
func scalarRange(t *engine.T) {
	c := ecdh.P256()
	n := ref.N
	nm2 := new(big.Int).Sub(n, big.NewInt(2))
	sh := func(k uint) *big.Int { return new(big.Int).Lsh(one, k) }
	seen := map[string]bool{}
	var vals []*big.Int
	add := func(v *big.Int) {
		if v.Sign() < 0 || v.BitLen() > 256 || seen[v.String()] {
			return
		}
		seen[v.String()] = true
		vals = append(vals, v)
	}
	for i := uint(0); i < 4; i++ {
		lo, hi := sh(64*i), sh(64*(i+1))
		add(new(big.Int).Sub(lo, one))
		add(lo)
		add(new(big.Int).Sub(hi, lo))
		add(new(big.Int).Sub(hi, one))
		add(new(big.Int).Add(n, lo))
		add(new(big.Int).Sub(n, lo))
		add(new(big.Int).Sub(new(big.Int).Sub(n, one), lo))
		add(new(big.Int).Add(new(big.Int).Sub(n, one), lo))
		add(new(big.Int).Sub(sh(256), lo))
		// n with limb i replaced by all ones / zero
		mask := new(big.Int).Sub(hi, lo)
		add(new(big.Int).Or(n, mask))
		add(new(big.Int).AndNot(n, mask))
	}
	for _, d := range []int64{-3, -2, -1, 0, 1, 2} {
		add(new(big.Int).Add(n, big.NewInt(d)))
	}
	peerD, peerR := big.NewInt(7), big.NewInt(11)
	for _, v := range vals {
		want := v.Sign() > 0 && v.Cmp(nm2) <= 0
		var k *ecdh.PrivateKey
		var err, err2 error
		if t.Guard("ecdh/scalar-range", func() {
			k, err = c.NewPrivateKey(b32(v))
			_, err2 = sm2.NewPrivateKey(b32(v))
		}) {
			continue
		}
		t.Eval(2)
		t.Nontrivial(fmt.Sprintf("scalar-range/%d/%v", v.BitLen(), want))
		if (err == nil) != want {
			t.Fail("ecdh/scalar-range/NewPrivateKey/"+map[bool]string{true: "rejects-valid", false: "accepts-out-of-range"}[want], "ecdh.P256().NewPrivateKey(%x): err=%v; the scalar is %s [1, n-2]", v, err, map[bool]string{true: "in", false: "outside"}[want])
		}
		if (err2 == nil) != want {
			t.Fail("ecdh/scalar-range/sm2.NewPrivateKey/"+map[bool]string{true: "rejects-valid", false: "accepts-out-of-range"}[want], "sm2.NewPrivateKey(%x): err=%v", v, err2)
		}
		if err != nil || !want {
			continue
		}
		// as static and as ephemeral key of an MQV exchange: both parties must arrive at the same point, and the public
		// key must be [d]G of the reference
		t.Guard("ecdh/scalar-range/mqv", func() {
			if !bytes.Equal(k.PublicKey().Bytes(), ref.BaseMul(v).Uncompressed()) {
				t.Fail("ecdh/scalar-range/public-key", "PublicKey() of the scalar %x differs from [d]G", v)
				return
			}
			o13, e1 := c.NewPrivateKey(b32(big.NewInt(13)))
			sB, e2 := c.NewPrivateKey(b32(peerD))
			eB, e3 := c.NewPrivateKey(b32(peerR))
			if e1 != nil || e2 != nil || e3 != nil {
				t.Fail("ecdh/scalar-range/setup", "%v %v %v", e1, e2, e3)
				return
			}
			for role, pair := range [][2]*ecdh.PrivateKey{{k, o13}, {o13, k}} {
				uvA, errA := pair[0].SM2MQV(pair[1], sB.PublicKey(), eB.PublicKey())
				uvB, errB := sB.SM2MQV(eB, pair[0].PublicKey(), pair[1].PublicKey())
				t.Eval(2)
				if (errA == nil) != (errB == nil) {
					t.Fail("ecdh/scalar-range/mqv/one-side-fails", "scalar %x in role %d: %v / %v", v, role, errA, errB)
					continue
				}
				if errA == nil && !bytes.Equal(uvA.Bytes(), uvB.Bytes()) {
					t.Fail("ecdh/scalar-range/mqv/points-differ", "scalar %x in role %d: U = %x, V = %x", v, role, uvA.Bytes(), uvB.Bytes())
				}
			}
		})
	}
	t.Sample(map[string]any{"family": "scalar-range", "values": len(vals)})
}
