package c08

// Widening of C08 along the generic input dimensions (DESIGN.md §11.4): capacity classes and record layouts of every
// slice argument, ownership of results and of constructor arguments, input integrity, histories with *changing* values
// on one object, every KDF block-count class and every identity-length class through the outer API, every accepted
// variant / construction route, chosen boundary values of the internal fields (peer points, the agreed point V, the
// implicit signature t and the carry class of d + x̄·r), and the rejection loops of the ephemeral-key generators.
//
// This file holds the hook, the shared helpers and the one-sided reference; the families live in widen_*.go.

import (
	"bytes"
	"crypto/ecdsa"
	"fmt"
	"math/big"

	"github.com/emmansun/gmsm/ecdh"
	"github.com/emmansun/gmsm/sm2"

	"verif/engine"
	"verif/ref/ecref"
	"verif/ref/sm3ref"
)

// widen registers the additional case families. fixed[0] is the GB/T 32918.5 annex B tuple.
func widen(c *engine.Ctx, fixed []tuple, ds, rs []named) {
	quick := c.Quick()
	gbt := fixed[0]
	lz := leadingZeroShapes()
	// a second tuple with small / leading-zero scalars and public keys with a leading zero byte
	small := tuple{lz[0], lz[len(lz)-1], named{"3", big.NewInt(3)}, named{"2^128-1", new(big.Int).Sub(pow2(128), one)}}
	// a third one with scalars at the upper end of the range
	nm2 := named{"n-2", new(big.Int).Sub(ref.N, big.NewInt(2))}
	large := tuple{nm2, named{"chainD", chainScalar("d")}, named{"chainR", chainScalar("r")}, nm2}
	tuples := []tuple{gbt, small, large}
	runDestroy(c, tuples)

	// ---- 7: every KDF block-count class (key length) through both implementations
	for ti, tp := range tuples {
		for ci, chunk := range klenChunks(quick) {
			ti, tp, ci, chunk := ti, tp, ci, chunk
			c.Case(fmt.Sprintf("widen/klen/tuple#%d/chunk#%d(%d..%d)", ti, ci, chunk[0], chunk[len(chunk)-1]), func(t *engine.T) { klenSweep(t, tp, chunk) })
		}
	}
	for ti, tp := range tuples[:2] {
		ti, tp := ti, tp
		c.Case(fmt.Sprintf("widen/klen-pairs/tuple#%d", ti), func(t *engine.T) { klenPairs(t, tp) })
	}
	// ---- 7: every identity length class (SM3 padding residues, ENTL byte carries) through both implementations
	for ci, chunk := range uidLenChunks(quick) {
		ci, chunk := ci, chunk
		c.Case(fmt.Sprintf("widen/uidlen/chunk#%d(%d..%d)", ci, chunk[0], chunk[len(chunk)-1]), func(t *engine.T) { uidLenSweep(t, gbt, chunk) })
	}
	// ---- 1,3,4,5: capacity classes, record layouts, constructor arguments, input integrity
	for ti, tp := range tuples {
		for _, role := range []string{"initiator", "responder"} {
			ti, tp, role := ti, tp, role
			c.Case(fmt.Sprintf("widen/args/sm2/tuple#%d/%s", ti, role), func(t *engine.T) { argsSM2(t, tp, role == "responder") })
		}
		c.Case(fmt.Sprintf("widen/args/ecdh/tuple#%d", ti), func(t *engine.T) { argsECDH(t, tp) })
		c.Case(fmt.Sprintf("widen/args/confirmation/tuple#%d", ti), func(t *engine.T) { argsConfirmation(t, tp) })
	}
	// ---- 2: results belong to the caller
	for ti, tp := range tuples {
		ti, tp := ti, tp
		c.Case(fmt.Sprintf("widen/ownership/sm2/tuple#%d", ti), func(t *engine.T) { ownershipSM2(t, tp) })
		c.Case(fmt.Sprintf("widen/ownership/ecdh/tuple#%d", ti), func(t *engine.T) { ownershipECDH(t, tp) })
	}
	// ---- 6: histories with changing values on one object, objects used alternately, cold / warm key objects
	for ti, tp := range tuples {
		for _, gen := range []bool{true, false} {
			ti, tp, gen := ti, tp, gen
			c.Case(fmt.Sprintf("widen/history/sm2/tuple#%d/confirm=%v", ti, gen), func(t *engine.T) { historySM2(t, tp, gen) })
		}
		c.Case(fmt.Sprintf("widen/history/ecdh/tuple#%d", ti), func(t *engine.T) { historyECDH(t, tp) })
	}
	// ---- 9: chosen peer points and chosen agreed points (one-sided reference)
	pts := chosenPoints(quick)
	owns := [][2]named{{gbt.dA, gbt.rA}, {small.dA, small.rA}}
	if !quick {
		owns = append(owns, [2]named{ds[3], rs[4]}, [2]named{ds[len(ds)-3], rs[len(rs)-3]})
	}
	for oi, own := range owns {
		for pi := range pts {
			oi, own, pi := oi, own, pi
			c.Case(fmt.Sprintf("widen/peer-points/own#%d/P=%s", oi, pts[pi].name), func(t *engine.T) { peerPoints(t, own[0], own[1], pts, pi) })
		}
		c.Case(fmt.Sprintf("widen/agreed-point/own#%d", oi), func(t *engine.T) { agreedPoints(t, own[0], own[1], pts) })
	}
	// ---- 9/10: chosen implicit signature t and every carry class of d + x̄·r
	for ri, r := range implicitRs(quick, rs) {
		ri, r := ri, r
		c.Case(fmt.Sprintf("widen/implicit-sig/r#%d=%s", ri, r.name), func(t *engine.T) { implicitSig(t, r, gbt) })
	}
	// ---- 8: every accepted variant and construction route
	c.Case("widen/variants/za-hash", func(t *engine.T) { variantsZA(t, tuples) })
	for ti, tp := range tuples {
		ti, tp := ti, tp
		c.Case(fmt.Sprintf("widen/variants/routes/tuple#%d", ti), func(t *engine.T) { variantsRoutes(t, tp) })
	}
	c.Case("widen/reject/routes", func(t *engine.T) { rejectRoutes(t, gbt) })
	// ---- 10: rejection loops of the ephemeral-key generators
	c.Case("widen/rand/sm2", func(t *engine.T) { randSM2(t, gbt) })
	c.Case("widen/rand/ecdh", func(t *engine.T) { randECDH(t, gbt) })
}

// ---------------------------------------------------------------------------------------------------------------------
// reference assembled from pieces (one-sided: the peer's points need not have a known discrete logarithm)

func catBytes(parts ...[]byte) []byte {
	var r []byte
	for _, p := range parts {
		r = append(r, p...)
	}
	return r
}

// assemble builds K, S1, S2 of GB/T 32918.3 from the agreed point, Z_A, Z_B and the two ephemeral points (A = initiator).
func assemble(v ecref.Point, za, zb []byte, RA, RB ecref.Point, klen int) ecref.KXResult {
	if v.Inf {
		return ecref.KXResult{}
	}
	xv, yv := ecref.Bytes32(v.X), ecref.Bytes32(v.Y)
	key := sm3ref.KDF(catBytes(xv, yv, za, zb), klen)
	inner := sm3ref.Sum(catBytes(xv, za, zb, ecref.Bytes32(RA.X), ecref.Bytes32(RA.Y), ecref.Bytes32(RB.X), ecref.Bytes32(RB.Y)))
	s1 := sm3ref.Sum(catBytes([]byte{2}, yv, inner[:]))
	s2 := sm3ref.Sum(catBytes([]byte{3}, yv, inner[:]))
	return ecref.KXResult{Key: key, S1: s1[:], S2: s2[:], OK: true}
}

// oneSided is the result seen by the party holding (d, r) against peer points (P, R): V = [t](P + [x̄(R)]R).
func oneSided(kr *kxRef, initiator bool, d, r *big.Int, ownUID, peerUID []byte, P, R ecref.Point, klen int) (ecref.KXResult, ecref.Point) {
	w := ref.Add(P, ref.Mul(avf(R.X), R))
	v := ref.Mul(kr.T(d, r), w)
	zOwn, zPeer := kr.Z(effUID(ownUID), d), ref.ZA(effUID(peerUID), P)
	if initiator {
		return assemble(v, zOwn, zPeer, kr.G(r), R, klen), v
	}
	return assemble(v, zPeer, zOwn, R, kr.G(r), klen), v
}

// selfTestWiden anchors assemble/oneSided against the uncached ecref.KeyExchange.
func selfTestWiden() error {
	kr := newKXRef()
	d, r := chainScalar("wd"), chainScalar("wr")
	P, R := ref.BaseMul(chainScalar("wp")), ref.BaseMul(big.NewInt(77))
	for _, ini := range []bool{true, false} {
		got, _ := oneSided(kr, ini, d, r, uidOf(3, 1), nil, P, R, 48)
		want := ref.KeyExchange(ini, d, r, uidOf(3, 1), ecref.DefaultUID, P, R, 48)
		if !sameKX(got, want) || !want.OK {
			return fmt.Errorf("c08: one-sided reference disagrees with ecref.KeyExchange (initiator=%v)", ini)
		}
	}
	// KDF prefix property used by the key-length sweep (K = Ha_1 || ... || Ha_n truncated)
	z := bytes.Repeat([]byte{7}, 128)
	long := sm3ref.KDF(z, 200)
	for _, n := range []int{1, 31, 32, 33, 199} {
		if !bytes.Equal(long[:n], sm3ref.KDF(z, n)) {
			return fmt.Errorf("c08: KDF prefix property violated by the reference at %d", n)
		}
	}
	return nil
}

// ---------------------------------------------------------------------------------------------------------------------
// records: arguments carved from one backing array, capacities reaching to its end, dirty slack behind them

type record struct {
	buf    []byte
	snap   []byte
	views  [][]byte
	argEnd int
}

func newRecord(slack int, parts ...[]byte) *record {
	n := 0
	for _, p := range parts {
		n += len(p)
	}
	r := &record{buf: make([]byte, n+slack), argEnd: n}
	off := 0
	for _, p := range parts {
		copy(r.buf[off:], p)
		r.views = append(r.views, r.buf[off:off+len(p):len(r.buf)])
		off += len(p)
	}
	for i := n; i < len(r.buf); i++ {
		r.buf[i] = 0xD1 ^ byte(i*5)
	}
	r.snap = append([]byte{}, r.buf...)
	return r
}

// changed reports "" or the class of the modification.
func (r *record) changed() string {
	if !bytes.Equal(r.buf[:r.argEnd], r.snap[:r.argEnd]) {
		return "argument-modified"
	}
	if !bytes.Equal(r.buf[r.argEnd:], r.snap[r.argEnd:]) {
		return "spare-capacity-written"
	}
	return ""
}

func (r *record) scribble(b byte) {
	for i := range r.buf {
		r.buf[i] = b ^ byte(i)
	}
}

func scribble(b []byte) {
	for i := range b {
		b[i] = 0xA5 ^ byte(i*3)
	}
}

// slack classes: none is handled separately (guard pages); the others are "one short / exact / one more" around the
// sizes a ZA computation could append behind an identity (1, a = 32, a||b = 64, a||b||G = 128, +P = 192) and ample.
func slackClasses(quick bool) []int {
	if quick {
		return []int{1, 31, 32, 33, 64, 128, 192, 256}
	}
	return []int{1, 2, 31, 32, 33, 63, 64, 65, 127, 128, 129, 191, 192, 193, 256, 1024}
}

// ---------------------------------------------------------------------------------------------------------------------
// drivers of one side of the sm2.KeyExchange protocol against a reference result

func pointsEqual(k *ecdsa.PublicKey, x, y *big.Int) bool {
	return k != nil && k.X != nil && k.Y != nil && k.X.Cmp(x) == 0 && k.Y.Cmp(y) == 0
}

// driveResponder runs RepondKeyExchange(rB, R_A) and ConfirmInitiator(S_A) on ke. gen is ke's confirmation option.
func driveResponder(t *engine.T, kp, ctx string, ke *sm2.KeyExchange, gen bool, rB *big.Int, RA, RB ecref.Point, res ecref.KXResult) bool {
	ok := true
	if t.Guard(kp+"/responder", func() {
		ra := toPub(RA)
		gotRB, sB, err := ke.RepondKeyExchange(engine.NewScriptReader(b32(rB)), ra)
		t.Eval(1)
		if !pointsEqual(ra, RA.X, RA.Y) {
			t.Fail(kp+"/Respond/peer-point-modified", "%s: RepondKeyExchange modified the caller's R_A object", ctx)
			ok = false
		}
		if !res.OK {
			if err == nil {
				t.Fail(kp+"/Respond/accepts-V-infinity", "%s: RepondKeyExchange succeeded although V is the point at infinity", ctx)
				ok = false
			}
			return
		}
		if err != nil || !samePoint(gotRB, RB) {
			t.Fail(kp+"/Respond/ephemeral-point", "%s: RepondKeyExchange = %v, %v; want [rB]G", ctx, gotRB, err)
			ok = false
			return
		}
		if gen != (sB != nil) || (gen && !bytes.Equal(sB, res.S1)) {
			t.Fail(kp+"/Respond/SB", "%s: S_B = %x want %x (requested=%v)", ctx, sB, res.S1, gen)
			ok = false
			return
		}
		sA := append([]byte{}, res.S2...)
		key, err := ke.ConfirmInitiator(sA)
		t.Eval(1)
		if err != nil {
			t.Fail(kp+"/ConfirmInitiator/rejects-valid", "%s: ConfirmInitiator: %v", ctx, err)
			ok = false
			return
		}
		if !bytes.Equal(key, res.Key) {
			t.Fail(kp+"/responder-key", "%s: K_B = %x want %x", ctx, key, res.Key)
			ok = false
		}
		if !bytes.Equal(sA, res.S2) {
			t.Fail(kp+"/ConfirmInitiator/input-modified", "%s: ConfirmInitiator modified S_A", ctx)
			ok = false
		}
	}) {
		ok = false
	}
	return ok
}

// driveInitiator runs InitKeyExchange(rA) and ConfirmResponder(R_B, S_B) on ke.
func driveInitiator(t *engine.T, kp, ctx string, ke *sm2.KeyExchange, gen bool, rA *big.Int, RA, RB ecref.Point, res ecref.KXResult) bool {
	ok := true
	if t.Guard(kp+"/initiator", func() {
		gotRA, err := ke.InitKeyExchange(engine.NewScriptReader(b32(rA)))
		t.Eval(1)
		if err != nil || !samePoint(gotRA, RA) {
			t.Fail(kp+"/Init/ephemeral-point", "%s: InitKeyExchange = %v, %v; want [rA]G", ctx, gotRA, err)
			ok = false
			return
		}
		ok = confirmResponder(t, kp, ctx, ke, gen, RB, res)
	}) {
		ok = false
	}
	return ok
}

// confirmResponder runs ConfirmResponder(R_B, S_B) on an initiator that already holds its ephemeral key.
func confirmResponder(t *engine.T, kp, ctx string, ke *sm2.KeyExchange, gen bool, RB ecref.Point, res ecref.KXResult) bool {
	rb := toPub(RB)
	var sB []byte
	if res.OK {
		sB = append([]byte{}, res.S1...)
	}
	key, sA, err := ke.ConfirmResponder(rb, sB)
	t.Eval(1)
	if !pointsEqual(rb, RB.X, RB.Y) {
		t.Fail(kp+"/ConfirmResponder/peer-point-modified", "%s: ConfirmResponder modified the caller's R_B object", ctx)
		return false
	}
	if !res.OK {
		if err == nil {
			t.Fail(kp+"/ConfirmResponder/accepts-U-infinity", "%s: ConfirmResponder succeeded although U is the point at infinity", ctx)
			return false
		}
		return true
	}
	if err != nil {
		t.Fail(kp+"/ConfirmResponder/rejects-valid", "%s: ConfirmResponder: %v", ctx, err)
		return false
	}
	if !bytes.Equal(key, res.Key) {
		t.Fail(kp+"/initiator-key", "%s: K_A = %x want %x", ctx, key, res.Key)
		return false
	}
	if gen != (sA != nil) || (gen && !bytes.Equal(sA, res.S2)) {
		t.Fail(kp+"/ConfirmResponder/SA", "%s: S_A = %x want %x (requested=%v)", ctx, sA, res.S2, gen)
		return false
	}
	if !bytes.Equal(sB, res.S1) {
		t.Fail(kp+"/ConfirmResponder/input-modified", "%s: ConfirmResponder modified S_B", ctx)
		return false
	}
	return true
}

// ---------------------------------------------------------------------------------------------------------------------
// ecdh helpers

func ecdhPriv(v *big.Int) *ecdh.PrivateKey {
	k, err := ecdh.P256().NewPrivateKey(b32(v))
	if err != nil {
		return nil
	}
	return k
}

func ecdhPub(p ecref.Point) *ecdh.PublicKey {
	k, err := ecdh.P256().NewPublicKey(p.Uncompressed())
	if err != nil {
		return nil
	}
	return k
}

// driveECDH runs SM2MQV + SM2SharedKey for the party (sLocal, eLocal) and compares with res / the agreed point v.
func driveECDH(t *engine.T, kp, ctx string, sLocal, eLocal *ecdh.PrivateKey, sRemote, eRemote *ecdh.PublicKey, responder bool, klen int, ownUID, peerUID []byte, res ecref.KXResult, v ecref.Point) bool {
	ok := true
	if t.Guard(kp+"/ecdh", func() {
		if sLocal == nil || eLocal == nil || sRemote == nil || eRemote == nil {
			t.Fail(kp+"/ecdh/key-construction", "%s: a valid key was rejected by NewPrivateKey/NewPublicKey", ctx)
			ok = false
			return
		}
		uv, err := sLocal.SM2MQV(eLocal, sRemote, eRemote)
		t.Eval(1)
		if !res.OK {
			if err == nil {
				t.Fail(kp+"/ecdh/SM2MQV/accepts-infinity", "%s: SM2MQV succeeded although the shared point is infinity", ctx)
				ok = false
			}
			return
		}
		if err != nil {
			t.Fail(kp+"/ecdh/SM2MQV/rejects-valid", "%s: SM2MQV: %v", ctx, err)
			ok = false
			return
		}
		if !v.Inf && v.X != nil && !bytes.Equal(uv.Bytes(), v.Uncompressed()) {
			t.Fail(kp+"/ecdh/SM2MQV/point", "%s: SM2MQV = %x want %x", ctx, uv.Bytes(), v.Uncompressed())
			ok = false
		}
		key, err := uv.SM2SharedKey(responder, klen, sLocal.PublicKey(), sRemote, ownUID, peerUID)
		t.Eval(1)
		if err != nil {
			t.Fail(kp+"/ecdh/SM2SharedKey/error", "%s: %v", ctx, err)
			ok = false
			return
		}
		if !bytes.Equal(key, res.Key) {
			role := "initiator"
			if responder {
				role = "responder"
			}
			t.Fail(kp+"/ecdh/"+role+"-key", "%s: K = %x want %x", ctx, key, res.Key)
			ok = false
		}
	}) {
		ok = false
	}
	return ok
}

// sm2Keys builds the two static key objects of a tuple.
func sm2Keys(t *engine.T, kp string, tp tuple) (*sm2.PrivateKey, *sm2.PrivateKey, bool) {
	a, err := sm2.NewPrivateKey(b32(tp.dA.v))
	if err != nil {
		t.Fail(kp+"/setup", "NewPrivateKey(dA): %v", err)
		return nil, nil, false
	}
	b, err := sm2.NewPrivateKey(b32(tp.dB.v))
	if err != nil {
		t.Fail(kp+"/setup", "NewPrivateKey(dB): %v", err)
		return nil, nil, false
	}
	return a, b, true
}
