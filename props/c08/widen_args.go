package c08

// Dimensions 1, 3, 4, 5: capacity classes and record layouts of every slice argument, constructor arguments belong to
// the caller (compared, then overwritten, the same memory handed to the next constructor), inputs unchanged.

import (
	"bytes"
	"fmt"

	"github.com/emmansun/gmsm/ecdh"
	"github.com/emmansun/gmsm/sm2"

	"verif/engine"
	"verif/ref/ecref"
)

type uidLayout struct {
	name      string
	own, peer []byte
	rec       *record // nil: separately allocated buffers that end at a guard page (no spare capacity)
	ownC      []byte  // expected contents
	peerC     []byte
}

func (l *uidLayout) changed() string {
	if l.rec != nil {
		return l.rec.changed()
	}
	if !bytes.Equal(l.own, l.ownC) || !bytes.Equal(l.peer, l.peerC) {
		return "argument-modified"
	}
	return ""
}

func (l *uidLayout) scribble() {
	if l.rec != nil {
		l.rec.scribble(0xEE)
		return
	}
	scribble(l.own)
	scribble(l.peer)
}

func (l *uidLayout) restore() {
	if l.rec != nil {
		copy(l.rec.buf, l.rec.snap)
		return
	}
	copy(l.own, l.ownC)
	copy(l.peer, l.peerC)
}

// uidLayouts enumerates layouts x capacity classes for one identity pair. Empty identities inside a record are
// non-nil empty slices with spare capacity (the default identity is substituted for them).
func uidLayouts(pool *engine.Pool, quick bool, own, peer []byte) []*uidLayout {
	var out []*uidLayout
	for _, s := range slackClasses(quick) {
		r := newRecord(s, own, peer)
		out = append(out, &uidLayout{name: fmt.Sprintf("own||peer/slack=%d", s), own: r.views[0], peer: r.views[1], rec: r, ownC: own, peerC: peer})
		r = newRecord(s, peer, own)
		out = append(out, &uidLayout{name: fmt.Sprintf("peer||own/slack=%d", s), own: r.views[1], peer: r.views[0], rec: r, ownC: own, peerC: peer})
		if bytes.Equal(own, peer) {
			r = newRecord(s, own)
			out = append(out, &uidLayout{name: fmt.Sprintf("same-slice/slack=%d", s), own: r.views[0], peer: r.views[0], rec: r, ownC: own, peerC: peer})
		}
	}
	// exact-fit records (no slack at all): the first argument's capacity covers exactly the second one
	r := newRecord(0, own, peer)
	out = append(out, &uidLayout{name: "own||peer/slack=0", own: r.views[0], peer: r.views[1], rec: r, ownC: own, peerC: peer})
	out = append(out, &uidLayout{name: "separate/guard-page", own: pool.Copy(own), peer: pool.Copy(peer), ownC: own, peerC: peer})
	return out
}

func layoutClass(name string) string { // finding keys carry the layout, not the slack size
	for i := 0; i < len(name); i++ {
		if name[i] == '/' {
			return name[:i]
		}
	}
	return name
}

func uidPairs(quick bool) [][2]int {
	if quick {
		return [][2]int{{0, 0}, {0, 5}, {5, 0}, {5, 7}, {16, 16}, {33, 64}}
	}
	return [][2]int{{0, 0}, {0, 5}, {5, 0}, {5, 7}, {16, 16}, {33, 64}, {1, 1}, {64, 33}, {200, 3}, {31, 32}}
}

// argsSM2: the identities handed to NewKeyExchange / SetPeerParameters in every layout and capacity class.
func argsSM2(t *engine.T, tp tuple, responder bool) {
	const kp = "kx-args/sm2"
	const klen = 48
	kr := newKXRef()
	privA, privB, ok := sm2Keys(t, kp, tp)
	if !ok {
		return
	}
	own, peer := privA, privB
	if responder {
		own, peer = privB, privA
	}
	RA, RB := kr.G(tp.rA.v), kr.G(tp.rB.v)
	var pool engine.Pool
	idx := 0
	for _, pr := range uidPairs(t.Quick()) {
		ownC, peerC := uidOf(pr[0], 0xa0), uidOf(pr[1], 0x0b)
		if pr[0] == pr[1] {
			peerC = ownC // same contents: allows the same slice for both
		}
		uidA, uidB := ownC, peerC
		if responder {
			uidA, uidB = peerC, ownC
		}
		res := kr.result(tp.dA.v, tp.dB.v, tp.rA.v, tp.rB.v, effUID(uidA), effUID(uidB), klen)
		for _, lay := range uidLayouts(&pool, t.Quick(), ownC, peerC) {
			lc := layoutClass(lay.name)
			ctx := fmt.Sprintf("%s own uid %dB peer uid %dB layout %s", tp, pr[0], pr[1], lay.name)
			build := func(route int) *sm2.KeyExchange {
				var ke *sm2.KeyExchange
				var err error
				t.Guard(kp+"/constructor", func() {
					if route == 0 {
						ke, err = sm2.NewKeyExchange(own, &peer.PublicKey, lay.own, lay.peer, klen, true)
					} else {
						ke, err = sm2.NewKeyExchange(own, nil, lay.own, nil, klen, true)
						if err == nil {
							err = ke.SetPeerParameters(&peer.PublicKey, lay.peer)
						}
					}
					t.Eval(1)
				})
				if err != nil {
					t.Fail(kp+"/constructor/rejects-valid/"+lc, "%s: %v", ctx, err)
					return nil
				}
				if c := lay.changed(); c != "" {
					t.Fail(kp+"/constructor/"+c+"/"+lc, "%s: the identity arguments / the memory behind them changed during construction (route %d)", ctx, route)
					lay.restore()
				}
				return ke
			}
			ke1 := build(idx % 2)
			ke2 := build((idx + 1) % 2) // the same memory handed to the next constructor
			idx++
			if ke1 == nil || ke2 == nil {
				continue
			}
			lay.scribble() // the arguments belong to the caller
			good := true
			for i, ke := range []*sm2.KeyExchange{ke1, ke2} {
				p := fmt.Sprintf("%s/after-args-overwritten/%s", kp, lc)
				c := fmt.Sprintf("%s object#%d", ctx, i)
				if responder {
					good = driveResponder(t, p, c, ke, true, tp.rB.v, RA, RB, res) && good
				} else {
					good = driveInitiator(t, p, c, ke, true, tp.rA.v, RA, RB, res) && good
				}
			}
			if good {
				t.Outcome("args/sm2/" + lc)
			}
			t.Nontrivial("args/sm2/" + ctx)
		}
		if !pool.Release() {
			t.Fail(kp+"/write-before-argument", "%s: canary in front of an identity buffer destroyed", tp)
		}
	}
}

// argsECDH: key encodings handed to NewPrivateKey / NewPublicKey and identities handed to SM2ZA / SM2SharedKey.
func argsECDH(t *engine.T, tp tuple) {
	const kp = "kx-args/ecdh"
	const klen = 48
	kr := newKXRef()
	c := ecdh.P256()
	PA, PB, RA, RB := kr.G(tp.dA.v), kr.G(tp.dB.v), kr.G(tp.rA.v), kr.G(tp.rB.v)
	v := kr.U(tp.dA.v, tp.dB.v, tp.rA.v, tp.rB.v)
	resD := kr.result(tp.dA.v, tp.dB.v, tp.rA.v, tp.rB.v, ecref.DefaultUID, ecref.DefaultUID, klen)
	var pool engine.Pool

	// ---- constructor arguments: d_A || r_A and P_B || R_B records (and the mirror image for the responder)
	slacks := append([]int{0}, slackClasses(t.Quick())...)
	slacks = append(slacks, -1) // -1: separately allocated, ending at a guard page
	for _, s := range slacks {
		for _, responder := range []bool{false, true} {
			d, r, P, R := tp.dA.v, tp.rA.v, PB, RB
			if responder {
				d, r, P, R = tp.dB.v, tp.rB.v, PA, RA
			}
			parts := [][]byte{b32(d), b32(r), P.Uncompressed(), R.Uncompressed()}
			var views [][]byte
			var recs []*record
			name := fmt.Sprintf("slack=%d", s)
			if s < 0 {
				name = "guard-page"
				for _, p := range parts {
					views = append(views, pool.Copy(p))
				}
			} else {
				r1, r2 := newRecord(s, parts[0], parts[1]), newRecord(s, parts[2], parts[3])
				recs = []*record{r1, r2}
				views = [][]byte{r1.views[0], r1.views[1], r2.views[0], r2.views[1]}
			}
			ctx := fmt.Sprintf("%s responder=%v key records d||r, P||R %s", tp, responder, name)
			var sL, eL *ecdh.PrivateKey
			var sR, eR *ecdh.PublicKey
			var err [4]error
			t.Guard(kp+"/constructor", func() {
				sL, err[0] = c.NewPrivateKey(views[0])
				eL, err[1] = c.NewPrivateKey(views[1])
				sR, err[2] = c.NewPublicKey(views[2])
				eR, err[3] = c.NewPublicKey(views[3])
				t.Eval(4)
			})
			if err[0] != nil || err[1] != nil || err[2] != nil || err[3] != nil || sL == nil || eL == nil || sR == nil || eR == nil {
				t.Fail(kp+"/constructor/rejects-valid", "%s: %v", ctx, err)
				continue
			}
			for i, rec := range recs {
				if ch := rec.changed(); ch != "" {
					t.Fail(kp+"/constructor/"+ch, "%s: record %d changed during NewPrivateKey/NewPublicKey", ctx, i)
				}
			}
			for i := range views {
				if !bytes.Equal(views[i], parts[i]) {
					t.Fail(kp+"/constructor/argument-modified", "%s: key encoding %d modified", ctx, i)
				}
			}
			// the encodings belong to the caller
			for _, rec := range recs {
				rec.scribble(0xEE)
			}
			for _, vw := range views {
				scribble(vw)
			}
			good := true
			if !bytes.Equal(sL.Bytes(), parts[0]) || !bytes.Equal(eL.Bytes(), parts[1]) || !bytes.Equal(sR.Bytes(), parts[2]) || !bytes.Equal(eR.Bytes(), parts[3]) {
				t.Fail(kp+"/after-args-overwritten/key-bytes", "%s: a key object changed when the caller overwrote the encoding it was built from", ctx)
				good = false
			}
			good = driveECDH(t, kp+"/after-args-overwritten", ctx, sL, eL, sR, eR, responder, klen, nil, nil, resD, v) && good
			if good {
				t.Outcome("args/ecdh/keys")
			}
			t.Nontrivial("args/ecdh/keys/" + ctx)
		}
	}
	if !pool.Release() {
		t.Fail(kp+"/write-before-argument", "%s: canary in front of a key encoding destroyed", tp)
	}

	// ---- identities of SM2SharedKey / SM2ZA
	sA, sB, eA, eB := ecdhPriv(tp.dA.v), ecdhPriv(tp.dB.v), ecdhPriv(tp.rA.v), ecdhPriv(tp.rB.v)
	if sA == nil || sB == nil || eA == nil || eB == nil {
		t.Fail(kp+"/setup", "%s: key rejected", tp)
		return
	}
	uvA, errA := sA.SM2MQV(eA, sB.PublicKey(), eB.PublicKey())
	uvB, errB := sB.SM2MQV(eB, sA.PublicKey(), eA.PublicKey())
	t.Eval(2)
	if errA != nil || errB != nil {
		t.Fail(kp+"/setup", "%s: SM2MQV: %v %v", tp, errA, errB)
		return
	}
	for _, pr := range uidPairs(t.Quick()) {
		for _, responder := range []bool{false, true} {
			ownC, peerC := uidOf(pr[0], 0xa0), uidOf(pr[1], 0x0b)
			if pr[0] == pr[1] {
				peerC = ownC
			}
			uidA, uidB := ownC, peerC
			uv, sOwn, sPeer, POwn := uvA, sA, sB, PA
			if responder {
				uidA, uidB = peerC, ownC
				uv, sOwn, sPeer, POwn = uvB, sB, sA, PB
			}
			res := kr.result(tp.dA.v, tp.dB.v, tp.rA.v, tp.rB.v, effUID(uidA), effUID(uidB), klen)
			zaWant := ref.ZA(effUID(ownC), POwn)
			for _, lay := range uidLayouts(&pool, t.Quick(), ownC, peerC) {
				lc := layoutClass(lay.name)
				ctx := fmt.Sprintf("%s responder=%v own uid %dB peer uid %dB layout %s", tp, responder, pr[0], pr[1], lay.name)
				good := true
				t.Guard(kp+"/SM2SharedKey", func() {
					for pass := 0; pass < 2; pass++ {
						key, err := uv.SM2SharedKey(responder, klen, sOwn.PublicKey(), sPeer.PublicKey(), lay.own, lay.peer)
						t.Eval(1)
						if ch := lay.changed(); ch != "" {
							t.Fail(kp+"/SM2SharedKey/"+ch+"/"+lc, "%s: identities / the memory behind them changed (pass %d)", ctx, pass)
							lay.restore()
							good = false
						}
						if err != nil || !bytes.Equal(key, res.Key) {
							t.Fail(fmt.Sprintf("%s/SM2SharedKey/key/%s/pass%d", kp, lc, pass), "%s: K = %x, %v want %x", ctx, key, err, res.Key)
							good = false
						}
					}
					za, err := sOwn.PublicKey().SM2ZA(newSM3(), lay.own)
					t.Eval(1)
					if ch := lay.changed(); ch != "" {
						t.Fail(kp+"/SM2ZA/"+ch+"/"+lc, "%s: identity / the memory behind it changed", ctx)
						lay.restore()
						good = false
					}
					if err != nil || !bytes.Equal(za, zaWant) {
						t.Fail(kp+"/SM2ZA/value/"+lc, "%s: ZA = %x, %v want %x", ctx, za, err, zaWant)
						good = false
					}
				})
				if good {
					t.Outcome("args/ecdh/uid/" + lc)
				}
				t.Nontrivial("args/ecdh/uid/" + ctx)
			}
			if !pool.Release() {
				t.Fail(kp+"/write-before-argument", "%s: canary in front of an identity buffer destroyed", tp)
			}
		}
	}
}

// argsConfirmation: the confirmation values handed to ConfirmResponder / ConfirmInitiator as record fields
// (S_B || S_A in one array) in every capacity class; wrong value then right value in the same buffer.
func argsConfirmation(t *engine.T, tp tuple) {
	const kp = "kx-args/confirmation"
	const klen = 32
	kr := newKXRef()
	privA, privB, ok := sm2Keys(t, kp, tp)
	if !ok {
		return
	}
	RA, RB := kr.G(tp.rA.v), kr.G(tp.rB.v)
	res := kr.result(tp.dA.v, tp.dB.v, tp.rA.v, tp.rB.v, ecref.DefaultUID, ecref.DefaultUID, klen)
	if !res.OK {
		t.Fail(kp+"/setup", "%s: no shared point", tp)
		return
	}
	var pool engine.Pool
	slacks := append([]int{0, -1}, slackClasses(t.Quick())...)
	for _, s := range slacks {
		for _, first := range []string{"SB||SA", "SA||SB"} {
			var sBv, sAv []byte
			var rec *record
			name := fmt.Sprintf("%s/slack=%d", first, s)
			switch {
			case s < 0:
				sBv, sAv = pool.Copy(res.S1), pool.Copy(res.S2)
				name = "separate/guard-page"
				if first != "SB||SA" {
					continue
				}
			case first == "SB||SA":
				rec = newRecord(s, res.S1, res.S2)
				sBv, sAv = rec.views[0], rec.views[1]
			default:
				rec = newRecord(s, res.S2, res.S1)
				sAv, sBv = rec.views[0], rec.views[1]
			}
			unchanged := func(where string) bool {
				if rec != nil {
					if ch := rec.changed(); ch != "" {
						t.Fail(kp+"/"+where+"/"+ch, "%s layout %s: the confirmation record changed", tp, name)
						copy(rec.buf, rec.snap)
						return false
					}
					return true
				}
				if !bytes.Equal(sBv, res.S1) || !bytes.Equal(sAv, res.S2) {
					t.Fail(kp+"/"+where+"/argument-modified", "%s layout %s: a confirmation value changed", tp, name)
					return false
				}
				return true
			}
			good := true
			// initiator: wrong S_B, then (twice) the right one, all in the same buffer
			t.Guard(kp+"/ConfirmResponder", func() {
				ini, err := sm2.NewKeyExchange(privA, &privB.PublicKey, nil, nil, klen, true)
				if err != nil {
					t.Fail(kp+"/setup", "%v", err)
					return
				}
				if _, err := ini.InitKeyExchange(engine.NewScriptReader(b32(tp.rA.v))); err != nil {
					t.Fail(kp+"/setup", "%v", err)
					return
				}
				sBv[17] ^= 0x40
				_, _, err = ini.ConfirmResponder(toPub(RB), sBv)
				t.Eval(1)
				if err == nil {
					t.Fail(kp+"/ConfirmResponder/wrong-SB-accepted", "%s layout %s", tp, name)
					good = false
				}
				sBv[17] ^= 0x40
				good = unchanged("ConfirmResponder") && good
				for pass := 0; pass < 2; pass++ {
					key, sA, err := ini.ConfirmResponder(toPub(RB), sBv)
					t.Eval(1)
					good = unchanged("ConfirmResponder") && good
					if err != nil || !bytes.Equal(key, res.Key) || !bytes.Equal(sA, res.S2) {
						t.Fail(fmt.Sprintf("%s/ConfirmResponder/after-refused-value/pass%d", kp, pass), "%s layout %s: key %x S_A %x err %v; want %x %x", tp, name, key, sA, err, res.Key, res.S2)
						good = false
					}
				}
			})
			// responder: the same for S_A
			t.Guard(kp+"/ConfirmInitiator", func() {
				rsp, err := sm2.NewKeyExchange(privB, &privA.PublicKey, nil, nil, klen, true)
				if err != nil {
					t.Fail(kp+"/setup", "%v", err)
					return
				}
				if _, _, err := rsp.RepondKeyExchange(engine.NewScriptReader(b32(tp.rB.v)), toPub(RA)); err != nil {
					t.Fail(kp+"/setup", "%v", err)
					return
				}
				sAv[0] ^= 0x01
				_, err = rsp.ConfirmInitiator(sAv)
				t.Eval(1)
				if err == nil {
					t.Fail(kp+"/ConfirmInitiator/wrong-SA-accepted", "%s layout %s", tp, name)
					good = false
				}
				sAv[0] ^= 0x01
				good = unchanged("ConfirmInitiator") && good
				for pass := 0; pass < 2; pass++ {
					key, err := rsp.ConfirmInitiator(sAv)
					t.Eval(1)
					good = unchanged("ConfirmInitiator") && good
					if err != nil || !bytes.Equal(key, res.Key) {
						t.Fail(fmt.Sprintf("%s/ConfirmInitiator/after-refused-value/pass%d", kp, pass), "%s layout %s: key %x err %v; want %x", tp, name, key, err, res.Key)
						good = false
					}
				}
			})
			if good {
				t.Outcome("args/confirmation/" + layoutClass(name))
			}
			t.Nontrivial("args/confirmation/" + name)
		}
	}
	if !pool.Release() {
		t.Fail(kp+"/write-before-argument", "%s: canary in front of a confirmation value destroyed", tp)
	}
}
