package c08

// Dimension 2 (results belong to the caller: every returned slice is overwritten after it has been compared, the
// operation is repeated and must give the same answer; two results never share memory; Destroy clears the object, not
// what the caller holds) and dimension 6 (histories with changing values on one object, a refused call followed by a
// good one, objects used alternately, cold and warm key objects).

import (
	"bytes"
	"crypto/ecdsa"
	"fmt"
	"math/big"

	"github.com/emmansun/gmsm/ecdh"
	"github.com/emmansun/gmsm/sm2"

	"verif/engine"
	"verif/ref/ecref"
)

// repeat3 calls f three times. The result of call i is overwritten after call i+1 has returned and before its result
// is compared: a result that is (or shares memory with) retained state or an earlier result shows up as a wrong value.
func repeat3(t *engine.T, key, ctx string, want []byte, f func() ([]byte, error)) bool {
	var prev []byte
	for i := 0; i < 3; i++ {
		got, err := f()
		t.Eval(1)
		if prev != nil {
			scribble(prev)
		}
		if err != nil || !bytes.Equal(got, want) {
			if i == 0 {
				t.Fail(key+"/value", "%s: %x, %v want %x", ctx, got, err, want)
			} else {
				t.Fail(key+"/result-not-owned-by-caller", "%s: call %d after the caller overwrote the previous result: %x, %v want %x", ctx, i+1, got, err, want)
			}
			return false
		}
		prev = got
	}
	scribble(prev)
	return true
}

func ownershipSM2(t *engine.T, tp tuple) {
	const kp = "kx-owner/sm2"
	const klen = 48
	kr := newKXRef()
	RA, RB := kr.G(tp.rA.v), kr.G(tp.rB.v)
	PA, PB := kr.G(tp.dA.v), kr.G(tp.dB.v)
	res := kr.result(tp.dA.v, tp.dB.v, tp.rA.v, tp.rB.v, ecref.DefaultUID, ecref.DefaultUID, klen)
	if !res.OK {
		t.Fail(kp+"/setup", "%s: no shared point", tp)
		return
	}
	for _, gen := range []bool{true, false} {
		ctx := fmt.Sprintf("%s confirm=%v", tp, gen)
		privA, privB, ok := sm2Keys(t, kp, tp)
		if !ok {
			return
		}
		mk := func(own, peer *sm2.PrivateKey) *sm2.KeyExchange {
			ke, err := sm2.NewKeyExchange(own, &peer.PublicKey, nil, nil, klen, gen)
			if err != nil {
				t.Fail(kp+"/setup", "%s: %v", ctx, err)
			}
			return ke
		}
		ini, rsp, rsp2 := mk(privA, privB), mk(privB, privA), mk(privB, privA)
		if ini == nil || rsp == nil || rsp2 == nil {
			return
		}
		good := true
		var lastKeyA, lastSA, lastKeyB, lastSB []byte
		t.Guard(kp, func() {
			if _, err := ini.InitKeyExchange(engine.NewScriptReader(b32(tp.rA.v))); err != nil {
				t.Fail(kp+"/setup", "%s: %v", ctx, err)
				good = false
				return
			}
			// ConfirmResponder: key and S_A
			var prevKey, prevSA []byte
			for i := 0; i < 3; i++ {
				key, sA, err := ini.ConfirmResponder(toPub(RB), append([]byte{}, res.S1...))
				t.Eval(1)
				if prevKey != nil {
					scribble(prevKey)
					scribble(prevSA)
				}
				if err != nil || !bytes.Equal(key, res.Key) || gen != (sA != nil) || (gen && !bytes.Equal(sA, res.S2)) {
					t.Fail(kp+"/ConfirmResponder/result-not-owned-by-caller", "%s: call %d (earlier results overwritten by the caller): key %x S_A %x err %v; want %x %x", ctx, i+1, key, sA, err, res.Key, res.S2)
					good = false
					return
				}
				// key and S_A of one call must not share memory either
				keep := append([]byte{}, sA...)
				scribble(key)
				if !bytes.Equal(sA, keep) {
					t.Fail(kp+"/ConfirmResponder/results-alias-each-other", "%s: overwriting the returned key changed the returned S_A", ctx)
					good = false
					return
				}
				copy(key, res.Key)
				prevKey, prevSA = key, sA
			}
			lastKeyA, lastSA = prevKey, prevSA
			// RepondKeyExchange: S_B (the same scripted r_B each time)
			var prevSB []byte
			for i := 0; i < 3; i++ {
				gotRB, sB, err := rsp.RepondKeyExchange(engine.NewScriptReader(b32(tp.rB.v)), toPub(RA))
				t.Eval(1)
				if prevSB != nil {
					scribble(prevSB)
				}
				if err != nil || !samePoint(gotRB, RB) || gen != (sB != nil) || (gen && !bytes.Equal(sB, res.S1)) {
					t.Fail(kp+"/Respond/result-not-owned-by-caller", "%s: call %d (earlier S_B overwritten by the caller): R_B %v S_B %x err %v; want %x", ctx, i+1, gotRB, sB, err, res.S1)
					good = false
					return
				}
				prevSB = sB
			}
			lastSB = prevSB
			// ConfirmInitiator: key
			var pk []byte
			for i := 0; i < 3; i++ {
				key, err := rsp.ConfirmInitiator(append([]byte{}, res.S2...))
				t.Eval(1)
				if pk != nil {
					scribble(pk)
				}
				if err != nil || !bytes.Equal(key, res.Key) {
					t.Fail(kp+"/ConfirmInitiator/result-not-owned-by-caller", "%s: call %d (earlier keys overwritten by the caller): key %x err %v; want %x", ctx, i+1, key, err, res.Key)
					good = false
					return
				}
				pk = key
			}
			lastKeyB = pk
		})
		if !good {
			continue
		}
		// Destroy clears the object; what the caller holds (results, key objects) and other objects stay intact
		t.Guard(kp+"/Destroy", func() {
			ini.Destroy()
			rsp.Destroy()
			t.Eval(2)
			if !bytes.Equal(lastKeyA, res.Key) || !bytes.Equal(lastKeyB, res.Key) || (gen && (!bytes.Equal(lastSA, res.S2) || !bytes.Equal(lastSB, res.S1))) {
				t.Fail(kp+"/Destroy/clears-caller-results", "%s: a key / confirmation value returned earlier changed when the object was destroyed", ctx)
				good = false
			}
			if privA.D.Cmp(tp.dA.v) != 0 || privB.D.Cmp(tp.dB.v) != 0 || !pointsEqual(&privA.PublicKey, PA.X, PA.Y) || !pointsEqual(&privB.PublicKey, PB.X, PB.Y) {
				t.Fail(kp+"/Destroy/clears-caller-keys", "%s: a static key object changed when a KeyExchange using it was destroyed", ctx)
				good = false
				return
			}
			// an object built before and one built after the Destroy calls, from the same key objects
			good = driveResponder(t, kp+"/other-object-after-Destroy", ctx, rsp2, gen, tp.rB.v, RA, RB, res) && good
			if ini2 := mk(privA, privB); ini2 != nil {
				good = driveInitiator(t, kp+"/new-object-after-Destroy", ctx, ini2, gen, tp.rA.v, RA, RB, res) && good
			}
		})
		if good {
			t.Outcome(fmt.Sprintf("owner/sm2/ok/confirm=%v", gen))
		}
		t.Nontrivial("owner/sm2/" + ctx)
	}
}

func ownershipECDH(t *engine.T, tp tuple) {
	const kp = "kx-owner/ecdh"
	const klen = 48
	kr := newKXRef()
	PA, PB, RA, RB := kr.G(tp.dA.v), kr.G(tp.dB.v), kr.G(tp.rA.v), kr.G(tp.rB.v)
	uidA, uidB := uidOf(9, 0x31), uidOf(40, 0x32)
	res := kr.result(tp.dA.v, tp.dB.v, tp.rA.v, tp.rB.v, uidA, uidB, klen)
	v := kr.U(tp.dA.v, tp.dB.v, tp.rA.v, tp.rB.v)
	if !res.OK {
		t.Fail(kp+"/setup", "%s: no shared point", tp)
		return
	}
	ctx := tp.String()
	good := true
	t.Guard(kp, func() {
		sA, eA := ecdhPriv(tp.dA.v), ecdhPriv(tp.rA.v)
		pB, qB := ecdhPub(PB), ecdhPub(RB)
		sB, eB := ecdhPriv(tp.dB.v), ecdhPriv(tp.rB.v)
		if sA == nil || eA == nil || pB == nil || qB == nil || sB == nil || eB == nil {
			t.Fail(kp+"/setup", "%s: key rejected", ctx)
			good = false
			return
		}
		noErr := func(f func() []byte) func() ([]byte, error) { return func() ([]byte, error) { return f(), nil } }
		good = repeat3(t, kp+"/PrivateKey.Bytes", ctx, b32(tp.dA.v), noErr(sA.Bytes)) && good
		good = repeat3(t, kp+"/PrivateKey.PublicKey.Bytes", ctx, PA.Uncompressed(), noErr(func() []byte { return sA.PublicKey().Bytes() })) && good
		good = repeat3(t, kp+"/PrivateKey.PublicKey.Bytes", ctx, RA.Uncompressed(), noErr(func() []byte { return eA.PublicKey().Bytes() })) && good
		good = repeat3(t, kp+"/PublicKey.Bytes", ctx, PB.Uncompressed(), noErr(pB.Bytes)) && good
		good = repeat3(t, kp+"/PublicKey.Bytes", ctx, RB.Uncompressed(), noErr(qB.Bytes)) && good
		good = repeat3(t, kp+"/SM2ZA", ctx, ref.ZA(uidA, PA), func() ([]byte, error) { return sA.PublicKey().SM2ZA(newSM3(), uidA) }) && good
		good = repeat3(t, kp+"/SM2ZA", ctx, ref.ZA(uidB, PB), func() ([]byte, error) { return pB.SM2ZA(newSM3(), uidB) }) && good
		if x := ref.Mul(tp.dA.v, PB); !x.Inf {
			good = repeat3(t, kp+"/ECDH", ctx, ecref.Bytes32(x.X), func() ([]byte, error) { return sA.ECDH(pB) }) && good
		}
		var uv *ecdh.PublicKey
		good = repeat3(t, kp+"/SM2MQV.Bytes", ctx, v.Uncompressed(), func() ([]byte, error) {
			u, err := sA.SM2MQV(eA, pB, qB)
			if err != nil {
				return nil, err
			}
			uv = u
			return u.Bytes(), nil
		}) && good
		if uv == nil {
			return
		}
		good = repeat3(t, kp+"/SM2SharedKey", ctx, res.Key, func() ([]byte, error) { return uv.SM2SharedKey(false, klen, sA.PublicKey(), pB, uidA, uidB) }) && good
		// the key objects are what they were
		if !bytes.Equal(sA.Bytes(), b32(tp.dA.v)) || !bytes.Equal(eA.Bytes(), b32(tp.rA.v)) || !bytes.Equal(pB.Bytes(), PB.Uncompressed()) || !bytes.Equal(qB.Bytes(), RB.Uncompressed()) ||
			!bytes.Equal(sA.PublicKey().Bytes(), PA.Uncompressed()) || !bytes.Equal(eA.PublicKey().Bytes(), RA.Uncompressed()) || !bytes.Equal(uv.Bytes(), v.Uncompressed()) {
			t.Fail(kp+"/operand-modified", "%s: a key object changed while it was used", ctx)
			good = false
		}
		// ... and keep working, in both roles
		good = driveECDH(t, kp+"/after", ctx, sA, eA, pB, qB, false, klen, uidA, uidB, res, v) && good
		good = driveECDH(t, kp+"/after", ctx, sB, eB, sA.PublicKey(), eA.PublicKey(), true, klen, uidB, uidA, res, v) && good
	})
	if good {
		t.Outcome("owner/ecdh/ok")
	}
	t.Nontrivial("owner/ecdh/" + ctx)
}

// ---------------------------------------------------------------------------------------------------------------------
// histories

func nextScalar(v *big.Int, k int64) *big.Int {
	r := new(big.Int).Add(v, big.NewInt(k))
	if r.Cmp(new(big.Int).Sub(ref.N, big.NewInt(2))) > 0 {
		r.Sub(v, big.NewInt(k))
	}
	return r
}

// historySM2: one initiator object and one responder object live through several sessions with different ephemeral
// keys on both sides, refused inputs in between, and other objects sharing the same key objects used alternately.
func historySM2(t *engine.T, tp tuple, gen bool) {
	const kp = "kx-history2/sm2"
	kr := newKXRef()
	privA, privB, ok := sm2Keys(t, kp, tp)
	if !ok {
		return
	}
	ra := []*big.Int{tp.rA.v, nextScalar(tp.rA.v, 2)}
	rb := []*big.Int{tp.rB.v, nextScalar(tp.rB.v, 5)}
	uidA, uidB := uidOf(7, 0x44), []byte(nil)
	offCurve := &ecdsa.PublicKey{Curve: curve, X: new(big.Int).Set(kr.G(rb[0]).X), Y: new(big.Int).Add(kr.G(rb[0]).Y, one)}
	resFor := func(i, j, klen int) ecref.KXResult {
		return kr.result(tp.dA.v, tp.dB.v, ra[i], rb[j], effUID(uidA), effUID(uidB), klen)
	}
	mkI := func(klen int) *sm2.KeyExchange {
		ke, err := sm2.NewKeyExchange(privA, &privB.PublicKey, uidA, uidB, klen, gen)
		if err != nil {
			t.Fail(kp+"/setup", "%v", err)
		}
		return ke
	}
	mkR := func(klen int) *sm2.KeyExchange {
		ke, err := sm2.NewKeyExchange(privB, &privA.PublicKey, uidB, uidA, klen, gen)
		if err != nil {
			t.Fail(kp+"/setup", "%v", err)
		}
		return ke
	}
	step := 0
	good := true
	note := func(ok bool, what string) {
		step++
		if ok {
			t.Outcome("history2/sm2/" + what)
		} else {
			good = false
		}
		t.Nontrivial(fmt.Sprintf("history2/sm2/%s/%v/%d/%s", tp.dA.name, gen, step, what))
	}
	const klen = 32
	// ---- initiator object
	ini := mkI(klen)
	if ini == nil {
		return
	}
	ctx := fmt.Sprintf("%s confirm=%v", tp, gen)
	init := func(ke *sm2.KeyExchange, i int) bool {
		got, err := ke.InitKeyExchange(engine.NewScriptReader(b32(ra[i])))
		t.Eval(1)
		if err != nil || !samePoint(got, kr.G(ra[i])) {
			t.Fail(kp+"/Init/ephemeral-point", "%s: session with r_A#%d: %v %v", ctx, i, got, err)
			return false
		}
		return true
	}
	t.Guard(kp+"/initiator-object", func() {
		note(init(ini, 0) && confirmResponder(t, kp+"/first-session", ctx, ini, gen, kr.G(rb[0]), resFor(0, 0, klen)), "first-session")
		note(confirmResponder(t, kp+"/other-RB-same-rA", ctx, ini, gen, kr.G(rb[1]), resFor(0, 1, klen)), "other-RB-same-rA")
		// a reply whose confirmation value belongs to another R_B is refused, the genuine reply is then accepted
		_, _, err := ini.ConfirmResponder(toPub(kr.G(rb[0])), append([]byte{}, resFor(0, 1, klen).S1...))
		t.Eval(1)
		if err == nil {
			t.Fail(kp+"/ConfirmResponder/accepts-SB-of-other-RB", "%s: S_B computed for another R_B accepted", ctx)
		}
		note(err != nil && confirmResponder(t, kp+"/after-refused-SB", ctx, ini, gen, kr.G(rb[0]), resFor(0, 0, klen)), "after-refused-SB")
		// an invalid point is refused, the next valid one is processed as usual
		_, _, err = ini.ConfirmResponder(offCurve, append([]byte{}, resFor(0, 1, klen).S1...))
		t.Eval(1)
		if err == nil {
			t.Fail(kp+"/ConfirmResponder/accepts-off-curve", "%s: off-curve R_B accepted in a later session", ctx)
		}
		note(err != nil && confirmResponder(t, kp+"/after-refused-point", ctx, ini, gen, kr.G(rb[1]), resFor(0, 1, klen)), "after-refused-point")
		// a new ephemeral key on the same object
		note(init(ini, 1) && confirmResponder(t, kp+"/second-Init", ctx, ini, gen, kr.G(rb[0]), resFor(1, 0, klen)), "second-Init")
		note(confirmResponder(t, kp+"/second-Init", ctx, ini, gen, kr.G(rb[1]), resFor(1, 1, klen)), "second-Init/other-RB")
		note(init(ini, 0) && confirmResponder(t, kp+"/third-Init", ctx, ini, gen, kr.G(rb[1]), resFor(0, 1, klen)), "back-to-first-rA")
	})
	// ---- responder object
	rsp := mkR(klen)
	if rsp == nil {
		return
	}
	t.Guard(kp+"/responder-object", func() {
		note(driveResponder(t, kp+"/first-session", ctx, rsp, gen, rb[0], kr.G(ra[0]), kr.G(rb[0]), resFor(0, 0, klen)), "resp/first-session")
		note(driveResponder(t, kp+"/second-session", ctx, rsp, gen, rb[1], kr.G(ra[1]), kr.G(rb[1]), resFor(1, 1, klen)), "resp/second-session")
		// wrong S_A refused, right one accepted afterwards (twice)
		w := append([]byte{}, resFor(1, 1, klen).S2...)
		w[31] ^= 0x10
		_, err := rsp.ConfirmInitiator(w)
		t.Eval(1)
		if err == nil {
			t.Fail(kp+"/ConfirmInitiator/wrong-SA-accepted", "%s", ctx)
		}
		for i := 0; i < 2; i++ {
			key, err := rsp.ConfirmInitiator(append([]byte{}, resFor(1, 1, klen).S2...))
			t.Eval(1)
			okk := err == nil && bytes.Equal(key, resFor(1, 1, klen).Key)
			if !okk {
				t.Fail(kp+"/after-refused-SA/responder-key", "%s: key %x err %v", ctx, key, err)
			}
			note(okk, "resp/after-refused-SA")
		}
		// an invalid R_A is refused; the next valid one starts a normal session
		_, _, err = rsp.RepondKeyExchange(engine.NewScriptReader(b32(rb[0])), offCurve)
		t.Eval(1)
		if err == nil {
			t.Fail(kp+"/Respond/accepts-off-curve", "%s: off-curve R_A accepted in a later session", ctx)
		}
		note(err != nil && driveResponder(t, kp+"/after-refused-point", ctx, rsp, gen, rb[0], kr.G(ra[1]), kr.G(rb[0]), resFor(1, 0, klen)), "resp/after-refused-point")
		note(driveResponder(t, kp+"/fourth-session", ctx, rsp, gen, rb[1], kr.G(ra[0]), kr.G(rb[1]), resFor(0, 1, klen)), "resp/fourth-session")
	})
	// ---- objects with different key lengths sharing the key objects and identity slices, used alternately
	t.Guard(kp+"/alternating-objects", func() {
		kl := []int{256, 1, 97}
		i0, i1, r2 := mkI(kl[0]), mkI(kl[1]), mkR(kl[2])
		if i0 == nil || i1 == nil || r2 == nil {
			return
		}
		a := init(i0, 0) && init(i1, 1)
		a = a && driveResponder(t, kp+"/alternating", ctx, r2, gen, rb[0], kr.G(ra[0]), kr.G(rb[0]), resFor(0, 0, kl[2]))
		a = a && confirmResponder(t, kp+"/alternating", ctx, i0, gen, kr.G(rb[0]), resFor(0, 0, kl[0]))
		a = a && confirmResponder(t, kp+"/alternating", ctx, i1, gen, kr.G(rb[1]), resFor(1, 1, kl[1]))
		a = a && confirmResponder(t, kp+"/alternating", ctx, i0, gen, kr.G(rb[1]), resFor(0, 1, kl[0]))
		a = a && driveResponder(t, kp+"/alternating", ctx, r2, gen, rb[1], kr.G(ra[1]), kr.G(rb[1]), resFor(1, 1, kl[2]))
		a = a && confirmResponder(t, kp+"/alternating", ctx, i1, gen, kr.G(rb[0]), resFor(1, 0, kl[1]))
		note(a, "alternating-objects")
	})
	if !bytes.Equal(uidA, uidOf(7, 0x44)) {
		t.Fail(kp+"/identity-modified", "%s: the identity slice shared by all objects changed", ctx)
		good = false
	}
	if good {
		t.Outcome("history2/sm2/all-ok")
	}
}

// historyECDH: key objects used cold (public key never derived before) and warm, the same objects through a sequence
// of exchanges with changing partners and back, the same object in two argument positions.
func historyECDH(t *engine.T, tp tuple) {
	const kp = "kx-history2/ecdh"
	const klen = 33
	kr := newKXRef()
	type side struct{ d, r *big.Int }
	A := side{tp.dA.v, tp.rA.v}
	peers := []side{{tp.dB.v, tp.rB.v}, {nextScalar(tp.dB.v, 1), nextScalar(tp.rB.v, 7)}, {tp.rB.v, tp.dB.v}}
	ctx := tp.String()
	good := true
	note := func(ok bool, what string) {
		if ok {
			t.Outcome("history2/ecdh/" + what)
		} else {
			good = false
		}
		t.Nontrivial("history2/ecdh/" + tp.dA.name + "/" + what)
	}
	run := func(what string, sL, eL *ecdh.PrivateKey, sR, eR *ecdh.PublicKey, a, b side, responder bool) {
		var res ecref.KXResult
		var v ecref.Point
		if responder { // a is the responder B, b the initiator
			res = kr.result(b.d, a.d, b.r, a.r, ecref.DefaultUID, ecref.DefaultUID, klen)
			v = kr.U(b.d, a.d, b.r, a.r)
		} else {
			res = kr.result(a.d, b.d, a.r, b.r, ecref.DefaultUID, ecref.DefaultUID, klen)
			v = kr.U(a.d, b.d, a.r, b.r)
		}
		note(driveECDH(t, kp+"/"+what, ctx, sL, eL, sR, eR, responder, klen, nil, nil, res, v), what)
	}
	t.Guard(kp, func() {
		// cold: SM2MQV is the first thing that ever happens to these key objects
		for _, responder := range []bool{false, true} {
			sL, eL := ecdhPriv(A.d), ecdhPriv(A.r)
			run("cold-keys", sL, eL, ecdhPub(kr.G(peers[0].d)), ecdhPub(kr.G(peers[0].r)), A, peers[0], responder)
			run("warm-keys", sL, eL, ecdhPub(kr.G(peers[0].d)), ecdhPub(kr.G(peers[0].r)), A, peers[0], responder)
		}
		// cold plain ECDH
		if k := ecdhPriv(A.d); k != nil {
			x := ref.Mul(A.d, kr.G(peers[0].d))
			got, err := k.ECDH(ecdhPub(kr.G(peers[0].d)))
			t.Eval(1)
			okk := !x.Inf && err == nil && bytes.Equal(got, ecref.Bytes32(x.X))
			if !okk {
				t.Fail(kp+"/cold-keys/ECDH", "%s: %x %v", ctx, got, err)
			}
			note(okk, "cold-ecdh")
		}
		// one pair of key objects, partners changing and coming back; partner public keys obtained both ways
		sL, eL := ecdhPriv(A.d), ecdhPriv(A.r)
		var pubs [][2]*ecdh.PublicKey
		for i, p := range peers {
			if i%2 == 0 {
				pubs = append(pubs, [2]*ecdh.PublicKey{ecdhPub(kr.G(p.d)), ecdhPub(kr.G(p.r))})
			} else {
				s, e := ecdhPriv(p.d), ecdhPriv(p.r)
				if s == nil || e == nil {
					t.Fail(kp+"/setup", "%s: key rejected", ctx)
					return
				}
				pubs = append(pubs, [2]*ecdh.PublicKey{s.PublicKey(), e.PublicKey()})
			}
		}
		for n, i := range []int{0, 1, 2, 1, 0, 0} {
			run(fmt.Sprintf("sequence/step%d", n), sL, eL, pubs[i][0], pubs[i][1], A, peers[i], n%2 == 1)
		}
		// the same object in two positions: static = ephemeral key object, static = ephemeral peer object
		same := side{A.d, A.d}
		ps := side{peers[0].d, peers[0].d}
		run("same-object-twice", sL, sL, pubs[0][0], pubs[0][0], same, ps, false)
		run("same-object-twice", sL, sL, pubs[0][0], pubs[0][0], same, ps, true)
		// exchange with oneself: own static public key object as the peer's
		self := side{A.d, A.r}
		run("self-exchange", sL, eL, sL.PublicKey(), eL.PublicKey(), self, self, false)
		// nothing has changed the objects
		if !bytes.Equal(sL.Bytes(), b32(A.d)) || !bytes.Equal(eL.Bytes(), b32(A.r)) || !bytes.Equal(sL.PublicKey().Bytes(), kr.G(A.d).Uncompressed()) || !bytes.Equal(eL.PublicKey().Bytes(), kr.G(A.r).Uncompressed()) {
			t.Fail(kp+"/operand-modified", "%s: a private key object changed during the sequence", ctx)
			good = false
		}
		for i, p := range peers {
			if !bytes.Equal(pubs[i][0].Bytes(), kr.G(p.d).Uncompressed()) || !bytes.Equal(pubs[i][1].Bytes(), kr.G(p.r).Uncompressed()) {
				t.Fail(kp+"/operand-modified", "%s: a public key object changed during the sequence", ctx)
				good = false
			}
		}
	})
	if good {
		t.Outcome("history2/ecdh/all-ok")
	}
}
