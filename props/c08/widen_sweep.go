package c08

// Dimension 7: every length / residue class of the inner primitives (SM3 KDF lanes, SM3 padding inside ZA, the two
// ENTL bytes) as seen through the two key-agreement implementations.

import (
	"bytes"
	"fmt"

	"github.com/emmansun/gmsm/sm2"

	"verif/engine"
	"verif/ref/ecref"
)

func chunked(list []int, size int) [][]int {
	var out [][]int
	for len(list) > 0 {
		n := size
		if n > len(list) {
			n = len(list)
		}
		out = append(out, list[:n])
		list = list[n:]
	}
	return out
}

// klenChunks: every key length 1..320 (1..10 KDF blocks, full and partial last block; the multi-lane KDF switches at 4
// and 8 blocks) and the neighbourhood of 16 / 32 blocks; thorough: every length to 1100 (35 blocks) and beyond.
func klenChunks(quick bool) [][]int {
	var l []int
	if quick {
		for k := 1; k <= 320; k++ {
			l = append(l, k)
		}
		l = append(l, 479, 480, 481, 511, 512, 513, 1023, 1024, 1025)
		return chunked(l, 110)
	}
	for k := 1; k <= 1100; k++ {
		l = append(l, k)
	}
	l = append(l, 2047, 2048, 2049, 4096, 4097)
	return chunked(l, 158)
}

func klenClass(klen int) string {
	blocks := (klen + 31) / 32
	c := "blocks<4"
	switch {
	case blocks >= 8:
		c = "blocks>=8"
	case blocks >= 4:
		c = "blocks4..7"
	}
	if klen%32 != 0 {
		return c + "/partial-last-block"
	}
	return c + "/whole-blocks"
}

func klenSweep(t *engine.T, tp tuple, klens []int) {
	kr := newKXRef()
	uidA, uidB := uidOf(3, 0x21), []byte(nil)
	maxK := 0
	for _, k := range klens {
		if k > maxK {
			maxK = k
		}
	}
	// K(klen) is the klen-byte prefix of Ha_1 || Ha_2 || ... (GB/T 32918.4 5.4.3): one reference evaluation per chunk
	full := kr.result(tp.dA.v, tp.dB.v, tp.rA.v, tp.rB.v, effUID(uidA), effUID(uidB), maxK)
	if !full.OK {
		t.Fail("kx-klen/setup", "tuple %s has no shared point", tp)
		return
	}
	RA, RB := kr.G(tp.rA.v), kr.G(tp.rB.v)
	v := kr.U(tp.dA.v, tp.dB.v, tp.rA.v, tp.rB.v)
	privA, privB, ok := sm2Keys(t, "kx-klen", tp)
	if !ok {
		return
	}
	sA, sB, eA, eB := ecdhPriv(tp.dA.v), ecdhPriv(tp.dB.v), ecdhPriv(tp.rA.v), ecdhPriv(tp.rB.v)
	for _, klen := range klens {
		res := ecref.KXResult{Key: full.Key[:klen], S1: full.S1, S2: full.S2, OK: true}
		cl := klenClass(klen)
		ctx := fmt.Sprintf("%s klen=%d", tp, klen)
		gen := klen%2 == 0
		ini, err := sm2.NewKeyExchange(privA, &privB.PublicKey, uidA, uidB, klen, gen)
		if err != nil {
			t.Fail("kx-klen/sm2/NewKeyExchange", "%s: %v", ctx, err)
			return
		}
		rsp, err := sm2.NewKeyExchange(privB, &privA.PublicKey, uidB, uidA, klen, gen)
		if err != nil {
			t.Fail("kx-klen/sm2/NewKeyExchange", "%s: %v", ctx, err)
			return
		}
		a := driveInitiator(t, "kx-klen/sm2/"+cl, ctx, ini, gen, tp.rA.v, RA, RB, res)
		b := driveResponder(t, "kx-klen/sm2/"+cl, ctx, rsp, gen, tp.rB.v, RA, RB, res)
		c := driveECDH(t, "kx-klen/"+cl, ctx, sA, eA, sB.PublicKey(), eB.PublicKey(), false, klen, uidA, uidB, res, v)
		d := driveECDH(t, "kx-klen/"+cl, ctx, sB, eB, sA.PublicKey(), eA.PublicKey(), true, klen, uidB, uidA, res, v)
		if a && b && c && d {
			t.Outcome("klen/" + cl)
		}
		t.Nontrivial(fmt.Sprintf("klen/%s/%d", tp.dA.name, klen))
	}
}

// uidLenChunks: every identity length 0..200 (each SM3 padding residue of the ZA input three times over, ENTL crossing
// its byte boundary at 32) and the neighbourhood of every power of two up to the 8191-byte limit.
func uidLenChunks(quick bool) [][]int {
	var l []int
	if quick {
		for k := 0; k <= 200; k++ {
			l = append(l, k)
		}
		l = append(l, 255, 256, 257, 511, 512, 513, 1023, 1024, 4095, 4096, 8190, 8191)
		return chunked(l, 72)
	}
	for k := 0; k <= 1100; k++ {
		l = append(l, k)
	}
	l = append(l, 2047, 2048, 2049, 4095, 4096, 4097)
	for k := 8120; k <= 8191; k++ {
		l = append(l, k)
	}
	return chunked(l, 100)
}

func uidLenClass(n int) string {
	switch {
	case n == 0:
		return "len=0(default)"
	case n < 32:
		return "len<32"
	case n < 256:
		return "len32..255"
	}
	return "len>=256"
}

func uidLenSweep(t *engine.T, tp tuple, lens []int) {
	kr := newKXRef()
	others := []int{0, 1, 16, 70}
	PA := kr.G(tp.dA.v)
	RA, RB := kr.G(tp.rA.v), kr.G(tp.rB.v)
	v := kr.U(tp.dA.v, tp.dB.v, tp.rA.v, tp.rB.v)
	privA, privB, ok := sm2Keys(t, "kx-uidlen", tp)
	if !ok {
		return
	}
	sA, sB, eA, eB := ecdhPriv(tp.dA.v), ecdhPriv(tp.dB.v), ecdhPriv(tp.rA.v), ecdhPriv(tp.rB.v)
	const klen = 32
	for _, n := range lens {
		uid := uidOf(n, 0x5e)
		other := uidOf(others[n%len(others)], 0x17)
		cl := uidLenClass(n)
		ctx := fmt.Sprintf("%s uid=%dB other=%dB", tp, n, len(other))
		// A carries the swept identity, B the other one
		res := kr.result(tp.dA.v, tp.dB.v, tp.rA.v, tp.rB.v, effUID(uid), effUID(other), klen)
		good := true
		t.Guard("kx-uidlen/ecdh/SM2ZA", func() {
			za, err := sA.PublicKey().SM2ZA(newSM3(), uid)
			t.Eval(1)
			if want := ref.ZA(effUID(uid), PA); err != nil || !bytes.Equal(za, want) {
				t.Fail("kx-uidlen/ecdh/SM2ZA/"+cl, "SM2ZA(uid %d bytes) = %x, %v want %x", n, za, err, want)
				good = false
			}
		})
		ini, err := sm2.NewKeyExchange(privA, &privB.PublicKey, uid, other, klen, true)
		if err != nil {
			t.Fail("kx-uidlen/sm2/NewKeyExchange/"+cl, "%s: %v", ctx, err)
			continue
		}
		// the responder learns its peer (whose identity is the swept one) through the constructor or through SetPeerParameters
		var rsp *sm2.KeyExchange
		if n%2 == 0 {
			rsp, err = sm2.NewKeyExchange(privB, &privA.PublicKey, other, uid, klen, true)
		} else {
			rsp, err = sm2.NewKeyExchange(privB, nil, other, nil, klen, true)
			if err == nil {
				err = rsp.SetPeerParameters(&privA.PublicKey, uid)
			}
		}
		if err != nil {
			t.Fail("kx-uidlen/sm2/NewKeyExchange/"+cl, "%s: responder: %v", ctx, err)
			continue
		}
		a := driveInitiator(t, "kx-uidlen/sm2/"+cl, ctx, ini, true, tp.rA.v, RA, RB, res)
		b := driveResponder(t, "kx-uidlen/sm2/"+cl, ctx, rsp, true, tp.rB.v, RA, RB, res)
		c := driveECDH(t, "kx-uidlen/"+cl, ctx, sA, eA, sB.PublicKey(), eB.PublicKey(), false, klen, uid, other, res, v)
		d := driveECDH(t, "kx-uidlen/"+cl, ctx, sB, eB, sA.PublicKey(), eA.PublicKey(), true, klen, other, uid, res, v)
		if good && a && b && c && d {
			t.Outcome("uidlen/" + cl)
		}
		t.Nontrivial(fmt.Sprintf("uidlen/%d", n))
	}
}

// klenPairs (dimension 6 on the process-wide KDF machinery): every ordered pair of key-length classes, the second
// derivation judged; on ecdh by two consecutive SM2SharedKey calls, on sm2 by two responder objects used alternately.
func klenPairs(t *engine.T, tp tuple) {
	const kp = "kx-klen-pairs"
	classes := []int{1, 32, 33, 96, 97, 128, 129, 224, 225, 256, 257, 512}
	if !t.Quick() {
		classes = append(classes, 31, 64, 127, 160, 255, 288, 511, 513, 1024)
	}
	kr := newKXRef()
	maxK := 0
	for _, k := range classes {
		if k > maxK {
			maxK = k
		}
	}
	full := kr.result(tp.dA.v, tp.dB.v, tp.rA.v, tp.rB.v, ecref.DefaultUID, ecref.DefaultUID, maxK)
	if !full.OK {
		t.Fail(kp+"/setup", "tuple %s has no shared point", tp)
		return
	}
	RA := kr.G(tp.rA.v)
	privA, privB, ok := sm2Keys(t, kp, tp)
	if !ok {
		return
	}
	sA, sB, eA, eB := ecdhPriv(tp.dA.v), ecdhPriv(tp.dB.v), ecdhPriv(tp.rA.v), ecdhPriv(tp.rB.v)
	if sA == nil || sB == nil || eA == nil || eB == nil {
		t.Fail(kp+"/setup", "%s: key rejected", tp)
		return
	}
	uv, err := sB.SM2MQV(eB, sA.PublicKey(), eA.PublicKey())
	if err != nil {
		t.Fail(kp+"/setup", "%s: SM2MQV: %v", tp, err)
		return
	}
	objs := map[int]*sm2.KeyExchange{}
	for _, k := range classes {
		ke, err := sm2.NewKeyExchange(privB, &privA.PublicKey, nil, nil, k, false)
		if err == nil {
			_, _, err = ke.RepondKeyExchange(engine.NewScriptReader(b32(tp.rB.v)), toPub(RA))
		}
		if err != nil {
			t.Fail(kp+"/setup", "%s klen=%d: %v", tp, k, err)
			return
		}
		objs[k] = ke
	}
	good := true
	for _, a := range classes {
		for _, b := range classes {
			t.Guard(kp, func() {
				_, e1 := uv.SM2SharedKey(true, a, sB.PublicKey(), sA.PublicKey(), nil, nil)
				k2, e2 := uv.SM2SharedKey(true, b, sB.PublicKey(), sA.PublicKey(), nil, nil)
				t.Eval(2)
				if e1 != nil || e2 != nil || !bytes.Equal(k2, full.Key[:b]) {
					t.Fail(kp+"/ecdh/second-key/"+klenClass(a)+"->"+klenClass(b), "%s: klen %d after klen %d: %x (%v %v) want %x", tp, b, a, k2, e1, e2, full.Key[:b])
					good = false
				}
				_, e1 = objs[a].ConfirmInitiator(nil)
				k2, e2 = objs[b].ConfirmInitiator(nil)
				t.Eval(2)
				if e1 != nil || e2 != nil || !bytes.Equal(k2, full.Key[:b]) {
					t.Fail(kp+"/sm2/second-key/"+klenClass(a)+"->"+klenClass(b), "%s: klen %d after klen %d: %x (%v %v) want %x", tp, b, a, k2, e1, e2, full.Key[:b])
					good = false
				}
			})
			t.Nontrivial(fmt.Sprintf("klen-pairs/%s/%d/%d", tp.dA.name, a, b))
		}
	}
	if good {
		t.Outcome("klen-pairs/ok")
	}
}
