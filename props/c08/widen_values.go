package c08

// Dimensions 9 and 10: boundary values of the fields that the scalar product cannot steer — peer points chosen by
// their coordinates (unknown discrete logarithm, one-sided reference), the agreed point V chosen by its coordinates
// (the peer's static key is solved for), the implicit signature t and the carry class of d + x̄·r chosen directly.

import (
	"fmt"
	"math/big"

	"github.com/emmansun/gmsm/sm2"

	"verif/engine"
	"verif/ref/ecref"
)

type npoint struct {
	name string
	p    ecref.Point
}

// firstOnCurve walks x = start, start+step, ... until x is the abscissa of a curve point.
func firstOnCurve(start, step *big.Int, ybit uint) ecref.Point {
	x := new(big.Int).Set(start)
	for i := 0; i < 4096; i++ {
		if x.Sign() >= 0 && x.Cmp(ref.P) < 0 {
			if p, ok := ref.LiftX(x, ybit); ok {
				return p
			}
		}
		x.Add(x, step)
	}
	panic("c08: no curve point found in 4096 steps")
}

// chosenPoints: valid curve points selected by coordinate shape.
func chosenPoints(quick bool) []npoint {
	m127 := new(big.Int).Sub(pow2(127), one)
	m128 := new(big.Int).Sub(pow2(128), one)
	var xlz, ylz *big.Int // scalars whose multiple of G has a leading zero byte in x only / in y only
	for _, s := range leadingZeroShapes() {
		if s.name == "pub-x-leading-zero" {
			xlz = s.v
		} else {
			ylz = s.v
		}
	}
	pts := []npoint{
		{"x-min,y-even", firstOnCurve(new(big.Int), one, 0)},                           // x = 0 is on the curve: (0, sqrt(b))
		{"x-min,y-odd", firstOnCurve(new(big.Int), one, 1)},                            // its negative
		{"x-max", firstOnCurve(new(big.Int).Sub(ref.P, one), big.NewInt(-1), 0)},       // x just below p
		{"x-low127=0", firstOnCurve(pow2(127), pow2(127), 0)},                          // x̄ = 2^127, the smallest value
		{"x-low127=1s", firstOnCurve(new(big.Int).Add(pow2(127), m127), pow2(127), 1)}, // x̄ = 2^128-1, the largest value
		{"y-leading-zero", ref.BaseMul(ylz)},
		{"G", ref.G()},
	}
	if !quick {
		pts = append(pts,
			npoint{"x-low128=0", firstOnCurve(pow2(128), pow2(128), 1)},
			npoint{"x-low128=1s", firstOnCurve(new(big.Int).Add(pow2(128), m128), pow2(128), 0)},
			npoint{"x-one-leading-zero-byte", firstOnCurve(pow2(247), one, 0)},
			npoint{"x-leading-zero(lz-shape)", ref.BaseMul(xlz)},
			npoint{"x-low127=0,x-high", firstOnCurve(new(big.Int).Lsh(new(big.Int).Rsh(ref.P, 127), 127), new(big.Int).Neg(pow2(127)), 0)},
			npoint{"-G", ref.Neg(ref.G())},
			npoint{"x=2^255..", firstOnCurve(pow2(255), one, 1)},
		)
	}
	return pts
}

var wklens = []int{16, 1, 32, 33, 48, 97, 256}

// oneSidedBoth runs the party (d, r) against peer points (P, R) in one role on both implementations.
func oneSidedBoth(t *engine.T, kr *kxRef, kp, ctx string, priv *sm2.PrivateKey, d, r named, P, R ecref.Point, responder bool, i int) bool {
	klen := wklens[i%len(wklens)]
	gen := (i/len(wklens))%2 == 0
	ownUID, peerUID := uidOf([]int{0, 5, 64}[i%3], 0x61), uidOf([]int{16, 0, 1}[(i/3)%3], 0x62)
	res, v := oneSided(kr, !responder, d.v, r.v, ownUID, peerUID, P, R, klen)
	if res.OK {
		t.Outcome("one-sided/ref/key")
	} else {
		t.Outcome("one-sided/ref/infinity")
	}
	ke, err := sm2.NewKeyExchange(priv, toPub(P), ownUID, peerUID, klen, gen)
	t.Eval(1)
	if err != nil {
		t.Fail(kp+"/sm2/NewKeyExchange/rejects-valid", "%s: %v", ctx, err)
		return false
	}
	ok := true
	if responder {
		ok = driveResponder(t, kp+"/sm2", ctx, ke, gen, r.v, R, kr.G(r.v), res)
	} else {
		ok = driveInitiator(t, kp+"/sm2", ctx, ke, gen, r.v, kr.G(r.v), R, res)
	}
	if e := ecdhPriv(r.v); e != nil || r.v.Cmp(new(big.Int).Sub(ref.N, one)) != 0 { // ecdh has no r = n-1
		ok = driveECDH(t, kp, ctx, ecdhPriv(d.v), e, ecdhPub(P), ecdhPub(R), responder, klen, ownUID, peerUID, res, v) && ok
	}
	return ok
}

// peerPoints: static peer key pts[pi] x every ephemeral peer point x both roles.
func peerPoints(t *engine.T, d, r named, pts []npoint, pi int) {
	const kp = "kx-peer-points"
	kr := newKXRef()
	priv, err := sm2.NewPrivateKey(b32(d.v))
	if err != nil {
		t.Fail(kp+"/setup", "%v", err)
		return
	}
	P := pts[pi]
	i := pi * 5
	for _, R := range pts {
		for _, responder := range []bool{false, true} {
			ctx := fmt.Sprintf("own d=%s r=%s, peer P=%s R=%s, responder=%v", d.name, r.name, P.name, R.name, responder)
			if oneSidedBoth(t, kr, kp, ctx, priv, d, r, P.p, R.p, responder, i) {
				t.Outcome("peer-points/ok")
			}
			t.Nontrivial("peer-points/" + ctx)
			i++
		}
	}
	if pi == 0 {
		t.Sample(map[string]any{"family": "peer-points", "own": d.name + "/" + r.name, "P": P.name, "R": "all chosen points, both roles"})
	}
}

// agreedPoints: the agreed point V itself is chosen (coordinates with many leading zero bytes, extreme abscissas);
// the peer's static key is P = [t^-1]V - [x̄(R)]R for the own implicit signature t and a peer ephemeral point R.
func agreedPoints(t *engine.T, d, r named, pts []npoint) {
	const kp = "kx-agreed-point"
	kr := newKXRef()
	priv, err := sm2.NewPrivateKey(b32(d.v))
	if err != nil {
		t.Fail(kp+"/setup", "%v", err)
		return
	}
	tt := kr.T(d.v, r.v)
	if tt.Sign() == 0 {
		return
	}
	tinv := new(big.Int).ModInverse(tt, ref.N)
	Rs := []npoint{{"[5]G", ref.BaseMul(big.NewInt(5))}, pts[4]}
	i := 0
	for _, V := range pts {
		for _, R := range Rs {
			P := ref.Add(ref.Mul(tinv, V.p), ref.Neg(ref.Mul(avf(R.p.X), R.p)))
			if P.Inf {
				continue
			}
			for _, responder := range []bool{false, true} {
				ctx := fmt.Sprintf("own d=%s r=%s, agreed point V=%s, peer R=%s, responder=%v", d.name, r.name, V.name, R.name, responder)
				if _, v := oneSided(kr, !responder, d.v, r.v, nil, nil, P, R.p, 16); !v.Equal(V.p) {
					panic("c08 harness: constructed static peer key does not lead to the chosen agreed point")
				}
				if oneSidedBoth(t, kr, kp+"/"+V.name, ctx, priv, d, r, P, R.p, responder, i) {
					t.Outcome("agreed-point/ok/" + V.name)
				}
				t.Nontrivial("agreed-point/" + ctx)
				i++
			}
		}
	}
	t.Sample(map[string]any{"family": "agreed-point", "own": d.name + "/" + r.name, "cases": i})
}

// ---------------------------------------------------------------------------------------------------------------------
// implicit signature t = (d + x̄·r) mod n: chosen values of t and every class of the integer sum d + (x̄·r mod n)

func implicitRs(quick bool, rs []named) []named {
	out := []named{{"1", big.NewInt(1)}, {"2^128-1", new(big.Int).Sub(pow2(128), one)}, {"chainR", chainScalar("r")}}
	if !quick {
		out = append(out, named{"3", big.NewInt(3)}, named{"n-2", new(big.Int).Sub(ref.N, big.NewInt(2))}, named{"n-1", new(big.Int).Sub(ref.N, one)}, rs[len(rs)-3])
	}
	return out
}

func implicitSig(t *engine.T, r named, other tuple) {
	kr := newKXRef()
	n := ref.N
	m := new(big.Int).Mul(avf(kr.G(r.v).X), r.v)
	m.Mod(m, n)
	p256 := pow2(256)
	type target struct {
		name string
		d    *big.Int
	}
	var ts []target
	sum := func(name string, s *big.Int) { ts = append(ts, target{"sum=" + name, new(big.Int).Sub(s, m)}) }
	tv := func(name string, v *big.Int) {
		d := new(big.Int).Sub(v, m)
		ts = append(ts, target{"t=" + name, d.Mod(d, n)})
	}
	sum("n-1", new(big.Int).Sub(n, one))
	sum("n+1", new(big.Int).Add(n, one))
	sum("n+2", new(big.Int).Add(n, big.NewInt(2)))
	sum("n+2^223", new(big.Int).Add(n, pow2(223)))
	sum("2^256-2", new(big.Int).Sub(p256, big.NewInt(2)))
	sum("2^256-1", new(big.Int).Sub(p256, one))
	sum("2^256", p256)
	sum("2^256+1", new(big.Int).Add(p256, one))
	sum("2^256+2^64", new(big.Int).Add(p256, pow2(64)))
	for _, k := range []int{1, 8, 16, 64, 128, 192, 248, 255} {
		tv(fmt.Sprintf("2^%d", k), pow2(k))
		tv(fmt.Sprintf("2^%d-1", k), new(big.Int).Sub(pow2(k), one))
	}
	tv("n-2", new(big.Int).Sub(n, big.NewInt(2)))
	i := 0
	nm2 := new(big.Int).Sub(n, big.NewInt(2))
	for _, tg := range ts {
		if tg.d.Sign() <= 0 || tg.d.Cmp(nm2) > 0 {
			t.Outcome("implicit/target-unreachable")
			continue // this r cannot reach the target with a valid static key
		}
		s := new(big.Int).Add(tg.d, m)
		class := "sum<n"
		switch {
		case s.Cmp(p256) >= 0:
			class = "sum>=2^256"
		case s.Cmp(n) >= 0:
			class = "n<=sum<2^256"
		}
		if got := kr.T(tg.d, r.v); got.Cmp(new(big.Int).Mod(s, n)) != 0 {
			panic("c08 harness: implicit signature target construction")
		}
		special := named{tg.name + "(r=" + r.name + ")", tg.d}
		kp := "kx-implicit/" + class
		runTuple(t, kr, tuple{special, other.dB, r, other.rB}, optionsAt(i), kp)
		i++
		runTuple(t, kr, tuple{other.dA, special, other.rA, r}, optionsAt(i), kp)
		i++
		runTuple(t, kr, tuple{special, special, r, r}, optionsAt(i), kp)
		i++
		t.Nontrivial("implicit/" + class + "/" + special.name)
		t.Outcome("implicit/class/" + class)
	}
	t.Sample(map[string]any{"family": "implicit-sig", "r": r.name, "tuples": i})
}
