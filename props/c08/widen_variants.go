package c08

// Dimension 8 (every accepted variant: the hash handed to SM2ZA, every construction route of the key objects, returned
// pointers passed on directly, a key object exchanging with itself) and dimension 10 (rejection loops of the
// ephemeral-key generators, driven with scripted streams; the oracle does not assume how a scalar is sampled).

import (
	"bytes"
	"crypto/ecdsa"
	"crypto/sha1"
	"crypto/sha256"
	"crypto/sha512"
	"encoding/binary"
	"fmt"
	"hash"
	"math/big"

	"github.com/emmansun/gmsm/ecdh"
	"github.com/emmansun/gmsm/sm2"

	"verif/engine"
	"verif/ref/ecref"
	"verif/ref/sm3ref"
)

// zaPreimage is ENTL || ID || a || b || xG || yG || xA || yA (GB/T 32918.2 5.5).
func zaPreimage(uid []byte, pub ecref.Point) []byte {
	var m []byte
	m = binary.BigEndian.AppendUint16(m, uint16(len(uid)*8))
	m = append(m, uid...)
	for _, v := range []*big.Int{ref.A, ref.B, ref.Gx, ref.Gy, pub.X, pub.Y} {
		m = append(m, ecref.Bytes32(v)...)
	}
	return m
}

// variantsZA: PublicKey.SM2ZA takes the hash as a parameter; ZA = H(preimage) for each hash the caller may pass, and
// a hash object the caller resets can be used again.
func variantsZA(t *engine.T, tuples []tuple) {
	const kp = "kx-variants/SM2ZA"
	hashes := []struct {
		name string
		mk   func() hash.Hash
		sum  func([]byte) []byte // independent of the library: the reference SM3, the standard library otherwise
	}{
		{"sm3", newSM3, func(m []byte) []byte { s := sm3ref.Sum(m); return s[:] }},
		{"sha256", sha256.New, func(m []byte) []byte { s := sha256.Sum256(m); return s[:] }},
		{"sha512", sha512.New, func(m []byte) []byte { s := sha512.Sum512(m); return s[:] }},
		{"sha512/256", sha512.New512_256, func(m []byte) []byte { s := sha512.Sum512_256(m); return s[:] }},
		{"sha224", sha256.New224, func(m []byte) []byte { s := sha256.Sum224(m); return s[:] }},
		{"sha1", sha1.New, func(m []byte) []byte { s := sha1.Sum(m); return s[:] }},
	}
	for _, tp := range tuples {
		for _, d := range []named{tp.dA, tp.dB} {
			P := ref.BaseMul(d.v)
			pub := ecdhPub(P)
			if pub == nil {
				t.Fail(kp+"/setup", "public key of d=%s rejected", d.name)
				continue
			}
			for _, n := range []int{0, 1, 16, 53, 54, 55, 200} {
				uid := uidOf(n, 0x29)
				pre := zaPreimage(effUID(uid), P)
				for _, h := range hashes {
					want := h.sum(pre)
					t.Guard(kp+"/"+h.name, func() {
						md := h.mk()
						za, err := pub.SM2ZA(md, uid)
						t.Eval(1)
						if err != nil || !bytes.Equal(za, want) {
							t.Fail(kp+"/"+h.name+"/value", "SM2ZA(%s, uid %d bytes, d=%s) = %x, %v want %x", h.name, n, d.name, za, err, want)
							return
						}
						md.Reset()
						za2, err := pub.SM2ZA(md, uid)
						t.Eval(1)
						if err != nil || !bytes.Equal(za2, want) {
							t.Fail(kp+"/"+h.name+"/hash-object-reused-after-Reset", "SM2ZA(%s, uid %d bytes) second use of the hash object = %x, %v want %x", h.name, n, za2, err, want)
							return
						}
						t.Outcome("variants/za/" + h.name)
					})
					t.Nontrivial(fmt.Sprintf("variants/za/%s/%s/%d", h.name, d.name, n))
				}
			}
		}
	}
}

// variantsRoutes: the same key values obtained through every exported construction route, in every combination.
func variantsRoutes(t *engine.T, tp tuple) {
	const kp = "kx-variants/routes"
	const klen = 40
	kr := newKXRef()
	PA, PB, RA, RB := kr.G(tp.dA.v), kr.G(tp.dB.v), kr.G(tp.rA.v), kr.G(tp.rB.v)
	v := kr.U(tp.dA.v, tp.dB.v, tp.rA.v, tp.rB.v)
	uidA, uidB := uidOf(4, 0x51), uidOf(17, 0x52)
	res := kr.result(tp.dA.v, tp.dB.v, tp.rA.v, tp.rB.v, uidA, uidB, klen)

	type privRoute struct {
		name string
		mk   func(d *big.Int, P ecref.Point) (*sm2.PrivateKey, error)
	}
	privRoutes := []privRoute{
		{"NewPrivateKey", func(d *big.Int, _ ecref.Point) (*sm2.PrivateKey, error) { return sm2.NewPrivateKey(b32(d)) }},
		{"NewPrivateKeyFromInt", func(d *big.Int, _ ecref.Point) (*sm2.PrivateKey, error) {
			return sm2.NewPrivateKeyFromInt(new(big.Int).Set(d))
		}},
		{"FromECPrivateKey", func(d *big.Int, P ecref.Point) (*sm2.PrivateKey, error) {
			return new(sm2.PrivateKey).FromECPrivateKey(&ecdsa.PrivateKey{PublicKey: *toPub(P), D: new(big.Int).Set(d)})
		}},
		{"struct-literal", func(d *big.Int, P ecref.Point) (*sm2.PrivateKey, error) {
			return &sm2.PrivateKey{PrivateKey: ecdsa.PrivateKey{PublicKey: *toPub(P), D: new(big.Int).Set(d)}}, nil
		}},
	}
	type pubRoute struct {
		name string
		mk   func(P ecref.Point) (*ecdsa.PublicKey, error)
	}
	pubRoutes := []pubRoute{
		{"struct-literal", func(P ecref.Point) (*ecdsa.PublicKey, error) { return toPub(P), nil }},
		{"NewPublicKey", func(P ecref.Point) (*ecdsa.PublicKey, error) { return sm2.NewPublicKey(P.Uncompressed()) }},
		{"of-private-key", nil}, // &priv.PublicKey of a key object built from the scalar
	}
	for _, pr := range privRoutes {
		for _, ur := range pubRoutes {
			for _, responder := range []bool{false, true} {
				d, P, dPeer, PPeer := tp.dA.v, PA, tp.dB.v, PB
				own, peer := uidA, uidB
				if responder {
					d, P, dPeer, PPeer = tp.dB.v, PB, tp.dA.v, PA
					own, peer = uidB, uidA
				}
				ctx := fmt.Sprintf("%s own key via %s, peer key via %s, responder=%v", tp, pr.name, ur.name, responder)
				t.Guard(kp+"/sm2", func() {
					priv, err := pr.mk(d, P)
					if err != nil {
						t.Fail(kp+"/sm2/private-key-rejected/"+pr.name, "%s: %v", ctx, err)
						return
					}
					var pub *ecdsa.PublicKey
					if ur.mk != nil {
						pub, err = ur.mk(PPeer)
					} else {
						var pp *sm2.PrivateKey
						if pp, err = sm2.NewPrivateKey(b32(dPeer)); err == nil {
							pub = &pp.PublicKey
						}
					}
					if err != nil {
						t.Fail(kp+"/sm2/public-key-rejected/"+ur.name, "%s: %v", ctx, err)
						return
					}
					ke, err := sm2.NewKeyExchange(priv, pub, own, peer, klen, true)
					t.Eval(1)
					if err != nil {
						t.Fail(kp+"/sm2/NewKeyExchange/rejects-valid", "%s: %v", ctx, err)
						return
					}
					p := kp + "/sm2/" + pr.name + "+" + ur.name
					ok := false
					if responder {
						ok = driveResponder(t, p, ctx, ke, true, tp.rB.v, RA, RB, res)
					} else {
						ok = driveInitiator(t, p, ctx, ke, true, tp.rA.v, RA, RB, res)
					}
					if ok {
						t.Outcome("variants/routes/sm2/" + pr.name + "+" + ur.name)
					}
				})
				t.Nontrivial("variants/routes/sm2/" + ctx)
			}
		}
	}

	// ecdh: private keys from NewPrivateKey / sm2.PrivateKey.ECDH; public keys from NewPublicKey / PrivateKey.PublicKey /
	// sm2.PublicKeyToECDH
	c := ecdh.P256()
	eprivRoutes := []struct {
		name string
		mk   func(d *big.Int) (*ecdh.PrivateKey, error)
	}{
		{"NewPrivateKey", func(d *big.Int) (*ecdh.PrivateKey, error) { return c.NewPrivateKey(b32(d)) }},
		{"sm2.PrivateKey.ECDH", func(d *big.Int) (*ecdh.PrivateKey, error) {
			k, err := sm2.NewPrivateKey(b32(d))
			if err != nil {
				return nil, err
			}
			return k.ECDH()
		}},
	}
	epubRoutes := []struct {
		name string
		mk   func(d *big.Int, P ecref.Point) (*ecdh.PublicKey, error)
	}{
		{"NewPublicKey", func(_ *big.Int, P ecref.Point) (*ecdh.PublicKey, error) { return c.NewPublicKey(P.Uncompressed()) }},
		{"PrivateKey.PublicKey", func(d *big.Int, _ ecref.Point) (*ecdh.PublicKey, error) {
			k, err := c.NewPrivateKey(b32(d))
			if err != nil {
				return nil, err
			}
			return k.PublicKey(), nil
		}},
		{"sm2.PublicKeyToECDH", func(_ *big.Int, P ecref.Point) (*ecdh.PublicKey, error) { return sm2.PublicKeyToECDH(toPub(P)) }},
	}
	for _, pr := range eprivRoutes {
		for _, ur := range epubRoutes {
			for _, responder := range []bool{false, true} {
				d, r, dPeer, rPeer := tp.dA.v, tp.rA.v, tp.dB.v, tp.rB.v
				own, peer := uidA, uidB
				if responder {
					d, r, dPeer, rPeer = tp.dB.v, tp.rB.v, tp.dA.v, tp.rA.v
					own, peer = uidB, uidA
				}
				ctx := fmt.Sprintf("%s own keys via %s, peer keys via %s, responder=%v", tp, pr.name, ur.name, responder)
				t.Guard(kp+"/ecdh", func() {
					sL, e1 := pr.mk(d)
					eL, e2 := pr.mk(r)
					sR, e3 := ur.mk(dPeer, kr.G(dPeer))
					eR, e4 := ur.mk(rPeer, kr.G(rPeer))
					if e1 != nil || e2 != nil || e3 != nil || e4 != nil {
						t.Fail(kp+"/ecdh/key-rejected/"+pr.name+"+"+ur.name, "%s: %v %v %v %v", ctx, e1, e2, e3, e4)
						return
					}
					if driveECDH(t, kp+"/"+pr.name+"+"+ur.name, ctx, sL, eL, sR, eR, responder, klen, own, peer, res, v) {
						t.Outcome("variants/routes/ecdh/" + pr.name + "+" + ur.name)
					}
				})
				t.Nontrivial("variants/routes/ecdh/" + ctx)
			}
		}
	}

	// the two sm2.KeyExchange objects talking to each other through the very pointers they return
	for _, gen := range []bool{true, false} {
		ctx := fmt.Sprintf("%s returned pointers passed on directly, confirm=%v", tp, gen)
		t.Guard(kp+"/direct-pointers", func() {
			privA, privB, ok := sm2Keys(t, kp, tp)
			if !ok {
				return
			}
			ini, e1 := sm2.NewKeyExchange(privA, &privB.PublicKey, uidA, uidB, klen, gen)
			rsp, e2 := sm2.NewKeyExchange(privB, &privA.PublicKey, uidB, uidA, klen, gen)
			if e1 != nil || e2 != nil {
				t.Fail(kp+"/direct-pointers/setup", "%s: %v %v", ctx, e1, e2)
				return
			}
			ra, err := ini.InitKeyExchange(engine.NewScriptReader(b32(tp.rA.v)))
			if err != nil {
				t.Fail(kp+"/direct-pointers/Init", "%s: %v", ctx, err)
				return
			}
			rb, sB, err := rsp.RepondKeyExchange(engine.NewScriptReader(b32(tp.rB.v)), ra)
			if err != nil || !samePoint(rb, RB) || !samePoint(ra, RA) || (gen && !bytes.Equal(sB, res.S1)) {
				t.Fail(kp+"/direct-pointers/Respond", "%s: %v %v S_B %x", ctx, rb, err, sB)
				return
			}
			keyA, sA, err := ini.ConfirmResponder(rb, sB)
			if err != nil || !bytes.Equal(keyA, res.Key) || (gen && !bytes.Equal(sA, res.S2)) {
				t.Fail(kp+"/direct-pointers/initiator-key", "%s: key %x S_A %x err %v want %x", ctx, keyA, sA, err, res.Key)
				return
			}
			keyB, err := rsp.ConfirmInitiator(sA)
			t.Eval(4)
			if err != nil || !bytes.Equal(keyB, res.Key) {
				t.Fail(kp+"/direct-pointers/responder-key", "%s: key %x err %v want %x", ctx, keyB, err, res.Key)
				return
			}
			if !samePoint(ra, RA) || !samePoint(rb, RB) {
				t.Fail(kp+"/direct-pointers/ephemeral-point-changed", "%s: an ephemeral public key changed during the exchange", ctx)
				return
			}
			t.Outcome("variants/direct-pointers/ok")
		})
		t.Nontrivial("variants/direct-pointers/" + ctx)
	}

	// one key object on both sides (a party exchanging with itself): peer key is the own key object
	t.Guard(kp+"/self-exchange", func() {
		privA, _, ok := sm2Keys(t, kp, tp)
		if !ok {
			return
		}
		resS := kr.result(tp.dA.v, tp.dA.v, tp.rA.v, tp.rB.v, uidA, uidA, klen)
		uid := append([]byte{}, uidA...)
		ini, e1 := sm2.NewKeyExchange(privA, &privA.PublicKey, uid, uid, klen, true)
		rsp, e2 := sm2.NewKeyExchange(privA, &privA.PublicKey, uid, uid, klen, true)
		if e1 != nil || e2 != nil {
			t.Fail(kp+"/self-exchange/setup", "%v %v", e1, e2)
			return
		}
		ctx := tp.String() + " self exchange (one key object, one identity slice)"
		a := driveInitiator(t, kp+"/self-exchange", ctx, ini, true, tp.rA.v, RA, RB, resS)
		b := driveResponder(t, kp+"/self-exchange", ctx, rsp, true, tp.rB.v, RA, RB, resS)
		if a && b {
			t.Outcome("variants/self-exchange/ok")
		}
	})
	t.Nontrivial("variants/self-exchange/" + tp.String())
}

// ---------------------------------------------------------------------------------------------------------------------
// rejection loops

// badBlocks are 32-byte values no ephemeral scalar may be taken from as they are.
func badBlocks() []named {
	n := ref.N
	return []named{{"0", new(big.Int)}, {"n", new(big.Int).Set(n)}, {"n+1", new(big.Int).Add(n, one)}, {"2^256-1", new(big.Int).Sub(pow2(256), one)}}
}

// randSM2: the random stream of InitKeyExchange / RepondKeyExchange starts with unusable blocks. Whatever scalar the
// library ends up with, the point it sends must be a valid, finite curve point and the exchange must complete with
// the value that the peer (reference, given only that point) computes.
func randSM2(t *engine.T, tp tuple) {
	const kp = "kx-rand/sm2"
	const klen = 32
	privA, privB, ok := sm2Keys(t, kp, tp)
	if !ok {
		return
	}
	PA, PB := ref.BaseMul(tp.dA.v), ref.BaseMul(tp.dB.v)
	bad := badBlocks()
	var streams [][]named
	for _, b := range bad {
		streams = append(streams, []named{b})
		for _, b2 := range bad {
			streams = append(streams, []named{b, b2})
		}
	}
	for _, st := range streams {
		name := ""
		var blocksA, blocksB [][]byte
		for _, b := range st {
			name += b.name + ","
			blocksA = append(blocksA, b32(b.v))
			blocksB = append(blocksB, b32(b.v))
		}
		blocksA = append(blocksA, b32(tp.rA.v))
		blocksB = append(blocksB, b32(tp.rB.v))
		ctx := fmt.Sprintf("%s stream %sthen a usable block", tp, name)
		t.Guard(kp+"/Init", func() {
			ini, err := sm2.NewKeyExchange(privA, &privB.PublicKey, nil, nil, klen, true)
			if err != nil {
				t.Fail(kp+"/setup", "%v", err)
				return
			}
			R, err := ini.InitKeyExchange(engine.NewScriptReader(blocksA...))
			t.Eval(1)
			if err != nil {
				t.Outcome("rand/sm2/init/error") // giving up is allowed
				return
			}
			if R == nil || R.X == nil || R.Y == nil || (R.X.Sign() == 0 && R.Y.Sign() == 0) || !ref.OnCurve(ecref.Point{X: R.X, Y: R.Y}) {
				t.Fail(kp+"/Init/ephemeral-point-invalid", "%s: InitKeyExchange returned %v", ctx, R)
				return
			}
			RAp := ecref.Point{X: new(big.Int).Set(R.X), Y: new(big.Int).Set(R.Y)}
			if RAp.Equal(ref.BaseMul(tp.rA.v)) {
				t.Outcome("rand/sm2/init/first-usable-block")
			} else {
				t.Outcome("rand/sm2/init/other-scalar")
			}
			// the responder's view, computed from the point alone
			want := ref.KeyExchange(false, tp.dB.v, tp.rB.v, ecref.DefaultUID, ecref.DefaultUID, PA, RAp, klen)
			if confirmResponder(t, kp, ctx, ini, true, ref.BaseMul(tp.rB.v), want) {
				t.Outcome("rand/sm2/init/ok")
			}
		})
		t.Guard(kp+"/Respond", func() {
			rsp, err := sm2.NewKeyExchange(privB, &privA.PublicKey, nil, nil, klen, true)
			if err != nil {
				t.Fail(kp+"/setup", "%v", err)
				return
			}
			RA := ref.BaseMul(tp.rA.v)
			R, sB, err := rsp.RepondKeyExchange(engine.NewScriptReader(blocksB...), toPub(RA))
			t.Eval(1)
			if err != nil {
				t.Outcome("rand/sm2/respond/error")
				return
			}
			if R == nil || R.X == nil || R.Y == nil || (R.X.Sign() == 0 && R.Y.Sign() == 0) || !ref.OnCurve(ecref.Point{X: R.X, Y: R.Y}) {
				t.Fail(kp+"/Respond/ephemeral-point-invalid", "%s: RepondKeyExchange returned %v", ctx, R)
				return
			}
			RBp := ecref.Point{X: new(big.Int).Set(R.X), Y: new(big.Int).Set(R.Y)}
			want := ref.KeyExchange(true, tp.dA.v, tp.rA.v, ecref.DefaultUID, ecref.DefaultUID, PB, RBp, klen)
			if !want.OK {
				return
			}
			if !bytes.Equal(sB, want.S1) {
				t.Fail(kp+"/Respond/SB", "%s: S_B = %x, the initiator computes %x", ctx, sB, want.S1)
				return
			}
			key, err := rsp.ConfirmInitiator(want.S2)
			t.Eval(1)
			if err != nil || !bytes.Equal(key, want.Key) {
				t.Fail(kp+"/responder-key", "%s: K_B = %x, %v; the initiator computes %x", ctx, key, err, want.Key)
				return
			}
			t.Outcome("rand/sm2/respond/ok")
		})
		t.Nontrivial("rand/sm2/" + name)
	}
}

// randECDH: ecdh.GenerateKey with scripted streams (plain deterministic streams and streams that begin with blocks
// mapping to 0, n-1, n, 2^256-1 under the generator's byte tweak). The generated key is identified by its own Bytes();
// it must be a scalar in [1, n-1], its public key must be [k]G, and it must work as ephemeral key of an exchange.
func randECDH(t *engine.T, tp tuple) {
	const kp = "kx-rand/ecdh"
	const klen = 32
	c := ecdh.P256()
	kr := newKXRef()
	tweak := func(v *big.Int) []byte { b := b32(v); b[1] ^= 0x42; return b }
	nm1 := new(big.Int).Sub(ref.N, one)
	type stream struct {
		name string
		rd   func() *engine.ScriptReader
	}
	var streams []stream
	bad := append(badBlocks(), named{"n-1", nm1})
	for _, b := range bad {
		b := b
		// the block as it is, and the block that becomes the value after the generator's tweak of byte 1
		streams = append(streams, stream{"raw:" + b.name, func() *engine.ScriptReader { return engine.NewScriptReader(b32(b.v), b32(tp.rA.v)) }})
		streams = append(streams, stream{"tweaked:" + b.name, func() *engine.ScriptReader { return engine.NewScriptReader(tweak(b.v), tweak(b.v), b32(tp.rA.v)) }})
	}
	streams = append(streams, stream{"filler-only", func() *engine.ScriptReader { return engine.NewScriptReader() }})
	sB, eB := ecdhPriv(tp.dB.v), ecdhPriv(tp.rB.v)
	sA := ecdhPriv(tp.dA.v)
	if sA == nil || sB == nil || eB == nil {
		t.Fail(kp+"/setup", "key rejected")
		return
	}
	for _, st := range streams {
		ctx := fmt.Sprintf("%s GenerateKey stream %s", tp, st.name)
		t.Guard(kp+"/GenerateKey", func() {
			k, err := c.GenerateKey(st.rd())
			t.Eval(1)
			if err != nil {
				t.Outcome("rand/ecdh/error")
				return
			}
			kv := new(big.Int).SetBytes(k.Bytes())
			if len(k.Bytes()) != 32 || kv.Sign() == 0 || kv.Cmp(ref.N) >= 0 {
				t.Fail(kp+"/GenerateKey/scalar-out-of-range", "%s: generated scalar %x", ctx, k.Bytes())
				return
			}
			if !bytes.Equal(k.PublicKey().Bytes(), ref.BaseMul(kv).Uncompressed()) {
				t.Fail(kp+"/GenerateKey/public-key", "%s: public key of the generated scalar %x is not [k]G", ctx, k.Bytes())
				return
			}
			res := kr.result(tp.dA.v, tp.dB.v, kv, tp.rB.v, ecref.DefaultUID, ecref.DefaultUID, klen)
			v := kr.U(tp.dA.v, tp.dB.v, kv, tp.rB.v)
			a := driveECDH(t, kp+"/generated-ephemeral", ctx, sA, k, sB.PublicKey(), eB.PublicKey(), false, klen, nil, nil, res, v)
			b := driveECDH(t, kp+"/generated-ephemeral", ctx, sB, eB, sA.PublicKey(), k.PublicKey(), true, klen, nil, nil, res, v)
			if a && b {
				t.Outcome("rand/ecdh/ok")
			}
		})
		t.Nontrivial("rand/ecdh/" + st.name)
	}
}

// rejectRoutes: the other exported routes by which a peer point can become a key object of either implementation
// (sm2.NewPublicKey from an encoding, sm2.PublicKeyToECDH from coordinates) refuse what is not a finite curve point.
func rejectRoutes(t *engine.T, tp tuple) {
	const kp = "kx-reject/routes"
	P := ref.BaseMul(tp.dB.v)
	for _, iv := range invalidPoints(P) {
		iv := iv
		t.Guard(kp+"/PublicKeyToECDH", func() {
			k, err := sm2.PublicKeyToECDH(&ecdsa.PublicKey{Curve: curve, X: new(big.Int).Set(iv.x), Y: new(big.Int).Set(iv.y)})
			t.Eval(1)
			if err == nil {
				t.Fail(kp+"/PublicKeyToECDH/accepts/"+iv.name, "sm2.PublicKeyToECDH accepted (%x,%x): %x", iv.x, iv.y, k.Bytes())
				return
			}
			t.Outcome("reject/routes/PublicKeyToECDH")
		})
		if iv.x.Sign() >= 0 && iv.y.Sign() >= 0 && iv.x.BitLen() <= 256 && iv.y.BitLen() <= 256 {
			t.Guard(kp+"/NewPublicKey", func() {
				enc := catBytes([]byte{4}, b32(iv.x), b32(iv.y))
				k, err := sm2.NewPublicKey(enc)
				t.Eval(1)
				if err == nil {
					t.Fail(kp+"/sm2.NewPublicKey/accepts/"+iv.name, "sm2.NewPublicKey accepted %x: %v", enc, k)
					return
				}
				t.Outcome("reject/routes/NewPublicKey")
			})
		}
		t.Nontrivial("reject/routes/" + iv.name)
	}
	X, Y := ecref.Bytes32(P.X), ecref.Bytes32(P.Y)
	for _, e := range []struct {
		name string
		enc  []byte
	}{{"infinity/00", []byte{0}}, {"empty", []byte{}}, // compressed / hybrid forms of a valid point are not "invalid points": not demanded here
		{"truncated/64", catBytes([]byte{4}, X, Y)[:64]}, {"extended/66", catBytes([]byte{4}, X, Y, []byte{0})}} {
		name, enc := e.name, e.enc
		t.Guard(kp+"/NewPublicKey", func() {
			k, err := sm2.NewPublicKey(enc)
			t.Eval(1)
			if err == nil {
				t.Fail(kp+"/sm2.NewPublicKey/accepts/"+name, "sm2.NewPublicKey accepted %x: %v", enc, k)
			}
		})
		t.Nontrivial("reject/routes/enc/" + name)
	}
}
