// Package c09: SM9 pairing groups G1/G2/GT (internal/sm9/bn256 through the verif-tagged re-export): group laws
// against exact arithmetic modulo the group order, bilinearity, non-degeneracy, and the strict prefix decoders.
package c09

import (
	"bytes"
	"encoding/hex"
	"fmt"
	"math/big"

	vh "github.com/emmansun/gmsm/verifhook"

	"verif/engine"
	"verif/ref/ecref"
	"verif/ref/sm3ref"
	"verif/ref/sm9ref"
)

type Prop struct{}

func (Prop) ID() string    { return "C09" }
func (Prop) Level() string { return "exploration" }
func (Prop) Configs(tier string) []string {
	// bn256 dispatch: amd64 assembly with ADX/BMI2 (default), table select without AVX2, non-ADX assembly, generic Go.
	return []string{"c-default", "c-noavx2", "c-nobmi2", "c-purego"}
}
func (Prop) SelfTest() error {
	if err := sm9ref.SelfTest(); err != nil {
		return err
	}
	return sm9ref.SelfTestTower()
}
func (Prop) Rule() string {
	return "Operand integrity: every exported operation taking G1/G2/GT elements as input (Add, Double, Neg, ScalarMult, Set, Equal, IsOnCurve, the encoders, String, Pair, Miller, ScalarMultGT, GenerateGTFieldTable) leaves each input semantically unchanged, for inputs in every representation the API produces (fresh = projective results of ScalarBaseMult/ScalarMult/Add/Neg, decoded = affine); encoder routes: compressed / uncompressed / plain encodings of fresh results are canonical and consistent with each other. " +
		"E2 over the scalar alphabet S = {0..40, n-3..n+3, 2^k, 2^k±1 (k<256), every 4-bit window value at each of the 64 window positions, 2^256-1; thorough tier: plus every byte value at each of the 32 byte positions} " +
		"(all 32-byte scalars the API admits, including values >= n): for every k in S, G1: ScalarBaseMult(k), ScalarMult(Gen1,k) (32-byte and minimal-length scalar), " +
		"ScalarMult(P3,k) and the compressed/uncompressed encodings equal exact affine big-integer arithmetic on y^2=x^3+5 with k mod n; " +
		"G2: ScalarBaseMult(k) = ScalarMult(Gen2,k) = plain double-and-add over the bits of (k mod n) built from G2.Add only, same for a second base point, results on the twist (reference F_p^2); " +
		"GT: GT.ScalarBaseMult(k) = GT.ScalarMult(e(P1,P2),k) = GT.ScalarMult(.., k mod n) = windowed ScalarMultGT = table-driven ScalarBaseMultGT, identity encoding (0,..,0,1) iff n | k. " +
		"Pair laws on A x A (40x40 small, 24x24 structured incl. n-a, n, n+1, 2^256-1): [a]P+[b]P = [(a+b) mod n]P (also with aliased destinations and swapped operands), [b]([a]P) = [ab mod n]P, Double; " +
		"identity / inverse / order-n cases; bilinearity e([a]P1,[b]P2) = e(P1,P2)^(ab mod n) on a 12x12 product (24x24 thorough) incl. a or b = 0 mod n, additivity in both arguments, independence of the route an argument was produced by (Neg, Add, Double, decoder output, scalar-mult result), " +
		"Miller+Finalize = Pair, e(P1,P2) != 1 and e(P1,P2)^n = 1; GM/T 0044.5 annex values of e(P1,Ppub-s), e(RA,deB), e(Ppub-e,P2)^rB, Ppub-s, deB. " +
		"E3 on the prefix decoders G1/G2/GT.Unmarshal and G1/G2.UnmarshalCompressed (fresh and used receiver): for each of 20 (GT: 10; thorough 60/20) valid elements, each coordinate in {p, p-1, p+1, 0, c+p if < 2^256, 2^256-1, c+1, c-1, p-c, c xor 2^255, c with each bit of its last byte flipped} " +
		"(thorough: also all pairs of coordinates for the first six elements), infinity forms (all-zero accepted; zero vector with p / 2^256-1 / 1 in every subset of coordinates rejected), x = 0 compressed forms, " +
		"every input length below one element (error), tails (returned exactly), all 256 prefix bytes of compressed forms; " +
		"oracle: accept <=> every coordinate of the leading element < p and the element is on the curve (reference affine predicate; GT: range only, non-members may be rejected or accepted), " +
		"tail = rest, Marshal(result) = consumed prefix. " +
		"distinct_nontrivial counts distinct (group, law, scalar / scalar pair / decoder input class) instances. " +
		"Widening (widen*.go): scalar-shape: every byte length 0..34, 40, 47, 48, 63..65 (thorough 0..72, 96, 127..129) of the variable-length scalar of G1/G2.ScalarMult and ScalarMultGT x contents {zero, one, ff, chain, top bit, leading zeros, n and n-1 left-padded} x layouts {exact, ending at a PROT_NONE page, one dirty spare byte, 256 dirty spare bytes, middle field of a record at an odd offset, nil}: G1/G2.ScalarMult must accept lengths 1..32 and every entry point 32 bytes, other lengths succeed or are refused, an accepted call returns [int(scalar) mod n]P, the caller's array is unchanged; the fixed-length entry points in every layout and every length 0..72 other than 32 refused; big.Int exponents 2^256..n^2..2^512-1; NormalizeScalar(s) is 32 bytes congruent to s mod n and does not write to the caller's array. " +
		"random: RandomG1/G2/GT under 12 scripted streams (first acceptable block after 0, n, n+1, 2^256-1; leading zero bytes) x 8 reader behaviours: no error without a fault, 1 <= k < n, element = [k]generator, earlier results unaffected by later calls. " +
		"own: every encoder of every element source three times with the previous result overwritten (no shared memory between results); decoded elements independent of the input buffer, inputs in every layout, no access beyond len; big.Int and scalar arguments unchanged; for every element-returning function (Add, Double, Neg, Set, ScalarMult, ScalarBaseMult for every window value of the lowest and highest table row, Pair and Miller for generators / infinity / generic arguments, ScalarMultGT, ScalarBaseMultGT for table rows) the result is overwritten in place by every mutating method and then the operands, Gen1, Gen2, Order, OrderBytes, all 64 rows of the three generator tables and a second call are unchanged; a GT table is independent of its base object. " +
		"alias: Add with destination/operand patterns {fresh, used, dst=a, dst=b, a=b, dst=a=b} over all ordered pairs of 13 (G2 12, GT 11) element sources incl. three representations of the identity; Double, Neg, Set, ScalarMult with dst=a and used destination. " +
		"history: every ordered pair (thorough: triple) of 41 (G2 41, GT 27) receiver-writing / receiver-reading operations incl. 8-10 failing decodes on one object starting from the zero value; value afterwards observed through compressed encoding, IsOnCurve, the pairing or a windowed power, a sum, and Marshal. " +
		"special: G1 points constructed from coordinates (x or y in {0..24, p-1..p-25, 2^k, 2^k+-1, p-2^k, (p+-1)/2}, Montgomery form of x or y with every limb in {0,1,2^63,2^64-1} (thorough also 2^32-1, 2^64-2^32), p-1..p-3, 2^256-p): decoders, Add/Double/Neg/ScalarMult/encoders against the affine reference, pairing linear in the point; abscissae without a point refused; G2 decoders on twist points with x components from a 13 (thorough 21) value boundary set squared. " +
		"field: members g^k through every GT route and Pair against the reference tower F_p^12 (products and powers computed from the encoded bytes); products of two different decoded F_p^12 elements with boundary coordinates (alone, inside a generic element, next to the identity, all coordinates) against the reference product."
}
func (Prop) Assumptions() []string {
	return []string{
		"the pairing is not re-implemented: it is checked by bilinearity / non-degeneracy laws against powers of e(P1,P2) and anchored by the GM/T 0044.5 annex values; in the original families G2 and GT are checked as laws between computation routes of the real code (table/window routes vs plain double-and-add and square-and-multiply); the widening families compare G2 with an affine chord-and-tangent reference on the twist over F_p^2 and GT products/powers with a schoolbook reference of the 1-2-4-12 tower (verif/ref/sm9ref/tower.go, anchored by g^r = w, [ks]P2 = Ppub-s and [t2]P2 = deB of the annexes)",
		"G1 is checked against independent affine big-integer arithmetic (verif/ref/ecref) and F_p^2 on-curve / squareness predicates (verif/ref/sm9ref)",
		"GT.Unmarshal accepts every 12-tuple of coordinates below p; of such non-members only the product of two different elements (GT.Add, the field multiplication) is compared with the reference, no squaring or power",
		"constructed G2 points (chosen coordinates) are offered to the decoders only: they are on the twist but in general outside the order-n subgroup",
		"scalars of other lengths than 32 bytes: ScalarMult / ScalarMultGT may refuse the empty scalar and scalars longer than 32 bytes, but what they accept is read as a big-endian integer; G1.MarshalCompressed of the point at infinity is documented as undefined and never called on it; G1/G2.Equal compares representations, not group elements, and is only checked for leaving its operands unchanged",
		"after a failing decode the receiver holds an unspecified value: only operations that do not read the receiver are enumerated next",
		"decoder oracle for G2 requires 'on the twist curve' only; membership in the order-n subgroup of the twist (cofactor 2p-n) is neither required by the property statement nor checked by the library, and GT.Unmarshal is required to check coordinate ranges only",
		"compressed point at infinity: G1.MarshalCompressed documents it as undefined, so prefix||0..0 offered to G1.UnmarshalCompressed may be rejected or decoded as infinity and its re-encoding is not compared; for G2 the form 03||0..0 (what G2.MarshalCompressed(infinity) returns and the repository's own test round-trips) must decode to infinity, 02||0..0 may be rejected or accepted but must then re-encode to itself",
		"scalars are enumerated from the declared alphabet (about 1750 values), not all of [0,2^256)",
		"dispatch tiers are those reachable on this amd64 host via GODEBUG=cpu.*=off and -tags purego; arm64/ppc64le/s390x assembly is not covered",
	}
}

var (
	curve  = ecref.SM9G1()
	nOrd   = curve.N
	pFld   = curve.P
	one    = big.NewInt(1)
	two256 = new(big.Int).Lsh(one, 256)
)

func k32(k *big.Int) []byte { b := make([]byte, 32); k.FillBytes(b); return b }

func modN(k *big.Int) *big.Int { return new(big.Int).Mod(k, nOrd) }

// chain returns a deterministic "generic" scalar in [1, n-1] derived from a label.
func chain(label string) *big.Int {
	d := sm3ref.Sum([]byte("verif/c09/" + label))
	v := new(big.Int).SetBytes(d[:])
	v.Mod(v, new(big.Int).Sub(nOrd, one))
	return v.Add(v, one)
}

type scal struct {
	v     *big.Int
	class string
}

func scalarAlphabet(quick bool) []scal {
	var out []scal
	seen := map[string]bool{}
	add := func(v *big.Int, class string) {
		if v.Sign() < 0 || v.Cmp(two256) >= 0 {
			return
		}
		s := v.Text(16)
		if seen[s] {
			return
		}
		seen[s] = true
		out = append(out, scal{new(big.Int).Set(v), class})
	}
	for i := int64(0); i <= 40; i++ {
		add(big.NewInt(i), "small")
	}
	for d := int64(-3); d <= 3; d++ {
		add(new(big.Int).Add(nOrd, big.NewInt(d)), "near-n")
	}
	for k := uint(0); k < 256; k++ {
		p := new(big.Int).Lsh(one, k)
		add(p, "2^k")
		add(new(big.Int).Add(p, one), "2^k+1")
		add(new(big.Int).Sub(p, one), "2^k-1")
	}
	for pos := uint(0); pos < 64; pos++ {
		for w := int64(1); w <= 15; w++ {
			add(new(big.Int).Lsh(big.NewInt(w), 4*pos), "window")
		}
	}
	add(new(big.Int).Sub(two256, one), "2^256-1")
	if !quick {
		// thorough: every byte value at each of the 32 byte positions (all pairs of adjacent windows)
		for pos := uint(0); pos < 32; pos++ {
			for w := int64(1); w <= 255; w++ {
				add(new(big.Int).Lsh(big.NewInt(w), 8*pos), "byte")
			}
		}
	}
	return out
}

// structured scalars for the pair laws (24 values).
func structuredScalars() []*big.Int {
	c1, c2 := chain("pair1"), chain("pair2")
	h := func(s string) *big.Int { v, _ := new(big.Int).SetString(s, 16); return v }
	return []*big.Int{
		big.NewInt(0), big.NewInt(1), big.NewInt(2), big.NewInt(3),
		new(big.Int).Sub(nOrd, big.NewInt(1)), new(big.Int).Sub(nOrd, big.NewInt(2)), new(big.Int).Sub(nOrd, big.NewInt(3)),
		new(big.Int).Set(nOrd), new(big.Int).Add(nOrd, one),
		new(big.Int).Lsh(one, 128), new(big.Int).Sub(new(big.Int).Lsh(one, 128), one),
		new(big.Int).Lsh(one, 255), new(big.Int).Sub(two256, one),
		new(big.Int).Rsh(new(big.Int).Sub(nOrd, one), 1), new(big.Int).Rsh(new(big.Int).Add(nOrd, one), 1),
		c1, c2, new(big.Int).Sub(nOrd, c1),
		new(big.Int).Lsh(big.NewInt(15), 252),
		h("0f0f0f0f0f0f0f0f0f0f0f0f0f0f0f0f0f0f0f0f0f0f0f0f0f0f0f0f0f0f0f0f"),
		h("f0f0f0f0f0f0f0f0f0f0f0f0f0f0f0f0f0f0f0f0f0f0f0f0f0f0f0f0f0f0f0f0"),
		h("1111111111111111111111111111111111111111111111111111111111111111"),
		new(big.Int).Lsh(one, 64), new(big.Int).Set(pFld),
	}
}

// ---------------------------------------------------------------------------------------------
// encodings

var zero64 = make([]byte, 64)
var zero128 = make([]byte, 128)

func gtOneEnc() []byte { b := make([]byte, 384); b[383] = 1; return b }

// encRef is the 64-byte X‖Y encoding of a reference point (all-zero for infinity).
func encRef(p ecref.Point) []byte {
	if p.Inf {
		return make([]byte, 64)
	}
	return append(ecref.Bytes32(p.X), ecref.Bytes32(p.Y)...)
}

func hx(b []byte) string {
	if len(b) > 80 {
		return hex.EncodeToString(b[:40]) + "…" + hex.EncodeToString(b[len(b)-40:])
	}
	return hex.EncodeToString(b)
}

func eq(t *engine.T, key string, got, want []byte, format string, a ...any) bool {
	t.Eval(1)
	if bytes.Equal(got, want) {
		return true
	}
	t.Fail(key, "%s: got %s want %s (first difference at byte %d)", fmt.Sprintf(format, a...), hx(got), hx(want), engine.FirstDiff(got, want))
	return false
}

// g2OnTwist checks a 128-byte non-infinity G2 encoding with the reference F_p^2 predicate.
func g2OnTwist(enc []byte) bool {
	return sm9ref.OnTwist(sm9ref.ParseFp2(enc[:64]), sm9ref.ParseFp2(enc[64:128]))
}

// ---------------------------------------------------------------------------------------------
// lazily built shared values (per worker process)

var (
	gtGenV   *vh.GT
	gtTableV *[32 * 2]vh.GTFieldTable
)

func gtGen() *vh.GT {
	if gtGenV == nil {
		gtGenV = vh.Pair(vh.Gen1, vh.Gen2)
	}
	return gtGenV
}
func gtTable() *[32 * 2]vh.GTFieldTable {
	if gtTableV == nil {
		gtTableV = vh.GenerateGTFieldTable(gtGen())
	}
	return gtTableV
}

func g1Base(k *big.Int) *vh.G1 {
	r, err := new(vh.G1).ScalarBaseMult(k32(k))
	if err != nil {
		panic(err)
	}
	return r
}
func g2Base(k *big.Int) *vh.G2 {
	r, err := new(vh.G2).ScalarBaseMult(k32(k))
	if err != nil {
		panic(err)
	}
	return r
}
func gtBase(k *big.Int) *vh.GT {
	r, err := vh.ScalarBaseMultGT(gtTable(), k32(k))
	if err != nil {
		panic(err)
	}
	return r
}

// g2Ladder computes [k]base (k >= 1) by plain left-to-right double-and-add using only G2.Add.
func g2Ladder(base *vh.G2, k *big.Int) *vh.G2 {
	r := new(vh.G2).Set(base)
	for i := k.BitLen() - 2; i >= 0; i-- {
		r = new(vh.G2).Add(r, r)
		if k.Bit(i) == 1 {
			r = new(vh.G2).Add(r, base)
		}
	}
	return r
}

// ---------------------------------------------------------------------------------------------

func (Prop) Run(c *engine.Ctx) {
	runIntegrity(c)
	runAnchors(c)
	runScalarLaws(c)
	runPairLaws(c)
	runIdentity(c)
	runBilinear(c)
	runDecoders(c)
	runWiden(c)
}

// ---------------------------------------------------------------------------------------------
// GM/T 0044.5 annex values

func unhex(s string) []byte {
	b, err := hex.DecodeString(s)
	if err != nil {
		panic(err)
	}
	return b
}

func runAnchors(c *engine.Ctx) {
	c.Case("anchor/gmt0044", func(t *engine.T) {
		// generators
		eq(t, "anchor/g1-generator", vh.Gen1.Marshal(), encRef(curve.G()), "Gen1")
		eq(t, "anchor/g2-generator", vh.Gen2.Marshal(), sm9ref.G2GenBytes, "Gen2")
		eq(t, "anchor/order", vh.Order.Bytes(), nOrd.Bytes(), "Order")
		// Annex A: Ppub-s = [ks]P2, g = e(P1, Ppub-s)
		ks, _ := new(big.Int).SetString("0130E78459D78545CB54C587E02CF480CE0B66340F319F348A1D5B1F2DC5F4", 16)
		ppubs := g2Base(ks)
		eq(t, "anchor/annexA/Ppub-s", ppubs.Marshal(), sm9ref.AnnexAPpubS, "[ks]P2")
		gA := unhex("4e378fb5561cd0668f906b731ac58fee25738edf09cadc7a29c0abc0177aea6d" + "28b3404a61908f5d6198815c99af1990c8af38655930058c28c21bb539ce0000" +
			"38bffe40a22d529a0c66124b2c308dac9229912656f62b4facfced408e02380f" + "a01f2c8bee81769609462c69c96aa923fd863e209d3ce26dd889b55e2e3873db" +
			"67e0e0c2eed7a6993dce28fe9aa2ef56834307860839677f96685f2b44d0911f" + "5a1ae172102efd95df7338dbc577c66d8d6c15e0a0158c7507228efb078f42a6" +
			"1604a3fcfa9783e667ce9fcb1062c2a5c6685c316dda62de0548baa6ba30038b" + "93634f44fa13af76169f3cc8fbea880adaff8475d5fd28a75deb83c44362b439" +
			"b3129a75d31d17194675a1bc56947920898fbf390a5bf5d931ce6cbb3340f66d" + "4c744e69c4a2e1c8ed72f796d151a17ce2325b943260fc460b9f73cb57c9014b" +
			"84b87422330d7936eaba1109fa5a7a7181ee16f2438b0aeb2f38fd5f7554e57a" + "aab9f06a4eeba4323a7833db202e4e35639d93fa3305af73f0f071d7d284fcfb")
		eq(t, "anchor/annexA/pairing", vh.Pair(vh.Gen1, ppubs).Marshal(), gA, "e(P1,Ppub-s)")
		// by bilinearity the same value is e(P1,P2)^ks through every GT exponentiation route
		eq(t, "anchor/annexA/pairing-vs-exp", new(vh.GT).ScalarMult(gtGen(), ks).Marshal(), gA, "e(P1,P2)^ks")
		// Annex B: g1' = e(RA, deB)
		deB := new(vh.G2)
		if _, err := deB.Unmarshal(unhex("74CCC3AC9C383C60AF083972B96D05C75F12C8907D128A17ADAFBAB8C5A4ACF7" + "01092FF4DE89362670C21711B6DBE52DCD5F8E40C6654B3DECE573C2AB3D29B2" +
			"44B0294AA04290E1524FF3E3DA8CFD432BB64DE3A8040B5B88D1B5FC86A4EBC1" + "8CFC48FB4FF37F1E27727464F3C34E2153861AD08E972D1625FC1A7BD18D5539")); err != nil {
			t.Fail("anchor/annexB/deB-rejected", "G2.Unmarshal(deB of GM/T 0044.5 annex B): %v", err)
			return
		}
		rA := new(vh.G1)
		if _, err := rA.Unmarshal(unhex("7CBA5B19069EE66AA79D490413D11846B9BA76DD22567F809CF23B6D964BB265" + "A9760C99CB6F706343FED05637085864958D6C90902ABA7D405FBEDF7B781599")); err != nil {
			t.Fail("anchor/annexB/RA-rejected", "G1.Unmarshal(RA of annex B): %v", err)
			return
		}
		gB := unhex("28542FB6954C84BE6A5F2988A31CB6817BA0781966FA83D9673A9577D3C0C134" + "5E27C19FC02ED9AE37F5BB7BE9C03C2B87DE027539CCF03E6B7D36DE4AB45CD1" +
			"A1ABFCD30C57DB0F1A838E3A8F2BF823479C978BD137230506EA6249C891049E" + "3497477913AB89F5E2960F382B1B5C8EE09DE0FA498BA95C4409D630D343DA40" +
			"4FEC93472DA33A4DB6599095C0CF895E3A7B993EE5E4EBE3B9AB7D7D5FF2A3D1" + "647BA154C3E8E185DFC33657C1F128D480F3F7E3F16801208029E19434C733BB" +
			"73F21693C66FC23724DB26380C526223C705DAF6BA18B763A68623C86A632B05" + "0F63A071A6D62EA45B59A1942DFF5335D1A232C9C5664FAD5D6AF54C11418B0D" +
			"8C8E9D8D905780D50E779067F2C4B1C8F83A8B59D735BB52AF35F56730BDE5AC" + "861CCD9978617267CE4AD9789F77739E62F2E57B48C2FF26D2E90A79A1D86B93" +
			"9B1CA08F64712E33AEDA3F44BD6CB633E0F722211E344D73EC9BBEBC92142765" + "6BA584CE742A2A3AB41C15D3EF94EDEB8EF74A2BDCDAAECC09ABA567981F6437")
		eq(t, "anchor/annexB/pairing", vh.Pair(rA, deB).Marshal(), gB, "e(RA,deB)")
		// Annex B: g2 = e(Ppub-e, P2)^rB
		ke, _ := new(big.Int).SetString("02E65B0762D042F51F0D23542B13ED8CFA2E9A0E7206361E013A283905E31F", 16)
		rB, _ := new(big.Int).SetString("018B98C44BEF9F8537FB7D071B2C928B3BC65BD3D69E1EEE213564905634FE", 16)
		ppube := g1Base(ke)
		eq(t, "anchor/annexB/Ppub-e", ppube.Marshal(), unhex("9174542668E8F14AB273C0945C3690C66E5DD09678B86F734C4350567ED06283"+"54E598C6BF749A3DACC9FFFEDD9DB6866C50457CFC7AA2A4AD65C3168FF74210"), "[ke]P1")
		g2B := unhex("1052D6E9D13E381909DFF7B2B41E13C987D0A9068423B769480DACCE6A06F492" + "5FFEB92AD870F97DC0893114DA22A44DBC9E7A8B6CA31A0CF0467265A1FB48C7" +
			"2C5C3B37E4F2FF83DB33D98C0317BCBBBBF4AC6DF6B89ECA58268B280045E612" + "6CED9E2D7C9CD3D5AD630DEFAB0B831506218037EE0F861CF9B43C78434AEC38" +
			"0AE7BF3E1AEC0CB67A03440906C7DFB3BCD4B6EEEBB7E371F0094AD4A816088D" + "98DBC791D0671CACA12236CDF8F39E15AEB96FAEB39606D5B04AC581746A663D" +
			"00DD2B7416BAA91172E89D5309D834F78C1E31B4483BB97185931BAD7BE1B9B5" + "7EBAC0349F8544469E60C32F6075FB0468A68147FF013537DF792FFCE024F857" +
			"10CC2B561A62B62DA36AEFD60850714F49170FD94A0010C6D4B651B64F3A3A5E" + "58C9687BEDDCD9E4FEDAB16B884D1FE6DFA117B2AB821F74E0BF7ACDA2269859" +
			"2A430968F16086061904CE201847934B11CA0F9E9528F5A9D0CE8F015C9AEA79" + "934FDDA6D3AB48C8571CE2354B79742AA498CB8CDDE6BD1FA5946345A1A652F6")
		e := vh.Pair(ppube, vh.Gen2)
		eq(t, "anchor/annexB/pairing-exp", new(vh.GT).ScalarMult(e, rB).Marshal(), g2B, "e(Ppub-e,P2)^rB via GT.ScalarMult")
		w, err := vh.ScalarMultGT(e, k32(rB))
		if err != nil {
			t.Fail("anchor/annexB/ScalarMultGT-error", "%v", err)
			return
		}
		eq(t, "anchor/annexB/pairing-exp", w.Marshal(), g2B, "e(Ppub-e,P2)^rB via ScalarMultGT")
		// Annex C: deB (ID Bob, hid 3) = [t2]P2
		keC, _ := new(big.Int).SetString("01EDEE3778F441F8DEA3D9FA0ACC4E07EE36C93F9A08618AF4AD85CEDE1C22", 16)
		t2, _ := sm9ref.UserScalar(keC, []byte("Bob"), 3)
		eq(t, "anchor/annexC/deB", g2Base(t2).Marshal(), sm9ref.AnnexCDeB, "[t2]P2")
		t.Nontrivial("anchor")
		t.Outcome("anchor/ok")
	})
}

// ---------------------------------------------------------------------------------------------
// one-scalar laws

func runScalarLaws(c *engine.Ctx) {
	sc := scalarAlphabet(c.Quick())
	const chunk = 48
	c3 := chain("base3")
	for lo := 0; lo < len(sc); lo += chunk {
		hi := lo + chunk
		if hi > len(sc) {
			hi = len(sc)
		}
		part := sc[lo:hi]
		c.Case(fmt.Sprintf("g1/scalar/%d..%d", lo, hi-1), func(t *engine.T) {
			p3ref := curve.BaseMul(c3)
			p3 := g1Base(c3)
			eq(t, "g1/scalar-base-mult/mismatch", p3.Marshal(), encRef(p3ref), "[c3]G")
			for _, s := range part {
				k := s.v
				kr := modN(k)
				wantPt := curve.BaseMul(kr)
				want := encRef(wantPt)
				b := k32(k)
				r1, err := new(vh.G1).ScalarBaseMult(b)
				if err != nil {
					t.Fail("g1/scalar-base-mult/error", "ScalarBaseMult(%x): %v", b, err)
					continue
				}
				eq(t, "g1/scalar-base-mult/mismatch", r1.Marshal(), want, "G1.ScalarBaseMult(%x) [%s]", b, s.class)
				r2, err := new(vh.G1).ScalarMult(vh.Gen1, b)
				if err != nil {
					t.Fail("g1/scalar-mult/error", "ScalarMult(Gen1,%x): %v", b, err)
					continue
				}
				eq(t, "g1/scalar-mult/mismatch", r2.Marshal(), want, "G1.ScalarMult(Gen1,%x) [%s]", b, s.class)
				if mb := k.Bytes(); len(mb) != 32 {
					r, err := new(vh.G1).ScalarMult(vh.Gen1, mb)
					if err != nil {
						t.Fail("g1/scalar-mult/error", "ScalarMult(Gen1,%x): %v", mb, err)
					} else {
						eq(t, "g1/scalar-mult/short-scalar-mismatch", r.Marshal(), want, "G1.ScalarMult(Gen1, %d-byte %x)", len(mb), mb)
					}
				}
				// second base point, destination aliased with the base
				want3 := encRef(curve.Mul(kr, p3ref))
				r3, _ := new(vh.G1).ScalarMult(p3, b)
				eq(t, "g1/scalar-mult/mismatch", r3.Marshal(), want3, "G1.ScalarMult([c3]G,%x) [%s]", b, s.class)
				r4 := new(vh.G1).Set(p3)
				r4.ScalarMult(r4, b)
				eq(t, "g1/scalar-mult/aliased-mismatch", r4.Marshal(), want3, "e.ScalarMult(e,%x) with e=[c3]G", b)
				// encodings
				eq(t, "g1/marshal-uncompressed", r1.MarshalUncompressed(), append([]byte{4}, want...), "MarshalUncompressed([%x]G)", b)
				if !wantPt.Inf {
					eq(t, "g1/marshal-compressed", r1.MarshalCompressed(), wantPt.Compressed(), "MarshalCompressed([%x]G)", b)
					if !r1.IsOnCurve() {
						t.Fail("g1/is-on-curve/false-for-multiple", "IsOnCurve([%x]G) = false", b)
					}
				} else {
					t.Outcome("g1/scalar/infinity")
				}
				t.Nontrivial("g1/scalar/" + k.Text(16))
			}
			t.Outcome("g1/scalar/ok")
			t.Sample(map[string]any{"law": "G1 [k]G vs affine reference", "first_scalar": part[0].v.Text(16), "class": part[0].class, "count": len(part)})
		})
		c.Case(fmt.Sprintf("g2/scalar/%d..%d", lo, hi-1), func(t *engine.T) {
			q3 := g2Base(c3)
			for _, s := range part {
				k := s.v
				kr := modN(k)
				b := k32(k)
				r1, err := new(vh.G2).ScalarBaseMult(b)
				if err != nil {
					t.Fail("g2/scalar-base-mult/error", "ScalarBaseMult(%x): %v", b, err)
					continue
				}
				r2, err := new(vh.G2).ScalarMult(vh.Gen2, b)
				if err != nil {
					t.Fail("g2/scalar-mult/error", "ScalarMult(Gen2,%x): %v", b, err)
					continue
				}
				var want, want3 []byte
				if kr.Sign() == 0 {
					want, want3 = zero128, zero128
					t.Outcome("g2/scalar/infinity")
				} else {
					want = g2Ladder(vh.Gen2, kr).Marshal()
					want3 = g2Ladder(q3, kr).Marshal()
					if !g2OnTwist(want) {
						t.Fail("g2/add/result-off-curve", "double-and-add [%x]P2 built from G2.Add is not on the twist: %s", kr, hx(want))
					}
				}
				eq(t, "g2/scalar-base-mult/mismatch", r1.Marshal(), want, "G2.ScalarBaseMult(%x) vs double-and-add of k mod n [%s]", b, s.class)
				eq(t, "g2/scalar-mult/mismatch", r2.Marshal(), want, "G2.ScalarMult(Gen2,%x) vs double-and-add of k mod n [%s]", b, s.class)
				if mb := k.Bytes(); len(mb) != 32 {
					r, err := new(vh.G2).ScalarMult(vh.Gen2, mb)
					if err != nil {
						t.Fail("g2/scalar-mult/error", "ScalarMult(Gen2,%x): %v", mb, err)
					} else {
						eq(t, "g2/scalar-mult/short-scalar-mismatch", r.Marshal(), want, "G2.ScalarMult(Gen2, %d-byte %x)", len(mb), mb)
					}
				}
				r3, _ := new(vh.G2).ScalarMult(q3, b)
				eq(t, "g2/scalar-mult/mismatch", r3.Marshal(), want3, "G2.ScalarMult([c3]P2,%x) vs double-and-add [%s]", b, s.class)
				r4 := new(vh.G2).Set(q3)
				r4.ScalarMult(r4, b)
				eq(t, "g2/scalar-mult/aliased-mismatch", r4.Marshal(), want3, "e.ScalarMult(e,%x) with e=[c3]P2", b)
				// [k]([c3]P2) = [c3·k mod n]P2 through the generator table
				ck := modN(new(big.Int).Mul(c3, k))
				eq(t, "g2/scalar-mult/mismatch", g2Base(ck).Marshal(), want3, "G2.ScalarBaseMult(c3*k mod n) vs [k]([c3]P2), k=%x", b)
				eq(t, "g2/marshal-uncompressed", r1.MarshalUncompressed(), append([]byte{4}, want...), "MarshalUncompressed([%x]P2)", b)
				t.Nontrivial("g2/scalar/" + k.Text(16))
			}
			t.Outcome("g2/scalar/ok")
			t.Sample(map[string]any{"law": "G2 table/window routes vs double-and-add", "first_scalar": part[0].v.Text(16), "class": part[0].class, "count": len(part)})
		})
		c.Case(fmt.Sprintf("gt/scalar/%d..%d", lo, hi-1), func(t *engine.T) {
			g := gtGen()
			for _, s := range part {
				k := s.v
				kr := modN(k)
				b := k32(k)
				// reference route: generic square-and-multiply with the reduced exponent
				want := new(vh.GT).ScalarMult(g, kr).Marshal()
				if kr.Sign() == 0 {
					eq(t, "gt/identity-encoding", want, gtOneEnc(), "e(P1,P2)^0")
					t.Outcome("gt/scalar/identity")
				} else if bytes.Equal(want, gtOneEnc()) {
					t.Fail("gt/order", "e(P1,P2)^%x is the identity although n does not divide the exponent", kr)
				}
				eq(t, "gt/scalar-mult/unreduced-mismatch", new(vh.GT).ScalarMult(g, k).Marshal(), want, "GT.ScalarMult(g,%x) vs exponent mod n [%s]", b, s.class)
				eq(t, "gt/scalar-base-mult/mismatch", new(vh.GT).ScalarBaseMult(k).Marshal(), want, "GT.ScalarBaseMult(%x) [%s]", b, s.class)
				r3, err := vh.ScalarMultGT(g, b)
				if err != nil {
					t.Fail("gt/ScalarMultGT/error", "%v", err)
				} else {
					eq(t, "gt/ScalarMultGT/mismatch", r3.Marshal(), want, "ScalarMultGT(g,%x) (windowed cyclotomic) vs square-and-multiply [%s]", b, s.class)
				}
				r4, err := vh.ScalarBaseMultGT(gtTable(), b)
				if err != nil {
					t.Fail("gt/ScalarBaseMultGT/error", "%v", err)
				} else {
					eq(t, "gt/ScalarBaseMultGT/mismatch", r4.Marshal(), want, "ScalarBaseMultGT(table(g),%x) vs square-and-multiply [%s]", b, s.class)
				}
				t.Nontrivial("gt/scalar/" + k.Text(16))
			}
			t.Outcome("gt/scalar/ok")
		})
	}
}

// ---------------------------------------------------------------------------------------------
// two-scalar laws

func runPairLaws(c *engine.Ctx) {
	var small []*big.Int
	nSmall := 40
	if !c.Quick() {
		nSmall = 64
	}
	for i := 0; i < nSmall; i++ {
		small = append(small, big.NewInt(int64(i)))
	}
	sets := []struct {
		name string
		vals []*big.Int
	}{{"small", small}, {"structured", structuredScalars()}}
	for _, set := range sets {
		vals := set.vals
		for ai, a := range vals {
			a := a
			c.Case(fmt.Sprintf("g1/pairs/%s/a#%d", set.name, ai), func(t *engine.T) {
				ar := modN(a)
				aRef := curve.BaseMul(ar)
				A := g1Base(a)
				for _, b := range vals {
					B := g1Base(b)
					bRef := curve.BaseMul(modN(b))
					sumRef := encRef(curve.Add(aRef, bRef))
					sum := new(vh.G1).Add(A, B)
					eq(t, "g1/add/mismatch", sum.Marshal(), sumRef, "[%x]G + [%x]G vs affine reference", a, b)
					eq(t, "g1/add/mismatch", new(vh.G1).Add(B, A).Marshal(), sumRef, "[%x]G + [%x]G (swapped)", b, a)
					eq(t, "g1/add/vs-scalar-base-mult", g1Base(modN(new(big.Int).Add(a, b))).Marshal(), sumRef, "[(%x+%x) mod n]G", a, b)
					d1 := new(vh.G1).Set(A)
					d1.Add(d1, B)
					eq(t, "g1/add/aliased-mismatch", d1.Marshal(), sumRef, "e.Add(e,b) a=%x b=%x", a, b)
					d2 := new(vh.G1).Set(B)
					d2.Add(A, d2)
					eq(t, "g1/add/aliased-mismatch", d2.Marshal(), sumRef, "e.Add(a,e) a=%x b=%x", a, b)
					// [b]([a]G) = [ab mod n]G
					prodRef := encRef(curve.Mul(modN(b), aRef))
					m, _ := new(vh.G1).ScalarMult(A, k32(b))
					eq(t, "g1/scalar-mult/mismatch", m.Marshal(), prodRef, "[%x]([%x]G) vs affine reference", b, a)
					eq(t, "g1/scalar-mult/vs-scalar-base-mult", g1Base(modN(new(big.Int).Mul(a, b))).Marshal(), prodRef, "[(%x*%x) mod n]G", a, b)
					t.Nontrivial(fmt.Sprintf("g1/pair/%x/%x", a, b))
				}
				dbl := encRef(curve.Add(aRef, aRef))
				eq(t, "g1/double/mismatch", new(vh.G1).Double(A).Marshal(), dbl, "Double([%x]G)", a)
				d := new(vh.G1).Set(A)
				d.Double(d)
				eq(t, "g1/double/aliased-mismatch", d.Marshal(), dbl, "e.Double(e) e=[%x]G", a)
				eq(t, "g1/neg/mismatch", new(vh.G1).Neg(A).Marshal(), encRef(curve.Neg(aRef)), "Neg([%x]G)", a)
				t.Outcome("g1/pairs/ok")
			})
			c.Case(fmt.Sprintf("g2/pairs/%s/a#%d", set.name, ai), func(t *engine.T) {
				A := g2Base(a)
				for _, b := range vals {
					B := g2Base(b)
					want := g2Base(modN(new(big.Int).Add(a, b))).Marshal()
					eq(t, "g2/add/vs-scalar-base-mult", new(vh.G2).Add(A, B).Marshal(), want, "[%x]P2 + [%x]P2 vs [(a+b) mod n]P2", a, b)
					eq(t, "g2/add/vs-scalar-base-mult", new(vh.G2).Add(B, A).Marshal(), want, "[%x]P2 + [%x]P2 (swapped)", b, a)
					d1 := new(vh.G2).Set(A)
					d1.Add(d1, B)
					eq(t, "g2/add/aliased-mismatch", d1.Marshal(), want, "e.Add(e,b) a=%x b=%x", a, b)
					d2 := new(vh.G2).Set(B)
					d2.Add(A, d2)
					eq(t, "g2/add/aliased-mismatch", d2.Marshal(), want, "e.Add(a,e) a=%x b=%x", a, b)
					if !bytes.Equal(want, zero128) && !g2OnTwist(want) {
						t.Fail("g2/add/result-off-curve", "[(%x+%x) mod n]P2 is not on the twist: %s", a, b, hx(want))
					}
					m, _ := new(vh.G2).ScalarMult(A, k32(b))
					eq(t, "g2/scalar-mult/vs-scalar-base-mult", m.Marshal(), g2Base(modN(new(big.Int).Mul(a, b))).Marshal(), "[%x]([%x]P2) vs [(ab) mod n]P2", b, a)
					t.Nontrivial(fmt.Sprintf("g2/pair/%x/%x", a, b))
				}
				// inverse
				neg := new(vh.G2).Neg(A)
				eq(t, "g2/neg/mismatch", neg.Marshal(), g2Base(modN(new(big.Int).Neg(a))).Marshal(), "Neg([%x]P2) vs [(-a) mod n]P2", a)
				eq(t, "g2/neg/sum-not-infinity", new(vh.G2).Add(A, neg).Marshal(), zero128, "[%x]P2 + Neg([%x]P2)", a, a)
				t.Outcome("g2/pairs/ok")
			})
			c.Case(fmt.Sprintf("gt/pairs/%s/a#%d", set.name, ai), func(t *engine.T) {
				g := gtGen()
				A := gtBase(a)
				for _, b := range vals {
					B := gtBase(b)
					want := new(vh.GT).ScalarMult(g, modN(new(big.Int).Add(a, b))).Marshal()
					eq(t, "gt/add/vs-exp", new(vh.GT).Add(A, B).Marshal(), want, "g^%x * g^%x vs g^((a+b) mod n)", a, b)
					eq(t, "gt/add/vs-exp", new(vh.GT).Add(B, A).Marshal(), want, "g^%x * g^%x (swapped)", b, a)
					d1 := new(vh.GT).Set(A)
					d1.Add(d1, B)
					eq(t, "gt/add/aliased-mismatch", d1.Marshal(), want, "e.Add(e,b) a=%x b=%x", a, b)
					d2 := new(vh.GT).Set(B)
					d2.Add(A, d2)
					eq(t, "gt/add/aliased-mismatch", d2.Marshal(), want, "e.Add(a,e) a=%x b=%x", a, b)
					wantP := new(vh.GT).ScalarMult(g, modN(new(big.Int).Mul(a, b))).Marshal()
					m, err := vh.ScalarMultGT(A, k32(b))
					if err != nil {
						t.Fail("gt/ScalarMultGT/error", "%v", err)
					} else {
						eq(t, "gt/ScalarMultGT/mismatch", m.Marshal(), wantP, "(g^%x)^%x via ScalarMultGT vs g^(ab mod n)", a, b)
					}
					eq(t, "gt/scalar-mult/mismatch", new(vh.GT).ScalarMult(A, b).Marshal(), wantP, "(g^%x)^%x via GT.ScalarMult vs g^(ab mod n)", a, b)
					t.Nontrivial(fmt.Sprintf("gt/pair/%x/%x", a, b))
				}
				// inverse: g^a * g^(n-a) = 1
				inv := gtBase(modN(new(big.Int).Neg(a)))
				eq(t, "gt/inverse/product-not-one", new(vh.GT).Add(A, inv).Marshal(), gtOneEnc(), "g^%x * g^((-a) mod n)", a)
				t.Outcome("gt/pairs/ok")
			})
		}
	}
}

// ---------------------------------------------------------------------------------------------
// identity / inverse / order

func runIdentity(c *engine.Ctx) {
	c.Case("identity-inverse", func(t *engine.T) {
		ks := []*big.Int{big.NewInt(1), big.NewInt(2), big.NewInt(7), chain("id1"), new(big.Int).Sub(nOrd, one)}
		zero := big.NewInt(0)
		// G1
		inf1 := g1Base(zero)
		eq(t, "g1/infinity-encoding", inf1.Marshal(), zero64, "[0]G")
		eq(t, "g1/infinity-encoding", g1Base(nOrd).Marshal(), zero64, "[n]G")
		eq(t, "g1/infinity-encoding", new(vh.G1).Add(inf1, inf1).Marshal(), zero64, "inf+inf")
		eq(t, "g1/infinity-encoding", new(vh.G1).Double(inf1).Marshal(), zero64, "Double(inf)")
		eq(t, "g1/infinity-encoding", new(vh.G1).Neg(inf1).Marshal(), zero64, "Neg(inf)")
		if !inf1.IsOnCurve() {
			t.Outcome("g1/IsOnCurve(inf)=false")
		} else {
			t.Outcome("g1/IsOnCurve(inf)=true")
		}
		inf2 := g2Base(zero)
		eq(t, "g2/infinity-encoding", inf2.Marshal(), zero128, "[0]P2")
		eq(t, "g2/infinity-encoding", g2Base(nOrd).Marshal(), zero128, "[n]P2")
		eq(t, "g2/infinity-encoding", new(vh.G2).Add(inf2, inf2).Marshal(), zero128, "inf+inf")
		eq(t, "g2/infinity-encoding", new(vh.G2).Neg(inf2).Marshal(), zero128, "Neg(inf)")
		eq(t, "gt/identity-encoding", new(vh.GT).SetOne().Marshal(), gtOneEnc(), "SetOne")
		eq(t, "gt/identity-encoding", gtBase(zero).Marshal(), gtOneEnc(), "g^0 (table)")
		eq(t, "gt/identity-encoding", gtBase(nOrd).Marshal(), gtOneEnc(), "g^n (table)")
		eq(t, "gt/identity-encoding", new(vh.GT).ScalarMult(gtGen(), nOrd).Marshal(), gtOneEnc(), "g^n (square-and-multiply)")
		if bytes.Equal(gtGen().Marshal(), gtOneEnc()) {
			t.Fail("pairing/degenerate", "e(P1,P2) is the identity of GT")
		}
		eq(t, "gt/generator", new(vh.GT).ScalarBaseMult(one).Marshal(), gtGen().Marshal(), "GT.ScalarBaseMult(1) vs e(P1,P2)")
		for _, k := range ks {
			P := g1Base(k)
			pe := P.Marshal()
			eq(t, "g1/identity/add", new(vh.G1).Add(P, inf1).Marshal(), pe, "P+inf, P=[%x]G", k)
			eq(t, "g1/identity/add", new(vh.G1).Add(inf1, P).Marshal(), pe, "inf+P, P=[%x]G", k)
			eq(t, "g1/inverse/sum-not-infinity", new(vh.G1).Add(P, new(vh.G1).Neg(P)).Marshal(), zero64, "P+(-P), P=[%x]G", k)
			eq(t, "g1/inverse/sum-not-infinity", new(vh.G1).Add(new(vh.G1).Neg(P), P).Marshal(), zero64, "(-P)+P, P=[%x]G", k)
			m, _ := new(vh.G1).ScalarMult(P, k32(nOrd))
			eq(t, "g1/order", m.Marshal(), zero64, "[n]P, P=[%x]G", k)
			m, _ = new(vh.G1).ScalarMult(P, k32(new(big.Int).Sub(nOrd, one)))
			eq(t, "g1/order", m.Marshal(), new(vh.G1).Neg(P).Marshal(), "[n-1]P vs -P, P=[%x]G", k)
			m, _ = new(vh.G1).ScalarMult(inf1, k32(k))
			eq(t, "g1/identity/scalar-mult", m.Marshal(), zero64, "[%x]inf", k)
			m, _ = new(vh.G1).ScalarMult(P, k32(zero))
			eq(t, "g1/identity/scalar-mult", m.Marshal(), zero64, "[0]P, P=[%x]G", k)
			eq(t, "g1/neg/involution", new(vh.G1).Neg(new(vh.G1).Neg(P)).Marshal(), pe, "-(-P), P=[%x]G", k)

			Q := g2Base(k)
			qe := Q.Marshal()
			eq(t, "g2/identity/add", new(vh.G2).Add(Q, inf2).Marshal(), qe, "Q+inf, Q=[%x]P2", k)
			eq(t, "g2/identity/add", new(vh.G2).Add(inf2, Q).Marshal(), qe, "inf+Q, Q=[%x]P2", k)
			eq(t, "g2/inverse/sum-not-infinity", new(vh.G2).Add(new(vh.G2).Neg(Q), Q).Marshal(), zero128, "(-Q)+Q, Q=[%x]P2", k)
			n2, _ := new(vh.G2).ScalarMult(Q, k32(nOrd))
			eq(t, "g2/order", n2.Marshal(), zero128, "[n]Q, Q=[%x]P2", k)
			n2, _ = new(vh.G2).ScalarMult(Q, k32(new(big.Int).Sub(nOrd, one)))
			eq(t, "g2/order", n2.Marshal(), new(vh.G2).Neg(Q).Marshal(), "[n-1]Q vs -Q, Q=[%x]P2", k)
			n2, _ = new(vh.G2).ScalarMult(inf2, k32(k))
			eq(t, "g2/identity/scalar-mult", n2.Marshal(), zero128, "[%x]inf", k)
			n2, _ = new(vh.G2).ScalarMult(Q, k32(zero))
			eq(t, "g2/identity/scalar-mult", n2.Marshal(), zero128, "[0]Q")

			E := gtBase(k)
			ee := E.Marshal()
			eq(t, "gt/identity/mul", new(vh.GT).Add(E, new(vh.GT).SetOne()).Marshal(), ee, "E*1, E=g^%x", k)
			eq(t, "gt/identity/mul", new(vh.GT).Add(new(vh.GT).SetOne(), E).Marshal(), ee, "1*E, E=g^%x", k)
			m3, _ := vh.ScalarMultGT(E, k32(nOrd))
			eq(t, "gt/order", m3.Marshal(), gtOneEnc(), "E^n, E=g^%x", k)
			m3, _ = vh.ScalarMultGT(new(vh.GT).SetOne(), k32(k))
			eq(t, "gt/identity/exp", m3.Marshal(), gtOneEnc(), "1^%x", k)
			m3, _ = vh.ScalarMultGT(E, k32(zero))
			eq(t, "gt/identity/exp", m3.Marshal(), gtOneEnc(), "E^0")
			t.Nontrivial("identity/" + k.Text(16))
		}
		// errors documented for wrong scalar lengths
		for _, l := range []int{0, 1, 31, 33, 64} {
			if _, err := new(vh.G1).ScalarBaseMult(make([]byte, l)); err == nil {
				t.Fail("g1/scalar-base-mult/length-not-rejected", "ScalarBaseMult accepts a %d-byte scalar", l)
			}
			if _, err := new(vh.G2).ScalarBaseMult(make([]byte, l)); err == nil {
				t.Fail("g2/scalar-base-mult/length-not-rejected", "ScalarBaseMult accepts a %d-byte scalar", l)
			}
			if _, err := vh.ScalarBaseMultGT(gtTable(), make([]byte, l)); err == nil {
				t.Fail("gt/ScalarBaseMultGT/length-not-rejected", "ScalarBaseMultGT accepts a %d-byte scalar", l)
			}
			t.Eval(3)
		}
		t.Outcome("identity/ok")
	})
}

// ---------------------------------------------------------------------------------------------
// bilinearity

func bilinearScalars(quick bool) []*big.Int {
	v := []*big.Int{
		big.NewInt(0), big.NewInt(1), big.NewInt(2), big.NewInt(3),
		new(big.Int).Sub(nOrd, one), new(big.Int).Sub(nOrd, big.NewInt(2)),
		new(big.Int).Add(new(big.Int).Lsh(one, 128), one), chain("bil1"), chain("bil2"),
		new(big.Int).Rsh(new(big.Int).Add(nOrd, one), 1), new(big.Int).Lsh(one, 255), new(big.Int).Set(nOrd),
	}
	if !quick {
		v = append(v, big.NewInt(15), big.NewInt(16), big.NewInt(17), new(big.Int).Sub(two256, one),
			new(big.Int).Add(nOrd, one), new(big.Int).Lsh(one, 64), new(big.Int).Sub(new(big.Int).Lsh(one, 192), one),
			chain("bil3"), chain("bil4"), chain("bil5"), new(big.Int).Lsh(big.NewInt(15), 252), new(big.Int).Rsh(nOrd, 1))
	}
	return v
}

func runBilinear(c *engine.Ctx) {
	vals := bilinearScalars(c.Quick())
	for ai, a := range vals {
		a := a
		c.Case(fmt.Sprintf("bilinear/a#%d", ai), func(t *engine.T) {
			g := gtGen()
			A := g1Base(a)
			for _, b := range vals {
				B := g2Base(b)
				ab := modN(new(big.Int).Mul(a, b))
				want := new(vh.GT).ScalarMult(g, ab).Marshal()
				got := vh.Pair(A, B)
				ge := got.Marshal()
				eq(t, "pairing/bilinearity", ge, want, "e([%x]P1,[%x]P2) vs e(P1,P2)^(ab mod n)", a, b)
				w2, err := vh.ScalarMultGT(g, k32(ab))
				if err == nil {
					eq(t, "pairing/bilinearity", ge, w2.Marshal(), "e([%x]P1,[%x]P2) vs ScalarMultGT(e(P1,P2), ab mod n)", a, b)
				}
				if ab.Sign() != 0 {
					// (with an infinity argument only Pair's value is specified)
					eq(t, "pairing/miller-finalize", vh.Miller(A, B).Finalize().Marshal(), ge, "Miller([%x]P1,[%x]P2).Finalize() vs Pair", a, b)
				} else {
					eq(t, "pairing/infinity-argument", ge, gtOneEnc(), "e([%x]P1,[%x]P2) with ab = 0 mod n", a, b)
					t.Outcome("pairing/one")
				}
				t.Nontrivial(fmt.Sprintf("bilinear/%x/%x", a, b))
			}
			// additivity in each argument on a few second arguments
			for _, b := range vals[:4] {
				B1 := g1Base(b)
				Q := g2Base(chain("add-q"))
				l := vh.Pair(new(vh.G1).Add(A, B1), Q).Marshal()
				r := new(vh.GT).Add(vh.Pair(A, Q), vh.Pair(B1, Q)).Marshal()
				eq(t, "pairing/additivity-g1", l, r, "e(A+B,Q) vs e(A,Q)e(B,Q), a=%x b=%x", a, b)
				P := g1Base(chain("add-p"))
				A2, B2 := g2Base(a), g2Base(b)
				l = vh.Pair(P, new(vh.G2).Add(A2, B2)).Marshal()
				r = new(vh.GT).Add(vh.Pair(P, A2), vh.Pair(P, B2)).Marshal()
				eq(t, "pairing/additivity-g2", l, r, "e(P,A+B) vs e(P,A)e(P,B), a=%x b=%x", a, b)
			}
			// arguments produced by every point-producing route of the API (Neg, Add, Double, decoder output, ScalarMult
			// results): the pairing must not depend on the internal representation its argument arrived in.
			if a.Sign() != 0 && modN(a).Sign() != 0 {
				nm1 := new(big.Int).Sub(nOrd, one)
				P := g1Base(chain("route-p"))
				Qp := g2Base(a) // projective as produced by ScalarBaseMult
				Qa := new(vh.G2)
				if _, err := Qa.Unmarshal(Qp.Marshal()); err != nil {
					t.Fail("g2/unmarshal/own-encoding-rejected", "Unmarshal(Marshal([%x]P2)): %v", a, err)
				} else {
					e := vh.Pair(P, Qa)
					inv := new(vh.GT).ScalarMult(e, nm1).Marshal() // e^(n-1) = e^-1
					routes := []struct {
						name string
						q    *vh.G2
					}{
						{"neg-of-decoded", new(vh.G2).Neg(Qa)},
						{"neg-of-scalarmult-result", new(vh.G2).Neg(Qp)},
						{"neg-of-neg-of-neg", new(vh.G2).Neg(new(vh.G2).Neg(new(vh.G2).Neg(Qa)))},
					}
					for _, r := range routes {
						eq(t, "pairing/g2-argument-route/"+r.name, vh.Pair(P, r.q).Marshal(), inv, "e(P,-Q) vs e(P,Q)^(n-1) with -Q from %s, Q=[%x]P2", r.name, a)
						t.Eval(1)
					}
					eq(t, "pairing/g2-argument-route/neg-neg", vh.Pair(P, new(vh.G2).Neg(new(vh.G2).Neg(Qa))).Marshal(), e.Marshal(), "e(P,--Q) vs e(P,Q), Q=[%x]P2", a)
					eq(t, "pairing/g1-argument-route/neg", vh.Pair(new(vh.G1).Neg(P), Qa).Marshal(), inv, "e(-P,Q) vs e(P,Q)^(n-1), Q=[%x]P2", a)
					// 2Q through Add(Q,Q) of decoded points, Q + (-Q) + Q
					two := new(vh.GT).ScalarMult(e, big.NewInt(2)).Marshal()
					eq(t, "pairing/g2-argument-route/add-decoded", vh.Pair(P, new(vh.G2).Add(Qa, Qa)).Marshal(), two, "e(P,Q+Q) vs e(P,Q)^2, Q=[%x]P2", a)
					back := new(vh.G2).Add(new(vh.G2).Add(Qa, new(vh.G2).Neg(Qa)), Qa)
					eq(t, "pairing/g2-argument-route/add-neg-add", vh.Pair(P, back).Marshal(), e.Marshal(), "e(P,(Q-Q)+Q) vs e(P,Q), Q=[%x]P2", a)
					// G1 side: decoded, negated, doubled
					Pa := new(vh.G1)
					if _, err := Pa.Unmarshal(P.Marshal()); err == nil {
						eq(t, "pairing/g1-argument-route/decoded", vh.Pair(Pa, Qa).Marshal(), e.Marshal(), "e(decode(P),Q) vs e(P,Q)")
						eq(t, "pairing/g1-argument-route/double", vh.Pair(new(vh.G1).Double(Pa), Qa).Marshal(), two, "e(2P,Q) vs e(P,Q)^2")
						eq(t, "pairing/g1-argument-route/neg-decoded", vh.Pair(new(vh.G1).Neg(Pa), Qa).Marshal(), inv, "e(-decode(P),Q) vs e(P,Q)^(n-1)")
					}
					t.Nontrivial(fmt.Sprintf("pair-routes/%x", a))
				}
			}
			t.Outcome("bilinear/ok")
			if ai == 7 {
				t.Sample(map[string]any{"law": "e([a]P1,[b]P2) = e(P1,P2)^(ab mod n)", "a": a.Text(16), "b_count": len(vals)})
			}
		})
	}
}
