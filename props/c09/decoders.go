package c09

import (
	"bytes"
	"fmt"
	"math/big"

	vh "github.com/emmansun/gmsm/verifhook"

	"verif/engine"
	"verif/ref/ecref"
	"verif/ref/sm9ref"
)

// E3 on the prefix decoders. The oracle is computed from the input bytes alone with the reference predicates.

const (
	mustAccept = iota
	mustReject
	either
)

type decoded struct {
	tail  []byte
	err   error
	reenc func() []byte // re-encoding in the format of the decoder
	unc   func() []byte // plain Marshal() of the result
}

type codec struct {
	name   string
	elem   int
	prefix int // 1 for compressed forms (leading 02/03 byte)
	dec    func(used int, in []byte) decoded
	// oracle classifies the leading element of an input of at least elem bytes
	oracle func(e []byte) (verdict int, cls string, wantUnc []byte)
	// post is an extra check on an accepted result (nil = none); returns "" or a description
	post func(e, unc []byte) string
}

func allZero(b []byte) bool {
	for _, x := range b {
		if x != 0 {
			return false
		}
	}
	return true
}

func coordsInRange(b []byte) bool {
	for i := 0; i+32 <= len(b); i += 32 {
		if new(big.Int).SetBytes(b[i:i+32]).Cmp(pFld) >= 0 {
			return false
		}
	}
	return true
}

// receiver histories: 0 fresh, 1 result of a scalar multiplication (not normalised), 2 the point at infinity obtained
// as P + (-P), 3 result of an addition (projective), 4 a receiver that already decoded an affine point
const nReceivers = 5

func usedG1(mode int) *vh.G1 {
	switch mode {
	case 1:
		return g1Base(big.NewInt(5))
	case 2:
		q := g1Base(big.NewInt(7))
		return new(vh.G1).Add(q, new(vh.G1).Neg(q))
	case 3:
		return new(vh.G1).Add(g1Base(big.NewInt(5)), vh.Gen1)
	case 4:
		r := new(vh.G1)
		r.Unmarshal(g1Base(big.NewInt(9)).Marshal())
		return r
	}
	return new(vh.G1)
}
func usedG2(mode int) *vh.G2 {
	switch mode {
	case 1:
		return g2Base(big.NewInt(5))
	case 2:
		q := g2Base(big.NewInt(7))
		return new(vh.G2).Add(q, new(vh.G2).Neg(q))
	case 3:
		return new(vh.G2).Add(g2Base(big.NewInt(5)), vh.Gen2)
	case 4:
		r := new(vh.G2)
		r.Unmarshal(g2Base(big.NewInt(9)).Marshal())
		return r
	}
	return new(vh.G2)
}
func usedGT(mode int) *vh.GT {
	switch mode {
	case 1:
		return new(vh.GT).SetOne()
	case 2, 3:
		return vh.Pair(vh.Gen1, vh.Gen2)
	case 4:
		r := new(vh.GT)
		r.Unmarshal(vh.Pair(vh.Gen1, vh.Gen2).Marshal())
		return r
	}
	return new(vh.GT)
}

var codecs = []*codec{
	{
		name: "g1/unmarshal", elem: 64,
		dec: func(used int, in []byte) decoded {
			g := usedG1(used)
			tail, err := g.Unmarshal(in)
			return decoded{tail, err, g.Marshal, g.Marshal}
		},
		oracle: func(e []byte) (int, string, []byte) {
			if allZero(e) {
				return mustAccept, "infinity", e
			}
			if !coordsInRange(e) {
				return mustReject, "coordinate>=p", nil
			}
			if curve.OnCurve(ecref.Point{X: new(big.Int).SetBytes(e[:32]), Y: new(big.Int).SetBytes(e[32:64])}) {
				return mustAccept, "on-curve", e
			}
			return mustReject, "off-curve", nil
		},
	},
	{
		name: "g1/unmarshal-compressed", elem: 33, prefix: 1,
		dec: func(used int, in []byte) decoded {
			g := usedG1(used)
			tail, err := g.UnmarshalCompressed(in)
			return decoded{tail, err, g.MarshalCompressed, g.Marshal}
		},
		oracle: func(e []byte) (int, string, []byte) {
			if e[0] != 2 && e[0] != 3 {
				return mustReject, "bad-prefix", nil
			}
			if !coordsInRange(e[1:]) {
				return mustReject, "coordinate>=p", nil
			}
			pt, ok := curve.LiftX(new(big.Int).SetBytes(e[1:33]), uint(e[0]&1))
			if !ok {
				if allZero(e[1:33]) {
					// x = 0 is not the abscissa of a curve point (5 is a quadratic non-residue mod p). The library decodes
					// prefix||0..0 as the point at infinity (explicit branch in UnmarshalCompressed); G1.MarshalCompressed
					// documents infinity as undefined, so no canonical compressed form exists: accept or reject, but an
					// accepted result must be the point at infinity; the re-encoding is not compared (noReenc below).
					return either, "x=0(infinity-form)", make([]byte, 64)
				}
				return mustReject, "off-curve", nil
			}
			return mustAccept, "on-curve", encRef(pt)
		},
	},
	{
		name: "g2/unmarshal", elem: 128,
		dec: func(used int, in []byte) decoded {
			g := usedG2(used)
			tail, err := g.Unmarshal(in)
			return decoded{tail, err, g.Marshal, g.Marshal}
		},
		oracle: func(e []byte) (int, string, []byte) {
			if allZero(e) {
				return mustAccept, "infinity", e
			}
			if !coordsInRange(e) {
				return mustReject, "coordinate>=p", nil
			}
			if g2OnTwist(e) {
				return mustAccept, "on-curve", e
			}
			return mustReject, "off-curve", nil
		},
	},
	{
		name: "g2/unmarshal-compressed", elem: 65, prefix: 1,
		dec: func(used int, in []byte) decoded {
			g := usedG2(used)
			tail, err := g.UnmarshalCompressed(in)
			return decoded{tail, err, g.MarshalCompressed, g.Marshal}
		},
		oracle: func(e []byte) (int, string, []byte) {
			if e[0] != 2 && e[0] != 3 {
				return mustReject, "bad-prefix", nil
			}
			if !coordsInRange(e[1:]) {
				return mustReject, "coordinate>=p", nil
			}
			if sm9ref.TwistRHS(sm9ref.ParseFp2(e[1:65])).IsSquare() {
				return mustAccept, "on-curve", nil
			}
			if allZero(e[1:65]) {
				// x = 0 is not the abscissa of a point of the twist (5u is a non-square). 03||0..0 is the library's
				// compressed form of the point at infinity (G2.MarshalCompressed of infinity; pinned by the repository's
				// Test_G2MarshalCompressed): it must decode to infinity. 02||0..0 may be rejected or accepted as infinity,
				// but like every accepted input its re-encoding must return the consumed bytes.
				if e[0] == 3 {
					return mustAccept, "infinity", make([]byte, 128)
				}
				return either, "x=0,prefix=02", make([]byte, 128)
			}
			return mustReject, "off-curve", nil
		},
		post: func(e, unc []byte) string {
			if allZero(unc) && allZero(e[1:65]) {
				return "" // infinity form, judged by the expected element
			}
			if !bytes.Equal(unc[:64], e[1:65]) {
				return "x of the result differs from the encoded x"
			}
			if !g2OnTwist(unc) {
				return "result is not on the twist"
			}
			if unc[127]&1 != e[0]&1 {
				return "parity of y does not match the prefix byte"
			}
			return ""
		},
	},
	{
		name: "gt/unmarshal", elem: 384,
		dec: func(used int, in []byte) decoded {
			g := usedGT(used)
			tail, err := g.Unmarshal(in)
			return decoded{tail, err, g.Marshal, g.Marshal}
		},
		oracle: func(e []byte) (int, string, []byte) {
			if !coordsInRange(e) {
				return mustReject, "coordinate>=p", nil
			}
			return either, "in-range", e
		},
	},
}

func codecByName(n string) *codec {
	for _, c := range codecs {
		if c.name == n {
			return c
		}
	}
	panic(n)
}

// check offers one input to the decoder (fresh and used receiver) and applies the oracle. force overrides the
// oracle's verdict for inputs known to be valid group elements (GT members).
func (cd *codec) check(t *engine.T, in []byte, desc string, force int) {
	verdict, cls, wantUnc := mustReject, "short-input", []byte(nil)
	if len(in) >= cd.elem {
		verdict, cls, wantUnc = cd.oracle(in[:cd.elem])
		if force == mustAccept && verdict == mustReject {
			t.Fail(cd.name+"/marshal-invalid-by-reference", "%s: the library's own encoding %s is classified %q by the reference predicate", desc, hx(in[:cd.elem]), cls)
			return
		}
		if force >= 0 {
			verdict = force
		}
	}
	t.Nontrivial(cd.name + "/" + cls + "/" + desc)
	orig := append([]byte{}, in...)
	for used := 0; used < nReceivers; used++ {
		var d decoded
		if t.Guard(cd.name, func() { d = cd.dec(used, in) }) {
			return
		}
		t.Eval(1)
		if !bytes.Equal(in, orig) {
			t.Fail(cd.name+"/input-modified", "%s: the decoder modified its input", desc)
			return
		}
		if d.err != nil {
			t.Outcome(cd.name + "/reject/" + cls)
			if verdict == mustAccept {
				t.Fail(cd.name+"/valid-rejected", "%s [%s, receiver history=%d]: error %q for %s", desc, cls, used, d.err, hx(in))
			}
			continue
		}
		t.Outcome(cd.name + "/accept/" + cls)
		if verdict == mustReject {
			var re []byte
			t.Guard(cd.name, func() { re = d.reenc() })
			t.Fail(cd.name+"/"+cls+"-accepted", "%s [receiver history=%d]: accepted %s (%d bytes); re-encoding of the result: %s", desc, used, hx(in), len(in), hx(re))
			continue
		}
		if !bytes.Equal(d.tail, in[cd.elem:]) {
			t.Fail(cd.name+"/wrong-tail", "%s: returned tail of %d bytes, want the %d bytes after the element", desc, len(d.tail), len(in)-cd.elem)
		}
		var re, unc []byte
		if t.Guard(cd.name+"/marshal", func() { re = d.reenc(); unc = d.unc() }) {
			return
		}
		if cd.name == "g1/unmarshal-compressed" && cls == "x=0(infinity-form)" {
			re = in[:cd.elem] // G1.MarshalCompressed(infinity) is documented as undefined: not compared
		}
		if !bytes.Equal(re, in[:cd.elem]) {
			t.Fail(cd.name+"/reencode-mismatch/"+cls, "%s [%s]: decoded %s but re-encoding gives %s", desc, cls, hx(in[:cd.elem]), hx(re))
		}
		if wantUnc != nil && !bytes.Equal(unc, wantUnc) {
			t.Fail(cd.name+"/wrong-element", "%s [%s]: decoded element %s, want %s", desc, cls, hx(unc), hx(wantUnc))
		}
		if cd.post != nil {
			if msg := cd.post(in[:cd.elem], unc); msg != "" {
				t.Fail(cd.name+"/wrong-element", "%s [%s]: %s (input %s, result %s)", desc, cls, msg, hx(in[:cd.elem]), hx(unc))
			}
		}
	}
}

// coordinate substitutions of one 32-byte coordinate with value c
func coordSubs(c *big.Int) []struct {
	name string
	v    *big.Int
} {
	type sub = struct {
		name string
		v    *big.Int
	}
	max := new(big.Int).Sub(two256, one)
	out := []sub{{"p", new(big.Int).Set(pFld)}, {"2^256-1", max}, {"0", big.NewInt(0)}, {"p-1", new(big.Int).Sub(pFld, one)}, {"p+1", new(big.Int).Add(pFld, one)}}
	if cp := new(big.Int).Add(c, pFld); cp.Cmp(two256) < 0 {
		out = append(out, sub{"c+p", cp})
	}
	out = append(out, sub{"c+1", new(big.Int).Add(c, one)})
	if c.Sign() > 0 {
		out = append(out, sub{"c-1", new(big.Int).Sub(c, one)})
		out = append(out, sub{"p-c", new(big.Int).Sub(pFld, c)})
	}
	out = append(out, sub{"c^2^255", new(big.Int).Xor(c, new(big.Int).Lsh(one, 255))})
	return out
}

func decoderScalars(n int) []*big.Int {
	// small multiples first (dense in "c+p fits" coordinates somewhere), then generic scalars
	var out []*big.Int
	for i := 1; len(out) < n*3/5; i++ {
		out = append(out, big.NewInt(int64(i)))
	}
	for i := 0; len(out) < n; i++ {
		out = append(out, chain(fmt.Sprintf("dec%d", i)))
	}
	return out
}

func runDecoders(c *engine.Ctx) {
	nElem := 20
	nGT := 10
	if !c.Quick() {
		nElem = 60
		nGT = 20
	}
	ks := decoderScalars(nElem)
	tails := [][]byte{{}, {0}, {0xff, 0xff, 0xff, 0xff, 0xff}}

	type src struct {
		codec string
		n     int
		enc   func(k *big.Int) []byte
	}
	srcs := []src{
		{"g1/unmarshal", nElem, func(k *big.Int) []byte { return g1Base(k).Marshal() }},
		{"g1/unmarshal-compressed", nElem, func(k *big.Int) []byte { return g1Base(k).MarshalCompressed() }},
		{"g2/unmarshal", nElem, func(k *big.Int) []byte { return g2Base(k).Marshal() }},
		{"g2/unmarshal-compressed", nElem, func(k *big.Int) []byte { return g2Base(k).MarshalCompressed() }},
		{"gt/unmarshal", nGT, func(k *big.Int) []byte { return gtBase(k).Marshal() }},
	}
	for _, s := range srcs {
		s := s
		cd := codecByName(s.codec)
		for i := 0; i < s.n; i++ {
			i := i
			k := ks[i]
			c.Case(fmt.Sprintf("decode/%s/elem#%d", s.codec, i), func(t *engine.T) {
				e := s.enc(k)
				if len(e) != cd.elem {
					t.Fail(cd.name+"/marshal-length", "encoding of [%x] has %d bytes, want %d", k, len(e), cd.elem)
					return
				}
				// the valid element itself, with tails
				for ti, tl := range tails {
					cd.check(t, append(append([]byte{}, e...), tl...), fmt.Sprintf("valid+tail#%d", ti), mustAccept)
				}
				cd.check(t, append(append([]byte{}, e...), e...), "valid+itself", mustAccept)
				// coordinate substitutions (one coordinate at a time; thorough: also every pair of coordinates for the first elements)
				nc := (cd.elem - cd.prefix) / 32
				for j := 0; j < nc; j++ {
					off := cd.prefix + 32*j
					cv := new(big.Int).SetBytes(e[off : off+32])
					for _, sb := range coordSubs(cv) {
						m := append([]byte{}, e...)
						copy(m[off:], k32(sb.v))
						cd.check(t, m, fmt.Sprintf("coord#%d=%s", j, sb.name), -1)
						if sb.name == "c+p" || sb.name == "p" {
							cd.check(t, append(m, 0xaa), fmt.Sprintf("coord#%d=%s+tail", j, sb.name), -1)
						}
					}
				}
				if !t.Quick() && i < 6 && nc <= 4 {
					for j := 0; j < nc; j++ {
						for l := j + 1; l < nc; l++ {
							oj, ol := cd.prefix+32*j, cd.prefix+32*l
							for _, sj := range coordSubs(new(big.Int).SetBytes(e[oj : oj+32])) {
								for _, sl := range coordSubs(new(big.Int).SetBytes(e[ol : ol+32])) {
									m := append([]byte{}, e...)
									copy(m[oj:], k32(sj.v))
									copy(m[ol:], k32(sl.v))
									cd.check(t, m, fmt.Sprintf("coord#%d=%s,coord#%d=%s", j, sj.name, l, sl.name), -1)
								}
							}
						}
					}
				}
				// compressed forms: every prefix byte
				if cd.prefix == 1 {
					for b := 0; b < 256; b++ {
						m := append([]byte{}, e...)
						m[0] = byte(b)
						cd.check(t, m, fmt.Sprintf("prefix=%02x", b), -1)
					}
				}
				// every single-bit flip of the last byte of every coordinate and of the first byte (cheap off-curve neighbours)
				for j := 0; j < nc; j++ {
					for bit := 0; bit < 8; bit++ {
						m := append([]byte{}, e...)
						m[cd.prefix+32*j+31] ^= 1 << bit
						cd.check(t, m, fmt.Sprintf("coord#%d^bit%d", j, bit), -1)
					}
				}
				if i == 0 {
					t.Sample(map[string]any{"decoder": cd.name, "element": "[" + k.Text(16) + "]", "encoding": hx(e)})
				}
			})
		}
		c.Case(fmt.Sprintf("decode/%s/lengths", s.codec), func(t *engine.T) {
			e := s.enc(ks[1])
			for l := 0; l < cd.elem; l++ {
				cd.check(t, append([]byte{}, e[:l]...), fmt.Sprintf("len=%d", l), -1)
				cd.check(t, make([]byte, l), fmt.Sprintf("zeros(len=%d)", l), -1)
			}
			cd.check(t, nil, "nil", -1)
		})
		if cd.prefix == 1 {
			c.Case(fmt.Sprintf("decode/%s/x=0", s.codec), func(t *engine.T) {
				for _, pre := range []byte{0, 2, 3, 4} {
					for ti, tl := range tails {
						m := make([]byte, cd.elem)
						m[0] = pre
						cd.check(t, append(m, tl...), fmt.Sprintf("prefix=%02x,x=0+tail#%d", pre, ti), -1)
					}
				}
			})
		}
		if cd.prefix == 0 {
			c.Case(fmt.Sprintf("decode/%s/infinity-forms", s.codec), func(t *engine.T) {
				z := make([]byte, cd.elem)
				if cd.name != "gt/unmarshal" {
					for ti, tl := range tails {
						cd.check(t, append(append([]byte{}, z...), tl...), fmt.Sprintf("all-zero+tail#%d", ti), mustAccept)
					}
				} else {
					cd.check(t, gtOneEnc(), "identity", mustAccept)
					cd.check(t, z, "all-zero", -1)
				}
				nc := cd.elem / 32
				// p (and 2^256-1, 1) in every subset of coordinates of the zero vector (subsets only for <= 4 coordinates)
				vals := []struct {
					n string
					v *big.Int
				}{{"p", pFld}, {"2^256-1", new(big.Int).Sub(two256, one)}, {"1", one}}
				if nc <= 4 {
					for mask := 1; mask < 1<<nc; mask++ {
						for _, v := range vals {
							m := make([]byte, cd.elem)
							for j := 0; j < nc; j++ {
								if mask>>j&1 == 1 {
									copy(m[32*j:], k32(v.v))
								}
							}
							cd.check(t, m, fmt.Sprintf("zero-with-%s@mask%x", v.n, mask), -1)
						}
					}
				} else {
					for j := 0; j < nc; j++ {
						for _, v := range vals {
							m := make([]byte, cd.elem)
							copy(m[32*j:], k32(v.v))
							cd.check(t, m, fmt.Sprintf("zero-with-%s@%d", v.n, j), -1)
							m2 := gtOneEnc()
							copy(m2[32*j:], k32(v.v))
							cd.check(t, m2, fmt.Sprintf("one-with-%s@%d", v.n, j), -1)
						}
					}
				}
			})
		}
	}
}
