package c09

// Operand integrity and encoder routes.
//  * Every exported operation that takes group elements as INPUT must leave them semantically unchanged: the canonical
//    encoding of each input (taken from a clone before the call) equals its encoding after the call. Inputs are
//    offered in every representation the API produces (fresh ScalarBaseMult / ScalarMult / Add / Neg results, which
//    are still projective, and decoded = affine elements).
//  * Every encoder of a FRESH (not yet normalised) result must produce the canonical bytes: the compressed form decodes
//    back to the element, MarshalUncompressed = 04 || Marshal, and encoding must not change what later encoders emit.

import (
	"fmt"
	"math/big"

	vh "github.com/emmansun/gmsm/verifhook"

	"verif/engine"
)

type g1src struct {
	name string
	mk   func() *vh.G1
}
type g2src struct {
	name string
	mk   func() *vh.G2
}

func g1Sources() []g1src {
	a, b := chain("integrity-a"), chain("integrity-b")
	return []g1src{
		{"basemult", func() *vh.G1 { return g1Base(a) }},
		{"mult", func() *vh.G1 { r, _ := new(vh.G1).ScalarMult(g1Base(a), k32(b)); return r }},
		{"add", func() *vh.G1 { return new(vh.G1).Add(g1Base(a), g1Base(b)) }},
		{"double", func() *vh.G1 { return new(vh.G1).Double(g1Base(a)) }},
		{"neg", func() *vh.G1 { return new(vh.G1).Neg(g1Base(a)) }},
		{"decoded", func() *vh.G1 { r := new(vh.G1); r.Unmarshal(g1Base(a).Marshal()); return r }},
		{"generator", func() *vh.G1 { return new(vh.G1).Set(vh.Gen1) }},
	}
}

func g2Sources() []g2src {
	a, b := chain("integrity-a"), chain("integrity-b")
	return []g2src{
		{"basemult", func() *vh.G2 { return g2Base(a) }},
		{"mult", func() *vh.G2 { r, _ := new(vh.G2).ScalarMult(g2Base(a), k32(b)); return r }},
		{"add", func() *vh.G2 { return new(vh.G2).Add(g2Base(a), g2Base(b)) }},
		{"neg", func() *vh.G2 { return new(vh.G2).Neg(g2Base(a)) }},
		{"decoded", func() *vh.G2 { r := new(vh.G2); r.Unmarshal(g2Base(a).Marshal()); return r }},
		{"generator", func() *vh.G2 { return new(vh.G2).Set(vh.Gen2) }},
	}
}

func encG1(p *vh.G1) []byte { return new(vh.G1).Set(p).Marshal() }
func encG2(p *vh.G2) []byte { return new(vh.G2).Set(p).Marshal() }
func encGT(p *vh.GT) []byte { return new(vh.GT).Set(p).Marshal() }

func runIntegrity(c *engine.Ctx) {
	k := chain("integrity-k")
	c.Case("integrity/g1", func(t *engine.T) {
		for _, s := range g1Sources() {
			want := encG1(s.mk()) // canonical value of this source (sources are deterministic)
			ops := []struct {
				name string
				f    func(x *vh.G1)
			}{
				{"Add(x,y)", func(x *vh.G1) { new(vh.G1).Add(x, g1Base(k)) }},
				{"Add(y,x)", func(x *vh.G1) { new(vh.G1).Add(g1Base(k), x) }},
				{"Double(x)", func(x *vh.G1) { new(vh.G1).Double(x) }},
				{"Neg(x)", func(x *vh.G1) { new(vh.G1).Neg(x) }},
				{"ScalarMult(x,k)", func(x *vh.G1) { new(vh.G1).ScalarMult(x, k32(k)) }},
				{"Set(x)", func(x *vh.G1) { new(vh.G1).Set(x) }},
				{"Equal(x,y)", func(x *vh.G1) { x.Equal(g1Base(k)) }},
				{"IsOnCurve()", func(x *vh.G1) { x.IsOnCurve() }},
				{"Marshal()", func(x *vh.G1) { x.Marshal() }},
				{"MarshalUncompressed()", func(x *vh.G1) { x.MarshalUncompressed() }},
				{"MarshalCompressed()", func(x *vh.G1) { x.MarshalCompressed() }},
				{"String()", func(x *vh.G1) { _ = x.String() }},
				{"Pair(x,Q)", func(x *vh.G1) { vh.Pair(x, vh.Gen2) }},
				{"Miller(x,Q)", func(x *vh.G1) { vh.Miller(x, vh.Gen2) }},
			}
			for _, op := range ops {
				x := s.mk()
				if t.Guard("integrity/g1/"+op.name, func() { op.f(x) }) {
					continue
				}
				eq(t, "integrity/g1/input-modified/"+op.name, encG1(x), want, "G1 input (%s) after %s", s.name, op.name)
			}
			// encoder routes on a fresh element
			x := s.mk()
			comp := x.MarshalCompressed()
			back := new(vh.G1)
			if _, err := back.UnmarshalCompressed(comp); err != nil {
				t.Fail("encode/g1/compressed-of-fresh-result-does-not-decode", "source %s: %v (%x)", s.name, err, comp)
			} else {
				eq(t, "encode/g1/compressed-of-fresh-result-wrong", back.Marshal(), want, "UnmarshalCompressed(MarshalCompressed(x)), x from %s", s.name)
			}
			eq(t, "encode/g1/marshal-after-compressed", x.Marshal(), want, "Marshal() after MarshalCompressed(), x from %s", s.name)
			y := s.mk()
			eq(t, "encode/g1/uncompressed", y.MarshalUncompressed(), append([]byte{4}, want...), "MarshalUncompressed() of a fresh %s result", s.name)
			t.Nontrivial("integrity/g1/" + s.name)
		}
	})
	c.Case("integrity/g2", func(t *engine.T) {
		for _, s := range g2Sources() {
			want := encG2(s.mk())
			ops := []struct {
				name string
				f    func(x *vh.G2)
			}{
				{"Add(x,y)", func(x *vh.G2) { new(vh.G2).Add(x, g2Base(k)) }},
				{"Add(y,x)", func(x *vh.G2) { new(vh.G2).Add(g2Base(k), x) }},
				{"Neg(x)", func(x *vh.G2) { new(vh.G2).Neg(x) }},
				{"ScalarMult(x,k)", func(x *vh.G2) { new(vh.G2).ScalarMult(x, k32(k)) }},
				{"Set(x)", func(x *vh.G2) { new(vh.G2).Set(x) }},
				{"Equal(x,y)", func(x *vh.G2) { x.Equal(g2Base(k)) }},
				{"IsOnCurve()", func(x *vh.G2) { x.IsOnCurve() }},
				{"Marshal()", func(x *vh.G2) { x.Marshal() }},
				{"MarshalUncompressed()", func(x *vh.G2) { x.MarshalUncompressed() }},
				{"MarshalCompressed()", func(x *vh.G2) { x.MarshalCompressed() }},
				{"String()", func(x *vh.G2) { _ = x.String() }},
				{"Pair(P,x)", func(x *vh.G2) { vh.Pair(vh.Gen1, x) }},
				{"Miller(P,x)", func(x *vh.G2) { vh.Miller(vh.Gen1, x) }},
			}
			for _, op := range ops {
				x := s.mk()
				if t.Guard("integrity/g2/"+op.name, func() { op.f(x) }) {
					continue
				}
				eq(t, "integrity/g2/input-modified/"+op.name, encG2(x), want, "G2 input (%s) after %s", s.name, op.name)
			}
			x := s.mk()
			comp := x.MarshalCompressed()
			back := new(vh.G2)
			if _, err := back.UnmarshalCompressed(comp); err != nil {
				t.Fail("encode/g2/compressed-of-fresh-result-does-not-decode", "source %s: %v (%x)", s.name, err, comp)
			} else {
				eq(t, "encode/g2/compressed-of-fresh-result-wrong", back.Marshal(), want, "UnmarshalCompressed(MarshalCompressed(x)), x from %s", s.name)
			}
			eq(t, "encode/g2/marshal-after-compressed", x.Marshal(), want, "Marshal() after MarshalCompressed(), x from %s", s.name)
			y := s.mk()
			eq(t, "encode/g2/uncompressed", y.MarshalUncompressed(), append([]byte{4}, want...), "MarshalUncompressed() of a fresh %s result", s.name)
			// the pairing of a fresh result equals the pairing of its decoded form
			z := s.mk()
			dec := new(vh.G2)
			dec.Unmarshal(want)
			eq(t, "integrity/g2/pair-of-fresh-vs-decoded", vh.Pair(vh.Gen1, z).Marshal(), vh.Pair(vh.Gen1, dec).Marshal(), "e(P1, x) with x fresh from %s vs decoded", s.name)
			t.Nontrivial("integrity/g2/" + s.name)
		}
	})
	c.Case("integrity/gt", func(t *engine.T) {
		srcs := []struct {
			name string
			mk   func() *vh.GT
		}{
			{"pair", func() *vh.GT { return vh.Pair(vh.Gen1, vh.Gen2) }},
			{"pow", func() *vh.GT { return new(vh.GT).ScalarMult(vh.Pair(vh.Gen1, vh.Gen2), k) }},
			{"product", func() *vh.GT {
				g := vh.Pair(vh.Gen1, vh.Gen2)
				return new(vh.GT).Add(g, new(vh.GT).ScalarMult(g, big.NewInt(5)))
			}},
			{"decoded", func() *vh.GT { r := new(vh.GT); r.Unmarshal(vh.Pair(vh.Gen1, vh.Gen2).Marshal()); return r }},
		}
		for _, s := range srcs {
			want := encGT(s.mk())
			ops := []struct {
				name string
				f    func(x *vh.GT)
			}{
				{"Add(x,y)", func(x *vh.GT) { new(vh.GT).Add(x, gtGen()) }},
				{"Add(y,x)", func(x *vh.GT) { new(vh.GT).Add(gtGen(), x) }},
				{"ScalarMult(x,k)", func(x *vh.GT) { new(vh.GT).ScalarMult(x, k) }},
				{"ScalarMultGT(x,k)", func(x *vh.GT) { vh.ScalarMultGT(x, k32(k)) }},
				{"GenerateGTFieldTable(x)", func(x *vh.GT) { vh.GenerateGTFieldTable(x) }},
				{"GenerateGTFieldTable(x)+ScalarBaseMultGT", func(x *vh.GT) { vh.ScalarBaseMultGT(vh.GenerateGTFieldTable(x), k32(k)) }},
				{"Set(x)", func(x *vh.GT) { new(vh.GT).Set(x) }},
				{"Marshal()", func(x *vh.GT) { x.Marshal() }},
				{"String()", func(x *vh.GT) { _ = fmt.Sprint(x) }},
			}
			for _, op := range ops {
				x := s.mk()
				if t.Guard("integrity/gt/"+op.name, func() { op.f(x) }) {
					continue
				}
				eq(t, "integrity/gt/input-modified/"+op.name, encGT(x), want, "GT input (%s) after %s", s.name, op.name)
			}
			// the table built from x must drive ScalarBaseMultGT to x^k
			x := s.mk()
			tab := vh.GenerateGTFieldTable(x)
			got, err := vh.ScalarBaseMultGT(tab, k32(k))
			if err != nil {
				t.Fail("integrity/gt/table-error", "%v", err)
			} else {
				eq(t, "integrity/gt/table-of-source", got.Marshal(), new(vh.GT).ScalarMult(s.mk(), k).Marshal(), "ScalarBaseMultGT(table(x), k) vs x^k, x from %s", s.name)
			}
			t.Nontrivial("integrity/gt/" + s.name)
		}
	})
}
