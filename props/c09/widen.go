package c09

// Widening by checklist (DESIGN.md §11.4 / §11.5). Families added here and in widen_*.go:
//
//	scalar-shape/   every byte length of the variable-length scalar arguments (G1/G2.ScalarMult, ScalarMultGT), nil vs
//	                empty, leading-zero and >= 2^256 contents; big.Int exponents beyond 2^256; NormalizeScalar; every
//	                scalar argument in every capacity class / record layout (guard page, dirty spare bytes, another live
//	                argument directly behind it); arguments unchanged afterwards
//	random/         RandomG1 / RandomG2 / RandomGT under scripted readers (retry on 0 and on >= n, leading zero bytes,
//	                reader faults)
//	own/            results belong to the caller, arguments stay the caller's (widen_own.go)
//	alias/          every destination/operand aliasing pattern (widen_own.go)
//	history/        every ordered pair of destination-writing operations on one receiver (widen_history.go)
//	special/        G1 points with boundary coordinates and boundary Montgomery limbs (widen_special.go)
//	field/          F_p^12 elements with boundary coordinates against a reference tower (widen_field.go)

import (
	"bytes"
	"fmt"
	"io"
	"math/big"

	vh "github.com/emmansun/gmsm/verifhook"

	"verif/engine"
	"verif/ref/sm3ref"
	"verif/ref/sm9ref"
)

func runWiden(c *engine.Ctx) {
	runScalarShape(c)
	runRandomEntry(c)
	runOwnership(c)
	runAliasing(c)
	runHistory(c)
	runSpecialG1(c)
	runSpecialG2(c)
	runFieldGT(c)
}

// ---------------------------------------------------------------------------------------------
// expected canonical encodings of [k]P1, [k]P2, e(P1,P2)^k (k reduced mod n first); cached per worker process.
// G1: affine big-integer reference on y² = x³ + 5. G2: affine chord-and-tangent reference on the twist over F_p² (sm9ref).
// GT: the library's generic square-and-multiply route (pinned to the reference tower by the field/member family).

var (
	expG1c = map[string][]byte{}
	expG2c = map[string][]byte{}
	expGTc = map[string][]byte{}
)

func expG1(k *big.Int) []byte {
	kr := modN(k)
	s := kr.Text(16)
	if v, ok := expG1c[s]; ok {
		return v
	}
	v := encRef(curve.BaseMul(kr))
	expG1c[s] = v
	return v
}

func expG2(k *big.Int) []byte {
	kr := modN(k)
	s := kr.Text(16)
	if v, ok := expG2c[s]; ok {
		return v
	}
	v := sm9ref.TwistMul(kr, sm9ref.G2Gen()).Bytes()
	expG2c[s] = v
	return v
}

func expGT(k *big.Int) []byte {
	kr := modN(k)
	s := kr.Text(16)
	if v, ok := expGTc[s]; ok {
		return v
	}
	v := new(vh.GT).ScalarMult(gtGen(), kr).Marshal()
	expGTc[s] = v
	return v
}

// chainBytes returns n deterministic bytes derived from a label (SM3 in counter mode).
func chainBytes(label string, n int) []byte {
	var out []byte
	for i := 0; len(out) < n; i++ {
		d := sm3ref.Sum([]byte(fmt.Sprintf("verif/c09/bytes/%s/%d", label, i)))
		out = append(out, d[:]...)
	}
	return out[:n]
}

// ---------------------------------------------------------------------------------------------
// capacity classes / record layouts of one byte-slice argument

type laid struct {
	name  string
	s     []byte // the argument handed to the library
	whole []byte // everything the harness owns around it (prefix, the argument, spare capacity, the neighbour)
	snap  []byte
}

func (l *laid) intact() bool { return bytes.Equal(l.whole, l.snap) }

func dirty(b []byte, seed byte) {
	for i := range b {
		b[i] = seed ^ byte(i*29+1) | 1 // never zero
	}
}

// layoutsOf returns arg in every capacity class: exact fit, ending at a PROT_NONE page, one dirty spare byte, ample dirty
// spare capacity, and as the middle field of a record prefix‖arg‖neighbour‖slack whose capacity reaches the end of the record
// (odd start offset). For an empty argument also the nil slice.
func layoutsOf(pool *engine.Pool, arg []byte) []*laid {
	L := len(arg)
	var out []*laid
	add := func(name string, whole []byte, lo int, threeIndex bool) {
		copy(whole[lo:], arg)
		s := whole[lo : lo+L]
		if threeIndex {
			s = whole[lo : lo+L : lo+L]
		}
		out = append(out, &laid{name: name, s: s, whole: whole, snap: append([]byte{}, whole...)})
	}
	add("exact", make([]byte, L), 0, true)
	add("guard-end", pool.Get(L), 0, false)
	b := make([]byte, L+1)
	dirty(b, 0xA5)
	add("spare1-dirty", b, 0, false)
	b = make([]byte, L+256)
	dirty(b, 0x5B)
	add("ample-dirty", b, 0, false)
	b = make([]byte, 7+L+32+64)
	dirty(b, 0xC3)
	add("record", b, 7, false)
	if L == 0 {
		out = append(out, &laid{name: "nil", s: nil})
	}
	return out
}

// scalarContents lists the content classes of an L-byte scalar.
func scalarContents(L int) []struct {
	name string
	b    []byte
} {
	type sc = struct {
		name string
		b    []byte
	}
	if L == 0 {
		return []sc{{"empty", []byte{}}}
	}
	z := make([]byte, L)
	o := make([]byte, L)
	o[L-1] = 1
	f := bytes.Repeat([]byte{0xff}, L)
	ch := chainBytes("scalar", L)
	ch[0] |= 0x80
	top := make([]byte, L)
	top[0] = 0x80
	out := []sc{{"zero", z}, {"one", o}, {"ff", f}, {"chain", ch}, {"top-bit", top}}
	if L >= 3 {
		lz := chainBytes("scalar-lz", L)
		lz[0], lz[1] = 0, 0
		out = append(out, sc{"leading-zeros", lz})
	}
	if L > 32 {
		// n and n-1 left-padded: the reduction boundary in a non-minimal encoding
		pn := make([]byte, L)
		nOrd.FillBytes(pn)
		out = append(out, sc{"padded-n", pn})
		pm := make([]byte, L)
		new(big.Int).Sub(nOrd, one).FillBytes(pm)
		out = append(out, sc{"padded-n-1", pm})
	}
	return out
}

func scalarLengths(quick bool) []int {
	var ls []int
	for l := 0; l <= 34; l++ {
		ls = append(ls, l)
	}
	if quick {
		return append(ls, 40, 47, 48, 63, 64, 65)
	}
	for l := 35; l <= 72; l++ {
		ls = append(ls, l)
	}
	return append(ls, 96, 127, 128, 129)
}

// ---------------------------------------------------------------------------------------------
// scalar-shape

func runScalarShape(c *engine.Ctx) {
	lens := scalarLengths(c.Quick())
	c3 := chain("base3")
	const per = 6
	for lo := 0; lo < len(lens); lo += per {
		hi := lo + per
		if hi > len(lens) {
			hi = len(lens)
		}
		part := lens[lo:hi]
		name := fmt.Sprintf("len%d..%d", part[0], part[len(part)-1])
		// the variable-length scalar of ScalarMult: value = the big-endian integer, any length (the loop is per byte)
		c.Case("widen/scalar-shape/g1/"+name, func(t *engine.T) {
			var pool engine.Pool
			defer pool.Release()
			p3 := g1Base(c3)
			for _, L := range part {
				for _, ct := range scalarContents(L) {
					v := new(big.Int).SetBytes(ct.b)
					want1 := expG1(v)
					want3 := expG1(new(big.Int).Mul(c3, v))
					for _, l := range layoutsOf(&pool, ct.b) {
						for bi, base := range []*vh.G1{vh.Gen1, p3} {
							want := want1
							if bi == 1 {
								want = want3
							}
							r, err := new(vh.G1).ScalarMult(base, l.s)
							t.Eval(1)
							scalarVerdict(t, "g1", "ScalarMult", L, ct.name, l, err, func() []byte { return r.Marshal() }, want)
						}
					}
					t.Nontrivial(fmt.Sprintf("scalar-shape/g1/%d/%s", L, ct.name))
				}
				if !pool.Release() {
					t.Fail("scalar-shape/g1/write-before-argument", "canary in front of a guarded scalar was overwritten (len %d)", L)
				}
			}
		})
		c.Case("widen/scalar-shape/g2/"+name, func(t *engine.T) {
			var pool engine.Pool
			defer pool.Release()
			q3 := g2Base(c3)
			for _, L := range part {
				for _, ct := range scalarContents(L) {
					v := new(big.Int).SetBytes(ct.b)
					want1 := expG2(v)
					want3 := expG2(new(big.Int).Mul(c3, v))
					for _, l := range layoutsOf(&pool, ct.b) {
						for bi, base := range []*vh.G2{vh.Gen2, q3} {
							want := want1
							if bi == 1 {
								want = want3
							}
							r, err := new(vh.G2).ScalarMult(base, l.s)
							t.Eval(1)
							scalarVerdict(t, "g2", "ScalarMult", L, ct.name, l, err, func() []byte { return r.Marshal() }, want)
						}
					}
					t.Nontrivial(fmt.Sprintf("scalar-shape/g2/%d/%s", L, ct.name))
				}
				pool.Release()
			}
		})
		c.Case("widen/scalar-shape/gt/"+name, func(t *engine.T) {
			var pool engine.Pool
			defer pool.Release()
			g := gtGen()
			for _, L := range part {
				for _, ct := range scalarContents(L) {
					v := new(big.Int).SetBytes(ct.b)
					want := expGT(v)
					for _, l := range layoutsOf(&pool, ct.b) {
						if t.Quick() && L != 32 && L != 0 && l.name != "exact" && l.name != "record" && ct.name != "chain" {
							continue // quick: every layout for the chain content, every content for two layouts
						}
						r, err := vh.ScalarMultGT(g, l.s)
						t.Eval(1)
						scalarVerdict(t, "gt", "ScalarMultGT", L, ct.name, l, err, func() []byte { return r.Marshal() }, want)
					}
					t.Nontrivial(fmt.Sprintf("scalar-shape/gt/%d/%s", L, ct.name))
				}
				pool.Release()
			}
		})
	}

	// fixed-length entry points: every layout of the 32-byte scalar; every other length must be refused
	c.Case("widen/scalar-shape/base-mult", func(t *engine.T) {
		var pool engine.Pool
		defer pool.Release()
		for _, ct := range scalarContents(32) {
			v := new(big.Int).SetBytes(ct.b)
			for _, l := range layoutsOf(&pool, ct.b) {
				r1, err := new(vh.G1).ScalarBaseMult(l.s)
				scalarVerdict(t, "g1", "ScalarBaseMult", 32, ct.name, l, err, func() []byte { return r1.Marshal() }, expG1(v))
				r2, err := new(vh.G2).ScalarBaseMult(l.s)
				scalarVerdict(t, "g2", "ScalarBaseMult", 32, ct.name, l, err, func() []byte { return r2.Marshal() }, expG2(v))
				r3, err := vh.ScalarBaseMultGT(gtTable(), l.s)
				scalarVerdict(t, "gt", "ScalarBaseMultGT", 32, ct.name, l, err, func() []byte { return r3.Marshal() }, expGT(v))
				t.Eval(3)
			}
			t.Nontrivial("scalar-shape/base-mult/" + ct.name)
		}
		for L := 0; L <= 72; L++ {
			if L == 32 {
				continue
			}
			for _, ct := range scalarContents(L) {
				for _, l := range layoutsOf(&pool, ct.b) {
					if _, err := new(vh.G1).ScalarBaseMult(l.s); err == nil {
						t.Fail("g1/scalar-base-mult/length-not-rejected", "ScalarBaseMult accepts a %d-byte scalar (%s, %s)", L, ct.name, l.name)
					}
					if _, err := new(vh.G2).ScalarBaseMult(l.s); err == nil {
						t.Fail("g2/scalar-base-mult/length-not-rejected", "ScalarBaseMult accepts a %d-byte scalar (%s, %s)", L, ct.name, l.name)
					}
					if _, err := vh.ScalarBaseMultGT(gtTable(), l.s); err == nil {
						t.Fail("gt/ScalarBaseMultGT/length-not-rejected", "ScalarBaseMultGT accepts a %d-byte scalar (%s, %s)", L, ct.name, l.name)
					}
					t.Eval(3)
					if l.whole != nil && !l.intact() {
						t.Fail("scalar-shape/argument-modified/ScalarBaseMult", "refused %d-byte scalar (%s) was modified", L, l.name)
					}
				}
			}
			pool.Release()
		}
		t.Outcome("scalar-shape/base-mult/ok")
	})

	// big.Int exponents of GT.ScalarMult / GT.ScalarBaseMult beyond 2^256 (the API admits any non-negative integer)
	c.Case("widen/scalar-shape/gt-bigint", func(t *engine.T) {
		g := gtGen()
		a := chain("gt-bigint-a")
		A := new(vh.GT).ScalarMult(g, a)
		n2 := new(big.Int).Mul(nOrd, nOrd)
		ks := []*big.Int{
			new(big.Int).Set(two256), new(big.Int).Add(two256, one), new(big.Int).Lsh(one, 257), new(big.Int).Lsh(one, 300),
			new(big.Int).Sub(new(big.Int).Lsh(one, 512), one), n2, new(big.Int).Add(n2, one), new(big.Int).Sub(n2, one),
			new(big.Int).Lsh(nOrd, 64), new(big.Int).Add(new(big.Int).Lsh(nOrd, 64), big.NewInt(3)),
			new(big.Int).Mul(chain("gt-bigint-b"), two256),
		}
		for _, k := range ks {
			kc := new(big.Int).Set(k)
			eq(t, "scalar-shape/gt/bigint>2^256/ScalarBaseMult", new(vh.GT).ScalarBaseMult(k).Marshal(), expGT(kc), "GT.ScalarBaseMult(%x) vs exponent mod n", kc)
			eq(t, "scalar-shape/gt/bigint>2^256/ScalarMult", new(vh.GT).ScalarMult(g, k).Marshal(), expGT(kc), "GT.ScalarMult(g,%x) vs exponent mod n", kc)
			eq(t, "scalar-shape/gt/bigint>2^256/ScalarMult", new(vh.GT).ScalarMult(A, k).Marshal(), expGT(new(big.Int).Mul(a, kc)), "GT.ScalarMult(g^a,%x) vs exponent mod n", kc)
			if k.Cmp(kc) != 0 {
				t.Fail("own/bigint-argument-modified/GT.ScalarMult", "exponent %x became %x", kc, k)
			}
			t.Nontrivial("scalar-shape/gt-bigint/" + kc.Text(16))
		}
		t.Outcome("scalar-shape/gt-bigint/ok")
	})

	c.Case("widen/scalar-shape/normalize", func(t *engine.T) {
		var pool engine.Pool
		defer pool.Release()
		for L := 0; L <= 72; L++ {
			for _, ct := range scalarContents(L) {
				v := new(big.Int).SetBytes(ct.b)
				for _, l := range layoutsOf(&pool, ct.b) {
					var out []byte
					if t.Guard("scalar-shape/normalize", func() { out = vh.NormalizeScalar(l.s) }) {
						continue
					}
					t.Eval(1)
					if len(out) != 32 {
						t.Fail("scalar-shape/normalize/length", "NormalizeScalar(%d bytes, %s) returns %d bytes; ScalarBaseMult needs 32", L, ct.name, len(out))
						continue
					}
					if modN(new(big.Int).SetBytes(out)).Cmp(modN(v)) != 0 {
						t.Fail("scalar-shape/normalize/value", "NormalizeScalar(%x) = %x: not the same scalar modulo n", ct.b, out)
					}
					if l.whole != nil && !l.intact() {
						t.Fail("scalar-shape/normalize/argument-modified", "NormalizeScalar(%d bytes, %s, layout %s) wrote to the caller's array at offset %d", L, ct.name, l.name, engine.FirstDiff(l.whole, l.snap))
					}
					if l.name == "exact" || l.name == "record" {
						r, err := new(vh.G1).ScalarBaseMult(out)
						if err != nil {
							t.Fail("scalar-shape/normalize/not-usable", "ScalarBaseMult(NormalizeScalar(%x)): %v", ct.b, err)
						} else {
							eq(t, "scalar-shape/normalize/group-value", r.Marshal(), expG1(v), "[NormalizeScalar(%x)]P1 vs [v mod n]P1", ct.b)
						}
					}
				}
				t.Nontrivial(fmt.Sprintf("scalar-shape/normalize/%d/%s", L, ct.name))
			}
			pool.Release()
		}
		t.Outcome("scalar-shape/normalize/ok")
	})
}

// scalarVerdict applies the oracle of one scalar call: G1/G2.ScalarMult must accept lengths 1..32, every entry point must
// accept 32 bytes; other lengths may be refused, but an accepted call must return [int(scalar) mod n]base; the argument
// and everything around it in the caller's array is unchanged.
func scalarVerdict(t *engine.T, grp, op string, L int, content string, l *laid, err error, enc func() []byte, want []byte) {
	mustLo := 1 // G1/G2.ScalarMult: the original families already require shorter-than-32-byte scalars to work
	if op == "ScalarMultGT" || op == "ScalarBaseMult" || op == "ScalarBaseMultGT" {
		mustLo = 32 // only the 32-byte form is required; other lengths may be refused
	}
	if l.whole != nil && !l.intact() {
		t.Fail("scalar-shape/argument-modified/"+op, "%s %s: %d-byte scalar (%s) in layout %s: caller's array modified at offset %d", grp, op, L, content, l.name, engine.FirstDiff(l.whole, l.snap))
		copy(l.whole, l.snap)
	}
	cls := "len<=32"
	switch {
	case L == 0:
		cls = "empty"
	case L > 32:
		cls = "len>32"
	}
	if err != nil {
		t.Outcome("scalar-shape/" + grp + "/" + op + "/error/" + cls)
		if L >= mustLo && L <= 32 {
			t.Fail("scalar-shape/"+grp+"/"+op+"/error", "%d-byte scalar (%s, layout %s): %v", L, content, l.name, err)
		}
		return
	}
	t.Outcome("scalar-shape/" + grp + "/" + op + "/ok/" + cls)
	var got []byte
	if t.Guard("scalar-shape/"+grp+"/"+op, func() { got = enc() }) {
		return
	}
	if !bytes.Equal(got, want) {
		t.Fail("scalar-shape/"+grp+"/"+op+"/mismatch/"+cls, "%d-byte scalar (%s, layout %s) %x: got %s want %s", L, content, l.name, l.s, hx(got), hx(want))
	}
}

// ---------------------------------------------------------------------------------------------
// RandomG1 / RandomG2 / RandomGT ("x and g^x where x is a random, non-zero number read from r")

func runRandomEntry(c *engine.Ctx) {
	blk := func(v *big.Int) []byte { return k32(v) }
	lz := new(big.Int).SetBytes(chainBytes("random-lz", 29)) // three leading zero bytes
	lz1 := new(big.Int).SetBytes(chainBytes("random-lz1", 31))
	gen := chain("random-generic")
	max := new(big.Int).Sub(two256, one)
	nm1 := new(big.Int).Sub(nOrd, one)
	np1 := new(big.Int).Add(nOrd, one)
	streams := []struct {
		name   string
		blocks []*big.Int
	}{
		{"k=1", []*big.Int{one}},
		{"k=n-1", []*big.Int{nm1}},
		{"generic", []*big.Int{gen}},
		{"leading-zero-bytes", []*big.Int{lz}},
		{"leading-zero-byte", []*big.Int{lz1}},
		{"retry-after-0", []*big.Int{big.NewInt(0), big.NewInt(5)}},
		{"retry-after-n", []*big.Int{nOrd, big.NewInt(7)}},
		{"retry-after-n+1", []*big.Int{np1, nm1}},
		{"retry-chain", []*big.Int{max, nOrd, big.NewInt(0), big.NewInt(0), np1, big.NewInt(2)}},
		{"retry-then-leading-zeros", []*big.Int{big.NewInt(0), max, lz}},
		{"k=2^255", []*big.Int{new(big.Int).Lsh(one, 255)}},
		{"k=2^248-1", []*big.Int{new(big.Int).Sub(new(big.Int).Lsh(one, 248), one)}},
	}
	faults := []struct {
		name string
		f    map[int]int
	}{
		{"none", nil},
		{"err@0", map[int]int{0: engine.AnsErr}},
		{"eof@0", map[int]int{0: engine.AnsEOF}},
		{"short-eof@0", map[int]int{0: engine.AnsShortEOF}},
		{"short-nil@0", map[int]int{0: engine.AnsShortNil}},
		{"zero-nil@0", map[int]int{0: engine.AnsZeroNil}},
		{"err@1", map[int]int{1: engine.AnsErr}},
		{"short-eof@1", map[int]int{1: engine.AnsShortEOF}},
	}
	c.Case("widen/random/entry-points", func(t *engine.T) {
		type held struct {
			grp  string
			k    *big.Int
			kc   *big.Int
			enc  func() []byte
			want []byte
		}
		var kept []held
		for _, st := range streams {
			for _, ft := range faults {
				mk := func() io.Reader {
					var bs [][]byte
					for _, b := range st.blocks {
						bs = append(bs, blk(b))
					}
					r := engine.NewScriptReader(bs...)
					r.Fault = ft.f
					return r
				}
				verdict := func(grp string, k *big.Int, err error, enc func() []byte, want func(k *big.Int) []byte) {
					t.Eval(1)
					desc := fmt.Sprintf("Random%s(stream %s, fault %s)", grp, st.name, ft.name)
					if err != nil {
						t.Outcome("random/" + grp + "/error/" + ft.name)
						if ft.f == nil {
							t.Fail("random/"+grp+"/error-without-fault", "%s: %v", desc, err)
						}
						return
					}
					t.Outcome("random/" + grp + "/ok/" + ft.name)
					if k == nil || k.Sign() <= 0 || k.Cmp(nOrd) >= 0 {
						t.Fail("random/"+grp+"/scalar-out-of-range", "%s: returned scalar %v is not in [1, n-1]", desc, k)
						return
					}
					var got []byte
					if t.Guard("random/"+grp, func() { got = enc() }) {
						return
					}
					w := want(k)
					if !bytes.Equal(got, w) {
						t.Fail("random/"+grp+"/element-is-not-scalar-times-generator", "%s: k=%x element %s want %s", desc, k, hx(got), hx(w))
					}
					kept = append(kept, held{grp, k, new(big.Int).Set(k), enc, w})
				}
				k1, g1, err := vh.RandomG1(mk())
				verdict("G1", k1, err, func() []byte { return g1.Marshal() }, expG1)
				k2, g2, err := vh.RandomG2(mk())
				verdict("G2", k2, err, func() []byte { return g2.Marshal() }, expG2)
				k3, g3, err := vh.RandomGT(mk())
				verdict("GT", k3, err, func() []byte { return g3.Marshal() }, expGT)
				t.Nontrivial("random/" + st.name + "/" + ft.name)
			}
		}
		// results of earlier calls are not disturbed by later calls (fresh scalar and element objects every time)
		for _, h := range kept {
			if h.k.Cmp(h.kc) != 0 {
				t.Fail("random/"+h.grp+"/earlier-scalar-changed-by-later-call", "scalar %x became %x", h.kc, h.k)
			}
			if got := h.enc(); !bytes.Equal(got, h.want) {
				t.Fail("random/"+h.grp+"/earlier-element-changed-by-later-call", "element of k=%x re-encodes as %s", h.kc, hx(got))
			}
			t.Eval(1)
		}
	})
}
