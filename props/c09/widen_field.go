package c09

// field/ — GT against the reference tower F_p^12 = F_p^4[w]/(w^3-v), F_p^4 = F_p^2[v]/(v^2-u), F_p^2 = F_p[u]/(u^2+2)
// (verif/ref/sm9ref/tower.go, anchored by g^r = w of GM/T 0044.5 annex A).
//   * members: products and powers of e(P1,P2)^k through every route of the API (GT.Add, GT.ScalarMult, GT.ScalarBaseMult,
//     ScalarMultGT, ScalarBaseMultGT, Pair of multiples of the generators) equal the reference product / power computed
//     from the encoded bytes — an oracle that does not share any code with the library;
//   * boundary coordinates: GT.Unmarshal accepts every 12-tuple of coordinates below p and GT.Add is the multiplication
//     of the field, so elements are constructed coordinate-wise with boundary values in natural form (0, 1, p-1, 2^k ± 1)
//     and with boundary Montgomery limbs (each limb in {0, 1, 2^63, 2^64-1}) — one coordinate alone, one coordinate
//     of a generic element, one coordinate next to the identity, all coordinates — and the product of two DIFFERENT such
//     elements is compared with the reference product. Nothing else is demanded of non-members (no squaring, no
//     exponentiation: those may legitimately use formulas valid in the cyclotomic subgroup only).

import (
	"bytes"
	"fmt"
	"math/big"

	vh "github.com/emmansun/gmsm/verifhook"

	"verif/engine"
	"verif/ref/sm9ref"
)

func refMul(a, b []byte) []byte { return sm9ref.ParseFp12(a).Mul(sm9ref.ParseFp12(b)).Bytes() }
func refExp(a []byte, k *big.Int) []byte {
	return sm9ref.ParseFp12(a).Exp(k).Bytes()
}

func fieldCoordinateValues(quick bool) []struct {
	name string
	v    *big.Int
} {
	type cv = struct {
		name string
		v    *big.Int
	}
	var out []cv
	seen := map[string]bool{}
	add := func(name string, v *big.Int) {
		if v.Sign() < 0 || v.Cmp(pFld) >= 0 || seen[v.Text(16)] {
			return
		}
		seen[v.Text(16)] = true
		out = append(out, cv{name, new(big.Int).Set(v)})
	}
	add("0", big.NewInt(0))
	add("1", one)
	add("2", big.NewInt(2))
	add("p-1", new(big.Int).Sub(pFld, one))
	add("p-2", new(big.Int).Sub(pFld, big.NewInt(2)))
	add("(p-1)/2", new(big.Int).Rsh(pFld, 1))
	for _, k := range []uint{32, 63, 64, 128, 192, 255} {
		p2 := new(big.Int).Lsh(one, k)
		add(fmt.Sprintf("2^%d", k), p2)
		add(fmt.Sprintf("2^%d-1", k), new(big.Int).Sub(p2, one))
	}
	limbs := []uint64{0, 1, 1 << 63, ^uint64(0)}
	for _, l3 := range limbs {
		for _, l2 := range limbs {
			for _, l1 := range limbs {
				for _, l0 := range limbs {
					if quick && !(l3 == l2 && l1 == l0) && !(l3 == l0 && l2 == l1) && !(l2 == l1 && l1 == l0) {
						continue // quick: the patterns with at most two distinct limb runs
					}
					m := new(big.Int).SetUint64(l3)
					for _, l := range []uint64{l2, l1, l0} {
						m.Lsh(m, 64)
						m.Or(m, new(big.Int).SetUint64(l))
					}
					if m.Cmp(pFld) >= 0 {
						continue
					}
					v := new(big.Int).Mul(m, montRinv)
					add(fmt.Sprintf("mont=%016x:%016x:%016x:%016x", l3, l2, l1, l0), v.Mod(v, pFld))
				}
			}
		}
	}
	for _, d := range []int64{1, 2} {
		v := new(big.Int).Mul(new(big.Int).Sub(pFld, big.NewInt(d)), montRinv)
		add(fmt.Sprintf("mont=p-%d", d), v.Mod(v, pFld))
	}
	v := new(big.Int).Mul(new(big.Int).Sub(two256, pFld), montRinv)
	add("mont=2^256-p", v.Mod(v, pFld))
	return out
}

func runFieldGT(c *engine.Ctx) {
	// members: the library's GT against the reference tower
	ks := []*big.Int{big.NewInt(0), one, big.NewInt(2), big.NewInt(3), big.NewInt(15), big.NewInt(16), big.NewInt(17),
		new(big.Int).Sub(nOrd, one), new(big.Int).Set(nOrd), new(big.Int).Add(nOrd, one), new(big.Int).Lsh(one, 128), new(big.Int).Lsh(one, 255),
		new(big.Int).Sub(two256, one), chain("field-1"), chain("field-2"), chain("field-3")}
	if !c.Quick() {
		for i := 4; i < 20; i++ {
			ks = append(ks, chain(fmt.Sprintf("field-%d", i)))
		}
		for _, pos := range []uint{0, 4, 124, 128, 248, 252} {
			for w := int64(1); w <= 15; w++ {
				ks = append(ks, new(big.Int).Lsh(big.NewInt(w), pos))
			}
		}
	}
	const per = 4
	for lo := 0; lo < len(ks); lo += per {
		hi := lo + per
		if hi > len(ks) {
			hi = len(ks)
		}
		part := ks[lo:hi]
		c.Case(fmt.Sprintf("widen/field/member/%d..%d", lo, hi-1), func(t *engine.T) {
			ge := gtGen().Marshal()
			a := chain("field-a")
			Ae := refExp(ge, a)
			eq(t, "field/member/power", gtBase(a).Marshal(), Ae, "ScalarBaseMultGT(a) vs reference g^a")
			A := new(vh.GT)
			if _, err := A.Unmarshal(Ae); err != nil {
				t.Fail("field/member/reference-power-rejected", "GT.Unmarshal(reference g^a): %v", err)
				return
			}
			for _, k := range part {
				kr := modN(k)
				want := refExp(ge, kr)
				eq(t, "field/member/power", new(vh.GT).ScalarBaseMult(k).Marshal(), want, "GT.ScalarBaseMult(%x) vs reference g^(k mod n)", k)
				eq(t, "field/member/power", new(vh.GT).ScalarMult(gtGen(), k).Marshal(), want, "GT.ScalarMult(g,%x) vs reference", k)
				if r, err := vh.ScalarMultGT(gtGen(), k32(k)); err == nil {
					eq(t, "field/member/power", r.Marshal(), want, "ScalarMultGT(g,%x) vs reference", k)
				}
				eq(t, "field/member/power", gtBase(k).Marshal(), want, "ScalarBaseMultGT(%x) vs reference", k)
				eq(t, "field/member/pairing", vh.Pair(g1Base(k), vh.Gen2).Marshal(), want, "e([%x]P1,P2) vs reference g^(k mod n)", k)
				eq(t, "field/member/pairing", vh.Pair(vh.Gen1, g2Base(k)).Marshal(), want, "e(P1,[%x]P2) vs reference g^(k mod n)", k)
				// products and powers of a second member
				K := gtBase(k)
				eq(t, "field/member/product", new(vh.GT).Add(A, K).Marshal(), refMul(Ae, want), "g^a * g^%x vs reference product", k)
				eq(t, "field/member/product", new(vh.GT).Add(K, A).Marshal(), refMul(want, Ae), "g^%x * g^a vs reference product", k)
				eq(t, "field/member/product", new(vh.GT).Add(K, K).Marshal(), refMul(want, want), "g^%x squared (Add(x,x)) vs reference product", k)
				eq(t, "field/member/power", new(vh.GT).ScalarMult(A, k).Marshal(), refExp(Ae, kr), "GT.ScalarMult(g^a,%x) vs reference", k)
				if r, err := vh.ScalarMultGT(A, k32(k)); err == nil {
					eq(t, "field/member/power", r.Marshal(), refExp(Ae, kr), "ScalarMultGT(g^a,%x) vs reference", k)
				}
				t.Nontrivial("field/member/" + k.Text(16))
			}
			t.Outcome("field/member/ok")
		})
	}

	// boundary coordinates
	vals := fieldCoordinateValues(c.Quick())
	const perV = 12
	for lo := 0; lo < len(vals); lo += perV {
		hi := lo + perV
		if hi > len(vals) {
			hi = len(vals)
		}
		part := vals[lo:hi]
		c.Case(fmt.Sprintf("widen/field/coordinates/%d..%d", lo, hi-1), func(t *engine.T) {
			generic := chainBytes("field-generic", 384)
			for j := 0; j < 12; j++ {
				v := new(big.Int).SetBytes(generic[32*j : 32*j+32])
				copy(generic[32*j:], k32(v.Mod(v, pFld)))
			}
			member := expGT(chain("field-a"))
			G := new(vh.GT)
			if _, err := G.Unmarshal(generic); err != nil {
				t.Outcome("field/non-member-rejected")
				return // non-members may be refused: nothing to check
			}
			M := new(vh.GT)
			M.Unmarshal(member)
			for _, cv := range part {
				var elems []struct {
					name string
					enc  []byte
				}
				add := func(name string, enc []byte) {
					elems = append(elems, struct {
						name string
						enc  []byte
					}{name, enc})
				}
				all := make([]byte, 384)
				for j := 0; j < 12; j++ {
					copy(all[32*j:], k32(cv.v))
					single := make([]byte, 384)
					copy(single[32*j:], k32(cv.v))
					add(fmt.Sprintf("only-coordinate-%d", j), single)
					inG := append([]byte{}, generic...)
					copy(inG[32*j:], k32(cv.v))
					add(fmt.Sprintf("generic-with-coordinate-%d", j), inG)
					if j < 11 {
						// a neighbour of the identity: 1 with one further coordinate set
						inOne := gtOneEnc()
						copy(inOne[32*j:], k32(cv.v))
						add(fmt.Sprintf("one-with-coordinate-%d", j), inOne)
					}
				}
				add("all-coordinates", all)
				for _, el := range elems {
					X := new(vh.GT)
					if _, err := X.Unmarshal(el.enc); err != nil {
						t.Outcome("field/non-member-rejected")
						continue
					}
					t.Eval(1)
					if got := X.Marshal(); !bytes.Equal(got, el.enc) {
						t.Fail("gt/unmarshal/reencode-mismatch/in-range", "coordinate value %s, %s: re-encoding differs at byte %d", cv.name, el.name, engine.FirstDiff(got, el.enc))
						continue
					}
					eq(t, "field/coordinates/product", new(vh.GT).Add(X, G).Marshal(), refMul(el.enc, generic), "x*y vs reference product; x: %s = %s, y generic", el.name, cv.name)
					eq(t, "field/coordinates/product", new(vh.GT).Add(G, X).Marshal(), refMul(generic, el.enc), "y*x vs reference product; x: %s = %s, y generic", el.name, cv.name)
					eq(t, "field/coordinates/product", new(vh.GT).Add(X, M).Marshal(), refMul(el.enc, member), "x*m vs reference product; x: %s = %s, m a member of GT", el.name, cv.name)
					eq(t, "field/coordinates/product", new(vh.GT).Add(M, X).Marshal(), refMul(member, el.enc), "m*x vs reference product; x: %s = %s", el.name, cv.name)
					// aliased destination
					d := new(vh.GT).Set(X)
					d.Add(d, G)
					eq(t, "field/coordinates/product-aliased", d.Marshal(), refMul(el.enc, generic), "x.Add(x,y); x: %s = %s", el.name, cv.name)
					eq(t, "field/coordinates/operand-modified", X.Marshal(), el.enc, "x after products; x: %s = %s", el.name, cv.name)
				}
				t.Nontrivial("field/coordinates/" + cv.name)
			}
			t.Outcome("field/coordinates/ok")
		})
	}
}
