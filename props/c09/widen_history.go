package c09

// history/ — call history on one receiver. Every exported method that writes its receiver (group operations, Set, the
// decoders incl. their failing paths), every method that uses the receiver as an operand of itself, and every reading
// method that normalises the receiver in place are operations of an alphabet; every ordered pair (thorough: triple) of
// them is executed on one object that starts as the zero value, and the value the object then holds is compared with the
// reference through several observers (canonical encoding, compressed encoding, on-curve predicate, the pairing / a
// windowed exponentiation). A failing decode leaves an unspecified value: afterwards only operations that do not read the
// receiver are enumerated, and they must give the right answer.

import (
	"bytes"
	"math/big"

	vh "github.com/emmansun/gmsm/verifhook"

	"verif/engine"
)

type hop[E any] struct {
	name  string
	needs bool // reads the receiver's current value
	// do runs the operation; cur is the scalar of the value the receiver holds (nil = unspecified). It returns the scalar
	// of the value the receiver must hold afterwards (nil = unspecified) and a description of an unexpected answer.
	do func(e E, cur *big.Int) (next *big.Int, problem string)
}

func histEnumerate[E any](t *engine.T, grp string, fresh func() E, ops []hop[E], first, depth int, observe func(e E, k *big.Int, last, desc string)) {
	var seqs [][]int
	for o2 := range ops {
		seqs = append(seqs, []int{first, o2})
		if depth >= 3 {
			for o3 := range ops {
				seqs = append(seqs, []int{first, o2, o3})
			}
		}
	}
	for _, sq := range seqs {
		e := fresh()
		var cur *big.Int
		desc := ""
		ok := true
		for i, oi := range sq {
			op := ops[oi]
			if op.needs && cur == nil {
				ok = false
				break
			}
			if i > 0 {
				desc += " ; "
			}
			desc += op.name
			var prob string
			if t.Guard("history/"+grp+"/"+op.name, func() { cur, prob = op.do(e, cur) }) {
				ok = false
				break
			}
			t.Eval(1)
			if prob != "" {
				t.Fail("history/"+grp+"/"+op.name+"/unexpected-answer", "%s: %s", desc, prob)
				ok = false
				break
			}
		}
		if !ok || cur == nil {
			continue
		}
		observe(e, cur, ops[sq[len(sq)-1]].name, desc)
		t.Nontrivial("history/" + grp + "/" + desc)
	}
}

func errStr(err error) string {
	if err == nil {
		return "<nil>"
	}
	return err.Error()
}

func wantOK(what string, err error) string {
	if err != nil {
		return what + " refused: " + err.Error()
	}
	return ""
}
func wantErr(what string, err error) string {
	if err == nil {
		return what + " accepted"
	}
	return ""
}

func addN(a, b *big.Int) *big.Int { return modN(new(big.Int).Add(a, b)) }
func mulN(a, b *big.Int) *big.Int { return modN(new(big.Int).Mul(a, b)) }

func g1HistoryOps() []hop[*vh.G1] {
	a, b := chain("w-a"), chain("w-b")
	zero := big.NewInt(0)
	type E = *vh.G1
	A := func() E { return g1Base(a) }
	aff := func() E { r := new(vh.G1); r.Unmarshal(expG1(b)); return r }
	// inputs of the decoders are built on first use (inside a case), not while the cases are being listed
	type fixtures struct{ val, off, xp, yp, cval, cbad, coff, cxp []byte }
	var fxv *fixtures
	fx := func() *fixtures {
		if fxv != nil {
			return fxv
		}
		val := expG1(b)
		off := append([]byte{}, val...)
		off[63] ^= 1
		xp := append(k32(pFld), val[32:]...)
		yp := append(append([]byte{}, val[:32]...), k32(pFld)...)
		cval := compressedRef(val)
		cbad := append([]byte{}, cval...)
		cbad[0] = 4
		// an x that is not the abscissa of a curve point
		coff := append([]byte{}, cval...)
		for d := int64(1); ; d++ {
			x := new(big.Int).Add(new(big.Int).SetBytes(val[:32]), big.NewInt(d))
			if _, ok := curve.LiftX(x, 0); !ok && x.Cmp(pFld) < 0 {
				copy(coff[1:], k32(x))
				break
			}
		}
		cxp := append([]byte{2}, k32(pFld)...)
		fxv = &fixtures{val, off, xp, yp, cval, cbad, coff, cxp}
		return fxv
	}
	w := func(name string, k *big.Int, f func(e E)) hop[E] {
		return hop[E]{name, false, func(e E, _ *big.Int) (*big.Int, string) { f(e); return k, "" }}
	}
	return []hop[E]{
		w("ScalarBaseMult(a)", a, func(e E) { e.ScalarBaseMult(k32(a)) }),
		w("ScalarBaseMult(0)", zero, func(e E) { e.ScalarBaseMult(k32(zero)) }),
		w("ScalarBaseMult(n)", zero, func(e E) { e.ScalarBaseMult(k32(nOrd)) }),
		w("ScalarMult(A,b)", mulN(a, b), func(e E) { e.ScalarMult(A(), k32(b)) }),
		w("ScalarMult(A,0)", zero, func(e E) { e.ScalarMult(A(), k32(zero)) }),
		w("ScalarMult(aff,a)", mulN(a, b), func(e E) { e.ScalarMult(aff(), k32(a)) }),
		w("Add(A,B)", addN(a, b), func(e E) { e.Add(A(), g1Base(b)) }),
		w("Add(A,-A)", zero, func(e E) { e.Add(A(), new(vh.G1).Neg(A())) }),
		w("Add(aff,aff)", addN(b, b), func(e E) { e.Add(aff(), aff()) }),
		w("Double(A)", addN(a, a), func(e E) { e.Double(A()) }),
		w("Double(inf)", zero, func(e E) { e.Double(g1Base(zero)) }),
		w("Neg(A)", negN(a), func(e E) { e.Neg(A()) }),
		w("Neg(aff)", negN(b), func(e E) { e.Neg(aff()) }),
		w("Set(A)", a, func(e E) { e.Set(A()) }),
		w("Set(inf)", zero, func(e E) { e.Set(g1Base(zero)) }),
		w("Set(aff)", b, func(e E) { e.Set(aff()) }),
		w("Set(Gen1)", one, func(e E) { e.Set(vh.Gen1) }),
		{"Unmarshal(valid)", false, func(e E, _ *big.Int) (*big.Int, string) {
			_, err := e.Unmarshal(fx().val)
			return b, wantOK("valid element", err)
		}},
		{"Unmarshal(infinity)", false, func(e E, _ *big.Int) (*big.Int, string) {
			_, err := e.Unmarshal(zero64)
			return zero, wantOK("all-zero element", err)
		}},
		{"UnmarshalCompressed(valid)", false, func(e E, _ *big.Int) (*big.Int, string) {
			_, err := e.UnmarshalCompressed(fx().cval)
			return b, wantOK("valid compressed element", err)
		}},
		{"Unmarshal(off-curve)", false, func(e E, _ *big.Int) (*big.Int, string) {
			_, err := e.Unmarshal(fx().off)
			return nil, wantErr("off-curve element", err)
		}},
		{"Unmarshal(x=p)", false, func(e E, _ *big.Int) (*big.Int, string) {
			_, err := e.Unmarshal(fx().xp)
			return nil, wantErr("x = p", err)
		}},
		{"Unmarshal(y=p)", false, func(e E, _ *big.Int) (*big.Int, string) {
			_, err := e.Unmarshal(fx().yp)
			return nil, wantErr("y = p", err)
		}},
		{"Unmarshal(short)", false, func(e E, _ *big.Int) (*big.Int, string) {
			_, err := e.Unmarshal(fx().val[:63])
			return nil, wantErr("63-byte input", err)
		}},
		{"UnmarshalCompressed(prefix=04)", false, func(e E, _ *big.Int) (*big.Int, string) {
			_, err := e.UnmarshalCompressed(fx().cbad)
			return nil, wantErr("prefix 04", err)
		}},
		{"UnmarshalCompressed(off-curve-x)", false, func(e E, _ *big.Int) (*big.Int, string) {
			_, err := e.UnmarshalCompressed(fx().coff)
			return nil, wantErr("x without a curve point", err)
		}},
		{"UnmarshalCompressed(x=p)", false, func(e E, _ *big.Int) (*big.Int, string) {
			_, err := e.UnmarshalCompressed(fx().cxp)
			return nil, wantErr("x = p", err)
		}},
		{"ScalarBaseMult(31 bytes)", false, func(e E, _ *big.Int) (*big.Int, string) {
			_, err := e.ScalarBaseMult(make([]byte, 31))
			return nil, wantErr("31-byte scalar", err)
		}},
		// the receiver as its own operand
		{"e.Add(e,A)", true, func(e E, c *big.Int) (*big.Int, string) { e.Add(e, A()); return addN(c, a), "" }},
		{"e.Add(aff,e)", true, func(e E, c *big.Int) (*big.Int, string) { e.Add(aff(), e); return addN(c, b), "" }},
		{"e.Add(e,e)", true, func(e E, c *big.Int) (*big.Int, string) { e.Add(e, e); return addN(c, c), "" }},
		{"e.Double(e)", true, func(e E, c *big.Int) (*big.Int, string) { e.Double(e); return addN(c, c), "" }},
		{"e.Neg(e)", true, func(e E, c *big.Int) (*big.Int, string) { e.Neg(e); return negN(c), "" }},
		{"e.ScalarMult(e,b)", true, func(e E, c *big.Int) (*big.Int, string) { e.ScalarMult(e, k32(b)); return mulN(c, b), "" }},
		{"e.Set(e)", true, func(e E, c *big.Int) (*big.Int, string) { e.Set(e); return c, "" }},
		// reading methods (they normalise the receiver in place)
		{"Marshal()", true, func(e E, c *big.Int) (*big.Int, string) {
			if got := e.Marshal(); !bytes.Equal(got, expG1(c)) {
				return c, "Marshal() = " + hx(got)
			}
			return c, ""
		}},
		{"MarshalUncompressed()", true, func(e E, c *big.Int) (*big.Int, string) {
			if got := e.MarshalUncompressed(); !bytes.Equal(got[1:], expG1(c)) || got[0] != 4 {
				return c, "MarshalUncompressed() = " + hx(got)
			}
			return c, ""
		}},
		{"MarshalCompressed()", true, func(e E, c *big.Int) (*big.Int, string) {
			if c.Sign() == 0 {
				return c, "" // G1.MarshalCompressed documents the point at infinity as undefined: not called
			}
			if got := e.MarshalCompressed(); !bytes.Equal(got, compressedRef(expG1(c))) {
				return c, "MarshalCompressed() = " + hx(got)
			}
			return c, ""
		}},
		{"IsOnCurve()", true, func(e E, c *big.Int) (*big.Int, string) {
			if !e.IsOnCurve() && c.Sign() != 0 { // the answer for the point at infinity is not specified
				return c, "IsOnCurve() = false for a group element"
			}
			return c, ""
		}},
		{"String()", true, func(e E, c *big.Int) (*big.Int, string) { _ = e.String(); return c, "" }},
		{"Pair(e,Gen2)", true, func(e E, c *big.Int) (*big.Int, string) {
			if got := vh.Pair(e, vh.Gen2).Marshal(); !bytes.Equal(got, expGT(c)) {
				return c, "Pair(e,Gen2) = " + hx(got)
			}
			return c, ""
		}},
	}
}

func g2HistoryOps() []hop[*vh.G2] {
	a, b := chain("w-a"), chain("w-b")
	zero := big.NewInt(0)
	type E = *vh.G2
	A := func() E { return g2Base(a) }
	aff := func() E { r := new(vh.G2); r.Unmarshal(expG2(b)); return r }
	type fixtures struct{ val, off, cval, cbad, coff, cxp, inf3 []byte }
	var fxv *fixtures
	fx := func() *fixtures {
		if fxv != nil {
			return fxv
		}
		val := expG2(b)
		off := append([]byte{}, val...)
		off[127] ^= 1
		cval := aff().MarshalCompressed()
		cbad := append([]byte{}, cval...)
		cbad[0] = 4
		coff := append([]byte{}, cval...)
		for d := byte(1); ; d++ {
			coff[64] = cval[64] ^ d
			if !sm9TwistSquare(coff[1:65]) {
				break
			}
		}
		cxp := append([]byte{}, cval...)
		copy(cxp[33:], k32(pFld))
		inf3 := make([]byte, 65)
		inf3[0] = 3
		fxv = &fixtures{val, off, cval, cbad, coff, cxp, inf3}
		return fxv
	}
	coordP := func(j int) func() []byte {
		return func() []byte { m := append([]byte{}, fx().val...); copy(m[32*j:], k32(pFld)); return m }
	}
	w := func(name string, k *big.Int, f func(e E)) hop[E] {
		return hop[E]{name, false, func(e E, _ *big.Int) (*big.Int, string) { f(e); return k, "" }}
	}
	dec := func(name string, in func() []byte, k *big.Int, compressed bool) hop[E] {
		return hop[E]{name, false, func(e E, _ *big.Int) (*big.Int, string) {
			var err error
			if compressed {
				_, err = e.UnmarshalCompressed(in())
			} else {
				_, err = e.Unmarshal(in())
			}
			if k == nil {
				return nil, wantErr(name, err)
			}
			return k, wantOK(name, err)
		}}
	}
	return []hop[E]{
		w("ScalarBaseMult(a)", a, func(e E) { e.ScalarBaseMult(k32(a)) }),
		w("ScalarBaseMult(0)", zero, func(e E) { e.ScalarBaseMult(k32(zero)) }),
		w("ScalarBaseMult(n)", zero, func(e E) { e.ScalarBaseMult(k32(nOrd)) }),
		w("ScalarMult(A,b)", mulN(a, b), func(e E) { e.ScalarMult(A(), k32(b)) }),
		w("ScalarMult(A,0)", zero, func(e E) { e.ScalarMult(A(), k32(zero)) }),
		w("ScalarMult(aff,a)", mulN(a, b), func(e E) { e.ScalarMult(aff(), k32(a)) }),
		w("Add(A,B)", addN(a, b), func(e E) { e.Add(A(), g2Base(b)) }),
		w("Add(A,-A)", zero, func(e E) { e.Add(A(), new(vh.G2).Neg(A())) }),
		w("Add(aff,aff)", addN(b, b), func(e E) { e.Add(aff(), aff()) }),
		w("Neg(A)", negN(a), func(e E) { e.Neg(A()) }),
		w("Neg(aff)", negN(b), func(e E) { e.Neg(aff()) }),
		w("Set(A)", a, func(e E) { e.Set(A()) }),
		w("Set(inf)", zero, func(e E) { e.Set(g2Base(zero)) }),
		w("Set(aff)", b, func(e E) { e.Set(aff()) }),
		w("Set(Gen2)", one, func(e E) { e.Set(vh.Gen2) }),
		dec("Unmarshal(valid)", func() []byte { return fx().val }, b, false),
		dec("Unmarshal(infinity)", func() []byte { return zero128 }, zero, false),
		dec("UnmarshalCompressed(valid)", func() []byte { return fx().cval }, b, true),
		dec("UnmarshalCompressed(infinity)", func() []byte { return fx().inf3 }, zero, true),
		dec("Unmarshal(off-curve)", func() []byte { return fx().off }, nil, false),
		dec("Unmarshal(coordinate0=p)", coordP(0), nil, false),
		dec("Unmarshal(coordinate1=p)", coordP(1), nil, false),
		dec("Unmarshal(coordinate2=p)", coordP(2), nil, false),
		dec("Unmarshal(coordinate3=p)", coordP(3), nil, false),
		dec("Unmarshal(short)", func() []byte { return fx().val[:127] }, nil, false),
		dec("UnmarshalCompressed(prefix=04)", func() []byte { return fx().cbad }, nil, true),
		dec("UnmarshalCompressed(off-curve-x)", func() []byte { return fx().coff }, nil, true),
		dec("UnmarshalCompressed(coordinate1=p)", func() []byte { return fx().cxp }, nil, true),
		{"ScalarBaseMult(31 bytes)", false, func(e E, _ *big.Int) (*big.Int, string) {
			_, err := e.ScalarBaseMult(make([]byte, 31))
			return nil, wantErr("31-byte scalar", err)
		}},
		{"e.Add(e,A)", true, func(e E, c *big.Int) (*big.Int, string) { e.Add(e, A()); return addN(c, a), "" }},
		{"e.Add(aff,e)", true, func(e E, c *big.Int) (*big.Int, string) { e.Add(aff(), e); return addN(c, b), "" }},
		{"e.Add(e,e)", true, func(e E, c *big.Int) (*big.Int, string) { e.Add(e, e); return addN(c, c), "" }},
		{"e.Neg(e)", true, func(e E, c *big.Int) (*big.Int, string) { e.Neg(e); return negN(c), "" }},
		{"e.ScalarMult(e,b)", true, func(e E, c *big.Int) (*big.Int, string) { e.ScalarMult(e, k32(b)); return mulN(c, b), "" }},
		{"e.Set(e)", true, func(e E, c *big.Int) (*big.Int, string) { e.Set(e); return c, "" }},
		{"Marshal()", true, func(e E, c *big.Int) (*big.Int, string) {
			if got := e.Marshal(); !bytes.Equal(got, expG2(c)) {
				return c, "Marshal() = " + hx(got)
			}
			return c, ""
		}},
		{"MarshalUncompressed()", true, func(e E, c *big.Int) (*big.Int, string) {
			if got := e.MarshalUncompressed(); !bytes.Equal(got[1:], expG2(c)) || got[0] != 4 {
				return c, "MarshalUncompressed() = " + hx(got)
			}
			return c, ""
		}},
		{"MarshalCompressed()", true, func(e E, c *big.Int) (*big.Int, string) {
			got := e.MarshalCompressed()
			if want := g2CompressedRef(expG2(c)); !bytes.Equal(got, want) {
				return c, "MarshalCompressed() = " + hx(got) + " want " + hx(want)
			}
			return c, ""
		}},
		{"IsOnCurve()", true, func(e E, c *big.Int) (*big.Int, string) {
			if !e.IsOnCurve() && c.Sign() != 0 { // the answer for the point at infinity is not specified
				return c, "IsOnCurve() = false for a group element"
			}
			return c, ""
		}},
		{"String()", true, func(e E, c *big.Int) (*big.Int, string) { _ = e.String(); return c, "" }},
		{"Pair(Gen1,e)", true, func(e E, c *big.Int) (*big.Int, string) {
			if got := vh.Pair(vh.Gen1, e).Marshal(); !bytes.Equal(got, expGT(c)) {
				return c, "Pair(Gen1,e) = " + hx(got)
			}
			return c, ""
		}},
	}
}

// sm9TwistSquare: x (64 bytes, A1‖A0) is the abscissa of a point of the twist
func sm9TwistSquare(x []byte) bool {
	_, cls, _ := codecByName("g2/unmarshal-compressed").oracle(append([]byte{2}, x...))
	return cls == "on-curve"
}

// g2CompressedRef is the compressed form of a canonical 128-byte encoding: prefix 02|parity of the low coefficient of y,
// then x; the library's (test-pinned) form 03‖0…0 for the point at infinity.
func g2CompressedRef(enc128 []byte) []byte {
	out := make([]byte, 65)
	if allZero(enc128) {
		out[0] = 3
		return out
	}
	out[0] = 2 | enc128[127]&1
	copy(out[1:], enc128[:64])
	return out
}

func gtHistoryOps() []hop[*vh.GT] {
	a, b := chain("w-a"), chain("w-b")
	zero := big.NewInt(0)
	type E = *vh.GT
	A := func() E { return gtBase(a) }
	var valv []byte
	val := func() []byte {
		if valv == nil {
			valv = expGT(b)
		}
		return valv
	}
	coordP := func(j int) func() []byte {
		return func() []byte { m := append([]byte{}, val()...); copy(m[32*j:], k32(pFld)); return m }
	}
	w := func(name string, k *big.Int, f func(e E)) hop[E] {
		return hop[E]{name, false, func(e E, _ *big.Int) (*big.Int, string) { f(e); return k, "" }}
	}
	dec := func(name string, in func() []byte, k *big.Int) hop[E] {
		return hop[E]{name, false, func(e E, _ *big.Int) (*big.Int, string) {
			_, err := e.Unmarshal(in())
			if k == nil {
				return nil, wantErr(name, err)
			}
			return k, wantOK(name, err)
		}}
	}
	return []hop[E]{
		w("ScalarBaseMult(a)", a, func(e E) { e.ScalarBaseMult(a) }),
		w("ScalarBaseMult(0)", zero, func(e E) { e.ScalarBaseMult(zero) }),
		w("ScalarBaseMult(n)", zero, func(e E) { e.ScalarBaseMult(nOrd) }),
		w("ScalarMult(A,b)", mulN(a, b), func(e E) { e.ScalarMult(A(), b) }),
		w("ScalarMult(A,0)", zero, func(e E) { e.ScalarMult(A(), zero) }),
		w("Add(A,B)", addN(a, b), func(e E) { e.Add(A(), gtBase(b)) }),
		w("Add(A,1/A)", zero, func(e E) { e.Add(A(), gtBase(negN(a))) }),
		w("Set(A)", a, func(e E) { e.Set(A()) }),
		w("Set(pairing)", mulN(a, b), func(e E) { e.Set(vh.Pair(g1Base(a), g2Base(b))) }),
		w("SetOne()", zero, func(e E) { e.SetOne() }),
		w("Set(Miller);Finalize()", mulN(a, b), func(e E) { e.Set(vh.Miller(g1Base(a), g2Base(b))); e.Finalize() }),
		dec("Unmarshal(valid)", val, b),
		dec("Unmarshal(one)", gtOneEnc, zero),
		dec("Unmarshal(coordinate0=p)", coordP(0), nil),
		dec("Unmarshal(coordinate5=p)", coordP(5), nil),
		dec("Unmarshal(coordinate11=p)", coordP(11), nil),
		dec("Unmarshal(coordinate11=2^256-1)", func() []byte { m := coordP(11)(); copy(m[352:], bytes.Repeat([]byte{0xff}, 32)); return m }, nil),
		dec("Unmarshal(short)", func() []byte { return val()[:383] }, nil),
		{"e.Add(e,A)", true, func(e E, c *big.Int) (*big.Int, string) { e.Add(e, A()); return addN(c, a), "" }},
		{"e.Add(A,e)", true, func(e E, c *big.Int) (*big.Int, string) { e.Add(A(), e); return addN(c, a), "" }},
		{"e.Add(e,e)", true, func(e E, c *big.Int) (*big.Int, string) { e.Add(e, e); return addN(c, c), "" }},
		{"e.ScalarMult(e,b)", true, func(e E, c *big.Int) (*big.Int, string) { e.ScalarMult(e, b); return mulN(c, b), "" }},
		{"e.Set(e)", true, func(e E, c *big.Int) (*big.Int, string) { e.Set(e); return c, "" }},
		{"Marshal()", true, func(e E, c *big.Int) (*big.Int, string) {
			if got := e.Marshal(); !bytes.Equal(got, expGT(c)) {
				return c, "Marshal() = " + hx(got)
			}
			return c, ""
		}},
		{"String()", true, func(e E, c *big.Int) (*big.Int, string) { _ = e.String(); return c, "" }},
		{"ScalarMultGT(e,b)", true, func(e E, c *big.Int) (*big.Int, string) {
			r, err := vh.ScalarMultGT(e, k32(b))
			if err != nil || !bytes.Equal(r.Marshal(), expGT(mulN(c, b))) {
				return c, "ScalarMultGT(e,b) wrong, err=" + errStr(err)
			}
			return c, ""
		}},
		{"GenerateGTFieldTable(e)", true, func(e E, c *big.Int) (*big.Int, string) {
			r, err := vh.ScalarBaseMultGT(vh.GenerateGTFieldTable(e), k32(b))
			if err != nil || !bytes.Equal(r.Marshal(), expGT(mulN(c, b))) {
				return c, "ScalarBaseMultGT(table(e),b) wrong, err=" + errStr(err)
			}
			return c, ""
		}},
	}
}

func runHistory(c *engine.Ctx) {
	depth := 2
	if !c.Quick() {
		depth = 3
	}
	o1 := g1HistoryOps()
	for i, op := range o1 {
		if op.needs {
			continue // the zero value cannot be used as an input
		}
		i := i
		c.Case("widen/history/g1/"+op.name, func(t *engine.T) {
			histEnumerate(t, "g1", func() *vh.G1 { return new(vh.G1) }, o1, i, depth, func(e *vh.G1, k *big.Int, last, desc string) {
				want := expG1(k)
				// observers work on exact copies of the representation the receiver is in; the receiver itself comes last
				if k.Sign() != 0 {
					eq(t, "history/g1/"+last+"/compressed-encoding-wrong", new(vh.G1).Set(e).MarshalCompressed(), compressedRef(want), "%s", desc)
				}
				if k.Sign() != 0 && !new(vh.G1).Set(e).IsOnCurve() {
					t.Fail("history/g1/"+last+"/not-on-curve", "%s: IsOnCurve() = false", desc)
				}
				eq(t, "history/g1/"+last+"/pairing-wrong", vh.Pair(new(vh.G1).Set(e), vh.Gen2).Marshal(), expGT(k), "e(x,P2) after %s", desc)
				eq(t, "history/g1/"+last+"/sum-wrong", new(vh.G1).Add(new(vh.G1).Set(e), vh.Gen1).Marshal(), expG1(addN(k, one)), "x+P1 after %s", desc)
				eq(t, "history/g1/"+last+"/value-wrong", e.Marshal(), want, "%s", desc)
			})
			t.Outcome("history/g1/ok")
		})
	}
	o2 := g2HistoryOps()
	for i, op := range o2 {
		if op.needs {
			continue
		}
		i := i
		c.Case("widen/history/g2/"+op.name, func(t *engine.T) {
			histEnumerate(t, "g2", func() *vh.G2 { return new(vh.G2) }, o2, i, depth, func(e *vh.G2, k *big.Int, last, desc string) {
				want := expG2(k)
				eq(t, "history/g2/"+last+"/compressed-encoding-wrong", new(vh.G2).Set(e).MarshalCompressed(), g2CompressedRef(want), "%s", desc)
				if k.Sign() != 0 && !new(vh.G2).Set(e).IsOnCurve() {
					t.Fail("history/g2/"+last+"/not-on-curve", "%s: IsOnCurve() = false", desc)
				}
				eq(t, "history/g2/"+last+"/pairing-wrong", vh.Pair(vh.Gen1, new(vh.G2).Set(e)).Marshal(), expGT(k), "e(P1,x) after %s", desc)
				eq(t, "history/g2/"+last+"/sum-wrong", new(vh.G2).Add(new(vh.G2).Set(e), vh.Gen2).Marshal(), expG2(addN(k, one)), "x+P2 after %s", desc)
				eq(t, "history/g2/"+last+"/value-wrong", e.Marshal(), want, "%s", desc)
			})
			t.Outcome("history/g2/ok")
		})
	}
	o3 := gtHistoryOps()
	three := chain("hist-exp")
	for i, op := range o3 {
		if op.needs {
			continue
		}
		i := i
		c.Case("widen/history/gt/"+op.name, func(t *engine.T) {
			histEnumerate(t, "gt", func() *vh.GT { return new(vh.GT) }, o3, i, depth, func(e *vh.GT, k *big.Int, last, desc string) {
				r, err := vh.ScalarMultGT(new(vh.GT).Set(e), k32(three))
				if err != nil {
					t.Fail("history/gt/"+last+"/ScalarMultGT-error", "%s: %v", desc, err)
				} else {
					eq(t, "history/gt/"+last+"/windowed-power-wrong", r.Marshal(), expGT(mulN(k, three)), "x^c after %s", desc)
				}
				eq(t, "history/gt/"+last+"/product-wrong", new(vh.GT).Add(new(vh.GT).Set(e), gtGen()).Marshal(), expGT(addN(k, one)), "x*g after %s", desc)
				eq(t, "history/gt/"+last+"/value-wrong", e.Marshal(), expGT(k), "%s", desc)
			})
			t.Outcome("history/gt/ok")
		})
	}
}
