package c09

// own/   — results belong to the caller and arguments stay the caller's:
//   * every encoder result is overwritten by the harness, the encoder is called again on the same object and must give the
//     same bytes; two results never share memory;
//   * a decoded element does not depend on the input buffer once the decoder has returned;
//   * big.Int and byte-slice arguments are unchanged;
//   * every function that returns an element returns one the caller may overwrite: after mutating the result in place the
//     operands, the exported generators, the lazily built generator tables, a GT table and its base are unchanged and the
//     same call gives the same answer again.
// alias/ — every way the destination and the operands of Add / Double / Neg / Set / ScalarMult can be the same object.

import (
	"bytes"
	"math/big"

	vh "github.com/emmansun/gmsm/verifhook"

	"verif/engine"
)

// tracked elements: a producer together with the scalar of the element it produces (relative to the generator)
type tr1 struct {
	name string
	k    *big.Int
	mk   func() *vh.G1
}
type tr2 struct {
	name string
	k    *big.Int
	mk   func() *vh.G2
}
type trT struct {
	name string
	k    *big.Int
	mk   func() *vh.GT
}

func negN(k *big.Int) *big.Int { return modN(new(big.Int).Neg(k)) }

func trackedG1() []tr1 {
	a, b := chain("w-a"), chain("w-b")
	dec := func(k *big.Int) *vh.G1 {
		r := new(vh.G1)
		if _, err := r.Unmarshal(expG1(k)); err != nil {
			panic(err)
		}
		return r
	}
	return []tr1{
		{"inf-basemult0", big.NewInt(0), func() *vh.G1 { return g1Base(big.NewInt(0)) }},
		{"inf-sum", big.NewInt(0), func() *vh.G1 { p := g1Base(a); return new(vh.G1).Add(p, new(vh.G1).Neg(p)) }},
		{"inf-decoded", big.NewInt(0), func() *vh.G1 { return dec(big.NewInt(0)) }},
		{"generator", big.NewInt(1), func() *vh.G1 { return new(vh.G1).Set(vh.Gen1) }},
		{"basemult", a, func() *vh.G1 { return g1Base(a) }},
		{"mult", modN(new(big.Int).Mul(a, b)), func() *vh.G1 { r, _ := new(vh.G1).ScalarMult(g1Base(a), k32(b)); return r }},
		{"add", modN(new(big.Int).Add(a, b)), func() *vh.G1 { return new(vh.G1).Add(g1Base(a), g1Base(b)) }},
		{"double", modN(new(big.Int).Lsh(a, 1)), func() *vh.G1 { return new(vh.G1).Double(g1Base(a)) }},
		{"neg", negN(a), func() *vh.G1 { return new(vh.G1).Neg(g1Base(a)) }},
		{"decoded", b, func() *vh.G1 { return dec(b) }},
		{"decoded-compressed", b, func() *vh.G1 {
			r := new(vh.G1)
			if _, err := r.UnmarshalCompressed(dec(b).MarshalCompressed()); err != nil {
				panic(err)
			}
			return r
		}},
		{"neg-of-decoded", negN(b), func() *vh.G1 { return new(vh.G1).Neg(dec(b)) }},
		{"marshalled", a, func() *vh.G1 { p := g1Base(a); p.Marshal(); return p }},
	}
}

func trackedG2() []tr2 {
	a, b := chain("w-a"), chain("w-b")
	dec := func(k *big.Int) *vh.G2 {
		r := new(vh.G2)
		if _, err := r.Unmarshal(expG2(k)); err != nil {
			panic(err)
		}
		return r
	}
	return []tr2{
		{"inf-basemult0", big.NewInt(0), func() *vh.G2 { return g2Base(big.NewInt(0)) }},
		{"inf-sum", big.NewInt(0), func() *vh.G2 { p := g2Base(a); return new(vh.G2).Add(p, new(vh.G2).Neg(p)) }},
		{"inf-decoded", big.NewInt(0), func() *vh.G2 { return dec(big.NewInt(0)) }},
		{"generator", big.NewInt(1), func() *vh.G2 { return new(vh.G2).Set(vh.Gen2) }},
		{"basemult", a, func() *vh.G2 { return g2Base(a) }},
		{"mult", modN(new(big.Int).Mul(a, b)), func() *vh.G2 { r, _ := new(vh.G2).ScalarMult(g2Base(a), k32(b)); return r }},
		{"add", modN(new(big.Int).Add(a, b)), func() *vh.G2 { return new(vh.G2).Add(g2Base(a), g2Base(b)) }},
		{"neg", negN(a), func() *vh.G2 { return new(vh.G2).Neg(g2Base(a)) }},
		{"decoded", b, func() *vh.G2 { return dec(b) }},
		{"decoded-compressed", b, func() *vh.G2 {
			r := new(vh.G2)
			if _, err := r.UnmarshalCompressed(dec(b).MarshalCompressed()); err != nil {
				panic(err)
			}
			return r
		}},
		{"neg-of-decoded", negN(b), func() *vh.G2 { return new(vh.G2).Neg(dec(b)) }},
		{"marshalled", a, func() *vh.G2 { p := g2Base(a); p.Marshal(); return p }},
	}
}

func trackedGT() []trT {
	a, b := chain("w-a"), chain("w-b")
	return []trT{
		{"one", big.NewInt(0), func() *vh.GT { return new(vh.GT).SetOne() }},
		{"one-pair-inf", big.NewInt(0), func() *vh.GT { return vh.Pair(g1Base(big.NewInt(0)), vh.Gen2) }},
		{"pair-generators", big.NewInt(1), func() *vh.GT { return vh.Pair(vh.Gen1, vh.Gen2) }},
		{"basemult", a, func() *vh.GT { return new(vh.GT).ScalarBaseMult(a) }},
		{"table-basemult", a, func() *vh.GT { return gtBase(a) }},
		{"pow", modN(new(big.Int).Mul(a, b)), func() *vh.GT { return new(vh.GT).ScalarMult(gtBase(a), b) }},
		{"window-pow", modN(new(big.Int).Mul(a, b)), func() *vh.GT { r, _ := vh.ScalarMultGT(gtBase(a), k32(b)); return r }},
		{"product", modN(new(big.Int).Add(a, b)), func() *vh.GT { return new(vh.GT).Add(gtBase(a), gtBase(b)) }},
		{"pair", modN(new(big.Int).Mul(a, b)), func() *vh.GT { return vh.Pair(g1Base(a), g2Base(b)) }},
		{"miller-finalize", modN(new(big.Int).Mul(a, b)), func() *vh.GT { return vh.Miller(g1Base(a), g2Base(b)).Finalize() }},
		{"decoded", b, func() *vh.GT {
			r := new(vh.GT)
			if _, err := r.Unmarshal(expGT(b)); err != nil {
				panic(err)
			}
			return r
		}},
	}
}

func fill(b []byte, v byte) {
	b = b[:cap(b)]
	for i := range b {
		b[i] = v
	}
}

func allAre(b []byte, v byte) bool {
	for _, x := range b {
		if x != v {
			return false
		}
	}
	return true
}

// encoderOwnership: r1 := enc(); overwrite r1 (whole capacity); r2 := enc() must equal want and r1 must still hold the
// harness' bytes (so r2 was not written through r1's array); overwrite r2; r3 := enc() must equal want.
func encoderOwnership(t *engine.T, key, desc string, enc func() []byte, want []byte) {
	var r1, r2, r3 []byte
	if t.Guard(key, func() {
		r1 = enc()
	}) {
		return
	}
	t.Eval(3)
	if !bytes.Equal(r1, want) {
		t.Fail(key+"/first-result-wrong", "%s: got %s want %s", desc, hx(r1), hx(want))
		return
	}
	fill(r1, 0xAA)
	r2 = enc()
	if !bytes.Equal(r2, want) {
		t.Fail(key+"/changes-after-result-overwritten", "%s: second call after the first result was overwritten gives %s want %s", desc, hx(r2), hx(want))
	}
	if !allAre(r1[:cap(r1)], 0xAA) {
		t.Fail(key+"/results-share-memory", "%s: the second call wrote into the first result", desc)
	}
	fill(r2, 0x55)
	r3 = enc()
	if !bytes.Equal(r3, want) {
		t.Fail(key+"/changes-after-result-overwritten", "%s: third call gives %s want %s", desc, hx(r3), hx(want))
	}
	if !allAre(r1[:cap(r1)], 0xAA) || !allAre(r2[:cap(r2)], 0x55) {
		t.Fail(key+"/results-share-memory", "%s: a later call wrote into an earlier result", desc)
	}
}

func compressedRef(enc64 []byte) []byte {
	out := make([]byte, 33)
	out[0] = 2 | enc64[63]&1
	copy(out[1:], enc64[:32])
	return out
}

// globals: what every later computation of the process relies on
type globalsSnap struct {
	gen1, gen2, gtgen []byte
	order, orderB     []byte
	rows1, rows2      [][]byte
	tabRows           [][]byte
}

// generator-table rows: [w·16^i]G for every table row i and a window value (w cycles through 1..15 over the rows in the
// quick tier, all 15 in the thorough tier)
func tableScalars(quick bool) []*big.Int {
	var out []*big.Int
	for i := uint(0); i < 64; i++ {
		if quick {
			out = append(out, new(big.Int).Lsh(big.NewInt(int64(i%15)+1), 4*i))
			continue
		}
		for w := int64(1); w <= 15; w++ {
			out = append(out, new(big.Int).Lsh(big.NewInt(w), 4*i))
		}
	}
	return out
}

func takeGlobals(quick bool) globalsSnap {
	var s globalsSnap
	s.gen1 = encG1(vh.Gen1)
	s.gen2 = encG2(vh.Gen2)
	s.gtgen = new(vh.GT).ScalarBaseMult(big.NewInt(1)).Marshal()
	s.order = vh.Order.Bytes()
	s.orderB = append([]byte{}, vh.OrderBytes...)
	for _, k := range tableScalars(quick) {
		s.rows1 = append(s.rows1, g1Base(k).Marshal())
		s.rows2 = append(s.rows2, g2Base(k).Marshal())
		s.tabRows = append(s.tabRows, gtBase(k).Marshal())
	}
	return s
}

func (s globalsSnap) check(t *engine.T, key, after string) {
	now := takeGlobals(len(s.rows1) == 64)
	t.Eval(1)
	cmp := func(what string, a, b []byte) {
		if !bytes.Equal(a, b) {
			t.Fail(key+"/"+what, "%s changed after %s: was %s now %s", what, after, hx(a), hx(b))
		}
	}
	cmp("Gen1", s.gen1, now.gen1)
	cmp("Gen2", s.gen2, now.gen2)
	cmp("gt-generator", s.gtgen, now.gtgen)
	cmp("Order", s.order, now.order)
	cmp("OrderBytes", s.orderB, now.orderB)
	for i := range s.rows1 {
		cmp("g1-generator-table", s.rows1[i], now.rows1[i])
		cmp("g2-generator-table", s.rows2[i], now.rows2[i])
		cmp("gt-table", s.tabRows[i], now.tabRows[i])
	}
}

func runOwnership(c *engine.Ctx) {
	c.Case("widen/own/encoders", func(t *engine.T) {
		// the standard's constants first (the generator objects are shared by the whole process)
		eq(t, "anchor/order-bytes", vh.OrderBytes, k32(nOrd), "OrderBytes")
		encoderOwnership(t, "own/g1/Marshal", "Gen1", vh.Gen1.Marshal, expG1(one))
		encoderOwnership(t, "own/g2/Marshal", "Gen2", vh.Gen2.Marshal, expG2(one))
		for _, s := range trackedG1() {
			want := expG1(s.k)
			x := s.mk()
			encoderOwnership(t, "own/g1/Marshal", s.name, x.Marshal, want)
			x = s.mk()
			encoderOwnership(t, "own/g1/MarshalUncompressed", s.name, x.MarshalUncompressed, append([]byte{4}, want...))
			if s.k.Sign() != 0 {
				x = s.mk()
				encoderOwnership(t, "own/g1/MarshalCompressed", s.name, x.MarshalCompressed, compressedRef(want))
			}
			t.Nontrivial("own/encoders/g1/" + s.name)
		}
		for _, s := range trackedG2() {
			want := expG2(s.k)
			x := s.mk()
			encoderOwnership(t, "own/g2/Marshal", s.name, x.Marshal, want)
			x = s.mk()
			encoderOwnership(t, "own/g2/MarshalUncompressed", s.name, x.MarshalUncompressed, append([]byte{4}, want...))
			x = s.mk()
			first := append([]byte{}, x.MarshalCompressed()...)
			encoderOwnership(t, "own/g2/MarshalCompressed", s.name, x.MarshalCompressed, first)
			back := new(vh.G2)
			if _, err := back.UnmarshalCompressed(first); err != nil {
				t.Fail("own/g2/MarshalCompressed/does-not-decode", "%s: %v", s.name, err)
			} else {
				eq(t, "own/g2/MarshalCompressed/decodes-to-other-element", back.Marshal(), want, "UnmarshalCompressed(MarshalCompressed(%s))", s.name)
			}
			t.Nontrivial("own/encoders/g2/" + s.name)
		}
		for _, s := range trackedGT() {
			x := s.mk()
			encoderOwnership(t, "own/gt/Marshal", s.name, x.Marshal, expGT(s.k))
			t.Nontrivial("own/encoders/gt/" + s.name)
		}
		t.Outcome("own/encoders/ok")
	})

	c.Case("widen/own/decoded-independent-of-input", func(t *engine.T) {
		b := chain("w-b")
		tail := []byte{1, 2, 3}
		e1, e2, eT := expG1(b), expG2(b), expGT(b)
		type dc struct {
			name string
			in   []byte
			run  func(in []byte) (func() []byte, []byte, error)
			want []byte
		}
		c2 := func() []byte { q := new(vh.G2); q.Unmarshal(e2); return q.MarshalCompressed() }()
		ds := []dc{
			{"g1/unmarshal", e1, func(in []byte) (func() []byte, []byte, error) {
				g := new(vh.G1)
				tl, err := g.Unmarshal(in)
				return g.Marshal, tl, err
			}, e1},
			{"g1/unmarshal-compressed", compressedRef(e1), func(in []byte) (func() []byte, []byte, error) {
				g := new(vh.G1)
				tl, err := g.UnmarshalCompressed(in)
				return g.Marshal, tl, err
			}, e1},
			{"g2/unmarshal", e2, func(in []byte) (func() []byte, []byte, error) {
				g := new(vh.G2)
				tl, err := g.Unmarshal(in)
				return g.Marshal, tl, err
			}, e2},
			{"g2/unmarshal-compressed", c2, func(in []byte) (func() []byte, []byte, error) {
				g := new(vh.G2)
				tl, err := g.UnmarshalCompressed(in)
				return g.Marshal, tl, err
			}, e2},
			{"gt/unmarshal", eT, func(in []byte) (func() []byte, []byte, error) {
				g := new(vh.GT)
				tl, err := g.Unmarshal(in)
				return g.Marshal, tl, err
			}, eT},
		}
		var pool engine.Pool
		defer pool.Release()
		for _, d := range ds {
			for _, l := range layoutsOf(&pool, append(append([]byte{}, d.in...), tail...)) {
				enc, tl, err := d.run(l.s)
				t.Eval(1)
				if err != nil {
					t.Fail("own/"+d.name+"/valid-rejected", "layout %s: %v", l.name, err)
					continue
				}
				if !bytes.Equal(tl, tail) {
					t.Fail(d.name+"/wrong-tail", "layout %s: tail %x", l.name, tl)
				}
				if !l.intact() {
					t.Fail(d.name+"/input-modified", "layout %s: caller's array modified at offset %d", l.name, engine.FirstDiff(l.whole, l.snap))
				}
				for i := range l.whole {
					l.whole[i] = 0xff
				}
				eq(t, "own/"+d.name+"/element-depends-on-input-buffer", enc(), d.want, "%s, layout %s: element after the input buffer was overwritten", d.name, l.name)
			}
			// exact element (no tail) ending at the guard page, and with dirty spare capacity: same verdict, no access past len
			for _, l := range layoutsOf(&pool, d.in) {
				enc, tl, err := d.run(l.s)
				t.Eval(1)
				if err != nil {
					t.Fail("own/"+d.name+"/valid-rejected", "layout %s (no tail): %v", l.name, err)
					continue
				}
				if len(tl) != 0 {
					t.Fail(d.name+"/wrong-tail", "layout %s: %d-byte tail for an input of exactly one element (spare capacity is not input)", l.name, len(tl))
				}
				if !l.intact() {
					t.Fail(d.name+"/input-modified", "layout %s: caller's array modified at offset %d", l.name, engine.FirstDiff(l.whole, l.snap))
				}
				eq(t, "own/"+d.name+"/wrong-element", enc(), d.want, "%s, layout %s", d.name, l.name)
				// one byte short in every layout: refused although the byte behind the slice would complete the element
				if len(l.s) > 0 {
					if _, _, err := d.run(l.s[:len(l.s)-1]); err == nil {
						t.Fail(d.name+"/short-input-accepted", "layout %s: %d-byte input accepted (reads beyond len)", l.name, len(l.s)-1)
					}
				}
			}
			t.Nontrivial("own/decoded/" + d.name)
			pool.Release()
		}
		t.Outcome("own/decoded/ok")
	})

	c.Case("widen/own/arguments", func(t *engine.T) {
		// big.Int exponents and scalar slices are the caller's: unchanged after the call, also when >= n
		g := gtGen()
		for _, k := range []*big.Int{big.NewInt(0), big.NewInt(1), chain("own-k"), new(big.Int).Sub(nOrd, one), new(big.Int).Set(nOrd),
			new(big.Int).Add(nOrd, big.NewInt(5)), new(big.Int).Sub(two256, one), new(big.Int).Lsh(one, 300)} {
			kc := new(big.Int).Set(k)
			words := append([]big.Word{}, k.Bits()...)
			chk := func(op string) {
				t.Eval(1)
				if k.Cmp(kc) != 0 {
					t.Fail("own/bigint-argument-modified/"+op, "exponent %x became %x", kc, k)
					k.Set(kc)
				}
				now := k.Bits()
				for i := range words {
					if i >= len(now) || now[i] != words[i] {
						t.Fail("own/bigint-argument-modified/"+op, "limbs of exponent %x were rewritten", kc)
						break
					}
				}
			}
			new(vh.GT).ScalarMult(g, k)
			chk("GT.ScalarMult")
			new(vh.GT).ScalarBaseMult(k)
			chk("GT.ScalarBaseMult")
			t.Nontrivial("own/arguments/" + kc.Text(16))
		}
		if vh.Order.Cmp(nOrd) != 0 {
			t.Fail("own/globals/Order", "Order is now %x", vh.Order)
		}
		// results computed from a scalar slice do not change when the slice is overwritten afterwards (lazy normalisation)
		k := chain("own-k")
		s := k32(k)
		r1, _ := new(vh.G1).ScalarBaseMult(s)
		r2, _ := new(vh.G2).ScalarBaseMult(s)
		r3, _ := vh.ScalarBaseMultGT(gtTable(), s)
		r4, _ := new(vh.G1).ScalarMult(vh.Gen1, s)
		r5, _ := new(vh.G2).ScalarMult(vh.Gen2, s)
		r6, _ := vh.ScalarMultGT(gtGen(), s)
		fill(s, 0xff)
		eq(t, "own/result-depends-on-scalar-buffer", r1.Marshal(), expG1(k), "G1.ScalarBaseMult")
		eq(t, "own/result-depends-on-scalar-buffer", r2.Marshal(), expG2(k), "G2.ScalarBaseMult")
		eq(t, "own/result-depends-on-scalar-buffer", r3.Marshal(), expGT(k), "ScalarBaseMultGT")
		eq(t, "own/result-depends-on-scalar-buffer", r4.Marshal(), expG1(k), "G1.ScalarMult")
		eq(t, "own/result-depends-on-scalar-buffer", r5.Marshal(), expG2(k), "G2.ScalarMult")
		eq(t, "own/result-depends-on-scalar-buffer", r6.Marshal(), expGT(k), "ScalarMultGT")
		t.Outcome("own/arguments/ok")
	})

	// every function returning an element: the result is the caller's to overwrite
	c.Case("widen/own/results-g1", func(t *engine.T) {
		snap := takeGlobals(t.Quick())
		a := chain("w-a")
		other := expG1(big.NewInt(9))
		mutate := func(r *vh.G1) {
			r.Neg(r)
			r.Double(r)
			r.Add(r, vh.Gen1)
			r.ScalarMult(r, []byte{3})
			r.Unmarshal(other)
			r.Add(r, r)
			r.ScalarBaseMult(k32(big.NewInt(5)))
			r.Set(g1Base(big.NewInt(11)))
			r.Neg(r)
		}
		for _, s := range trackedG1() {
			X := s.mk()
			Y := g1Base(a)
			xw, yw := expG1(s.k), expG1(a)
			prods := []struct {
				name string
				k    *big.Int
				f    func() *vh.G1
			}{
				{"Add(x,y)", new(big.Int).Add(s.k, a), func() *vh.G1 { return new(vh.G1).Add(X, Y) }},
				{"Add(y,x)", new(big.Int).Add(s.k, a), func() *vh.G1 { return new(vh.G1).Add(Y, X) }},
				{"Add(x,inf)", s.k, func() *vh.G1 { return new(vh.G1).Add(X, g1Base(big.NewInt(0))) }},
				{"Add(inf,x)", s.k, func() *vh.G1 { return new(vh.G1).Add(g1Base(big.NewInt(0)), X) }},
				{"Double(x)", new(big.Int).Lsh(s.k, 1), func() *vh.G1 { return new(vh.G1).Double(X) }},
				{"Neg(x)", negN(s.k), func() *vh.G1 { return new(vh.G1).Neg(X) }},
				{"Set(x)", s.k, func() *vh.G1 { return new(vh.G1).Set(X) }},
				{"ScalarMult(x,1)", s.k, func() *vh.G1 { r, _ := new(vh.G1).ScalarMult(X, k32(one)); return r }},
				{"ScalarMult(x,0)", big.NewInt(0), func() *vh.G1 { r, _ := new(vh.G1).ScalarMult(X, k32(big.NewInt(0))); return r }},
				{"ScalarMult(x,a)", new(big.Int).Mul(s.k, a), func() *vh.G1 { r, _ := new(vh.G1).ScalarMult(X, k32(a)); return r }},
			}
			for _, p := range prods {
				want := expG1(p.k)
				r := p.f()
				eq(t, "own/g1/result-wrong/"+p.name, encG1(r), want, "%s with x from %s", p.name, s.name)
				mutate(r)
				eq(t, "own/g1/operand-changes-when-result-is-overwritten/"+p.name, encG1(X), xw, "x (%s) after the result of %s was overwritten in place", s.name, p.name)
				eq(t, "own/g1/operand-changes-when-result-is-overwritten/"+p.name, encG1(Y), yw, "y after the result of %s was overwritten in place", p.name)
				eq(t, "own/g1/second-call-differs/"+p.name, encG1(p.f()), want, "%s again, x from %s", p.name, s.name)
			}
			t.Nontrivial("own/results-g1/" + s.name)
		}
		// base multiplications for every window value of the lowest and highest table row, result overwritten in place
		for _, sh := range []uint{0, 252} {
			for w := int64(0); w <= 15; w++ {
				k := new(big.Int).Lsh(big.NewInt(w), sh)
				r := g1Base(k)
				eq(t, "own/g1/result-wrong/ScalarBaseMult", encG1(r), expG1(k), "ScalarBaseMult(%x)", k)
				mutate(r)
				eq(t, "own/g1/second-call-differs/ScalarBaseMult", g1Base(k).Marshal(), expG1(k), "ScalarBaseMult(%x) after the first result was overwritten in place", k)
			}
		}
		snap.check(t, "own/globals-changed", "G1 results were overwritten in place")
		t.Outcome("own/results-g1/ok")
	})

	c.Case("widen/own/results-g2", func(t *engine.T) {
		snap := takeGlobals(t.Quick())
		a := chain("w-a")
		other := expG2(big.NewInt(9))
		mutate := func(r *vh.G2) {
			r.Neg(r)
			r.Add(r, vh.Gen2)
			r.ScalarMult(r, []byte{3})
			r.Unmarshal(other)
			r.Add(r, r)
			r.ScalarBaseMult(k32(big.NewInt(5)))
			r.Set(g2Base(big.NewInt(11)))
			r.Neg(r)
		}
		for _, s := range trackedG2() {
			X := s.mk()
			Y := g2Base(a)
			xw, yw := expG2(s.k), expG2(a)
			prods := []struct {
				name string
				k    *big.Int
				f    func() *vh.G2
			}{
				{"Add(x,y)", new(big.Int).Add(s.k, a), func() *vh.G2 { return new(vh.G2).Add(X, Y) }},
				{"Add(y,x)", new(big.Int).Add(s.k, a), func() *vh.G2 { return new(vh.G2).Add(Y, X) }},
				{"Add(x,inf)", s.k, func() *vh.G2 { return new(vh.G2).Add(X, g2Base(big.NewInt(0))) }},
				{"Add(inf,x)", s.k, func() *vh.G2 { return new(vh.G2).Add(g2Base(big.NewInt(0)), X) }},
				{"Neg(x)", negN(s.k), func() *vh.G2 { return new(vh.G2).Neg(X) }},
				{"Set(x)", s.k, func() *vh.G2 { return new(vh.G2).Set(X) }},
				{"ScalarMult(x,1)", s.k, func() *vh.G2 { r, _ := new(vh.G2).ScalarMult(X, k32(one)); return r }},
				{"ScalarMult(x,0)", big.NewInt(0), func() *vh.G2 { r, _ := new(vh.G2).ScalarMult(X, k32(big.NewInt(0))); return r }},
				{"ScalarMult(x,a)", new(big.Int).Mul(s.k, a), func() *vh.G2 { r, _ := new(vh.G2).ScalarMult(X, k32(a)); return r }},
			}
			for _, p := range prods {
				want := expG2(p.k)
				r := p.f()
				eq(t, "own/g2/result-wrong/"+p.name, encG2(r), want, "%s with x from %s", p.name, s.name)
				mutate(r)
				eq(t, "own/g2/operand-changes-when-result-is-overwritten/"+p.name, encG2(X), xw, "x (%s) after the result of %s was overwritten in place", s.name, p.name)
				eq(t, "own/g2/operand-changes-when-result-is-overwritten/"+p.name, encG2(Y), yw, "y after the result of %s was overwritten in place", p.name)
				eq(t, "own/g2/second-call-differs/"+p.name, encG2(p.f()), want, "%s again, x from %s", p.name, s.name)
			}
			t.Nontrivial("own/results-g2/" + s.name)
		}
		for _, sh := range []uint{0, 252} {
			for w := int64(0); w <= 15; w++ {
				k := new(big.Int).Lsh(big.NewInt(w), sh)
				r := g2Base(k)
				eq(t, "own/g2/result-wrong/ScalarBaseMult", encG2(r), expG2(k), "ScalarBaseMult(%x)", k)
				mutate(r)
				eq(t, "own/g2/second-call-differs/ScalarBaseMult", g2Base(k).Marshal(), expG2(k), "ScalarBaseMult(%x) after the first result was overwritten in place", k)
			}
		}
		snap.check(t, "own/globals-changed", "G2 results were overwritten in place")
		t.Outcome("own/results-g2/ok")
	})

	c.Case("widen/own/results-gt", func(t *engine.T) {
		snap := takeGlobals(t.Quick())
		a := chain("w-a")
		other := expGT(big.NewInt(9))
		mutate := func(r *vh.GT) {
			r.Add(r, r)
			r.ScalarMult(r, big.NewInt(3))
			r.Unmarshal(other)
			r.Add(r, gtGen())
			r.SetOne()
			r.ScalarBaseMult(big.NewInt(5))
			r.Set(gtBase(big.NewInt(11)))
			r.Finalize()
		}
		for _, s := range trackedGT() {
			X := s.mk()
			Y := gtBase(a)
			xw, yw := expGT(s.k), expGT(a)
			prods := []struct {
				name string
				k    *big.Int
				f    func() *vh.GT
			}{
				{"Add(x,y)", new(big.Int).Add(s.k, a), func() *vh.GT { return new(vh.GT).Add(X, Y) }},
				{"Add(y,x)", new(big.Int).Add(s.k, a), func() *vh.GT { return new(vh.GT).Add(Y, X) }},
				{"Add(x,1)", s.k, func() *vh.GT { return new(vh.GT).Add(X, new(vh.GT).SetOne()) }},
				{"Set(x)", s.k, func() *vh.GT { return new(vh.GT).Set(X) }},
				{"ScalarMult(x,1)", s.k, func() *vh.GT { return new(vh.GT).ScalarMult(X, one) }},
				{"ScalarMult(x,0)", big.NewInt(0), func() *vh.GT { return new(vh.GT).ScalarMult(X, big.NewInt(0)) }},
				{"ScalarMult(x,a)", new(big.Int).Mul(s.k, a), func() *vh.GT { return new(vh.GT).ScalarMult(X, a) }},
				{"ScalarMultGT(x,1)", s.k, func() *vh.GT { r, _ := vh.ScalarMultGT(X, k32(one)); return r }},
				{"ScalarMultGT(x,0)", big.NewInt(0), func() *vh.GT { r, _ := vh.ScalarMultGT(X, k32(big.NewInt(0))); return r }},
				{"ScalarMultGT(x,a)", new(big.Int).Mul(s.k, a), func() *vh.GT { r, _ := vh.ScalarMultGT(X, k32(a)); return r }},
			}
			for _, p := range prods {
				want := expGT(p.k)
				r := p.f()
				eq(t, "own/gt/result-wrong/"+p.name, encGT(r), want, "%s with x from %s", p.name, s.name)
				mutate(r)
				eq(t, "own/gt/operand-changes-when-result-is-overwritten/"+p.name, encGT(X), xw, "x (%s) after the result of %s was overwritten in place", s.name, p.name)
				eq(t, "own/gt/operand-changes-when-result-is-overwritten/"+p.name, encGT(Y), yw, "y after the result of %s was overwritten in place", p.name)
				eq(t, "own/gt/second-call-differs/"+p.name, encGT(p.f()), want, "%s again, x from %s", p.name, s.name)
			}
			t.Nontrivial("own/results-gt/" + s.name)
		}
		// the pairing and the Miller function: results for the generators, for infinity arguments and for generic arguments
		b := chain("w-b")
		pairs := []struct {
			name string
			k    *big.Int
			p    *vh.G1
			q    *vh.G2
		}{
			{"generators", one, vh.Gen1, vh.Gen2},
			{"generator-copies", one, new(vh.G1).Set(vh.Gen1), new(vh.G2).Set(vh.Gen2)},
			{"inf,Q", big.NewInt(0), g1Base(big.NewInt(0)), g2Base(b)},
			{"P,inf", big.NewInt(0), g1Base(a), g2Base(big.NewInt(0))},
			{"inf,inf", big.NewInt(0), g1Base(big.NewInt(0)), g2Base(big.NewInt(0))},
			{"generic", new(big.Int).Mul(a, b), g1Base(a), g2Base(b)},
			{"Gen1,Q", b, vh.Gen1, g2Base(b)},
			{"P,Gen2", a, g1Base(a), vh.Gen2},
		}
		for _, p := range pairs {
			want := expGT(p.k)
			pw, qw := encG1(p.p), encG2(p.q)
			r := vh.Pair(p.p, p.q)
			eq(t, "own/gt/result-wrong/Pair", encGT(r), want, "Pair(%s)", p.name)
			mutate(r)
			eq(t, "own/gt/second-call-differs/Pair", vh.Pair(p.p, p.q).Marshal(), want, "Pair(%s) after the first result was overwritten in place", p.name)
			if p.k.Sign() != 0 {
				m := vh.Miller(p.p, p.q)
				m2 := encGT(m)
				mutate(m)
				eq(t, "own/gt/second-call-differs/Miller", vh.Miller(p.p, p.q).Marshal(), m2, "Miller(%s) after the first result was overwritten in place", p.name)
				eq(t, "own/gt/second-call-differs/Miller", vh.Miller(p.p, p.q).Finalize().Marshal(), want, "Miller(%s).Finalize()", p.name)
			}
			eq(t, "own/g1/operand-changes-when-result-is-overwritten/Pair", encG1(p.p), pw, "P of Pair(%s)", p.name)
			eq(t, "own/g2/operand-changes-when-result-is-overwritten/Pair", encG2(p.q), qw, "Q of Pair(%s)", p.name)
			t.Nontrivial("own/results-gt/pair/" + p.name)
		}
		snap.check(t, "own/globals-changed", "GT results were overwritten in place")

		// a precomputed table is independent of its base point and of the results computed with it
		k := chain("own-k")
		var prevTab *[32 * 2]vh.GTFieldTable
		var prevWant []byte
		for _, s := range trackedGT() {
			X := s.mk()
			tab := vh.GenerateGTFieldTable(X)
			want := expGT(new(big.Int).Mul(s.k, k))
			mutate(X)
			r, err := vh.ScalarBaseMultGT(tab, k32(k))
			if err != nil {
				t.Fail("own/gt-table/error", "%v", err)
				continue
			}
			eq(t, "own/gt-table/depends-on-base-object-after-construction", encGT(r), want, "ScalarBaseMultGT(table(x), k) after x (%s) was overwritten in place", s.name)
			for w := int64(1); w <= 15; w++ { // every entry of the first row (the entries closest to the base itself)
				r, _ := vh.ScalarBaseMultGT(tab, k32(big.NewInt(w)))
				eq(t, "own/gt-table/depends-on-base-object-after-construction", r.Marshal(), expGT(new(big.Int).Mul(s.k, big.NewInt(w))), "ScalarBaseMultGT(table(x), %d) after x (%s) was overwritten in place", w, s.name)
			}
			// two tables used alternately
			if prevTab != nil {
				r, _ := vh.ScalarBaseMultGT(prevTab, k32(k))
				eq(t, "own/gt-table/two-tables-interfere", r.Marshal(), prevWant, "the previous table after the table of %s was built and used", s.name)
				r, _ = vh.ScalarBaseMultGT(tab, k32(k))
				eq(t, "own/gt-table/two-tables-interfere", r.Marshal(), want, "the table of %s after the previous table was used again", s.name)
			}
			prevTab, prevWant = tab, want
			// every row with a window value: overwrite the result in place, ask again
			for i, ks := range tableScalars(t.Quick()) {
				wantRow := expGT(new(big.Int).Mul(s.k, ks))
				r, _ := vh.ScalarBaseMultGT(tab, k32(ks))
				if i%7 == 0 || !t.Quick() {
					eq(t, "own/gt-table/row-wrong", encGT(r), wantRow, "ScalarBaseMultGT(table(%s), %x)", s.name, ks)
				}
				mutate(r)
				r2, _ := vh.ScalarBaseMultGT(tab, k32(ks))
				eq(t, "own/gt-table/changes-when-result-is-overwritten", r2.Marshal(), wantRow, "ScalarBaseMultGT(table(%s), %x) after its first result was overwritten in place", s.name, ks)
				if s.k.Sign() == 0 || (s.name != "pair" && i >= 8) {
					break
				}
			}
			t.Nontrivial("own/gt-table/" + s.name)
		}
		t.Outcome("own/results-gt/ok")
	})
}

// ---------------------------------------------------------------------------------------------
// alias/

func runAliasing(c *engine.Ctx) {
	c.Case("widen/alias/g1", func(t *engine.T) {
		src := trackedG1()
		holder := func() *vh.G1 { return g1Base(chain("alias-holder")) }
		for _, sa := range src {
			for _, sb := range src {
				want := expG1(new(big.Int).Add(sa.k, sb.k))
				aw, bw := expG1(sa.k), expG1(sb.k)
				desc := sa.name + "+" + sb.name
				A, B := sa.mk(), sb.mk()
				eq(t, "alias/g1/add/fresh-destination", new(vh.G1).Add(A, B).Marshal(), want, "new.Add(a,b) %s", desc)
				eq(t, "alias/g1/add/operand-modified", encG1(A), aw, "a after new.Add(a,b) %s", desc)
				eq(t, "alias/g1/add/operand-modified", encG1(B), bw, "b after new.Add(a,b) %s", desc)
				A, B = sa.mk(), sb.mk()
				e := holder()
				eq(t, "alias/g1/add/used-destination", e.Add(A, B).Marshal(), want, "used.Add(a,b) %s", desc)
				A, B = sa.mk(), sb.mk()
				A.Add(A, B)
				eq(t, "alias/g1/add/dst=a", encG1(A), want, "a.Add(a,b) %s", desc)
				eq(t, "alias/g1/add/operand-modified", encG1(B), bw, "b after a.Add(a,b) %s", desc)
				A, B = sa.mk(), sb.mk()
				B.Add(A, B)
				eq(t, "alias/g1/add/dst=b", encG1(B), want, "b.Add(a,b) %s", desc)
				eq(t, "alias/g1/add/operand-modified", encG1(A), aw, "a after b.Add(a,b) %s", desc)
				t.Nontrivial("alias/g1/" + desc)
			}
			dbl := expG1(new(big.Int).Lsh(sa.k, 1))
			aw := expG1(sa.k)
			A := sa.mk()
			eq(t, "alias/g1/add/a=b", new(vh.G1).Add(A, A).Marshal(), dbl, "new.Add(a,a) %s", sa.name)
			eq(t, "alias/g1/add/operand-modified", encG1(A), aw, "a after new.Add(a,a) %s", sa.name)
			A = sa.mk()
			A.Add(A, A)
			eq(t, "alias/g1/add/dst=a=b", encG1(A), dbl, "a.Add(a,a) %s", sa.name)
			A = sa.mk()
			eq(t, "alias/g1/add/a=b/used-destination", holder().Add(A, A).Marshal(), dbl, "used.Add(a,a) %s", sa.name)
			A = sa.mk()
			A.Double(A)
			eq(t, "alias/g1/double/dst=a", encG1(A), dbl, "a.Double(a) %s", sa.name)
			A = sa.mk()
			eq(t, "alias/g1/double/used-destination", holder().Double(A).Marshal(), dbl, "used.Double(a) %s", sa.name)
			eq(t, "alias/g1/double/operand-modified", encG1(A), aw, "a after used.Double(a) %s", sa.name)
			A = sa.mk()
			A.Neg(A)
			eq(t, "alias/g1/neg/dst=a", encG1(A), expG1(negN(sa.k)), "a.Neg(a) %s", sa.name)
			A = sa.mk()
			eq(t, "alias/g1/neg/used-destination", holder().Neg(A).Marshal(), expG1(negN(sa.k)), "used.Neg(a) %s", sa.name)
			A = sa.mk()
			A.Set(A)
			eq(t, "alias/g1/set/dst=a", encG1(A), aw, "a.Set(a) %s", sa.name)
			A = sa.mk()
			eq(t, "alias/g1/set/used-destination", holder().Set(A).Marshal(), aw, "used.Set(a) %s", sa.name)
			for _, k := range []*big.Int{big.NewInt(0), one, big.NewInt(2), big.NewInt(16), new(big.Int).Sub(nOrd, one), chain("alias-k")} {
				A = sa.mk()
				A.ScalarMult(A, k32(k))
				eq(t, "alias/g1/scalar-mult/dst=a", encG1(A), expG1(new(big.Int).Mul(sa.k, k)), "a.ScalarMult(a,%x) %s", k, sa.name)
				A = sa.mk()
				r, _ := holder().ScalarMult(A, k32(k))
				eq(t, "alias/g1/scalar-mult/used-destination", r.Marshal(), expG1(new(big.Int).Mul(sa.k, k)), "used.ScalarMult(a,%x) %s", k, sa.name)
				eq(t, "alias/g1/scalar-mult/operand-modified", encG1(A), aw, "a after used.ScalarMult(a,%x) %s", k, sa.name)
			}
		}
		t.Outcome("alias/g1/ok")
	})
	c.Case("widen/alias/g2", func(t *engine.T) {
		src := trackedG2()
		holder := func() *vh.G2 { return g2Base(chain("alias-holder")) }
		for _, sa := range src {
			for _, sb := range src {
				want := expG2(new(big.Int).Add(sa.k, sb.k))
				aw, bw := expG2(sa.k), expG2(sb.k)
				desc := sa.name + "+" + sb.name
				A, B := sa.mk(), sb.mk()
				eq(t, "alias/g2/add/fresh-destination", new(vh.G2).Add(A, B).Marshal(), want, "new.Add(a,b) %s", desc)
				eq(t, "alias/g2/add/operand-modified", encG2(A), aw, "a after new.Add(a,b) %s", desc)
				eq(t, "alias/g2/add/operand-modified", encG2(B), bw, "b after new.Add(a,b) %s", desc)
				A, B = sa.mk(), sb.mk()
				eq(t, "alias/g2/add/used-destination", holder().Add(A, B).Marshal(), want, "used.Add(a,b) %s", desc)
				A, B = sa.mk(), sb.mk()
				A.Add(A, B)
				eq(t, "alias/g2/add/dst=a", encG2(A), want, "a.Add(a,b) %s", desc)
				eq(t, "alias/g2/add/operand-modified", encG2(B), bw, "b after a.Add(a,b) %s", desc)
				A, B = sa.mk(), sb.mk()
				B.Add(A, B)
				eq(t, "alias/g2/add/dst=b", encG2(B), want, "b.Add(a,b) %s", desc)
				eq(t, "alias/g2/add/operand-modified", encG2(A), aw, "a after b.Add(a,b) %s", desc)
				t.Nontrivial("alias/g2/" + desc)
			}
			dbl := expG2(new(big.Int).Lsh(sa.k, 1))
			aw := expG2(sa.k)
			A := sa.mk()
			eq(t, "alias/g2/add/a=b", new(vh.G2).Add(A, A).Marshal(), dbl, "new.Add(a,a) %s", sa.name)
			eq(t, "alias/g2/add/operand-modified", encG2(A), aw, "a after new.Add(a,a) %s", sa.name)
			A = sa.mk()
			A.Add(A, A)
			eq(t, "alias/g2/add/dst=a=b", encG2(A), dbl, "a.Add(a,a) %s", sa.name)
			A = sa.mk()
			eq(t, "alias/g2/add/a=b/used-destination", holder().Add(A, A).Marshal(), dbl, "used.Add(a,a) %s", sa.name)
			A = sa.mk()
			A.Neg(A)
			eq(t, "alias/g2/neg/dst=a", encG2(A), expG2(negN(sa.k)), "a.Neg(a) %s", sa.name)
			A = sa.mk()
			eq(t, "alias/g2/neg/used-destination", holder().Neg(A).Marshal(), expG2(negN(sa.k)), "used.Neg(a) %s", sa.name)
			A = sa.mk()
			A.Set(A)
			eq(t, "alias/g2/set/dst=a", encG2(A), aw, "a.Set(a) %s", sa.name)
			A = sa.mk()
			eq(t, "alias/g2/set/used-destination", holder().Set(A).Marshal(), aw, "used.Set(a) %s", sa.name)
			for _, k := range []*big.Int{big.NewInt(0), one, big.NewInt(2), big.NewInt(16), new(big.Int).Sub(nOrd, one), chain("alias-k")} {
				A = sa.mk()
				A.ScalarMult(A, k32(k))
				eq(t, "alias/g2/scalar-mult/dst=a", encG2(A), expG2(new(big.Int).Mul(sa.k, k)), "a.ScalarMult(a,%x) %s", k, sa.name)
				A = sa.mk()
				r, _ := holder().ScalarMult(A, k32(k))
				eq(t, "alias/g2/scalar-mult/used-destination", r.Marshal(), expG2(new(big.Int).Mul(sa.k, k)), "used.ScalarMult(a,%x) %s", k, sa.name)
				eq(t, "alias/g2/scalar-mult/operand-modified", encG2(A), aw, "a after used.ScalarMult(a,%x) %s", k, sa.name)
			}
		}
		t.Outcome("alias/g2/ok")
	})
	c.Case("widen/alias/gt", func(t *engine.T) {
		src := trackedGT()
		holder := func() *vh.GT { return gtBase(chain("alias-holder")) }
		for _, sa := range src {
			for _, sb := range src {
				want := expGT(new(big.Int).Add(sa.k, sb.k))
				aw, bw := expGT(sa.k), expGT(sb.k)
				desc := sa.name + "*" + sb.name
				A, B := sa.mk(), sb.mk()
				eq(t, "alias/gt/add/fresh-destination", new(vh.GT).Add(A, B).Marshal(), want, "new.Add(a,b) %s", desc)
				eq(t, "alias/gt/add/operand-modified", encGT(A), aw, "a after new.Add(a,b) %s", desc)
				eq(t, "alias/gt/add/operand-modified", encGT(B), bw, "b after new.Add(a,b) %s", desc)
				A, B = sa.mk(), sb.mk()
				eq(t, "alias/gt/add/used-destination", holder().Add(A, B).Marshal(), want, "used.Add(a,b) %s", desc)
				A, B = sa.mk(), sb.mk()
				A.Add(A, B)
				eq(t, "alias/gt/add/dst=a", encGT(A), want, "a.Add(a,b) %s", desc)
				eq(t, "alias/gt/add/operand-modified", encGT(B), bw, "b after a.Add(a,b) %s", desc)
				A, B = sa.mk(), sb.mk()
				B.Add(A, B)
				eq(t, "alias/gt/add/dst=b", encGT(B), want, "b.Add(a,b) %s", desc)
				eq(t, "alias/gt/add/operand-modified", encGT(A), aw, "a after b.Add(a,b) %s", desc)
				t.Nontrivial("alias/gt/" + desc)
			}
			sq := expGT(new(big.Int).Lsh(sa.k, 1))
			aw := expGT(sa.k)
			A := sa.mk()
			eq(t, "alias/gt/add/a=b", new(vh.GT).Add(A, A).Marshal(), sq, "new.Add(a,a) %s", sa.name)
			eq(t, "alias/gt/add/operand-modified", encGT(A), aw, "a after new.Add(a,a) %s", sa.name)
			A = sa.mk()
			A.Add(A, A)
			eq(t, "alias/gt/add/dst=a=b", encGT(A), sq, "a.Add(a,a) %s", sa.name)
			A = sa.mk()
			eq(t, "alias/gt/add/a=b/used-destination", holder().Add(A, A).Marshal(), sq, "used.Add(a,a) %s", sa.name)
			A = sa.mk()
			A.Set(A)
			eq(t, "alias/gt/set/dst=a", encGT(A), aw, "a.Set(a) %s", sa.name)
			A = sa.mk()
			eq(t, "alias/gt/set/used-destination", holder().Set(A).Marshal(), aw, "used.Set(a) %s", sa.name)
			for _, k := range []*big.Int{big.NewInt(0), one, big.NewInt(2), big.NewInt(16), new(big.Int).Sub(nOrd, one), chain("alias-k")} {
				A = sa.mk()
				A.ScalarMult(A, k)
				eq(t, "alias/gt/scalar-mult/dst=a", encGT(A), expGT(new(big.Int).Mul(sa.k, k)), "a.ScalarMult(a,%x) %s", k, sa.name)
				A = sa.mk()
				eq(t, "alias/gt/scalar-mult/used-destination", holder().ScalarMult(A, k).Marshal(), expGT(new(big.Int).Mul(sa.k, k)), "used.ScalarMult(a,%x) %s", k, sa.name)
				eq(t, "alias/gt/scalar-mult/operand-modified", encGT(A), aw, "a after used.ScalarMult(a,%x) %s", k, sa.name)
			}
			// Finalize works in place on a copy of a Miller value
			if sa.name == "pair" {
				a, b := chain("w-a"), chain("w-b")
				m := vh.Miller(g1Base(a), g2Base(b))
				cp := new(vh.GT).Set(m)
				mw := encGT(m)
				eq(t, "alias/gt/finalize/copy", cp.Finalize().Marshal(), aw, "Set(Miller(P,Q)).Finalize()")
				eq(t, "alias/gt/finalize/original-modified", encGT(m), mw, "Miller value after a copy of it was finalised")
				eq(t, "alias/gt/finalize/returned-receiver", encGT(cp), aw, "receiver after Finalize()")
			}
		}
		t.Outcome("alias/gt/ok")
	})
}
