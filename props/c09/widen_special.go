package c09

// special/ — boundary values of the coordinate fields. G1 has prime order n = #E(F_p), so EVERY point of y² = x³ + 5 is
// a multiple of the generator: points are constructed from chosen coordinates instead of chosen scalars:
//   * x in {1, 2, 3, …}, {p-1, p-2, …}, 2^k, 2^k ± 1 (lifted with a square root), y in {1, 2, …}, {p-1, …} (lifted with
//     a cube root, p = 4 mod 9);
//   * x (or y) whose Montgomery representation x·2^256 mod p — the form the field arithmetic of the library works on —
//     has every limb in {0, 1, 2^63, 2^64-1} (thorough: also 2^32-1 and 2^64-2^32): the carry chains of the limb code.
// Each constructed point goes through the decoders (strict accept set, re-encoding), and Add / Double / Neg / ScalarMult /
// the compressed form are compared with the affine big-integer reference; the pairing must be linear in it. Abscissae
// without a point must be refused by the compressed decoder.

import (
	"fmt"
	"math/big"

	vh "github.com/emmansun/gmsm/verifhook"

	"verif/engine"
	"verif/ref/ecref"
	"verif/ref/sm9ref"
)

type specCand struct {
	name string
	isY  bool
	v    *big.Int
}

var montRinv = new(big.Int).ModInverse(new(big.Int).Mod(two256, pFld), pFld)

// cubeRoot returns x with x³ = c (mod p) if c is a cube; p = 4 mod 9, so a cube's root is c^((2p+1)/9).
func cubeRoot(c *big.Int) (*big.Int, bool) {
	e := new(big.Int).Lsh(pFld, 1)
	e.Add(e, one)
	e.Div(e, big.NewInt(9))
	x := new(big.Int).Exp(c, e, pFld)
	chk := new(big.Int).Exp(x, big.NewInt(3), pFld)
	return x, chk.Cmp(new(big.Int).Mod(c, pFld)) == 0
}

func specialCandidates(quick bool) []specCand {
	var out []specCand
	seen := map[string]bool{}
	add := func(name string, isY bool, v *big.Int) {
		if v.Sign() < 0 || v.Cmp(pFld) >= 0 {
			return
		}
		key := fmt.Sprintf("%v/%x", isY, v)
		if seen[key] {
			return
		}
		seen[key] = true
		out = append(out, specCand{name, isY, new(big.Int).Set(v)})
	}
	for _, isY := range []bool{false, true} {
		c := "x"
		if isY {
			c = "y"
		}
		for i := int64(0); i <= 24; i++ {
			add(fmt.Sprintf("%s=%d", c, i), isY, big.NewInt(i))
			add(fmt.Sprintf("%s=p-%d", c, i+1), isY, new(big.Int).Sub(pFld, big.NewInt(i+1)))
		}
		for _, k := range []uint{8, 16, 31, 32, 33, 63, 64, 65, 127, 128, 129, 191, 192, 193, 224, 248, 254, 255} {
			p2 := new(big.Int).Lsh(one, k)
			add(fmt.Sprintf("%s=2^%d", c, k), isY, p2)
			add(fmt.Sprintf("%s=2^%d-1", c, k), isY, new(big.Int).Sub(p2, one))
			add(fmt.Sprintf("%s=2^%d+1", c, k), isY, new(big.Int).Add(p2, one))
			add(fmt.Sprintf("%s=p-2^%d", c, k), isY, new(big.Int).Sub(pFld, p2))
		}
		add(c+"=(p-1)/2", isY, new(big.Int).Rsh(pFld, 1))
		add(c+"=(p+1)/2", isY, new(big.Int).Add(new(big.Int).Rsh(pFld, 1), one))
		// Montgomery limbs
		limbs := []uint64{0, 1, 1 << 63, ^uint64(0)}
		if !quick {
			limbs = append(limbs, 0xffffffff, 0xffffffff00000000)
		}
		for _, l3 := range limbs {
			for _, l2 := range limbs {
				for _, l1 := range limbs {
					for _, l0 := range limbs {
						m := new(big.Int).SetUint64(l3)
						for _, l := range []uint64{l2, l1, l0} {
							m.Lsh(m, 64)
							m.Or(m, new(big.Int).SetUint64(l))
						}
						if m.Cmp(pFld) >= 0 {
							continue
						}
						v := new(big.Int).Mul(m, montRinv)
						v.Mod(v, pFld)
						add(fmt.Sprintf("mont(%s)=%016x:%016x:%016x:%016x", c, l3, l2, l1, l0), isY, v)
					}
				}
			}
		}
		for _, d := range []int64{1, 2, 3} {
			m := new(big.Int).Sub(pFld, big.NewInt(d))
			v := new(big.Int).Mul(m, montRinv)
			add(fmt.Sprintf("mont(%s)=p-%d", c, d), isY, v.Mod(v, pFld))
		}
		m := new(big.Int).Sub(two256, pFld) // 2^256 - p < p
		v := new(big.Int).Mul(m, montRinv)
		add("mont("+c+")=2^256-p", isY, v.Mod(v, pFld))
	}
	return out
}

// lift returns the points with the chosen coordinate (both signs of the other one where they differ).
func (s specCand) lift() []ecref.Point {
	if !s.isY {
		p0, ok := curve.LiftX(s.v, 0)
		if !ok {
			return nil
		}
		p1, _ := curve.LiftX(s.v, 1)
		return []ecref.Point{p0, p1}
	}
	// y given: x³ = y² − 5; the three cube roots differ by the cube roots of unity — one is enough (with −y it gives a second point)
	c := new(big.Int).Mul(s.v, s.v)
	c.Sub(c, big.NewInt(5))
	c.Mod(c, pFld)
	x, ok := cubeRoot(c)
	if !ok {
		return nil
	}
	p := ecref.Point{X: x, Y: new(big.Int).Set(s.v)}
	if !curve.OnCurve(p) {
		return nil
	}
	return []ecref.Point{p}
}

// boundary values of one F_p component of a G2 coordinate
func fp2ComponentValues(quick bool) []struct {
	name string
	v    *big.Int
} {
	type cv = struct {
		name string
		v    *big.Int
	}
	mont := func(l3, l2, l1, l0 uint64) *big.Int {
		m := new(big.Int).SetUint64(l3)
		for _, l := range []uint64{l2, l1, l0} {
			m.Lsh(m, 64)
			m.Or(m, new(big.Int).SetUint64(l))
		}
		v := new(big.Int).Mul(m, montRinv)
		return v.Mod(v, pFld)
	}
	f := ^uint64(0)
	out := []cv{
		{"0", big.NewInt(0)}, {"1", big.NewInt(1)}, {"2", big.NewInt(2)}, {"3", big.NewInt(3)},
		{"p-1", new(big.Int).Sub(pFld, one)}, {"p-2", new(big.Int).Sub(pFld, big.NewInt(2))},
		{"2^255", new(big.Int).Lsh(one, 255)}, {"2^64-1", new(big.Int).SetUint64(f)},
		{"mont=1", mont(0, 0, 0, 1)}, {"mont=2^64-1", mont(0, 0, 0, f)}, {"mont=2^192-1", mont(0, f, f, f)},
		{"mont=2^255", mont(1<<63, 0, 0, 0)}, {"mont=2^255+2^192-1", mont(1<<63, f, f, f)},
	}
	if !quick {
		out = append(out, cv{"(p-1)/2", new(big.Int).Rsh(pFld, 1)}, cv{"2^128", new(big.Int).Lsh(one, 128)},
			cv{"mont=2^64", mont(0, 0, 1, 0)}, cv{"mont=2^128-2^64", mont(0, 0, f, 0)}, cv{"mont=2^256-p", new(big.Int).Mod(new(big.Int).Mul(new(big.Int).Sub(two256, pFld), montRinv), pFld)},
			cv{"mont=p-1", new(big.Int).Mod(new(big.Int).Mul(new(big.Int).Sub(pFld, one), montRinv), pFld)}, cv{"5", big.NewInt(5)}, cv{"p-5", new(big.Int).Sub(pFld, big.NewInt(5))})
	}
	return out
}

// G2: only the decoders are offered constructed points — a point of the twist with chosen coordinates is in general not
// in the order-n subgroup (the twist has a cofactor), so the group laws are not demanded of it; the decoders' accept set
// ("on the twist, coordinates below p") and the re-encoding are.
func runSpecialG2(c *engine.Ctx) {
	vals := fp2ComponentValues(c.Quick())
	for i, hi := range vals {
		hi := hi
		c.Case(fmt.Sprintf("widen/special/g2/x.hi#%d", i), func(t *engine.T) {
			dec := codecByName("g2/unmarshal")
			decC := codecByName("g2/unmarshal-compressed")
			for _, lo := range vals {
				x := sm9ref.Fp2{A1: hi.v, A0: lo.v}
				desc := fmt.Sprintf("x=(%s)u+(%s)", hi.name, lo.name)
				y, ok := sm9ref.TwistRHS(x).Sqrt()
				if !ok {
					t.Outcome("special/g2/no-point")
					for _, pre := range []byte{2, 3} {
						decC.check(t, append([]byte{pre}, x.Bytes()...), "no-point/"+desc, -1)
					}
					continue
				}
				t.Outcome("special/g2/point")
				for si, yy := range []sm9ref.Fp2{y, y.Neg()} {
					enc := append(x.Bytes(), yy.Bytes()...)
					dec.check(t, enc, fmt.Sprintf("special/%s#%d", desc, si), -1)
					decC.check(t, append([]byte{2 | enc[127]&1}, enc[:64]...), fmt.Sprintf("special/%s#%d", desc, si), -1)
					// the same point with the two coordinates' components swapped is (almost surely) off the twist: refused
					sw := append(append(append(append([]byte{}, enc[32:64]...), enc[:32]...), enc[96:128]...), enc[64:96]...)
					dec.check(t, sw, fmt.Sprintf("special-swapped/%s#%d", desc, si), -1)
				}
				t.Nontrivial("special/g2/" + desc)
			}
		})
	}
}

func runSpecialG1(c *engine.Ctx) {
	cands := specialCandidates(c.Quick())
	const per = 24
	for lo := 0; lo < len(cands); lo += per {
		hi := lo + per
		if hi > len(cands) {
			hi = len(cands)
		}
		part := cands[lo:hi]
		c.Case(fmt.Sprintf("widen/special/g1/%d..%d", lo, hi-1), func(t *engine.T) {
			dec := codecByName("g1/unmarshal")
			decC := codecByName("g1/unmarshal-compressed")
			gRef := curve.G()
			prev := curve.BaseMul(chain("special-prev"))
			ks := []*big.Int{big.NewInt(2), big.NewInt(3), big.NewInt(16), new(big.Int).Sub(nOrd, one), new(big.Int).Set(nOrd), chain("special-k")}
			nm1 := new(big.Int).Sub(nOrd, one)
			for _, cd := range part {
				pts := cd.lift()
				if len(pts) == 0 {
					t.Outcome("special/no-point")
					if !cd.isY {
						// an abscissa without a point: the compressed decoder must refuse it with either prefix
						for _, pre := range []byte{2, 3} {
							decC.check(t, append([]byte{pre}, k32(cd.v)...), "no-point/"+cd.name, -1)
						}
					}
					continue
				}
				t.Outcome("special/point")
				for pi, pr := range pts {
					desc := fmt.Sprintf("%s#%d", cd.name, pi)
					enc := encRef(pr)
					dec.check(t, enc, "special/"+desc, -1)
					dec.check(t, append(append([]byte{}, enc...), 0xee), "special+tail/"+desc, -1)
					decC.check(t, pr.Compressed(), "special/"+desc, -1)
					P := new(vh.G1)
					if _, err := P.Unmarshal(enc); err != nil {
						continue // reported by the decoder oracle above
					}
					fresh := func() *vh.G1 { r := new(vh.G1); r.Unmarshal(enc); return r }
					eq(t, "special/g1/double", new(vh.G1).Double(fresh()).Marshal(), encRef(curve.Add(pr, pr)), "Double(P), P: %s", desc)
					eq(t, "special/g1/add-self", new(vh.G1).Add(fresh(), fresh()).Marshal(), encRef(curve.Add(pr, pr)), "P+P, P: %s", desc)
					eq(t, "special/g1/add-generator", new(vh.G1).Add(fresh(), vh.Gen1).Marshal(), encRef(curve.Add(pr, gRef)), "P+P1, P: %s", desc)
					eq(t, "special/g1/add-generator", new(vh.G1).Add(vh.Gen1, fresh()).Marshal(), encRef(curve.Add(gRef, pr)), "P1+P, P: %s", desc)
					Q := new(vh.G1)
					Q.Unmarshal(encRef(prev))
					eq(t, "special/g1/add-previous", new(vh.G1).Add(fresh(), Q).Marshal(), encRef(curve.Add(pr, prev)), "P+Q, P: %s, Q the previous point", desc)
					eq(t, "special/g1/add-previous", new(vh.G1).Add(new(vh.G1).Double(Q), fresh()).Marshal(), encRef(curve.Add(curve.Add(prev, prev), pr)), "2Q+P (projective first operand), P: %s", desc)
					eq(t, "special/g1/neg", new(vh.G1).Neg(fresh()).Marshal(), encRef(curve.Neg(pr)), "Neg(P), P: %s", desc)
					eq(t, "special/g1/inverse", new(vh.G1).Add(fresh(), new(vh.G1).Neg(fresh())).Marshal(), zero64, "P+(-P), P: %s", desc)
					for _, k := range ks {
						r, err := new(vh.G1).ScalarMult(fresh(), k32(k))
						if err != nil {
							t.Fail("special/g1/scalar-mult-error", "%v", err)
							continue
						}
						eq(t, "special/g1/scalar-mult", r.Marshal(), encRef(curve.Mul(modN(k), pr)), "[%x]P, P: %s", k, desc)
					}
					eq(t, "special/g1/compressed", fresh().MarshalCompressed(), pr.Compressed(), "MarshalCompressed(P), P: %s", desc)
					eq(t, "special/g1/uncompressed", fresh().MarshalUncompressed(), append([]byte{4}, enc...), "MarshalUncompressed(P), P: %s", desc)
					if !fresh().IsOnCurve() {
						t.Fail("special/g1/is-on-curve", "IsOnCurve(P) = false, P: %s", desc)
					}
					// the pairing is linear in P (P has order n: e(P,P2) != 1, e(P,P2)^(n-1) = e(-P,P2), e(2P,P2) = e(P,P2)^2)
					if pi == 0 {
						e := vh.Pair(fresh(), vh.Gen2)
						ee := e.Marshal()
						if string(ee) == string(gtOneEnc()) {
							t.Fail("special/pairing/degenerate", "e(P,P2) = 1, P: %s", desc)
						}
						eq(t, "special/pairing/double", vh.Pair(new(vh.G1).Double(fresh()), vh.Gen2).Marshal(), new(vh.GT).ScalarMult(e, big.NewInt(2)).Marshal(), "e(2P,P2) vs e(P,P2)^2, P: %s", desc)
						eq(t, "special/pairing/neg", vh.Pair(new(vh.G1).Neg(fresh()), vh.Gen2).Marshal(), new(vh.GT).ScalarMult(e, nm1).Marshal(), "e(-P,P2) vs e(P,P2)^(n-1), P: %s", desc)
						eq(t, "special/pairing/add-generator", vh.Pair(new(vh.G1).Add(fresh(), vh.Gen1), vh.Gen2).Marshal(), new(vh.GT).Add(e, gtGen()).Marshal(), "e(P+P1,P2) vs e(P,P2)e(P1,P2), P: %s", desc)
					}
					prev = pr
					t.Nontrivial("special/g1/" + desc)
				}
			}
		})
	}
}
