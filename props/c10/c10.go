// Package c10: SM9 sign / key wrap / encrypt / key exchange through the public github.com/emmansun/gmsm/sm9 API:
// completeness against reference-anchored absolute expectations, soundness against alteration (E3),
// serialisation round trips, and byte-identical transcripts on every dispatch tier (E6).
package c10

import (
	"bytes"
	"crypto/sha256"
	"encoding/hex"
	"fmt"
	"hash"
	"math/big"

	"verif/engine"
	"verif/ref/ecref"
	"verif/ref/padref"
	"verif/ref/sm3ref"
	"verif/ref/sm4ref"
	"verif/ref/sm9ref"
)

type Prop struct{}

func (Prop) ID() string    { return "C10" }
func (Prop) Level() string { return "exploration" }
func (Prop) Configs(tier string) []string {
	// SM3 KDF lanes (avx2 / avx / sse), bn256+bigmod assembly (bmi2/adx), SM4 (aes-ni vs table), generic Go.
	return []string{"c-default", "c-noavx2", "c-sse", "c-nobmi2", "c-noaes", "c-purego"}
}
func (Prop) SelfTest() error {
	if err := sm9ref.SelfTest(); err != nil {
		return err
	}
	if err := sm4ref.SelfTest(); err != nil {
		return err
	}
	return padref.SelfTest()
}
func (Prop) Rule() string {
	return "One deterministic transcript per configuration (scripted io.Reader: the ephemeral scalar r and the IV are chosen by the case, so every output byte is a function of the case). " +
		"Argument layout is part of the alphabet: every uid is followed in its own backing array by the live message / peer uid of the same call (record layout), so results must not depend on what lies behind an argument, and no argument may be modified. " +
		"KDF-alignment sweep: every uid length 0..130 x key lengths in every multi-lane class (97, 225, 260; thorough 33..520) for wrap/unwrap. " +
		"Completeness, absolute oracle per case: master public keys and user keys = [ks]P / [ks*(H1(ID||hid)+ks)^-1 mod n]P with H1 and the scalar from the reference (G1 by affine big-integer arithmetic); " +
		"signature (h,S) and its DER encoding = (H2(M||g^r), [(r-h) mod n]ds) recomputed, then re-verified by the pairing equation and accepted by Verify/VerifyASN1; " +
		"wrapped key C = [r]Q_B, K = KDF(C||g^r||ID, klen) recomputed with the reference SM3-KDF for the full product uid length {0,1,5,55,56,59,60,61,62,63,64,65,127,128,200} x key length {1,16,31,32,33,64,65,66,97,200} (raw, BIT STRING and SM9KeyPackage forms, three unwrap forms); " +
		"ciphertext C1||C3||C2 and its SM9Cipher DER form recomputed (C2 = M xor K1, or SM4 ECB/CBC/CFB/OFB under K1 through crypto/cipher over the reference SM4, C3 = SM3(C2||K2)) for XOR over the same full product and for every mode x {raw, ASN.1} x payload length (thorough: x every uid length), decrypted through every decrypt entry point; " +
		"key exchange RA, RB, SB, SA, SK recomputed from g^rA, g^rB, g^(rA*rB) x {with, without confirmation} x key lengths x uid lengths; star axes: master scalars {1,2,n-2,3 generic}, hid {1,3,0xff}, r {1,2,n-1,generic}; thorough tier: full product of 3-element subsets of every axis. " +
		"GM/T 0044.5 annex A/B/C/D values are reproduced through the public API. " +
		"Soundness (E3): every byte x {^01,^80,00,01,7f,80,ff,+1,-1}, every truncation, extensions and DER-structural edits of signatures, wrapped keys and ciphertexts (raw and ASN.1; quick: XOR/32, CBC/32 and the ASN.1 form of CFB/33, thorough: all five modes x payload {1,32,33}; thorough also all 2-deviation substitutions of h||S), coordinate+p forms of S/C1/C, other uid / hid / message: all rejected (wrapped keys: error or a different key), none panics; key-exchange confirmations and ephemeral points altered byte by byte are refused. " +
		"Serialisation: the six key types x {raw, ASN.1, compressed, SEQUENCE-with-master-public-key, PEM} parse back to Equal keys that produce identical outputs. " +
		"Portability: each case registers the SHA-256 of all library outputs as an outcome (case name + digest); the engine merges outcomes over all configurations, so when every configuration produced the same bytes " +
		"distinct_outcomes equals the number of distinct cases (= cases / number of configurations); since every configuration is additionally compared with the same configuration-independent reference expectation, byte-equality across configurations follows, and artefacts of one build are by construction the artefacts every other build consumes in its own run. " +
		"Widened input dimensions (widen*.go), same references: " +
		"own/ = every slice returned by Bytes / Marshal* of the six key types, by sign, wrap, unwrap, encrypt, decrypt and by every key-exchange step is overwritten by the harness to its full capacity after it was compared and the call is repeated on the same objects (3-4 rounds); two results of the same call alive at once must not share memory; the identity slices given to NewKeyExchange, the buffer that held the peer's RA, and the buffers 28 key encodings were parsed from are overwritten after the call returned: the objects must keep giving the reference answers and must not have modified the arguments. " +
		"layout/ = all slice arguments of a scenario as adjacent fields of one array in every order (sign: msg,uid; verify: uid,msg,sig x {DER, (h,S)}; wrap/unwrap: uid,cipher x 3 cipher forms; encrypt: uid,msg; decrypt: uid,ct x {raw, ASN.1} x 5 modes; key exchange: idA,idB,RA,RB,SB,SA in 4 orders), capacities reaching to the end of the record plus 1 KiB of dirty slack, every call twice on the same record, uid lengths {5,0} (thorough +{1,63,64}); plaintext capacity classes {0, 1, padded-1, padded, padded+1, 400} dirty x 4 modes; arguments that are the same memory or overlap (uid == msg, msg starting inside uid, uid inside msg, uid == peerUID): results = reference, no field modified (writes into the slack are counted, not judged). " +
		"integrity/ = verify / unwrap / decrypt (5 modes x raw, ASN.1): inputs unchanged after accepting and after refusing calls, and refused call (other message / uid / hid / key, damaged artefact) then good call on the same buffers and objects. " +
		"history/ = every ordered pair of 7 (uid, hid, klen) states of WrapKey on one master public key, of 8 verdict states of VerifyASN1 on one master public key, of 10 (mode, length) states of Encrypt/EncryptASN1 and of Decrypt/DecryptASN1 (Eulerian sequence); two master keys alternately; first use of a freshly parsed key through 8 + 10 entry points; key-exchange objects: second session, after Destroy, abandoned Init, refused message then genuine one (then: error or the defined value), two sessions interleaved with swapped roles. " +
		"lanes/ = key exchange x every residue of the KDF input mod 64 x key lengths {129, 225, 385} (thorough 33..800: every combination of 8-lane rounds, 4-lane remainder and single blocks); XOR encryption x every uid residue x payload {97, 193, 353}; H2 over message lengths 0..130; H1 on the signature side over uid lengths 0..70; every payload length 1..48 (XOR and thorough: 1..130) for every mode; uid 255/256/1000 with keys up to 4099 bytes. " +
		"variant/ = New{ECB,CBC}EncrypterOpts x {PKCS#7, ANSI X9.23, ISO 9797-1 method 2, method 3} (verif/ref/padref) and New{CFB,OFB}EncrypterOpts x {SM4, AES-128, AES-192, AES-256} x payload {1,15,16,17,40}, raw and SM9Cipher encodings recomputed; hid {0,2,4,0x7f,0x80,0xfe}; nil and empty uid / message; every documented form of the crypto.Decrypter options; the method form pub.Encrypt and nil options on both ASN.1 entry points. " +
		"shape/ = C.x, C.y, g^r (first and last coordinate), l, ks (< 2^248, < 2^240, top bit set), Ppub-e, Ppub-s, ds, de with a zero top byte, found by deterministic search. " +
		"degenerate/ = ks = H1(ID||hid) (user public key is a doubling; sign, encrypt, key-exchange peer), ks = n - H1(ID||hid) (no user key: GenerateUserKey must fail), a scalar whose one-byte wrapped key is 00 (WrapKey must not return it), first random block in {0, n, n+1, 2^256-1} (artefacts must be valid for the recipient; which block is used next is recorded, not judged)."
}
func (Prop) Assumptions() []string {
	return []string{
		"H1/H2/KDF/MAC, the user-key scalar, all G1 points and all DER encodings are recomputed independently (verif/ref/sm9ref, ecref, sm3ref, sm4ref); GT values g^r are obtained from the library's own pairing and generic square-and-multiply through verifhook (a different route than the table-driven one used by the schemes) and are pinned by C09 and by the GM/T 0044.5 annex values",
		"the IV-prefixed layout of C2 for CBC/CFB/OFB and PKCS#7 padding for ECB/CBC are the library's documented choices and are mirrored by the reference",
		"mutants that only change the (unauthenticated) EncType INTEGER of an SM9Cipher to another supported mode are only required not to panic",
		"key lengths 0 (WrapKey would never terminate) and empty plaintexts (documented error) are not part of the product; empty inputs to the Unmarshal*Raw/ASN1 key parsers belong to C13",
		"uid/payload/message contents are fixed deterministic patterns; only lengths, scalars and modes are enumerated",
		"dispatch tiers are those reachable on this amd64 host via GODEBUG=cpu.*=off and -tags purego; arm64/ppc64le/s390x assembly is not covered",
		"ownership oracles (own/): a slice the library returned and a slice the library was given belong to the caller as soon as the call has returned; results of UnmarshalSM9KeyPackage may point into its input (not judged); DecrypterOptsWithUID is a plain struct that holds the caller's uid by design (not judged)",
		"after a refused key-exchange message the same object may either refuse to go on or continue with the defined values; both are accepted",
		"custom EncrypterOpts are checked in the raw encoding and in the SM9Cipher encoding on the encryption side; DecryptASN1 is documented to assume SM4 with PKCS#7 and is only used for those",
		"AES in the variant/ family is Go's crypto/aes on both sides (the code under test is the option plumbing: key size, KDF length, padding, IV placement), SM4 is the reference SM4",
	}
}

var (
	curve  = ecref.SM9G1()
	nOrd   = curve.N
	pFld   = curve.P
	one    = big.NewInt(1)
	two256 = new(big.Int).Lsh(one, 256)
)

var (
	uidLens     = []int{0, 1, 5, 55, 56, 59, 60, 61, 62, 63, 64, 65, 127, 128, 200}
	payloadLens = []int{1, 16, 31, 32, 33, 64, 65, 66, 97, 200}
	msgLens     = []int{0, 1, 20, 31, 32, 33, 55, 56, 63, 64, 65, 200}
	kxKeyLens   = []int{1, 16, 32, 97, 200}
	hids        = []byte{1, 3, 0xff}
)

const (
	baseUIDLen = 5
	basePayLen = 33
)

func k32(k *big.Int) []byte { b := make([]byte, 32); k.FillBytes(b); return b }

// chain returns a deterministic generic scalar in [1, n-2] derived from a label.
func chain(label string) *big.Int {
	d := sm3ref.Sum([]byte("verif/c10/" + label))
	v := new(big.Int).SetBytes(d[:])
	v.Mod(v, new(big.Int).Sub(nOrd, big.NewInt(2)))
	return v.Add(v, one)
}

func masterScalars() []*big.Int {
	return []*big.Int{big.NewInt(1), big.NewInt(2), new(big.Int).Sub(nOrd, big.NewInt(2)), chain("master0"), chain("master1"), chain("master2")}
}

func rScalars() []*big.Int {
	return []*big.Int{big.NewInt(1), big.NewInt(2), new(big.Int).Sub(nOrd, one), chain("r0"), chain("r1")}
}

// argGuards: every uid / message handed to the library is a sub-slice of a larger buffer whose spare capacity holds
// live (non-zero) bytes, as in a record uid||message; transcript.finish verifies that no call wrote into it or
// changed the argument itself.
type argGuard struct {
	buf  []byte
	n    int
	orig []byte
	what string
}

var argGuards []argGuard

const guardSpare = 272

func guarded(b []byte, what string) []byte {
	buf := make([]byte, len(b)+guardSpare)
	copy(buf, b)
	for i := len(b); i < len(buf); i++ {
		buf[i] = 0xE1 ^ byte(i)
	}
	argGuards = append(argGuards, argGuard{buf: buf, n: len(b), orig: append([]byte{}, b...), what: what})
	return buf[:len(b):len(buf)]
}

func checkArgGuards(t *engine.T) {
	for _, g := range argGuards {
		if !bytes.Equal(g.buf[:g.n], g.orig) {
			t.Fail("caller-memory/"+g.what+"-modified", "a %s argument of %d bytes was modified by the library: %x -> %x", g.what, g.n, g.orig, g.buf[:g.n])
		}
		// writes into the spare capacity are not judged by themselves (padding in place is append-like); what is
		// judged is the property-level effect when another live argument of the same call sits there: see after().
	}
	argGuards = argGuards[:0]
}

// after places a copy of m directly behind uid in uid's own backing array (record layout uid||m) and returns that
// copy, so that a library call receiving both sees two adjacent live arguments. The expected values are always
// computed from the original m.
func after(uid, m []byte) []byte {
	if len(m) == 0 || len(m) > cap(uid)-len(uid) {
		return m
	}
	t := uid[len(uid) : len(uid)+len(m) : len(uid)+len(m)]
	copy(t, m)
	return t
}

func uidOf(n int) []byte {
	b := make([]byte, n)
	for i := range b {
		b[i] = byte(0x41 + (i*7+n*3)%53)
	}
	return guarded(b, "uid")
}

func msgOf(n int) []byte {
	b := make([]byte, n)
	for i := range b {
		b[i] = byte(i*11+n*5+3) ^ byte(i>>8)
	}
	return guarded(b, "message")
}

func unhex(s string) []byte {
	b, err := hex.DecodeString(s)
	if err != nil {
		panic(err)
	}
	return b
}

func hx(b []byte) string {
	if len(b) > 96 {
		return hex.EncodeToString(b[:48]) + "…" + hex.EncodeToString(b[len(b)-48:]) + fmt.Sprintf("(%dB)", len(b))
	}
	return hex.EncodeToString(b)
}

// transcript accumulates every library output of a case.
type transcript struct {
	h hash.Hash
	n int
}

func newTranscript() *transcript { return &transcript{h: sha256.New()} }
func (d *transcript) add(label string, b []byte) {
	fmt.Fprintf(d.h, "%s:%d:", label, len(b))
	d.h.Write(b)
	d.n++
}
func (d *transcript) addBool(label string, v bool) {
	if v {
		d.add(label, []byte{1})
	} else {
		d.add(label, []byte{0})
	}
}
func (d *transcript) addErr(label string, err error) { d.addBool(label, err == nil) }
func (d *transcript) finish(t *engine.T) {
	checkArgGuards(t)
	t.Outcome(t.Name + ":" + hex.EncodeToString(d.h.Sum(nil)))
	t.Extra("transcript_cases", 1)
	t.Extra("transcript_outputs", d.n)
}

// kdfKey attributes a mismatch to the SM3 multi-lane KDF alignment class when the KDF input length is
// 60..63 mod 64 and at least four output blocks are requested (the shape of the defect fixed in e6ea210).
func kdfKey(base string, zlen, klen int) string {
	if zlen%64 >= 60 && klen > 96 {
		return "kdf-alignment/" + base + "/zmod64=60..63/blocks>=4"
	}
	return base
}

func eq(t *engine.T, key string, got, want []byte, format string, a ...any) bool {
	t.Eval(1)
	if bytes.Equal(got, want) {
		return true
	}
	t.Fail(key, "%s: got %s want %s (first difference at byte %d)", fmt.Sprintf(format, a...), hx(got), hx(want), engine.FirstDiff(got, want))
	return false
}

func (Prop) Run(c *engine.Ctx) {
	runStandard(c)
	runWrapProduct(c)
	runKdfAlignmentSweep(c)
	runEncXorProduct(c)
	runEncModes(c)
	runSign(c)
	runSignShapes(c)
	runStar(c)
	runKX(c)
	runSerial(c)
	runSound(c)
	runWiden(c)
	if !c.Quick() {
		runEncModesProduct(c)
		runThoroughProduct(c)
	}
}
