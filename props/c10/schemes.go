package c10

import (
	"bytes"
	"fmt"
	"math/big"

	"github.com/emmansun/gmsm/sm9"

	"verif/engine"
	"verif/ref/sm9ref"
)

// ---------------------------------------------------------------------------------------------
// sign / verify

// checkSign signs msg with the scripted scalar r through the three signing entry points, compares with the
// recomputed signature, re-verifies by the equation and through the three verification entry points.
func checkSign(t *engine.T, d *transcript, w *signWorld, msg []byte, r *big.Int, tag string) (der []byte, hExp *big.Int, sExp []byte) {
	hExp, sExp, derExp, ok := w.expectSig(msg, r)
	if !ok {
		return nil, nil, nil // l = 0: the signer would re-draw; not reachable with the declared scalars
	}
	var sig []byte
	var err error
	if t.Guard("sign", func() { sig, err = sm9.SignASN1(reader(k32(r)), w.user, msg) }) {
		return nil, nil, nil
	}
	if err != nil {
		t.Fail("sign/error", "%s: SignASN1: %v", tag, err)
		return nil, nil, nil
	}
	d.add("sig", sig)
	if !eq(t, "sign/signature-mismatch", sig, derExp, "%s: SignASN1 (uid %d bytes, hid %d, msg %d bytes, r=%x) vs (H2(M||g^r), [(r-h) mod n]ds)", tag, len(w.uid), w.hid, len(msg), r) {
		return nil, nil, nil
	}
	var sig2 []byte
	if !t.Guard("sign", func() { sig2, err = w.user.Sign(reader(k32(r)), msg, nil) }) {
		if err != nil {
			t.Fail("sign/error", "%s: SignPrivateKey.Sign: %v", tag, err)
		} else {
			d.add("sig2", sig2)
			eq(t, "sign/signature-mismatch", sig2, derExp, "%s: SignPrivateKey.Sign", tag)
		}
	}
	var hb *big.Int
	var sb []byte
	if !t.Guard("sign", func() { hb, sb, err = sm9.Sign(reader(k32(r)), w.user, msg) }) {
		if err != nil {
			t.Fail("sign/error", "%s: sm9.Sign: %v", tag, err)
		} else {
			d.add("h", hb.Bytes())
			d.add("S", sb)
			eq(t, "sign/signature-mismatch", hb.Bytes(), hExp.Bytes(), "%s: sm9.Sign h", tag)
			eq(t, "sign/signature-mismatch", sb, sExp, "%s: sm9.Sign S", tag)
		}
	}
	// the equation (independent of the library's Verify)
	t.Eval(1)
	if !w.verifyByEquation(msg, hExp, sExp) {
		t.Fail("sign/equation-fails", "%s: the recomputed signature does not satisfy H2(M||e(S,[h1]P2+Ppub)*g^h) = h", tag)
	}
	// verification entry points
	var v1, v2, v3 bool
	if t.Guard("verify", func() {
		v1 = sm9.VerifyASN1(w.pub, w.uid, w.hid, after(w.uid, msg), sig)
		v2 = w.pub.Verify(w.uid, w.hid, after(w.uid, msg), sig)
		v3 = sm9.Verify(w.pub, w.uid, w.hid, after(w.uid, msg), hExp, sExp)
	}) {
		return sig, hExp, sExp
	}
	t.Eval(3)
	d.addBool("v1", v1)
	d.addBool("v2", v2)
	d.addBool("v3", v3)
	if !v1 || !v2 || !v3 {
		t.Fail("verify/valid-rejected", "%s: valid signature rejected (VerifyASN1=%v, pub.Verify=%v, sm9.Verify=%v), uid %d bytes hid %d msg %d bytes", tag, v1, v2, v3, len(w.uid), w.hid, len(msg))
	}
	t.Nontrivial(fmt.Sprintf("sign/uid%%64=%d/msg%%64=%d/%s", len(w.uid)%64, len(msg)%64, scalarClass(r)))
	return sig, hExp, sExp
}

func scalarClass(k *big.Int) string {
	switch {
	case k.BitLen() <= 8:
		return "small"
	case new(big.Int).Sub(nOrd, k).BitLen() <= 8:
		return "near-n"
	}
	return "generic"
}

// ---------------------------------------------------------------------------------------------
// wrap / unwrap

func checkWrap(t *engine.T, d *transcript, w *encWorld, b *wrapBase, klen int, tag string) (key, cipher []byte) {
	kExp := w.expectKey(b, klen)
	cExp := append([]byte{4}, b.c...)
	zlen := 448 + len(w.uid)
	var err error
	if t.Guard("wrap", func() { key, cipher, err = sm9.WrapKey(reader(k32(b.r)), w.pub, w.uid, w.hid, klen) }) {
		return nil, nil
	}
	if err != nil {
		t.Fail("wrap/error", "%s: WrapKey(uid %d bytes, klen %d): %v", tag, len(w.uid), klen, err)
		return nil, nil
	}
	d.add("wrap.key", key)
	d.add("wrap.cipher", cipher)
	eq(t, "wrap/cipher-mismatch", cipher, cExp, "%s: wrapped key C vs [r]Q_B (uid %d bytes, r=%x)", tag, len(w.uid), b.r)
	eq(t, kdfKey("wrap/key-mismatch", zlen, klen), key, kExp, "%s: WrapKey key vs KDF(C||g^r||ID, %d) with len(ID)=%d (KDF input %d bytes)", tag, klen, len(w.uid), zlen)
	// BIT STRING form
	var k2, c2 []byte
	if !t.Guard("wrap", func() { k2, c2, err = w.pub.WrapKey(reader(k32(b.r)), w.uid, w.hid, klen) }) {
		if err != nil {
			t.Fail("wrap/error", "%s: pub.WrapKey: %v", tag, err)
		} else {
			d.add("wrap2.key", k2)
			d.add("wrap2.cipher", c2)
			eq(t, kdfKey("wrap/key-mismatch", zlen, klen), k2, kExp, "%s: pub.WrapKey key (uid %d, klen %d)", tag, len(w.uid), klen)
			eq(t, "wrap/asn1-mismatch", c2, sm9ref.DerBits(cExp), "%s: pub.WrapKey cipher vs BIT STRING(04||C)", tag)
		}
	}
	// SM9KeyPackage form
	var pkg []byte
	if !t.Guard("wrap", func() { pkg, err = w.pub.WrapKeyASN1(reader(k32(b.r)), w.uid, w.hid, klen) }) {
		if err != nil {
			t.Fail("wrap/error", "%s: WrapKeyASN1: %v", tag, err)
		} else {
			d.add("wrap3.pkg", pkg)
			want := sm9ref.DerSeq(sm9ref.DerOctets(kExp), sm9ref.DerBits(cExp))
			eq(t, kdfKey("wrap/keypackage-mismatch", zlen, klen), pkg, want, "%s: WrapKeyASN1 vs SEQUENCE{OCTET STRING K, BIT STRING 04||C} (uid %d, klen %d)", tag, len(w.uid), klen)
			var pk, pc []byte
			if !t.Guard("wrap/keypackage-parse", func() { pk, pc, err = sm9.UnmarshalSM9KeyPackage(want) }) {
				if err != nil || !bytes.Equal(pk, kExp) || !bytes.Equal(pc, cExp) {
					t.Fail("wrap/keypackage-parse", "%s: UnmarshalSM9KeyPackage of the expected package: err=%v", tag, err)
				}
			}
		}
	}
	// unwrap: three documented input forms, always from the reference artefact
	forms := []struct {
		name string
		f    func() ([]byte, error)
	}{
		{"UnwrapKey(04||C)", func() ([]byte, error) { return sm9.UnwrapKey(w.user, w.uid, cExp, klen) }},
		{"UnwrapKey(C)", func() ([]byte, error) { return sm9.UnwrapKey(w.user, w.uid, b.c, klen) }},
		{"priv.UnwrapKey(BIT STRING)", func() ([]byte, error) { return w.user.UnwrapKey(w.uid, sm9ref.DerBits(cExp), klen) }},
	}
	for _, f := range forms {
		var k []byte
		if t.Guard("unwrap", func() { k, err = f.f() }) {
			continue
		}
		if err != nil {
			t.Fail("unwrap/valid-rejected", "%s: %s (uid %d, klen %d): %v", tag, f.name, len(w.uid), klen, err)
			continue
		}
		d.add("unwrap", k)
		eq(t, kdfKey("unwrap/key-mismatch", zlen, klen), k, kExp, "%s: %s key vs KDF(C||e(C,de)||ID, %d), len(ID)=%d", tag, f.name, klen, len(w.uid))
	}
	t.Nontrivial(fmt.Sprintf("wrap/zmod64=%d/blocks=%d/tail=%d/%s", zlen%64, (klen+31)/32, klen%32, scalarClass(b.r)))
	return key, cipher
}

// ---------------------------------------------------------------------------------------------
// encrypt / decrypt

func checkEnc(t *engine.T, d *transcript, w *encWorld, b *wrapBase, m modeSpec, iv, msg []byte, tag string) (raw, der []byte) {
	raw, der = w.expectCipher(b, m, iv, msg)
	k1len := len(msg)
	if m.block {
		k1len = 16
	}
	zlen, klen := 448+len(w.uid), k1len+32
	mkReader := func() *engine.ScriptReader {
		if m.ivLen > 0 {
			return reader(k32(b.r), iv)
		}
		return reader(k32(b.r))
	}
	id := fmt.Sprintf("%s: mode %s uid %d bytes payload %d bytes", tag, m.name, len(w.uid), len(msg))
	var got []byte
	var err error
	// raw
	if !t.Guard("encrypt", func() { got, err = sm9.Encrypt(mkReader(), w.pub, w.uid, w.hid, after(w.uid, msg), m.opts) }) {
		if err != nil {
			t.Fail("encrypt/error", "%s: Encrypt: %v", id, err)
		} else {
			d.add("enc.raw", got)
			eq(t, kdfKey("encrypt/"+m.name+"/raw-mismatch", zlen, klen), got, raw, "%s: Encrypt vs C1||C3||C2", id)
		}
	}
	if m.name == "xor" {
		if !t.Guard("encrypt", func() { got, err = sm9.Encrypt(mkReader(), w.pub, w.uid, w.hid, after(w.uid, msg), nil) }) {
			if err != nil {
				t.Fail("encrypt/error", "%s: Encrypt(opts=nil): %v", id, err)
			} else {
				d.add("enc.raw.nil", got)
				eq(t, kdfKey("encrypt/xor/raw-mismatch", zlen, klen), got, raw, "%s: Encrypt(opts=nil)", id)
			}
		}
	}
	// record layout message||uid: the message's capacity reaches over the identity that is used again afterwards
	if len(msg) > 0 && len(w.uid) > 0 {
		rec := make([]byte, len(msg)+len(w.uid)+64)
		for i := range rec {
			rec[i] = 0xC3 ^ byte(i)
		}
		copy(rec, msg)
		copy(rec[len(msg):], w.uid)
		msgR, uidR := rec[:len(msg):len(rec)], rec[len(msg):len(msg)+len(w.uid):len(rec)]
		if !t.Guard("encrypt", func() { got, err = sm9.Encrypt(mkReader(), w.pub, uidR, w.hid, msgR, m.opts) }) {
			t.Eval(1)
			if err != nil {
				t.Fail("encrypt/error", "%s: Encrypt (record message||uid): %v", id, err)
			} else {
				eq(t, kdfKey("encrypt/"+m.name+"/raw-mismatch", zlen, klen), got, raw, "%s: Encrypt with record layout message||uid", id)
			}
			if !bytes.Equal(uidR, w.uid) {
				t.Fail("caller-memory/uid-behind-message-modified/"+m.name, "%s: the identity argument, lying directly behind the message in the same array, was modified by Encrypt: %x -> %x", id, w.uid, uidR)
			} else if !bytes.Equal(msgR, msg) {
				t.Fail("caller-memory/message-modified/"+m.name, "%s: the message argument was modified by Encrypt", id)
			}
		}
	}
	// ASN.1
	if !t.Guard("encrypt", func() { got, err = sm9.EncryptASN1(mkReader(), w.pub, w.uid, w.hid, after(w.uid, msg), m.opts) }) {
		if err != nil {
			t.Fail("encrypt/error", "%s: EncryptASN1: %v", id, err)
		} else {
			d.add("enc.der", got)
			eq(t, kdfKey("encrypt/"+m.name+"/asn1-mismatch", zlen, klen), got, der, "%s: EncryptASN1 vs SM9Cipher DER", id)
		}
	}
	// decrypt entry points, always from the reference artefacts
	optsUID, _ := sm9.NewDecrypterOptsWithUID(m.opts, w.uid)
	decs := []struct {
		name string
		f    func() ([]byte, error)
	}{
		{"Decrypt(raw)", func() ([]byte, error) { return sm9.Decrypt(w.user, w.uid, raw, m.opts) }},
		{"DecryptASN1", func() ([]byte, error) { return sm9.DecryptASN1(w.user, w.uid, der) }},
		{"priv.DecryptASN1", func() ([]byte, error) { return w.user.DecryptASN1(w.uid, der) }},
		{"priv.Decrypt(uid)", func() ([]byte, error) { return w.user.Decrypt(nil, der, w.uid) }},
	}
	if optsUID != nil {
		decs = append(decs,
			struct {
				name string
				f    func() ([]byte, error)
			}{"priv.Decrypt(optsWithUID, raw)", func() ([]byte, error) { return w.user.Decrypt(nil, raw, optsUID) }},
			struct {
				name string
				f    func() ([]byte, error)
			}{"priv.Decrypt(optsWithUID, asn1)", func() ([]byte, error) { return w.user.Decrypt(nil, der, optsUID) }})
	}
	if m.name == "xor" {
		decs = append(decs, struct {
			name string
			f    func() ([]byte, error)
		}{"Decrypt(raw, opts=nil)", func() ([]byte, error) { return sm9.Decrypt(w.user, w.uid, raw, nil) }})
	}
	for _, dc := range decs {
		var pt []byte
		if t.Guard("decrypt", func() { pt, err = dc.f() }) {
			continue
		}
		if err != nil {
			t.Fail(kdfKey("decrypt/"+m.name+"/valid-rejected", zlen, klen), "%s: %s of the reference ciphertext: %v", id, dc.name, err)
			continue
		}
		d.add("dec", pt)
		eq(t, kdfKey("decrypt/"+m.name+"/plaintext-mismatch", zlen, klen), pt, msg, "%s: %s", id, dc.name)
	}
	t.Nontrivial(fmt.Sprintf("enc/%s/zmod64=%d/len=%d/%s", m.name, zlen%64, len(msg), scalarClass(b.r)))
	return raw, der
}

// ---------------------------------------------------------------------------------------------
// key exchange

func checkKX(t *engine.T, d *transcript, ke *big.Int, hid byte, uidA, uidB []byte, rA, rB *big.Int, klen int, conf bool, tag string) {
	w := newEncWorld(t, ke, uidA, hid)
	if w == nil {
		return
	}
	userA, qA := w.user, w.qRef
	userB, qB, ok := w.userFor(t, uidB)
	if !ok {
		return
	}
	raExp := curve.Mul(rA, qB).Uncompressed()
	rbExp := curve.Mul(rB, qA).Uncompressed()
	g1, g2 := gtExp(w.g, rA), gtExp(w.g, rB)
	g3 := gtExp(w.g, new(big.Int).Mod(new(big.Int).Mul(rA, rB), nOrd))
	skExp := sm9ref.KXKey(g1, g2, g3, uidA, uidB, raExp[1:], rbExp[1:], klen)
	var sbExp, saExp []byte
	if conf {
		sbExp = sm9ref.KXConfirm(0x82, g1, g2, g3, uidA, uidB, raExp[1:], rbExp[1:])
		saExp = sm9ref.KXConfirm(0x83, g1, g2, g3, uidA, uidB, raExp[1:], rbExp[1:])
	}
	zlen := len(uidA) + len(uidB) + 128 + 3*384
	id := fmt.Sprintf("%s: uidA %d bytes uidB %d bytes klen %d conf=%v", tag, len(uidA), len(uidB), klen, conf)

	initiator := userA.NewKeyExchange(uidA, after(uidA, uidB), klen, conf)
	responder := userB.NewKeyExchange(uidB, after(uidB, uidA), klen, conf)
	var ra, rb, sb, sa, keyA, keyB []byte
	var err error
	if t.Guard("kx/init", func() { ra, err = initiator.InitKeyExchange(reader(k32(rA)), hid) }) {
		return
	}
	if err != nil {
		t.Fail("kx/init/error", "%s: InitKeyExchange: %v", id, err)
		return
	}
	d.add("RA", ra)
	eq(t, "kx/RA-mismatch", ra, raExp, "%s: RA vs [rA]Q_B", id)
	if t.Guard("kx/respond", func() { rb, sb, err = responder.RespondKeyExchange(reader(k32(rB)), hid, raExp) }) {
		return
	}
	if err != nil {
		t.Fail("kx/respond/error", "%s: RespondKeyExchange: %v", id, err)
		return
	}
	d.add("RB", rb)
	d.add("SB", sb)
	eq(t, "kx/RB-mismatch", rb, rbExp, "%s: RB vs [rB]Q_A", id)
	if conf {
		eq(t, "kx/SB-mismatch", sb, sbExp, "%s: SB vs Hash(82||g1||Hash(g2||g3||IDA||IDB||RA||RB))", id)
	} else if len(sb) != 0 {
		t.Fail("kx/unexpected-confirmation", "%s: SB produced without confirmation", id)
	}
	if t.Guard("kx/confirm-responder", func() { keyA, sa, err = initiator.ConfirmResponder(rbExp, sbExp) }) {
		return
	}
	if err != nil {
		t.Fail("kx/confirm-responder/valid-rejected", "%s: ConfirmResponder: %v", id, err)
		return
	}
	d.add("SKA", keyA)
	d.add("SA", sa)
	eq(t, kdfKey("kx/SKA-mismatch", zlen, klen), keyA, skExp, "%s: SK_A vs KDF(IDA||IDB||RA||RB||g1||g2||g3, %d) (KDF input %d bytes)", id, klen, zlen)
	if conf {
		eq(t, "kx/SA-mismatch", sa, saExp, "%s: SA", id)
	} else if len(sa) != 0 {
		t.Fail("kx/unexpected-confirmation", "%s: SA produced without confirmation", id)
	}
	if t.Guard("kx/confirm-initiator", func() { keyB, err = responder.ConfirmInitiator(saExp) }) {
		return
	}
	if err != nil {
		t.Fail("kx/confirm-initiator/valid-rejected", "%s: ConfirmInitiator: %v", id, err)
		return
	}
	d.add("SKB", keyB)
	eq(t, kdfKey("kx/SKB-mismatch", zlen, klen), keyB, skExp, "%s: SK_B (KDF input %d bytes)", id, zlen)
	t.Guard("kx/destroy", func() { initiator.Destroy(); responder.Destroy() })
	t.Nontrivial(fmt.Sprintf("kx/zmod64=%d/klen=%d/conf=%v", zlen%64, klen, conf))
}

// ---------------------------------------------------------------------------------------------
// case generators

func runWrapProduct(c *engine.Ctx) {
	ke, r := chain("wrap/ke"), chain("wrap/r")
	for _, ul := range uidLens {
		ul := ul
		c.Case(fmt.Sprintf("wrap/uid=%d/klen=product", ul), func(t *engine.T) {
			d := newTranscript()
			w := newEncWorld(t, ke, uidOf(ul), 3)
			if w == nil {
				return
			}
			b := w.base(r)
			for _, kl := range payloadLens {
				checkWrap(t, d, w, b, kl, "wrap")
			}
			d.finish(t)
			if ul == 61 {
				t.Sample(map[string]any{"scheme": "wrap/unwrap", "uid_len": ul, "key_lens": payloadLens, "r": r.Text(16)})
			}
		})
	}
}

// runKdfAlignmentSweep: every uid length 0..130 (every KDF input residue mod 64, twice) x key lengths in every
// output-block class of the multi-lane KDF (<4, 4..7, >=8 blocks, with and without a partial last block).
func runKdfAlignmentSweep(c *engine.Ctx) {
	ke, r := chain("sweep/ke"), chain("sweep/r")
	klens := []int{97, 225, 260}
	if !c.Quick() {
		klens = []int{33, 97, 128, 129, 225, 256, 260, 520}
	}
	for lo := 0; lo <= 130; lo += 6 {
		lo := lo
		c.Case(fmt.Sprintf("wrap/kdf-sweep/uid=%d..%d", lo, lo+5), func(t *engine.T) {
			d := newTranscript()
			for ul := lo; ul < lo+6 && ul <= 130; ul++ {
				w := newEncWorld(t, ke, uidOf(ul), 3)
				if w == nil {
					return
				}
				b := w.base(r)
				for _, kl := range klens {
					checkWrap(t, d, w, b, kl, "kdf-sweep")
				}
			}
			d.finish(t)
		})
	}
}

func runEncXorProduct(c *engine.Ctx) {
	ke, r := chain("encxor/ke"), chain("encxor/r")
	xor := modeByName("xor")
	for _, ul := range uidLens {
		ul := ul
		c.Case(fmt.Sprintf("enc-xor/uid=%d/payload=product", ul), func(t *engine.T) {
			d := newTranscript()
			w := newEncWorld(t, ke, uidOf(ul), 3)
			if w == nil {
				return
			}
			b := w.base(r)
			for _, pl := range payloadLens {
				checkEnc(t, d, w, b, xor, nil, msgOf(pl), "enc-xor")
			}
			d.finish(t)
			if ul == 62 {
				t.Sample(map[string]any{"scheme": "encrypt/decrypt xor raw+asn1", "uid_len": ul, "payload_lens": payloadLens})
			}
		})
	}
}

func runEncModes(c *engine.Ctx) {
	ke, r := chain("encmode/ke"), chain("encmode/r")
	for _, m := range modes {
		m := m
		c.Case(fmt.Sprintf("enc-mode/%s/payload=product", m.name), func(t *engine.T) {
			d := newTranscript()
			w := newEncWorld(t, ke, uidOf(baseUIDLen), 3)
			if w == nil {
				return
			}
			b := w.base(r)
			pls := append([]int{}, payloadLens...)
			pls = append(pls, 15, 17, 48)
			for _, pl := range pls {
				checkEnc(t, d, w, b, m, ivOf(fmt.Sprint(m.name, pl)), msgOf(pl), "enc-mode")
			}
			// documented error: empty plaintext
			var err error
			if !t.Guard("encrypt/empty", func() { _, err = sm9.Encrypt(reader(k32(r)), w.pub, w.uid, w.hid, nil, m.opts) }) {
				t.Eval(1)
				if err == nil {
					t.Fail("encrypt/empty-plaintext-accepted", "mode %s: Encrypt of an empty plaintext succeeded (documented ErrEmptyPlaintext)", m.name)
				}
			}
			d.finish(t)
		})
	}
}

// runEncModesProduct (thorough): every mode x every uid length x every payload length.
func runEncModesProduct(c *engine.Ctx) {
	ke, r := chain("encmode/ke"), chain("encmodeprod/r")
	for _, m := range modes {
		if m.name == "xor" {
			continue // the XOR product runs in both tiers
		}
		for _, ul := range uidLens {
			m, ul := m, ul
			c.Case(fmt.Sprintf("enc-mode/%s/uid=%d/payload=product", m.name, ul), func(t *engine.T) {
				d := newTranscript()
				w := newEncWorld(t, ke, uidOf(ul), 3)
				if w == nil {
					return
				}
				b := w.base(r)
				for _, pl := range payloadLens {
					checkEnc(t, d, w, b, m, ivOf(fmt.Sprint(m.name, ul, pl)), msgOf(pl), "enc-mode-product")
				}
				d.finish(t)
			})
		}
	}
}

func runSign(c *engine.Ctx) {
	ks, r := chain("sign/ks"), chain("sign/r")
	for _, ul := range uidLens {
		ul := ul
		c.Case(fmt.Sprintf("sign/uid=%d/msg=product", ul), func(t *engine.T) {
			d := newTranscript()
			w := newSignWorld(t, ks, uidOf(ul), 1)
			if w == nil {
				return
			}
			for _, ml := range msgLens {
				checkSign(t, d, w, msgOf(ml), r, "sign")
			}
			d.finish(t)
			if ul == 5 {
				t.Sample(map[string]any{"scheme": "sign/verify", "uid_len": ul, "msg_lens": msgLens})
			}
		})
	}
}

// runSignShapes: signatures whose components have a particular SHAPE that a random nonce produces only with
// probability 2^-8 / 2^-16: h with one and two leading zero bytes (the *big.Int API of Sign/Verify drops them), S with
// a leading zero byte in x. The nonce is searched deterministically with the reference.
func runSignShapes(c *engine.Ctx) {
	ks := chain("signshape/ks")
	c.Case("sign/shapes/h-and-S-with-leading-zero-bytes", func(t *engine.T) {
		d := newTranscript()
		w := newSignWorld(t, ks, uidOf(baseUIDLen), 1)
		if w == nil {
			return
		}
		msg := msgOf(20)
		type shape struct {
			name string
			ok   func(h *big.Int, s []byte) bool
			max  int
		}
		for _, sh := range []shape{
			{"h-top-byte-zero", func(h *big.Int, s []byte) bool { return h.BitLen() <= 248 }, 6000},
			{"S.x-top-byte-zero", func(h *big.Int, s []byte) bool { return len(s) == 65 && s[1] == 0 }, 6000},
			{"S.y-top-byte-zero", func(h *big.Int, s []byte) bool { return len(s) == 65 && s[33] == 0 }, 6000},
		} {
			var found *big.Int
			for i := 0; i < sh.max && found == nil; i++ {
				r := chain(fmt.Sprintf("signshape/%s/%d", sh.name, i))
				if h, s, _, ok := w.expectSig(msg, r); ok && sh.ok(h, s) {
					found = r
				}
			}
			if found == nil {
				t.Extra("sign_shape_not_found_"+sh.name, 1)
				continue
			}
			checkSign(t, d, w, msg, found, "shape/"+sh.name)
			t.Nontrivial("sign-shape/" + sh.name)
		}
		d.finish(t)
	})
}

// runStar varies one independent axis at a time around the base case.
func runStar(c *engine.Ctx) {
	baseKs, baseR := chain("star/k"), chain("star/r")
	uid := uidOf(baseUIDLen)
	msg := msgOf(basePayLen)
	oneOfEach := func(t *engine.T, d *transcript, k *big.Int, hid byte, r *big.Int, tag string) {
		if sw := newSignWorld(t, k, uid, hid); sw != nil {
			checkSign(t, d, sw, msg, r, tag)
		}
		if ew := newEncWorld(t, k, uid, hid); ew != nil {
			b := ew.base(r)
			checkWrap(t, d, ew, b, 32, tag)
			checkWrap(t, d, ew, b, 97, tag)
			checkEnc(t, d, ew, b, modeByName("xor"), nil, msg, tag)
			checkEnc(t, d, ew, b, modeByName("cbc"), ivOf(tag), msg, tag)
		}
	}
	for i, k := range masterScalars() {
		i, k := i, k
		c.Case(fmt.Sprintf("star/master#%d", i), func(t *engine.T) {
			d := newTranscript()
			oneOfEach(t, d, k, 1, baseR, fmt.Sprintf("master#%d", i))
			checkKX(t, d, k, 2, uidOf(5), uidOf(3), chain("star/ra"), chain("star/rb"), 16, true, fmt.Sprintf("master#%d", i))
			d.finish(t)
		})
	}
	for _, hid := range hids {
		hid := hid
		c.Case(fmt.Sprintf("star/hid=%d", hid), func(t *engine.T) {
			d := newTranscript()
			oneOfEach(t, d, baseKs, hid, baseR, fmt.Sprintf("hid=%d", hid))
			checkKX(t, d, baseKs, hid, uidOf(5), uidOf(3), chain("star/ra"), chain("star/rb"), 16, true, fmt.Sprintf("hid=%d", hid))
			d.finish(t)
		})
	}
	for i, r := range rScalars() {
		i, r := i, r
		c.Case(fmt.Sprintf("star/r#%d", i), func(t *engine.T) {
			d := newTranscript()
			oneOfEach(t, d, baseKs, 1, r, fmt.Sprintf("r#%d", i))
			checkKX(t, d, baseKs, 2, uidOf(5), uidOf(3), r, chain("star/rb"), 16, true, fmt.Sprintf("rA#%d", i))
			checkKX(t, d, baseKs, 2, uidOf(5), uidOf(3), chain("star/ra"), r, 16, true, fmt.Sprintf("rB#%d", i))
			d.finish(t)
		})
	}
	// master scalars outside [1, n-2] are rejected (documented range)
	c.Case("star/master-out-of-range", func(t *engine.T) {
		d := newTranscript()
		for _, k := range []*big.Int{big.NewInt(0), new(big.Int).Sub(nOrd, one), new(big.Int).Set(nOrd), new(big.Int).Add(nOrd, one), new(big.Int).Sub(two256, one), new(big.Int).Set(two256)} {
			var e1, e2 error
			if t.Guard("keygen/out-of-range", func() {
				_, e1 = sm9.UnmarshalSignMasterPrivateKeyASN1(sm9ref.DerInt(k))
				_, e2 = sm9.UnmarshalEncryptMasterPrivateKeyASN1(sm9ref.DerInt(k))
			}) {
				continue
			}
			t.Eval(2)
			d.addErr("e1", e1)
			d.addErr("e2", e2)
			if e1 == nil || e2 == nil {
				t.Fail("keygen/master-out-of-range-accepted", "master private key %x accepted (sign err=%v, encrypt err=%v); documented range is [1, n-2]", k, e1, e2)
			}
		}
		d.finish(t)
	})
}

func runKX(c *engine.Ctx) {
	ke := chain("kx/ke")
	rA, rB := chain("kx/ra"), chain("kx/rb")
	for _, conf := range []bool{true, false} {
		for _, kl := range kxKeyLens {
			conf, kl := conf, kl
			c.Case(fmt.Sprintf("kx/conf=%v/klen=%d", conf, kl), func(t *engine.T) {
				d := newTranscript()
				checkKX(t, d, ke, 2, uidOf(5), uidOf(3), rA, rB, kl, conf, "kx")
				d.finish(t)
			})
		}
	}
	// KDF input alignment: len(IDA)+len(IDB) mod 64 over the interesting residues, long keys
	for _, ul := range uidLens {
		ul := ul
		c.Case(fmt.Sprintf("kx/uidA=%d/uidB=0,1", ul), func(t *engine.T) {
			d := newTranscript()
			checkKX(t, d, ke, 2, uidOf(ul), []byte{}, rA, rB, 97, true, "kx-uid")
			checkKX(t, d, ke, 2, uidOf(ul), uidOf(1), rA, rB, 200, false, "kx-uid")
			d.finish(t)
			if ul == 60 {
				t.Sample(map[string]any{"scheme": "key exchange", "uidA_len": ul, "uidB_lens": []int{0, 1}, "key_lens": []int{97, 200}})
			}
		})
	}
}

// runThoroughProduct: full product of 3-element subsets of every axis (5 uid lengths) (DESIGN §4 C10, thorough tier).
func runThoroughProduct(c *engine.Ctx) {
	ms := []*big.Int{big.NewInt(1), new(big.Int).Sub(nOrd, big.NewInt(2)), chain("master0")}
	uls := []int{0, 60, 61, 63, 128}
	pls := []int{1, 33, 97}
	rs := []*big.Int{big.NewInt(1), new(big.Int).Sub(nOrd, one), chain("r0")}
	for mi, k := range ms {
		for _, hid := range hids {
			for _, ul := range uls {
				mi, k, hid, ul := mi, k, hid, ul
				c.Case(fmt.Sprintf("product/master#%d/hid=%d/uid=%d", mi, hid, ul), func(t *engine.T) {
					d := newTranscript()
					uid := uidOf(ul)
					sw := newSignWorld(t, k, uid, hid)
					ew := newEncWorld(t, k, uid, hid)
					for ri, r := range rs {
						tag := fmt.Sprintf("product r#%d", ri)
						if sw != nil {
							for _, pl := range pls {
								checkSign(t, d, sw, msgOf(pl), r, tag)
							}
						}
						if ew != nil {
							b := ew.base(r)
							for _, pl := range pls {
								checkWrap(t, d, ew, b, pl, tag)
								for _, m := range modes {
									checkEnc(t, d, ew, b, m, ivOf(fmt.Sprint(tag, m.name, pl)), msgOf(pl), tag)
								}
							}
						}
						for _, kl := range []int{16, 97} {
							for _, conf := range []bool{true, false} {
								checkKX(t, d, k, hid, uid, uidOf(3), r, chain("product/rb"), kl, conf, tag)
							}
						}
					}
					d.finish(t)
				})
			}
		}
	}
}

// ---------------------------------------------------------------------------------------------
// GM/T 0044.5 annex values through the public API

func runStandard(c *engine.Ctx) {
	hexInt := func(s string) *big.Int { v, _ := new(big.Int).SetString(s, 16); return v }
	c.Case("std/annexA-sign", func(t *engine.T) {
		d := newTranscript()
		w := newSignWorld(t, hexInt("0130E78459D78545CB54C587E02CF480CE0B66340F319F348A1D5B1F2DC5F4"), []byte("Alice"), 1)
		if w == nil {
			return
		}
		msg := []byte("Chinese IBS standard")
		r := hexInt("033C8616B06704813203DFD00965022ED15975C662337AED648835DC4B1CBE")
		sig, _, _ := checkSign(t, d, w, msg, r, "annex A")
		want := sm9ref.DerSeq(sm9ref.DerOctets(unhex("823c4b21e4bd2dfe1ed92c606653e996668563152fc33f55d7bfbb9bd9705adb")),
			sm9ref.DerBits(unhex("0473bf96923ce58b6ad0e13e9643a406d8eb98417c50ef1b29cef9adb48b6d598c856712f1c2e0968ab7769f42a99586aed139d5b8b3e15891827cc2aced9baa05")))
		if sig != nil {
			eq(t, "std/annexA-signature", sig, want, "SignASN1 with the annex A key, message and r vs the standard's (h,S)")
		}
		d.finish(t)
	})
	c.Case("std/annexC-wrap", func(t *engine.T) {
		d := newTranscript()
		w := newEncWorld(t, hexInt("01EDEE3778F441F8DEA3D9FA0ACC4E07EE36C93F9A08618AF4AD85CEDE1C22"), []byte("Bob"), 3)
		if w == nil {
			return
		}
		b := w.base(hexInt("74015F8489C01EF4270456F9E6475BFB602BDE7F33FD482AB4E3684A6722"))
		key, cipher := checkWrap(t, d, w, b, 32, "annex C")
		if key != nil {
			eq(t, "std/annexC-cipher", cipher, unhex("041edee2c3f465914491de44cefb2cb434ab02c308d9dc5e2067b4fed5aaac8a0f1c9b4c435eca35ab83bb734174c0f78fde81a53374aff3b3602bbc5e37be9a4c"), "annex C wrapped key C")
			eq(t, "std/annexC-key", key, unhex("4ff5cf86d2ad40c8f4bac98d76abdbde0c0e2f0a829d3f911ef5b2bce0695480"), "annex C key K")
		}
		d.finish(t)
	})
	c.Case("std/annexD-encrypt", func(t *engine.T) {
		d := newTranscript()
		w := newEncWorld(t, hexInt("01EDEE3778F441F8DEA3D9FA0ACC4E07EE36C93F9A08618AF4AD85CEDE1C22"), []byte("Bob"), 3)
		if w == nil {
			return
		}
		b := w.base(hexInt("AAC0541779C8FC45E3E2CB25C12B5D2576B2129AE8BB5EE2CBE5EC9E785C"))
		msg := []byte("Chinese IBE standard")
		raw, _ := checkEnc(t, d, w, b, modeByName("xor"), nil, msg, "annex D")
		eq(t, "std/annexD-xor", raw, unhex("2445471164490618e1ee20528ff1d545b0f14c8bcaa44544f03dab5dac07d8ff42ffca97d57cddc05ea405f2e586feb3a6930715532b8000759f13059ed59ac0ba672387bcd6de5016a158a52bb2e7fc429197bcab70b25afee37a2b9db9f3671b5f5b0e951489682f3e64e1378cdd5da9513b1c"), "reference ciphertext vs annex D (stream cipher)")
		raw, _ = checkEnc(t, d, w, b, modeByName("ecb"), nil, msg, "annex D")
		eq(t, "std/annexD-ecb", raw, unhex("2445471164490618e1ee20528ff1d545b0f14c8bcaa44544f03dab5dac07d8ff42ffca97d57cddc05ea405f2e586feb3a6930715532b8000759f13059ed59ac0fd3c98dd92c44c68332675a370cceede31e0c5cd209c257601149d12b394a2bee05b6fac6f11b965268c994f00dba7a8bb00fd60583546cbdf4649250863f10a"), "reference ciphertext vs annex D (block cipher)")
		d.finish(t)
	})
	c.Case("std/annexB-keyexchange", func(t *engine.T) {
		d := newTranscript()
		ke := hexInt("02E65B0762D042F51F0D23542B13ED8CFA2E9A0E7206361E013A283905E31F")
		rA := hexInt("5879DD1D51E175946F23B1B41E93BA31C584AE59A426EC1046A4D03B06C8")
		rB := hexInt("018B98C44BEF9F8537FB7D071B2C928B3BC65BD3D69E1EEE213564905634FE")
		checkKX(t, d, ke, 2, []byte("Alice"), []byte("Bob"), rA, rB, 16, true, "annex B")
		// and the standard's values directly
		w := newEncWorld(t, ke, []byte("Alice"), 2)
		if w == nil {
			return
		}
		userB, _, ok := w.userFor(t, []byte("Bob"))
		if !ok {
			return
		}
		ini := w.user.NewKeyExchange([]byte("Alice"), []byte("Bob"), 16, true)
		res := userB.NewKeyExchange([]byte("Bob"), []byte("Alice"), 16, true)
		t.Guard("std/annexB", func() {
			ra, err := ini.InitKeyExchange(reader(k32(rA)), 2)
			if err != nil {
				t.Fail("std/annexB-error", "%v", err)
				return
			}
			eq(t, "std/annexB-RA", ra, unhex("047cba5b19069ee66aa79d490413d11846b9ba76dd22567f809cf23b6d964bb265a9760c99cb6f706343fed05637085864958d6c90902aba7d405fbedf7b781599"), "RA")
			rb, sb, err := res.RespondKeyExchange(reader(k32(rB)), 2, ra)
			if err != nil {
				t.Fail("std/annexB-error", "%v", err)
				return
			}
			eq(t, "std/annexB-SB", sb, unhex("3bb4bcee8139c960b4d6566db1e0d5f0b2767680e5e1bf934103e6c66e40ffee"), "SB")
			k1, sa, err := ini.ConfirmResponder(rb, sb)
			if err != nil {
				t.Fail("std/annexB-error", "%v", err)
				return
			}
			eq(t, "std/annexB-SK", k1, unhex("c5c13a8f59a97cdeae64f16a2272a9e7"), "SK_A")
			eq(t, "std/annexB-SA", sa, unhex("195d1b7256ba7e0e67c71202a25f8c94ff8241702c2f55d613ae1c6b98215172"), "SA")
			k2, err := res.ConfirmInitiator(sa)
			if err != nil {
				t.Fail("std/annexB-error", "%v", err)
				return
			}
			eq(t, "std/annexB-SK", k2, unhex("c5c13a8f59a97cdeae64f16a2272a9e7"), "SK_B")
		})
		d.finish(t)
	})
}
