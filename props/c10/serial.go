package c10

import (
	"bytes"
	"encoding/pem"
	"fmt"
	"math/big"

	"github.com/emmansun/gmsm/sm9"
	vh "github.com/emmansun/gmsm/verifhook"

	"verif/engine"
	"verif/ref/sm9ref"
)

// Serialisation round trips of the six key types x {raw, ASN.1, compressed, SEQUENCE forms, PEM}.

type parseResult struct {
	bytes []byte
	equal bool
	err   error
}

func tryParse(t *engine.T, d *transcript, kind, form string, in, wantBytes []byte, f func([]byte) parseResult) bool {
	var r parseResult
	if t.Guard("serial/"+kind+"/"+form, func() { r = f(in) }) {
		return false
	}
	t.Eval(1)
	d.addErr(kind+"/"+form, r.err)
	if r.err != nil {
		t.Fail("serial/"+kind+"/"+form+"-rejected", "%s: parsing the %s form fails: %v (input %s)", kind, form, r.err, hx(in))
		return false
	}
	d.add(kind+"/"+form, r.bytes)
	ok := true
	if !r.equal {
		t.Fail("serial/"+kind+"/"+form+"-not-equal", "%s: key parsed from the %s form is not Equal to the original", kind, form)
		ok = false
	}
	if !bytes.Equal(r.bytes, wantBytes) {
		t.Fail("serial/"+kind+"/"+form+"-bytes-mismatch", "%s: Bytes() after parsing the %s form = %s want %s", kind, form, hx(r.bytes), hx(wantBytes))
		ok = false
	}
	t.Nontrivial("serial/" + kind + "/" + form)
	return ok
}

func g1Compressed(unc []byte) []byte {
	g := new(vh.G1)
	if _, err := g.Unmarshal(unc[1:]); err != nil {
		panic(err)
	}
	return g.MarshalCompressed()
}
func g2Compressed(unc []byte) []byte {
	g := new(vh.G2)
	if _, err := g.Unmarshal(unc[1:]); err != nil {
		panic(err)
	}
	return g.MarshalCompressed()
}

func pemOf(der []byte) []byte {
	return pem.EncodeToMemory(&pem.Block{Type: "SM9 MASTER PUBLIC KEY", Bytes: der})
}

func compressedFormObserved(t *engine.T, kind string, der []byte, unc []byte) {
	// MarshalCompressedASN1 is documented to carry the compressed point; record what is observed (not judged:
	// the property only requires that the encoding parses back to an equal key)
	if bytes.Equal(der, sm9ref.DerBits(unc)) {
		t.Extra("MarshalCompressedASN1_returned_uncompressed_form", 1)
	} else {
		t.Extra("MarshalCompressedASN1_returned_compressed_form", 1)
	}
}

func runSerial(c *engine.Ctx) {
	uid := uidOf(baseUIDLen)
	msg := msgOf(basePayLen)
	for i, k := range masterScalars() {
		i, k := i, k
		c.Case(fmt.Sprintf("serial/sign-keys/master#%d", i), func(t *engine.T) {
			d := newTranscript()
			w := newSignWorld(t, k, uid, 1)
			if w == nil {
				return
			}
			// 1. master private key
			mder, err := w.master.MarshalASN1()
			if err != nil {
				t.Fail("serial/sign-master-private/marshal-error", "%v", err)
				return
			}
			d.add("mder", mder)
			eq(t, "serial/sign-master-private/asn1-mismatch", mder, sm9ref.DerInt(k), "SignMasterPrivateKey.MarshalASN1")
			pubUnc := w.pub.Bytes()
			parseMaster := func(in []byte) parseResult {
				m, err := sm9.UnmarshalSignMasterPrivateKeyASN1(in)
				if err != nil {
					return parseResult{err: err}
				}
				u, err := m.GenerateUserKey(uid, 1)
				if err != nil {
					return parseResult{err: err}
				}
				return parseResult{bytes: append(append(m.Bytes(), m.PublicKey().Bytes()...), u.Bytes()...), equal: m.Equal(w.master) && w.master.Equal(m) && m.PublicKey().Equal(w.pub) && u.Equal(w.user)}
			}
			wantM := append(append(k32(k), pubUnc...), w.user.Bytes()...)
			tryParse(t, d, "sign-master-private", "asn1", mder, wantM, parseMaster)
			tryParse(t, d, "sign-master-private", "asn1-sequence-with-public", sm9ref.DerSeq(sm9ref.DerInt(k), sm9ref.DerBits(pubUnc)), wantM, parseMaster)
			// 2. master public key (G2)
			pder, err := w.pub.MarshalASN1()
			if err != nil {
				t.Fail("serial/sign-master-public/marshal-error", "%v", err)
				return
			}
			eq(t, "serial/sign-master-public/asn1-mismatch", pder, sm9ref.DerBits(pubUnc), "SignMasterPublicKey.MarshalASN1")
			pcder, err := w.pub.MarshalCompressedASN1()
			if err != nil {
				t.Fail("serial/sign-master-public/marshal-error", "%v", err)
				return
			}
			d.add("pder", pder)
			d.add("pcder", pcder)
			compressedFormObserved(t, "sign-master-public", pcder, pubUnc)
			sig, _, _ := checkSign(t, d, w, msg, chain("serial/r"), "serial")
			pubResult := func(p *sm9.SignMasterPublicKey, err error) parseResult {
				if err != nil {
					return parseResult{err: err}
				}
				okv := sig != nil && p.Verify(uid, 1, msg, sig)
				return parseResult{bytes: p.Bytes(), equal: p.Equal(w.pub) && w.pub.Equal(p) && okv}
			}
			pubComp := g2Compressed(pubUnc)
			tryParse(t, d, "sign-master-public", "raw", pubUnc, pubUnc, func(in []byte) parseResult { return pubResult(sm9.UnmarshalSignMasterPublicKeyRaw(in)) })
			tryParse(t, d, "sign-master-public", "raw-compressed", pubComp, pubUnc, func(in []byte) parseResult { return pubResult(sm9.UnmarshalSignMasterPublicKeyRaw(in)) })
			tryParse(t, d, "sign-master-public", "asn1", pder, pubUnc, func(in []byte) parseResult { return pubResult(sm9.UnmarshalSignMasterPublicKeyASN1(in)) })
			tryParse(t, d, "sign-master-public", "asn1-from-MarshalCompressedASN1", pcder, pubUnc, func(in []byte) parseResult { return pubResult(sm9.UnmarshalSignMasterPublicKeyASN1(in)) })
			tryParse(t, d, "sign-master-public", "asn1-compressed", sm9ref.DerBits(pubComp), pubUnc, func(in []byte) parseResult { return pubResult(sm9.UnmarshalSignMasterPublicKeyASN1(in)) })
			tryParse(t, d, "sign-master-public", "asn1-sequence", sm9ref.DerSeq(pder), pubUnc, func(in []byte) parseResult { return pubResult(sm9.UnmarshalSignMasterPublicKeyASN1(in)) })
			tryParse(t, d, "sign-master-public", "pem", pemOf(pder), pubUnc, func(in []byte) parseResult { return pubResult(sm9.ParseSignMasterPublicKeyPEM(in)) })
			// 3. user private key (G1)
			uUnc := w.user.Bytes()
			uder, err := w.user.MarshalASN1()
			if err != nil {
				t.Fail("serial/sign-private/marshal-error", "%v", err)
				return
			}
			eq(t, "serial/sign-private/asn1-mismatch", uder, sm9ref.DerBits(uUnc), "SignPrivateKey.MarshalASN1")
			ucder, err := w.user.MarshalCompressedASN1()
			if err != nil {
				t.Fail("serial/sign-private/marshal-error", "%v", err)
				return
			}
			d.add("uder", uder)
			d.add("ucder", ucder)
			compressedFormObserved(t, "sign-private", ucder, uUnc)
			uComp := w.dsRef.Compressed()
			eq(t, "serial/sign-private/compressed-reference", g1Compressed(uUnc), uComp, "G1.MarshalCompressed(ds) vs reference compression")
			userResult := func(p *sm9.SignPrivateKey, err error) parseResult {
				if err != nil {
					return parseResult{err: err}
				}
				return parseResult{bytes: p.Bytes(), equal: p.Equal(w.user) && w.user.Equal(p)}
			}
			tryParse(t, d, "sign-private", "raw", uUnc, uUnc, func(in []byte) parseResult { return userResult(sm9.UnmarshalSignPrivateKeyRaw(in)) })
			tryParse(t, d, "sign-private", "raw-compressed", uComp, uUnc, func(in []byte) parseResult { return userResult(sm9.UnmarshalSignPrivateKeyRaw(in)) })
			tryParse(t, d, "sign-private", "asn1", uder, uUnc, func(in []byte) parseResult { return userResult(sm9.UnmarshalSignPrivateKeyASN1(in)) })
			tryParse(t, d, "sign-private", "asn1-from-MarshalCompressedASN1", ucder, uUnc, func(in []byte) parseResult { return userResult(sm9.UnmarshalSignPrivateKeyASN1(in)) })
			tryParse(t, d, "sign-private", "asn1-compressed", sm9ref.DerBits(uComp), uUnc, func(in []byte) parseResult { return userResult(sm9.UnmarshalSignPrivateKeyASN1(in)) })
			// SEQUENCE{private, master public}: the parsed key must sign exactly like the original
			for _, f := range []struct {
				name string
				der  []byte
			}{{"asn1-sequence-with-master-public", sm9ref.DerSeq(uder, pder)}, {"asn1-sequence-compressed", sm9ref.DerSeq(sm9ref.DerBits(uComp), sm9ref.DerBits(pubComp))}} {
				tryParse(t, d, "sign-private", f.name, f.der, uUnc, func(in []byte) parseResult {
					p, err := sm9.UnmarshalSignPrivateKeyASN1(in)
					if err != nil {
						return parseResult{err: err}
					}
					s2, err := sm9.SignASN1(reader(k32(chain("serial/r"))), p, msg)
					if err != nil {
						return parseResult{err: err}
					}
					return parseResult{bytes: p.Bytes(), equal: p.Equal(w.user) && p.MasterPublic().Equal(w.pub) && bytes.Equal(s2, sig)}
				})
			}
			d.finish(t)
			if i == 3 {
				t.Sample(map[string]any{"serialisation": "sign master private/public, user private", "forms": []string{"raw", "raw-compressed", "asn1", "asn1-compressed", "asn1-sequence", "pem"}})
			}
		})
		c.Case(fmt.Sprintf("serial/enc-keys/master#%d", i), func(t *engine.T) {
			d := newTranscript()
			w := newEncWorld(t, k, uid, 3)
			if w == nil {
				return
			}
			b := w.base(chain("serial/r"))
			// 4. master private key
			mder, err := w.master.MarshalASN1()
			if err != nil {
				t.Fail("serial/enc-master-private/marshal-error", "%v", err)
				return
			}
			d.add("mder", mder)
			eq(t, "serial/enc-master-private/asn1-mismatch", mder, sm9ref.DerInt(k), "EncryptMasterPrivateKey.MarshalASN1")
			pubUnc := w.pub.Bytes()
			parseMaster := func(in []byte) parseResult {
				m, err := sm9.UnmarshalEncryptMasterPrivateKeyASN1(in)
				if err != nil {
					return parseResult{err: err}
				}
				u, err := m.GenerateUserKey(uid, 3)
				if err != nil {
					return parseResult{err: err}
				}
				return parseResult{bytes: append(append(m.Bytes(), m.PublicKey().Bytes()...), u.Bytes()...), equal: m.Equal(w.master) && w.master.Equal(m) && m.PublicKey().Equal(w.pub) && u.Equal(w.user)}
			}
			wantM := append(append(k32(k), pubUnc...), w.user.Bytes()...)
			tryParse(t, d, "enc-master-private", "asn1", mder, wantM, parseMaster)
			tryParse(t, d, "enc-master-private", "asn1-sequence-with-public", sm9ref.DerSeq(sm9ref.DerInt(k), sm9ref.DerBits(pubUnc)), wantM, parseMaster)
			// 5. master public key (G1)
			pder, err := w.pub.MarshalASN1()
			if err != nil {
				t.Fail("serial/enc-master-public/marshal-error", "%v", err)
				return
			}
			eq(t, "serial/enc-master-public/asn1-mismatch", pder, sm9ref.DerBits(pubUnc), "EncryptMasterPublicKey.MarshalASN1")
			pcder, err := w.pub.MarshalCompressedASN1()
			if err != nil {
				t.Fail("serial/enc-master-public/marshal-error", "%v", err)
				return
			}
			d.add("pder", pder)
			d.add("pcder", pcder)
			compressedFormObserved(t, "enc-master-public", pcder, pubUnc)
			key, cipher := checkWrap(t, d, w, b, 32, "serial")
			pubResult := func(p *sm9.EncryptMasterPublicKey, err error) parseResult {
				if err != nil {
					return parseResult{err: err}
				}
				k2, c2, err := sm9.WrapKey(reader(k32(b.r)), p, uid, 3, 32)
				if err != nil {
					return parseResult{err: err}
				}
				return parseResult{bytes: p.Bytes(), equal: p.Equal(w.pub) && w.pub.Equal(p) && bytes.Equal(k2, key) && bytes.Equal(c2, cipher)}
			}
			pubComp := w.ppub.Compressed()
			tryParse(t, d, "enc-master-public", "raw", pubUnc, pubUnc, func(in []byte) parseResult { return pubResult(sm9.UnmarshalEncryptMasterPublicKeyRaw(in)) })
			tryParse(t, d, "enc-master-public", "raw-compressed", pubComp, pubUnc, func(in []byte) parseResult { return pubResult(sm9.UnmarshalEncryptMasterPublicKeyRaw(in)) })
			tryParse(t, d, "enc-master-public", "asn1", pder, pubUnc, func(in []byte) parseResult { return pubResult(sm9.UnmarshalEncryptMasterPublicKeyASN1(in)) })
			tryParse(t, d, "enc-master-public", "asn1-from-MarshalCompressedASN1", pcder, pubUnc, func(in []byte) parseResult { return pubResult(sm9.UnmarshalEncryptMasterPublicKeyASN1(in)) })
			tryParse(t, d, "enc-master-public", "asn1-compressed", sm9ref.DerBits(pubComp), pubUnc, func(in []byte) parseResult { return pubResult(sm9.UnmarshalEncryptMasterPublicKeyASN1(in)) })
			tryParse(t, d, "enc-master-public", "asn1-sequence", sm9ref.DerSeq(pder), pubUnc, func(in []byte) parseResult { return pubResult(sm9.UnmarshalEncryptMasterPublicKeyASN1(in)) })
			tryParse(t, d, "enc-master-public", "pem", pemOf(pder), pubUnc, func(in []byte) parseResult { return pubResult(sm9.ParseEncryptMasterPublicKeyPEM(in)) })
			// 6. user private key (G2)
			uUnc := w.user.Bytes()
			uder, err := w.user.MarshalASN1()
			if err != nil {
				t.Fail("serial/enc-private/marshal-error", "%v", err)
				return
			}
			eq(t, "serial/enc-private/asn1-mismatch", uder, sm9ref.DerBits(uUnc), "EncryptPrivateKey.MarshalASN1")
			ucder, err := w.user.MarshalCompressedASN1()
			if err != nil {
				t.Fail("serial/enc-private/marshal-error", "%v", err)
				return
			}
			d.add("uder", uder)
			d.add("ucder", ucder)
			compressedFormObserved(t, "enc-private", ucder, uUnc)
			uComp := g2Compressed(uUnc)
			raw, der := w.expectCipher(b, modeByName("xor"), nil, msg)
			userResult := func(p *sm9.EncryptPrivateKey, err error) parseResult {
				if err != nil {
					return parseResult{err: err}
				}
				k2, err := sm9.UnwrapKey(p, uid, cipher, 32)
				if err != nil {
					return parseResult{err: err}
				}
				pt, err := sm9.Decrypt(p, uid, raw, nil)
				if err != nil {
					return parseResult{err: err}
				}
				pt2, err := sm9.DecryptASN1(p, uid, der)
				if err != nil {
					return parseResult{err: err}
				}
				return parseResult{bytes: p.Bytes(), equal: p.Equal(w.user) && w.user.Equal(p) && bytes.Equal(k2, key) && bytes.Equal(pt, msg) && bytes.Equal(pt2, msg)}
			}
			tryParse(t, d, "enc-private", "raw", uUnc, uUnc, func(in []byte) parseResult { return userResult(sm9.UnmarshalEncryptPrivateKeyRaw(in)) })
			tryParse(t, d, "enc-private", "raw-compressed", uComp, uUnc, func(in []byte) parseResult { return userResult(sm9.UnmarshalEncryptPrivateKeyRaw(in)) })
			tryParse(t, d, "enc-private", "asn1", uder, uUnc, func(in []byte) parseResult { return userResult(sm9.UnmarshalEncryptPrivateKeyASN1(in)) })
			tryParse(t, d, "enc-private", "asn1-from-MarshalCompressedASN1", ucder, uUnc, func(in []byte) parseResult { return userResult(sm9.UnmarshalEncryptPrivateKeyASN1(in)) })
			tryParse(t, d, "enc-private", "asn1-compressed", sm9ref.DerBits(uComp), uUnc, func(in []byte) parseResult { return userResult(sm9.UnmarshalEncryptPrivateKeyASN1(in)) })
			for _, f := range []struct {
				name string
				der  []byte
			}{{"asn1-sequence-with-master-public", sm9ref.DerSeq(uder, pder)}, {"asn1-sequence-compressed", sm9ref.DerSeq(sm9ref.DerBits(uComp), sm9ref.DerBits(pubComp))}} {
				tryParse(t, d, "enc-private", f.name, f.der, uUnc, func(in []byte) parseResult {
					p, err := sm9.UnmarshalEncryptPrivateKeyASN1(in)
					if err != nil {
						return parseResult{err: err}
					}
					r := userResult(p, nil)
					if r.err != nil {
						return r
					}
					// the embedded master public key makes the key usable for key exchange
					ini := p.NewKeyExchange(uid, uidOf(3), 16, true)
					ra, err := ini.InitKeyExchange(reader(k32(chain("serial/ra"))), 3)
					if err != nil {
						return parseResult{err: err}
					}
					ini0 := w.user.NewKeyExchange(uid, uidOf(3), 16, true)
					ra0, err := ini0.InitKeyExchange(reader(k32(chain("serial/ra"))), 3)
					if err != nil {
						return parseResult{err: err}
					}
					r.equal = r.equal && p.MasterPublic().Equal(w.pub) && bytes.Equal(ra, ra0)
					return r
				})
			}
			d.finish(t)
		})
	}
	// key generation from the scripted reader: the result is a valid, self-consistent master key
	c.Case("keygen/from-reader", func(t *engine.T) {
		d := newTranscript()
		for i := 0; i < 6; i++ {
			blk := k32(chain(fmt.Sprintf("keygen/%d", i)))
			blk[0] &= 0x7f // below n (and still below n whatever single bit the generator toggles outside byte 0)
			var sm *sm9.SignMasterPrivateKey
			var em *sm9.EncryptMasterPrivateKey
			var e1, e2 error
			if t.Guard("keygen/generate", func() {
				sm, e1 = sm9.GenerateSignMasterKey(reader(blk))
				em, e2 = sm9.GenerateEncryptMasterKey(reader(blk))
			}) {
				continue
			}
			t.Eval(2)
			if e1 != nil || e2 != nil {
				t.Fail("keygen/generate/error", "GenerateSignMasterKey: %v, GenerateEncryptMasterKey: %v", e1, e2)
				continue
			}
			ds, de := new(big.Int).SetBytes(sm.Bytes()), new(big.Int).SetBytes(em.Bytes())
			d.add("ds", sm.Bytes())
			d.add("de", em.Bytes())
			lim := new(big.Int).Sub(nOrd, one)
			if ds.Sign() <= 0 || ds.Cmp(lim) >= 0 || de.Sign() <= 0 || de.Cmp(lim) >= 0 {
				t.Fail("keygen/generate/out-of-range", "generated master scalar outside [1, n-2]: %x / %x", ds, de)
				continue
			}
			p2, _ := new(vh.G2).ScalarBaseMult(k32(ds))
			eq(t, "keygen/generate/public-mismatch", sm.PublicKey().Bytes(), p2.MarshalUncompressed(), "generated sign master public key vs [d]P2")
			eq(t, "keygen/generate/public-mismatch", em.PublicKey().Bytes(), curve.BaseMul(de).Uncompressed(), "generated encrypt master public key vs [d]P1")
			t.Nontrivial(fmt.Sprintf("keygen/%d", i))
		}
		d.finish(t)
	})
}
