package c10

import (
	"bytes"
	"fmt"
	"math/big"

	"github.com/emmansun/gmsm/sm9"

	"verif/engine"
	"verif/ref/sm9ref"
)

// E3: soundness against alteration. Every mutant differs from the seed artefact; the oracle is "rejected"
// (wrapped keys: "error or a different key"), and never a panic.

func eachMutant(seed []byte, der bool, fn func(desc string, m []byte)) {
	engine.EachMutant(seed, engine.MutOpt{DER: der}, func(desc string, m []byte) {
		if bytes.Equal(m, seed) {
			return
		}
		fn(desc, m)
	})
}

// findR returns the first scalar of a deterministic chain satisfying pred.
func findR(label string, pred func(r *big.Int) bool) *big.Int {
	for i := 0; i < 400; i++ {
		r := chain(fmt.Sprintf("%s/%d", label, i))
		if pred(r) {
			return r
		}
	}
	return nil
}

var fitLimit = new(big.Int).Sub(two256, pFld) // c + p < 2^256 <=> c < 2^256 - p

// plusP returns copies of the 64-byte x||y block at enc[off:off+64] with p added to x, to y, and to both
// (only the variants that still fit in 32 bytes).
func plusP(enc []byte, off int) (out [][]byte, names []string) {
	x := new(big.Int).SetBytes(enc[off : off+32])
	y := new(big.Int).SetBytes(enc[off+32 : off+64])
	fx, fy := x.Cmp(fitLimit) < 0, y.Cmp(fitLimit) < 0
	mk := func(ax, ay bool) []byte {
		m := append([]byte{}, enc...)
		if ax {
			copy(m[off:], k32(new(big.Int).Add(x, pFld)))
		}
		if ay {
			copy(m[off+32:], k32(new(big.Int).Add(y, pFld)))
		}
		return m
	}
	if fx {
		out, names = append(out, mk(true, false)), append(names, "x+p")
	}
	if fy {
		out, names = append(out, mk(false, true)), append(names, "y+p")
	}
	if fx && fy {
		out, names = append(out, mk(true, true)), append(names, "x+p,y+p")
	}
	return
}

// ---------------------------------------------------------------------------------------------
// tiny strict TLV reader used only to classify ciphertext mutants

func readTLV(b []byte) (tag byte, content, rest []byte, ok bool) {
	if len(b) < 2 {
		return
	}
	tag = b[0]
	l := int(b[1])
	off := 2
	if l&0x80 != 0 {
		k := l & 0x7f
		if k == 0 || k > 2 || len(b) < 2+k {
			return
		}
		l = 0
		for i := 0; i < k; i++ {
			l = l<<8 | int(b[2+i])
		}
		off = 2 + k
	}
	if len(b) < off+l {
		return
	}
	return tag, b[off : off+l], b[off+l:], true
}

// splitCipher splits SEQUENCE{INTEGER, BIT STRING, OCTET STRING, OCTET STRING}.
func splitCipher(b []byte) (typ *big.Int, c1, c3, c2 []byte, ok bool) {
	tag, body, rest, ok1 := readTLV(b)
	if !ok1 || tag != 0x30 || len(rest) != 0 {
		return
	}
	tag, ic, body, ok1 := readTLV(body)
	if !ok1 || tag != 0x02 || len(ic) == 0 {
		return
	}
	tag, c1, body, ok1 = readTLV(body)
	if !ok1 || tag != 0x03 {
		return
	}
	tag, c3, body, ok1 = readTLV(body)
	if !ok1 || tag != 0x04 {
		return
	}
	tag, c2, body, ok1 = readTLV(body)
	if !ok1 || tag != 0x04 || len(body) != 0 {
		return
	}
	typ = new(big.Int).SetBytes(ic)
	if ic[0]&0x80 != 0 {
		typ.Sub(typ, new(big.Int).Lsh(one, uint(8*len(ic))))
	}
	return typ, c1, c3, c2, true
}

func supportedType(v *big.Int) bool {
	if !v.IsInt64() {
		return false
	}
	switch v.Int64() {
	case 0, 1, 2, 4, 8:
		return true
	}
	return false
}

// ---------------------------------------------------------------------------------------------

func runSound(c *engine.Ctx) {
	soundSign(c)
	soundWrap(c)
	soundEnc(c)
	soundKX(c)
}

func soundSign(c *engine.Ctx) {
	ks := chain("sound/sign/ks")
	uid := uidOf(baseUIDLen)
	const hid = 1
	msg := msgOf(20)
	otherIDs := func() [][]byte {
		return [][]byte{append(append([]byte{}, uid...), 0), append(append([]byte{}, uid[:len(uid)-1]...), uid[len(uid)-1]^1), uid[:len(uid)-1], {}, uidOf(6), append([]byte{0}, uid...)}
	}
	otherMsgs := func() [][]byte {
		return [][]byte{append(append([]byte{}, msg...), 0), append(append([]byte{}, msg[:len(msg)-1]...), msg[len(msg)-1]^0x80), msg[:len(msg)-1], {}, append([]byte{msg[0] ^ 1}, msg[1:]...)}
	}
	c.Case("sound/sign/asn1", func(t *engine.T) {
		d := newTranscript()
		w := newSignWorld(t, ks, uid, hid)
		if w == nil {
			return
		}
		r := chain("sound/sign/r")
		sig, h, s := checkSign(t, d, w, msg, r, "sound")
		if sig == nil {
			return
		}
		acc := 0
		eachMutant(sig, true, func(desc string, m []byte) {
			var v bool
			if t.Guard("sound/verify-asn1", func() { v = sm9.VerifyASN1(w.pub, uid, hid, msg, m) }) {
				return
			}
			t.Eval(1)
			if v {
				acc++
				t.Fail("sound/verify-asn1/altered-signature-accepted", "mutant %s of a valid DER signature verifies: %s", desc, hx(m))
			}
		})
		d.add("accepted", []byte{byte(acc)})
		// non-canonical h: OCTET STRING 00||h
		nc := sm9ref.DerSeq(sm9ref.DerOctets(append([]byte{0}, sm9ref.Bytes32(h)...)), sm9ref.DerBits(s))
		var v bool
		if !t.Guard("sound/verify-asn1", func() { v = sm9.VerifyASN1(w.pub, uid, hid, msg, nc) }) {
			t.Eval(1)
			d.addBool("h-leading-zero", v)
			if v {
				t.Fail("sound/verify-asn1/h-leading-zero-accepted", "signature with h encoded as the 33-byte OCTET STRING 00||h verifies (h is a 32-byte string in SM9Signature): %s", hx(nc))
			}
		}
		// other identity / hid / message
		for i, id := range otherIDs() {
			if !t.Guard("sound/verify-asn1", func() { v = sm9.VerifyASN1(w.pub, id, hid, msg, sig) }) && v {
				t.Fail("sound/verify/other-uid-accepted", "signature verifies under other uid #%d (%x)", i, id)
			}
			t.Eval(1)
		}
		for _, oh := range []byte{hid ^ 1, hid + 1, 0, 0xff} {
			if !t.Guard("sound/verify-asn1", func() { v = sm9.VerifyASN1(w.pub, uid, oh, msg, sig) }) && v {
				t.Fail("sound/verify/other-hid-accepted", "signature verifies under hid %d", oh)
			}
			t.Eval(1)
		}
		for i, om := range otherMsgs() {
			if !t.Guard("sound/verify-asn1", func() { v = sm9.VerifyASN1(w.pub, uid, hid, om, sig) }) && v {
				t.Fail("sound/verify/other-message-accepted", "signature verifies for other message #%d", i)
			}
			t.Eval(1)
		}
		// other master key
		if w2 := newSignWorld(t, chain("sound/sign/ks2"), uid, hid); w2 != nil {
			if !t.Guard("sound/verify-asn1", func() { v = sm9.VerifyASN1(w2.pub, uid, hid, msg, sig) }) && v {
				t.Fail("sound/verify/other-master-accepted", "signature verifies under another master public key")
			}
			t.Eval(1)
		}
		t.Nontrivial("sound/sign/asn1")
		d.finish(t)
		t.Sample(map[string]any{"soundness": "signature DER mutants", "seed_len": len(sig), "seed": hx(sig)})
	})
	c.Case("sound/sign/raw", func(t *engine.T) {
		d := newTranscript()
		w := newSignWorld(t, ks, uid, hid)
		if w == nil {
			return
		}
		r := chain("sound/sign/r")
		h, s, _, ok := w.expectSig(msg, r)
		if !ok {
			return
		}
		var v bool
		if t.Guard("sound/verify", func() { v = sm9.Verify(w.pub, uid, hid, msg, h, s) }) {
			return
		}
		if !v {
			t.Fail("verify/valid-rejected", "sm9.Verify rejects the reference signature")
			return
		}
		eachMutant(s, false, func(desc string, m []byte) {
			if t.Guard("sound/verify", func() { v = sm9.Verify(w.pub, uid, hid, msg, h, m) }) {
				return
			}
			t.Eval(1)
			if v {
				t.Fail("sound/verify/altered-S-accepted", "S mutant %s verifies: %s", desc, hx(m))
			}
		})
		eachMutant(sm9ref.Bytes32(h), false, func(desc string, m []byte) {
			hm := new(big.Int).SetBytes(m)
			if hm.Cmp(h) == 0 {
				return // same integer (the API takes a *big.Int)
			}
			if t.Guard("sound/verify", func() { v = sm9.Verify(w.pub, uid, hid, msg, hm, s) }) {
				return
			}
			t.Eval(1)
			if v {
				t.Fail("sound/verify/altered-h-accepted", "h mutant %s verifies: %x", desc, hm)
			}
		})
		// h = 0, h = n + h, h >= n
		for _, hv := range []*big.Int{big.NewInt(0), new(big.Int).Add(h, nOrd), new(big.Int).Set(nOrd), new(big.Int).Neg(h)} {
			if t.Guard("sound/verify", func() { v = sm9.Verify(w.pub, uid, hid, msg, hv, s) }) {
				continue
			}
			t.Eval(1)
			if v {
				t.Fail("sound/verify/h-out-of-range-accepted", "h = %x (valid h = %x) verifies", hv, h)
			}
		}
		// h + n in 32 bytes: a signature whose h is below 2^256 - n (found by walking the scripted r) so that the
		// out-of-range value keeps the size of an H2 output - a reduction instead of a range check would accept it
		{
			lim := new(big.Int).Sub(new(big.Int).Lsh(big.NewInt(1), 256), nOrd)
			found := false
			for i := 0; i < 64 && !found; i++ {
				ri := chain(fmt.Sprintf("sound/sign/small-h/r#%d", i))
				h2, s2, der2, ok2 := w.expectSig(msg, ri)
				if !ok2 || h2.Cmp(lim) >= 0 {
					continue
				}
				found = true
				var v0 bool
				if t.Guard("sound/verify", func() { v0 = sm9.Verify(w.pub, uid, hid, msg, h2, s2) }) || !v0 {
					if !v0 {
						t.Fail("verify/valid-rejected", "sm9.Verify rejects the reference signature with small h %x", h2)
					}
					break
				}
				hn := new(big.Int).Add(h2, nOrd)
				derN := bytes.Replace(der2, sm9ref.Bytes32(h2), sm9ref.Bytes32(hn), 1)
				var v1, v2 bool
				if t.Guard("sound/verify", func() {
					v1 = sm9.Verify(w.pub, uid, hid, msg, hn, s2)
					v2 = sm9.VerifyASN1(w.pub, uid, hid, msg, derN)
				}) {
					break
				}
				t.Eval(2)
				if v1 || v2 {
					t.Fail("sound/verify/h-out-of-range-accepted", "h + n = %x still fits 32 bytes (valid h = %x) and verifies (Verify=%v VerifyASN1=%v)", hn, h2, v1, v2)
				}
				t.Nontrivial("sound/sign/raw/h+n-in-32-bytes")
			}
			if !found {
				t.Fail("HARNESS/small-h-not-found", "no signature with h < 2^256 - n in 64 tries")
			}
		}
		t.Nontrivial("sound/sign/raw")
		d.addBool("ok", true)
		d.finish(t)
	})
	// coordinate + p forms of S (non-canonical encodings of the same point)
	c.Case("sound/sign/S-coordinate+p", func(t *engine.T) {
		d := newTranscript()
		w := newSignWorld(t, ks, uid, hid)
		if w == nil {
			return
		}
		tried := 0
		for _, want := range []string{"x", "y"} {
			r := findR("sound/sign/fit-"+want, func(r *big.Int) bool {
				_, s, _, ok := w.expectSig(msg, r)
				if !ok {
					return false
				}
				c := new(big.Int).SetBytes(s[1:33])
				if want == "y" {
					c.SetBytes(s[33:65])
				}
				return c.Cmp(fitLimit) < 0
			})
			if r == nil {
				t.Cap("no signature with a coordinate below 2^256-p found in 400 scalars")
				continue
			}
			h, s, _, _ := w.expectSig(msg, r)
			ms, names := plusP(s, 1)
			for i, m := range ms {
				tried++
				var v1, v2 bool
				der := sm9ref.DerSeq(sm9ref.DerOctets(sm9ref.Bytes32(h)), sm9ref.DerBits(m))
				if t.Guard("sound/verify", func() {
					v1 = sm9.Verify(w.pub, uid, hid, msg, h, m)
					v2 = sm9.VerifyASN1(w.pub, uid, hid, msg, der)
				}) {
					continue
				}
				t.Eval(2)
				d.addBool("v1", v1)
				d.addBool("v2", v2)
				if v1 || v2 {
					t.Fail("sound/verify/S-coordinate>=p-accepted", "signature whose S has %s (coordinate >= p, same point mod p) verifies (Verify=%v VerifyASN1=%v): S=%s", names[i], v1, v2, hx(m))
				}
			}
		}
		t.Extra("coordinate_plus_p_probes", tried)
		t.Nontrivial("sound/sign/S+p")
		d.finish(t)
	})
	if !c.Quick() {
		// thorough: all 2-deviation substitution mutants of h||S through sm9.Verify, chunked by first position
		hs := 32 + 65
		for lo := 0; lo < hs; lo++ {
			lo := lo
			c.Case(fmt.Sprintf("sound/sign/raw-2dev/i=%d", lo), func(t *engine.T) {
				w := newSignWorld(t, ks, uid, hid)
				if w == nil {
					return
				}
				h, s, _, ok := w.expectSig(msg, chain("sound/sign/r"))
				if !ok {
					return
				}
				seed := append(sm9ref.Bytes32(h), s...)
				buf := make([]byte, len(seed))
				for i := lo; i < lo+1 && i < hs; i++ {
					for _, vi := range engine.SmallSubs(seed[i]) {
						for j := i + 1; j < hs; j++ {
							for _, vj := range engine.SmallSubs(seed[j]) {
								copy(buf, seed)
								buf[i], buf[j] = vi, vj
								hm := new(big.Int).SetBytes(buf[:32])
								var v bool
								if t.Guard("sound/verify", func() { v = sm9.Verify(w.pub, uid, hid, msg, hm, buf[32:]) }) {
									return
								}
								t.Eval(1)
								if v {
									t.Fail("sound/verify/altered-signature-accepted", "2-deviation mutant @%d=%02x @%d=%02x verifies", i, vi, j, vj)
								}
							}
						}
					}
				}
				t.Nontrivial(fmt.Sprintf("sound/sign/2dev/%d", lo))
				t.Outcome(t.Name + ":rejected-all")
			})
		}
	}
}

func soundWrap(c *engine.Ctx) {
	ke := chain("sound/wrap/ke")
	uid := uidOf(baseUIDLen)
	const hid = 3
	c.Case("sound/wrap", func(t *engine.T) {
		d := newTranscript()
		w := newEncWorld(t, ke, uid, hid)
		if w == nil {
			return
		}
		b := w.base(findR("sound/wrap/fit", func(r *big.Int) bool {
			cc := encPt(curve.Mul(r, w.qRef))
			return new(big.Int).SetBytes(cc[:32]).Cmp(fitLimit) < 0
		}))
		const klen = 32
		key, cipher := checkWrap(t, d, w, b, klen, "sound")
		if key == nil {
			return
		}
		judge := func(form, desc string, m []byte, k []byte, err error) {
			t.Eval(1)
			if err == nil && bytes.Equal(k, key) {
				t.Fail("sound/unwrap/altered-cipher-same-key", "%s mutant %s unwraps to the original key: %s", form, desc, hx(m))
			}
			if err == nil {
				t.Extra("altered_wrapped_keys_unwrapping_to_another_key", 1)
			}
		}
		eachMutant(cipher, false, func(desc string, m []byte) {
			if bytes.Equal(m, cipher[1:]) {
				return // documented alternative form without the 04 prefix
			}
			var k []byte
			var err error
			if t.Guard("sound/unwrap", func() { k, err = sm9.UnwrapKey(w.user, uid, m, klen) }) {
				return
			}
			judge("raw", desc, m, k, err)
		})
		der := sm9ref.DerBits(cipher)
		eachMutant(der, true, func(desc string, m []byte) {
			var k []byte
			var err error
			if t.Guard("sound/unwrap-asn1", func() { k, err = w.user.UnwrapKey(uid, m, klen) }) {
				return
			}
			judge("BIT STRING", desc, m, k, err)
		})
		ms, names := plusP(cipher, 1)
		for i, m := range ms {
			var k []byte
			var err error
			if t.Guard("sound/unwrap", func() { k, err = sm9.UnwrapKey(w.user, uid, m, klen) }) {
				continue
			}
			judge("raw", "C "+names[i], m, k, err)
			d.addErr("plusp", err)
		}
		t.Extra("coordinate_plus_p_probes", len(ms))
		// other uid / other user's key / other hid
		for i, id := range [][]byte{append(append([]byte{}, uid...), 0), uid[:len(uid)-1], {}, uidOf(6)} {
			var k []byte
			var err error
			if t.Guard("sound/unwrap", func() { k, err = sm9.UnwrapKey(w.user, id, cipher, klen) }) {
				continue
			}
			t.Eval(1)
			if err == nil && bytes.Equal(k, key) {
				t.Fail("sound/unwrap/other-uid-same-key", "UnwrapKey with other uid #%d returns the original key", i)
			}
		}
		if u2, _, ok := w.userFor(t, uidOf(6)); ok {
			k, err := sm9.UnwrapKey(u2, uid, cipher, klen)
			t.Eval(1)
			if err == nil && bytes.Equal(k, key) {
				t.Fail("sound/unwrap/other-user-key-same-key", "another user's private key unwraps the original key")
			}
		}
		if w2 := newEncWorld(t, ke, uid, hid^2); w2 != nil {
			k, err := sm9.UnwrapKey(w2.user, uid, cipher, klen)
			t.Eval(1)
			if err == nil && bytes.Equal(k, key) {
				t.Fail("sound/unwrap/other-hid-same-key", "the user key for another hid unwraps the original key")
			}
		}
		t.Nontrivial("sound/wrap")
		d.finish(t)
	})
}

func soundEnc(c *engine.Ctx) {
	ke := chain("sound/enc/ke")
	uid := uidOf(baseUIDLen)
	const hid = 3
	type seedSpec struct {
		mode  string
		pl    int
		forms []string
	}
	both := []string{"raw", "asn1"}
	seeds := []seedSpec{{"xor", 32, both}, {"cbc", 32, both}, {"cfb", 33, []string{"asn1"}}}
	if !c.Quick() {
		seeds = nil
		for _, mn := range []string{"xor", "ecb", "cbc", "cfb", "ofb"} {
			for _, pl := range []int{1, 32, 33} {
				seeds = append(seeds, seedSpec{mn, pl, both})
			}
		}
	}
	for _, sd := range seeds {
		{
			m := modeByName(sd.mode)
			pl := sd.pl
			for _, form := range sd.forms {
				form := form
				c.Case(fmt.Sprintf("sound/enc/%s/%s/payload=%d", m.name, form, pl), func(t *engine.T) {
					d := newTranscript()
					w := newEncWorld(t, ke, uid, hid)
					if w == nil {
						return
					}
					b := w.base(findR("sound/enc/fit", func(r *big.Int) bool {
						cc := encPt(curve.Mul(r, w.qRef))
						return new(big.Int).SetBytes(cc[32:]).Cmp(fitLimit) < 0
					}))
					msg := msgOf(pl)
					iv := ivOf("sound" + m.name)
					raw, der := checkEnc(t, d, w, b, m, iv, msg, "sound")
					if t.Failed() {
						return
					}
					rejected, confusion := 0, 0
					if form == "raw" {
						try := func(desc string, mut []byte) {
							var err error
							if t.Guard("sound/decrypt-raw", func() { _, err = sm9.Decrypt(w.user, uid, mut, m.opts) }) {
								return
							}
							t.Eval(1)
							if err == nil {
								t.Fail("sound/decrypt-raw/altered-ciphertext-accepted", "mode %s: mutant %s of C1||C3||C2 decrypts without error: %s", m.name, desc, hx(mut))
							} else {
								rejected++
							}
						}
						eachMutant(raw, false, try)
						ms, nm := plusP(raw, 0)
						for i, mm := range ms {
							try("C1 "+nm[i], mm)
						}
						t.Extra("coordinate_plus_p_probes", len(ms))
						// other uid, other user, other hid, other mode
						for i, id := range [][]byte{append(append([]byte{}, uid...), 0), uid[:len(uid)-1], {}, uidOf(6)} {
							var err error
							if t.Guard("sound/decrypt-raw", func() { _, err = sm9.Decrypt(w.user, id, raw, m.opts) }) {
								continue
							}
							t.Eval(1)
							if err == nil {
								t.Fail("sound/decrypt/other-uid-accepted", "mode %s: Decrypt with other uid #%d succeeds", m.name, i)
							}
						}
						if u2, _, ok := w.userFor(t, uidOf(6)); ok {
							var err error
							if !t.Guard("sound/decrypt-raw", func() { _, err = sm9.Decrypt(u2, uid, raw, m.opts) }) {
								t.Eval(1)
								if err == nil {
									t.Fail("sound/decrypt/other-user-key-accepted", "mode %s: another user's key decrypts", m.name)
								}
							}
						}
						if w2 := newEncWorld(t, ke, uid, hid^2); w2 != nil {
							var err error
							if !t.Guard("sound/decrypt-raw", func() { _, err = sm9.Decrypt(w2.user, uid, raw, m.opts) }) {
								t.Eval(1)
								if err == nil {
									t.Fail("sound/decrypt/other-hid-accepted", "mode %s: the user key for another hid decrypts", m.name)
								}
							}
						}
					} else {
						_, sc1, sc3, sc2, ok := splitCipher(der)
						if !ok {
							t.Fail("harness/split-cipher", "reference SM9Cipher does not split")
							return
						}
						try := func(desc string, mut []byte) {
							var err error
							var pt []byte
							typ, c1, c3, c2, okSplit := splitCipher(mut)
							typeOnly := okSplit && bytes.Equal(c1, sc1) && bytes.Equal(c3, sc3) && bytes.Equal(c2, sc2)
							if typeOnly {
								// Only the unauthenticated EncType field differs. If it names another supported mode the
								// outcome is not judged (mode confusion is inherent to the format) but it must not panic;
								// any other value must be rejected. Own recover: one finding key whatever block-mode
								// frame the panic comes from.
								t.Eval(1)
								panicked := false
								func() {
									defer func() {
										if r := recover(); r != nil {
											panicked = true
											t.Fail("sound/decrypt-asn1/enctype-confusion/panic", "mode %s: SM9Cipher with EncType changed to %s (C1, C3, C2 untouched, %d-byte C2) panics in DecryptASN1: %v; input %s", m.name, typ.String(), len(c2), r, hx(mut))
										}
									}()
									pt, err = sm9.DecryptASN1(w.user, uid, mut)
								}()
								switch {
								case panicked:
								case supportedType(typ):
									confusion++
								case err == nil:
									t.Fail("sound/decrypt-asn1/enctype-out-of-range-accepted", "mode %s: SM9Cipher with EncType INTEGER %s (not one of 0,1,2,4,8) decrypts (%d plaintext bytes): %s", m.name, typ.String(), len(pt), hx(mut))
								default:
									rejected++
								}
								return
							}
							if t.Guard("sound/decrypt-asn1", func() { pt, err = sm9.DecryptASN1(w.user, uid, mut) }) {
								return
							}
							t.Eval(1)
							if err != nil {
								rejected++
								return
							}
							t.Fail("sound/decrypt-asn1/altered-ciphertext-accepted", "mode %s: mutant %s of the SM9Cipher DER decrypts without error: %s", m.name, desc, hx(mut))
						}
						eachMutant(der, true, try)
						// EncType values that alias a supported mode modulo 256, and plain unsupported ones
						for _, tv := range []int64{0, 1, 2, 4, 8, 256, -256, 257, 258, 260, 264, 3, 5, 16, -1, 255, 65536} {
							if tv == m.typ {
								continue
							}
							body := append(append(append(sm9ref.DerInt64(tv), sm9ref.DerBits(sc1[1:])...), sm9ref.DerOctets(sc3)...), sm9ref.DerOctets(sc2)...)
							try(fmt.Sprintf("EncType=%d", tv), sm9ref.TLV(0x30, body))
						}
						if i := bytes.Index(der, raw[:64]); i >= 0 {
							ms, nm := plusP(der, i)
							for j, mm := range ms {
								try("C1 "+nm[j], mm)
							}
							t.Extra("coordinate_plus_p_probes", len(ms))
						}
						for i, id := range [][]byte{append(append([]byte{}, uid...), 0), uid[:len(uid)-1], {}, uidOf(6)} {
							var err error
							if t.Guard("sound/decrypt-asn1", func() { _, err = sm9.DecryptASN1(w.user, id, der) }) {
								continue
							}
							t.Eval(1)
							if err == nil {
								t.Fail("sound/decrypt/other-uid-accepted", "mode %s: DecryptASN1 with other uid #%d succeeds", m.name, i)
							}
						}
					}
					d.add("rejected", []byte(fmt.Sprint(rejected, confusion)))
					t.Extra("enctype_confusion_mutants_not_judged", confusion)
					t.Nontrivial(fmt.Sprintf("sound/enc/%s/%s/%d", m.name, form, pl))
					d.finish(t)
				})
			}
		}
	}
}

func soundKX(c *engine.Ctx) {
	ke := chain("sound/kx/ke")
	const hid = 2
	uidA, uidB := uidOf(5), uidOf(3)
	rA, rB := chain("sound/kx/ra"), chain("sound/kx/rb")
	c.Case("sound/kx", func(t *engine.T) {
		d := newTranscript()
		w := newEncWorld(t, ke, uidA, hid)
		if w == nil {
			return
		}
		userA, qA := w.user, w.qRef
		userB, qB, ok := w.userFor(t, uidB)
		if !ok {
			return
		}
		checkKX(t, d, ke, hid, uidA, uidB, rA, rB, 16, true, "sound")
		if t.Failed() {
			return
		}
		ra := curve.Mul(rA, qB).Uncompressed()
		rb := curve.Mul(rB, qA).Uncompressed()
		g1, g2 := gtExp(w.g, rA), gtExp(w.g, rB)
		g3 := gtExp(w.g, new(big.Int).Mod(new(big.Int).Mul(rA, rB), nOrd))
		sb := sm9ref.KXConfirm(0x82, g1, g2, g3, uidA, uidB, ra[1:], rb[1:])
		sa := sm9ref.KXConfirm(0x83, g1, g2, g3, uidA, uidB, ra[1:], rb[1:])
		newInit := func() interface {
			ConfirmResponder(rB, sB []byte) ([]byte, []byte, error)
		} {
			ini := userA.NewKeyExchange(uidA, uidB, 16, true)
			if _, err := ini.InitKeyExchange(reader(k32(rA)), hid); err != nil {
				panic(err)
			}
			return ini
		}
		// RA altered -> responder refuses or answers with another SB
		tryRA := func(desc string, m []byte) {
			res := userB.NewKeyExchange(uidB, uidA, 16, true)
			var sbm []byte
			var err error
			if t.Guard("sound/kx/respond", func() { _, sbm, err = res.RespondKeyExchange(reader(k32(rB)), hid, m) }) {
				return
			}
			t.Eval(1)
			if err == nil && bytes.Equal(sbm, sb) {
				t.Fail("sound/kx/altered-RA-same-confirmation", "RA mutant %s yields the original SB: %s", desc, hx(m))
			}
		}
		eachMutant(ra, false, tryRA)
		// RB altered -> initiator refuses
		tryRB := func(desc string, m []byte) {
			ini := newInit()
			var err error
			if t.Guard("sound/kx/confirm-responder", func() { _, _, err = ini.ConfirmResponder(m, sb) }) {
				return
			}
			t.Eval(1)
			if err == nil {
				t.Fail("sound/kx/altered-RB-accepted", "RB mutant %s accepted by ConfirmResponder with the original SB: %s", desc, hx(m))
			}
		}
		eachMutant(rb, false, tryRB)
		for _, pt := range []struct {
			name string
			enc  []byte
			f    func(string, []byte)
		}{{"RA", ra, tryRA}, {"RB", rb, tryRB}} {
			ms, nm := plusP(pt.enc, 1)
			for i, m := range ms {
				pt.f(pt.name+" "+nm[i], m)
			}
			t.Extra("coordinate_plus_p_probes", len(ms))
		}
		// SB altered -> initiator refuses (an empty SB means "no confirmation sent" by the documented API and is not judged)
		eachMutant(sb, false, func(desc string, m []byte) {
			ini := newInit()
			var err error
			if t.Guard("sound/kx/confirm-responder", func() { _, _, err = ini.ConfirmResponder(rb, m) }) {
				return
			}
			if len(m) == 0 {
				return
			}
			t.Eval(1)
			if err == nil {
				t.Fail("sound/kx/altered-SB-accepted", "SB mutant %s accepted: %s", desc, hx(m))
			}
		})
		// SA altered -> responder refuses (nil means "no confirmation"; an empty non-nil slice is compared)
		eachMutant(sa, false, func(desc string, m []byte) {
			res := userB.NewKeyExchange(uidB, uidA, 16, true)
			if _, _, err := res.RespondKeyExchange(reader(k32(rB)), hid, ra); err != nil {
				t.Fail("kx/respond/error", "%v", err)
				return
			}
			var err error
			if t.Guard("sound/kx/confirm-initiator", func() { _, err = res.ConfirmInitiator(m) }) {
				return
			}
			t.Eval(1)
			if err == nil {
				t.Fail("sound/kx/altered-SA-accepted", "SA mutant %s accepted: %s", desc, hx(m))
			}
		})
		// wrong peer identity on one side -> confirmation fails
		ini := userA.NewKeyExchange(uidA, uidOf(4), 16, true)
		if _, err := ini.InitKeyExchange(reader(k32(rA)), hid); err == nil {
			var err error
			if !t.Guard("sound/kx/confirm-responder", func() { _, _, err = ini.ConfirmResponder(rb, sb) }) {
				t.Eval(1)
				if err == nil {
					t.Fail("sound/kx/other-peer-uid-accepted", "initiator configured with another peer uid accepts SB")
				}
			}
		}
		t.Nontrivial("sound/kx")
		d.finish(t)
	})
}
