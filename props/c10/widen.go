package c10

// Widening of the C10 alphabet in the generic input dimensions of DESIGN §11.4 (all families are bounded exhaustive
// enumerations over the real sm9 package against the same references as the base driver):
//
//   own/        ownership: every slice a call returns is overwritten by the harness (to its full capacity) after it has
//               been compared, then the call is repeated on the same object; slices handed to a constructor / protocol
//               step are overwritten after the call returned (constructor identities, the peer's ephemeral point);
//               buffers a key was parsed from are overwritten after parsing. Objects must keep giving the reference
//               answers.
//   layout/     records: all slice arguments of a call carved from one array in every order, capacities reaching to
//               the end of the record plus 1 KiB of dirty slack; every call twice on the same record. Results must
//               equal the reference and no field of the record may change.
//   integrity/  inputs of verify / unwrap / decrypt are unchanged after a successful and after a failing call, and a
//               failing call (other message, other uid, damaged artefact) followed by the good one on the same buffers
//               and objects gives the good answer, twice.
//   history/    call history on one object and on process-wide state (shared option objects, lazily built pairing
//               tables): every ordered pair of (uid, hid, length) states on one master public key, every ordered pair of
//               (mode, length) states on one user key, first use of a freshly parsed key through every entry point,
//               key-exchange objects reused for a second session, after Destroy, after a refused message, and two
//               sessions interleaved on the same private keys.
//   lanes/      every residue x lane class of SM3 / the multi-lane KDF as seen through the schemes the base sweep does
//               not reach: key exchange and XOR encryption with >= 8 KDF blocks x every input residue mod 64, message
//               lengths 0..130 under H2, payload lengths 1..130 under the MAC, every payload residue mod 16 for all modes.
//   variant/    every accepted variant: the exported New{ECB,CBC,CFB,OFB}EncrypterOpts constructors with SM4 and
//               AES-128/192/256 and the four padding schemes, more hid values, nil slices, the crypto.Decrypter options.
//   shape/      leading-zero shapes of every serialised group element and scalar (C, g^r, Ppub, de/ds, ks).
//   degenerate/ branches that need constructed inputs: ks = H1(ID||hid) (the user public key is a doubling),
//               ks = n - H1(ID||hid) (no user key exists), a one-byte wrapped key that comes out all-zero (retry),
//               random blocks outside [1, n-1] (rejection).

import (
	"bytes"
	"fmt"
	"math/big"

	"github.com/emmansun/gmsm/sm9"

	"verif/engine"
	"verif/ref/ecref"
	"verif/ref/sm9ref"
)

func runWiden(c *engine.Ctx) {
	runOwn(c)
	runLayout(c)
	runIntegrity(c)
	runHistory(c)
	runLanes(c)
	runVariants(c)
	runShapes(c)
	runDegenerate(c)
}

// ---------------------------------------------------------------------------------------------
// helpers

func clone(b []byte) []byte { return append([]byte{}, b...) }

// rawUID / rawMsg: the same contents as uidOf / msgOf in an exactly sized buffer of their own (the families below
// decide the layout themselves).
func rawUID(n int) []byte {
	b := make([]byte, n)
	for i := range b {
		b[i] = byte(0x41 + (i*7+n*3)%53)
	}
	return b
}

func rawMsg(n int) []byte {
	b := make([]byte, n)
	for i := range b {
		b[i] = byte(i*11+n*5+3) ^ byte(i>>8)
	}
	return b
}

// scribble overwrites a slice the caller owns, up to its capacity; every byte changes.
func scribble(b []byte) {
	b = b[:cap(b)]
	for i := range b {
		b[i] = ^b[i]
	}
}

// withSlack returns a copy of b followed by dirty spare capacity (the harness' own buffer for an input).
func withSlack(b []byte) []byte {
	buf := make([]byte, len(b)+slackLen)
	copy(buf, b)
	for i := len(b); i < len(buf); i++ {
		buf[i] = 0x5C ^ byte(i*3)
	}
	return buf[:len(b):len(buf)]
}

const slackLen = 1024 // more than the longest thing the library ever appends to anything (g^r: 384 bytes, + uid)

// arena is one backing array holding several live fields one directly behind the other, followed by dirty slack. Every
// field is handed out with a capacity that reaches to the end of the array, so any append by the callee lands in the
// following fields.
type arena struct {
	buf   []byte
	names []string
	off   []int
	ln    []int
	orig  []byte
}

type part struct {
	name string
	data []byte
}

func newArena(parts ...part) *arena {
	n := 0
	for _, p := range parts {
		n += len(p.data)
	}
	a := &arena{buf: make([]byte, n+slackLen)}
	o := 0
	for _, p := range parts {
		copy(a.buf[o:], p.data)
		a.names, a.off, a.ln = append(a.names, p.name), append(a.off, o), append(a.ln, len(p.data))
		o += len(p.data)
	}
	for i := n; i < len(a.buf); i++ {
		a.buf[i] = 0xA7 ^ byte(i*5)
	}
	a.orig = clone(a.buf)
	return a
}

func (a *arena) f(name string) []byte {
	for i, n := range a.names {
		if n == name {
			return a.buf[a.off[i] : a.off[i]+a.ln[i] : len(a.buf)]
		}
	}
	panic("arena: no field " + name)
}

func (a *arena) order() string {
	s := ""
	for i, n := range a.names {
		if i > 0 {
			s += "||"
		}
		s += n
	}
	return s
}

// check reports every field that differs from its original content under <family>/<op>/<field>-modified and restores
// the record. Writes into the slack behind the record are counted, not judged (append-like behaviour into spare
// capacity is judged only by its effect on live data).
func (a *arena) check(t *engine.T, family, op string) bool {
	ok := true
	end := 0
	for i, n := range a.names {
		lo, hi := a.off[i], a.off[i]+a.ln[i]
		end = hi
		if !bytes.Equal(a.buf[lo:hi], a.orig[lo:hi]) {
			t.Fail(family+"/"+op+"/"+n+"-modified", "record %s: the %s field (%d bytes at offset %d), a live argument of the caller, was modified by %s: first difference at byte %d of the field", a.order(), n, a.ln[i], lo, op, engine.FirstDiff(a.buf[lo:hi], a.orig[lo:hi]))
			ok = false
		}
	}
	if !bytes.Equal(a.buf[end:], a.orig[end:]) {
		t.Extra("writes_into_spare_capacity_behind_a_record_not_judged", 1)
	}
	copy(a.buf, a.orig)
	return ok
}

func perms(names ...string) [][]string {
	if len(names) <= 1 {
		return [][]string{append([]string{}, names...)}
	}
	var out [][]string
	for i := range names {
		rest := append(append([]string{}, names[:i]...), names[i+1:]...)
		for _, p := range perms(rest...) {
			out = append(out, append([]string{names[i]}, p...))
		}
	}
	return out
}

func arenaOf(order []string, data map[string][]byte) *arena {
	var ps []part
	for _, n := range order {
		ps = append(ps, part{n, data[n]})
	}
	return newArena(ps...)
}

// same compares a library result with the reference under a family key.
func same(t *engine.T, key string, got, want []byte, format string, a ...any) bool {
	return eq(t, key, got, want, format, a...)
}

// pairSequence returns a closed walk over k states that takes every ordered pair (i, j), i and j in [0, k), as two
// consecutive elements exactly once (an Eulerian circuit of the complete digraph with loops; Hierholzer, deterministic).
func pairSequence(k int) []int {
	next := make([]int, k) // next unused successor of each state
	var stack, circuit []int
	stack = append(stack, 0)
	for len(stack) > 0 {
		v := stack[len(stack)-1]
		if next[v] < k {
			u := next[v]
			next[v]++
			stack = append(stack, u)
		} else {
			circuit = append(circuit, v)
			stack = stack[:len(stack)-1]
		}
	}
	for i, j := 0, len(circuit)-1; i < j; i, j = i+1, j-1 {
		circuit[i], circuit[j] = circuit[j], circuit[i]
	}
	return circuit
}

// kxExp holds the reference values of one key exchange.
type kxExp struct {
	ra, rb, sb, sa, sk []byte
}

func (w *encWorld) kxExpect(qA, qB ecref.Point, uidA, uidB []byte, rA, rB *big.Int, klen int, conf bool) kxExp {
	var e kxExp
	e.ra = curve.Mul(rA, qB).Uncompressed()
	e.rb = curve.Mul(rB, qA).Uncompressed()
	g1, g2 := gtExp(w.g, rA), gtExp(w.g, rB)
	g3 := gtExp(w.g, new(big.Int).Mod(new(big.Int).Mul(rA, rB), nOrd))
	e.sk = sm9ref.KXKey(g1, g2, g3, uidA, uidB, e.ra[1:], e.rb[1:], klen)
	if conf {
		e.sb = sm9ref.KXConfirm(0x82, g1, g2, g3, uidA, uidB, e.ra[1:], e.rb[1:])
		e.sa = sm9ref.KXConfirm(0x83, g1, g2, g3, uidA, uidB, e.ra[1:], e.rb[1:])
	}
	return e
}

// kxPair is a master key with the user keys of two identities.
type kxPair struct {
	w            *encWorld
	uidA, uidB   []byte
	userA, userB *sm9.EncryptPrivateKey
	qA, qB       ecref.Point
}

func newKXPair(t *engine.T, ke *big.Int, hid byte, uidA, uidB []byte) *kxPair {
	w := newEncWorld(t, ke, uidA, hid)
	if w == nil {
		return nil
	}
	userB, qB, ok := w.userFor(t, uidB)
	if !ok {
		return nil
	}
	return &kxPair{w: w, uidA: uidA, uidB: uidB, userA: w.user, userB: userB, qA: w.qRef, qB: qB}
}

func (p *kxPair) expect(rA, rB *big.Int, klen int, conf bool) kxExp {
	return p.w.kxExpect(p.qA, p.qB, p.uidA, p.uidB, rA, rB, klen, conf)
}

// ---------------------------------------------------------------------------------------------
// own/: results belong to the caller

type accessor struct {
	name string
	f    func() ([]byte, error)
	want []byte // nil: the first answer is the expectation for the later ones
}

// ownAccessors: two results of the same accessor are alive at the same time and do not share memory; every returned
// slice is overwritten (to its capacity) after comparing and the accessor still gives the same answer afterwards.
func ownAccessors(t *engine.T, d *transcript, kind string, acc []accessor) {
	for _, a := range acc {
		prefix := "own/keys/" + kind + "/" + a.name
		call := func(n int) ([]byte, bool) {
			var got []byte
			var err error
			if t.Guard(prefix, func() { got, err = a.f() }) {
				return nil, false
			}
			t.Eval(1)
			if err != nil {
				t.Fail(prefix+"/error", "%s.%s, call #%d: %v", kind, a.name, n, err)
				return nil, false
			}
			return got, true
		}
		g0, ok := call(1)
		if !ok {
			continue
		}
		want := a.want
		if want == nil {
			want = clone(g0)
		} else if !bytes.Equal(g0, want) {
			t.Fail(prefix+"/mismatch", "%s.%s: got %s want %s", kind, a.name, hx(g0), hx(want))
			continue
		}
		d.add(kind+"."+a.name, g0)
		g1, ok := call(2)
		if !ok {
			continue
		}
		if !bytes.Equal(g1, want) {
			t.Fail(prefix+"/mismatch", "%s.%s, second call: got %s want %s", kind, a.name, hx(g1), hx(want))
			continue
		}
		scribble(g1)
		if !bytes.Equal(g0, want) {
			t.Fail(prefix+"/two-results-share-memory", "%s.%s: overwriting the slice returned by the second call changed the slice returned by the first", kind, a.name)
			continue
		}
		scribble(g0)
		for n := 3; n <= 4; n++ {
			g, ok := call(n)
			if !ok {
				break
			}
			if !bytes.Equal(g, want) {
				t.Fail(prefix+"/changes-after-caller-overwrote-earlier-result", "%s.%s, call #%d (after the harness overwrote the slices returned by the earlier calls): got %s want %s", kind, a.name, n, hx(g), hx(want))
				break
			}
			scribble(g)
		}
		t.Nontrivial(prefix)
	}
}

func runOwn(c *engine.Ctx) {
	ks, ke := chain("own/ks"), chain("own/ke")
	c.Case("own/keys/sign", func(t *engine.T) {
		d := newTranscript()
		uid, msg := rawUID(baseUIDLen), rawMsg(basePayLen)
		w := newSignWorld(t, ks, uid, 1)
		if w == nil {
			return
		}
		pubUnc := w.ppub.MarshalUncompressed()
		dsUnc := w.dsRef.Uncompressed()
		for pass := 0; pass < 2; pass++ {
			ownAccessors(t, d, "sign-master-private", []accessor{
				{"Bytes", func() ([]byte, error) { return w.master.Bytes(), nil }, k32(ks)},
				{"MarshalASN1", w.master.MarshalASN1, sm9ref.DerInt(ks)},
				{"PublicKey.Bytes", func() ([]byte, error) { return w.master.PublicKey().Bytes(), nil }, pubUnc},
				{"Public.Bytes", func() ([]byte, error) { return w.master.Public().(*sm9.SignMasterPublicKey).Bytes(), nil }, pubUnc},
			})
			ownAccessors(t, d, "sign-master-public", []accessor{
				{"Bytes", func() ([]byte, error) { return w.pub.Bytes(), nil }, pubUnc},
				{"MarshalASN1", w.pub.MarshalASN1, sm9ref.DerBits(pubUnc)},
				{"MarshalCompressedASN1", w.pub.MarshalCompressedASN1, nil},
			})
			ownAccessors(t, d, "sign-private", []accessor{
				{"Bytes", func() ([]byte, error) { return w.user.Bytes(), nil }, dsUnc},
				{"MarshalASN1", w.user.MarshalASN1, sm9ref.DerBits(dsUnc)},
				{"MarshalCompressedASN1", w.user.MarshalCompressedASN1, nil},
				{"MasterPublic.Bytes", func() ([]byte, error) { return w.user.MasterPublic().Bytes(), nil }, pubUnc},
				{"MasterPublic.MarshalASN1", func() ([]byte, error) { return w.user.MasterPublic().MarshalASN1() }, sm9ref.DerBits(pubUnc)},
			})
			// the objects still are what they were: a fresh user key, signatures, verification, equality
			r := chain(fmt.Sprint("own/sign/r", pass))
			sig, _, _ := checkSign(t, d, w, msg, r, "own/keys")
			if sig != nil {
				scribble(sig)
				checkSign(t, d, w, msg, r, "own/keys after the first signature was overwritten")
			}
			var u2 *sm9.SignPrivateKey
			var err error
			if !t.Guard("own/keys/sign", func() { u2, err = w.master.GenerateUserKey(uid, 1) }) {
				t.Eval(1)
				if err != nil {
					t.Fail("own/keys/sign-master-private/unusable-after-caller-overwrote-results", "GenerateUserKey after the results of Bytes/MarshalASN1 were overwritten: %v", err)
				} else {
					same(t, "own/keys/sign-master-private/changed-after-caller-overwrote-results", u2.Bytes(), dsUnc, "user key generated after the results of Bytes/MarshalASN1 were overwritten")
					if !u2.Equal(w.user) || !w.user.Equal(u2) {
						t.Fail("own/keys/sign-private/not-equal-after-caller-overwrote-results", "a regenerated user key is not Equal to the first one")
					}
				}
			}
			if m2, err := sm9.UnmarshalSignMasterPrivateKeyASN1(sm9ref.DerInt(ks)); err == nil {
				t.Eval(1)
				if !m2.Equal(w.master) || !w.master.Equal(m2) || !m2.PublicKey().Equal(w.pub) || !w.pub.Equal(m2.PublicKey()) {
					t.Fail("own/keys/sign-master-private/not-equal-after-caller-overwrote-results", "the master key is no longer Equal to a freshly parsed copy")
				}
			}
		}
		d.finish(t)
	})
	c.Case("own/keys/enc", func(t *engine.T) {
		d := newTranscript()
		uid, msg := rawUID(baseUIDLen), rawMsg(basePayLen)
		w := newEncWorld(t, ke, uid, 3)
		if w == nil {
			return
		}
		pubUnc := w.ppub.Uncompressed()
		deUnc := clone(w.user.Bytes())
		for pass := 0; pass < 2; pass++ {
			ownAccessors(t, d, "enc-master-private", []accessor{
				{"Bytes", func() ([]byte, error) { return w.master.Bytes(), nil }, k32(ke)},
				{"MarshalASN1", w.master.MarshalASN1, sm9ref.DerInt(ke)},
				{"PublicKey.Bytes", func() ([]byte, error) { return w.master.PublicKey().Bytes(), nil }, pubUnc},
				{"Public.Bytes", func() ([]byte, error) { return w.master.Public().(*sm9.EncryptMasterPublicKey).Bytes(), nil }, pubUnc},
			})
			ownAccessors(t, d, "enc-master-public", []accessor{
				{"Bytes", func() ([]byte, error) { return w.pub.Bytes(), nil }, pubUnc},
				{"MarshalASN1", w.pub.MarshalASN1, sm9ref.DerBits(pubUnc)},
				{"MarshalCompressedASN1", w.pub.MarshalCompressedASN1, nil},
			})
			ownAccessors(t, d, "enc-private", []accessor{
				{"Bytes", func() ([]byte, error) { return w.user.Bytes(), nil }, deUnc},
				{"MarshalASN1", w.user.MarshalASN1, sm9ref.DerBits(deUnc)},
				{"MarshalCompressedASN1", w.user.MarshalCompressedASN1, nil},
				{"MasterPublic.Bytes", func() ([]byte, error) { return w.user.MasterPublic().Bytes(), nil }, pubUnc},
				{"MasterPublic.MarshalASN1", func() ([]byte, error) { return w.user.MasterPublic().MarshalASN1() }, sm9ref.DerBits(pubUnc)},
			})
			b := w.base(chain(fmt.Sprint("own/enc/r", pass)))
			key, cph := checkWrap(t, d, w, b, 40, "own/keys")
			if key != nil {
				scribble(key)
				scribble(cph)
				checkWrap(t, d, w, b, 40, "own/keys after the first wrap result was overwritten")
			}
			for _, mn := range []string{"xor", "cbc"} {
				m := modeByName(mn)
				checkEnc(t, d, w, b, m, ivOf("own"+mn), msg, "own/keys")
			}
			if u2, _, ok := w.userFor(t, uid); ok {
				if !u2.Equal(w.user) || !w.user.Equal(u2) {
					t.Fail("own/keys/enc-private/not-equal-after-caller-overwrote-results", "a regenerated user key is not Equal to the first one")
				}
			}
			if m2, err := sm9.UnmarshalEncryptMasterPrivateKeyASN1(sm9ref.DerInt(ke)); err == nil {
				t.Eval(1)
				if !m2.Equal(w.master) || !w.master.Equal(m2) || !m2.PublicKey().Equal(w.pub) || !w.pub.Equal(m2.PublicKey()) {
					t.Fail("own/keys/enc-master-private/not-equal-after-caller-overwrote-results", "the master key is no longer Equal to a freshly parsed copy")
				}
			}
		}
		d.finish(t)
	})

	// results of the operations: overwritten after comparing, then the same call again on the same objects
	c.Case("own/results/sign-wrap-encrypt-decrypt", func(t *engine.T) {
		d := newTranscript()
		uid, msg := rawUID(baseUIDLen), rawMsg(basePayLen)
		if sw := newSignWorld(t, ks, uid, 1); sw != nil {
			r := chain("own/results/r")
			h, s, der, ok := sw.expectSig(msg, r)
			if ok {
				for round := 0; round < 3; round++ {
					var sig, sb []byte
					var hb *big.Int
					var err, err2 error
					if t.Guard("own/results/sign", func() {
						sig, err = sm9.SignASN1(reader(k32(r)), sw.user, msg)
						hb, sb, err2 = sm9.Sign(reader(k32(r)), sw.user, msg)
					}) {
						break
					}
					t.Eval(2)
					if err != nil || err2 != nil {
						t.Fail("own/results/sign/error", "round %d: %v %v", round, err, err2)
						break
					}
					same(t, "own/results/sign/changes-after-caller-overwrote-earlier-result", sig, der, "SignASN1 round %d", round)
					same(t, "own/results/sign/changes-after-caller-overwrote-earlier-result", sb, s, "Sign S round %d", round)
					same(t, "own/results/sign/changes-after-caller-overwrote-earlier-result", hb.Bytes(), h.Bytes(), "Sign h round %d", round)
					scribble(sig)
					scribble(sb)
					hb.SetInt64(0)
				}
				t.Nontrivial("own/results/sign")
			}
		}
		if ew := newEncWorld(t, ke, uid, 3); ew != nil {
			b := ew.base(chain("own/results/r2"))
			const klen = 48
			kExp, cExp := ew.expectKey(b, klen), append([]byte{4}, b.c...)
			for round := 0; round < 3; round++ {
				var k1, c1, k2, c2, pkg, uk []byte
				var e1, e2, e3, e4 error
				if t.Guard("own/results/wrap", func() {
					k1, c1, e1 = sm9.WrapKey(reader(k32(b.r)), ew.pub, uid, 3, klen)
					k2, c2, e2 = ew.pub.WrapKey(reader(k32(b.r)), uid, 3, klen)
					pkg, e3 = ew.pub.WrapKeyASN1(reader(k32(b.r)), uid, 3, klen)
					uk, e4 = sm9.UnwrapKey(ew.user, uid, cExp, klen)
				}) {
					break
				}
				t.Eval(4)
				if e1 != nil || e2 != nil || e3 != nil || e4 != nil {
					t.Fail("own/results/wrap/error", "round %d: %v %v %v %v", round, e1, e2, e3, e4)
					break
				}
				const key = "own/results/wrap/changes-after-caller-overwrote-earlier-result"
				same(t, key, k1, kExp, "WrapKey key round %d", round)
				same(t, key, c1, cExp, "WrapKey cipher round %d", round)
				same(t, key, k2, kExp, "pub.WrapKey key round %d", round)
				same(t, key, c2, sm9ref.DerBits(cExp), "pub.WrapKey cipher round %d", round)
				same(t, key, pkg, sm9ref.DerSeq(sm9ref.DerOctets(kExp), sm9ref.DerBits(cExp)), "WrapKeyASN1 round %d", round)
				same(t, key, uk, kExp, "UnwrapKey round %d", round)
				for _, s := range [][]byte{k1, c1, k2, c2, pkg, uk} {
					scribble(s)
				}
			}
			t.Nontrivial("own/results/wrap")
			for _, m := range modes {
				iv := ivOf("own/results" + m.name)
				raw, der := ew.expectCipher(b, m, iv, msg)
				mk := func() *engine.ScriptReader {
					if m.ivLen > 0 {
						return reader(k32(b.r), iv)
					}
					return reader(k32(b.r))
				}
				for round := 0; round < 3; round++ {
					var g1, g2, p1, p2 []byte
					var e1, e2, e3, e4 error
					if t.Guard("own/results/encrypt", func() {
						g1, e1 = sm9.Encrypt(mk(), ew.pub, uid, 3, msg, m.opts)
						g2, e2 = sm9.EncryptASN1(mk(), ew.pub, uid, 3, msg, m.opts)
						p1, e3 = sm9.Decrypt(ew.user, uid, raw, m.opts)
						p2, e4 = sm9.DecryptASN1(ew.user, uid, der)
					}) {
						break
					}
					t.Eval(4)
					if e1 != nil || e2 != nil || e3 != nil || e4 != nil {
						t.Fail("own/results/encrypt/error", "mode %s round %d: %v %v %v %v", m.name, round, e1, e2, e3, e4)
						break
					}
					key := "own/results/encrypt/" + m.name + "/changes-after-caller-overwrote-earlier-result"
					same(t, key, g1, raw, "Encrypt round %d", round)
					same(t, key, g2, der, "EncryptASN1 round %d", round)
					same(t, key, p1, msg, "Decrypt round %d", round)
					same(t, key, p2, msg, "DecryptASN1 round %d", round)
					for _, s := range [][]byte{g1, g2, p1, p2} {
						scribble(s)
					}
				}
				t.Nontrivial("own/results/encrypt/" + m.name)
			}
		}
		d.addBool("done", true)
		d.finish(t)
	})

	// two results of the same call are alive at the same time: overwriting the second must not change the first
	c.Case("own/results/two-live-results", func(t *engine.T) {
		d := newTranscript()
		uid, msg := rawUID(baseUIDLen), rawMsg(basePayLen)
		type op struct {
			name string
			f    func() ([]byte, error)
			want []byte
		}
		var ops []op
		r := chain("own/live/r")
		if sw := newSignWorld(t, ks, uid, 1); sw != nil {
			if _, s, der, ok := sw.expectSig(msg, r); ok {
				ops = append(ops,
					op{"SignASN1", func() ([]byte, error) { return sm9.SignASN1(reader(k32(r)), sw.user, msg) }, der},
					op{"Sign.S", func() ([]byte, error) { _, sb, err := sm9.Sign(reader(k32(r)), sw.user, msg); return sb, err }, s})
			}
		}
		if ew := newEncWorld(t, ke, uid, 3); ew != nil {
			b := ew.base(r)
			const klen = 40
			kExp, cExp := ew.expectKey(b, klen), append([]byte{4}, b.c...)
			ops = append(ops,
				op{"WrapKey.key", func() ([]byte, error) {
					k, _, err := sm9.WrapKey(reader(k32(b.r)), ew.pub, uid, 3, klen)
					return k, err
				}, kExp},
				op{"WrapKey.cipher", func() ([]byte, error) {
					_, cc, err := sm9.WrapKey(reader(k32(b.r)), ew.pub, uid, 3, klen)
					return cc, err
				}, cExp},
				op{"WrapKeyASN1", func() ([]byte, error) { return ew.pub.WrapKeyASN1(reader(k32(b.r)), uid, 3, klen) }, sm9ref.DerSeq(sm9ref.DerOctets(kExp), sm9ref.DerBits(cExp))},
				op{"UnwrapKey", func() ([]byte, error) { return sm9.UnwrapKey(ew.user, uid, cExp, klen) }, kExp})
			for _, m := range modes {
				m := m
				iv := ivOf("own/live" + m.name)
				raw, der := ew.expectCipher(b, m, iv, msg)
				ops = append(ops,
					op{"Encrypt/" + m.name, func() ([]byte, error) { return sm9.Encrypt(mkReader(m, b.r, iv), ew.pub, uid, 3, msg, m.opts) }, raw},
					op{"EncryptASN1/" + m.name, func() ([]byte, error) { return sm9.EncryptASN1(mkReader(m, b.r, iv), ew.pub, uid, 3, msg, m.opts) }, der},
					op{"Decrypt/" + m.name, func() ([]byte, error) { return sm9.Decrypt(ew.user, uid, raw, m.opts) }, msg},
					op{"DecryptASN1/" + m.name, func() ([]byte, error) { return sm9.DecryptASN1(ew.user, uid, der) }, msg})
			}
		}
		for _, o := range ops {
			var a, b []byte
			var e1, e2 error
			if t.Guard("own/results/"+o.name, func() { a, e1 = o.f(); b, e2 = o.f() }) {
				continue
			}
			t.Eval(2)
			if e1 != nil || e2 != nil {
				t.Fail("own/results/two-live-results/error", "%s: %v %v", o.name, e1, e2)
				continue
			}
			if !bytes.Equal(a, o.want) || !bytes.Equal(b, o.want) {
				t.Fail("own/results/two-live-results/mismatch", "%s: got %s and %s want %s", o.name, hx(a), hx(b), hx(o.want))
				continue
			}
			scribble(b)
			if !bytes.Equal(a, o.want) {
				t.Fail("own/results/two-live-results/share-memory", "%s: overwriting the slice returned by the second call changed the slice returned by the first", o.name)
			}
			d.add(o.name, a)
			t.Nontrivial("own/results/two-live/" + o.name)
		}
		d.finish(t)
	})

	// key exchange: the values a step returns and the slices a step was given belong to the caller between the steps
	// (the protocol has network round trips between them, buffers get reused)
	kxKe := chain("own/kx/ke")
	for _, sc := range []struct {
		name, key, what string
	}{
		{"control", "own/kx/control", "nothing is overwritten; the four identity slices are then handed to a second pair of objects"},
		{"returned-RA", "own/kx/returned-RA-aliases-state", "the slice returned by InitKeyExchange is overwritten after it was copied (sent)"},
		{"returned-RB-SB", "own/kx/returned-RB-aliases-state", "the slices returned by RespondKeyExchange are overwritten after they were copied (sent)"},
		{"peer-RA-buffer", "own/kx/peer-RA-retained", "the receive buffer that held RA is overwritten after RespondKeyExchange returned"},
		{"constructor-uids", "own/kx/constructor-uid-retained", "the uid / peerUID slices given to NewKeyExchange are overwritten after construction"},
		{"returned-keys", "own/kx/returned-key-aliases-state", "SK_A, SA and the slices given to ConfirmResponder are overwritten before the responder finishes"},
	} {
		for _, conf := range []bool{true, false} {
			sc, conf := sc, conf
			c.Case(fmt.Sprintf("own/kx/%s/conf=%v", sc.name, conf), func(t *engine.T) {
				d := newTranscript()
				const hid = 2
				const klen = 48
				p := newKXPair(t, kxKe, hid, rawUID(5), rawUID(3))
				if p == nil {
					return
				}
				rA, rB := chain("own/kx/ra"), chain("own/kx/rb")
				e := p.expect(rA, rB, klen, conf)
				id := fmt.Sprintf("%s (conf=%v)", sc.what, conf)
				bufA, bufPeerA := withSlack(p.uidA), withSlack(p.uidB)
				bufB, bufPeerB := withSlack(p.uidB), withSlack(p.uidA)
				rounds := 1
				if sc.name == "control" {
					rounds = 2
				}
				for round := 0; round < rounds; round++ {
					ini := p.userA.NewKeyExchange(bufA, bufPeerA, klen, conf)
					res := p.userB.NewKeyExchange(bufB, bufPeerB, klen, conf)
					t.Eval(2)
					if !bytes.Equal(bufA, p.uidA) || !bytes.Equal(bufPeerA, p.uidB) || !bytes.Equal(bufB, p.uidB) || !bytes.Equal(bufPeerB, p.uidA) {
						t.Fail("own/kx/constructor-uid-modified", "NewKeyExchange modified an identity argument")
						return
					}
					if sc.name == "constructor-uids" {
						for _, s := range [][]byte{bufA, bufPeerA, bufB, bufPeerB} {
							scribble(s)
						}
					}
					var ra, rb, sb, sa, keyA, keyB []byte
					var err error
					if t.Guard("own/kx", func() { ra, err = ini.InitKeyExchange(reader(k32(rA)), hid) }) {
						return
					}
					t.Eval(1)
					if err != nil {
						t.Fail(sc.key, "%s: InitKeyExchange: %v", id, err)
						return
					}
					if !same(t, sc.key, ra, e.ra, "%s: RA", id) {
						return
					}
					if sc.name == "returned-RA" {
						scribble(ra)
					}
					inRA := withSlack(e.ra)
					if t.Guard("own/kx", func() { rb, sb, err = res.RespondKeyExchange(reader(k32(rB)), hid, inRA) }) {
						return
					}
					t.Eval(1)
					if err != nil {
						t.Fail(sc.key, "%s: RespondKeyExchange: %v", id, err)
						return
					}
					if !bytes.Equal(inRA, e.ra) {
						t.Fail("own/kx/peer-RA-modified", "RespondKeyExchange modified the peer's ephemeral point in the caller's buffer")
						return
					}
					if !same(t, sc.key, rb, e.rb, "%s: RB", id) || !same(t, sc.key, sb, e.sb, "%s: SB", id) {
						return
					}
					if sc.name == "peer-RA-buffer" {
						scribble(inRA)
					}
					if sc.name == "returned-RB-SB" {
						scribble(rb)
						scribble(sb)
					}
					inRB := withSlack(e.rb)
					var inSB []byte
					if conf {
						inSB = withSlack(e.sb)
					}
					if t.Guard("own/kx", func() { keyA, sa, err = ini.ConfirmResponder(inRB, inSB) }) {
						return
					}
					t.Eval(1)
					if err != nil {
						t.Fail(sc.key, "%s: ConfirmResponder refuses the responder's genuine (RB, SB): %v", id, err)
						return
					}
					if !bytes.Equal(inRB, e.rb) || !bytes.Equal(inSB, e.sb) {
						t.Fail("own/kx/peer-RB-modified", "ConfirmResponder modified its arguments in the caller's buffers")
						return
					}
					if !same(t, sc.key, keyA, e.sk, "%s: SK_A", id) || !same(t, sc.key, sa, e.sa, "%s: SA", id) {
						return
					}
					if sc.name == "returned-keys" {
						for _, s := range [][]byte{keyA, sa, inRB, inSB} {
							scribble(s)
						}
					}
					var inSA []byte
					if conf {
						inSA = withSlack(e.sa)
					}
					if t.Guard("own/kx", func() { keyB, err = res.ConfirmInitiator(inSA) }) {
						return
					}
					t.Eval(1)
					if err != nil {
						t.Fail(sc.key, "%s: ConfirmInitiator refuses the initiator's genuine SA: %v", id, err)
						return
					}
					if !same(t, sc.key, keyB, e.sk, "%s: SK_B", id) {
						return
					}
					if round == 0 {
						d.add("SK", keyB)
					}
					scribble(keyB)
				}
				t.Nontrivial("own/kx/" + sc.name)
				d.finish(t)
			})
		}
	}

	// keys parsed from a caller's buffer: the buffer is unchanged by the parser, two parses agree, and the key stays
	// what it was after the caller reused the buffer
	c.Case("own/parse/sign-keys", func(t *engine.T) {
		d := newTranscript()
		uid := rawUID(baseUIDLen)
		w := newSignWorld(t, ks, uid, 1)
		if w == nil {
			return
		}
		pubUnc, dsUnc := w.ppub.MarshalUncompressed(), w.dsRef.Uncompressed()
		pubComp, dsComp := g2Compressed(pubUnc), w.dsRef.Compressed()
		msg := rawMsg(20)
		sig, _, _ := checkSign(t, d, w, msg, chain("own/parse/r"), "own/parse")
		if sig == nil {
			return
		}
		type form struct {
			kind, name string
			in         []byte
			parse      func(in []byte) (bytesOf func() []byte, works func() bool, err error)
			want       []byte
		}
		masterPriv := func(in []byte) (func() []byte, func() bool, error) {
			m, err := sm9.UnmarshalSignMasterPrivateKeyASN1(in)
			if err != nil {
				return nil, nil, err
			}
			return func() []byte { return append(m.Bytes(), m.PublicKey().Bytes()...) }, func() bool {
				u, err := m.GenerateUserKey(uid, 1)
				return err == nil && u.Equal(w.user) && m.Equal(w.master)
			}, nil
		}
		masterPub := func(f func([]byte) (*sm9.SignMasterPublicKey, error)) func(in []byte) (func() []byte, func() bool, error) {
			return func(in []byte) (func() []byte, func() bool, error) {
				p, err := f(in)
				if err != nil {
					return nil, nil, err
				}
				return p.Bytes, func() bool { return p.Equal(w.pub) && p.Verify(uid, 1, msg, sig) }, nil
			}
		}
		userPriv := func(f func([]byte) (*sm9.SignPrivateKey, error), withMaster bool) func(in []byte) (func() []byte, func() bool, error) {
			return func(in []byte) (func() []byte, func() bool, error) {
				p, err := f(in)
				if err != nil {
					return nil, nil, err
				}
				return p.Bytes, func() bool {
					if !p.Equal(w.user) {
						return false
					}
					if !withMaster {
						return true
					}
					s2, err := sm9.SignASN1(reader(k32(chain("own/parse/r"))), p, msg)
					return err == nil && bytes.Equal(s2, sig) && p.MasterPublic().Equal(w.pub)
				}, nil
			}
		}
		forms := []form{
			{"sign-master-private", "asn1", sm9ref.DerInt(ks), masterPriv, append(k32(ks), pubUnc...)},
			{"sign-master-private", "asn1-sequence-with-public", sm9ref.DerSeq(sm9ref.DerInt(ks), sm9ref.DerBits(pubUnc)), masterPriv, append(k32(ks), pubUnc...)},
			{"sign-master-public", "raw", pubUnc, masterPub(sm9.UnmarshalSignMasterPublicKeyRaw), pubUnc},
			{"sign-master-public", "raw-compressed", pubComp, masterPub(sm9.UnmarshalSignMasterPublicKeyRaw), pubUnc},
			{"sign-master-public", "asn1", sm9ref.DerBits(pubUnc), masterPub(sm9.UnmarshalSignMasterPublicKeyASN1), pubUnc},
			{"sign-master-public", "asn1-compressed", sm9ref.DerBits(pubComp), masterPub(sm9.UnmarshalSignMasterPublicKeyASN1), pubUnc},
			{"sign-master-public", "asn1-sequence", sm9ref.DerSeq(sm9ref.DerBits(pubUnc)), masterPub(sm9.UnmarshalSignMasterPublicKeyASN1), pubUnc},
			{"sign-master-public", "pem", pemOf(sm9ref.DerBits(pubUnc)), masterPub(sm9.ParseSignMasterPublicKeyPEM), pubUnc},
			{"sign-private", "raw", dsUnc, userPriv(sm9.UnmarshalSignPrivateKeyRaw, false), dsUnc},
			{"sign-private", "raw-compressed", dsComp, userPriv(sm9.UnmarshalSignPrivateKeyRaw, false), dsUnc},
			{"sign-private", "asn1", sm9ref.DerBits(dsUnc), userPriv(sm9.UnmarshalSignPrivateKeyASN1, false), dsUnc},
			{"sign-private", "asn1-compressed", sm9ref.DerBits(dsComp), userPriv(sm9.UnmarshalSignPrivateKeyASN1, false), dsUnc},
			{"sign-private", "asn1-sequence-with-master-public", sm9ref.DerSeq(sm9ref.DerBits(dsUnc), sm9ref.DerBits(pubUnc)), userPriv(sm9.UnmarshalSignPrivateKeyASN1, true), dsUnc},
			{"sign-private", "asn1-sequence-compressed", sm9ref.DerSeq(sm9ref.DerBits(dsComp), sm9ref.DerBits(pubComp)), userPriv(sm9.UnmarshalSignPrivateKeyASN1, true), dsUnc},
		}
		for _, f := range forms {
			ownParse(t, d, f.kind, f.name, f.in, f.want, f.parse)
		}
		d.finish(t)
	})
	c.Case("own/parse/enc-keys", func(t *engine.T) {
		d := newTranscript()
		uid := rawUID(baseUIDLen)
		w := newEncWorld(t, ke, uid, 3)
		if w == nil {
			return
		}
		pubUnc, deUnc := w.ppub.Uncompressed(), clone(w.user.Bytes())
		pubComp, deComp := w.ppub.Compressed(), g2Compressed(deUnc)
		b := w.base(chain("own/parse/r"))
		const klen = 32
		kExp, cExp := w.expectKey(b, klen), append([]byte{4}, b.c...)
		masterPriv := func(in []byte) (func() []byte, func() bool, error) {
			m, err := sm9.UnmarshalEncryptMasterPrivateKeyASN1(in)
			if err != nil {
				return nil, nil, err
			}
			return func() []byte { return append(m.Bytes(), m.PublicKey().Bytes()...) }, func() bool {
				u, err := m.GenerateUserKey(uid, 3)
				return err == nil && u.Equal(w.user) && m.Equal(w.master)
			}, nil
		}
		masterPub := func(f func([]byte) (*sm9.EncryptMasterPublicKey, error)) func(in []byte) (func() []byte, func() bool, error) {
			return func(in []byte) (func() []byte, func() bool, error) {
				p, err := f(in)
				if err != nil {
					return nil, nil, err
				}
				return p.Bytes, func() bool {
					k, cc, err := sm9.WrapKey(reader(k32(b.r)), p, uid, 3, klen)
					return err == nil && p.Equal(w.pub) && bytes.Equal(k, kExp) && bytes.Equal(cc, cExp)
				}, nil
			}
		}
		userPriv := func(f func([]byte) (*sm9.EncryptPrivateKey, error), withMaster bool) func(in []byte) (func() []byte, func() bool, error) {
			return func(in []byte) (func() []byte, func() bool, error) {
				p, err := f(in)
				if err != nil {
					return nil, nil, err
				}
				return p.Bytes, func() bool {
					k, err := sm9.UnwrapKey(p, uid, cExp, klen)
					if err != nil || !bytes.Equal(k, kExp) || !p.Equal(w.user) {
						return false
					}
					return !withMaster || p.MasterPublic().Equal(w.pub)
				}, nil
			}
		}
		type form struct {
			kind, name string
			in         []byte
			parse      func(in []byte) (func() []byte, func() bool, error)
			want       []byte
		}
		forms := []form{
			{"enc-master-private", "asn1", sm9ref.DerInt(ke), masterPriv, append(k32(ke), pubUnc...)},
			{"enc-master-private", "asn1-sequence-with-public", sm9ref.DerSeq(sm9ref.DerInt(ke), sm9ref.DerBits(pubUnc)), masterPriv, append(k32(ke), pubUnc...)},
			{"enc-master-public", "raw", pubUnc, masterPub(sm9.UnmarshalEncryptMasterPublicKeyRaw), pubUnc},
			{"enc-master-public", "raw-compressed", pubComp, masterPub(sm9.UnmarshalEncryptMasterPublicKeyRaw), pubUnc},
			{"enc-master-public", "asn1", sm9ref.DerBits(pubUnc), masterPub(sm9.UnmarshalEncryptMasterPublicKeyASN1), pubUnc},
			{"enc-master-public", "asn1-compressed", sm9ref.DerBits(pubComp), masterPub(sm9.UnmarshalEncryptMasterPublicKeyASN1), pubUnc},
			{"enc-master-public", "asn1-sequence", sm9ref.DerSeq(sm9ref.DerBits(pubUnc)), masterPub(sm9.UnmarshalEncryptMasterPublicKeyASN1), pubUnc},
			{"enc-master-public", "pem", pemOf(sm9ref.DerBits(pubUnc)), masterPub(sm9.ParseEncryptMasterPublicKeyPEM), pubUnc},
			{"enc-private", "raw", deUnc, userPriv(sm9.UnmarshalEncryptPrivateKeyRaw, false), deUnc},
			{"enc-private", "raw-compressed", deComp, userPriv(sm9.UnmarshalEncryptPrivateKeyRaw, false), deUnc},
			{"enc-private", "asn1", sm9ref.DerBits(deUnc), userPriv(sm9.UnmarshalEncryptPrivateKeyASN1, false), deUnc},
			{"enc-private", "asn1-compressed", sm9ref.DerBits(deComp), userPriv(sm9.UnmarshalEncryptPrivateKeyASN1, false), deUnc},
			{"enc-private", "asn1-sequence-with-master-public", sm9ref.DerSeq(sm9ref.DerBits(deUnc), sm9ref.DerBits(pubUnc)), userPriv(sm9.UnmarshalEncryptPrivateKeyASN1, true), deUnc},
			{"enc-private", "asn1-sequence-compressed", sm9ref.DerSeq(sm9ref.DerBits(deComp), sm9ref.DerBits(pubComp)), userPriv(sm9.UnmarshalEncryptPrivateKeyASN1, true), deUnc},
		}
		for _, f := range forms {
			ownParse(t, d, f.kind, f.name, f.in, f.want, f.parse)
		}
		// SM9KeyPackage: the parser does not modify its input (its results may point into it: not judged)
		pkg := withSlack(sm9ref.DerSeq(sm9ref.DerOctets(kExp), sm9ref.DerBits(cExp)))
		orig := clone(pkg)
		for round := 0; round < 2; round++ {
			var pk, pc []byte
			var err error
			if t.Guard("own/parse/keypackage", func() { pk, pc, err = sm9.UnmarshalSM9KeyPackage(pkg) }) {
				break
			}
			t.Eval(1)
			if err != nil || !bytes.Equal(pk, kExp) || !bytes.Equal(pc, cExp) {
				t.Fail("own/parse/keypackage/mismatch", "UnmarshalSM9KeyPackage round %d: err=%v", round, err)
			}
			if !bytes.Equal(pkg, orig) {
				t.Fail("own/parse/keypackage/input-modified", "UnmarshalSM9KeyPackage modified its input")
			}
		}
		d.finish(t)
	})
}

// ownParse: parse twice from the same buffer (dirty spare capacity behind it), the buffer is unchanged; then the
// caller reuses the buffer and both keys must still be the parsed key.
func ownParse(t *engine.T, d *transcript, kind, form string, in, want []byte, parse func(in []byte) (func() []byte, func() bool, error)) {
	prefix := "own/parse/" + kind + "/" + form
	buf := withSlack(in)
	var bytesOf [2]func() []byte
	var works [2]func() bool
	for i := 0; i < 2; i++ {
		var err error
		if t.Guard(prefix, func() { bytesOf[i], works[i], err = parse(buf) }) {
			return
		}
		t.Eval(1)
		if err != nil {
			t.Fail(prefix+"/rejected", "%s: parse #%d of the %s form from a buffer with spare capacity: %v", kind, i+1, form, err)
			return
		}
		if !bytes.Equal(buf, in) {
			t.Fail(prefix+"/input-modified", "%s: parsing the %s form modified the caller's buffer (first difference at byte %d)", kind, form, engine.FirstDiff(buf, in))
			return
		}
	}
	scribble(buf)
	for i := 0; i < 2; i++ {
		var got []byte
		var ok bool
		if t.Guard(prefix, func() { got = bytesOf[i](); ok = works[i]() }) {
			return
		}
		t.Eval(2)
		if !bytes.Equal(got, want) || !ok {
			t.Fail(prefix+"/key-changes-when-caller-reuses-the-input-buffer", "%s parsed from the %s form (parse #%d): after the caller overwrote the input buffer Bytes() = %s want %s, still works = %v", kind, form, i+1, hx(got), hx(want), ok)
			return
		}
	}
	d.add(kind+"/"+form, want)
	t.Nontrivial(prefix)
}
