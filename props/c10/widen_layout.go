package c10

import (
	"bytes"
	"fmt"
	"math/big"

	"github.com/emmansun/gmsm/sm9"

	"verif/engine"
	"verif/ref/sm9ref"
)

// ---------------------------------------------------------------------------------------------
// layout/: all slice arguments of one call (and of the calls that follow in the same scenario) are fields of one record

func runLayout(c *engine.Ctx) {
	ks, ke := chain("layout/ks"), chain("layout/ke")
	uidLensL := []int{5, 0}
	if !c.Quick() {
		uidLensL = []int{5, 0, 1, 63, 64}
	}
	for _, ul := range uidLensL {
		ul := ul
		c.Case(fmt.Sprintf("layout/sign-verify/uid=%d", ul), func(t *engine.T) {
			d := newTranscript()
			uid, msg := rawUID(ul), rawMsg(21)
			w := newSignWorld(t, ks, uid, 1)
			if w == nil {
				return
			}
			r := chain("layout/sign/r")
			h, s, der, ok := w.expectSig(msg, r)
			if !ok {
				return
			}
			// sign: message and identity in one record (the identity is used for verification right after)
			for _, ord := range perms("msg", "uid") {
				a := arenaOf(ord, map[string][]byte{"msg": msg, "uid": uid})
				for pass := 0; pass < 2; pass++ {
					var s1, s2, sb []byte
					var hb *big.Int
					var e1, e2, e3 error
					if t.Guard("layout/sign", func() {
						s1, e1 = sm9.SignASN1(reader(k32(r)), w.user, a.f("msg"))
						s2, e2 = w.user.Sign(reader(k32(r)), a.f("msg"), nil)
						hb, sb, e3 = sm9.Sign(reader(k32(r)), w.user, a.f("msg"))
					}) {
						return
					}
					t.Eval(3)
					if e1 != nil || e2 != nil || e3 != nil {
						t.Fail("layout/sign/error", "record %s: %v %v %v", a.order(), e1, e2, e3)
						return
					}
					a.check(t, "layout", "sign")
					same(t, "layout/sign/result-mismatch", s1, der, "record %s pass %d: SignASN1", a.order(), pass)
					same(t, "layout/sign/result-mismatch", s2, der, "record %s pass %d: priv.Sign", a.order(), pass)
					same(t, "layout/sign/result-mismatch", sb, s, "record %s pass %d: sm9.Sign S", a.order(), pass)
					same(t, "layout/sign/result-mismatch", hb.Bytes(), h.Bytes(), "record %s pass %d: sm9.Sign h", a.order(), pass)
					if pass == 0 {
						d.add("sig", s1)
					}
				}
				t.Nontrivial("layout/sign/" + a.order())
			}
			// verify: identity, message and signature in one record, every order
			for _, ord := range perms("uid", "msg", "sig") {
				for _, form := range []string{"asn1", "raw"} {
					sigField := der
					if form == "raw" {
						sigField = s
					}
					a := arenaOf(ord, map[string][]byte{"uid": uid, "msg": msg, "sig": sigField})
					for pass := 0; pass < 2; pass++ {
						var v1, v2 bool
						if t.Guard("layout/verify", func() {
							if form == "asn1" {
								v1 = sm9.VerifyASN1(w.pub, a.f("uid"), 1, a.f("msg"), a.f("sig"))
								v2 = w.pub.Verify(a.f("uid"), 1, a.f("msg"), a.f("sig"))
							} else {
								v1 = sm9.Verify(w.pub, a.f("uid"), 1, a.f("msg"), h, a.f("sig"))
								v2 = v1
							}
						}) {
							return
						}
						t.Eval(2)
						a.check(t, "layout", "verify")
						if !v1 || !v2 {
							t.Fail("layout/verify/valid-rejected", "record %s (%s signature) pass %d: a valid signature is rejected when identity, message and signature are adjacent fields of one array (%v %v)", a.order(), form, pass, v1, v2)
						}
						d.addBool("v", v1 && v2)
					}
					t.Nontrivial("layout/verify/" + form + "/" + a.order())
				}
			}
			d.finish(t)
		})
		c.Case(fmt.Sprintf("layout/wrap-unwrap/uid=%d", ul), func(t *engine.T) {
			d := newTranscript()
			uid := rawUID(ul)
			w := newEncWorld(t, ke, uid, 3)
			if w == nil {
				return
			}
			b := w.base(chain("layout/wrap/r"))
			cExp := append([]byte{4}, b.c...)
			for _, klen := range []int{32, 97} {
				kExp := w.expectKey(b, klen)
				for _, cf := range []struct {
					name string
					data []byte
				}{{"04||C", cExp}, {"C", b.c}, {"BIT STRING", sm9ref.DerBits(cExp)}} {
					for _, ord := range perms("uid", "cipher") {
						a := arenaOf(ord, map[string][]byte{"uid": uid, "cipher": cf.data})
						for pass := 0; pass < 2; pass++ {
							var k1, c1, k2, c2, pkg, uk []byte
							var e1, e2, e3, e4 error
							if t.Guard("layout/wrap", func() {
								k1, c1, e1 = sm9.WrapKey(reader(k32(b.r)), w.pub, a.f("uid"), 3, klen)
								k2, c2, e2 = w.pub.WrapKey(reader(k32(b.r)), a.f("uid"), 3, klen)
								pkg, e3 = w.pub.WrapKeyASN1(reader(k32(b.r)), a.f("uid"), 3, klen)
							}) {
								return
							}
							t.Eval(3)
							if e1 != nil || e2 != nil || e3 != nil {
								t.Fail("layout/wrap/error", "record %s: %v %v %v", a.order(), e1, e2, e3)
								return
							}
							a.check(t, "layout", "wrap")
							const key = "layout/wrap/result-mismatch"
							same(t, key, k1, kExp, "record %s pass %d: WrapKey key", a.order(), pass)
							same(t, key, c1, cExp, "record %s pass %d: WrapKey cipher", a.order(), pass)
							same(t, key, k2, kExp, "record %s pass %d: pub.WrapKey key", a.order(), pass)
							same(t, key, c2, sm9ref.DerBits(cExp), "record %s pass %d: pub.WrapKey cipher", a.order(), pass)
							same(t, key, pkg, sm9ref.DerSeq(sm9ref.DerOctets(kExp), sm9ref.DerBits(cExp)), "record %s pass %d: WrapKeyASN1", a.order(), pass)
							if t.Guard("layout/unwrap", func() {
								if cf.name == "BIT STRING" {
									uk, e4 = w.user.UnwrapKey(a.f("uid"), a.f("cipher"), klen)
								} else {
									uk, e4 = sm9.UnwrapKey(w.user, a.f("uid"), a.f("cipher"), klen)
								}
							}) {
								return
							}
							t.Eval(1)
							a.check(t, "layout", "unwrap")
							if e4 != nil {
								t.Fail("layout/unwrap/valid-rejected", "record %s (cipher as %s, klen %d) pass %d: %v", a.order(), cf.name, klen, pass, e4)
							} else {
								same(t, "layout/unwrap/result-mismatch", uk, kExp, "record %s (cipher as %s, klen %d) pass %d: UnwrapKey", a.order(), cf.name, klen, pass)
							}
							if pass == 0 {
								d.add("k", k1)
							}
						}
						t.Nontrivial(fmt.Sprintf("layout/wrap/%s/%s/%d", cf.name, a.order(), klen))
					}
				}
			}
			d.finish(t)
		})
		for _, m := range modes {
			m := m
			c.Case(fmt.Sprintf("layout/encrypt-decrypt/%s/uid=%d", m.name, ul), func(t *engine.T) {
				d := newTranscript()
				uid := rawUID(ul)
				w := newEncWorld(t, ke, uid, 3)
				if w == nil {
					return
				}
				b := w.base(chain("layout/enc/r"))
				for _, pl := range []int{21, 32} {
					msg := rawMsg(pl)
					iv := ivOf(fmt.Sprint("layout", m.name, pl))
					raw, der := w.expectCipher(b, m, iv, msg)
					mk := func() *engine.ScriptReader {
						if m.ivLen > 0 {
							return reader(k32(b.r), iv)
						}
						return reader(k32(b.r))
					}
					for _, ord := range perms("uid", "msg") {
						a := arenaOf(ord, map[string][]byte{"uid": uid, "msg": msg})
						for pass := 0; pass < 2; pass++ {
							var g1, g2 []byte
							var e1, e2 error
							if t.Guard("layout/encrypt", func() {
								g1, e1 = sm9.Encrypt(mk(), w.pub, a.f("uid"), 3, a.f("msg"), m.opts)
								g2, e2 = sm9.EncryptASN1(mk(), w.pub, a.f("uid"), 3, a.f("msg"), m.opts)
							}) {
								return
							}
							t.Eval(2)
							if e1 != nil || e2 != nil {
								t.Fail("layout/encrypt/error", "mode %s record %s: %v %v", m.name, a.order(), e1, e2)
								return
							}
							a.check(t, "layout", "encrypt/"+m.name)
							same(t, "layout/encrypt/"+m.name+"/result-mismatch", g1, raw, "record %s payload %d pass %d: Encrypt", a.order(), pl, pass)
							same(t, "layout/encrypt/"+m.name+"/result-mismatch", g2, der, "record %s payload %d pass %d: EncryptASN1", a.order(), pl, pass)
							if pass == 0 {
								d.add("ct", g1)
							}
						}
						t.Nontrivial(fmt.Sprintf("layout/encrypt/%s/%s/%d", m.name, a.order(), pl))
					}
					optsUID, _ := sm9.NewDecrypterOptsWithUID(m.opts, uid)
					for _, form := range []string{"raw", "asn1"} {
						ct := raw
						if form == "asn1" {
							ct = der
						}
						for _, ord := range perms("uid", "ct") {
							a := arenaOf(ord, map[string][]byte{"uid": uid, "ct": ct})
							for pass := 0; pass < 2; pass++ {
								var p1, p2 []byte
								var e1, e2 error
								if t.Guard("layout/decrypt", func() {
									if form == "raw" {
										p1, e1 = sm9.Decrypt(w.user, a.f("uid"), a.f("ct"), m.opts)
										if optsUID != nil {
											p2, e2 = w.user.Decrypt(nil, a.f("ct"), optsUID)
										} else {
											p2, e2 = p1, e1
										}
									} else {
										p1, e1 = sm9.DecryptASN1(w.user, a.f("uid"), a.f("ct"))
										p2, e2 = w.user.Decrypt(nil, a.f("ct"), a.f("uid"))
									}
								}) {
									return
								}
								t.Eval(2)
								a.check(t, "layout", "decrypt/"+m.name)
								if e1 != nil || e2 != nil {
									t.Fail("layout/decrypt/"+m.name+"/valid-rejected", "record %s (%s ciphertext, payload %d) pass %d: %v / %v", a.order(), form, pl, pass, e1, e2)
									continue
								}
								same(t, "layout/decrypt/"+m.name+"/result-mismatch", p1, msg, "record %s (%s ciphertext) pass %d", a.order(), form, pass)
								same(t, "layout/decrypt/"+m.name+"/result-mismatch", p2, msg, "record %s (%s ciphertext) pass %d, crypto.Decrypter entry", a.order(), form, pass)
							}
							t.Nontrivial(fmt.Sprintf("layout/decrypt/%s/%s/%s/%d", m.name, form, a.order(), pl))
						}
					}
				}
				d.finish(t)
			})
		}
	}
	// capacity classes of the plaintext (the block modes pad): none, one byte, one short of the padded length, exactly
	// the padded length, one more, ample; the spare capacity is dirty and is followed by the live identity
	for _, mn := range []string{"ecb", "cbc", "xor", "cfb"} {
		m := modeByName(mn)
		c.Case("layout/encrypt/plaintext-capacity-classes/"+m.name, func(t *engine.T) {
			d := newTranscript()
			uid := rawUID(baseUIDLen)
			w := newEncWorld(t, ke, uid, 3)
			if w == nil {
				return
			}
			b := w.base(chain("layout/cap/r"))
			for _, pl := range []int{5, 16, 21, 32} {
				msg := rawMsg(pl)
				iv := ivOf(fmt.Sprint("layout/cap", m.name, pl))
				raw, der := w.expectCipher(b, m, iv, msg)
				padded := (pl/16 + 1) * 16
				for _, spare := range []int{0, 1, padded - pl - 1, padded - pl, padded - pl + 1, 400} {
					if spare < 0 {
						continue
					}
					// record: message, `spare` dirty bytes, identity
					rec := make([]byte, pl+spare+len(uid))
					copy(rec, msg)
					for i := pl; i < pl+spare; i++ {
						rec[i] = 0xD5 ^ byte(i*7)
					}
					copy(rec[pl+spare:], uid)
					orig := clone(rec)
					msgR, uidR := rec[:pl:pl+spare], rec[pl+spare:]
					mk := func() *engine.ScriptReader {
						if m.ivLen > 0 {
							return reader(k32(b.r), iv)
						}
						return reader(k32(b.r))
					}
					var g1, g2 []byte
					var e1, e2 error
					if t.Guard("layout/encrypt", func() {
						g1, e1 = sm9.Encrypt(mk(), w.pub, uidR, 3, msgR, m.opts)
						g2, e2 = sm9.EncryptASN1(mk(), w.pub, uidR, 3, msgR, m.opts)
					}) {
						return
					}
					t.Eval(2)
					if e1 != nil || e2 != nil {
						t.Fail("layout/encrypt/error", "mode %s payload %d spare capacity %d: %v %v", m.name, pl, spare, e1, e2)
						continue
					}
					same(t, "layout/encrypt/"+m.name+"/result-depends-on-plaintext-capacity", g1, raw, "payload %d, %d bytes of dirty spare capacity: Encrypt", pl, spare)
					same(t, "layout/encrypt/"+m.name+"/result-depends-on-plaintext-capacity", g2, der, "payload %d, %d bytes of dirty spare capacity: EncryptASN1", pl, spare)
					if !bytes.Equal(rec[:pl], orig[:pl]) || !bytes.Equal(rec[pl+spare:], orig[pl+spare:]) {
						t.Fail("layout/encrypt/"+m.name+"/argument-modified", "payload %d, spare capacity %d: the message or the identity was modified", pl, spare)
					}
					if !bytes.Equal(rec[pl:pl+spare], orig[pl:pl+spare]) {
						t.Extra("writes_into_spare_capacity_behind_a_record_not_judged", 1)
					}
					d.add("ct", g1)
					t.Nontrivial(fmt.Sprintf("layout/capacity/%s/%d/%d", m.name, pl, spare))
				}
			}
			d.finish(t)
		})
	}
	// arguments that are the same memory or overlap: identity == message, identity == peer identity, message a window
	// that starts inside the identity
	c.Case("layout/aliased-arguments", func(t *engine.T) {
		d := newTranscript()
		rec := rawUID(24)
		orig := clone(rec)
		r := chain("layout/alias/r")
		for _, sh := range []struct {
			name     string
			uid, msg []byte
		}{
			{"uid==msg", rec[:12:24], rec[:12:24]},
			{"msg-starts-inside-uid", rec[:12:24], rec[6:20:24]},
			{"uid-inside-msg", rec[4:10:24], rec[:24]},
		} {
			uidC, msgC := clone(sh.uid), clone(sh.msg) // expectations from copies
			if swRef := newSignWorld(t, ks, uidC, 1); swRef != nil {
				_, _, der, ok := swRef.expectSig(msgC, r)
				if ok {
					var sig []byte
					var err error
					var v bool
					if !t.Guard("layout/aliased", func() {
						sig, err = sm9.SignASN1(reader(k32(r)), swRef.user, sh.msg)
						v = sm9.VerifyASN1(swRef.pub, sh.uid, 1, sh.msg, der)
					}) {
						t.Eval(2)
						if err != nil {
							t.Fail("layout/aliased-arguments/error", "%s: %v", sh.name, err)
						} else {
							same(t, "layout/aliased-arguments/sign-mismatch", sig, der, "%s: SignASN1", sh.name)
						}
						if !v {
							t.Fail("layout/aliased-arguments/verify-valid-rejected", "%s: valid signature rejected when the identity and the message share memory", sh.name)
						}
					}
				}
			}
			if ew := newEncWorld(t, ke, uidC, 3); ew != nil {
				b := ew.base(r)
				for _, m := range modes {
					iv := ivOf("layout/alias" + m.name)
					raw, _ := ew.expectCipher(b, m, iv, msgC)
					var g []byte
					var err error
					if t.Guard("layout/aliased", func() { g, err = sm9.Encrypt(mkReader(m, b.r, iv), ew.pub, sh.uid, 3, sh.msg, m.opts) }) {
						continue
					}
					t.Eval(1)
					if err != nil {
						t.Fail("layout/aliased-arguments/error", "%s mode %s: %v", sh.name, m.name, err)
						continue
					}
					same(t, "layout/aliased-arguments/encrypt-mismatch", g, raw, "%s mode %s: Encrypt", sh.name, m.name)
					d.add("ct", g)
				}
			}
			if !bytes.Equal(rec, orig) {
				t.Fail("layout/aliased-arguments/argument-modified", "%s: the shared buffer was modified", sh.name)
				copy(rec, orig)
			}
			t.Nontrivial("layout/aliased/" + sh.name)
		}
		// key exchange between two parties that were given the same slice for both identities
		if p := newKXPair(t, ke, 2, clone(rec[:7]), clone(rec[:7])); p != nil {
			e := p.expect(r, chain("layout/alias/rb"), 24, true)
			id := rec[:7:24]
			ini := p.userA.NewKeyExchange(id, id, 24, true)
			res := p.userB.NewKeyExchange(id, id, 24, true)
			t.Guard("layout/aliased", func() {
				ra, e1 := ini.InitKeyExchange(reader(k32(r)), 2)
				rb, sb, e2 := res.RespondKeyExchange(reader(k32(chain("layout/alias/rb"))), 2, e.ra)
				ka, sa, e3 := ini.ConfirmResponder(e.rb, e.sb)
				kb, e4 := res.ConfirmInitiator(e.sa)
				t.Eval(4)
				if e1 != nil || e2 != nil || e3 != nil || e4 != nil {
					t.Fail("layout/aliased-arguments/error", "key exchange with uid == peerUID (same slice): %v %v %v %v", e1, e2, e3, e4)
					return
				}
				for _, x := range [][2][]byte{{ra, e.ra}, {rb, e.rb}, {sb, e.sb}, {sa, e.sa}, {ka, e.sk}, {kb, e.sk}} {
					same(t, "layout/aliased-arguments/kx-mismatch", x[0], x[1], "key exchange with uid == peerUID (same slice)")
				}
			})
			if !bytes.Equal(rec, orig) {
				t.Fail("layout/aliased-arguments/argument-modified", "key exchange: the shared identity buffer was modified")
			}
			t.Nontrivial("layout/aliased/kx")
		}
		d.finish(t)
	})
	// key exchange: identities and all protocol messages are fields of one session record
	kxKe := chain("layout/kx/ke")
	orders := [][]string{
		{"idA", "idB", "RA", "RB", "SB", "SA"},
		{"SA", "SB", "RB", "RA", "idB", "idA"},
		{"RA", "idA", "SB", "idB", "RB", "SA"},
		{"idB", "RB", "idA", "SA", "RA", "SB"},
	}
	for oi, ord := range orders {
		oi, ord := oi, ord
		c.Case(fmt.Sprintf("layout/kx/order#%d", oi), func(t *engine.T) {
			d := newTranscript()
			const hid = 2
			for _, uls := range [][2]int{{5, 3}, {0, 4}, {4, 0}} {
				p := newKXPair(t, kxKe, hid, rawUID(uls[0]), rawUID(uls[1]))
				if p == nil {
					return
				}
				rA, rB := chain("layout/kx/ra"), chain("layout/kx/rb")
				for _, klen := range []int{16, 100} {
					e := p.expect(rA, rB, klen, true)
					a := arenaOf(ord, map[string][]byte{"idA": p.uidA, "idB": p.uidB, "RA": e.ra, "RB": e.rb, "SB": e.sb, "SA": e.sa})
					for pass := 0; pass < 2; pass++ {
						ini := p.userA.NewKeyExchange(a.f("idA"), a.f("idB"), klen, true)
						res := p.userB.NewKeyExchange(a.f("idB"), a.f("idA"), klen, true)
						var ra, rb, sb, sa, keyA, keyB []byte
						var err error
						id := fmt.Sprintf("record %s (uidA %d, uidB %d bytes, klen %d) pass %d", a.order(), uls[0], uls[1], klen, pass)
						step := func(name string, f func()) bool {
							if t.Guard("layout/kx", f) {
								return false
							}
							t.Eval(1)
							okc := a.check(t, "layout", "kx/"+name)
							if err != nil {
								t.Fail("layout/kx/"+name+"/error", "%s: %v", id, err)
								return false
							}
							return okc
						}
						if !step("init", func() { ra, err = ini.InitKeyExchange(reader(k32(rA)), hid) }) {
							break
						}
						same(t, "layout/kx/result-mismatch", ra, e.ra, "%s: RA", id)
						if !step("respond", func() { rb, sb, err = res.RespondKeyExchange(reader(k32(rB)), hid, a.f("RA")) }) {
							break
						}
						same(t, "layout/kx/result-mismatch", rb, e.rb, "%s: RB", id)
						same(t, "layout/kx/result-mismatch", sb, e.sb, "%s: SB", id)
						if !step("confirm-responder", func() { keyA, sa, err = ini.ConfirmResponder(a.f("RB"), a.f("SB")) }) {
							break
						}
						same(t, "layout/kx/result-mismatch", keyA, e.sk, "%s: SK_A", id)
						same(t, "layout/kx/result-mismatch", sa, e.sa, "%s: SA", id)
						if !step("confirm-initiator", func() { keyB, err = res.ConfirmInitiator(a.f("SA")) }) {
							break
						}
						same(t, "layout/kx/result-mismatch", keyB, e.sk, "%s: SK_B", id)
						if pass == 0 {
							d.add("sk", keyB)
						}
					}
					t.Nontrivial(fmt.Sprintf("layout/kx/%d/%d/%d/%d", oi, uls[0], uls[1], klen))
				}
			}
			d.finish(t)
		})
	}
}

// ---------------------------------------------------------------------------------------------
// integrity/: inputs are unchanged, a failing call does not spoil the next good one

func runIntegrity(c *engine.Ctx) {
	ks, ke := chain("integrity/ks"), chain("integrity/ke")
	c.Case("integrity/verify", func(t *engine.T) {
		d := newTranscript()
		uid, msg := rawUID(baseUIDLen), rawMsg(20)
		w := newSignWorld(t, ks, uid, 1)
		if w == nil {
			return
		}
		h, s, der, ok := w.expectSig(msg, chain("integrity/r"))
		if !ok {
			return
		}
		other := clone(msg)
		other[3] ^= 0x10
		sigBuf, sBuf, uidBuf, msgBuf, otherBuf := withSlack(der), withSlack(s), withSlack(uid), withSlack(msg), withSlack(other)
		badSig := withSlack(der)
		badSig[len(badSig)-1] ^= 1
		badOrig := clone(badSig)
		unchanged := func(op string) {
			if !bytes.Equal(sigBuf, der) || !bytes.Equal(sBuf, s) || !bytes.Equal(uidBuf, uid) || !bytes.Equal(msgBuf, msg) || !bytes.Equal(otherBuf, other) || !bytes.Equal(badSig, badOrig) {
				t.Fail("integrity/verify/input-modified", "%s modified one of its inputs (uid, message or signature)", op)
				copy(sigBuf, der)
				copy(sBuf, s)
				copy(uidBuf, uid)
				copy(msgBuf, msg)
				copy(otherBuf, other)
				copy(badSig, badOrig)
			}
		}
		steps := []struct {
			name string
			want bool
			f    func() bool
		}{
			{"other message", false, func() bool { return sm9.VerifyASN1(w.pub, uidBuf, 1, otherBuf, sigBuf) }},
			{"good", true, func() bool { return sm9.VerifyASN1(w.pub, uidBuf, 1, msgBuf, sigBuf) }},
			{"damaged signature", false, func() bool { return sm9.VerifyASN1(w.pub, uidBuf, 1, msgBuf, badSig) }},
			{"good", true, func() bool { return w.pub.Verify(uidBuf, 1, msgBuf, sigBuf) }},
			{"other hid", false, func() bool { return sm9.VerifyASN1(w.pub, uidBuf, 2, msgBuf, sigBuf) }},
			{"good", true, func() bool { return sm9.VerifyASN1(w.pub, uidBuf, 1, msgBuf, sigBuf) }},
			{"other message (h,S)", false, func() bool { return sm9.Verify(w.pub, uidBuf, 1, otherBuf, h, sBuf) }},
			{"good (h,S)", true, func() bool { return sm9.Verify(w.pub, uidBuf, 1, msgBuf, h, sBuf) }},
			{"good (h,S)", true, func() bool { return sm9.Verify(w.pub, uidBuf, 1, msgBuf, h, sBuf) }},
		}
		hCopy := new(big.Int).Set(h)
		for i, st := range steps {
			var v bool
			if t.Guard("integrity/verify", func() { v = st.f() }) {
				return
			}
			t.Eval(1)
			unchanged(st.name)
			if h.Cmp(hCopy) != 0 {
				t.Fail("integrity/verify/input-modified", "sm9.Verify modified the caller's h")
				h.Set(hCopy)
			}
			d.addBool("v", v)
			if v != st.want {
				t.Fail("integrity/verify/history-dependent", "step %d (%s) of the sequence on the same buffers: Verify = %v want %v", i, st.name, v, st.want)
			}
		}
		t.Nontrivial("integrity/verify")
		d.finish(t)
	})
	for _, m := range modes {
		m := m
		c.Case("integrity/decrypt/"+m.name, func(t *engine.T) {
			d := newTranscript()
			uid := rawUID(baseUIDLen)
			w := newEncWorld(t, ke, uid, 3)
			if w == nil {
				return
			}
			u2, _, ok := w.userFor(t, rawUID(6))
			if !ok {
				return
			}
			b := w.base(chain("integrity/r"))
			msg := rawMsg(37)
			raw, der := w.expectCipher(b, m, ivOf("integrity"+m.name), msg)
			for _, form := range []string{"raw", "asn1"} {
				ct := raw
				if form == "asn1" {
					ct = der
				}
				ctBuf, uidBuf, otherUID := withSlack(ct), withSlack(uid), withSlack(rawUID(6))
				bad := withSlack(ct)
				bad[len(bad)-1] ^= 0x40
				badOrig := clone(bad)
				dec := func(key *sm9.EncryptPrivateKey, id, c []byte) ([]byte, error) {
					if form == "raw" {
						return sm9.Decrypt(key, id, c, m.opts)
					}
					return sm9.DecryptASN1(key, id, c)
				}
				steps := []struct {
					name string
					good bool
					f    func() ([]byte, error)
				}{
					{"other uid", false, func() ([]byte, error) { return dec(w.user, otherUID, ctBuf) }},
					{"good", true, func() ([]byte, error) { return dec(w.user, uidBuf, ctBuf) }},
					{"damaged ciphertext", false, func() ([]byte, error) { return dec(w.user, uidBuf, bad) }},
					{"good", true, func() ([]byte, error) { return dec(w.user, uidBuf, ctBuf) }},
					{"other user's key", false, func() ([]byte, error) { return dec(u2, uidBuf, ctBuf) }},
					{"good", true, func() ([]byte, error) { return dec(w.user, uidBuf, ctBuf) }},
					{"good", true, func() ([]byte, error) { return dec(w.user, uidBuf, ctBuf) }},
				}
				for i, st := range steps {
					var pt []byte
					var err error
					if t.Guard("integrity/decrypt", func() { pt, err = st.f() }) {
						return
					}
					t.Eval(1)
					if !bytes.Equal(ctBuf, ct) || !bytes.Equal(uidBuf, uid) || !bytes.Equal(bad, badOrig) || !bytes.Equal(otherUID, rawUID(6)) {
						t.Fail("integrity/decrypt/"+m.name+"/input-modified", "step %d (%s, %s form): decryption modified the caller's ciphertext or uid buffer", i, st.name, form)
						copy(ctBuf, ct)
						copy(uidBuf, uid)
						copy(bad, badOrig)
						copy(otherUID, rawUID(6))
					}
					d.addErr("e", err)
					switch {
					case st.good && err != nil:
						t.Fail("integrity/decrypt/"+m.name+"/history-dependent", "step %d (%s, %s form) of the sequence on the same buffers: %v", i, st.name, form, err)
					case st.good:
						same(t, "integrity/decrypt/"+m.name+"/history-dependent", pt, msg, "step %d (%s, %s form)", i, st.name, form)
						scribble(pt)
					case err == nil:
						t.Fail("integrity/decrypt/"+m.name+"/bad-accepted", "step %d (%s, %s form) decrypts", i, st.name, form)
					}
				}
				t.Nontrivial("integrity/decrypt/" + m.name + "/" + form)
			}
			d.finish(t)
		})
	}
	c.Case("integrity/unwrap", func(t *engine.T) {
		d := newTranscript()
		uid := rawUID(baseUIDLen)
		w := newEncWorld(t, ke, uid, 3)
		if w == nil {
			return
		}
		b := w.base(chain("integrity/r"))
		cExp := append([]byte{4}, b.c...)
		const klen = 40
		kExp := w.expectKey(b, klen)
		for _, cf := range []struct {
			name string
			data []byte
			f    func(id, c []byte) ([]byte, error)
		}{
			{"04||C", cExp, func(id, c []byte) ([]byte, error) { return sm9.UnwrapKey(w.user, id, c, klen) }},
			{"C", b.c, func(id, c []byte) ([]byte, error) { return sm9.UnwrapKey(w.user, id, c, klen) }},
			{"BIT STRING", sm9ref.DerBits(cExp), func(id, c []byte) ([]byte, error) { return w.user.UnwrapKey(id, c, klen) }},
		} {
			cBuf, uidBuf, otherUID := withSlack(cf.data), withSlack(uid), withSlack(rawUID(6))
			bad := withSlack(cf.data)
			bad[len(bad)-1] ^= 1 // y^1: not on the curve
			badOrig := clone(bad)
			steps := []struct {
				name string
				kind int // 0 must be refused, 1 good, 2 error or another key
				f    func() ([]byte, error)
			}{
				{"off-curve cipher", 0, func() ([]byte, error) { return cf.f(uidBuf, bad) }},
				{"good", 1, func() ([]byte, error) { return cf.f(uidBuf, cBuf) }},
				{"other uid", 2, func() ([]byte, error) { return cf.f(otherUID, cBuf) }},
				{"good", 1, func() ([]byte, error) { return cf.f(uidBuf, cBuf) }},
				{"good", 1, func() ([]byte, error) { return cf.f(uidBuf, cBuf) }},
			}
			for i, st := range steps {
				var k []byte
				var err error
				if t.Guard("integrity/unwrap", func() { k, err = st.f() }) {
					return
				}
				t.Eval(1)
				if !bytes.Equal(cBuf, cf.data) || !bytes.Equal(uidBuf, uid) || !bytes.Equal(bad, badOrig) || !bytes.Equal(otherUID, rawUID(6)) {
					t.Fail("integrity/unwrap/input-modified", "step %d (%s, cipher as %s): UnwrapKey modified the caller's cipher or uid buffer", i, st.name, cf.name)
					copy(cBuf, cf.data)
					copy(uidBuf, uid)
					copy(bad, badOrig)
					copy(otherUID, rawUID(6))
				}
				d.addErr("e", err)
				switch st.kind {
				case 0:
					if err == nil {
						t.Fail("integrity/unwrap/bad-accepted", "step %d (%s, cipher as %s) unwraps", i, st.name, cf.name)
					}
				case 1:
					if err != nil {
						t.Fail("integrity/unwrap/history-dependent", "step %d (%s, cipher as %s) of the sequence on the same buffers: %v", i, st.name, cf.name, err)
					} else {
						same(t, "integrity/unwrap/history-dependent", k, kExp, "step %d (%s, cipher as %s)", i, st.name, cf.name)
						scribble(k)
					}
				case 2:
					if err == nil && bytes.Equal(k, kExp) {
						t.Fail("integrity/unwrap/bad-accepted", "step %d (%s, cipher as %s) returns the original key", i, st.name, cf.name)
					}
				}
			}
			t.Nontrivial("integrity/unwrap/" + cf.name)
		}
		d.finish(t)
	})
}
