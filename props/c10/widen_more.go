package c10

import (
	"bytes"
	"crypto/aes"
	"crypto/cipher"
	"fmt"
	"math/big"

	"github.com/emmansun/gmsm/padding"
	"github.com/emmansun/gmsm/sm4"
	"github.com/emmansun/gmsm/sm9"
	vh "github.com/emmansun/gmsm/verifhook"

	"verif/engine"
	"verif/ref/padref"
	"verif/ref/sm4ref"
	"verif/ref/sm9ref"
)

// ---------------------------------------------------------------------------------------------
// light-weight scheme checks (one entry point per direction) used by the sweeps below

func mkReader(m modeSpec, r *big.Int, iv []byte) *engine.ScriptReader {
	if m.ivLen > 0 {
		return reader(k32(r), iv)
	}
	return reader(k32(r))
}

func encLight(t *engine.T, d *transcript, fam string, w *encWorld, b *wrapBase, m modeSpec, iv, msg []byte) {
	raw, der := w.expectCipher(b, m, iv, msg)
	id := fmt.Sprintf("mode %s uid %d bytes payload %d bytes", m.name, len(w.uid), len(msg))
	var g1, g2, p1, p2 []byte
	var e1, e2, e3, e4 error
	if t.Guard(fam+"/encrypt", func() {
		g1, e1 = sm9.Encrypt(mkReader(m, b.r, iv), w.pub, w.uid, w.hid, msg, m.opts)
		g2, e2 = sm9.EncryptASN1(mkReader(m, b.r, iv), w.pub, w.uid, w.hid, msg, m.opts)
	}) {
		return
	}
	t.Eval(2)
	if e1 != nil || e2 != nil {
		t.Fail(fam+"/encrypt/"+m.name+"/error", "%s: %v %v", id, e1, e2)
	} else {
		d.add("ct", g1)
		same(t, fam+"/encrypt/"+m.name+"/mismatch", g1, raw, "%s: Encrypt vs C1||C3||C2", id)
		same(t, fam+"/encrypt/"+m.name+"/mismatch", g2, der, "%s: EncryptASN1 vs SM9Cipher", id)
	}
	rawIn, derIn := clone(raw), clone(der)
	if t.Guard(fam+"/decrypt", func() {
		p1, e3 = sm9.Decrypt(w.user, w.uid, rawIn, m.opts)
		p2, e4 = sm9.DecryptASN1(w.user, w.uid, derIn)
	}) {
		return
	}
	t.Eval(2)
	if e3 != nil || e4 != nil {
		t.Fail(fam+"/decrypt/"+m.name+"/valid-rejected", "%s: reference ciphertext refused: %v %v", id, e3, e4)
	} else {
		same(t, fam+"/decrypt/"+m.name+"/mismatch", p1, msg, "%s: Decrypt", id)
		same(t, fam+"/decrypt/"+m.name+"/mismatch", p2, msg, "%s: DecryptASN1", id)
	}
	if !bytes.Equal(rawIn, raw) || !bytes.Equal(derIn, der) {
		t.Fail(fam+"/decrypt/"+m.name+"/input-modified", "%s: decryption modified the caller's ciphertext", id)
	}
}

func signLight(t *engine.T, d *transcript, fam string, w *signWorld, msg []byte, r *big.Int) {
	_, _, der, ok := w.expectSig(msg, r)
	if !ok {
		return
	}
	id := fmt.Sprintf("uid %d bytes hid %d msg %d bytes", len(w.uid), w.hid, len(msg))
	var sig []byte
	var err error
	var v bool
	if t.Guard(fam+"/sign", func() {
		sig, err = sm9.SignASN1(reader(k32(r)), w.user, msg)
		v = sm9.VerifyASN1(w.pub, w.uid, w.hid, msg, der)
	}) {
		return
	}
	t.Eval(2)
	if err != nil {
		t.Fail(fam+"/sign/error", "%s: %v", id, err)
	} else {
		d.add("sig", sig)
		same(t, fam+"/sign/mismatch", sig, der, "%s: SignASN1 vs (H2(M||g^r), [(r-h) mod n]ds)", id)
	}
	if !v {
		t.Fail(fam+"/verify/valid-rejected", "%s: reference signature rejected", id)
	}
}

func wrapLight(t *engine.T, d *transcript, fam string, w *encWorld, b *wrapBase, klen int) {
	kExp, cExp := w.expectKey(b, klen), append([]byte{4}, b.c...)
	id := fmt.Sprintf("uid %d bytes hid %d klen %d", len(w.uid), w.hid, klen)
	var k, cc, uk []byte
	var e1, e2 error
	if t.Guard(fam+"/wrap", func() {
		k, cc, e1 = sm9.WrapKey(reader(k32(b.r)), w.pub, w.uid, w.hid, klen)
		uk, e2 = sm9.UnwrapKey(w.user, w.uid, cExp, klen)
	}) {
		return
	}
	t.Eval(2)
	if e1 != nil {
		t.Fail(fam+"/wrap/error", "%s: %v", id, e1)
	} else {
		d.add("k", k)
		same(t, fam+"/wrap/mismatch", k, kExp, "%s: WrapKey key", id)
		same(t, fam+"/wrap/mismatch", cc, cExp, "%s: WrapKey cipher", id)
	}
	if e2 != nil {
		t.Fail(fam+"/unwrap/valid-rejected", "%s: %v", id, e2)
	} else {
		same(t, fam+"/unwrap/mismatch", uk, kExp, "%s: UnwrapKey", id)
	}
}

// kxRun runs one complete exchange on fresh objects and compares every value with the reference.
func kxRun(t *engine.T, d *transcript, fam string, p *kxPair, hid byte, rA, rB *big.Int, klen int, conf bool) bool {
	e := p.expect(rA, rB, klen, conf)
	id := fmt.Sprintf("uidA %d uidB %d bytes klen %d conf=%v", len(p.uidA), len(p.uidB), klen, conf)
	ini := p.userA.NewKeyExchange(p.uidA, p.uidB, klen, conf)
	res := p.userB.NewKeyExchange(p.uidB, p.uidA, klen, conf)
	var ra, rb, sb, sa, keyA, keyB []byte
	var e1, e2, e3, e4 error
	if t.Guard(fam+"/kx", func() {
		if ra, e1 = ini.InitKeyExchange(reader(k32(rA)), hid); e1 != nil {
			return
		}
		if rb, sb, e2 = res.RespondKeyExchange(reader(k32(rB)), hid, e.ra); e2 != nil {
			return
		}
		if keyA, sa, e3 = ini.ConfirmResponder(e.rb, e.sb); e3 != nil {
			return
		}
		keyB, e4 = res.ConfirmInitiator(e.sa)
	}) {
		return false
	}
	t.Eval(4)
	if e1 != nil || e2 != nil || e3 != nil || e4 != nil {
		t.Fail(fam+"/kx/error", "%s: init=%v respond=%v confirm-responder=%v confirm-initiator=%v", id, e1, e2, e3, e4)
		return false
	}
	d.add("sk", keyA)
	ok := same(t, fam+"/kx/mismatch", ra, e.ra, "%s: RA", id)
	ok = same(t, fam+"/kx/mismatch", rb, e.rb, "%s: RB", id) && ok
	ok = same(t, fam+"/kx/mismatch", sb, e.sb, "%s: SB", id) && ok
	ok = same(t, fam+"/kx/mismatch", sa, e.sa, "%s: SA", id) && ok
	ok = same(t, fam+"/kx/mismatch", keyA, e.sk, "%s: SK_A vs KDF(IDA||IDB||RA||RB||g1||g2||g3)", id) && ok
	ok = same(t, fam+"/kx/mismatch", keyB, e.sk, "%s: SK_B", id) && ok
	return ok
}

// ---------------------------------------------------------------------------------------------
// history/

func runHistory(c *engine.Ctx) {
	ks, ke := chain("history/ks"), chain("history/ke")

	// every ordered pair of (uid, hid, key length) states on ONE master public key object
	c.Case("history/enc-master-public/wrap/all-ordered-pairs", func(t *engine.T) {
		d := newTranscript()
		master, ppub := newEncMaster(t, ke)
		if master == nil {
			return
		}
		pub := master.PublicKey()
		g := vh.Pair(hookG1(ppub), vh.Gen2)
		type state struct {
			uid        []byte
			hid        byte
			klen       int
			r          *big.Int
			kExp, cExp []byte
		}
		var states []*state
		for i, s := range []struct {
			ul   int
			hid  byte
			klen int
		}{{5, 3, 16}, {5, 3, 260}, {5, 1, 16}, {6, 3, 97}, {0, 3, 1}, {64, 3, 225}, {5, 3, 33}} {
			st := &state{uid: rawUID(s.ul), hid: s.hid, klen: s.klen, r: chain(fmt.Sprint("history/wrap/r", i))}
			q := curve.Add(curve.BaseMul(sm9ref.H1ID(st.uid, st.hid)), ppub)
			cc := encPt(curve.Mul(st.r, q))
			st.cExp = append([]byte{4}, cc...)
			st.kExp = sm9ref.WrapKDF(cc, gtExp(g, st.r), st.uid, st.klen)
			states = append(states, st)
		}
		seq := pairSequence(len(states))
		for i, si := range seq {
			st := states[si]
			var k, cc []byte
			var err error
			if t.Guard("history/wrap", func() { k, cc, err = sm9.WrapKey(reader(k32(st.r)), pub, st.uid, st.hid, st.klen) }) {
				return
			}
			t.Eval(1)
			prev := -1
			if i > 0 {
				prev = seq[i-1]
			}
			if err != nil {
				t.Fail("history/wrap/error", "call %d (state %d after state %d): %v", i, si, prev, err)
				continue
			}
			same(t, "history/wrap/depends-on-previous-call", k, st.kExp, "call %d on one master public key: state %d (uid %d bytes, hid %d, klen %d) after state %d: key", i, si, len(st.uid), st.hid, st.klen, prev)
			same(t, "history/wrap/depends-on-previous-call", cc, st.cExp, "call %d: state %d after state %d: cipher", i, si, prev)
			if i < len(states) {
				d.add("k", k)
			}
			scribble(k)
			scribble(cc)
		}
		t.Nontrivial(fmt.Sprintf("history/wrap/pairs=%d", len(seq)-1))
		d.finish(t)
	})

	// two master keys (each with its own lazily built pairing table) and their user keys used alternately
	c.Case("history/two-masters-alternately", func(t *engine.T) {
		d := newTranscript()
		uid, msg := rawUID(baseUIDLen), rawMsg(20)
		var ews [2]*encWorld
		var sws [2]*signWorld
		for i := range ews {
			ews[i] = newEncWorld(t, chain(fmt.Sprint("history/two/ke", i)), uid, 3)
			sws[i] = newSignWorld(t, chain(fmt.Sprint("history/two/ks", i)), uid, 1)
			if ews[i] == nil || sws[i] == nil {
				return
			}
		}
		r := chain("history/two/r")
		for round := 0; round < 3; round++ {
			for i := range ews {
				b := ews[i].base(r)
				wrapLight(t, d, "history/two-masters", ews[i], b, 16+100*round)
				encLight(t, d, "history/two-masters", ews[i], b, modes[round%len(modes)], ivOf("history/two"), msg)
				signLight(t, d, "history/two-masters", sws[i], msg, r)
			}
		}
		t.Nontrivial("history/two-masters")
		d.finish(t)
	})
	// every ordered pair of (mode, payload length) states: encryption on one master public key, decryption with one
	// user key; the option objects are process-wide singletons
	for _, half := range []string{"encrypt", "decrypt"} {
		half := half
		c.Case("history/"+half+"/all-ordered-pairs-of-mode-and-length", func(t *engine.T) {
			d := newTranscript()
			uid := rawUID(baseUIDLen)
			w := newEncWorld(t, ke, uid, 3)
			if w == nil {
				return
			}
			b := w.base(chain("history/enc/r"))
			type state struct {
				m        modeSpec
				msg, iv  []byte
				raw, der []byte
			}
			var states []*state
			for _, m := range modes {
				for _, pl := range []int{5, 70} {
					st := &state{m: m, msg: rawMsg(pl), iv: ivOf(fmt.Sprint("history", m.name, pl))}
					st.raw, st.der = w.expectCipher(b, m, st.iv, st.msg)
					states = append(states, st)
				}
			}
			seq := pairSequence(len(states))
			for i, si := range seq {
				st := states[si]
				prev := -1
				if i > 0 {
					prev = seq[i-1]
				}
				id := fmt.Sprintf("call %d: %s/%d bytes after state %d", i, st.m.name, len(st.msg), prev)
				var a, bb []byte
				var e1, e2 error
				if half == "encrypt" {
					if t.Guard("history/encrypt", func() {
						a, e1 = sm9.Encrypt(mkReader(st.m, b.r, st.iv), w.pub, uid, 3, st.msg, st.m.opts)
						bb, e2 = sm9.EncryptASN1(mkReader(st.m, b.r, st.iv), w.pub, uid, 3, st.msg, st.m.opts)
					}) {
						return
					}
					t.Eval(2)
					if e1 != nil || e2 != nil {
						t.Fail("history/encrypt/error", "%s: %v %v", id, e1, e2)
						continue
					}
					same(t, "history/encrypt/depends-on-previous-call", a, st.raw, "%s: Encrypt", id)
					same(t, "history/encrypt/depends-on-previous-call", bb, st.der, "%s: EncryptASN1", id)
				} else {
					if t.Guard("history/decrypt", func() {
						a, e1 = sm9.Decrypt(w.user, uid, st.raw, st.m.opts)
						bb, e2 = sm9.DecryptASN1(w.user, uid, st.der)
					}) {
						return
					}
					t.Eval(2)
					if e1 != nil || e2 != nil {
						t.Fail("history/decrypt/depends-on-previous-call", "%s: reference ciphertext refused: %v %v", id, e1, e2)
						continue
					}
					same(t, "history/decrypt/depends-on-previous-call", a, st.msg, "%s: Decrypt", id)
					same(t, "history/decrypt/depends-on-previous-call", bb, st.msg, "%s: DecryptASN1", id)
				}
				if i < len(states) {
					d.add("o", a)
				}
				scribble(a)
				scribble(bb)
			}
			t.Nontrivial(fmt.Sprintf("history/%s/pairs=%d", half, len(seq)-1))
			d.finish(t)
		})
	}

	// verification on one master public key: every ordered pair of (uid, hid, message, verdict) states
	c.Case("history/sign-master-public/verify/all-ordered-pairs", func(t *engine.T) {
		d := newTranscript()
		master, _ := newSignMaster(t, ks)
		if master == nil {
			return
		}
		pub := master.PublicKey()
		type state struct {
			uid, msg, sig []byte
			hid           byte
			want          bool
			name          string
		}
		var states []*state
		for i, s := range []struct {
			ul, ml int
			hid    byte
		}{{5, 20, 1}, {6, 70, 1}, {5, 0, 3}} {
			w := newSignWorld(t, ks, rawUID(s.ul), s.hid)
			if w == nil {
				return
			}
			msg := rawMsg(s.ml)
			_, _, der, ok := w.expectSig(msg, chain(fmt.Sprint("history/verify/r", i)))
			if !ok {
				return
			}
			states = append(states, &state{rawUID(s.ul), msg, der, s.hid, true, fmt.Sprintf("valid#%d", i)})
			bad := clone(der)
			bad[10] ^= 4
			states = append(states, &state{rawUID(s.ul), msg, bad, s.hid, false, fmt.Sprintf("altered-h#%d", i)})
		}
		states = append(states, &state{rawUID(5), rawMsg(20), states[2].sig, 1, false, "signature-of-another-user"})
		states = append(states, &state{rawUID(5), rawMsg(20), []byte{0x30, 0x00}, 1, false, "unparsable"})
		seq := pairSequence(len(states))
		for i, si := range seq {
			st := states[si]
			var v bool
			if t.Guard("history/verify", func() { v = sm9.VerifyASN1(pub, st.uid, st.hid, st.msg, st.sig) }) {
				return
			}
			t.Eval(1)
			if v != st.want {
				prev := "nothing"
				if i > 0 {
					prev = states[seq[i-1]].name
				}
				t.Fail("history/verify/depends-on-previous-call", "call %d on one master public key: %s after %s: VerifyASN1 = %v want %v", i, st.name, prev, v, st.want)
			}
			d.addBool("v", v)
		}
		t.Nontrivial(fmt.Sprintf("history/verify/pairs=%d", len(seq)-1))
		d.finish(t)
	})

	// first use of a freshly parsed key (nothing lazily built yet) through every entry point
	c.Case("history/first-use/sign", func(t *engine.T) {
		d := newTranscript()
		uid, msg := rawUID(baseUIDLen), rawMsg(20)
		w := newSignWorld(t, ks, uid, 1)
		if w == nil {
			return
		}
		r := chain("history/first/r")
		h, s, der, ok := w.expectSig(msg, r)
		if !ok {
			return
		}
		pubUnc, dsUnc := w.ppub.MarshalUncompressed(), w.dsRef.Uncompressed()
		freshPub := func() *sm9.SignMasterPublicKey {
			p, err := sm9.UnmarshalSignMasterPublicKeyRaw(pubUnc)
			if err != nil {
				panic(err)
			}
			return p
		}
		freshUser := func() *sm9.SignPrivateKey {
			p, err := sm9.UnmarshalSignPrivateKeyASN1(sm9ref.DerSeq(sm9ref.DerBits(dsUnc), sm9ref.DerBits(pubUnc)))
			if err != nil {
				panic(err)
			}
			return p
		}
		firsts := []struct {
			name string
			f    func() bool
		}{
			{"VerifyASN1", func() bool { return sm9.VerifyASN1(freshPub(), uid, 1, msg, der) }},
			{"pub.Verify", func() bool { return freshPub().Verify(uid, 1, msg, der) }},
			{"sm9.Verify", func() bool { return sm9.Verify(freshPub(), uid, 1, msg, h, s) }},
			{"VerifyASN1(invalid) then valid", func() bool {
				p := freshPub()
				return !sm9.VerifyASN1(p, uid, 2, msg, der) && sm9.VerifyASN1(p, uid, 1, msg, der)
			}},
			{"SignASN1", func() bool {
				sig, err := sm9.SignASN1(reader(k32(r)), freshUser(), msg)
				return err == nil && bytes.Equal(sig, der)
			}},
			{"sm9.Sign", func() bool {
				hb, sb, err := sm9.Sign(reader(k32(r)), freshUser(), msg)
				return err == nil && hb.Cmp(h) == 0 && bytes.Equal(sb, s)
			}},
			{"MasterPublic().Verify before Sign", func() bool {
				u := freshUser()
				if !u.MasterPublic().Verify(uid, 1, msg, der) {
					return false
				}
				sig, err := u.Sign(reader(k32(r)), msg, nil)
				return err == nil && bytes.Equal(sig, der)
			}},
			{"GenerateUserKey().MasterPublic().Verify", func() bool {
				m, err := sm9.UnmarshalSignMasterPrivateKeyASN1(sm9ref.DerInt(ks))
				if err != nil {
					return false
				}
				u, err := m.GenerateUserKey(uid, 1)
				return err == nil && u.MasterPublic().Verify(uid, 1, msg, der) && m.PublicKey().Verify(uid, 1, msg, der)
			}},
		}
		for _, f := range firsts {
			var ok bool
			if t.Guard("history/first-use/sign", func() { ok = f.f() }) {
				continue
			}
			t.Eval(1)
			d.addBool(f.name, ok)
			if !ok {
				t.Fail("history/first-use/sign/wrong-answer", "first operation on a freshly parsed key = %s: wrong answer", f.name)
			}
			t.Nontrivial("history/first-use/sign/" + f.name)
		}
		d.finish(t)
	})
	c.Case("history/first-use/enc", func(t *engine.T) {
		d := newTranscript()
		const hid = 3
		p := newKXPair(t, ke, hid, rawUID(baseUIDLen), rawUID(3))
		if p == nil {
			return
		}
		w, uid := p.w, p.uidA
		msg := rawMsg(20)
		b := w.base(chain("history/first/r"))
		const klen = 40
		kExp, cExp := w.expectKey(b, klen), append([]byte{4}, b.c...)
		cbc := modeByName("cbc")
		iv := ivOf("history/first")
		rawX, derX := w.expectCipher(b, modes[0], nil, msg)
		rawC, derC := w.expectCipher(b, cbc, iv, msg)
		rA, rB := chain("history/first/ra"), chain("history/first/rb")
		e := p.expect(rA, rB, 24, true)
		pubUnc := w.ppub.Uncompressed()
		deA, deB := clone(p.userA.Bytes()), clone(p.userB.Bytes())
		freshPub := func() *sm9.EncryptMasterPublicKey {
			k, err := sm9.UnmarshalEncryptMasterPublicKeyRaw(pubUnc)
			if err != nil {
				panic(err)
			}
			return k
		}
		freshUser := func(de []byte) *sm9.EncryptPrivateKey {
			k, err := sm9.UnmarshalEncryptPrivateKeyASN1(sm9ref.DerSeq(sm9ref.DerBits(de), sm9ref.DerBits(pubUnc)))
			if err != nil {
				panic(err)
			}
			return k
		}
		firsts := []struct {
			name string
			f    func() bool
		}{
			{"WrapKey", func() bool {
				k, cc, err := sm9.WrapKey(reader(k32(b.r)), freshPub(), uid, hid, klen)
				return err == nil && bytes.Equal(k, kExp) && bytes.Equal(cc, cExp)
			}},
			{"WrapKeyASN1", func() bool {
				pkg, err := freshPub().WrapKeyASN1(reader(k32(b.r)), uid, hid, klen)
				return err == nil && bytes.Equal(pkg, sm9ref.DerSeq(sm9ref.DerOctets(kExp), sm9ref.DerBits(cExp)))
			}},
			{"Encrypt(xor)", func() bool {
				ct, err := sm9.Encrypt(reader(k32(b.r)), freshPub(), uid, hid, msg, nil)
				return err == nil && bytes.Equal(ct, rawX)
			}},
			{"EncryptASN1(cbc)", func() bool {
				ct, err := sm9.EncryptASN1(reader(k32(b.r), iv), freshPub(), uid, hid, msg, cbc.opts)
				return err == nil && bytes.Equal(ct, derC)
			}},
			{"UnwrapKey", func() bool {
				k, err := sm9.UnwrapKey(freshUser(deA), uid, cExp, klen)
				return err == nil && bytes.Equal(k, kExp)
			}},
			{"Decrypt(cbc)", func() bool {
				pt, err := sm9.Decrypt(freshUser(deA), uid, rawC, cbc.opts)
				return err == nil && bytes.Equal(pt, msg)
			}},
			{"DecryptASN1(xor)", func() bool {
				pt, err := sm9.DecryptASN1(freshUser(deA), uid, derX)
				return err == nil && bytes.Equal(pt, msg)
			}},
			{"MasterPublic().WrapKey", func() bool {
				k, cc, err := sm9.WrapKey(reader(k32(b.r)), freshUser(deA).MasterPublic(), uid, hid, klen)
				return err == nil && bytes.Equal(k, kExp) && bytes.Equal(cc, cExp)
			}},
			{"key exchange as initiator", func() bool {
				ini := freshUser(deA).NewKeyExchange(p.uidA, p.uidB, 24, true)
				ra, err := ini.InitKeyExchange(reader(k32(rA)), hid)
				if err != nil || !bytes.Equal(ra, e.ra) {
					return false
				}
				k, sa, err := ini.ConfirmResponder(e.rb, e.sb)
				return err == nil && bytes.Equal(k, e.sk) && bytes.Equal(sa, e.sa)
			}},
			{"key exchange as responder", func() bool {
				res := freshUser(deB).NewKeyExchange(p.uidB, p.uidA, 24, true)
				rb, sb, err := res.RespondKeyExchange(reader(k32(rB)), hid, e.ra)
				if err != nil || !bytes.Equal(rb, e.rb) || !bytes.Equal(sb, e.sb) {
					return false
				}
				k, err := res.ConfirmInitiator(e.sa)
				return err == nil && bytes.Equal(k, e.sk)
			}},
		}
		for _, f := range firsts {
			var ok bool
			if t.Guard("history/first-use/enc", func() { ok = f.f() }) {
				continue
			}
			t.Eval(1)
			d.addBool(f.name, ok)
			if !ok {
				t.Fail("history/first-use/enc/wrong-answer", "first operation on a freshly parsed key = %s: wrong answer", f.name)
			}
			t.Nontrivial("history/first-use/enc/" + f.name)
		}
		d.finish(t)
	})

	// key-exchange objects with a history
	kxKe := chain("history/kx/ke")
	for _, conf := range []bool{true, false} {
		conf := conf
		c.Case(fmt.Sprintf("history/kx-object/conf=%v", conf), func(t *engine.T) {
			d := newTranscript()
			const hid = 2
			p := newKXPair(t, kxKe, hid, rawUID(5), rawUID(3))
			if p == nil {
				return
			}
			r := func(s string) *big.Int { return chain("history/kx/" + s) }
			// session runs one complete exchange on the given objects
			session := func(tag string, ini, res sm9.KeyExchange, rA, rB *big.Int, klen int) bool {
				e := p.expect(rA, rB, klen, conf)
				var ra, rb, sb, sa, keyA, keyB []byte
				var e1, e2, e3, e4 error
				if t.Guard("history/kx", func() {
					if ra, e1 = ini.InitKeyExchange(reader(k32(rA)), hid); e1 != nil {
						return
					}
					if rb, sb, e2 = res.RespondKeyExchange(reader(k32(rB)), hid, clone(e.ra)); e2 != nil {
						return
					}
					if keyA, sa, e3 = ini.ConfirmResponder(clone(e.rb), clone(e.sb)); e3 != nil {
						return
					}
					var in []byte
					if conf {
						in = clone(e.sa)
					}
					keyB, e4 = res.ConfirmInitiator(in)
				}) {
					return false
				}
				t.Eval(4)
				if e1 != nil || e2 != nil || e3 != nil || e4 != nil {
					t.Fail("history/kx/"+tag+"/error", "%s: init=%v respond=%v confirm-responder=%v confirm-initiator=%v", tag, e1, e2, e3, e4)
					return false
				}
				ok := true
				for _, x := range []struct {
					n         string
					got, want []byte
				}{{"RA", ra, e.ra}, {"RB", rb, e.rb}, {"SB", sb, e.sb}, {"SA", sa, e.sa}, {"SK_A", keyA, e.sk}, {"SK_B", keyB, e.sk}} {
					ok = same(t, "history/kx/"+tag+"/mismatch", x.got, x.want, "%s: %s", tag, x.n) && ok
				}
				d.add(tag, keyA)
				return ok
			}
			const klen = 40
			// 1. a second session on the same pair of objects
			ini := p.userA.NewKeyExchange(p.uidA, p.uidB, klen, conf)
			res := p.userB.NewKeyExchange(p.uidB, p.uidA, klen, conf)
			if session("first-session", ini, res, r("a1"), r("b1"), klen) {
				session("second-session-on-the-same-objects", ini, res, r("a2"), r("b2"), klen)
				t.Nontrivial("history/kx/second-session")
				// 2. after Destroy
				if !t.Guard("history/kx/destroy", func() { ini.Destroy(); res.Destroy() }) {
					session("session-after-destroy", ini, res, r("a3"), r("b3"), klen)
					t.Nontrivial("history/kx/after-destroy")
				}
			}
			// 3. Init called twice: the second ephemeral key counts
			{
				ini := p.userA.NewKeyExchange(p.uidA, p.uidB, klen, conf)
				res := p.userB.NewKeyExchange(p.uidB, p.uidA, klen, conf)
				if !t.Guard("history/kx", func() { ini.InitKeyExchange(reader(k32(r("a4"))), hid) }) {
					session("session-after-an-abandoned-init", ini, res, r("a5"), r("b5"), klen)
					t.Nontrivial("history/kx/init-twice")
				}
			}
			// 4. a refused message followed by the genuine one: refused first; then error or the defined values
			{
				rA, rB := r("a6"), r("b6")
				e := p.expect(rA, rB, klen, conf)
				ini := p.userA.NewKeyExchange(p.uidA, p.uidB, klen, conf)
				res := p.userB.NewKeyExchange(p.uidB, p.uidA, klen, conf)
				offCurve := clone(e.ra)
				offCurve[64] ^= 1
				t.Guard("history/kx/refused", func() {
					if _, err := ini.InitKeyExchange(reader(k32(rA)), hid); err != nil {
						t.Fail("history/kx/refused/error", "InitKeyExchange: %v", err)
						return
					}
					if _, _, err := res.RespondKeyExchange(reader(k32(rB)), hid, offCurve); err == nil {
						t.Fail("history/kx/refused/off-curve-RA-accepted", "RespondKeyExchange accepts an RA that is not on the curve")
					}
					t.Eval(2)
					rb, sb, err := res.RespondKeyExchange(reader(k32(rB)), hid, clone(e.ra))
					t.Eval(1)
					if err != nil {
						d.addBool("respond-after-refusal", false)
						t.Extra("kx_respond_after_a_refused_message_refused", 1)
						return
					}
					d.addBool("respond-after-refusal", true)
					t.Extra("kx_respond_after_a_refused_message_continues", 1)
					same(t, "history/kx/refused/mismatch-after-a-refused-message", rb, e.rb, "RB after a refused RA")
					same(t, "history/kx/refused/mismatch-after-a-refused-message", sb, e.sb, "SB after a refused RA")
					if conf {
						badSB := clone(e.sb)
						badSB[0] ^= 1
						if _, _, err := ini.ConfirmResponder(clone(e.rb), badSB); err == nil {
							t.Fail("history/kx/refused/altered-SB-accepted", "ConfirmResponder accepts an altered SB")
						}
						t.Eval(1)
					}
					offRB := clone(e.rb)
					offRB[64] ^= 1
					if _, _, err := ini.ConfirmResponder(offRB, clone(e.sb)); err == nil {
						t.Fail("history/kx/refused/off-curve-RB-accepted", "ConfirmResponder accepts an RB that is not on the curve")
					}
					t.Eval(1)
					keyA, sa, err := ini.ConfirmResponder(clone(e.rb), clone(e.sb))
					t.Eval(1)
					if err != nil {
						d.addBool("confirm-responder-after-refusal", false)
						t.Extra("kx_confirm_responder_after_a_refused_message_refused", 1)
						return
					}
					d.addBool("confirm-responder-after-refusal", true)
					t.Extra("kx_confirm_responder_after_a_refused_message_continues", 1)
					same(t, "history/kx/refused/mismatch-after-a-refused-message", keyA, e.sk, "SK_A after refused (RB, SB)")
					same(t, "history/kx/refused/mismatch-after-a-refused-message", sa, e.sa, "SA after refused (RB, SB)")
					if conf {
						badSA := clone(e.sa)
						badSA[31] ^= 0x80
						if _, err := res.ConfirmInitiator(badSA); err == nil {
							t.Fail("history/kx/refused/altered-SA-accepted", "ConfirmInitiator accepts an altered SA")
						}
						t.Eval(1)
					}
					var in []byte
					if conf {
						in = clone(e.sa)
					}
					keyB, err := res.ConfirmInitiator(in)
					t.Eval(1)
					if err != nil {
						d.addBool("confirm-initiator-after-refusal", false)
						t.Extra("kx_confirm_initiator_after_a_refused_message_refused", 1)
						return
					}
					d.addBool("confirm-initiator-after-refusal", true)
					t.Extra("kx_confirm_initiator_after_a_refused_message_continues", 1)
					same(t, "history/kx/refused/mismatch-after-a-refused-message", keyB, e.sk, "SK_B after a refused SA")
					d.add("refused", keyB)
				})
				t.Nontrivial("history/kx/refused-then-genuine")
			}
			// 5. two sessions interleaved on the same two private keys, the second with the roles swapped
			{
				swapped := &kxPair{w: p.w, uidA: p.uidB, uidB: p.uidA, userA: p.userB, userB: p.userA, qA: p.qB, qB: p.qA}
				rA1, rB1, rA2, rB2 := r("a7"), r("b7"), r("a8"), r("b8")
				const k1, k2 = 40, 100
				e1 := p.expect(rA1, rB1, k1, conf)
				e2 := swapped.expect(rA2, rB2, k2, conf)
				ini1 := p.userA.NewKeyExchange(p.uidA, p.uidB, k1, conf)
				res1 := p.userB.NewKeyExchange(p.uidB, p.uidA, k1, conf)
				ini2 := p.userB.NewKeyExchange(p.uidB, p.uidA, k2, conf)
				res2 := p.userA.NewKeyExchange(p.uidA, p.uidB, k2, conf)
				in := func(b []byte) []byte {
					if !conf {
						return nil
					}
					return clone(b)
				}
				t.Guard("history/kx/interleaved", func() {
					chk := func(n string, got, want []byte, err error) {
						t.Eval(1)
						if err != nil {
							t.Fail("history/kx/interleaved/error", "%s: %v", n, err)
							return
						}
						same(t, "history/kx/interleaved/mismatch", got, want, "two sessions interleaved on the same private keys: %s", n)
					}
					ra1, err := ini1.InitKeyExchange(reader(k32(rA1)), hid)
					chk("RA#1", ra1, e1.ra, err)
					ra2, err := ini2.InitKeyExchange(reader(k32(rA2)), hid)
					chk("RA#2", ra2, e2.ra, err)
					rb2, sb2, err := res2.RespondKeyExchange(reader(k32(rB2)), hid, clone(e2.ra))
					chk("RB#2", rb2, e2.rb, err)
					chk("SB#2", sb2, e2.sb, err)
					rb1, sb1, err := res1.RespondKeyExchange(reader(k32(rB1)), hid, clone(e1.ra))
					chk("RB#1", rb1, e1.rb, err)
					chk("SB#1", sb1, e1.sb, err)
					ka1, sa1, err := ini1.ConfirmResponder(clone(e1.rb), clone(e1.sb))
					chk("SK_A#1", ka1, e1.sk, err)
					chk("SA#1", sa1, e1.sa, err)
					ka2, sa2, err := ini2.ConfirmResponder(clone(e2.rb), clone(e2.sb))
					chk("SK_A#2", ka2, e2.sk, err)
					chk("SA#2", sa2, e2.sa, err)
					kb2, err := res2.ConfirmInitiator(in(e2.sa))
					chk("SK_B#2", kb2, e2.sk, err)
					kb1, err := res1.ConfirmInitiator(in(e1.sa))
					chk("SK_B#1", kb1, e1.sk, err)
					d.add("interleaved", kb1)
				})
				t.Nontrivial("history/kx/interleaved")
			}
			d.finish(t)
		})
	}
}

// ---------------------------------------------------------------------------------------------
// lanes/

func runLanes(c *engine.Ctx) {
	ke, ks := chain("lanes/ke"), chain("lanes/ks")
	// key exchange: KDF input = IDA||IDB||RA||RB||g1||g2||g3 (1280 + len(IDA) + len(IDB) bytes): every residue mod 64 x
	// key lengths with >= 8 blocks (8, 12+1, 16+1 blocks: 8-lane rounds with 0, 4+1 and 0+1 blocks left over)
	kxLens := []int{129, 225, 385}
	if !c.Quick() {
		kxLens = []int{33, 129, 225, 260, 385, 449, 520, 800}
	}
	for lo := 0; lo < 64; lo += 4 {
		lo := lo
		c.Case(fmt.Sprintf("lanes/kx/uidA=%d..%d", lo, lo+3), func(t *engine.T) {
			d := newTranscript()
			rA, rB := chain("lanes/kx/ra"), chain("lanes/kx/rb")
			for ul := lo; ul < lo+4; ul++ {
				p := newKXPair(t, ke, 2, rawUID(ul), rawUID(3))
				if p == nil {
					return
				}
				for i, kl := range kxLens {
					kxRun(t, d, "lanes", p, 2, rA, rB, kl, (ul+i)%2 == 0)
					t.Nontrivial(fmt.Sprintf("lanes/kx/zmod64=%d/blocks=%d", (ul+3)%64, (kl+31)/32))
				}
			}
			d.finish(t)
		})
	}
	// XOR encryption: KDF input C||w||ID, key length = payload + 32
	xorLens := []int{97, 193, 353}
	if !c.Quick() {
		xorLens = []int{65, 97, 193, 225, 353, 417, 488, 768}
	}
	xor := modeByName("xor")
	for lo := 0; lo < 64; lo += 8 {
		lo := lo
		c.Case(fmt.Sprintf("lanes/enc-xor/uid=%d..%d", lo, lo+7), func(t *engine.T) {
			d := newTranscript()
			r := chain("lanes/xor/r")
			for ul := lo; ul < lo+8; ul++ {
				w := newEncWorld(t, ke, rawUID(ul), 3)
				if w == nil {
					return
				}
				b := w.base(r)
				for _, pl := range xorLens {
					encLight(t, d, "lanes", w, b, xor, nil, rawMsg(pl))
					t.Nontrivial(fmt.Sprintf("lanes/enc-xor/zmod64=%d/blocks=%d", ul%64, (pl+32+31)/32))
				}
			}
			d.finish(t)
		})
	}
	// H2(M||w): every message length 0..130 (every residue of the hash input mod 64, twice)
	for lo := 0; lo <= 130; lo += 11 {
		lo := lo
		c.Case(fmt.Sprintf("lanes/sign/msg=%d..%d", lo, lo+10), func(t *engine.T) {
			d := newTranscript()
			w := newSignWorld(t, ks, rawUID(baseUIDLen), 1)
			if w == nil {
				return
			}
			r := chain("lanes/sign/r")
			for ml := lo; ml < lo+11 && ml <= 130; ml++ {
				signLight(t, d, "lanes", w, rawMsg(ml), r)
				t.Nontrivial(fmt.Sprintf("lanes/sign/msg%%64=%d", ml%64))
			}
			d.finish(t)
		})
	}
	// H1(ID||hid) on the signature side: every uid length 0..70
	for lo := 0; lo <= 70; lo += 8 {
		lo := lo
		c.Case(fmt.Sprintf("lanes/sign/uid=%d..%d", lo, lo+7), func(t *engine.T) {
			d := newTranscript()
			r := chain("lanes/signuid/r")
			for ul := lo; ul < lo+8 && ul <= 70; ul++ {
				w := newSignWorld(t, ks, rawUID(ul), 1)
				if w == nil {
					return
				}
				signLight(t, d, "lanes", w, rawMsg(20), r)
				t.Nontrivial(fmt.Sprintf("lanes/sign/uid%%64=%d", ul%64))
			}
			d.finish(t)
		})
	}
	// sizes at the far end: long identities, long keys and payloads (many 8-lane rounds)
	c.Case("lanes/long", func(t *engine.T) {
		d := newTranscript()
		r := chain("lanes/long/r")
		for _, ul := range []int{255, 256, 1000} {
			if w := newEncWorld(t, ke, rawUID(ul), 3); w != nil {
				b := w.base(r)
				wrapLight(t, d, "lanes", w, b, 1024)
				wrapLight(t, d, "lanes", w, b, 4099)
				encLight(t, d, "lanes", w, b, xor, nil, rawMsg(2049))
			}
			if sw := newSignWorld(t, ks, rawUID(ul), 1); sw != nil {
				signLight(t, d, "lanes", sw, rawMsg(4097), r)
			}
			if p := newKXPair(t, ke, 2, rawUID(ul), rawUID(ul+1)); p != nil {
				kxRun(t, d, "lanes", p, 2, chain("lanes/long/ra"), chain("lanes/long/rb"), 1025, true)
			}
			t.Nontrivial(fmt.Sprintf("lanes/long/uid=%d", ul))
		}
		d.finish(t)
	})
	// MAC = SM3(C2||K2) and the block-mode residues: every payload length 1..N for every mode
	for _, m := range modes {
		m := m
		max := 48
		if m.name == "xor" || !c.Quick() {
			max = 130
		}
		for lo := 1; lo <= max; lo += 16 {
			lo := lo
			c.Case(fmt.Sprintf("lanes/payload/%s/len=%d..%d", m.name, lo, lo+15), func(t *engine.T) {
				d := newTranscript()
				w := newEncWorld(t, ke, rawUID(baseUIDLen), 3)
				if w == nil {
					return
				}
				b := w.base(chain("lanes/payload/r"))
				for pl := lo; pl < lo+16 && pl <= max; pl++ {
					encLight(t, d, "lanes", w, b, m, ivOf(fmt.Sprint("lanes", m.name, pl)), rawMsg(pl))
					t.Nontrivial(fmt.Sprintf("lanes/payload/%s/len=%d", m.name, pl))
				}
				d.finish(t)
			})
		}
	}
}

// ---------------------------------------------------------------------------------------------
// variant/

type blockSpec struct {
	name string
	ks   int
	lib  func(key []byte) (cipher.Block, error)
	ref  func(key []byte) cipher.Block
}

func refAES(key []byte) cipher.Block {
	b, err := aes.NewCipher(key)
	if err != nil {
		panic(err)
	}
	return b
}

var blockSpecs = []blockSpec{
	{"sm4", 16, sm4.NewCipher, func(k []byte) cipher.Block { return sm4ref.New(k) }},
	{"aes128", 16, aes.NewCipher, refAES},
	{"aes192", 24, aes.NewCipher, refAES},
	{"aes256", 32, aes.NewCipher, refAES},
}

type padSpec struct {
	name string
	lib  padding.Padding
	ref  padref.Scheme
}

func padSpecs() []padSpec {
	return []padSpec{
		{"pkcs7", padding.NewPKCS7Padding(16), padref.PKCS7},
		{"x923", padding.NewANSIX923Padding(16), padref.X923},
		{"iso9797m2", padding.NewISO9797M2Padding(16), padref.M2},
		{"iso9797m3", padding.NewISO9797M3Padding(16), padref.M3},
	}
}

func runVariants(c *engine.Ctx) {
	ke, ks := chain("variant/ke"), chain("variant/ks")
	// the exported option constructors with every block cipher / key size / padding scheme
	for _, bs := range blockSpecs {
		bs := bs
		c.Case("variant/encrypter-opts/"+bs.name, func(t *engine.T) {
			d := newTranscript()
			uid := rawUID(baseUIDLen)
			w := newEncWorld(t, ke, uid, 3)
			if w == nil {
				return
			}
			b := w.base(chain("variant/opts/r"))
			type variant struct {
				name string
				typ  int64
				opts sm9.EncrypterOpts
				c2   func(blk cipher.Block, iv, msg []byte) ([]byte, bool)
			}
			var vs []variant
			for _, ps := range padSpecs() {
				ps := ps
				vs = append(vs, variant{"ecb/" + ps.name, 1, sm9.NewECBEncrypterOpts(ps.lib, bs.lib, bs.ks), func(blk cipher.Block, iv, msg []byte) ([]byte, bool) {
					p, fits := padref.Pad(ps.ref, 16, msg)
					if !fits {
						return nil, false
					}
					out := make([]byte, len(p))
					for i := 0; i < len(p); i += 16 {
						blk.Encrypt(out[i:i+16], p[i:i+16])
					}
					return out, true
				}})
				vs = append(vs, variant{"cbc/" + ps.name, 2, sm9.NewCBCEncrypterOpts(ps.lib, bs.lib, bs.ks), func(blk cipher.Block, iv, msg []byte) ([]byte, bool) {
					p, fits := padref.Pad(ps.ref, 16, msg)
					if !fits {
						return nil, false
					}
					out := make([]byte, len(p))
					cipher.NewCBCEncrypter(blk, iv).CryptBlocks(out, p)
					return append(clone(iv), out...), true
				}})
			}
			vs = append(vs, variant{"cfb", 8, sm9.NewCFBEncrypterOpts(bs.lib, bs.ks), func(blk cipher.Block, iv, msg []byte) ([]byte, bool) {
				out := make([]byte, len(msg))
				cipher.NewCFBEncrypter(blk, iv).XORKeyStream(out, msg)
				return append(clone(iv), out...), true
			}})
			vs = append(vs, variant{"ofb", 4, sm9.NewOFBEncrypterOpts(bs.lib, bs.ks), func(blk cipher.Block, iv, msg []byte) ([]byte, bool) {
				out := make([]byte, len(msg))
				cipher.NewOFB(blk, iv).XORKeyStream(out, msg)
				return append(clone(iv), out...), true
			}})
			for _, v := range vs {
				for _, pl := range []int{1, 15, 16, 17, 40} {
					msg := rawMsg(pl)
					iv := ivOf(fmt.Sprint("variant", bs.name, v.name, pl))
					k := w.expectKey(b, bs.ks+32)
					c2, fits := v.c2(bs.ref(k[:bs.ks]), iv, msg)
					if !fits {
						continue
					}
					c3 := sm9ref.EncMAC(k[bs.ks:], c2)
					raw := append(append(clone(b.c), c3...), c2...)
					der := sm9ref.DerSeq(sm9ref.DerInt(big.NewInt(v.typ)), sm9ref.DerBits(append([]byte{4}, b.c...)), sm9ref.DerOctets(c3), sm9ref.DerOctets(c2))
					id := fmt.Sprintf("%s %s payload %d", bs.name, v.name, pl)
					rd := func() *engine.ScriptReader {
						if v.typ == 1 {
							return reader(k32(b.r))
						}
						return reader(k32(b.r), iv)
					}
					var g1, g2, p1, p2 []byte
					var e1, e2, e3, e4 error
					optsUID, _ := sm9.NewDecrypterOptsWithUID(v.opts, uid)
					if t.Guard("variant/encrypter-opts", func() {
						g1, e1 = sm9.Encrypt(rd(), w.pub, uid, 3, msg, v.opts)
						g2, e2 = sm9.EncryptASN1(rd(), w.pub, uid, 3, msg, v.opts)
						p1, e3 = sm9.Decrypt(w.user, uid, raw, v.opts)
						p2, e4 = w.user.Decrypt(nil, raw, optsUID)
					}) {
						continue
					}
					t.Eval(4)
					key := "variant/encrypter-opts/" + bs.name + "/" + v.name
					if e1 != nil || e2 != nil {
						t.Fail(key+"/encrypt-error", "%s: %v %v", id, e1, e2)
					} else {
						d.add("ct", g1)
						same(t, key+"/encrypt-mismatch", g1, raw, "%s: Encrypt vs C1||C3||C2 (KDF output %d bytes, K1 = first %d)", id, bs.ks+32, bs.ks)
						same(t, key+"/encrypt-mismatch", g2, der, "%s: EncryptASN1 vs SM9Cipher", id)
					}
					if e3 != nil || e4 != nil {
						t.Fail(key+"/decrypt-valid-rejected", "%s: reference ciphertext refused: %v %v", id, e3, e4)
					} else {
						same(t, key+"/decrypt-mismatch", p1, msg, "%s: Decrypt", id)
						same(t, key+"/decrypt-mismatch", p2, msg, "%s: priv.Decrypt(DecrypterOptsWithUID)", id)
					}
					t.Nontrivial(fmt.Sprintf("%s/len%%16=%d", key, pl%16))
				}
			}
			d.finish(t)
		})
	}
	// more hid values; nil and empty identities / messages
	for _, hid := range []byte{0, 2, 4, 0x7f, 0x80, 0xfe} {
		hid := hid
		c.Case(fmt.Sprintf("variant/hid=%d", hid), func(t *engine.T) {
			d := newTranscript()
			uid, msg := rawUID(baseUIDLen), rawMsg(basePayLen)
			r := chain("variant/hid/r")
			if sw := newSignWorld(t, ks, uid, hid); sw != nil {
				signLight(t, d, "variant", sw, msg, r)
			}
			if ew := newEncWorld(t, ke, uid, hid); ew != nil {
				b := ew.base(r)
				wrapLight(t, d, "variant", ew, b, 40)
				encLight(t, d, "variant", ew, b, modes[0], nil, msg)
				encLight(t, d, "variant", ew, b, modeByName("cfb"), ivOf("variant/hid"), msg)
			}
			if p := newKXPair(t, ke, hid, uid, rawUID(3)); p != nil {
				kxRun(t, d, "variant", p, hid, chain("variant/hid/ra"), chain("variant/hid/rb"), 33, true)
			}
			t.Nontrivial(fmt.Sprintf("variant/hid=%d", hid))
			d.finish(t)
		})
	}
	c.Case("variant/nil-and-empty-slices", func(t *engine.T) {
		d := newTranscript()
		r := chain("variant/nil/r")
		for _, uidKind := range []string{"nil", "empty"} {
			var uid []byte
			if uidKind == "empty" {
				uid = []byte{}
			}
			if sw := newSignWorld(t, ks, uid, 1); sw != nil {
				for _, m := range [][]byte{nil, {}, rawMsg(3)} {
					signLight(t, d, "variant", sw, m, r)
					_, _, der, ok := sw.expectSig([]byte{}, r)
					if ok && len(m) == 0 {
						// a signature over the empty message verifies for nil and for the empty slice
						var v1, v2 bool
						if !t.Guard("variant/nil", func() {
							v1 = sm9.VerifyASN1(sw.pub, nil, 1, nil, der)
							v2 = sm9.VerifyASN1(sw.pub, []byte{}, 1, []byte{}, der)
						}) {
							t.Eval(2)
							if !v1 || !v2 {
								t.Fail("variant/nil/verify-distinguishes-nil-from-empty", "empty uid and message: VerifyASN1(nil, nil) = %v, VerifyASN1([]byte{}, []byte{}) = %v", v1, v2)
							}
						}
					}
				}
			}
			if ew := newEncWorld(t, ke, uid, 3); ew != nil {
				b := ew.base(r)
				wrapLight(t, d, "variant", ew, b, 32)
				encLight(t, d, "variant", ew, b, modes[0], nil, rawMsg(7))
				encLight(t, d, "variant", ew, b, modeByName("ecb"), nil, rawMsg(7))
			}
			if p := newKXPair(t, ke, 2, uid, uid); p != nil {
				kxRun(t, d, "variant", p, 2, chain("variant/nil/ra"), chain("variant/nil/rb"), 16, true)
			}
			t.Nontrivial("variant/uid=" + uidKind)
		}
		d.finish(t)
	})
	// crypto.Decrypter options
	c.Case("variant/decrypter-options", func(t *engine.T) {
		d := newTranscript()
		uid, msg := rawUID(baseUIDLen), rawMsg(basePayLen)
		w := newEncWorld(t, ke, uid, 3)
		if w == nil {
			return
		}
		b := w.base(chain("variant/dopts/r"))
		for _, m := range modes {
			raw, der := w.expectCipher(b, m, ivOf("variant/dopts"+m.name), msg)
			type try struct {
				name string
				ct   []byte
				opts any
				good bool
			}
			tries := []try{
				{"asn1, opts = uid bytes", der, uid, true},
				{"asn1, DecrypterOptsWithUID without mode", der, &sm9.DecrypterOptsWithUID{UID: uid}, true},
				{"asn1, DecrypterOptsWithUID with mode", der, &sm9.DecrypterOptsWithUID{EncrypterOpts: m.opts, UID: uid}, true},
				{"raw, DecrypterOptsWithUID with mode", raw, &sm9.DecrypterOptsWithUID{EncrypterOpts: m.opts, UID: uid}, true},
				{"raw, DecrypterOptsWithUID without mode", raw, &sm9.DecrypterOptsWithUID{UID: uid}, false},
				{"asn1, nil options", der, nil, false},
				{"asn1, options of a foreign type", der, 42, false},
				{"asn1, other uid", der, rawUID(6), false},
			}
			for _, tr := range tries {
				var pt []byte
				var err error
				if t.Guard("variant/decrypter-options", func() { pt, err = w.user.Decrypt(nil, tr.ct, tr.opts) }) {
					continue
				}
				t.Eval(1)
				d.addErr(tr.name, err)
				switch {
				case tr.good && err != nil:
					t.Fail("variant/decrypter-options/valid-rejected", "mode %s, %s: %v", m.name, tr.name, err)
				case tr.good:
					same(t, "variant/decrypter-options/mismatch", pt, msg, "mode %s, %s", m.name, tr.name)
				case err == nil:
					t.Fail("variant/decrypter-options/bad-accepted", "mode %s, %s: decrypts (%d bytes)", m.name, tr.name, len(pt))
				}
			}
			t.Nontrivial("variant/decrypter-options/" + m.name)
		}
		// the method form of EncryptASN1 and nil options (= XOR) on both entry points
		{
			raw, der := w.expectCipher(b, modes[0], nil, msg)
			var g1, g2, g3 []byte
			var e1, e2, e3 error
			if !t.Guard("variant/encrypt-entry-points", func() {
				g1, e1 = w.pub.Encrypt(reader(k32(b.r)), uid, 3, msg, nil)
				g2, e2 = sm9.EncryptASN1(reader(k32(b.r)), w.pub, uid, 3, msg, nil)
				g3, e3 = w.pub.Encrypt(reader(k32(b.r)), uid, 3, msg, sm9.DefaultEncrypterOpts)
			}) {
				t.Eval(3)
				if e1 != nil || e2 != nil || e3 != nil {
					t.Fail("variant/encrypt-entry-points/error", "%v %v %v", e1, e2, e3)
				} else {
					same(t, "variant/encrypt-entry-points/mismatch", g1, der, "pub.Encrypt(opts=nil)")
					same(t, "variant/encrypt-entry-points/mismatch", g2, der, "EncryptASN1(opts=nil)")
					same(t, "variant/encrypt-entry-points/mismatch", g3, der, "pub.Encrypt(DefaultEncrypterOpts)")
				}
			}
			for _, cm := range modes[1:] {
				iv := ivOf("variant/entry" + cm.name)
				_, derM := w.expectCipher(b, cm, iv, msg)
				var g []byte
				var err error
				if !t.Guard("variant/encrypt-entry-points", func() { g, err = w.pub.Encrypt(mkReader(cm, b.r, iv), uid, 3, msg, cm.opts) }) {
					t.Eval(1)
					if err != nil {
						t.Fail("variant/encrypt-entry-points/error", "pub.Encrypt(%s): %v", cm.name, err)
					} else {
						same(t, "variant/encrypt-entry-points/mismatch", g, derM, "pub.Encrypt(%s)", cm.name)
					}
				}
			}
			_ = raw
			t.Nontrivial("variant/encrypt-entry-points")
		}
		if _, err := sm9.NewDecrypterOptsWithUID(nil, nil); err == nil {
			t.Fail("variant/decrypter-options/empty-uid-accepted", "NewDecrypterOptsWithUID accepts an empty uid (documented error)")
		}
		d.finish(t)
	})
}

// ---------------------------------------------------------------------------------------------
// shape/: leading-zero shapes of serialised elements (found by deterministic search with the library's own fast
// group operations; every expectation is then recomputed by the reference as everywhere else)

func runShapes(c *engine.Ctx) {
	ke, ks := chain("shape/ke"), chain("shape/ks")
	const maxTries = 4000
	c.Case("shape/ephemeral-point-and-mask", func(t *engine.T) {
		d := newTranscript()
		p := newKXPair(t, ke, 3, rawUID(baseUIDLen), rawUID(3))
		if p == nil {
			return
		}
		w := p.w
		qLib := hookG1(w.qRef)
		type shape struct {
			name string
			ok   func(r *big.Int) bool
		}
		cOf := func(r *big.Int) []byte {
			g, err := new(vh.G1).ScalarMult(qLib, k32(r))
			if err != nil {
				panic(err)
			}
			return g.Marshal()
		}
		for _, sh := range []shape{
			{"C.x-top-byte-zero", func(r *big.Int) bool { return cOf(r)[0] == 0 }},
			{"C.y-top-byte-zero", func(r *big.Int) bool { return cOf(r)[32] == 0 }},
			{"w-top-byte-zero", func(r *big.Int) bool { return gtExp(w.g, r)[0] == 0 }},
			{"w-last-coordinate-top-byte-zero", func(r *big.Int) bool { return gtExp(w.g, r)[352] == 0 }},
		} {
			var found *big.Int
			for i := 0; i < maxTries && found == nil; i++ {
				if r := chain(fmt.Sprintf("shape/%s/%d", sh.name, i)); sh.ok(r) {
					found = r
				}
			}
			if found == nil {
				t.Extra("shape_not_found_"+sh.name, 1)
				continue
			}
			b := w.base(found)
			wrapLight(t, d, "shape/"+sh.name, w, b, 32)
			wrapLight(t, d, "shape/"+sh.name, w, b, 100)
			for _, m := range modes {
				encLight(t, d, "shape/"+sh.name, w, b, m, ivOf("shape"+m.name), rawMsg(20))
			}
			// as the initiator's and as the responder's ephemeral key (RA = [r]Q_B is another point: both the point
			// and g^r shapes are searched for the recipient uidA, so here only g1 = g^r keeps its shape)
			kxRun(t, d, "shape/"+sh.name, p, 3, found, chain("shape/rb"), 40, true)
			kxRun(t, d, "shape/"+sh.name, p, 3, chain("shape/ra"), found, 40, true)
			t.Nontrivial("shape/" + sh.name)
		}
		d.finish(t)
	})
	c.Case("shape/signature-intermediate", func(t *engine.T) {
		d := newTranscript()
		w := newSignWorld(t, ks, rawUID(baseUIDLen), 1)
		if w == nil {
			return
		}
		msg := rawMsg(20)
		for _, sh := range []struct {
			name string
			ok   func(r *big.Int) bool
		}{
			{"w-top-byte-zero", func(r *big.Int) bool { return gtExp(w.g, r)[0] == 0 }},
			{"l-top-byte-zero", func(r *big.Int) bool {
				_, l, ok := sm9ref.SignScalars(msg, gtExp(w.g, r), r)
				return ok && l.BitLen() <= 248
			}},
		} {
			var found *big.Int
			for i := 0; i < maxTries && found == nil; i++ {
				if r := chain(fmt.Sprintf("shape/sign/%s/%d", sh.name, i)); sh.ok(r) {
					found = r
				}
			}
			if found == nil {
				t.Extra("shape_not_found_sign_"+sh.name, 1)
				continue
			}
			checkSign(t, d, w, msg, found, "shape/"+sh.name)
			t.Nontrivial("shape/sign/" + sh.name)
		}
		d.finish(t)
	})
	// keys: master scalars with one and two leading zero bytes; master public keys and user keys with a leading zero
	// byte in a coordinate
	c.Case("shape/keys", func(t *engine.T) {
		d := newTranscript()
		uid, msg := rawUID(baseUIDLen), rawMsg(20)
		r := chain("shape/keys/r")
		var scalars []struct {
			name string
			k    *big.Int
		}
		add := func(name string, k *big.Int) {
			if k != nil {
				scalars = append(scalars, struct {
					name string
					k    *big.Int
				}{name, k})
			} else {
				t.Extra("shape_not_found_"+name, 1)
			}
		}
		add("ks<2^248", new(big.Int).Rsh(chain("shape/k248"), 9))
		add("ks<2^240", new(big.Int).Rsh(chain("shape/k240"), 17))
		add("ks-top-bit-set", new(big.Int).SetBit(new(big.Int).Rsh(chain("shape/k255"), 3), 255, 1)) // 0x80.. to 0x9f.. < n
		search := func(name string, ok func(k *big.Int) bool) *big.Int {
			for i := 0; i < maxTries; i++ {
				if k := chain(fmt.Sprintf("shape/keys/%s/%d", name, i)); ok(k) {
					return k
				}
			}
			return nil
		}
		g1 := func(k *big.Int) []byte {
			g, err := new(vh.G1).ScalarBaseMult(k32(k))
			if err != nil {
				panic(err)
			}
			return g.Marshal()
		}
		g2 := func(k *big.Int) []byte {
			g, err := new(vh.G2).ScalarBaseMult(k32(k))
			if err != nil {
				panic(err)
			}
			return g.Marshal()
		}
		add("Ppub-e.x-top-byte-zero", search("ppube-x", func(k *big.Int) bool { return g1(k)[0] == 0 }))
		add("Ppub-e.y-top-byte-zero", search("ppube-y", func(k *big.Int) bool { return g1(k)[32] == 0 }))
		add("Ppub-s-first-coordinate-top-byte-zero", search("ppubs-0", func(k *big.Int) bool { return g2(k)[0] == 0 }))
		add("Ppub-s-last-coordinate-top-byte-zero", search("ppubs-3", func(k *big.Int) bool { return g2(k)[96] == 0 }))
		add("ds.x-top-byte-zero", search("ds-x", func(k *big.Int) bool {
			t2, ok := sm9ref.UserScalar(k, uid, 1)
			return ok && g1(t2)[0] == 0
		}))
		add("de-first-coordinate-top-byte-zero", search("de-0", func(k *big.Int) bool {
			t2, ok := sm9ref.UserScalar(k, uid, 3)
			return ok && g2(t2)[0] == 0
		}))
		for _, sc := range scalars {
			if sc.k.Sign() <= 0 || sc.k.Cmp(new(big.Int).Sub(nOrd, one)) >= 0 {
				continue
			}
			if sw := newSignWorld(t, sc.k, uid, 1); sw != nil {
				shapeSerial(t, d, "sign", sc.name, sm9ref.DerInt(sc.k),
					func(in []byte) ([]byte, []byte, error) {
						m, err := sm9.UnmarshalSignMasterPrivateKeyASN1(in)
						if err != nil {
							return nil, nil, err
						}
						der, err := m.MarshalASN1()
						return append(m.Bytes(), m.PublicKey().Bytes()...), der, err
					}, append(k32(sc.k), sw.ppub.MarshalUncompressed()...))
				pubUnc := sw.ppub.MarshalUncompressed()
				for _, in := range [][]byte{sm9ref.DerBits(pubUnc), sm9ref.DerBits(g2Compressed(pubUnc))} {
					shapeSerial(t, d, "sign-master-public", sc.name, in, func(in []byte) ([]byte, []byte, error) {
						p, err := sm9.UnmarshalSignMasterPublicKeyASN1(in)
						if err != nil {
							return nil, nil, err
						}
						der, err := p.MarshalASN1()
						return p.Bytes(), der, err
					}, pubUnc)
				}
				dsUnc := sw.dsRef.Uncompressed()
				for _, in := range [][]byte{sm9ref.DerBits(dsUnc), sm9ref.DerBits(sw.dsRef.Compressed())} {
					shapeSerial(t, d, "sign-private", sc.name, in, func(in []byte) ([]byte, []byte, error) {
						p, err := sm9.UnmarshalSignPrivateKeyASN1(in)
						if err != nil {
							return nil, nil, err
						}
						der, err := p.MarshalASN1()
						return p.Bytes(), der, err
					}, dsUnc)
				}
				checkSign(t, d, sw, msg, r, "shape/"+sc.name)
			}
			if ew := newEncWorld(t, sc.k, uid, 3); ew != nil {
				pubUnc := ew.ppub.Uncompressed()
				shapeSerial(t, d, "enc", sc.name, sm9ref.DerInt(sc.k),
					func(in []byte) ([]byte, []byte, error) {
						m, err := sm9.UnmarshalEncryptMasterPrivateKeyASN1(in)
						if err != nil {
							return nil, nil, err
						}
						der, err := m.MarshalASN1()
						return append(m.Bytes(), m.PublicKey().Bytes()...), der, err
					}, append(k32(sc.k), pubUnc...))
				for _, in := range [][]byte{sm9ref.DerBits(pubUnc), sm9ref.DerBits(ew.ppub.Compressed())} {
					shapeSerial(t, d, "enc-master-public", sc.name, in, func(in []byte) ([]byte, []byte, error) {
						p, err := sm9.UnmarshalEncryptMasterPublicKeyASN1(in)
						if err != nil {
							return nil, nil, err
						}
						der, err := p.MarshalASN1()
						return p.Bytes(), der, err
					}, pubUnc)
				}
				deUnc := clone(ew.user.Bytes())
				for _, in := range [][]byte{sm9ref.DerBits(deUnc), sm9ref.DerBits(g2Compressed(deUnc))} {
					shapeSerial(t, d, "enc-private", sc.name, in, func(in []byte) ([]byte, []byte, error) {
						p, err := sm9.UnmarshalEncryptPrivateKeyASN1(in)
						if err != nil {
							return nil, nil, err
						}
						der, err := p.MarshalASN1()
						return p.Bytes(), der, err
					}, deUnc)
				}
				b := ew.base(r)
				wrapLight(t, d, "shape/"+sc.name, ew, b, 40)
				encLight(t, d, "shape/"+sc.name, ew, b, modes[0], nil, msg)
				encLight(t, d, "shape/"+sc.name, ew, b, modeByName("cbc"), ivOf("shape/keys"), msg)
			}
			if p := newKXPair(t, sc.k, 2, uid, rawUID(3)); p != nil {
				kxRun(t, d, "shape/"+sc.name, p, 2, chain("shape/keys/ra"), chain("shape/keys/rb"), 24, true)
			}
			t.Nontrivial("shape/keys/" + sc.name)
		}
		d.finish(t)
	})
}

// shapeSerial: parse -> (Bytes, MarshalASN1); Bytes must be the fixed-width reference encoding, and the re-marshalled
// form must parse back to the same Bytes.
func shapeSerial(t *engine.T, d *transcript, kind, shape string, in []byte, f func(in []byte) (bytesOf, der []byte, err error), want []byte) {
	var got, der []byte
	var err error
	if t.Guard("shape/keys/"+kind, func() { got, der, err = f(in) }) {
		return
	}
	t.Eval(1)
	if err != nil {
		t.Fail("shape/keys/"+kind+"/rejected", "%s (%s): %v", kind, shape, err)
		return
	}
	same(t, "shape/keys/"+kind+"/bytes-mismatch", got, want, "%s (%s): Bytes() after parsing", kind, shape)
	var got2 []byte
	if t.Guard("shape/keys/"+kind, func() { got2, _, err = f(der) }) {
		return
	}
	t.Eval(1)
	if err != nil {
		t.Fail("shape/keys/"+kind+"/own-encoding-rejected", "%s (%s): the key's own MarshalASN1 output does not parse: %v", kind, shape, err)
		return
	}
	same(t, "shape/keys/"+kind+"/bytes-mismatch", got2, want, "%s (%s): Bytes() after MarshalASN1 and parsing again", kind, shape)
	d.add(kind, der)
}

// ---------------------------------------------------------------------------------------------
// degenerate/

func runDegenerate(c *engine.Ctx) {
	// ks = H1(ID||hid): the user's public key [H1]P + Ppub is a doubling
	c.Case("degenerate/user-public-key-is-a-doubling", func(t *engine.T) {
		d := newTranscript()
		uid, msg := rawUID(baseUIDLen), rawMsg(20)
		r := chain("degenerate/doubling/r")
		if k := sm9ref.H1ID(uid, 1); k.Cmp(new(big.Int).Sub(nOrd, one)) < 0 {
			if sw := newSignWorld(t, k, uid, 1); sw != nil {
				checkSign(t, d, sw, msg, r, "ks = H1(ID||hid)")
				t.Nontrivial("degenerate/doubling/sign")
			}
		}
		if k := sm9ref.H1ID(uid, 3); k.Cmp(new(big.Int).Sub(nOrd, one)) < 0 {
			if ew := newEncWorld(t, k, uid, 3); ew != nil {
				b := ew.base(r)
				checkWrap(t, d, ew, b, 40, "ke = H1(ID||hid)")
				checkEnc(t, d, ew, b, modes[0], nil, msg, "ke = H1(ID||hid)")
				t.Nontrivial("degenerate/doubling/enc")
			}
			// as the peer of a key exchange
			uidB := rawUID(3)
			if kb := sm9ref.H1ID(uidB, 3); kb.Cmp(new(big.Int).Sub(nOrd, one)) < 0 {
				if p := newKXPair(t, kb, 3, uid, uidB); p != nil {
					kxRun(t, d, "degenerate/doubling", p, 3, chain("degenerate/ra"), chain("degenerate/rb"), 24, true)
					t.Nontrivial("degenerate/doubling/kx")
				}
			}
		}
		d.finish(t)
	})
	// ks = n - H1(ID||hid): H1 + ks = 0, no user key exists (GM/T 0044.2 §6.1: the KGC must pick another master key)
	c.Case("degenerate/no-user-key-exists", func(t *engine.T) {
		d := newTranscript()
		uid := rawUID(baseUIDLen)
		for _, hid := range []byte{1, 3} {
			k := new(big.Int).Sub(nOrd, sm9ref.H1ID(uid, hid))
			if k.Sign() <= 0 || k.Cmp(new(big.Int).Sub(nOrd, one)) >= 0 {
				continue
			}
			var e1, e2 error
			if t.Guard("degenerate/no-user-key", func() {
				if sm, err := sm9.UnmarshalSignMasterPrivateKeyASN1(sm9ref.DerInt(k)); err == nil {
					_, e1 = sm.GenerateUserKey(uid, hid)
				} else {
					e1 = err
				}
				if em, err := sm9.UnmarshalEncryptMasterPrivateKeyASN1(sm9ref.DerInt(k)); err == nil {
					_, e2 = em.GenerateUserKey(uid, hid)
				} else {
					e2 = err
				}
			}) {
				continue
			}
			t.Eval(2)
			d.addErr("e1", e1)
			d.addErr("e2", e2)
			if e1 == nil || e2 == nil {
				t.Fail("degenerate/no-user-key/key-issued", "H1(ID||hid) + ks = 0 mod n but GenerateUserKey returned a key (sign err=%v, encrypt err=%v)", e1, e2)
			}
			// another identity under the same master key is unaffected
			if sw := newSignWorld(t, k, rawUID(6), hid); sw != nil {
				signLight(t, d, "degenerate/no-user-key", sw, rawMsg(9), chain("degenerate/nokey/r"))
			}
			t.Nontrivial(fmt.Sprintf("degenerate/no-user-key/hid=%d", hid))
		}
		d.finish(t)
	})
	// a one-byte key that comes out as 00: WrapKey must not return it (GM/T 0044.4 §5.2 A6: draw r again)
	c.Case("degenerate/wrap-all-zero-key", func(t *engine.T) {
		d := newTranscript()
		uid := rawUID(baseUIDLen)
		w := newEncWorld(t, chain("degenerate/zero/ke"), uid, 3)
		if w == nil {
			return
		}
		qLib := hookG1(w.qRef)
		var r0 *big.Int
		for i := 0; i < 6000 && r0 == nil; i++ {
			r := chain(fmt.Sprintf("degenerate/zero/%d", i))
			g, err := new(vh.G1).ScalarMult(qLib, k32(r))
			if err != nil {
				panic(err)
			}
			if sm9ref.WrapKDF(g.Marshal(), gtExp(w.g, r), uid, 1)[0] == 0 {
				r0 = r
			}
		}
		if r0 == nil {
			t.Cap("no scalar with an all-zero one-byte key among 6000")
			return
		}
		b0 := w.base(r0)
		if k := w.expectKey(b0, 1); k[0] != 0 {
			t.Fail("harness/zero-key-search", "reference disagrees with the search")
			return
		}
		r1 := findR("degenerate/zero/next", func(r *big.Int) bool { return w.expectKey(w.base(r), 1)[0] != 0 })
		b1 := w.base(r1)
		var k, cc []byte
		var err error
		if t.Guard("degenerate/wrap-zero-key", func() { k, cc, err = sm9.WrapKey(reader(k32(r0), k32(r1)), w.pub, uid, 3, 1) }) {
			return
		}
		t.Eval(1)
		if err != nil {
			t.Fail("degenerate/wrap-zero-key/error", "WrapKey(klen 1) with a first scalar whose key is 00: %v", err)
			return
		}
		d.add("k", k)
		d.add("c", cc)
		switch {
		case len(k) == 1 && k[0] == 0:
			t.Fail("degenerate/wrap-zero-key/all-zero-key-returned", "WrapKey returned the all-zero key of the first scalar instead of drawing again")
		case bytes.Equal(k, w.expectKey(b1, 1)) && bytes.Equal(cc, append([]byte{4}, b1.c...)):
			d.addBool("next-scalar-used", true)
			t.Extra("wrap_zero_key_next_scalar_used", 1)
		default:
			// whatever was drawn: the pair must be consistent (the recipient derives the same key)
			uk, err := sm9.UnwrapKey(w.user, uid, cc, 1)
			t.Eval(1)
			if err != nil || !bytes.Equal(uk, k) {
				t.Fail("degenerate/wrap-zero-key/inconsistent-after-retry", "after the retry WrapKey returned (K=%x, C=%s) but UnwrapKey(C) = %x, %v", k, hx(cc), uk, err)
			}
		}
		// the recipient side: the cipher of the first scalar gives the all-zero key; error, or that key
		var uk []byte
		if !t.Guard("degenerate/wrap-zero-key", func() { uk, err = sm9.UnwrapKey(w.user, uid, append([]byte{4}, b0.c...), 1) }) {
			t.Eval(1)
			d.addErr("unwrap0", err)
			if err == nil && !bytes.Equal(uk, []byte{0}) {
				t.Fail("degenerate/wrap-zero-key/unwrap-mismatch", "UnwrapKey of the cipher whose key is 00 returned %x", uk)
			}
		}
		t.Nontrivial("degenerate/wrap-zero-key")
		d.finish(t)
	})
	// random blocks outside [1, n-1] are never used as the ephemeral scalar: whatever the library draws afterwards, the
	// artefact must be valid for the recipient; (observed: the next acceptable block is used)
	c.Case("degenerate/random-blocks-out-of-range", func(t *engine.T) {
		d := newTranscript()
		uid, msg := rawUID(baseUIDLen), rawMsg(20)
		good := chain("degenerate/reject/r")
		bads := [][]byte{make([]byte, 32), k32(nOrd), k32(new(big.Int).Add(nOrd, one)), bytes.Repeat([]byte{0xff}, 32)}
		names := []string{"0", "n", "n+1", "2^256-1"}
		sw := newSignWorld(t, chain("degenerate/reject/ks"), uid, 1)
		p := newKXPair(t, chain("degenerate/reject/ke"), 3, uid, rawUID(3))
		if sw == nil || p == nil {
			return
		}
		ew := p.w
		for i, bad := range bads {
			_, _, der, ok := sw.expectSig(msg, good)
			var sig []byte
			var err error
			if ok && !t.Guard("degenerate/reject", func() { sig, err = sm9.SignASN1(reader(bad, k32(good)), sw.user, msg) }) {
				t.Eval(1)
				if err != nil {
					t.Fail("degenerate/reject/sign-error", "first block %s: %v", names[i], err)
				} else {
					d.add("sig", sig)
					if bytes.Equal(sig, der) {
						t.Extra("rejected_random_block_next_block_used", 1)
					}
					if !sm9.VerifyASN1(sw.pub, uid, 1, msg, sig) {
						t.Fail("degenerate/reject/signature-invalid", "first random block %s: the signature produced does not verify", names[i])
					}
				}
			}
			var k, cc []byte
			if !t.Guard("degenerate/reject", func() { k, cc, err = sm9.WrapKey(reader(bad, k32(good)), ew.pub, uid, 3, 32) }) {
				t.Eval(1)
				if err != nil {
					t.Fail("degenerate/reject/wrap-error", "first block %s: %v", names[i], err)
				} else {
					d.add("k", k)
					b := ew.base(good)
					if bytes.Equal(k, ew.expectKey(b, 32)) && bytes.Equal(cc[1:], b.c) {
						t.Extra("rejected_random_block_next_block_used", 1)
					}
					uk, err := sm9.UnwrapKey(ew.user, uid, cc, 32)
					if err != nil || !bytes.Equal(uk, k) {
						t.Fail("degenerate/reject/wrap-inconsistent", "first random block %s: UnwrapKey of the cipher produced = %x, %v; WrapKey returned %x", names[i], uk, err, k)
					}
				}
			}
			// key exchange: both ephemeral keys drawn after a rejected block
			ini := p.userA.NewKeyExchange(p.uidA, p.uidB, 16, true)
			res := p.userB.NewKeyExchange(p.uidB, p.uidA, 16, true)
			t.Guard("degenerate/reject", func() {
				ra, err := ini.InitKeyExchange(reader(bad, k32(good)), 3)
				if err != nil {
					t.Fail("degenerate/reject/kx-error", "first block %s: InitKeyExchange: %v", names[i], err)
					return
				}
				rb, sb, err := res.RespondKeyExchange(reader(bad, k32(chain("degenerate/reject/rb"))), 3, ra)
				if err != nil {
					t.Fail("degenerate/reject/kx-error", "first block %s: RespondKeyExchange: %v", names[i], err)
					return
				}
				ka, sa, err := ini.ConfirmResponder(rb, sb)
				if err != nil {
					t.Fail("degenerate/reject/kx-inconsistent", "first block %s: ConfirmResponder: %v", names[i], err)
					return
				}
				kb, err := res.ConfirmInitiator(sa)
				t.Eval(4)
				if err != nil || !bytes.Equal(ka, kb) {
					t.Fail("degenerate/reject/kx-inconsistent", "first block %s: keys differ (%x / %x, %v)", names[i], ka, kb, err)
					return
				}
				d.add("sk", ka)
				e := p.expect(good, chain("degenerate/reject/rb"), 16, true)
				if bytes.Equal(ka, e.sk) {
					t.Extra("rejected_random_block_next_block_used", 1)
				}
			})
			t.Nontrivial("degenerate/reject/" + names[i])
		}
		d.finish(t)
	})
}
