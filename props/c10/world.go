package c10

import (
	"crypto/cipher"
	"fmt"
	"math/big"

	"github.com/emmansun/gmsm/sm9"
	vh "github.com/emmansun/gmsm/verifhook"

	"verif/engine"
	"verif/ref/ecref"
	"verif/ref/sm4ref"
	"verif/ref/sm9ref"
)

func encPt(p ecref.Point) []byte {
	if p.Inf {
		return make([]byte, 64)
	}
	return append(ecref.Bytes32(p.X), ecref.Bytes32(p.Y)...)
}

func hookG1(p ecref.Point) *vh.G1 {
	g := new(vh.G1)
	if _, err := g.Unmarshal(encPt(p)); err != nil {
		panic(fmt.Sprintf("verifhook G1.Unmarshal of a reference point: %v", err))
	}
	return g
}

func gtExp(g *vh.GT, k *big.Int) []byte { return new(vh.GT).ScalarMult(g, k).Marshal() }

// ---------------------------------------------------------------------------------------------
// signature system

type signWorld struct {
	ks     *big.Int
	uid    []byte
	hid    byte
	master *sm9.SignMasterPrivateKey
	pub    *sm9.SignMasterPublicKey
	user   *sm9.SignPrivateKey
	ppub   *vh.G2
	g      *vh.GT // e(P1, Ppub-s)
	h1, t2 *big.Int
	dsRef  ecref.Point
}

// newSignMaster builds the master key pair for ks through the ASN.1 entry point and checks it.
func newSignMaster(t *engine.T, ks *big.Int) (*sm9.SignMasterPrivateKey, *vh.G2) {
	var master *sm9.SignMasterPrivateKey
	var err error
	if t.Guard("keygen/sign-master", func() { master, err = sm9.UnmarshalSignMasterPrivateKeyASN1(sm9ref.DerInt(ks)) }) {
		return nil, nil
	}
	if err != nil {
		t.Fail("keygen/sign-master/rejected", "UnmarshalSignMasterPrivateKeyASN1(INTEGER %x): %v", ks, err)
		return nil, nil
	}
	ppub, err := new(vh.G2).ScalarBaseMult(k32(ks))
	if err != nil {
		panic(err)
	}
	eq(t, "keygen/sign-master/private-bytes", master.Bytes(), k32(ks), "SignMasterPrivateKey.Bytes ks=%x", ks)
	eq(t, "keygen/sign-master/public-mismatch", master.PublicKey().Bytes(), ppub.MarshalUncompressed(), "Ppub-s for ks=%x", ks)
	return master, ppub
}

func newSignWorld(t *engine.T, ks *big.Int, uid []byte, hid byte) *signWorld {
	w := &signWorld{ks: ks, uid: uid, hid: hid}
	w.master, w.ppub = newSignMaster(t, ks)
	if w.master == nil {
		return nil
	}
	w.pub = w.master.PublicKey()
	w.g = vh.Pair(vh.Gen1, w.ppub)
	w.h1 = sm9ref.H1ID(uid, hid)
	t2, ok := sm9ref.UserScalar(ks, uid, hid)
	var err error
	if t.Guard("keygen/sign-user", func() { w.user, err = w.master.GenerateUserKey(uid, hid) }) {
		return nil
	}
	if !ok {
		if err == nil {
			t.Fail("keygen/sign-user/degenerate-accepted", "H1+ks = 0 mod n but GenerateUserKey succeeded")
		}
		return nil
	}
	if err != nil {
		t.Fail("keygen/sign-user/error", "GenerateUserKey(uid %d bytes, hid %d): %v", len(uid), hid, err)
		return nil
	}
	w.t2 = t2
	w.dsRef = curve.BaseMul(t2)
	if !eq(t, "keygen/sign-user/key-mismatch", w.user.Bytes(), w.dsRef.Uncompressed(), "ds for ks=%x uid=%d bytes hid=%d", ks, len(uid), hid) {
		return nil
	}
	return w
}

// expectSig recomputes (h, S) and the DER signature for message msg and ephemeral scalar r.
func (w *signWorld) expectSig(msg []byte, r *big.Int) (h *big.Int, s []byte, der []byte, ok bool) {
	wEnc := gtExp(w.g, r)
	h, l, ok := sm9ref.SignScalars(msg, wEnc, r)
	if !ok {
		return nil, nil, nil, false
	}
	S := curve.Mul(l, w.dsRef)
	s = S.Uncompressed()
	der = sm9ref.DerSeq(sm9ref.DerOctets(sm9ref.Bytes32(h)), sm9ref.DerBits(s))
	return h, s, der, true
}

// verifyByEquation re-verifies (h, S) by GM/T 0044.2 §7.2 using only the pairing through verifhook:
// P = [h1]P2 + Ppub-s, u = e(S, P), w' = u * g^h, accept iff H2(M||w') = h.
func (w *signWorld) verifyByEquation(msg []byte, h *big.Int, s []byte) bool {
	S := new(vh.G1)
	if len(s) != 65 || s[0] != 4 {
		return false
	}
	if _, err := S.Unmarshal(s[1:]); err != nil {
		return false
	}
	if h.Sign() <= 0 || h.Cmp(nOrd) >= 0 {
		return false
	}
	P, err := new(vh.G2).ScalarBaseMult(k32(w.h1))
	if err != nil {
		return false
	}
	P.Add(P, w.ppub)
	u := vh.Pair(S, P)
	wp := new(vh.GT).Add(u, new(vh.GT).ScalarMult(w.g, h)).Marshal()
	h2 := sm9ref.H2(append(append([]byte{}, msg...), wp...))
	return h2.Cmp(h) == 0
}

// ---------------------------------------------------------------------------------------------
// encryption system

type encWorld struct {
	ke     *big.Int
	uid    []byte
	hid    byte
	master *sm9.EncryptMasterPrivateKey
	pub    *sm9.EncryptMasterPublicKey
	user   *sm9.EncryptPrivateKey
	ppub   ecref.Point
	qRef   ecref.Point // Q_B = [H1(ID||hid)]P1 + Ppub-e
	g      *vh.GT      // e(Ppub-e, P2)
	h1, t2 *big.Int
}

func newEncMaster(t *engine.T, ke *big.Int) (*sm9.EncryptMasterPrivateKey, ecref.Point) {
	var master *sm9.EncryptMasterPrivateKey
	var err error
	if t.Guard("keygen/enc-master", func() { master, err = sm9.UnmarshalEncryptMasterPrivateKeyASN1(sm9ref.DerInt(ke)) }) {
		return nil, ecref.Point{}
	}
	if err != nil {
		t.Fail("keygen/enc-master/rejected", "UnmarshalEncryptMasterPrivateKeyASN1(INTEGER %x): %v", ke, err)
		return nil, ecref.Point{}
	}
	ppub := curve.BaseMul(ke)
	eq(t, "keygen/enc-master/private-bytes", master.Bytes(), k32(ke), "EncryptMasterPrivateKey.Bytes ke=%x", ke)
	if !eq(t, "keygen/enc-master/public-mismatch", master.PublicKey().Bytes(), ppub.Uncompressed(), "Ppub-e for ke=%x", ke) {
		return nil, ecref.Point{}
	}
	return master, ppub
}

// userFor derives the user key of uid under an existing master and checks it.
func (w *encWorld) userFor(t *engine.T, uid []byte) (*sm9.EncryptPrivateKey, ecref.Point, bool) {
	var user *sm9.EncryptPrivateKey
	var err error
	if t.Guard("keygen/enc-user", func() { user, err = w.master.GenerateUserKey(uid, w.hid) }) {
		return nil, ecref.Point{}, false
	}
	t2, ok := sm9ref.UserScalar(w.ke, uid, w.hid)
	if !ok {
		if err == nil {
			t.Fail("keygen/enc-user/degenerate-accepted", "H1+ke = 0 mod n but GenerateUserKey succeeded")
		}
		return nil, ecref.Point{}, false
	}
	if err != nil {
		t.Fail("keygen/enc-user/error", "GenerateUserKey(uid %d bytes, hid %d): %v", len(uid), w.hid, err)
		return nil, ecref.Point{}, false
	}
	de, err := new(vh.G2).ScalarBaseMult(k32(t2))
	if err != nil {
		panic(err)
	}
	if !eq(t, "keygen/enc-user/key-mismatch", user.Bytes(), de.MarshalUncompressed(), "de for ke=%x uid=%d bytes hid=%d", w.ke, len(uid), w.hid) {
		return nil, ecref.Point{}, false
	}
	q := curve.Add(curve.BaseMul(sm9ref.H1ID(uid, w.hid)), w.ppub)
	return user, q, true
}

func newEncWorld(t *engine.T, ke *big.Int, uid []byte, hid byte) *encWorld {
	w := &encWorld{ke: ke, uid: uid, hid: hid}
	w.master, w.ppub = newEncMaster(t, ke)
	if w.master == nil {
		return nil
	}
	w.pub = w.master.PublicKey()
	w.g = vh.Pair(hookG1(w.ppub), vh.Gen2)
	var ok bool
	w.user, w.qRef, ok = w.userFor(t, uid)
	if !ok {
		return nil
	}
	w.h1 = sm9ref.H1ID(uid, hid)
	w.t2, _ = sm9ref.UserScalar(ke, uid, hid)
	return w
}

// wrapBase holds C = [r]Q_B (x||y) and the serialised w = g^r.
type wrapBase struct {
	r    *big.Int
	c, w []byte
}

func (w *encWorld) base(r *big.Int) *wrapBase {
	return &wrapBase{r: r, c: encPt(curve.Mul(r, w.qRef)), w: gtExp(w.g, r)}
}

func (w *encWorld) expectKey(b *wrapBase, klen int) []byte {
	return sm9ref.WrapKDF(b.c, b.w, w.uid, klen)
}

// ---------------------------------------------------------------------------------------------
// encryption modes

type modeSpec struct {
	name  string
	typ   int64
	opts  sm9.EncrypterOpts
	ivLen int
	block bool // fixed 16-byte K1
	c2    func(k1, iv, msg []byte) []byte
}

func pkcs7(msg []byte) []byte {
	n := 16 - len(msg)%16
	out := append([]byte{}, msg...)
	for i := 0; i < n; i++ {
		out = append(out, byte(n))
	}
	return out
}

var modes = []modeSpec{
	{name: "xor", typ: 0, opts: sm9.DefaultEncrypterOpts, c2: func(k1, iv, msg []byte) []byte {
		out := make([]byte, len(msg))
		for i := range msg {
			out[i] = msg[i] ^ k1[i]
		}
		return out
	}},
	{name: "ecb", typ: 1, opts: sm9.SM4ECBEncrypterOpts, block: true, c2: func(k1, iv, msg []byte) []byte {
		b := sm4ref.New(k1)
		p := pkcs7(msg)
		out := make([]byte, len(p))
		for i := 0; i < len(p); i += 16 {
			b.Encrypt(out[i:i+16], p[i:i+16])
		}
		return out
	}},
	{name: "cbc", typ: 2, opts: sm9.SM4CBCEncrypterOpts, ivLen: 16, block: true, c2: func(k1, iv, msg []byte) []byte {
		p := pkcs7(msg)
		out := make([]byte, len(p))
		cipher.NewCBCEncrypter(sm4ref.New(k1), iv).CryptBlocks(out, p)
		return append(append([]byte{}, iv...), out...)
	}},
	{name: "cfb", typ: 8, opts: sm9.SM4CFBEncrypterOpts, ivLen: 16, block: true, c2: func(k1, iv, msg []byte) []byte {
		out := make([]byte, len(msg))
		cipher.NewCFBEncrypter(sm4ref.New(k1), iv).XORKeyStream(out, msg)
		return append(append([]byte{}, iv...), out...)
	}},
	{name: "ofb", typ: 4, opts: sm9.SM4OFBEncrypterOpts, ivLen: 16, block: true, c2: func(k1, iv, msg []byte) []byte {
		out := make([]byte, len(msg))
		cipher.NewOFB(sm4ref.New(k1), iv).XORKeyStream(out, msg)
		return append(append([]byte{}, iv...), out...)
	}},
}

func modeByName(n string) modeSpec {
	for _, m := range modes {
		if m.name == n {
			return m
		}
	}
	panic(n)
}

func ivOf(label string) []byte {
	return sm9ref.Bytes32(chain("iv/" + label))[:16]
}

// expectCipher recomputes C1||C3||C2 and the SM9Cipher DER encoding.
func (w *encWorld) expectCipher(b *wrapBase, m modeSpec, iv, msg []byte) (raw, der []byte) {
	k1len := len(msg)
	if m.block {
		k1len = 16
	}
	k := w.expectKey(b, k1len+32)
	c2 := m.c2(k[:k1len], iv, msg)
	c3 := sm9ref.EncMAC(k[k1len:], c2)
	raw = append(append(append([]byte{}, b.c...), c3...), c2...)
	der = sm9ref.DerSeq(sm9ref.DerInt(big.NewInt(m.typ)), sm9ref.DerBits(append([]byte{4}, b.c...)), sm9ref.DerOctets(c3), sm9ref.DerOctets(c2))
	return raw, der
}

func reader(blocks ...[]byte) *engine.ScriptReader { return engine.NewScriptReader(blocks...) }
