package c11

// Constructor arguments belong to the caller: after zuc.NewCipher* / NewHash* returned, the caller overwrites its key
// and IV slices; the object must keep working with the values it was given (also after a rewind to an earlier
// offset, which re-derives state), and the constructors must not modify their arguments.

import (
	"bytes"
	"fmt"

	"github.com/emmansun/gmsm/zuc"

	"verif/engine"
	"verif/ref/zucref"
)

func runCtorAliasing(c *engine.Ctx) {
	c.Case("ctor-arguments/stream+mac", func(t *engine.T) {
		for _, v := range []struct {
			name   string
			kl, il int
		}{{"zuc128", 16, 16}, {"zuc256", 32, 23}} {
			for _, bucket := range []int{0, 128, 256} {
				key, iv := append([]byte{}, engine.Pattern(3, v.kl)...), append([]byte{}, engine.Pattern(4, v.il)...)
				k0, iv0 := append([]byte{}, key...), append([]byte{}, iv...)
				what := fmt.Sprintf("%s bucket=%d", v.name, bucket)
				var ci interface {
					XORKeyStream(dst, src []byte)
					XORKeyStreamAt(dst, src []byte, offset uint64)
				}
				var err error
				if t.Guard("ctor-arguments/stream", func() {
					if bucket == 0 {
						ci, err = zuc.NewCipher(key, iv)
					} else {
						ci, err = zuc.NewCipherWithBucketSize(key, iv, bucket)
					}
				}) {
					continue
				}
				if err != nil {
					t.Fail("ctor-arguments/stream/constructor-error", "%s: %v", what, err)
					continue
				}
				if !bytes.Equal(key, k0) || !bytes.Equal(iv, iv0) {
					t.Fail("ctor-arguments/stream/constructor-modifies-argument", "%s: key %x->%x iv %x->%x", what, k0, key, iv0, iv)
				}
				for i := range key {
					key[i] = 0xA5
				}
				for i := range iv {
					iv[i] = 0x1C
				}
				ks := zucref.KeyStream(k0, iv0, 1000)
				zero := make([]byte, 1000)
				out := make([]byte, 700)
				t.Guard("ctor-arguments/stream", func() {
					ci.XORKeyStream(out[:300], zero[:300])
					ci.XORKeyStream(out[300:700], zero[300:700])
				})
				t.Eval(1)
				if !bytes.Equal(out, ks[:700]) {
					t.Fail("ctor-arguments/stream/object-depends-on-callers-slices", "%s: sequential keystream differs at byte %d after the caller overwrote key/iv", what, engine.FirstDiff(out, ks[:700]))
				}
				back := make([]byte, 200)
				t.Guard("ctor-arguments/stream", func() { ci.XORKeyStreamAt(back, zero[:200], 5) }) // rewind: re-derives from the start
				if !bytes.Equal(back, ks[5:205]) {
					t.Fail("ctor-arguments/stream/rewind-depends-on-callers-slices", "%s: XORKeyStreamAt(5) after the caller overwrote key/iv differs at byte %d", what, engine.FirstDiff(back, ks[5:205]))
				}
				t.Nontrivial("ctor-arguments/" + what)
			}
		}
		// MACs: Write, Sum, Reset (re-initialises from the stored key/iv), Write, Sum
		for _, tag := range []int{0, 4, 8, 16} { // 0 = 128-EIA3
			kl, il := 32, 23
			if tag == 0 {
				kl, il = 16, 16
			}
			key, iv := append([]byte{}, engine.Pattern(5, kl)...), append([]byte{}, engine.Pattern(6, il)...)
			k0, iv0 := append([]byte{}, key...), append([]byte{}, iv...)
			what := fmt.Sprintf("mac tag=%d", tag)
			var h interface {
				Write([]byte) (int, error)
				Sum([]byte) []byte
				Reset()
			}
			var err error
			if t.Guard("ctor-arguments/mac", func() {
				if tag == 0 {
					h, err = zuc.NewHash(key, iv)
				} else {
					h, err = zuc.NewHash256(key, iv, tag)
				}
			}) || err != nil {
				if err != nil {
					t.Fail("ctor-arguments/mac/constructor-error", "%s: %v", what, err)
				}
				continue
			}
			if !bytes.Equal(key, k0) || !bytes.Equal(iv, iv0) {
				t.Fail("ctor-arguments/mac/constructor-modifies-argument", "%s", what)
			}
			for i := range key {
				key[i] = 0x77
			}
			for i := range iv {
				iv[i] = 0x2D
			}
			m := engine.Pattern(3, 16) // 128 bits: outside the recorded known finding's tail class
			ref := func() []byte {
				if tag == 0 {
					return zucref.EIA3(k0, iv0, m, 128)
				}
				return zucref.MAC256(k0, iv0, tag, m, 128)
			}
			for round := 0; round < 2; round++ {
				var got []byte
				t.Guard("ctor-arguments/mac", func() { h.Write(m); got = h.Sum(nil); h.Reset() })
				t.Eval(1)
				if !bytes.Equal(got, ref()) {
					t.Fail("ctor-arguments/mac/object-depends-on-callers-slices", "%s round %d (round 1 follows a Reset): got %x want %x", what, round, got, ref())
				}
			}
			t.Nontrivial("ctor-arguments/" + what)
		}
		t.Outcome("ctor-arguments")
	})
}
