// Package c11: ZUC-128 / ZUC-256 seekable stream cipher histories (E1) and 128-EIA3 / ZUC-256 MAC bit
// lengths, write partitions and call histories (E2 + E1) on every reachable dispatch tier, against the
// bitwise reference verif/ref/zucref.
package c11

import (
	"bytes"
	"crypto/sha256"
	"fmt"
	"sort"

	gmcipher "github.com/emmansun/gmsm/cipher"
	"github.com/emmansun/gmsm/zuc"

	"verif/engine"
	"verif/ref/zucref"
)

type Prop struct{}

func (Prop) ID() string    { return "C11" }
func (Prop) Level() string { return "model_checking" }
func (Prop) Configs(tier string) []string {
	// ZUC dispatch: supportsAES (asm keystream) x useAVX (AVX / SSE bodies) x supportsGFMUL (CLMUL EIA rounds), purego tag.
	return []string{"c-default", "c-nopclmul", "c-noaes", "c-sse", "c-noavx2", "c-purego", "c-avxoff"}
}
func (Prop) SelfTest() error {
	if err := zucref.SelfTest(); err != nil {
		return err
	}
	return selfCheckDump()
}

func (Prop) Rule() string {
	return "E1 stream: engine.BFS over histories of {XORKeyStream(l), XORKeyStreamAt(off,l)} on real objects from zuc.NewCipher / NewCipherWithBucketSize " +
		"for ZUC-128 and ZUC-256 x bucket sizes {0,1,128,129,256,384}; quick: l in {1,4,127,128,129,257}, off in {0,1,127,128,129,256,385,1000} (54 ops) to depth 3; " +
		"thorough: l in {0,1,3,4,5,127,128,129,255,256,257}, off in {0,1,3,4,127,128,129,255,256,257,383,384,385,511,512,1000} (187 ops) to depth " + fmt.Sprint(thoroughBigDepth) + " and the quick alphabet to depth " + fmt.Sprint(thoroughSmallDepth) + ". " +
		"Each output is compared with src XOR reference keystream at the absolute positions (XORKeyStreamAt moves the sequential position to off+l, as the seek documentation says); " +
		"the buffer mode of an operation rotates with (depth + operation index) mod 3 over {disjoint dst, in place, dst longer than src (tail must stay untouched)}, buffers end at a guard page; " +
		"states are merged only on an identical SHA-256 of the reflect/unsafe dump of the whole cipher object " +
		"(LFSR/FSM, partial-round buffer incl. stale bytes, position, checkpoint list, stateIndex, bucket size) + model position. " +
		"Long histories: engine.Deviations with default XORKeyStream(1) resp. XORKeyStream(129) to horizon 8 with <= 1 (thorough 2) departures over the 54 operations; thorough also Write(16) x 8 with <= 2 departures on the MACs. " +
		"E2 stream: every length 0..N followed by a second call and a backward seek, and every offset 0..N on a fresh object followed by a sequential call and a backward seek, in all three buffer modes, N=600 (thorough 1300), bucket sizes 0/128/256 and both constructors, plus the EEA3 constructors for all bearers/directions. " +
		"MAC E2: every bit length 0..640 (thorough 0..2100) through Finish(p,nbits) on a fresh and on a reused object, bits after nbits set to 1 resp. 0, p ending at a guard page, " +
		"for 128-EIA3 and ZUC-256 MAC with 4/8/16-byte tags x 2 keys x 3 message patterns; every 2-partition of every byte length 0..80 (thorough 0..200) through Write/Write/Sum. " +
		"MAC E1: engine.BFS over {Write(c) for 20 chunk sizes around the 16-byte block, Reset, Finish(b bits) for 14 values of b} with Sum(nil)/Sum(prefix) compared with the reference after every step, " +
		"Sum must leave the reflect dump unchanged, depth 3 (thorough 4); reuse after Finish/Reset is checked by continuing the history against a model restarted from zero. " +
		"distinct_nontrivial counts distinct reached object states plus distinct (variant, bit length mod 128, pattern) and (length, offset) classes. " +
		"Widened input dimensions (widen.go, case names widen/...): " +
		"bucket sizes {-1, MinInt, 2, 127, 255, 257, 383, 385, 500, 512, 513, 1000, 1024, 2^20, MaxInt-127, MaxInt-126, MaxInt} (BFS over the 54 operations to depth 2, thorough 3, plus XORKeyStream(129) x 8 with one departure); " +
		"caller-memory layouts of dst/src {src||dst, dst||src, dst covering src, dirty spare capacity behind both, in place with spare capacity, in place with a longer dst, nil / exact capacity} as part of the operation alphabet (BFS depth 2, thorough: all 54 operations x 7 layouts to depth 3), the whole memory image of the caller's arrays is compared: only dst[:len(src)] may change; " +
		"empty and nil calls (l=0 as nil/nil, empty/empty, empty src with a 9-byte dst; XORKeyStreamAt with l=0 is a pure seek) to depth 3 (thorough 4); " +
		"far positions: every ordered pair of offsets from {8191,8192,8193,65535,65536,65537,2^20-1,2^20,2^20+1} in an 8-call history forwards and backwards, bucket sizes {0,128,200,4096,65536,2^20} (checkpoint lists up to 8193 entries); " +
		"key/IV values: 7 uniform patterns, every single byte 0xff in zeros and 0x00 in ones, single-bit walks (quick: key[31] and iv[17..22] of ZUC-256; thorough: every bit) for the stream and all four MACs; " +
		"constructor arguments: EEA3/EIA3 constructors, one slice pair handed to three constructors in turn with the objects then used alternately, key||iv / iv||key / overlapping records with dirty slack, every key and IV length 0..40 (nil included) and every tag size -17..65 (sizes without a ZUC variant must be rejected, no panic, the standard sizes keep working in between); " +
		"EEA3/EIA3 fields: 13 COUNT values x 32 bearers x 2 directions, EEA3 bucket sizes {none,0,1,129,1024} with three backward seeks; " +
		"MAC buffers: Sum(in) with len(in) in {0,1,5} x spare capacity {0,1,tag-1,tag,tag+1,tag+40} filled with dirty bytes, every returned tag overwritten by the harness (Sum/Sum, Sum/Finish, Finish/Finish must not share memory with each other or the object), " +
		"Finish(p,nbits) with p exact / longer than ceil(nbits/8) / dirty capacity behind / nil, p unchanged, Write(nil)/Write(empty), messages at 17 start offsets inside a dirty record; " +
		"MAC pairs: every ordered pair of bit lengths 0..264 (thorough 0..520) through Finish and of byte lengths 0..48 (thorough 0..100) through Write/Sum/Reset on one object, the two messages with different contents; " +
		"alternation: 16 kinds of objects (streams and MACs, two keys / IVs each) x 16 kinds x 4 x 4 operations interleaved in one process; " +
		"message byte values: every value 0..255 of one byte at every position of a 16-byte (thorough 32-byte) otherwise zero message, all four MACs."
}

func (Prop) Assumptions() []string {
	return []string{
		"reference ZUC-128/ZUC-256/128-EIA3/ZUC-256-MAC written from the specifications, bit by bit, anchored by the ZUC, EEA3/EIA3 and ZUC-256 official vectors; S-boxes, the d constants and the ZUC-256 loading layout were copied once from the standard tables",
		"the quantifier over keys is not enumerated: one fixed key/IV pattern per variant for the stream searches and the MAC histories, two (a mixed pattern and all-0xff) for the MAC bit-length sweeps; the control flow of the implementation does not depend on key material",
		"the buffer mode (disjoint / in place / longer dst) is rotated along the histories, not multiplied with them; the E2 sweeps run all three modes",
		"a wrong tag does not corrupt the MAC object (Sum works on a copy, Finish resets), so the MAC searches continue past tag mismatches and report them once per finding key and case",
		"positions explored by the searches and sweeps stay below 4 KiB (far-offset histories of widen.go: below 2^20+4096); offsets >= 2^31 (int conversions of the 64-bit position) and streams long enough to wrap counters are not explored",
		"dispatch tiers are those reachable on this amd64 host via GODEBUG=cpu.*=off and -tags purego; arm64 and ppc64 assembly is not covered",
		"calls that violate a documented precondition answered by a panic (dst shorter than src, inexact overlap, Finish with len(p) < ceil(nbits/8), negative nbits) are not enumerated, nor is the state of an object after such a panic",
		"offsets that need more than a few MiB of discarded keystream (2^31, 2^32, 2^64-1) are not explored because ZUC has no random access and the bitwise reference would have to produce the whole prefix",
		"EEA3/EIA3 constructors: bearer >= 32 and direction >= 2 are outside the 5-bit / 1-bit fields of the standard and are not enumerated",
		"constructor sizes: a key/IV size pair for which no ZUC variant exists must be rejected (the constructors document an error); 32-byte key with 25-byte IV (unpacked ZUC-256 IV of other library versions) and size pairs of the other variant are not judged",
		"writes of Sum(in) into the spare capacity of in beyond the appended tag are not judged (append-like use of spare capacity); judged are in[:len(in)], the returned slice and the independence of the result from the bytes in the spare capacity",
		"thorough tier: the 187-operation alphabet is explored to depth " + fmt.Sprint(thoroughBigDepth) + " and the 54-operation alphabet to depth " + fmt.Sprint(thoroughSmallDepth) + " (see Rule); deeper histories are not explored",
	}
}

// ---------------------------------------------------------------------------------------------
// deterministic material

func content(pos int) byte { return byte(pos*7+3) ^ byte(pos>>8) ^ byte(pos>>5) }

func keyOf(n, which int) []byte {
	b := make([]byte, n)
	for i := range b {
		if which == 0 {
			b[i] = byte(i*17+1) ^ byte(n)
		} else {
			b[i] = 0xff
		}
	}
	return b
}

type variant struct {
	name   string
	keyLen int
	ivLen  int
}

var variants = []variant{{"zuc128", 16, 16}, {"zuc256", 32, 23}}

const maxPos = 4096

// per-process cache: exp[v][i] = content(i) ^ reference keystream byte i
var expCache = map[string][]byte{}

func expected(v variant) []byte {
	if e, ok := expCache[v.name]; ok {
		return e
	}
	ks := zucref.KeyStream(keyOf(v.keyLen, 0), keyOf(v.ivLen, 0), maxPos)
	e := make([]byte, maxPos)
	for i := range e {
		e[i] = content(i) ^ ks[i]
	}
	expCache[v.name] = e
	return e
}

// ---------------------------------------------------------------------------------------------
// E1 on the seekable stream

var (
	quickLens    = []int{1, 4, 127, 128, 129, 257}
	quickOffs    = []int{0, 1, 127, 128, 129, 256, 385, 1000}
	thoroughLens = []int{0, 1, 3, 4, 5, 127, 128, 129, 255, 256, 257}
	thoroughOffs = []int{0, 1, 3, 4, 127, 128, 129, 255, 256, 257, 383, 384, 385, 511, 512, 1000}
	buckets      = []int{0, 1, 128, 129, 256, 384}
)

const (
	thoroughBigDepth   = 3
	thoroughSmallDepth = 4
)

type sop struct {
	at  bool
	off int
	l   int
}

func alphabet(lens, offs []int) ([]sop, []string) {
	var ops []sop
	var names []string
	for _, l := range lens {
		ops = append(ops, sop{l: l})
		names = append(names, fmt.Sprintf("XORKeyStream(%d)", l))
	}
	for _, o := range offs {
		for _, l := range lens {
			ops = append(ops, sop{at: true, off: o, l: l})
			names = append(names, fmt.Sprintf("XORKeyStreamAt(off=%d,%d)", o, l))
		}
	}
	return ops, names
}

const nModes = 3 // 0: disjoint dst, 1: in place, 2: dst longer than src

var modeName = [nModes]string{"disjoint", "inplace", "longdst"}

type sstate struct {
	c     gmcipher.SeekableStream
	pos   int // model: absolute position of the next sequential byte
	steps int // operations applied so far (selects the buffer mode of the next one)
}

// bufs are reused across steps; data is always placed at the END of the guard buffer so that the slice
// ends exactly at the PROT_NONE page.
type bufs struct {
	src, dst *engine.GuardBuf
}

const bufCap = 2048
const extra = 9

func newBufs() *bufs  { return &bufs{engine.NewGuardBuf(bufCap), engine.NewGuardBuf(bufCap + extra)} }
func (b *bufs) free() { b.src.Free(); b.dst.Free() }

func tail(g *engine.GuardBuf, n int) []byte { return g.B[len(g.B)-n:] }

func newStream(v variant, bucket int, useBucketCtor bool) gmcipher.SeekableStream {
	key, iv := keyOf(v.keyLen, 0), keyOf(v.ivLen, 0)
	var c gmcipher.SeekableStream
	var err error
	if useBucketCtor {
		c, err = zuc.NewCipherWithBucketSize(key, iv, bucket)
	} else {
		c, err = zuc.NewCipher(key, iv)
	}
	if err != nil {
		panic(fmt.Sprintf("harness: constructor failed: %v", err))
	}
	return c
}

func seekClass(at bool, off, pos int) string {
	switch {
	case !at:
		return "seq"
	case off == pos:
		return "at-same"
	case off < pos:
		return "at-backward"
	case off/128 == pos/128 && pos%128 != 0:
		return "at-forward-inside-buffered-round"
	default:
		return "at-forward"
	}
}

// apply performs one operation in the given buffer mode and checks the output. It returns false on a violation.
func apply(t *engine.T, b *bufs, exp []byte, s *sstate, o sop, m int, bucketClass string) bool {
	t.Eval(0) // heartbeat only: the searches count their transitions themselves, but a search may run for minutes on a loaded host
	p := s.pos
	if o.at {
		p = o.off
	}
	cls := seekClass(o.at, o.off, s.pos) + "/" + bucketClass
	if p+o.l > len(exp) {
		panic("harness: position beyond the precomputed reference keystream")
	}
	want := exp[p : p+o.l]
	src := tail(b.src, o.l)
	for i := range src {
		src[i] = content(p + i)
	}
	var dst []byte
	switch m {
	case 0:
		dst = tail(b.dst, o.l)
	case 1:
		dst = tail(b.dst, o.l)
		copy(dst, src)
		src = dst
	case 2:
		dst = tail(b.dst, o.l+extra)
	}
	if m != 1 {
		for i := range dst {
			dst[i] = 0x5A
		}
	}
	if t.Guard("stream/"+cls, func() {
		if o.at {
			s.c.XORKeyStreamAt(dst, src, uint64(o.off))
		} else {
			s.c.XORKeyStream(dst, src)
		}
	}) {
		return false
	}
	if !bytes.Equal(dst[:o.l], want) {
		d := engine.FirstDiff(dst[:o.l], want)
		t.Fail("stream/wrong-keystream/"+cls, "%s: output for absolute positions [%d,%d) differs from src XOR reference keystream first at position %d (byte %d of the call); got %s want %s",
			modeName[m], p, p+o.l, p+d, d, engine.Hex(dst[:o.l]), engine.Hex(want))
		return false
	}
	if m == 0 {
		for i := range src {
			if src[i] != content(p+i) {
				t.Fail("stream/src-modified/"+cls, "src byte %d modified by a call with disjoint dst", i)
				return false
			}
		}
	}
	if m == 2 {
		for i := o.l; i < len(dst); i++ {
			if dst[i] != 0x5A {
				t.Fail("stream/dst-tail-touched/"+cls, "dst[%d] beyond len(src)=%d was written", i, o.l)
				return false
			}
		}
	}
	if !b.src.Check() || !b.dst.Check() {
		t.Fail("stream/write-before-buffer/"+cls, "canary before the buffer was overwritten")
		return false
	}
	s.pos = p + o.l
	s.steps++
	return true
}

// selfCheckDump validates the state-key serialiser: on a set of real cipher and MAC objects in assorted
// states, fastDump and engine.Dump must induce exactly the same equality classes.
func selfCheckDump() error {
	var objs []any
	for _, v := range variants {
		for _, bucket := range []int{0, 128, 256} {
			for _, seq := range [][]sop{
				{}, {{l: 1}}, {{l: 1}}, {{l: 128}}, {{l: 129}}, {{l: 129}, {at: true, off: 1, l: 128}}, {{l: 1}, {l: 128}},
				{{at: true, off: 385, l: 4}}, {{at: true, off: 385, l: 4}, {at: true, off: 0, l: 389}}, {{at: true, off: 1000, l: 257}, {at: true, off: 127, l: 1}},
				{{l: 257}, {at: true, off: 256, l: 1}}, {{l: 256}, {l: 1}},
			} {
				c := newStream(v, bucket, true)
				for _, o := range seq {
					buf := make([]byte, o.l)
					if o.at {
						c.XORKeyStreamAt(buf, buf, uint64(o.off))
					} else {
						c.XORKeyStream(buf, buf)
					}
				}
				objs = append(objs, c)
			}
		}
	}
	for _, mv := range macVariants {
		for _, seq := range [][]int{{}, {0}, {1}, {1}, {16}, {17}, {1, 16}, {16, 1}, {33}, {32, 1}} {
			h := mv.new(0)
			for _, n := range seq {
				h.Write(patMsg(0, n))
			}
			objs = append(objs, h)
		}
	}
	equalPairs := 0
	for i := range objs {
		for j := i + 1; j < len(objs); j++ {
			a := engine.DumpString(objs[i]) == engine.DumpString(objs[j])
			b := string(fastDump(objs[i])) == string(fastDump(objs[j]))
			if a != b {
				return fmt.Errorf("c11: state serialisers disagree on objects %d and %d (engine.Dump equal: %v, fastDump equal: %v)", i, j, a, b)
			}
			if a {
				equalPairs++
			}
		}
	}
	if equalPairs == 0 {
		return fmt.Errorf("c11: state serialiser self-check is vacuous")
	}
	return nil
}

func hashKey(v any, model int) string {
	h := sha256.New()
	h.Write(fastDump(v))
	fmt.Fprintf(h, "|%d", model)
	return string(h.Sum(nil))
}

func bucketClass(bucket int) string {
	if bucket == 0 {
		return "nobucket"
	}
	return "bucket"
}

// streamMachine: the buffer mode of an operation is (number of operations before it + operation index)
// mod 3, so every operation is exercised with a disjoint dst, in place and with a longer dst at the
// three depths.
func streamMachine(b *bufs, v variant, bucket int, lens, offs []int) engine.Machine[*sstate] {
	ops, names := alphabet(lens, offs)
	exp := expected(v)
	bc := bucketClass(bucket)
	return engine.Machine[*sstate]{
		Name: fmt.Sprintf("%s/bucket=%d", v.name, bucket),
		New:  func() *sstate { return &sstate{c: newStream(v, bucket, true)} },
		Ops:  names,
		Step: func(s *sstate, op int, t *engine.T) bool {
			return apply(t, b, exp, s, ops[op], (s.steps+op)%nModes, bc)
		},
		Key: func(s *sstate) string { return hashKey(s.c, s.pos) },
	}
}

// ---------------------------------------------------------------------------------------------
// MACs

type macVariant struct {
	name string
	tag  int // bytes
	z256 bool
}

var macVariants = []macVariant{
	{"eia3", 4, false},
	{"mac256-32", 4, true},
	{"mac256-64", 8, true},
	{"mac256-128", 16, true},
}

func (mv macVariant) keyIV(which int) ([]byte, []byte) {
	if mv.z256 {
		return keyOf(32, which), keyOf(23, which)
	}
	return keyOf(16, which), keyOf(16, which)
}

func (mv macVariant) new(which int) zuc.EIA {
	key, iv := mv.keyIV(which)
	var h zuc.EIA
	var err error
	if mv.z256 {
		h, err = zuc.NewHash256(key, iv, mv.tag)
	} else {
		h, err = zuc.NewHash(key, iv)
	}
	if err != nil {
		panic(fmt.Sprintf("harness: MAC constructor failed: %v", err))
	}
	return h
}

func (mv macVariant) ref(which int, msg []byte, nbits int) []byte {
	key, iv := mv.keyIV(which)
	if mv.z256 {
		return zucref.MAC256(key, iv, mv.tag, msg, nbits)
	}
	return zucref.EIA3(key, iv, msg, nbits)
}

func tailClass(nbits int) string {
	r := nbits % 128
	switch {
	case r == 0:
		return "0"
	case r <= 32:
		return "1..32"
	case r <= 64:
		return "33..64"
	case r <= 96:
		return "65..96"
	default:
		return "97..127"
	}
}

// mismatchKey names the failing shape of a wrong tag. The footprint of the checkSum window-index defect
// (partial word and final xor read k0[kIdx..] although the whole-word loop slid the window to k0[0..])
// is exactly: 8-byte tag, 33..64 bits after the last 16-byte block; 16-byte tag, 33..127 bits.
func (mv macVariant) mismatchKey(nbits int) string {
	r := nbits % 128
	if mv.z256 && mv.tag == 8 && r >= 33 && r <= 64 {
		return "mac256/tail-index/tag64"
	}
	if mv.z256 && mv.tag == 16 && r >= 33 {
		return "mac256/tail-index/tag128"
	}
	if mv.z256 {
		return fmt.Sprintf("mac256/tag-mismatch/tag%d/tailbits=%s", 8*mv.tag, tailClass(nbits))
	}
	return "eia3/tag-mismatch/tailbits=" + tailClass(nbits)
}

// collector gathers tag mismatches (which do not corrupt the object: Sum works on a copy, Finish resets)
// so that the exploration can continue past them; they are reported once per key at the end of the case.
type collector struct {
	first map[string]string
	lens  map[string]map[int]bool
}

func newCollector() *collector {
	return &collector{first: map[string]string{}, lens: map[string]map[int]bool{}}
}

func (c *collector) add(key string, nbits int, detail string) {
	if _, ok := c.first[key]; !ok {
		c.first[key] = detail
		c.lens[key] = map[int]bool{}
	}
	c.lens[key][nbits] = true
}

func (c *collector) flush(t *engine.T) {
	var keys []string
	for k := range c.first {
		keys = append(keys, k)
	}
	sort.Strings(keys)
	for _, k := range keys {
		var ls []int
		for l := range c.lens[k] {
			ls = append(ls, l)
		}
		sort.Ints(ls)
		show := ls
		if len(show) > 12 {
			show = show[:12]
		}
		t.Fail(k, "%d distinct message bit lengths fail in this case (first: %v); first instance: %s", len(ls), show, c.first[k])
	}
}

// patterns of message content
const nPatterns = 3

func patByte(p, i int) byte {
	switch p {
	case 0:
		return content(i)
	case 1:
		return 0xff
	default:
		return 0
	}
}

func patMsg(p, n int) []byte {
	b := make([]byte, n)
	for i := range b {
		b[i] = patByte(p, i)
	}
	return b
}

type refKey struct {
	mv, which, pat, nbits int
}

var refTags = map[refKey][]byte{}

func refTag(mvi, which, pat, nbits int) []byte {
	k := refKey{mvi, which, pat, nbits}
	if v, ok := refTags[k]; ok {
		return v
	}
	v := macVariants[mvi].ref(which, patMsg(pat, (nbits+7)/8), nbits)
	refTags[k] = v
	return v
}

// --- MAC histories

var macChunks = []int{0, 1, 3, 4, 5, 12, 15, 16, 17, 31, 32, 33, 47, 48, 49, 64, 127, 128, 129, 263}
var finishBits = []int{0, 1, 7, 8, 31, 32, 33, 40, 63, 64, 65, 127, 128, 129}

type mstate struct {
	h    zuc.EIA
	n    int // message bytes since the last Reset / Finish (model)
	hist []string
}

func macMachine(col *collector, b *bufs, mvi int) engine.Machine[*mstate] {
	mv := macVariants[mvi]
	var names []string
	for _, c := range macChunks {
		names = append(names, fmt.Sprintf("Write(%d)", c))
	}
	names = append(names, "Reset")
	for _, f := range finishBits {
		names = append(names, fmt.Sprintf("Finish(%dbits)", f))
	}
	nW := len(macChunks)
	return engine.Machine[*mstate]{
		Name: "mac/" + mv.name,
		New:  func() *mstate { return &mstate{h: mv.new(0)} },
		Ops:  names,
		Step: func(s *mstate, op int, t *engine.T) bool {
			t.Eval(0) // heartbeat only
			s.hist = append(s.hist, names[op])
			switch {
			case op < nW:
				c := macChunks[op]
				buf := tail(b.src, c)
				for i := range buf {
					buf[i] = content(s.n + i)
				}
				var n int
				var err error
				if t.Guard("mac/"+mv.name+"/write", func() { n, err = s.h.Write(buf) }) {
					return false
				}
				if n != c || err != nil {
					t.Fail("mac/write-return", "Write(%d) returned (%d,%v)", c, n, err)
					return false
				}
				for i := range buf {
					if buf[i] != content(s.n+i) {
						t.Fail("mac/input-modified", "Write modified its input at byte %d", i)
						return false
					}
				}
				s.n += c
			case op == nW:
				s.h.Reset()
				s.n = 0
			default:
				fb := finishBits[op-nW-1]
				nb := (fb + 7) / 8
				buf := tail(b.src, nb)
				for i := range buf {
					buf[i] = content(s.n + i)
				}
				total := 8*s.n + fb
				var got []byte
				if t.Guard("mac/"+mv.name+"/finish", func() { got = s.h.Finish(buf, fb) }) {
					return false
				}
				got = append([]byte{}, got...)
				want := refTag(mvi, 0, 0, total)
				if !bytes.Equal(got, want) {
					col.add(mv.mismatchKey(total), total, fmt.Sprintf("[%s] history %v: Finish over %d message bits = %x, reference %x", mv.name, s.hist, total, got, want))
				}
				s.n = 0
			}
			// oracle after every step: Sum against the reference, Sum leaves the state alone
			before := engine.DumpString(s.h)
			var got, got2 []byte
			if t.Guard("mac/"+mv.name+"/sum", func() { got = s.h.Sum(nil) }) {
				return false
			}
			if engine.DumpString(s.h) != before {
				t.Fail("mac/sum-disturbs-state", "[%s] private state changed by Sum(nil) after %d bytes", mv.name, s.n)
				return false
			}
			want := refTag(mvi, 0, 0, 8*s.n)
			if !bytes.Equal(got, want) {
				col.add(mv.mismatchKey(8*s.n), 8*s.n, fmt.Sprintf("[%s] history %v: Sum over %d message bytes = %x, reference %x", mv.name, s.hist, s.n, got, want))
			}
			pre := make([]byte, 5, 5+20)
			copy(pre, "abcde")
			if t.Guard("mac/"+mv.name+"/sum", func() { got2 = s.h.Sum(pre) }) {
				return false
			}
			if len(got2) != 5+mv.tag || string(got2[:5]) != "abcde" || !bytes.Equal(got2[5:], got) {
				t.Fail("mac/sum-append", "Sum(prefix) = %x, Sum(nil) = %x", got2, got)
				return false
			}
			if engine.DumpString(s.h) != before {
				t.Fail("mac/sum-disturbs-state", "[%s] private state changed by Sum(prefix) after %d bytes", mv.name, s.n)
				return false
			}
			if s.h.Size() != mv.tag || s.h.BlockSize() != 16 {
				t.Fail("mac/size", "Size=%d BlockSize=%d", s.h.Size(), s.h.BlockSize())
				return false
			}
			return true
		},
		Key: func(s *mstate) string { return hashKey(s.h, s.n) },
	}
}

// ---------------------------------------------------------------------------------------------

func (Prop) Run(c *engine.Ctx) {
	runCtorAliasing(c)
	quick := c.Quick()

	// ---- E1 stream: one search per (variant, bucket size) object and alphabet
	for _, v := range variants {
		for _, bucket := range buckets {
			v, bucket := v, bucket
			if quick {
				c.Case(fmt.Sprintf("stream/bfs/%s/bucket=%d/ops=54/depth=3", v.name, bucket), func(t *engine.T) {
					b := newBufs()
					defer b.free()
					engine.BFS(t, streamMachine(b, v, bucket, quickLens, quickOffs), 3)
				})
				continue
			}
			c.Case(fmt.Sprintf("stream/bfs/%s/bucket=%d/ops=187/depth=%d", v.name, bucket, thoroughBigDepth), func(t *engine.T) {
				b := newBufs()
				defer b.free()
				engine.BFS(t, streamMachine(b, v, bucket, thoroughLens, thoroughOffs), thoroughBigDepth)
			})
			c.Case(fmt.Sprintf("stream/bfs/%s/bucket=%d/ops=54/depth=%d", v.name, bucket, thoroughSmallDepth), func(t *engine.T) {
				b := newBufs()
				defer b.free()
				engine.BFS(t, streamMachine(b, v, bucket, quickLens, quickOffs), thoroughSmallDepth)
			})
		}
	}

	// ---- E1 stream, long histories: a default operation repeated to the horizon with <= b departures
	// (any of the 54 operations at any position)
	devBound := 1
	if !quick {
		devBound = 2
	}
	for _, v := range variants {
		for _, bucket := range buckets {
			for _, def := range []int{0, 4} { // XORKeyStream(1), XORKeyStream(129)
				v, bucket, def := v, bucket, def
				_, names := alphabet(quickLens, quickOffs)
				c.Case(fmt.Sprintf("stream/deviations/%s/bucket=%d/def=%s/h=8/b=%d", v.name, bucket, names[def], devBound), func(t *engine.T) {
					b := newBufs()
					defer b.free()
					engine.Deviations(t, streamMachine(b, v, bucket, quickLens, quickOffs), def, 8, devBound)
				})
			}
		}
	}

	// ---- E2 stream: every length / every offset on a fresh object
	nMax := 600
	if !quick {
		nMax = 1300
	}
	for _, v := range variants {
		for _, bucket := range []int{0, 128, 256} {
			v, bucket := v, bucket
			c.Case(fmt.Sprintf("stream/lengths/%s/bucket=%d/0..%d", v.name, bucket, nMax), func(t *engine.T) {
				b := newBufs()
				defer b.free()
				exp := expected(v)
				bc := bucketClass(bucket)
				for n := 0; n <= nMax; n++ {
					for m := 0; m < nModes; m++ {
						// length n, then a second sequential call across the next round boundary, then back to n/2
						s := &sstate{c: newStream(v, bucket, bucket != 0)}
						ok := apply(t, b, exp, s, sop{l: n}, m, bc) &&
							apply(t, b, exp, s, sop{l: 133}, (m+1)%nModes, bc) &&
							apply(t, b, exp, s, sop{at: true, off: n / 2, l: 5}, (m+2)%nModes, bc)
						t.Eval(3)
						if !ok {
							return
						}
						// offset n on a fresh object, then sequential, then a backward seek by eight bytes
						s = &sstate{c: newStream(v, bucket, bucket != 0)}
						ok = apply(t, b, exp, s, sop{at: true, off: n, l: 131}, m, bc) &&
							apply(t, b, exp, s, sop{l: 7}, (m+1)%nModes, bc) &&
							apply(t, b, exp, s, sop{at: true, off: n + 130, l: 3}, (m+2)%nModes, bc)
						t.Eval(3)
						if !ok {
							return
						}
					}
					t.Nontrivial(fmt.Sprintf("len/%s/%d/%d", v.name, bucket, n))
					t.Nontrivial(fmt.Sprintf("off/%s/%d/%d", v.name, bucket, n))
				}
				t.Sample(map[string]any{"stream": v.name, "bucket": bucket, "lengths_and_offsets": fmt.Sprintf("0..%d", nMax)})
			})
		}
	}

	// ---- the EEA3 constructors build the IV the standard defines (count, bearer, direction)
	c.Case("stream/eea3-constructors", func(t *engine.T) {
		key := keyOf(16, 0)
		for _, count := range []uint32{0, 1, 0x66035492, 0xffffffff} {
			for bearer := uint32(0); bearer < 32; bearer++ {
				for dir := uint32(0); dir < 2; dir++ {
					ks := zucref.Stream128(key, zucref.EEA3IV(count, bearer, dir), 300)
					for _, bucket := range []int{-1, 128} {
						var s gmcipher.SeekableStream
						var err error
						if bucket < 0 {
							s, err = zuc.NewEEACipher(key, count, bearer, dir)
						} else {
							s, err = zuc.NewEEACipherWithBucketSize(key, count, bearer, dir, bucket)
						}
						if err != nil {
							t.Fail("stream/eea3-constructor-error", "NewEEACipher: %v", err)
							return
						}
						out := make([]byte, 300)
						s.XORKeyStream(out[:200], out[:200])
						s.XORKeyStreamAt(out[200:], out[200:], 200)
						t.Eval(1)
						if !bytes.Equal(out, ks) {
							t.Fail("stream/eea3-iv", "NewEEACipher(count=%#x, bearer=%d, direction=%d): keystream differs from ZUC-128 under the EEA3 IV at byte %d", count, bearer, dir, engine.FirstDiff(out, ks))
							return
						}
					}
					t.Nontrivial(fmt.Sprintf("eea3/%d/%d/%d", count, bearer, dir))
				}
			}
		}
	})

	// ---- MAC E2: every bit length through Finish
	maxBits := 640
	if !quick {
		maxBits = 2100
	}
	for mvi, mv := range macVariants {
		for which := 0; which < 2; which++ {
			for pat := 0; pat < nPatterns; pat++ {
				mvi, mv, which, pat := mvi, mv, which, pat
				c.Case(fmt.Sprintf("mac/finish-bits/%s/key%d/pat%d/0..%d", mv.name, which, pat, maxBits), func(t *engine.T) {
					col := newCollector()
					defer col.flush(t)
					g := engine.NewGuardBuf((maxBits + 7) / 8)
					defer g.Free()
					reused := mv.new(which)
					for nbits := 0; nbits <= maxBits; nbits++ {
						nb := (nbits + 7) / 8
						want := refTag(mvi, which, pat, nbits)
						p := tail(g, nb)
						for round := 0; round < 2; round++ {
							for i := range p {
								p[i] = patByte(pat, i)
							}
							if r := nbits % 8; r != 0 { // bits after nbits must not matter
								if round == 0 {
									p[nb-1] |= 0xff >> uint(r)
								} else {
									p[nb-1] &^= 0xff >> uint(r)
								}
							}
							h := reused
							if round == 0 {
								h = mv.new(which)
							}
							var got []byte
							if t.Guard("mac/"+mv.name+"/finish", func() { got = h.Finish(p, nbits) }) {
								return
							}
							t.Eval(1)
							if !bytes.Equal(got, want) {
								who := "fresh object, trailing bits 1"
								if round == 1 {
									who = "reused object, trailing bits 0"
								}
								col.add(mv.mismatchKey(nbits), nbits, fmt.Sprintf("[%s key%d pat%d] Finish(p, %d) on a %s = %x, reference %x", mv.name, which, pat, nbits, who, got, want))
							}
						}
						t.Nontrivial(fmt.Sprintf("macbits/%s/%d/%d", mv.name, nbits%128, pat))
						t.Outcome(string(want))
					}
					if !g.Check() {
						t.Fail("mac/write-before-buffer", "canary before the message buffer was overwritten")
					}
					if which == 0 && pat == 0 {
						t.Sample(map[string]any{"mac": mv.name, "api": "Finish(p,nbits)", "nbits": fmt.Sprintf("0..%d", maxBits)})
					}
				})
			}
		}
	}

	// ---- MAC E2: sparse messages. The content patterns above never have an all-zero 32-bit word in front of a non-zero
	// one; a message with a single bit set does, at every word of the buffered tail: every bit length x every position of
	// the one set bit within the last 160 bits (the final 128-bit block and the word before it) and the very first bit.
	sparseMax := 400
	if !quick {
		sparseMax = 1100
	}
	for _, mv := range macVariants {
		mv := mv
		c.Case(fmt.Sprintf("mac/sparse-single-bit/%s/0..%d", mv.name, sparseMax), func(t *engine.T) {
			col := newCollector()
			defer col.flush(t)
			h := mv.new(0)
			msg := make([]byte, (sparseMax+7)/8)
			for nbits := 1; nbits <= sparseMax; nbits++ {
				nb := (nbits + 7) / 8
				lo := nbits - 160
				if lo < 0 {
					lo = 0
				}
				pos := []int{}
				if lo > 0 {
					pos = append(pos, 0)
				}
				for p := lo; p < nbits; p++ {
					pos = append(pos, p)
				}
				for _, p := range pos {
					msg[p/8] = 0x80 >> uint(p%8)
					want := mv.ref(0, msg[:nb], nbits)
					var got []byte
					if t.Guard("mac/"+mv.name+"/finish", func() { got = h.Finish(append([]byte{}, msg[:nb]...), nbits) }) {
						return
					}
					t.Eval(1)
					if !bytes.Equal(got, want) {
						col.add(mv.mismatchKey(nbits), nbits, fmt.Sprintf("[%s key0] Finish(zero message with bit %d set, %d) = %x, reference %x", mv.name, p, nbits, got, want))
					}
					msg[p/8] = 0
				}
				t.Nontrivial(fmt.Sprintf("macsparse/%s/%d", mv.name, nbits%128))
			}
			t.Sample(map[string]any{"mac": mv.name, "messages": "exactly one bit set, at every position of the last 160 bits and at bit 0", "nbits": fmt.Sprintf("1..%d", sparseMax)})
		})
	}

	// ---- MAC E2: every 2-partition of every byte length
	maxBytes := 80
	if !quick {
		maxBytes = 200
	}
	for mvi, mv := range macVariants {
		mvi, mv := mvi, mv
		c.Case(fmt.Sprintf("mac/split2/%s/0..%d", mv.name, maxBytes), func(t *engine.T) {
			col := newCollector()
			defer col.flush(t)
			b := newBufs()
			defer b.free()
			h := mv.new(0)
			for n := 0; n <= maxBytes; n++ {
				want := refTag(mvi, 0, 0, 8*n)
				for k := 0; k <= n; k++ {
					h.Reset()
					p1 := tail(b.src, k)
					for i := range p1 {
						p1[i] = content(i)
					}
					p2 := tail(b.dst, n-k)
					for i := range p2 {
						p2[i] = content(k + i)
					}
					var got []byte
					if t.Guard("mac/"+mv.name+"/write", func() { h.Write(p1); h.Write(p2); got = h.Sum(nil) }) {
						return
					}
					t.Eval(1)
					if !bytes.Equal(got, want) {
						col.add(mv.mismatchKey(8*n), 8*n, fmt.Sprintf("[%s] Write(%d);Write(%d);Sum = %x, reference %x", mv.name, k, n-k, got, want))
					}
				}
				t.Nontrivial(fmt.Sprintf("macsplit/%s/%d", mv.name, n))
			}
		})
	}

	// ---- MAC E1: histories
	depth := 3
	if !quick {
		depth = 4
	}
	for mvi, mv := range macVariants {
		mvi, mv := mvi, mv
		c.Case(fmt.Sprintf("mac/bfs/%s/depth=%d", mv.name, depth), func(t *engine.T) {
			col := newCollector()
			defer col.flush(t)
			b := newBufs()
			defer b.free()
			engine.BFS(t, macMachine(col, b, mvi), depth)
		})
	}

	if !quick {
		for mvi, mv := range macVariants {
			mvi, mv := mvi, mv
			c.Case(fmt.Sprintf("mac/deviations/%s/def=Write(16)/h=8/b=2", mv.name), func(t *engine.T) {
				col := newCollector()
				defer col.flush(t)
				b := newBufs()
				defer b.free()
				engine.Deviations(t, macMachine(col, b, mvi), 7, 8, 2) // macChunks[7] == 16
			})
		}
	}

	// ---- EIA3 constructor builds the IV the standard defines
	c.Case("mac/eia3-constructor", func(t *engine.T) {
		key := keyOf(16, 0)
		msg := patMsg(0, 40)
		for _, count := range []uint32{0, 1, 0xa94059da, 0xffffffff} {
			for bearer := uint32(0); bearer < 32; bearer++ {
				for dir := uint32(0); dir < 2; dir++ {
					h, err := zuc.NewEIAHash(key, count, bearer, dir)
					if err != nil {
						t.Fail("mac/eia3-constructor-error", "NewEIAHash: %v", err)
						return
					}
					for _, nbits := range []int{0, 1, 32, 129, 313} {
						got := h.Finish(msg, nbits)
						want := zucref.EIA3(key, zucref.EIA3IV(count, bearer, dir), msg, nbits)
						t.Eval(1)
						if !bytes.Equal(got, want) {
							t.Fail("mac/eia3-iv", "NewEIAHash(count=%#x, bearer=%d, direction=%d).Finish(%d bits) = %x, reference %x", count, bearer, dir, nbits, got, want)
							return
						}
					}
					t.Nontrivial(fmt.Sprintf("eia3iv/%d/%d/%d", count, bearer, dir))
				}
			}
		}
	})

	// ---- the generic input dimensions of DESIGN.md 11.4 (widen.go)
	runWiden(c)
}
