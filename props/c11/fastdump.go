package c11

import (
	"encoding/binary"
	"reflect"
	"unsafe"
)

// fastDump serialises the complete private state reachable from v, like engine.Dump, but copies every
// pointer-free and padding-free value (the LFSR/FSM state structs, the byte buffers, the integer fields)
// as raw memory instead of walking it field by field. It carries the same information as engine.Dump
// (SelfTest checks that both induce the same equality classes on a set of real objects); it exists only
// because the state key is computed once per transition and the reflective walk of ~250 scalar fields
// dominated the cost of the search. Slices are dumped up to len, pointers and interfaces are followed.
func fastDump(v any) []byte {
	d := &fdumper{b: make([]byte, 0, 4096), seen: map[uintptr]bool{}}
	d.walk(reflect.ValueOf(v), 0)
	return d.b
}

type fdumper struct {
	b    []byte
	seen map[uintptr]bool
}

// plainCache is used by the single goroutine that runs the cases of a worker process.
var plainCache = map[reflect.Type]bool{}

// plain reports whether values of type t contain no pointers and no padding, so that their memory image
// is exactly their value.
func plain(t reflect.Type) bool {
	if v, ok := plainCache[t]; ok {
		return v
	}
	var r bool
	switch t.Kind() {
	case reflect.Bool, reflect.Int, reflect.Int8, reflect.Int16, reflect.Int32, reflect.Int64,
		reflect.Uint, reflect.Uint8, reflect.Uint16, reflect.Uint32, reflect.Uint64, reflect.Uintptr:
		r = true
	case reflect.Array:
		r = plain(t.Elem())
	case reflect.Struct:
		r = true
		var sum uintptr
		for i := 0; i < t.NumField(); i++ {
			f := t.Field(i)
			if !plain(f.Type) {
				r = false
				break
			}
			sum += f.Type.Size()
		}
		if r && sum != t.Size() {
			r = false
		}
	}
	plainCache[t] = r
	return r
}

func (d *fdumper) u64(x uint64) { d.b = binary.LittleEndian.AppendUint64(d.b, x) }

func (d *fdumper) walk(v reflect.Value, depth int) {
	if depth > 40 || !v.IsValid() {
		d.b = append(d.b, 0xfe)
		return
	}
	if v.CanAddr() && plain(v.Type()) {
		n := int(v.Type().Size())
		if n > 0 {
			d.b = append(d.b, unsafe.Slice((*byte)(unsafe.Pointer(v.UnsafeAddr())), n)...)
		}
		return
	}
	switch v.Kind() {
	case reflect.Bool:
		if v.Bool() {
			d.b = append(d.b, 1)
		} else {
			d.b = append(d.b, 0)
		}
	case reflect.Int, reflect.Int8, reflect.Int16, reflect.Int32, reflect.Int64:
		d.u64(uint64(v.Int()))
	case reflect.Uint, reflect.Uint8, reflect.Uint16, reflect.Uint32, reflect.Uint64, reflect.Uintptr:
		d.u64(v.Uint())
	case reflect.String:
		d.u64(uint64(v.Len()))
		d.b = append(d.b, v.String()...)
	case reflect.Array:
		for i := 0; i < v.Len(); i++ {
			d.walk(v.Index(i), depth+1)
		}
	case reflect.Slice:
		d.u64(uint64(v.Len()))
		if v.IsNil() {
			d.b = append(d.b, 0xfd)
			return
		}
		if plain(v.Type().Elem()) {
			n := v.Len() * int(v.Type().Elem().Size())
			if n > 0 {
				d.b = append(d.b, unsafe.Slice((*byte)(v.UnsafePointer()), n)...)
			}
			return
		}
		for i := 0; i < v.Len(); i++ {
			d.walk(v.Index(i), depth+1)
		}
	case reflect.Ptr:
		if v.IsNil() {
			d.b = append(d.b, 0xfd)
			return
		}
		p := v.Pointer()
		if d.seen[p] {
			d.b = append(d.b, 0xfc)
			return
		}
		d.seen[p] = true
		d.b = append(d.b, 0xfb)
		d.walk(v.Elem(), depth+1)
	case reflect.Interface:
		if v.IsNil() {
			d.b = append(d.b, 0xfd)
			return
		}
		e := v.Elem()
		d.b = append(d.b, e.Type().String()...)
		if e.Kind() != reflect.Ptr && !e.CanAddr() {
			c := reflect.New(e.Type()).Elem()
			c.Set(e)
			e = c
		}
		d.walk(e, depth+1)
	case reflect.Struct:
		for i := 0; i < v.NumField(); i++ {
			d.walk(v.Field(i), depth+1)
		}
	default:
		// maps, funcs, channels, floats, complex: not present in the ZUC objects; refuse rather than guess
		panic("harness: fastDump met an unsupported kind " + v.Kind().String())
	}
}
