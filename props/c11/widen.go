package c11

// Widening of C11 in the generic input dimensions of DESIGN.md §11.4 (see Rule()):
//
//	stream: boundary values of the bucket size, record layouts and spare capacities of dst/src, empty and nil
//	        calls (pure seeks), positions far enough for long checkpoint lists, boundary values of key and IV
//	        (byte and bit walks), fields and bucket sizes of the EEA3 constructors;
//	MACs:   capacity classes of Sum's argument, ownership of every returned tag, message arguments longer than
//	        the bits to be hashed / with dirty bytes behind them, nil and empty arguments, every ordered pair of
//	        bit lengths (and byte lengths) on one object with different contents, key/IV walks;
//	both:   constructor arguments (EEA/EIA constructors, one slice pair handed to several constructors, record
//	        key||iv), every size of key / IV / tag, objects of different kinds used alternately.
//
// All oracles are the ones of c11.go (reference keystream at the absolute positions, reference tag) plus
// "memory of the caller outside dst[:len(src)] is not written" and "a returned tag belongs to the caller".

import (
	"bytes"
	"fmt"
	"math"

	gmcipher "github.com/emmansun/gmsm/cipher"
	"github.com/emmansun/gmsm/zuc"

	"verif/engine"
	"verif/ref/zucref"
)

func runWiden(c *engine.Ctx) {
	widenBucketValues(c)
	widenLayouts(c)
	widenEmptyCalls(c)
	widenFar(c)
	widenKeyValues(c)
	widenCtorArguments(c)
	widenCtorSizes(c)
	widenEEAFields(c)
	widenMacBuffers(c)
	widenMacPairs(c)
	widenAlternate(c)
	widenMacByteValues(c)
}

func dirty(b []byte, salt int) {
	for i := range b {
		b[i] = 0xD7 ^ byte(i*13) ^ byte(salt*29)
	}
}

// ---------------------------------------------------------------------------------------------
// stream operations in caller-memory layouts

const (
	laySrcDst         = iota // one record pad|src|dst|slack, capacities reach to the end of the record
	layDstSrc                // one record pad|dst|src|slack
	layDstCoversSrc          // dst = record[a:a+2l] (longer than src, its tail IS src), src = record[a+l:a+2l]
	laySpare                 // dst and src in separate arrays, each with dirty spare capacity behind (and bytes before)
	layInPlaceSpare          // dst == src with dirty spare capacity behind
	layInPlaceLongDst        // dst[:l] == src exactly, dst 9 bytes longer than src
	layNilOrExact            // l == 0: nil, nil; otherwise separate heap slices with cap == len
	nLayouts
)

var layoutName = [nLayouts]string{"src||dst", "dst||src", "dst-covers-src", "spare-capacity", "inplace-spare-capacity", "inplace-longer-dst", "nil-or-exact"}

// applyLay performs one operation with dst/src carved out of ordinary caller arrays and checks the complete
// memory image of those arrays afterwards: dst[:l] = src XOR reference keystream, every other byte unchanged.
func applyLay(t *engine.T, exp []byte, s *sstate, o sop, lay int, cls string) bool {
	t.Eval(0) // heartbeat only
	p := s.pos
	if o.at {
		p = o.off
	}
	l := o.l
	if p+l > len(exp) {
		panic("harness: position beyond the precomputed reference keystream")
	}
	want := exp[p : p+l]
	const pad, slack = 8, 40
	mk := func(n, salt int) []byte { r := make([]byte, n); dirty(r, salt); return r }
	var recs [][]byte
	var dst, src []byte
	dOff, sRec, sOff := 0, 0, 0
	switch lay {
	case laySrcDst:
		r := mk(pad+2*l+slack, 1)
		recs = [][]byte{r}
		src, dst = r[pad:pad+l], r[pad+l:pad+2*l]
		sOff, dOff = pad, pad+l
	case layDstSrc:
		r := mk(pad+2*l+slack, 2)
		recs = [][]byte{r}
		dst, src = r[pad:pad+l], r[pad+l:pad+2*l]
		dOff, sOff = pad, pad+l
	case layDstCoversSrc:
		r := mk(pad+2*l+slack, 3)
		recs = [][]byte{r}
		dst, src = r[pad:pad+2*l], r[pad+l:pad+2*l]
		dOff, sOff = pad, pad+l
	case laySpare:
		r, q := mk(pad+l+slack, 4), mk(pad+l+slack, 5)
		recs = [][]byte{r, q}
		dst, src = r[pad:pad+l], q[pad:pad+l]
		dOff, sRec, sOff = pad, 1, pad
	case layInPlaceSpare:
		r := mk(pad+l+slack, 6)
		recs = [][]byte{r}
		dst = r[pad : pad+l]
		src = dst
		dOff, sOff = pad, pad
	case layInPlaceLongDst:
		r := mk(pad+l+slack, 9)
		recs = [][]byte{r}
		dst, src = r[pad:pad+l+9], r[pad:pad+l]
		dOff, sOff = pad, pad
	case layNilOrExact:
		if l > 0 {
			r, q := mk(l, 7), mk(l, 8)
			recs = [][]byte{r, q}
			dst, src = r, q
			sRec = 1
		}
	default:
		panic("harness: unknown layout")
	}
	for i := range src {
		src[i] = content(p + i)
	}
	var after [][]byte
	for _, r := range recs {
		after = append(after, append([]byte{}, r...))
	}
	if l > 0 {
		copy(after[0][dOff:dOff+l], want)
	}
	kp := "stream/layout/" + layoutName[lay]
	if t.Guard(kp+"/"+cls, func() {
		if o.at {
			s.c.XORKeyStreamAt(dst, src, uint64(o.off))
		} else {
			s.c.XORKeyStream(dst, src)
		}
	}) {
		return false
	}
	for ri := range recs {
		d := engine.FirstDiff(recs[ri], after[ri])
		if d < 0 {
			continue
		}
		switch {
		case ri == 0 && d >= dOff && d < dOff+l:
			t.Fail(kp+"/wrong-keystream/"+cls, "output for absolute positions [%d,%d) differs from src XOR reference keystream at byte %d of the call; got %s want %s",
				p, p+l, d-dOff, engine.Hex(recs[0][dOff:dOff+l]), engine.Hex(want))
		case ri == sRec && d >= sOff && d < sOff+l:
			t.Fail(kp+"/src-modified/"+cls, "src byte %d was modified by a call whose dst does not overlap it (len %d)", d-sOff, l)
		default:
			t.Fail(kp+"/write-outside-dst/"+cls, "caller memory outside dst[:len(src)] was written: array %d byte %d (dst[:%d] starts at byte %d of array 0)", ri, d, l, dOff)
		}
		return false
	}
	s.pos = p + l
	s.steps++
	return true
}

// wop: one operation of a widened stream machine. lay < 0: guard buffers of apply() in buffer mode `mode`
// (mode < 0: rotating with depth and operation index like the machines of c11.go).
type wop struct {
	sop
	lay, mode int
}

func wopName(o wop) string {
	var n string
	if o.at {
		n = fmt.Sprintf("XORKeyStreamAt(off=%d,%d)", o.off, o.l)
	} else {
		n = fmt.Sprintf("XORKeyStream(%d)", o.l)
	}
	switch {
	case o.lay >= 0:
		n += "[" + layoutName[o.lay] + "]"
	case o.mode >= 0:
		n += "[" + modeName[o.mode] + "]"
	}
	return n
}

func wideMachine(name string, b *bufs, mk func() gmcipher.SeekableStream, exp []byte, ops []wop, cls string) engine.Machine[*sstate] {
	names := make([]string, len(ops))
	for i, o := range ops {
		names[i] = wopName(o)
	}
	return engine.Machine[*sstate]{
		Name: name,
		New:  func() *sstate { return &sstate{c: mk()} },
		Ops:  names,
		Step: func(s *sstate, op int, t *engine.T) bool {
			o := ops[op]
			if o.lay >= 0 {
				return applyLay(t, exp, s, o.sop, o.lay, cls)
			}
			m := o.mode
			if m < 0 {
				m = (s.steps + op) % nModes
			}
			return apply(t, b, exp, s, o.sop, m, cls)
		},
		Key: func(s *sstate) string { return hashKey(s.c, s.pos) },
	}
}

func rotating(lens, offs []int) []wop {
	sops, _ := alphabet(lens, offs)
	ops := make([]wop, len(sops))
	for i, o := range sops {
		ops[i] = wop{o, -1, -1}
	}
	return ops
}

func mustStream(key, iv []byte, bucket int, bucketCtor bool) gmcipher.SeekableStream {
	var c gmcipher.SeekableStream
	var err error
	if bucketCtor {
		c, err = zuc.NewCipherWithBucketSize(key, iv, bucket)
	} else {
		c, err = zuc.NewCipher(key, iv)
	}
	if err != nil {
		panic(fmt.Sprintf("harness: constructor failed: %v", err))
	}
	return c
}

// ---------------------------------------------------------------------------------------------
// boundary values of the bucket size ("any state-bucket size")

var bucketValues = []int{-1, math.MinInt, 2, 127, 255, 257, 383, 385, 500, 512, 513, 1000, 1024, 1 << 20, math.MaxInt - 127, math.MaxInt - 126, math.MaxInt}

func bucketValueClass(b int) string {
	switch {
	case b < 0:
		return "bucket-negative"
	case b > math.MaxInt-127:
		return "bucket-rounding-overflows"
	case b >= 1<<20:
		return "bucket-larger-than-stream"
	case b%128 != 0:
		return "bucket-rounded-up"
	}
	return "bucket"
}

func widenBucketValues(c *engine.Ctx) {
	depth := 2
	if !c.Quick() {
		depth = 3
	}
	for _, v := range variants {
		for _, bucket := range bucketValues {
			v, bucket := v, bucket
			c.Case(fmt.Sprintf("widen/stream/bucket-values/%s/bucket=%d/ops=54/depth=%d+deviations", v.name, bucket, depth), func(t *engine.T) {
				b := newBufs()
				defer b.free()
				mk := func() gmcipher.SeekableStream { return newStream(v, bucket, true) }
				m := wideMachine(fmt.Sprintf("%s/bucket=%d", v.name, bucket), b, mk, expected(v), rotating(quickLens, quickOffs), bucketValueClass(bucket))
				engine.BFS(t, m, depth)
				if t.Failed() {
					return
				}
				engine.Deviations(t, m, 4, 8, 1) // XORKeyStream(129) x 8 with one departure
				t.Outcome("bucket-values/" + bucketValueClass(bucket))
			})
		}
	}
}

// ---------------------------------------------------------------------------------------------
// record layouts and spare capacities of dst / src

func widenLayouts(c *engine.Ctx) {
	lens, offs := []int{1, 4, 127, 128, 129, 257}, []int{0, 1, 127, 129, 385}
	depth := 2
	if !c.Quick() {
		lens, offs, depth = quickLens, quickOffs, 3
	}
	sops, _ := alphabet(lens, offs)
	var ops []wop
	for _, o := range sops {
		for lay := 0; lay < nLayouts; lay++ {
			ops = append(ops, wop{o, lay, -1})
		}
	}
	for _, v := range variants {
		for _, bucket := range []int{0, 128} {
			v, bucket := v, bucket
			c.Case(fmt.Sprintf("widen/stream/layouts/%s/bucket=%d/ops=%d/depth=%d", v.name, bucket, len(ops), depth), func(t *engine.T) {
				mk := func() gmcipher.SeekableStream { return newStream(v, bucket, true) }
				m := wideMachine(fmt.Sprintf("layouts/%s/bucket=%d", v.name, bucket), nil, mk, expected(v), ops, bucketClass(bucket))
				engine.BFS(t, m, depth)
				for lay := 0; lay < nLayouts; lay++ {
					t.Nontrivial("layout/" + layoutName[lay] + "/" + v.name)
				}
				t.Outcome("layouts/" + v.name)
			})
		}
	}
}

// ---------------------------------------------------------------------------------------------
// empty and nil calls: XORKeyStream(nil,nil), XORKeyStreamAt(nil,nil,off) (a pure seek), empty src with a
// non-empty dst (must stay untouched); the following calls must continue at the right absolute position.

func widenEmptyCalls(c *engine.Ctx) {
	sops, _ := alphabet([]int{0, 1, 129}, []int{0, 1, 127, 128, 129, 385})
	var ops []wop
	for _, o := range sops {
		if o.l == 0 {
			ops = append(ops, wop{o, layNilOrExact, -1}, wop{o, -1, 0}, wop{o, -1, 2})
		} else {
			ops = append(ops, wop{o, -1, -1})
		}
	}
	depth := 3
	if !c.Quick() {
		depth = 4
	}
	for _, v := range variants {
		for _, bucket := range []int{0, 128, 256} {
			v, bucket := v, bucket
			c.Case(fmt.Sprintf("widen/stream/empty-calls/%s/bucket=%d/ops=%d/depth=%d", v.name, bucket, len(ops), depth), func(t *engine.T) {
				b := newBufs()
				defer b.free()
				mk := func() gmcipher.SeekableStream { return newStream(v, bucket, true) }
				m := wideMachine(fmt.Sprintf("empty-calls/%s/bucket=%d", v.name, bucket), b, mk, expected(v), ops, "empty-calls/"+bucketClass(bucket))
				engine.BFS(t, m, depth)
				t.Outcome("empty-calls/" + v.name)
			})
		}
	}
}

// ---------------------------------------------------------------------------------------------
// far positions: checkpoint lists with thousands of entries, positions around 2^13, 2^16 and 2^20, bucket sizes
// up to the whole stream, every ordered pair of far offsets (forwards and backwards)

const farLen = 1<<20 + 4096

var farCache = map[string][]byte{}

func farExpected(v variant) []byte {
	if e, ok := farCache[v.name]; ok {
		return e
	}
	ks := zucref.KeyStream(keyOf(v.keyLen, 0), keyOf(v.ivLen, 0), farLen)
	for i := range ks {
		ks[i] ^= content(i)
	}
	farCache[v.name] = ks
	return ks
}

func widenFar(c *engine.Ctx) {
	offs := []int{8191, 8192, 8193, 65535, 65536, 65537, 1<<20 - 1, 1 << 20, 1<<20 + 1}
	for _, v := range variants {
		for _, bucket := range []int{0, 128, 200, 4096, 65536, 1 << 20} {
			v, bucket := v, bucket
			c.Case(fmt.Sprintf("widen/stream/far/%s/bucket=%d/offsets=%d^2", v.name, bucket, len(offs)), func(t *engine.T) {
				b := newBufs()
				defer b.free()
				exp := farExpected(v)
				cls := "far/" + bucketClass(bucket)
				for _, a := range offs {
					for _, z := range offs {
						s := &sstate{c: newStream(v, bucket, bucket != 0)}
						for i, o := range []sop{
							{at: true, off: a, l: 131}, {l: 7}, {at: true, off: z, l: 131}, {l: 130},
							{at: true, off: a + 1, l: 2}, {at: true, off: z/2 + 77, l: 5}, {l: 257}, {at: true, off: z - 1, l: 3},
						} {
							ok := apply(t, b, exp, s, o, i%nModes, cls)
							t.Eval(1)
							if !ok {
								return
							}
						}
						t.Nontrivial(fmt.Sprintf("far/%s/%d/%d/%d", v.name, bucket, a, z))
					}
				}
				t.Outcome("far/" + v.name)
			})
		}
	}
}

// ---------------------------------------------------------------------------------------------
// boundary values of key and IV: uniform patterns, every single byte, single bits (quick: the bits of the
// ZUC-256 fields that are split or packed - key[31] and iv[17..22]; thorough: every bit of key and IV)

type kiv struct {
	key, iv []byte
	class   string
}

func keyIVSet(kl, il int, quick bool) []kiv {
	var set []kiv
	fill := func(n int, b byte) []byte { return bytes.Repeat([]byte{b}, n) }
	for _, p := range [][2]byte{{0, 0}, {0xff, 0xff}, {0, 0xff}, {0xff, 0}, {0x80, 0x80}, {0x01, 0x01}, {0x7f, 0xfe}} {
		set = append(set, kiv{fill(kl, p[0]), fill(il, p[1]), "uniform"})
	}
	for i := 0; i < kl; i++ {
		k := fill(kl, 0)
		k[i] = 0xff
		set = append(set, kiv{k, fill(il, 0), "key-byte"})
		k = fill(kl, 0xff)
		k[i] = 0
		set = append(set, kiv{k, fill(il, 0xff), "key-byte"})
	}
	for i := 0; i < il; i++ {
		v := fill(il, 0)
		v[i] = 0xff
		set = append(set, kiv{fill(kl, 0), v, "iv-byte"})
		v = fill(il, 0xff)
		v[i] = 0
		set = append(set, kiv{fill(kl, 0xff), v, "iv-byte"})
	}
	for bit := 0; bit < 8*kl; bit++ {
		if quick && !(kl == 32 && bit/8 == 31) {
			continue
		}
		k := fill(kl, 0)
		k[bit/8] = 0x80 >> uint(bit%8)
		set = append(set, kiv{k, fill(il, 0), "key-bit"})
		k = fill(kl, 0xff)
		k[bit/8] ^= 0x80 >> uint(bit%8)
		set = append(set, kiv{k, fill(il, 0xff), "key-bit"})
	}
	for bit := 0; bit < 8*il; bit++ {
		if quick && !(il == 23 && bit/8 >= 17) {
			continue
		}
		v := fill(il, 0)
		v[bit/8] = 0x80 >> uint(bit%8)
		set = append(set, kiv{fill(kl, 0), v, "iv-bit"})
		v = fill(il, 0xff)
		v[bit/8] ^= 0x80 >> uint(bit%8)
		set = append(set, kiv{fill(kl, 0xff), v, "iv-bit"})
	}
	return set
}

func widenKeyValues(c *engine.Ctx) {
	quick := c.Quick()
	for _, v := range variants {
		v := v
		c.Case("widen/keyiv/stream/"+v.name, func(t *engine.T) {
			zero := make([]byte, 140)
			for i, kv := range keyIVSet(v.keyLen, v.ivLen, quick) {
				ks := zucref.KeyStream(kv.key, kv.iv, 140)
				k, iv := append([]byte{}, kv.key...), append([]byte{}, kv.iv...)
				var out, back []byte
				if t.Guard("keyiv/stream/"+v.name, func() {
					s := mustStream(k, iv, 128, i%2 == 1)
					out = make([]byte, 140)
					s.XORKeyStream(out, zero)
					back = make([]byte, 9)
					s.XORKeyStreamAt(back, zero[:9], 3) // rewind: re-derived from the initial state
				}) {
					return
				}
				t.Eval(2)
				if !bytes.Equal(out, ks) || !bytes.Equal(back, ks[3:12]) {
					t.Fail("keyiv/stream/"+v.name+"/wrong-keystream/"+kv.class, "key %x iv %x: keystream %s, reference %s (after rewind to 3: %x)", kv.key, kv.iv, engine.Hex(out), engine.Hex(ks), back)
					return
				}
				t.Nontrivial(fmt.Sprintf("keyiv/%s/%x/%x", v.name, kv.key, kv.iv))
				t.Outcome(string(ks[:8]))
			}
		})
	}
	for _, mv := range macVariants {
		mv := mv
		c.Case("widen/keyiv/mac/"+mv.name, func(t *engine.T) {
			kl, il := 16, 16
			if mv.z256 {
				kl, il = 32, 23
			}
			msg := patMsg(0, 19)
			for _, kv := range keyIVSet(kl, il, quick) {
				ref := func(nbits int) []byte {
					if mv.z256 {
						return zucref.MAC256(kv.key, kv.iv, mv.tag, msg, nbits)
					}
					return zucref.EIA3(kv.key, kv.iv, msg, nbits)
				}
				var f, s []byte
				if t.Guard("keyiv/mac/"+mv.name, func() {
					var h zuc.EIA
					var err error
					if mv.z256 {
						h, err = zuc.NewHash256(kv.key, kv.iv, mv.tag)
					} else {
						h, err = zuc.NewHash(kv.key, kv.iv)
					}
					if err != nil {
						panic(fmt.Sprintf("harness: MAC constructor failed: %v", err))
					}
					f = h.Finish(msg, 145) // 17 bits after the last 128-bit block: outside the recorded known finding's classes
					h.Write(msg[:16])
					s = h.Sum(nil)
				}) {
					return
				}
				t.Eval(2)
				if w := ref(145); !bytes.Equal(f, w) {
					t.Fail("keyiv/mac/"+mv.name+"/tag-mismatch/"+kv.class, "key %x iv %x: Finish(145 bits) = %x, reference %x", kv.key, kv.iv, f, w)
					return
				}
				if w := ref(128); !bytes.Equal(s, w) {
					t.Fail("keyiv/mac/"+mv.name+"/tag-mismatch/"+kv.class, "key %x iv %x: reuse after Finish, Write(16);Sum = %x, reference %x", kv.key, kv.iv, s, w)
					return
				}
				t.Nontrivial(fmt.Sprintf("keyiv/%s/%x/%x", mv.name, kv.key, kv.iv))
				t.Outcome(string(f))
			}
		})
	}
}

// ---------------------------------------------------------------------------------------------
// constructor arguments

func widenCtorArguments(c *engine.Ctx) {
	// (1) the EEA3 / EIA3 constructors: the key is overwritten after construction and must not be modified
	c.Case("widen/ctor-arguments/eea+eia", func(t *engine.T) {
		zero := make([]byte, 1000)
		for _, bucket := range []int{-1, 0, 128, 300} {
			key := append([]byte{}, engine.Pattern(7, 16)...)
			k0 := append([]byte{}, key...)
			count, bearer, dir := uint32(0x80c1f203), uint32(21), uint32(1)
			what := fmt.Sprintf("NewEEACipher bucket=%d", bucket)
			var s gmcipher.SeekableStream
			var err error
			if t.Guard("ctor-arguments/eea", func() {
				if bucket < 0 {
					s, err = zuc.NewEEACipher(key, count, bearer, dir)
				} else {
					s, err = zuc.NewEEACipherWithBucketSize(key, count, bearer, dir, bucket)
				}
			}) {
				continue
			}
			if err != nil {
				t.Fail("ctor-arguments/eea/constructor-error", "%s: %v", what, err)
				continue
			}
			if !bytes.Equal(key, k0) {
				t.Fail("ctor-arguments/eea/constructor-modifies-argument", "%s: key %x -> %x", what, k0, key)
			}
			for i := range key {
				key[i] = 0x3C
			}
			ks := zucref.Stream128(k0, zucref.EEA3IV(count, bearer, dir), 1000)
			out, back := make([]byte, 700), make([]byte, 200)
			t.Guard("ctor-arguments/eea", func() {
				s.XORKeyStream(out[:300], zero[:300])
				s.XORKeyStream(out[300:], zero[300:700])
				s.XORKeyStreamAt(back, zero[:200], 5)
			})
			t.Eval(3)
			if !bytes.Equal(out, ks[:700]) {
				t.Fail("ctor-arguments/eea/object-depends-on-callers-slices", "%s: sequential keystream differs at byte %d after the caller overwrote the key", what, engine.FirstDiff(out, ks[:700]))
			}
			if !bytes.Equal(back, ks[5:205]) {
				t.Fail("ctor-arguments/eea/rewind-depends-on-callers-slices", "%s: XORKeyStreamAt(5) after the caller overwrote the key differs at byte %d", what, engine.FirstDiff(back, ks[5:205]))
			}
			t.Nontrivial("ctor-arguments/" + what)
		}
		key := append([]byte{}, engine.Pattern(8, 16)...)
		k0 := append([]byte{}, key...)
		count, bearer, dir := uint32(0x01fe8877), uint32(30), uint32(1)
		var h zuc.EIA
		var err error
		if t.Guard("ctor-arguments/eia", func() { h, err = zuc.NewEIAHash(key, count, bearer, dir) }) {
			return
		}
		if err != nil {
			t.Fail("ctor-arguments/eia/constructor-error", "NewEIAHash: %v", err)
			return
		}
		if !bytes.Equal(key, k0) {
			t.Fail("ctor-arguments/eia/constructor-modifies-argument", "key %x -> %x", k0, key)
		}
		for i := range key {
			key[i] = 0x99
		}
		m := engine.Pattern(3, 29)
		want := zucref.EIA3(k0, zucref.EIA3IV(count, bearer, dir), m, 8*len(m))
		for round := 0; round < 3; round++ {
			var got []byte
			t.Guard("ctor-arguments/eia", func() {
				h.Write(m)
				got = h.Sum(nil)
				if round == 1 {
					got = append([]byte{}, h.Finish(nil, 0)...)
				} else {
					h.Reset()
				}
			})
			t.Eval(1)
			if !bytes.Equal(got, want) {
				t.Fail("ctor-arguments/eia/object-depends-on-callers-slices", "round %d (after Reset / Finish re-initialised the object): got %x want %x", round, got, want)
			}
		}
		t.Nontrivial("ctor-arguments/NewEIAHash")
		t.Outcome("ctor-arguments/eea+eia")
	})

	// (2) one pair of slices handed to three constructors in turn (other values each time), the three
	// objects then used alternately
	c.Case("widen/ctor-arguments/shared-slices/stream", func(t *engine.T) {
		b := newBufs()
		defer b.free()
		for _, v := range variants {
			for _, bucket := range []int{0, 128, 256} {
				key, iv := make([]byte, v.keyLen), make([]byte, v.ivLen)
				var objs []*sstate
				var exps [][]byte
				for j := 0; j < 3; j++ {
					engine.FillPattern(key, 20+j)
					engine.FillPattern(iv, 30+j)
					ks := zucref.KeyStream(key, iv, 1024)
					for i := range ks {
						ks[i] ^= content(i)
					}
					exps = append(exps, ks)
					k0, iv0 := append([]byte{}, key...), append([]byte{}, iv...)
					var s gmcipher.SeekableStream
					if t.Guard("ctor-arguments/shared-slices/stream", func() { s = mustStream(key, iv, bucket, bucket != 0) }) {
						return
					}
					if !bytes.Equal(key, k0) || !bytes.Equal(iv, iv0) {
						t.Fail("ctor-arguments/shared-slices/stream/constructor-modifies-argument", "%s bucket=%d: key %x -> %x, iv %x -> %x", v.name, bucket, k0, key, iv0, iv)
						return
					}
					objs = append(objs, &sstate{c: s})
				}
				dirty(key, 1)
				dirty(iv, 2)
				for r, o := range []sop{{l: 130}, {at: true, off: 5, l: 200}, {l: 3}, {at: true, off: 700, l: 129}, {at: true, off: 127, l: 2}, {l: 300}} {
					for j, s := range objs {
						ok := apply(t, b, exps[j], s, o, (r+j)%nModes, "shared-slices/"+bucketClass(bucket))
						t.Eval(1)
						if !ok {
							return
						}
					}
				}
				t.Nontrivial(fmt.Sprintf("shared-slices/%s/%d", v.name, bucket))
			}
		}
		t.Outcome("shared-slices/stream")
	})
	c.Case("widen/ctor-arguments/shared-slices/mac", func(t *engine.T) {
		col := newCollector()
		defer col.flush(t)
		for _, mv := range macVariants {
			kl, il := 16, 16
			if mv.z256 {
				kl, il = 32, 23
			}
			key, iv := make([]byte, kl), make([]byte, il)
			var objs []zuc.EIA
			var keys, ivs [][]byte
			for j := 0; j < 3; j++ {
				engine.FillPattern(key, 40+j)
				engine.FillPattern(iv, 50+j)
				keys, ivs = append(keys, append([]byte{}, key...)), append(ivs, append([]byte{}, iv...))
				var h zuc.EIA
				var err error
				if t.Guard("ctor-arguments/shared-slices/mac", func() {
					if mv.z256 {
						h, err = zuc.NewHash256(key, iv, mv.tag)
					} else {
						h, err = zuc.NewHash(key, iv)
					}
				}) {
					return
				}
				if err != nil {
					panic(fmt.Sprintf("harness: MAC constructor failed: %v", err))
				}
				if !bytes.Equal(key, keys[j]) || !bytes.Equal(iv, ivs[j]) {
					t.Fail("ctor-arguments/shared-slices/mac/constructor-modifies-argument", "%s", mv.name)
					return
				}
				objs = append(objs, h)
			}
			dirty(key, 3)
			dirty(iv, 4)
			msg := patMsg(0, 64)
			ref := func(j, nbits int) []byte {
				if mv.z256 {
					return zucref.MAC256(keys[j], ivs[j], mv.tag, msg, nbits)
				}
				return zucref.EIA3(keys[j], ivs[j], msg, nbits)
			}
			n := 0
			for _, chunk := range []int{1, 16, 19} { // totals 1, 17, 36 bytes: at most 32 bits behind the last 128-bit block
				for j, h := range objs {
					var got []byte
					if t.Guard("ctor-arguments/shared-slices/mac", func() { h.Write(msg[n : n+chunk]); got = h.Sum(nil) }) {
						return
					}
					t.Eval(1)
					if w := ref(j, 8*(n+chunk)); !bytes.Equal(got, w) {
						col.add("ctor-arguments/shared-slices/mac/object-depends-on-callers-slices", 8*(n+chunk), fmt.Sprintf("[%s] object %d of 3 built from the same slices: Sum over %d bytes = %x, reference %x", mv.name, j, n+chunk, got, w))
					}
				}
				n += chunk
			}
			for j, h := range objs { // Reset re-initialises from what the object stored at construction
				var got []byte
				if t.Guard("ctor-arguments/shared-slices/mac", func() { h.Reset(); h.Write(msg[:20]); got = h.Sum(nil) }) {
					return
				}
				t.Eval(1)
				if w := ref(j, 160); !bytes.Equal(got, w) {
					col.add("ctor-arguments/shared-slices/mac/object-depends-on-callers-slices", 160, fmt.Sprintf("[%s] object %d of 3 after Reset: Sum over 20 bytes = %x, reference %x", mv.name, j, got, w))
				}
			}
			t.Nontrivial("shared-slices/" + mv.name)
		}
		t.Outcome("shared-slices/mac")
	})

	// (3) key and IV carved from one record (capacities reach to its end, dirty slack behind): the record is
	// unchanged after construction and after use, and the result does not depend on what lies behind an argument
	c.Case("widen/ctor-arguments/record", func(t *engine.T) {
		type ctor struct {
			name   string
			kl, il int
			run    func(key, iv []byte) []byte
		}
		streamRun := func(bucket int) func(key, iv []byte) []byte {
			return func(key, iv []byte) []byte {
				s := mustStream(key, iv, bucket, bucket != 0)
				out := make([]byte, 300)
				s.XORKeyStream(out[:200], out[:200])
				s.XORKeyStreamAt(out[200:], out[200:], 7)
				return out
			}
		}
		macRun := func(tag int) func(key, iv []byte) []byte {
			return func(key, iv []byte) []byte {
				var h zuc.EIA
				var err error
				if tag == 0 {
					h, err = zuc.NewHash(key, iv)
				} else {
					h, err = zuc.NewHash256(key, iv, tag)
				}
				if err != nil {
					panic(fmt.Sprintf("harness: MAC constructor failed: %v", err))
				}
				h.Write(patMsg(0, 17))
				out := h.Sum(nil)
				h.Reset()
				h.Write(patMsg(0, 3))
				return h.Sum(out)
			}
		}
		ctors := []ctor{
			{"NewCipher/zuc128", 16, 16, streamRun(0)}, {"NewCipherWithBucketSize/zuc128", 16, 16, streamRun(128)},
			{"NewCipher/zuc256", 32, 23, streamRun(0)}, {"NewCipherWithBucketSize/zuc256", 32, 23, streamRun(256)},
			{"NewHash", 16, 16, macRun(0)}, {"NewHash256/4", 32, 23, macRun(4)}, {"NewHash256/8", 32, 23, macRun(8)}, {"NewHash256/16", 32, 23, macRun(16)},
		}
		for _, ct := range ctors {
			kv, ivv := engine.Pattern(61, ct.kl), engine.Pattern(62, ct.il)
			var base []byte
			for lay := 0; lay < 4; lay++ {
				const pad, slack = 5, 64
				var rec, key, iv []byte
				switch lay {
				case 0: // exact capacities, each argument ends at a PROT_NONE page
					gk, gi := engine.GuardCopy(kv), engine.GuardCopy(ivv)
					defer gk.Free()
					defer gi.Free()
					key, iv = gk.B, gi.B
				case 1: // key||iv
					rec = make([]byte, pad+ct.kl+ct.il+slack)
					dirty(rec, 11)
					key, iv = rec[pad:pad+ct.kl], rec[pad+ct.kl:pad+ct.kl+ct.il]
				case 2: // iv||key
					rec = make([]byte, pad+ct.kl+ct.il+slack)
					dirty(rec, 12)
					iv, key = rec[pad:pad+ct.il], rec[pad+ct.il:pad+ct.il+ct.kl]
				case 3: // key and IV overlap (ZUC-128: the same 16 bytes; ZUC-256: the IV is the head of the key): compared with the same values in separate slices
					rec = make([]byte, pad+ct.kl+slack)
					dirty(rec, 13)
					key = rec[pad : pad+ct.kl]
					iv = key[:ct.il]
				}
				if lay != 3 {
					copy(key, kv)
					copy(iv, ivv)
				} else {
					copy(key, kv)
				}
				snap := append([]byte{}, rec...)
				var out []byte
				if t.Guard("ctor-arguments/record/"+ct.name, func() { out = ct.run(key, iv) }) {
					continue
				}
				t.Eval(1)
				if !bytes.Equal(rec, snap) {
					t.Fail("ctor-arguments/record/caller-memory-modified", "%s layout %d: byte %d of the record holding key and iv changed", ct.name, lay, engine.FirstDiff(rec, snap))
				}
				switch lay {
				case 0:
					base = out
					if !bytes.Equal(key, kv) || !bytes.Equal(iv, ivv) {
						t.Fail("ctor-arguments/record/caller-memory-modified", "%s: exact-capacity key or iv changed", ct.name)
					}
				case 1, 2:
					if !bytes.Equal(out, base) {
						t.Fail("ctor-arguments/record/result-depends-on-layout", "%s layout %d: output differs from the one for the same key/iv in separate exact-capacity slices", ct.name, lay)
					}
				case 3:
					var sep []byte
					k2, i2 := append([]byte{}, key...), append([]byte{}, iv...)
					if t.Guard("ctor-arguments/record/"+ct.name, func() { sep = ct.run(k2, i2) }) {
						continue
					}
					if !bytes.Equal(out, sep) {
						t.Fail("ctor-arguments/record/result-depends-on-layout", "%s: output for overlapping key/iv differs from the one for equal values in separate slices", ct.name)
					}
				}
				t.Nontrivial(fmt.Sprintf("ctor-record/%s/%d", ct.name, lay))
			}
		}
		t.Outcome("ctor-arguments/record")
	})
}

// ---------------------------------------------------------------------------------------------
// every size of key, IV and tag: the two standard size pairs work (also right after rejected calls), no size makes
// a constructor panic, sizes for which no ZUC variant exists are rejected (as the constructors document)

// noStandard reports whether no ZUC variant is defined for these sizes. 32/25 (the unpacked ZUC-256 IV form,
// accepted by other versions of the library) is left unjudged.
func noStandard(kl, il int) bool {
	switch kl {
	case 16:
		return il != 16
	case 32:
		return il != 23 && il != 25
	}
	return true
}

func widenCtorSizes(c *engine.Ctx) {
	type sized struct {
		name string
		mk   func(key, iv []byte) (any, error)
		use  func(obj any) []byte
		ref  func(key, iv []byte) []byte
		kl   int // key length of the variant this constructor can build (0: both)
	}
	useStream := func(obj any) []byte {
		out := make([]byte, 20)
		obj.(gmcipher.SeekableStream).XORKeyStream(out, out)
		return out
	}
	useMac := func(obj any) []byte {
		h := obj.(zuc.EIA)
		h.Write([]byte{1, 2, 3})
		return h.Sum(nil)
	}
	refStream := func(key, iv []byte) []byte { return zucref.KeyStream(key, iv, 20) }
	list := []sized{
		{"NewCipher", func(k, iv []byte) (any, error) { return zuc.NewCipher(k, iv) }, useStream, refStream, 0},
		{"NewCipherWithBucketSize", func(k, iv []byte) (any, error) { return zuc.NewCipherWithBucketSize(k, iv, 128) }, useStream, refStream, 0},
		{"NewHash", func(k, iv []byte) (any, error) { return zuc.NewHash(k, iv) }, useMac,
			func(k, iv []byte) []byte { return zucref.EIA3(k, iv, []byte{1, 2, 3}, 24) }, 16},
	}
	for _, tag := range []int{4, 8, 16} {
		tag := tag
		list = append(list, sized{fmt.Sprintf("NewHash256/tag%d", 8*tag), func(k, iv []byte) (any, error) { return zuc.NewHash256(k, iv, tag) }, useMac,
			func(k, iv []byte) []byte { return zucref.MAC256(k, iv, tag, []byte{1, 2, 3}, 24) }, 32})
	}
	isNil := func(obj any) bool {
		switch o := obj.(type) {
		case nil:
			return true
		case gmcipher.SeekableStream:
			return o == nil
		case zuc.EIA:
			return o == nil
		}
		return false
	}
	const maxLen = 40
	for _, sz := range list {
		sz := sz
		c.Case(fmt.Sprintf("widen/ctor-sizes/%s/key=0..%d/iv=0..%d", sz.name, maxLen, maxLen), func(t *engine.T) {
			gk, gi := engine.NewGuardBuf(maxLen), engine.NewGuardBuf(maxLen)
			defer gk.Free()
			defer gi.Free()
			engine.FillPattern(gk.B, 71)
			engine.FillPattern(gi.B, 72)
			accepted, rejected := 0, 0
			for kl := 0; kl <= maxLen; kl++ {
				for il := 0; il <= maxLen; il++ {
					for nilForm := 0; nilForm < 2; nilForm++ {
						if nilForm == 1 && kl != 0 && il != 0 {
							continue
						}
						key, iv := tail(gk, kl), tail(gi, il) // end at a PROT_NONE page: reading past a short key crashes the worker
						if nilForm == 1 {
							if kl == 0 {
								key = nil
							}
							if il == 0 {
								iv = nil
							}
						}
						valid := (kl == 16 && il == 16 && sz.kl != 32) || (kl == 32 && il == 23 && sz.kl != 16)
						var obj any
						var err error
						if t.Guard("ctor-sizes/"+sz.name, func() { obj, err = sz.mk(key, iv) }) {
							return
						}
						t.Eval(1)
						if err != nil {
							rejected++
							if valid {
								t.Fail("ctor-sizes/"+sz.name+"/standard-size-rejected", "key %d bytes, iv %d bytes: %v", kl, il, err)
								return
							}
							continue
						}
						accepted++
						if isNil(obj) {
							t.Fail("ctor-sizes/"+sz.name+"/nil-object-without-error", "key %d bytes, iv %d bytes: nil object and nil error", kl, il)
							return
						}
						if noStandard(kl, il) {
							t.Fail("ctor-sizes/"+sz.name+"/undefined-size-accepted", "key %d bytes with iv %d bytes was accepted: no ZUC variant is defined for these sizes (the constructor documents an error)", kl, il)
							return
						}
						if !valid {
							continue // a size pair of the other variant or 32/25: not judged
						}
						var got []byte
						if t.Guard("ctor-sizes/"+sz.name, func() { got = sz.use(obj) }) {
							return
						}
						if want := sz.ref(key, iv); !bytes.Equal(got, want) {
							t.Fail("ctor-sizes/"+sz.name+"/wrong-output", "key %d bytes, iv %d bytes (after %d rejected constructor calls): got %x want %x", kl, il, rejected, got, want)
							return
						}
						t.Nontrivial(fmt.Sprintf("ctor-sizes/%s/%d/%d", sz.name, kl, il))
					}
				}
			}
			if !gk.Check() || !gi.Check() {
				t.Fail("ctor-sizes/"+sz.name+"/write-before-buffer", "canary before key or iv overwritten")
			}
			t.Outcome(fmt.Sprintf("ctor-sizes/%s/accepted=%d", sz.name, accepted))
			t.Outcome(fmt.Sprintf("ctor-sizes/%s/rejected=%v", sz.name, rejected > 0))
		})
	}
	c.Case("widen/ctor-sizes/tag-sizes+eea-eia-key-sizes", func(t *engine.T) {
		key, iv := keyOf(32, 0), keyOf(23, 0)
		for tag := -17; tag <= 65; tag++ {
			var h zuc.EIA
			var err error
			if t.Guard("ctor-sizes/NewHash256/tag-size", func() { h, err = zuc.NewHash256(key, iv, tag) }) {
				return
			}
			t.Eval(1)
			std := tag == 4 || tag == 8 || tag == 16
			switch {
			case err != nil && std:
				t.Fail("ctor-sizes/NewHash256/standard-tag-size-rejected", "tag size %d: %v", tag, err)
			case err == nil && !std:
				t.Fail("ctor-sizes/NewHash256/undefined-tag-size-accepted", "tag size %d bytes accepted: the ZUC-256 MAC defines 32, 64 and 128-bit tags only", tag)
			case err == nil:
				if h == nil || h.Size() != tag {
					t.Fail("ctor-sizes/NewHash256/size", "tag size %d: object reports another size", tag)
				}
				t.Nontrivial(fmt.Sprintf("tag-size/%d", tag))
			}
		}
		gk := engine.NewGuardBuf(40)
		defer gk.Free()
		engine.FillPattern(gk.B, 73)
		for kl := 0; kl <= 40; kl++ {
			k := tail(gk, kl)
			for which := 0; which < 3; which++ {
				name := [3]string{"NewEEACipher", "NewEEACipherWithBucketSize", "NewEIAHash"}[which]
				var s gmcipher.SeekableStream
				var h zuc.EIA
				var err error
				if t.Guard("ctor-sizes/"+name, func() {
					switch which {
					case 0:
						s, err = zuc.NewEEACipher(k, 7, 3, 1)
					case 1:
						s, err = zuc.NewEEACipherWithBucketSize(k, 7, 3, 1, 256)
					default:
						h, err = zuc.NewEIAHash(k, 7, 3, 1)
					}
				}) {
					return
				}
				t.Eval(1)
				switch {
				case err != nil && kl == 16:
					t.Fail("ctor-sizes/"+name+"/standard-size-rejected", "16-byte key: %v", err)
				case err == nil && kl != 16 && kl != 32:
					t.Fail("ctor-sizes/"+name+"/undefined-size-accepted", "%d-byte key accepted", kl)
				case err == nil && kl == 16:
					var got, want []byte
					if t.Guard("ctor-sizes/"+name, func() {
						if which < 2 {
							got = make([]byte, 20)
							s.XORKeyStream(got, got)
							want = zucref.Stream128(k, zucref.EEA3IV(7, 3, 1), 20)
						} else {
							got = h.Finish([]byte{0xA5, 0x80}, 9)
							want = zucref.EIA3(k, zucref.EIA3IV(7, 3, 1), []byte{0xA5, 0x80}, 9)
						}
					}) {
						return
					}
					if !bytes.Equal(got, want) {
						t.Fail("ctor-sizes/"+name+"/wrong-output", "after %d rejected key sizes: got %x want %x", kl, got, want)
					}
					t.Nontrivial("ctor-sizes/" + name)
				}
			}
		}
		t.Outcome("ctor-sizes/tags+eea")
	})
}

// ---------------------------------------------------------------------------------------------
// fields of the EEA3 / EIA3 constructors: COUNT values with zero bytes and single set bytes / top bits, every
// bearer and direction, every kind of bucket size, with a backward seek (re-derivation from the stored state)

func widenEEAFields(c *engine.Ctx) {
	counts := []uint32{0, 1, 0xff, 0xff00, 0xff0000, 0xff000000, 0x80000000, 0x7fffffff, 0x00010000, 0x01000000, 0xfffffffe, 0x00ffffff, 0xffffff00}
	c.Case("widen/stream/eea3-fields", func(t *engine.T) {
		key := keyOf(16, 0)
		bks := []int{-1, 0, 1, 129, 1024}
		i := 0
		for _, count := range counts {
			for bearer := uint32(0); bearer < 32; bearer++ {
				for dir := uint32(0); dir < 2; dir++ {
					ks := zucref.Stream128(key, zucref.EEA3IV(count, bearer, dir), 400)
					bucket := bks[i%len(bks)]
					i++
					var out, back []byte
					var err error
					if t.Guard("stream/eea3-fields", func() {
						var s gmcipher.SeekableStream
						if bucket < 0 {
							s, err = zuc.NewEEACipher(key, count, bearer, dir)
						} else {
							s, err = zuc.NewEEACipherWithBucketSize(key, count, bearer, dir, bucket)
						}
						if err != nil {
							return
						}
						out = make([]byte, 400)
						s.XORKeyStream(out[:130], out[:130])
						s.XORKeyStreamAt(out[130:], out[130:], 130)
						back = make([]byte, 140)
						s.XORKeyStreamAt(back[:20], back[:20], 300) // backwards into a later bucket, then an earlier one, then the first
						s.XORKeyStreamAt(back[20:40], back[20:40], 150)
						s.XORKeyStreamAt(back[40:], back[40:], 3)
					}) {
						return
					}
					t.Eval(5)
					if err != nil {
						t.Fail("stream/eea3-constructor-error", "NewEEACipher: %v", err)
						return
					}
					if !bytes.Equal(out, ks) {
						t.Fail("stream/eea3-iv", "NewEEACipher(count=%#x, bearer=%d, direction=%d, bucket %d): keystream differs from ZUC-128 under the EEA3 IV at byte %d", count, bearer, dir, bucket, engine.FirstDiff(out, ks))
						return
					}
					wantBack := append(append(append([]byte{}, ks[300:320]...), ks[150:170]...), ks[3:103]...)
					if !bytes.Equal(back, wantBack) {
						t.Fail("stream/eea3-rewind", "NewEEACipher(count=%#x, bearer=%d, direction=%d, bucket %d): XORKeyStreamAt 300 / 150 / 3 after 400 bytes: byte %d of the three outputs differs", count, bearer, dir, bucket, engine.FirstDiff(back, wantBack))
						return
					}
					t.Nontrivial(fmt.Sprintf("eea3f/%d/%d/%d", count, bearer, dir))
				}
			}
		}
		t.Outcome("eea3-fields")
	})
	c.Case("widen/mac/eia3-fields", func(t *engine.T) {
		key := keyOf(16, 1)
		msg := patMsg(0, 40)
		for _, count := range counts {
			for bearer := uint32(0); bearer < 32; bearer++ {
				for dir := uint32(0); dir < 2; dir++ {
					iv := zucref.EIA3IV(count, bearer, dir)
					var h zuc.EIA
					var err error
					if t.Guard("mac/eia3-fields", func() { h, err = zuc.NewEIAHash(key, count, bearer, dir) }) {
						return
					}
					if err != nil {
						t.Fail("mac/eia3-constructor-error", "NewEIAHash: %v", err)
						return
					}
					for _, nbits := range []int{0, 97, 320} {
						var got []byte
						if t.Guard("mac/eia3-fields", func() { got = h.Finish(msg, nbits) }) {
							return
						}
						t.Eval(1)
						if want := zucref.EIA3(key, iv, msg, nbits); !bytes.Equal(got, want) {
							t.Fail("mac/eia3-iv", "NewEIAHash(count=%#x, bearer=%d, direction=%d).Finish(%d bits) = %x, reference %x", count, bearer, dir, nbits, got, want)
							return
						}
					}
					t.Nontrivial(fmt.Sprintf("eia3f/%d/%d/%d", count, bearer, dir))
				}
			}
		}
		t.Outcome("eia3-fields")
	})
}

// ---------------------------------------------------------------------------------------------
// MAC buffers: capacity classes of Sum's argument, ownership of returned tags, message arguments longer than the
// hashed bits or followed by dirty memory, nil / empty arguments, input integrity

func widenMacBuffers(c *engine.Ctx) {
	for mvi, mv := range macVariants {
		mvi, mv := mvi, mv
		c.Case("widen/mac/buffers/"+mv.name, func(t *engine.T) {
			col := newCollector()
			defer col.flush(t)
			g := engine.NewGuardBuf(64)
			defer g.Free()
			kp := "mac/buffers/" + mv.name
			junk := func(b []byte) {
				for i := range b {
					b[i] = 0xEE
				}
			}
			for _, n := range []int{0, 1, 4, 9, 15, 16, 17, 20, 33, 36} {
				mk := func() zuc.EIA {
					h := mv.new(0)
					if n > 0 {
						h.Write(patMsg(0, n))
					}
					return h
				}
				var h zuc.EIA
				var base []byte
				if t.Guard(kp, func() { h = mk(); base = append([]byte{}, h.Sum(nil)...) }) {
					return
				}
				if want := refTag(mvi, 0, 0, 8*n); !bytes.Equal(base, want) {
					col.add(mv.mismatchKey(8*n), 8*n, fmt.Sprintf("[%s] Write(%d);Sum = %x, reference %x", mv.name, n, base, want))
				}
				// (a) capacity classes of Sum's argument, spare capacity dirty
				for _, k := range []int{0, 1, 5} {
					for _, spare := range []int{0, 1, mv.tag - 1, mv.tag, mv.tag + 1, mv.tag + 40} {
						rec := make([]byte, k+spare)
						dirty(rec, spare)
						for i := 0; i < k; i++ {
							rec[i] = 'a' + byte(i)
						}
						prefix := append([]byte{}, rec[:k]...)
						var res []byte
						if t.Guard(kp+"/sum-capacity", func() { res = h.Sum(rec[:k]) }) {
							return
						}
						t.Eval(1)
						class := "spare<tag"
						if spare >= mv.tag {
							class = "spare>=tag"
						}
						if len(res) != k+mv.tag || !bytes.Equal(res[:k], prefix) || !bytes.Equal(res[k:], base) {
							t.Fail(kp+"/sum-capacity/wrong-result/"+class, "after %d bytes: Sum(in) with len(in)=%d cap(in)=%d (dirty spare capacity) = %x, want %x||%x", n, k, k+spare, res, prefix, base)
							return
						}
						if !bytes.Equal(rec[:k], prefix) {
							t.Fail(kp+"/sum-capacity/argument-modified/"+class, "after %d bytes: Sum(in) modified in[:len(in)] (len %d, cap %d)", n, k, k+spare)
							return
						}
						// the returned slice is the caller's: overwrite it, the object must not notice
						junk(res)
						var again []byte
						if t.Guard(kp+"/sum-capacity", func() { again = h.Sum(nil) }) {
							return
						}
						if !bytes.Equal(again, base) {
							t.Fail(kp+"/result-aliasing/sum-result-is-object-state", "after %d bytes: overwriting the slice returned by Sum changed the next Sum: %x, before %x", n, again, base)
							return
						}
						t.Nontrivial(fmt.Sprintf("sumcap/%s/%d/%d", mv.name, k, spare))
					}
				}
				// (b) two results do not share memory
				var r1, r2 []byte
				if t.Guard(kp, func() { r1 = h.Sum(nil); r2 = h.Sum(nil) }) {
					return
				}
				junk(r1)
				if !bytes.Equal(r2, base) {
					t.Fail(kp+"/result-aliasing/sum-sum", "after %d bytes: overwriting the first Sum(nil) result changed the second one", n)
					return
				}
				// (c) empty writes
				for _, e := range [][]byte{nil, {}} {
					var wn int
					var werr error
					var s []byte
					if t.Guard(kp+"/empty-write", func() { wn, werr = h.Write(e); s = h.Sum(nil) }) {
						return
					}
					t.Eval(1)
					if wn != 0 || werr != nil || !bytes.Equal(s, base) {
						t.Fail(kp+"/empty-write", "after %d bytes: Write(empty) returned (%d,%v), Sum %x, before %x", n, wn, werr, s, base)
						return
					}
				}
				// (d) Finish: p exactly as long as needed / longer / followed by dirty memory / nil; p is not modified
				for _, fb := range []int{0, 1, 7, 8, 9, 24, 31, 32} {
					nb := (fb + 7) / 8
					total := 8*n + fb
					msg := make([]byte, nb)
					for i := range msg {
						msg[i] = content(n + i)
					}
					var exact []byte
					for form := 0; form < 4; form++ {
						var p, rec []byte
						switch form {
						case 0: // exact, ends at a PROT_NONE page
							p = tail(g, nb)
							copy(p, msg)
							rec = p
						case 1: // len(p) > ceil(nbits/8), the extra bytes are not part of the message
							rec = make([]byte, nb+23)
							dirty(rec, fb)
							copy(rec, msg)
							p = rec
						case 2: // len(p) exact, dirty bytes behind it within its capacity
							rec = make([]byte, nb+23)
							dirty(rec, fb+1)
							copy(rec, msg)
							p = rec[:nb]
						case 3: // nil
							if fb != 0 {
								continue
							}
						}
						snap := append([]byte{}, rec...)
						var got []byte
						if t.Guard(kp+"/finish", func() { got = append([]byte{}, mk().Finish(p, fb)...) }) {
							return
						}
						t.Eval(1)
						if !bytes.Equal(rec, snap) {
							t.Fail(kp+"/finish-input-modified", "after %d bytes: Finish(p,%d) modified byte %d of p's array (form %d)", n, fb, engine.FirstDiff(rec, snap), form)
							return
						}
						if form == 0 {
							exact = got
							if want := refTag(mvi, 0, 0, total); !bytes.Equal(got, want) {
								col.add(mv.mismatchKey(total), total, fmt.Sprintf("[%s] Write(%d);Finish(p,%d) = %x, reference %x", mv.name, n, fb, got, want))
							}
							if fb == 0 && !bytes.Equal(got, base) {
								t.Fail(kp+"/finish-0-differs-from-sum", "after %d bytes: Finish(p,0) = %x, Sum(nil) = %x", n, got, base)
								return
							}
							continue
						}
						if !bytes.Equal(got, exact) {
							t.Fail(kp+"/finish-depends-on-bytes-behind-the-message/"+[4]string{"", "longer-p", "dirty-capacity", "nil-p"}[form],
								"after %d bytes: Finish(p,%d) = %x, with p of exactly %d bytes %x", n, fb, got, nb, exact)
							return
						}
					}
					t.Nontrivial(fmt.Sprintf("finishforms/%s/%d/%d", mv.name, n%16, fb))
				}
				// (e) a tag returned by Finish / Sum stays what it was when the object goes on, and overwriting returned
				// tags does not reach the object
				var f1, f2, s1 []byte
				hA := mk()
				p1, p2 := []byte{0xC3, 0x5A}, []byte{0x17}
				if t.Guard(kp+"/finish", func() { s1 = hA.Sum(nil); f1 = hA.Finish(p1, 9) }) {
					return
				}
				c1 := append([]byte{}, f1...)
				if !bytes.Equal(s1, base) {
					t.Fail(kp+"/result-aliasing/sum-finish", "after %d bytes: the slice returned by Sum changed during the following Finish", n)
					return
				}
				if t.Guard(kp+"/finish", func() { f2 = hA.Finish(p2, 8) }) {
					return
				}
				t.Eval(2)
				if !bytes.Equal(f1, c1) {
					t.Fail(kp+"/result-aliasing/finish-finish", "after %d bytes: the tag returned by the first Finish (%x) changed to %x during the second Finish", n, c1, f1)
					return
				}
				junk(f1)
				junk(f2)
				junk(s1)
				var after, fresh []byte
				if t.Guard(kp+"/finish", func() {
					hA.Write(patMsg(0, 17))
					after = hA.Sum(nil)
					hF := mv.new(0)
					hF.Write(patMsg(0, 17))
					fresh = hF.Sum(nil)
				}) {
					return
				}
				if !bytes.Equal(after, fresh) {
					t.Fail(kp+"/result-aliasing/finish-result-is-object-state", "after %d bytes: overwriting the tags returned by Finish changed the object: next Write(17);Sum = %x, fresh object %x", n, after, fresh)
					return
				}
				t.Outcome(string(base))
			}
			if !g.Check() {
				t.Fail(kp+"/write-before-buffer", "canary before the message buffer was overwritten")
			}
		})
	}
	// message carved from a record with dirty bytes behind it, at every alignment of its start (the assembly block
	// rounds read 16 bytes at a time): same tag as from an exact-capacity buffer, record unchanged
	for mvi, mv := range macVariants {
		mvi, mv := mvi, mv
		c.Case("widen/mac/message-layout/"+mv.name, func(t *engine.T) {
			col := newCollector()
			defer col.flush(t)
			g := engine.NewGuardBuf(80)
			defer g.Free()
			for n := 0; n <= 68; n++ {
				want := refTag(mvi, 0, 0, 8*n)
				for a := 0; a < 17; a++ {
					rec := make([]byte, a+n+33)
					dirty(rec, a)
					p := rec[a : a+n]
					copy(p, patMsg(0, n))
					snap := append([]byte{}, rec...)
					q := tail(g, n)
					copy(q, p)
					var got, exact []byte
					if t.Guard("mac/message-layout/"+mv.name, func() {
						h := mv.new(0)
						h.Write(p)
						got = h.Sum(nil)
						h.Reset()
						h.Write(q)
						exact = h.Sum(nil)
					}) {
						return
					}
					t.Eval(2)
					if !bytes.Equal(rec, snap) {
						t.Fail("mac/message-layout/input-modified", "[%s] Write(%d bytes at offset %d of a record) changed byte %d of the record", mv.name, n, a, engine.FirstDiff(rec, snap))
						return
					}
					if !bytes.Equal(got, exact) {
						t.Fail("mac/message-layout/result-depends-on-layout", "[%s] %d bytes at offset %d of a record with dirty bytes behind: %x, from an exact buffer %x", mv.name, n, a, got, exact)
						return
					}
					if a == 0 && !bytes.Equal(exact, want) {
						col.add(mv.mismatchKey(8*n), 8*n, fmt.Sprintf("[%s] Write(%d);Sum = %x, reference %x", mv.name, n, exact, want))
					}
				}
				t.Nontrivial(fmt.Sprintf("msglayout/%s/%d", mv.name, n))
			}
			t.Outcome("message-layout/" + mv.name)
		})
	}
}

// ---------------------------------------------------------------------------------------------
// every ordered pair of message lengths on ONE object with DIFFERENT contents (what one message leaves behind in the
// partial-block buffer and the key window must not reach the next one): bit lengths through Finish, byte lengths
// through Write/Sum/Reset

func widenMacPairs(c *engine.Ctx) {
	maxBits, maxBytes := 264, 48
	if !c.Quick() {
		maxBits, maxBytes = 520, 100
	}
	for mvi, mv := range macVariants {
		mvi, mv := mvi, mv
		c.Case(fmt.Sprintf("widen/mac/finish-pairs/%s/0..%d^2", mv.name, maxBits), func(t *engine.T) {
			col := newCollector()
			defer col.flush(t)
			ga, gb := engine.NewGuardBuf((maxBits+7)/8), engine.NewGuardBuf((maxBits+7)/8)
			defer ga.Free()
			defer gb.Free()
			for n1 := 0; n1 <= maxBits; n1++ {
				h := mv.new(0)
				pa := tail(ga, (n1+7)/8)
				for i := range pa {
					pa[i] = patByte(1, i)
				}
				wa := refTag(mvi, 0, 1, n1)
				for n2 := 0; n2 <= maxBits; n2++ {
					pb := tail(gb, (n2+7)/8)
					for i := range pb {
						pb[i] = patByte(0, i)
					}
					wb := refTag(mvi, 0, 0, n2)
					var a, b []byte
					if t.Guard("mac/"+mv.name+"/finish", func() { a = h.Finish(pa, n1); b = h.Finish(pb, n2) }) {
						return
					}
					t.Eval(2)
					if !bytes.Equal(a, wa) {
						col.add(mv.mismatchKeyPair(n1, n2, n1), n1, fmt.Sprintf("[%s] Finish(0xff.., %d bits) after Finish(.., %d bits) on the same object = %x, reference %x", mv.name, n1, n2-1, a, wa))
					}
					if !bytes.Equal(b, wb) {
						col.add(mv.mismatchKeyPair(n1, n2, n2), n2, fmt.Sprintf("[%s] Finish(.., %d bits) after Finish(0xff.., %d bits) on the same object = %x, reference %x", mv.name, n2, n1, b, wb))
					}
				}
				t.Nontrivial(fmt.Sprintf("finishpairs/%s/%d", mv.name, n1))
			}
			if !ga.Check() || !gb.Check() {
				t.Fail("mac/write-before-buffer", "canary before the message buffer was overwritten")
			}
			t.Outcome("finish-pairs/" + mv.name)
		})
		c.Case(fmt.Sprintf("widen/mac/sum-reset-pairs/%s/0..%d^2", mv.name, maxBytes), func(t *engine.T) {
			col := newCollector()
			defer col.flush(t)
			ga, gb := engine.NewGuardBuf(maxBytes), engine.NewGuardBuf(maxBytes)
			defer ga.Free()
			defer gb.Free()
			h := mv.new(0)
			for n1 := 0; n1 <= maxBytes; n1++ {
				pa := tail(ga, n1)
				for i := range pa {
					pa[i] = patByte(1, i)
				}
				wa := refTag(mvi, 0, 1, 8*n1)
				for n2 := 0; n2 <= maxBytes; n2++ {
					pb := tail(gb, n2)
					for i := range pb {
						pb[i] = patByte(0, i)
					}
					wb := refTag(mvi, 0, 0, 8*n2)
					var a, b []byte
					if t.Guard("mac/"+mv.name+"/write", func() {
						h.Write(pa)
						a = h.Sum(nil)
						h.Reset()
						h.Write(pb)
						b = h.Sum(nil)
						if (n1+n2)%2 == 0 { // alternate the two ways of starting over
							h.Reset()
						} else {
							h.Finish(nil, 0)
						}
					}) {
						return
					}
					t.Eval(2)
					if !bytes.Equal(a, wa) {
						col.add(mv.mismatchKeyPair(8*n1, 8*n2, 8*n1), 8*n1, fmt.Sprintf("[%s] Write(%d x 0xff);Sum on a reused object = %x, reference %x", mv.name, n1, a, wa))
					}
					if !bytes.Equal(b, wb) {
						col.add(mv.mismatchKeyPair(8*n1, 8*n2, 8*n2), 8*n2, fmt.Sprintf("[%s] Write(%d x 0xff);Sum;Reset;Write(%d);Sum = %x, reference %x", mv.name, n1, n2, b, wb))
					}
				}
				t.Nontrivial(fmt.Sprintf("sumpairs/%s/%d", mv.name, n1))
			}
			t.Outcome("sum-reset-pairs/" + mv.name)
		})
	}
}

// mismatchKeyPair: a wrong tag in a pair history. Lengths in the footprint of the recorded known finding keep its
// key (the defect does not depend on the history); everything else is named by the pair class.
func (mv macVariant) mismatchKeyPair(n1, n2, failing int) string {
	k := mv.mismatchKey(failing)
	if k == "mac256/tail-index/tag64" || k == "mac256/tail-index/tag128" {
		return k
	}
	return fmt.Sprintf("mac/pairs/%s/tag-mismatch/previous-tailbits=%s/tailbits=%s", mv.name, tailClass(n1+n2-failing), tailClass(failing))
}

// ---------------------------------------------------------------------------------------------
// objects of different kinds (and of the same kind with other keys) used alternately in one process: every ordered
// pair of kinds x every pair of operations

type actor interface {
	nOps() int
	do(t *engine.T, op int) bool
}

type streamActor struct {
	s   *sstate
	b   *bufs
	exp []byte
	cls string
}

var streamActorOps = []sop{{l: 129}, {l: 1}, {at: true, off: 3, l: 130}, {at: true, off: 700, l: 5}}

func (a *streamActor) nOps() int { return len(streamActorOps) }
func (a *streamActor) do(t *engine.T, op int) bool {
	ok := apply(t, a.b, a.exp, a.s, streamActorOps[op], (a.s.steps+op)%nModes, a.cls)
	t.Eval(1)
	return ok
}

type macActor struct {
	mvi, which int
	h          zuc.EIA
	n          int
	col        *collector
}

func (a *macActor) nOps() int { return 4 }
func (a *macActor) do(t *engine.T, op int) bool {
	mv := macVariants[a.mvi]
	write := func(c int) {
		buf := make([]byte, c)
		for i := range buf {
			buf[i] = content(a.n + i)
		}
		a.h.Write(buf)
		a.n += c
	}
	var got []byte
	total := 0
	if t.Guard("alternate/"+mv.name, func() {
		switch op {
		case 0:
			write(17)
			got, total = a.h.Sum(nil), 8*a.n
		case 1:
			write(1)
			got, total = a.h.Sum(nil), 8*a.n
		case 2:
			p := []byte{content(a.n), content(a.n + 1)}
			total = 8*a.n + 9
			got = a.h.Finish(p, 9)
			a.n = 0
		case 3:
			a.h.Reset()
			a.n = 0
			write(20)
			got, total = a.h.Sum(nil), 8*a.n
		}
	}) {
		return false
	}
	t.Eval(1)
	if want := refTag(a.mvi, a.which, 0, total); !bytes.Equal(got, want) {
		k := mv.mismatchKey(total)
		if k != "mac256/tail-index/tag64" && k != "mac256/tail-index/tag128" {
			k = "alternate/" + mv.name + "/tag-mismatch"
		}
		a.col.add(k, total, fmt.Sprintf("[%s] tag over %d bits while another object was used in between = %x, reference %x", mv.name, total, got, want))
	}
	return true
}

func widenAlternate(c *engine.Ctx) {
	c.Case("widen/alternate-objects", func(t *engine.T) {
		col := newCollector()
		defer col.flush(t)
		b := newBufs()
		defer b.free()
		type kind struct {
			name string
			mk   func() actor
		}
		var kinds []kind
		for _, v := range variants {
			for _, kb := range [][3]int{{0, 0, 0}, {0, 0, 128}, {0, 1, 128}, {1, 1, 256}} { // key pattern, iv pattern, bucket
				v, kb := v, kb
				key, iv := keyOf(v.keyLen, kb[0]), keyOf(v.ivLen, kb[1])
				exp := zucref.KeyStream(key, iv, 1024)
				for i := range exp {
					exp[i] ^= content(i)
				}
				kinds = append(kinds, kind{fmt.Sprintf("%s/key%d/iv%d/bucket=%d", v.name, kb[0], kb[1], kb[2]), func() actor {
					return &streamActor{&sstate{c: mustStream(key, iv, kb[2], kb[2] != 0)}, b, exp, "alternate/" + bucketClass(kb[2])}
				}})
			}
		}
		for mvi, mv := range macVariants {
			for which := 0; which < 2; which++ {
				mvi, which := mvi, which
				kinds = append(kinds, kind{fmt.Sprintf("%s/key%d", mv.name, which), func() actor {
					return &macActor{mvi: mvi, which: which, h: macVariants[mvi].new(which), col: col}
				}})
			}
		}
		for _, kx := range kinds {
			for _, ky := range kinds {
				x0, y0 := kx.mk(), ky.mk()
				for i := 0; i < x0.nOps(); i++ {
					for j := 0; j < y0.nOps(); j++ {
						x, y := kx.mk(), ky.mk()
						if !(x.do(t, 0) && y.do(t, 0) && x.do(t, i) && y.do(t, j) && x.do(t, 0) && y.do(t, (j+1)%y.nOps()) && x.do(t, (i+1)%x.nOps())) {
							if t.Failed() {
								return
							}
						}
					}
				}
				t.Nontrivial("alternate/" + kx.name + "/" + ky.name)
			}
		}
		t.Outcome("alternate-objects")
	})
}

// ---------------------------------------------------------------------------------------------
// every value of one message byte at every position of the 16-byte block (the assembly block rounds reverse the bits of
// the message through nibble tables; the tag is linear in the message, so single-byte messages isolate every window)

func widenMacByteValues(c *engine.Ctx) {
	n := 16
	if !c.Quick() {
		n = 32
	}
	for _, mv := range macVariants {
		mv := mv
		c.Case(fmt.Sprintf("widen/mac/byte-values/%s/%d-positions-x-256-values", mv.name, n), func(t *engine.T) {
			g := engine.NewGuardBuf(n)
			defer g.Free()
			h := mv.new(0)
			msg := g.B
			for k := 0; k < n; k++ {
				for v := 0; v < 256; v++ {
					for i := range msg {
						msg[i] = 0
					}
					msg[k] = byte(v)
					var got []byte
					if t.Guard("mac/byte-values/"+mv.name, func() { h.Reset(); h.Write(msg); got = h.Sum(nil) }) {
						return
					}
					t.Eval(1)
					if want := mv.ref(0, msg, 8*n); !bytes.Equal(got, want) {
						t.Fail("mac/byte-values/"+mv.name+"/tag-mismatch", "message of %d zero bytes except byte %d = %#02x: tag %x, reference %x", n, k, v, got, want)
						return
					}
				}
				t.Nontrivial(fmt.Sprintf("bytevalues/%s/%d", mv.name, k))
			}
			t.Outcome("byte-values/" + mv.name)
		})
	}
}
