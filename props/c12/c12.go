// Package c12: ephemeral secrets are exactly the sampled random bytes, and a failing random source is an error
// (kernel E4: content enumeration of the scripted random stream + fault enumeration over every read).
//
// Every operation that draws a secret scalar is run on the REAL library with an engine.ScriptReader. The scalar the
// operation used is pinned by recomputing all of its outputs from the candidate scalar with the reference models
// (ref/ecref big-integer affine arithmetic, ref/sm3ref, ref/sm4ref, SM9 H1/H2 written here from GM/T 0044; GT/G2
// values through the verifhook re-export of bn256, deliberately via routines the schemes themselves do not use).
package c12

import (
	"bytes"
	"fmt"
	"io"
	"math/big"
	"strings"

	"verif/engine"
	"verif/ref/ecref"
	"verif/ref/sm3ref"
	"verif/ref/sm4ref"
)

type Prop struct{}

func (Prop) ID() string    { return "C12" }
func (Prop) Level() string { return "fault_enumeration" }
func (Prop) Configs(tier string) []string {
	return []string{"c-default", "c-purego"}
}

func (Prop) Rule() string {
	var full, light []string
	for _, o := range allOps() {
		if o.light {
			light = append(light, o.name)
		} else {
			full = append(full, o.name)
		}
	}
	return fmt.Sprintf("E4 on %d operations on the real library with a scripted io.Reader. Full treatment: %s; API variants (content+fault+cross, no same-operation sequences): %s. ",
		len(full)+len(light), strings.Join(full, ", "), strings.Join(light, ", ")) +
		"CONTENT: every stream of <=3 (thorough tier: <=4) 32-byte blocks over {0,1,n-2,n-1,n,n+1,2^256-1,two mid-range values} plus their images under byte[1]^=0x42 (18 values per group order: SM2 n, SM9 N, NIST P-256 n for the legacy path), " +
		"each stream = rejected blocks followed by one acceptable block, followed by three fixed tail blocks; oracle: the complete output of the operation equals the output " +
		"recomputed by the reference from exactly the first acceptable block (range [1,n-1], [1,n-2] for key generation; standard retry rules r=0, r+k=n, s=0, t=0, l=0 evaluated by the reference), " +
		"for SM2 signatures additionally k=s(1+d)+rd; block-lane bytes consumed == 32*(rejections+1) (+16 for the IV of the SM9 block modes, which must be the next 16 stream bytes; " +
		"16 bytes before the scalar for the enveloped-key SM4 key); exact sequence of read sizes; " +
		"for ecdh/SM9-master key generation the key equals block XOR m where m has at most one non-zero byte (m is measured once per process from one run and then held fixed). " +
		"SEQUENCES: the same operation twice on one reader for every pair of streams with <=1 rejection each (quick tier: second stream's last block from the nine base values; thorough tier: second stream with <=2 rejections), and every ordered pair of operations on one reader " +
		"(no rejection / one rejection each / rejection only in the second): the second operation must use the next acceptable block after the bytes the first one consumed. " +
		"FAULTS: for every content stream and every read index k the fault-free run makes, answers {error, EOF, half block then EOF}: error returned, every other result nil/empty, no panic; " +
		"answers {(0,nil) once, legal short read}: output and consumption identical to the fault-free run (streams of <=2 blocks; thorough tier <=3 blocks); " +
		"thorough tier adds two deviations for streams of <=2 blocks: a short answer at call c1 and any of the five answers at a later call c2 (error required iff call c2 was made and is a fault). " +
		"distinct_nontrivial counts distinct (operation, stream-label-sequence) and (operation, fault kind, read index) classes." +
		widenRule()
}

func (Prop) Assumptions() []string {
	return []string{
		"references: ref/ecref (affine big.Int arithmetic, GB/T 32918 algorithms, anchored by GB/T 32918.5 examples), SM9 H1/H2 written from GM/T 0044.2 and anchored by the Annex A/C values, sm3ref, sm4ref",
		"GT and G2 values of the SM9 oracles are computed with the library's own bn256 through verifhook (Pair, generic GT.ScalarMult by square-and-multiply, G2.ScalarMult) — no independent pairing implementation exists; the G1 side is fully independent",
		"SM9 master-key generation: the standard's range is [1,N-1], the library documents [1,N-2]; the value N-1 is treated as don't-care (accepted or rejected, but consumption must be consistent with the choice)",
		"the XOR constant/position of ecdh and SM9 master key generation is not fixed by the property; it is measured (documented: 0x42 at byte 1) and required to be a single-byte constant that never changes",
		"one-byte reads are served from a separate lane (randutil.MaybeReadByte coin flip); by code reading this is the only 1-byte read of the covered operations, at most one such read per operation is tolerated",
		"fault answers are single deviations (thorough tier: two, the first one benign); streams are bounded to 3 (thorough: 4) content blocks, i.e. at most 2 (3) consecutive rejections; uniformity itself is not measured, only exact use of the sampled block",
		"sm2.sign.legacy-p256 is skipped in c-purego: with -tags purego on amd64 the Go 1.23 standard library's elliptic.P256().Inverse panics ('nistec rejected normalized scalar') for every input, before any sampling question arises",
		"legacy curves whose order is not a multiple of 8 bits (P-224, P-521: top-bit masking) are outside the property's 32-byte statement and are not covered; only NIST P-256 is run through the legacy path",
		"dispatch tiers c-default and c-purego on amd64; arm64/ppc64le/s390x assembly is not covered",
		"widened families: GM/T 0044.4 restarts a one-byte XOR encryption when K1 is all zero, the library only when K1||K2 is; the property statement fixes neither, so a scalar with K1 = 0 is a don't-care value (either choice, consistent output and consumption)",
		"widened families: an answer that carries the whole request together with an error is accepted by io.ReadFull; success with the output for the delivered bytes and an error without output are both accepted; the same holds for a failing one-byte read, whose result randutil.MaybeReadByte ignores",
		"widened families: a repeated InitKeyExchange/RespondKeyExchange on one object is taken as allowed (the library allows it): every successful call must use its own block and the confirmation step belongs to the last successful call; ephemeral keys returned by the key-exchange objects are not overwritten by the harness (ownership of those is C08/C10)",
		"widened families: smx509.csr evaluates no restart branch (the digest is not under the stream's control); the hybrid point form is compared as x||y; other rand-taking entry points outside the anchored packages (certificates, CRLs, PKCS#7/8) are not run",
	}
}

// ---------------------------------------------------------------------------------------------
// content sets

var two256m1 = new(big.Int).Sub(new(big.Int).Lsh(big.NewInt(1), 256), big.NewInt(1))

type cval struct {
	label string
	b     []byte
	base  bool // one of the nine base values (not an XOR image)
}

type grp struct {
	name string
	n    *big.Int
	vals []cval
}

func patBlock(top byte, mul, add int) []byte {
	b := make([]byte, 32)
	for i := range b {
		b[i] = byte(i*mul + add)
	}
	b[0] = top
	return b
}

var (
	midA = patBlock(0x5a, 37, 11)
	midB = patBlock(0x3c, 29, 7)
	// tail blocks appended to every stream: acceptable for every operation, with or without the XOR
	tails = [][]byte{patBlock(0x41, 13, 5), patBlock(0x42, 17, 9), patBlock(0x43, 19, 3)}
)

// docMask is the documented key-generation tweak (key[1] ^= 0x42); used only to CHOOSE interesting contents.
func docMask(b []byte) []byte {
	r := append([]byte{}, b...)
	r[1] ^= 0x42
	return r
}

func newGrp(name string, n *big.Int) *grp {
	g := &grp{name: name, n: n}
	add := func(off int64) []byte { return ecref.Bytes32(new(big.Int).Add(n, big.NewInt(off))) }
	base := []cval{
		{"0", make([]byte, 32), true},
		{"1", ecref.Bytes32(big.NewInt(1)), true},
		{"n-2", add(-2), true},
		{"n-1", add(-1), true},
		{"n", add(0), true},
		{"n+1", add(1), true},
		{"2^256-1", ecref.Bytes32(two256m1), true},
		{"midA", midA, true},
		{"midB", midB, true},
	}
	g.vals = append(g.vals, base...)
	for _, v := range base {
		g.vals = append(g.vals, cval{"x(" + v.label + ")", docMask(v.b), false})
	}
	// no duplicates by construction (the image flips byte 1 of a distinct value); checked in SelfTest
	return g
}

var (
	grpSM2   = newGrp("sm2", ecref.SM2().N)
	grpSM2A5 = newGrpA5()
	grpSM9   = newGrp("sm9", ecref.SM9G1().N)
	grpNIST  = newGrp("p256", nistP256().N)
)

// ---------------------------------------------------------------------------------------------
// operations

const (
	clsRej = iota
	clsAcc
	clsEither
)

// obs is what one run of an operation showed.
type obs struct {
	err    error
	out    []byte // canonical serialisation of every scalar-dependent output (valid when err == nil && bad == "")
	leak   string // non-empty: outputs that were not nil/empty although an error was returned
	bad    string // non-empty: the operation succeeded but its output is malformed / a follow-up step failed
	badKey string // optional finding-key suffix for bad (default "malformed-output")
}

type opDef struct {
	name       string
	noun       string // "nonce", "scalar", "key": used in the finding key
	g          *grp
	hiOff      int64  // acceptable range is [1, n-hiOff]
	either     bool   // n-1 is a don't-care value (only with hiOff == 2)
	masked     bool   // key generation with the fixed-byte XOR
	light      bool   // API variant of another operation: content+fault and cross cases only, no same-operation sequences
	pre        []byte // fixed bytes the operation reads BEFORE it samples the scalar (enveloped key: the 16-byte SM4 key)
	preReads   []int  // sizes of the reads that consume pre
	extraReads []int  // sizes of the reads after the scalar (IV)
	run        func(rd io.Reader) obs
	// expect recomputes the canonical output from scalar v; pre = the bytes read before sampling, rest = stream bytes
	// following the accepted block; extra = further stream bytes the operation must consume; ok=false: the standard
	// says "draw another scalar".
	expect func(v *big.Int, pre, rest []byte) (exp []byte, extra int, ok bool)
	// recoverScalar extracts the scalar from the output where that is algebraically possible (diagnostics + sign oracle).
	recoverScalar func(out []byte) *big.Int
	// opRejects: the operation itself discards this in-range scalar and returns to the sampling step (SM2 encryption
	// step A5: the derived mask is all zero). Such a block may be followed by further blocks in a stream.
	opRejects func(v *big.Int) bool
	// opEither: the standard and the library disagree (or the property is silent) on whether this in-range scalar is
	// passed over: both behaviours are accepted, the output and the consumption must match the choice made.
	opEither func(v *big.Int) bool

	maskDone bool
	mask     []byte
	maskErr  string
}

func (o *opDef) class(v *big.Int) int {
	if v.Sign() <= 0 {
		return clsRej
	}
	hi := new(big.Int).Sub(o.g.n, big.NewInt(o.hiOff))
	if v.Cmp(hi) <= 0 {
		if o.opRejects != nil && o.opRejects(v) {
			return clsEither // generated both as a block that is passed over and as a last block (the tails follow)
		}
		if o.opEither != nil && o.opEither(v) {
			return clsEither
		}
		return clsAcc
	}
	if o.either && v.Cmp(new(big.Int).Sub(o.g.n, big.NewInt(1))) == 0 {
		return clsEither
	}
	return clsRej
}

func xorBytes(a, b []byte) []byte {
	r := make([]byte, len(a))
	for i := range a {
		r[i] = a[i]
		if b != nil {
			r[i] ^= b[i]
		}
	}
	return r
}

func safeRun(t *engine.T, prefix string, o *opDef, rd io.Reader) (ob obs, panicked bool) {
	panicked = t.Guard(prefix, func() { ob = o.run(rd) })
	return
}

// getMask measures the fixed-byte XOR of a masked key-generation operation once per process.
func (o *opDef) getMask(t *engine.T) ([]byte, bool) {
	if !o.masked {
		return nil, true
	}
	if !o.maskDone {
		o.maskDone = true
		stream := concat(o.pre, midA, tails[0], tails[1], tails[2])
		rd := engine.NewScriptReader(stream)
		ob, p := safeRun(t, o.name, o, rd)
		t.Eval(1)
		switch {
		case p:
			o.maskErr = "panic during calibration run"
		case ob.err != nil || ob.bad != "" || len(ob.out) < 32:
			o.maskErr = fmt.Sprintf("calibration run failed: err=%v bad=%q", ob.err, ob.bad)
		default:
			m := xorBytes(ob.out[:32], midA)
			nz := 0
			for _, x := range m {
				if x != 0 {
					nz++
				}
			}
			if nz > 1 {
				o.maskErr = fmt.Sprintf("key %x is not the block %x with one byte XOR-ed (difference %x)", ob.out[:32], midA, m)
			} else {
				o.mask = m
			}
		}
	}
	if o.maskErr != "" {
		t.Fail(o.name+"/key-not-block-xor-fixed-byte", "%s", o.maskErr)
		return nil, false
	}
	t.Outcome(fmt.Sprintf("%s/mask=%x", o.name, o.mask))
	return o.mask, true
}

type cand struct {
	idx int // index of the accepted block counted from the start position
	end int // stream position after everything the operation must have consumed
	exp []byte
	v   *big.Int
}

// walk evaluates the property's sampling rule on the byte stream starting at pos: the candidates are the legal
// (accepted block, output) pairs — exactly one unless a don't-care value is met.
func (o *opDef) walk(stream []byte, pos int, mask []byte) (cs []cand, definite bool) {
	if pos+len(o.pre) > len(stream) {
		return nil, false
	}
	pre := stream[pos : pos+len(o.pre)]
	pos += len(o.pre)
	for i := 0; pos+32 <= len(stream); i++ {
		v := new(big.Int).SetBytes(xorBytes(stream[pos:pos+32], mask))
		pos += 32
		cl := o.class(v)
		if cl == clsRej {
			continue
		}
		exp, extra, ok := o.expect(v, pre, stream[pos:])
		if !ok {
			continue
		}
		cs = append(cs, cand{idx: i, end: pos + extra, exp: exp, v: v})
		if cl == clsAcc {
			return cs, true
		}
	}
	return cs, false
}

func concat(bs ...[]byte) []byte {
	var r []byte
	for _, b := range bs {
		r = append(r, b...)
	}
	return r
}

// diagnose explains (for the violation detail only) which block-derived scalar reproduces the observed output.
func (o *opDef) diagnose(stream []byte, mask []byte, out []byte) string {
	var msgs []string
	if o.recoverScalar != nil {
		if k := o.recoverScalar(out); k != nil {
			msgs = append(msgs, fmt.Sprintf("scalar recovered from the output = %064x", k))
		}
	}
	top := new(big.Int).Lsh(big.NewInt(1), 255)
	if len(stream) < len(o.pre) {
		return strings.Join(msgs, "; ")
	}
	pre := stream[:len(o.pre)]
	stream = stream[len(o.pre):]
	for i := 0; (i+1)*32 <= len(stream) && i < 8; i++ {
		raw := new(big.Int).SetBytes(stream[i*32 : (i+1)*32])
		variants := []struct {
			n string
			v *big.Int
		}{
			{"block", raw},
			{"block^mask", new(big.Int).SetBytes(xorBytes(stream[i*32:(i+1)*32], mask))},
			{"block^docmask", new(big.Int).SetBytes(docMask(stream[i*32 : (i+1)*32]))},
			{"block mod n", new(big.Int).Mod(raw, o.g.n)},
			{"block mod (n-1) + 1", new(big.Int).Add(new(big.Int).Mod(raw, new(big.Int).Sub(o.g.n, big.NewInt(1))), big.NewInt(1))},
			{"block with top bit cleared", new(big.Int).AndNot(raw, top)},
			{"block+1", new(big.Int).Add(raw, big.NewInt(1))},
		}
		for _, va := range variants {
			if va.v.Sign() <= 0 || va.v.Cmp(o.g.n) >= 0 {
				continue
			}
			exp, _, ok := o.expect(va.v, pre, stream[(i+1)*32:])
			if ok && bytes.Equal(exp, out) {
				msgs = append(msgs, fmt.Sprintf("output is reproduced by scalar = %s #%d of the stream", va.n, i))
				return strings.Join(msgs, "; ")
			}
		}
	}
	msgs = append(msgs, "output is reproduced by no block-derived scalar tried")
	return strings.Join(msgs, "; ")
}

// seqResult describes the fault-free run of one operation inside runSeq.
type seqResult struct {
	ok    bool
	calls int // block-lane Read calls the operation made
	out   []byte
	end   int
	idx   int
}

// runSeq runs the operations one after the other on ONE reader over stream and applies the content oracle to each.
func runSeq(t *engine.T, ops []*opDef, stream []byte, label string) []seqResult {
	rd := engine.NewScriptReader(stream)
	pos := 0
	var res []seqResult
	for j, o := range ops {
		mask, ok := o.getMask(t)
		if !ok {
			return res
		}
		calls0, one0, log0 := rd.Calls, rd.OneByte, len(rd.Log)
		ob, panicked := safeRun(t, o.name, o, rd)
		t.Eval(1)
		if panicked {
			return res
		}
		where := fmt.Sprintf("operation #%d (%s) on stream [%s]", j+1, o.name, label)
		if ob.err != nil {
			t.Fail(o.name+"/unexpected-error", "%s: fault-free run returned error %v", where, ob.err)
			return res
		}
		if ob.bad != "" {
			bk := "malformed-output"
			if ob.badKey != "" {
				bk = ob.badKey
			}
			t.Fail(o.name+"/"+bk, "%s: %s", where, ob.bad)
			return res
		}
		cs, definite := o.walk(stream, pos, mask)
		if !definite {
			t.Cap("oracle stream exhausted without a definitely acceptable block for " + o.name + " (harness bound, not a violation)")
			return res
		}
		var hit *cand
		for i := range cs {
			if bytes.Equal(cs[i].exp, ob.out) {
				hit = &cs[i]
				break
			}
		}
		if hit == nil {
			key := o.name + "/" + o.noun + "-not-first-acceptable-block"
			if j > 0 {
				key = o.name + "/seq/" + o.noun + "-not-next-acceptable-block"
			}
			want := cs[len(cs)-1]
			t.Fail(key, "%s starting at stream offset %d: expected the output computed from block #%d (value %064x) = %s, observed %s; %s",
				where, pos, want.idx, want.v, engine.Hex(want.exp), engine.Hex(ob.out), o.diagnose(stream[pos:], mask, ob.out))
			return res
		}
		if o.recoverScalar != nil {
			if k := o.recoverScalar(ob.out); k == nil || k.Cmp(hit.v) != 0 {
				t.Fail(o.name+"/"+o.noun+"-not-first-acceptable-block", "%s: scalar recovered from the output %x != accepted block %064x", where, k, hit.v)
				return res
			}
		}
		if rd.Consumed != hit.end {
			key := o.name + "/consumed-bytes"
			if j > 0 {
				key = o.name + "/seq/consumed-bytes"
			}
			t.Fail(key, "%s: block-lane bytes consumed up to here = %d, want %d (start %d, %d bytes before sampling, accepted block #%d, reads after it %v)", where, rd.Consumed, hit.end, pos, len(o.pre), hit.idx, o.extraReads)
			return res
		}
		calls := rd.Calls - calls0
		wantLog := append([]int{}, o.preReads...)
		for i := 0; i <= hit.idx; i++ {
			wantLog = append(wantLog, 32)
		}
		wantLog = append(wantLog, o.extraReads...)
		if fmt.Sprint(wantLog) != fmt.Sprint(rd.Log[log0:]) || rd.OneByte-one0 > 1 {
			t.Fail(o.name+"/read-shape", "%s: read requests %v, one-byte reads %d; want requests %v and at most one 1-byte read", where, rd.Log[log0:], rd.OneByte-one0, wantLog)
			return res
		}
		t.Outcome(fmt.Sprintf("%s/accepted-block=%d", o.name, hit.idx))
		res = append(res, seqResult{ok: true, calls: calls, out: ob.out, end: hit.end, idx: hit.idx})
		pos = hit.end
	}
	return res
}

var faultAnswers = []struct {
	ans  int
	name string
}{{engine.AnsErr, "error"}, {engine.AnsEOF, "eof"}, {engine.AnsShortEOF, "short+eof"}}

var benignAnswers = []struct {
	ans  int
	name string
}{{engine.AnsZeroNil, "(0,nil)"}, {engine.AnsShortNil, "short-read"}}

// faults enumerates every single-deviation answer at every read index of the fault-free run.
func faults(t *engine.T, o *opDef, stream []byte, label string, ff seqResult, benign bool) {
	for k := 0; k < ff.calls; k++ {
		for _, fa := range faultAnswers {
			rd := engine.NewScriptReader(stream)
			rd.Fault = map[int]int{k: fa.ans}
			ob, panicked := safeRun(t, o.name+"/fault@k", o, rd)
			t.Eval(1)
			t.Nontrivial(fmt.Sprintf("%s/fault/%s/k=%d", o.name, fa.name, k))
			if panicked {
				continue
			}
			where := fmt.Sprintf("%s on stream [%s], read #%d of %d answered with %s", o.name, label, k, ff.calls, fa.name)
			if ob.err == nil {
				t.Fail(o.name+"/fault@k/no-error", "%s: no error returned (output %s %s)", where, engine.Hex(ob.out), ob.bad)
				continue
			}
			if ob.leak != "" {
				t.Fail(o.name+"/fault@k/output-with-error", "%s: error %v returned together with %s", where, ob.err, ob.leak)
				continue
			}
			t.Outcome(o.name + "/fault/" + ob.err.Error())
		}
		if !benign {
			continue
		}
		for _, ba := range benignAnswers {
			rd := engine.NewScriptReader(stream)
			rd.Fault = map[int]int{k: ba.ans}
			ob, panicked := safeRun(t, o.name+"/short-read@k", o, rd)
			t.Eval(1)
			t.Nontrivial(fmt.Sprintf("%s/benign/%s/k=%d", o.name, ba.name, k))
			if panicked {
				continue
			}
			where := fmt.Sprintf("%s on stream [%s], read #%d of %d answered with %s", o.name, label, k, ff.calls, ba.name)
			if ob.err != nil || ob.bad != "" {
				t.Fail(o.name+"/short-read@k/error", "%s: err=%v %s (a short read without error is legal for an io.Reader)", where, ob.err, ob.bad)
				continue
			}
			if !bytes.Equal(ob.out, ff.out) || rd.Consumed != ff.end {
				t.Fail(o.name+"/short-read@k/output-differs", "%s: output %s (consumed %d) differs from the fault-free output %s (consumed %d)", where, engine.Hex(ob.out), rd.Consumed, engine.Hex(ff.out), ff.end)
			}
		}
	}
}

// faults2 enumerates two deviations: a legal short answer ((0,nil) or half a request) at call c1 followed by a
// fault or another short answer at a later call c2. Call indices shift after a short read, so the space is the
// call-index space of the reader; the oracle looks at whether call c2 was actually made.
func faults2(t *engine.T, o *opDef, stream []byte, label string, ff seqResult) {
	type ans struct {
		ans   int
		name  string
		fault bool
	}
	var second []ans
	for _, a := range faultAnswers {
		second = append(second, ans{a.ans, a.name, true})
	}
	for _, a := range benignAnswers {
		second = append(second, ans{a.ans, a.name, false})
	}
	maxCall := ff.calls + 1
	for c1 := 0; c1 < maxCall; c1++ {
		for _, a1 := range benignAnswers {
			for c2 := c1 + 1; c2 <= maxCall; c2++ {
				for _, a2 := range second {
					rd := engine.NewScriptReader(stream)
					rd.Fault = map[int]int{c1: a1.ans, c2: a2.ans}
					ob, panicked := safeRun(t, o.name+"/fault-after-short-read@k", o, rd)
					t.Eval(1)
					t.Nontrivial(fmt.Sprintf("%s/fault2/%s@%d/%s@%d", o.name, a1.name, c1, a2.name, c2))
					if panicked {
						continue
					}
					where := fmt.Sprintf("%s on stream [%s], call #%d answered with %s and call #%d with %s (calls made: %d)", o.name, label, c1, a1.name, c2, a2.name, rd.Calls)
					if a2.fault && rd.Calls > c2 {
						if ob.err == nil {
							t.Fail(o.name+"/fault-after-short-read@k/no-error", "%s: no error returned (output %s %s)", where, engine.Hex(ob.out), ob.bad)
						} else if ob.leak != "" {
							t.Fail(o.name+"/fault-after-short-read@k/output-with-error", "%s: error %v returned together with %s", where, ob.err, ob.leak)
						}
						continue
					}
					if ob.err != nil || ob.bad != "" {
						t.Fail(o.name+"/short-read@k/error", "%s: err=%v %s (short reads without error are legal for an io.Reader)", where, ob.err, ob.bad)
						continue
					}
					if !bytes.Equal(ob.out, ff.out) || rd.Consumed != ff.end {
						t.Fail(o.name+"/short-read@k/output-differs", "%s: output %s (consumed %d) differs from the fault-free output %s (consumed %d)", where, engine.Hex(ob.out), rd.Consumed, engine.Hex(ff.out), ff.end)
					}
				}
			}
		}
	}
}

// ---------------------------------------------------------------------------------------------
// stream enumeration

type stream struct {
	vals []cval
}

func (s stream) label() string {
	l := make([]string, len(s.vals))
	for i, v := range s.vals {
		l[i] = v.label
	}
	return strings.Join(l, "|")
}

func (s stream) bytes() []byte {
	var r []byte
	for _, v := range s.vals {
		r = append(r, v.b...)
	}
	return r
}

// split classifies the content set of the operation's group: which values can stand in a rejected prefix and which
// can end a stream. Don't-care values can do both.
func (o *opDef) split(mask []byte) (pre, fin []cval) {
	for _, cv := range o.g.vals {
		switch o.class(new(big.Int).SetBytes(xorBytes(cv.b, mask))) {
		case clsRej:
			pre = append(pre, cv)
		case clsAcc:
			fin = append(fin, cv)
		default:
			pre = append(pre, cv)
			fin = append(fin, cv)
		}
	}
	return
}

func in(vs []cval, label string) bool {
	for _, v := range vs {
		if v.label == label {
			return true
		}
	}
	return false
}

// streamsExt lists every stream rejected* acceptable with minLen <= blocks <= maxLen that starts with prefix
// (all prefix blocks but the last must be rejectable, otherwise the result is empty).
func (o *opDef) streamsExt(prefix []cval, mask []byte, minLen, maxLen int, baseOnlyLast bool) []stream {
	pre, fin := o.split(mask)
	for _, p := range prefix[:len(prefix)-1] {
		if !in(pre, p.label) {
			return nil
		}
	}
	var out []stream
	var rec func(cur []cval)
	rec = func(cur []cval) {
		last := cur[len(cur)-1]
		if in(fin, last.label) && len(cur) >= minLen {
			out = append(out, stream{append([]cval{}, cur...)})
		}
		if len(cur) < maxLen && in(pre, last.label) {
			for _, nx := range o.g.vals {
				if len(cur)+1 == maxLen && (!in(fin, nx.label) || (baseOnlyLast && !nx.base)) {
					continue
				}
				if !in(pre, nx.label) && !in(fin, nx.label) {
					continue
				}
				rec(append(cur, nx))
			}
		}
	}
	rec(append([]cval{}, prefix...))
	return out
}

func (o *opDef) streamsFrom(first cval, mask []byte, maxLen int, baseOnlyLast bool) []stream {
	return o.streamsExt([]cval{first}, mask, 1, maxLen, baseOnlyLast)
}

// docMaskBytes is the documented XOR of the masked operations; it only decides which cases are CREATED (case names must
// not depend on run-time measurements). Inside a case the measured mask is used.
func (o *opDef) docMaskBytes() []byte {
	if !o.masked {
		return nil
	}
	m := make([]byte, 32)
	m[1] = 0x42
	return m
}

func withTails(b []byte) []byte { return concat(b, tails[0], tails[1], tails[2]) }

// ---------------------------------------------------------------------------------------------

// contentCase runs content oracle + fault enumeration over the given streams.
func contentCase(t *engine.T, o *opDef, streams []stream, quick bool) {
	for _, s := range streams {
		lab := s.label()
		full := withTails(concat(o.pre, s.bytes()))
		r := runSeq(t, []*opDef{o}, full, lab)
		t.Nontrivial(o.name + "/" + lab)
		if len(r) != 1 || !r[0].ok {
			if t.Failed() {
				return // one report per case is enough; keep the run short
			}
			continue
		}
		if len(s.vals) == 2 && s.vals[0].label == "0" {
			t.Sample(map[string]any{"operation": o.name, "stream": lab, "accepted_block": r[0].idx, "bytes_consumed": r[0].end, "reads": r[0].calls})
		}
		// benign deviations cost a full run each: quick tier only for streams of <= 2 blocks, thorough <= 3
		faults(t, o, full, lab, r[0], len(s.vals) <= 2 || (!quick && len(s.vals) <= 3))
		if !quick && len(s.vals) <= 2 {
			faults2(t, o, full, lab, r[0])
		}
		if t.Failed() {
			return
		}
	}
}

func (Prop) Run(c *engine.Ctx) {
	quick := c.Quick()
	var ops []*opDef
	for _, o := range allOps() {
		// Go 1.23's crypto/elliptic P-256 exposes Inverse() on amd64 even with -tags purego, where nistec.P256OrdInverse is
		// a stub that always fails: every SM2 signature over NIST P-256 panics inside the standard library in that build.
		// That is a toolchain build-tag inconsistency unrelated to sampling; the operation is not run in c-purego.
		if o.name == "sm2.sign.legacy-p256" && c.Config == "c-purego" {
			continue
		}
		ops = append(ops, o)
	}

	// 1. content + fault enumeration. Streams of <= 3 blocks: one case per (operation, first block).
	//    Thorough tier: streams of exactly 4 blocks, one case per (operation, first, second block).
	for _, o := range ops {
		o := o
		for _, first := range o.g.vals {
			first := first
			c.Case(fmt.Sprintf("content+fault/%s/first=%s", o.name, first.label), func(t *engine.T) {
				mask, ok := o.getMask(t)
				if !ok {
					return
				}
				contentCase(t, o, o.streamsFrom(first, mask, 3, false), quick)
			})
		}
		if quick {
			continue
		}
		docPre, _ := o.split(o.docMaskBytes())
		for _, first := range docPre {
			for _, second := range docPre {
				first, second := first, second
				c.Case(fmt.Sprintf("content+fault/%s/len=4/first=%s/second=%s", o.name, first.label, second.label), func(t *engine.T) {
					mask, ok := o.getMask(t)
					if !ok {
						return
					}
					contentCase(t, o, o.streamsExt([]cval{first, second}, mask, 4, 4, false), quick)
				})
			}
		}
	}

	// 2. the same operation twice on one reader: one case per (operation, first stream)
	for _, o := range ops {
		o := o
		if o.light {
			continue
		}
		for _, s1 := range o.streamsFrom2(o.docMaskBytes()) {
			s1 := s1
			c.Case(fmt.Sprintf("seq/%s/s1=%s", o.name, s1.label()), func(t *engine.T) {
				mask, ok := o.getMask(t)
				if !ok {
					return
				}
				// re-validate the first stream under the measured mask (identical to the documented one on a correct tree)
				valid := false
				for _, x := range o.streamsFrom(s1.vals[0], mask, 2, false) {
					if x.label() == s1.label() {
						valid = true
					}
				}
				if !valid {
					return
				}
				var second []stream
				for _, f2 := range o.g.vals {
					if quick {
						second = append(second, o.streamsFrom(f2, mask, 2, true)...)
					} else {
						second = append(second, o.streamsFrom(f2, mask, 3, false)...)
					}
				}
				for _, s2 := range second {
					lab := s1.label() + " || " + s2.label()
					runSeq(t, []*opDef{o, o}, withTails(concat(o.pre, s1.bytes(), o.pre, s2.bytes())), lab)
					t.Nontrivial(o.name + "/seq/" + lab)
					if t.Failed() {
						return
					}
				}
			})
		}
	}

	// 3. every ordered pair of operations on one reader
	for _, a := range ops {
		a := a
		c.Case(fmt.Sprintf("cross/%s->*", a.name), func(t *engine.T) {
			ma, ok := a.getMask(t)
			if !ok {
				return
			}
			for _, b := range ops {
				mb, ok := b.getMask(t)
				if !ok {
					continue
				}
				// a block that a (resp. b) must reject: the value whose masked form is zero
				rejA, rejB := xorBytes(make([]byte, 32), ma), xorBytes(make([]byte, 32), mb)
				for variant, st := range [][]byte{
					concat(a.pre, midA, b.pre, midB),
					concat(a.pre, rejA, midA, b.pre, rejB, midB),
					concat(a.pre, midB, b.pre, rejB, midA),
				} {
					lab := fmt.Sprintf("cross-variant-%d", variant)
					runSeq(t, []*opDef{a, b}, withTails(st), lab)
					t.Nontrivial(a.name + "->" + b.name + "/" + lab)
				}
			}
		})
	}

	// 4.-7. widening by checklist (widen*.go)
	runWiden(c, ops)
}

// streamsFrom2 lists all streams of <= 2 blocks (<= 1 rejection) of the operation under the given mask.
func (o *opDef) streamsFrom2(mask []byte) []stream {
	var r []stream
	for _, f := range o.g.vals {
		r = append(r, o.streamsFrom(f, mask, 2, false)...)
	}
	return r
}

// ---------------------------------------------------------------------------------------------

func (Prop) SelfTest() error {
	if err := sm3ref.SelfTest(); err != nil {
		return err
	}
	if err := sm4ref.SelfTest(); err != nil {
		return err
	}
	if err := ecref.SelfTest(); err != nil {
		return err
	}
	for _, g := range []*grp{grpSM2, grpSM2A5, grpSM9, grpNIST} {
		seen := map[string]bool{}
		for _, v := range g.vals {
			if len(v.b) != 32 || seen[string(v.b)] {
				return fmt.Errorf("c12: content set of %s has a duplicate or mis-sized value %s", g.name, v.label)
			}
			seen[string(v.b)] = true
		}
		for _, tb := range append([][]byte{midA, midB}, tails...) {
			for _, b := range [][]byte{tb, docMask(tb)} {
				v := new(big.Int).SetBytes(b)
				if v.Sign() <= 0 || v.Cmp(new(big.Int).Sub(g.n, big.NewInt(2))) > 0 {
					return fmt.Errorf("c12: mid/tail block out of range for %s", g.name)
				}
			}
		}
	}
	nist := nistP256()
	if !nist.OnCurve(nist.G()) || !nist.BaseMul(nist.N).Inf {
		return fmt.Errorf("c12: NIST P-256 parameters")
	}
	return sm9SelfTest()
}
