package c12

import (
	"crypto/ecdsa"
	"crypto/elliptic"
	"encoding/asn1"
	"fmt"
	"io"
	"math/big"
	"sync"
	"verif/engine"

	"github.com/emmansun/gmsm/ecdh"
	"github.com/emmansun/gmsm/sm2"

	"verif/ref/ecref"
	"verif/ref/sm4ref"
)

func hx(s string) *big.Int {
	v, ok := new(big.Int).SetString(s, 16)
	if !ok {
		panic("bad hex")
	}
	return v
}

var (
	nistOnce sync.Once
	nistC    *ecref.Curve
)

// nistP256 is the reference curve object for the legacy (non-SM2 curve) code path. The parameters are the ones the
// caller hands to the library inside the key (elliptic.P256().Params()), a = p - 3.
func nistP256() *ecref.Curve {
	nistOnce.Do(func() {
		p := elliptic.P256().Params()
		nistC = &ecref.Curve{P: p.P, A: new(big.Int).Sub(p.P, big.NewInt(3)), B: p.B, N: p.N, Gx: p.Gx, Gy: p.Gy}
	})
	return nistC
}

// fixed long-term keys and inputs (GB/T 32918.5 example values)
var (
	sm2dA   = hx("3945208F7B2144B13F36E38AC6D39F95889393692860B51A42FB81EF4DF7C5B8")
	sm2dB   = hx("785129917D45A9EA5437A59356B82338EAADDA6CEB199088F14AE10DEFA229B5")
	sm2rFix = hx("7E07124814B309489125EAED101113164EBF0F3458C5BD88335C1F9D596243D6") // peer's fixed ephemeral scalar
	uidA    = []byte("ALICE123@YAHOO.COM")
	uidB    = []byte("BILL456@YAHOO.COM")
	sigHash = []byte{0x10, 0xb4, 0x3e, 0x94, 0xba, 0x45, 0xac, 0xca, 0xac, 0xe6, 0x92, 0xed, 0x53, 0x43, 0x82, 0xeb,
		0x17, 0xe6, 0xab, 0x5a, 0x19, 0xce, 0x7b, 0x31, 0xf4, 0x48, 0x6f, 0xdf, 0xc0, 0xd2, 0x86, 0x40}
	sigMsg = []byte("message digest")
	encMsg = []byte("encryption standard")
	// one-byte plaintext: one scalar in 256 derives an all-zero mask and must be discarded (GB/T 32918.4 step A5)
	encMsg1 = []byte{0xc7}
)

type memo struct {
	mu sync.Mutex
	m  map[string]memoVal
}
type memoVal struct {
	exp []byte
	ok  bool
}

// cached wraps a scalar -> expected-output function (reference computations are slow, scalars repeat).
func cached(f func(v *big.Int) ([]byte, bool)) func(v *big.Int) ([]byte, bool) {
	mm := &memo{m: map[string]memoVal{}}
	return func(v *big.Int) ([]byte, bool) {
		k := string(v.Bytes())
		mm.mu.Lock()
		defer mm.mu.Unlock()
		if r, ok := mm.m[k]; ok {
			return r.exp, r.ok
		}
		e, ok := f(v)
		mm.m[k] = memoVal{e, ok}
		return e, ok
	}
}

func noRest(f func(v *big.Int) ([]byte, bool)) func(v *big.Int, pre, rest []byte) ([]byte, int, bool) {
	cf := cached(f)
	return func(v *big.Int, pre, rest []byte) ([]byte, int, bool) {
		e, ok := cf(v)
		return e, 0, ok
	}
}

func fits32(vs ...*big.Int) bool {
	for _, v := range vs {
		if v == nil || v.Sign() < 0 || v.BitLen() > 256 {
			return false
		}
	}
	return true
}

func cat32(vs ...*big.Int) []byte {
	var r []byte
	for _, v := range vs {
		r = append(r, ecref.Bytes32(v)...)
	}
	return r
}

func sm2Priv(d *big.Int) *sm2.PrivateKey {
	k, err := sm2.NewPrivateKeyFromInt(d)
	if err != nil {
		panic("c12 setup: sm2.NewPrivateKeyFromInt: " + err.Error())
	}
	return k
}

func ecPub(curve elliptic.Curve, p ecref.Point) *ecdsa.PublicKey {
	return &ecdsa.PublicKey{Curve: curve, X: new(big.Int).Set(p.X), Y: new(big.Int).Set(p.Y)}
}

func legacyPriv(d *big.Int) *sm2.PrivateKey {
	c := nistP256()
	p := c.BaseMul(d)
	k := new(sm2.PrivateKey)
	k.PrivateKey = ecdsa.PrivateKey{PublicKey: *ecPub(elliptic.P256(), p), D: new(big.Int).Set(d)}
	return k
}

type sm2CipherASN1 struct {
	X, Y   *big.Int
	C3, C2 []byte
}

func sm2Ops() []*opDef {
	c := ecref.SM2()
	pubA, pubB := c.BaseMul(sm2dA), c.BaseMul(sm2dB)
	rFixPt := c.BaseMul(sm2rFix)
	eGM := c.Digest(ecref.DefaultUID, pubA, sigMsg)
	nist := nistP256()
	nistPubA := nist.BaseMul(sm2dA)

	signRun := func(sign func(rd io.Reader) ([]byte, error)) func(rd io.Reader) obs {
		return func(rd io.Reader) obs {
			sig, err := sign(rd)
			if err != nil {
				if len(sig) != 0 {
					return obs{err: err, leak: fmt.Sprintf("signature %x", sig)}
				}
				return obs{err: err}
			}
			r, s, ok := ecref.ParseStrictDERSig(sig)
			if !ok || !fits32(r, s) {
				return obs{bad: fmt.Sprintf("signature is not strict DER SEQUENCE{INTEGER,INTEGER} with 0<=r,s<2^256: %x", sig)}
			}
			return obs{out: cat32(r, s)}
		}
	}
	signExpect := func(cv *ecref.Curve, d *big.Int, e []byte) func(v *big.Int) ([]byte, bool) {
		return func(v *big.Int) ([]byte, bool) {
			r, s, ok := cv.SignWithK(d, v, e)
			if !ok {
				return nil, false
			}
			return cat32(r, s), true
		}
	}
	signRecover := func(cv *ecref.Curve, d *big.Int) func(out []byte) *big.Int {
		return func(out []byte) *big.Int {
			if len(out) != 64 {
				return nil
			}
			return cv.RecoverK(d, new(big.Int).SetBytes(out[:32]), new(big.Int).SetBytes(out[32:]))
		}
	}
	encRunN := func(enc func(rd io.Reader) ([]byte, error), isASN1 bool, encMsg []byte) func(rd io.Reader) obs {
		return func(rd io.Reader) obs {
			ct, err := enc(rd)
			if err != nil {
				if len(ct) != 0 {
					return obs{err: err, leak: fmt.Sprintf("ciphertext %x", ct)}
				}
				return obs{err: err}
			}
			if !isASN1 {
				if len(ct) != 65+32+len(encMsg) {
					return obs{bad: fmt.Sprintf("ciphertext length %d", len(ct))}
				}
				return obs{out: ct}
			}
			var v sm2CipherASN1
			rest, e := asn1.Unmarshal(ct, &v)
			if e != nil || len(rest) != 0 || !fits32(v.X, v.Y) {
				return obs{bad: fmt.Sprintf("ASN.1 ciphertext does not parse: %v %x", e, ct)}
			}
			return obs{out: concat([]byte{4}, cat32(v.X, v.Y), v.C3, v.C2)}
		}
	}
	encRun := func(enc func(rd io.Reader) ([]byte, error), isASN1 bool) func(rd io.Reader) obs {
		return encRunN(enc, isASN1, encMsg)
	}
	encExpectN := func(cv *ecref.Curve, pub ecref.Point, encMsg []byte) func(v *big.Int) ([]byte, bool) {
		return func(v *big.Int) ([]byte, bool) {
			c1, c2, c3, ok := cv.EncryptWithK(pub, v, encMsg)
			if !ok || c1.Inf {
				return nil, false
			}
			return concat(c1.Uncompressed(), c3, c2), true
		}
	}

	encExpect := func(cv *ecref.Curve, pub ecref.Point) func(v *big.Int) ([]byte, bool) {
		return encExpectN(cv, pub, encMsg)
	}
	exp1 := cached(encExpectN(c, pubB, encMsg1))
	a5Rejects := func(v *big.Int) bool { _, ok := exp1(v); return !ok }

	rsRun := func(sign func(rd io.Reader) (*big.Int, *big.Int, error)) func(rd io.Reader) obs {
		return func(rd io.Reader) obs {
			r, s, err := sign(rd)
			if err != nil {
				if r != nil || s != nil {
					return obs{err: err, leak: fmt.Sprintf("r=%v s=%v", r, s)}
				}
				return obs{err: err}
			}
			if !fits32(r, s) {
				return obs{bad: fmt.Sprintf("r=%v s=%v", r, s)}
			}
			return obs{out: cat32(r, s)}
		}
	}
	envKey := patBlock(0x77, 23, 1)[:16] // the 16 bytes MarshalEnvelopedPrivateKey reads as SM4 key before it encrypts
	envCores := map[string]func(v *big.Int) ([]byte, bool){}
	envCore := func(v *big.Int, key []byte) ([]byte, bool) {
		f, ok := envCores[string(key)]
		if !ok {
			k := append([]byte{}, key...)
			f = cached(func(v *big.Int) ([]byte, bool) {
				c1, c2, c3, ok := c.EncryptWithK(pubB, v, k)
				if !ok || c1.Inf {
					return nil, false
				}
				return concat(c1.Uncompressed(), c3, c2), true
			})
			envCores[string(key)] = f
		}
		return f(v)
	}

	ops := []*opDef{
		{
			name: "sm2.keygen", noun: "key", g: grpSM2, hiOff: 2,
			run: func(rd io.Reader) obs {
				k, err := sm2.GenerateKey(rd)
				if err != nil {
					if k != nil {
						return obs{err: err, leak: "a non-nil *PrivateKey"}
					}
					return obs{err: err}
				}
				if k == nil || !fits32(k.D, k.X, k.Y) {
					return obs{bad: "nil key or components out of range"}
				}
				return obs{out: cat32(k.D, k.X, k.Y)}
			},
			expect: noRest(func(v *big.Int) ([]byte, bool) {
				p := c.BaseMul(v)
				if p.Inf {
					return nil, false
				}
				return cat32(v, p.X, p.Y), true
			}),
			recoverScalar: func(out []byte) *big.Int { return new(big.Int).SetBytes(out[:32]) },
		},
		{
			name: "sm2.sign", noun: "nonce", g: grpSM2, hiOff: 1,
			run: signRun(func(rd io.Reader) ([]byte, error) {
				return sm2.SignASN1(rd, sm2Priv(sm2dA), sigHash, nil)
			}),
			expect:        noRest(signExpect(c, sm2dA, sigHash)),
			recoverScalar: signRecover(c, sm2dA),
		},
		{
			name: "sm2.sign.gm", noun: "nonce", g: grpSM2, hiOff: 1,
			run: signRun(func(rd io.Reader) ([]byte, error) {
				return sm2Priv(sm2dA).Sign(rd, sigMsg, sm2.DefaultSM2SignerOpts)
			}),
			expect:        noRest(signExpect(c, sm2dA, eGM)),
			recoverScalar: signRecover(c, sm2dA),
		},
		{
			name: "sm2.encrypt", noun: "scalar", g: grpSM2, hiOff: 1,
			run: encRun(func(rd io.Reader) ([]byte, error) {
				return sm2.Encrypt(rd, ecPub(sm2.P256(), pubB), encMsg, nil)
			}, false),
			expect: noRest(encExpect(c, pubB)),
		},
		{
			name: "sm2.encrypt.asn1", noun: "scalar", g: grpSM2, hiOff: 1,
			run: encRun(func(rd io.Reader) ([]byte, error) {
				return sm2.EncryptASN1(rd, ecPub(sm2.P256(), pubB), encMsg)
			}, true),
			expect: noRest(encExpect(c, pubB)),
		},
		{
			name: "sm2.encrypt.1byte", noun: "scalar", g: grpSM2A5, hiOff: 1, light: true, opRejects: a5Rejects,
			run: encRunN(func(rd io.Reader) ([]byte, error) {
				return sm2.Encrypt(rd, ecPub(sm2.P256(), pubB), encMsg1, nil)
			}, false, encMsg1),
			expect: noRest(exp1),
		},
		{
			name: "sm2.encrypt.asn1.1byte", noun: "scalar", g: grpSM2A5, hiOff: 1, light: true, opRejects: a5Rejects,
			run: encRunN(func(rd io.Reader) ([]byte, error) {
				return sm2.EncryptASN1(rd, ecPub(sm2.P256(), pubB), encMsg1)
			}, true, encMsg1),
			expect: noRest(exp1),
		},
		{
			name: "sm2.kx.init", noun: "scalar", g: grpSM2, hiOff: 1,
			run: func(rd io.Reader) obs {
				ke, err := sm2.NewKeyExchange(sm2Priv(sm2dA), ecPub(sm2.P256(), pubB), uidA, uidB, 16, false)
				if err != nil {
					panic("c12 setup: NewKeyExchange: " + err.Error())
				}
				ra, err := ke.InitKeyExchange(rd)
				if err != nil {
					if ra != nil {
						return obs{err: err, leak: "a non-nil ephemeral public key"}
					}
					return obs{err: err}
				}
				if ra == nil || !fits32(ra.X, ra.Y) {
					return obs{bad: "nil ephemeral key"}
				}
				out := cat32(ra.X, ra.Y)
				if s := runInterlude(func(r io.Reader) error { _, err := ke.InitKeyExchange(r); return err }); s != "" {
					return obs{bad: s}
				}
				key, _, err := ke.ConfirmResponder(ecPub(sm2.P256(), rFixPt), nil)
				if err != nil {
					return obs{bad: "ConfirmResponder after InitKeyExchange: " + err.Error()}
				}
				return obs{out: concat(out, key)}
			},
			expect: noRest(func(v *big.Int) ([]byte, bool) {
				ra := c.BaseMul(v)
				kr := c.KeyExchange(true, sm2dA, v, uidA, uidB, pubB, rFixPt, 16)
				if ra.Inf || !kr.OK {
					return nil, false
				}
				return concat(cat32(ra.X, ra.Y), kr.Key), true
			}),
		},
		{
			name: "sm2.kx.respond", noun: "scalar", g: grpSM2, hiOff: 1,
			run: func(rd io.Reader) obs {
				ke, err := sm2.NewKeyExchange(sm2Priv(sm2dB), ecPub(sm2.P256(), pubA), uidB, uidA, 16, true)
				if err != nil {
					panic("c12 setup: NewKeyExchange: " + err.Error())
				}
				rb, sb, err := ke.RepondKeyExchange(rd, ecPub(sm2.P256(), rFixPt))
				if err != nil {
					if rb != nil || len(sb) != 0 {
						return obs{err: err, leak: fmt.Sprintf("ephemeral key non-nil=%v, confirmation %x", rb != nil, sb)}
					}
					return obs{err: err}
				}
				if rb == nil || !fits32(rb.X, rb.Y) || len(sb) != 32 {
					return obs{bad: "nil ephemeral key or confirmation value of wrong size"}
				}
				out := concat(cat32(rb.X, rb.Y), sb)
				if s := runInterlude(func(r io.Reader) error {
					_, _, err := ke.RepondKeyExchange(r, ecPub(sm2.P256(), rFixPt))
					return err
				}); s != "" {
					return obs{bad: s}
				}
				key, err := ke.ConfirmInitiator(nil)
				if err != nil {
					return obs{bad: "ConfirmInitiator after RepondKeyExchange: " + err.Error()}
				}
				return obs{out: concat(out, key)}
			},
			expect: noRest(func(v *big.Int) ([]byte, bool) {
				rb := c.BaseMul(v)
				kr := c.KeyExchange(false, sm2dB, v, uidB, uidA, pubA, rFixPt, 16)
				if rb.Inf || !kr.OK {
					return nil, false
				}
				return concat(cat32(rb.X, rb.Y), kr.S1, kr.Key), true
			}),
		},
		{
			name: "ecdh.keygen", noun: "key", g: grpSM2, hiOff: 2, masked: true,
			run: func(rd io.Reader) obs {
				k, err := ecdh.P256().GenerateKey(rd)
				if err != nil {
					if k != nil {
						return obs{err: err, leak: "a non-nil *ecdh.PrivateKey"}
					}
					return obs{err: err}
				}
				if k == nil {
					return obs{bad: "nil key without error"}
				}
				kb, pb := k.Bytes(), k.PublicKey().Bytes()
				if len(kb) != 32 || len(pb) != 65 {
					return obs{bad: fmt.Sprintf("key length %d, public key length %d", len(kb), len(pb))}
				}
				return obs{out: concat(kb, pb)}
			},
			expect: noRest(func(v *big.Int) ([]byte, bool) {
				p := c.BaseMul(v)
				if p.Inf {
					return nil, false
				}
				return concat(ecref.Bytes32(v), p.Uncompressed()), true
			}),
			recoverScalar: func(out []byte) *big.Int { return new(big.Int).SetBytes(out[:32]) },
		},
		{
			name: "sm2.sign.legacy-p256", noun: "nonce", g: grpNIST, hiOff: 1,
			run: signRun(func(rd io.Reader) ([]byte, error) {
				return sm2.SignASN1(rd, legacyPriv(sm2dA), sigHash, nil)
			}),
			expect:        noRest(signExpect(nist, sm2dA, sigHash)),
			recoverScalar: signRecover(nist, sm2dA),
		},
		{
			name: "sm2.encrypt.legacy-p256", noun: "scalar", g: grpNIST, hiOff: 1,
			run: encRun(func(rd io.Reader) ([]byte, error) {
				return sm2.Encrypt(rd, ecPub(elliptic.P256(), nistPubA), encMsg, nil)
			}, false),
			expect: noRest(encExpect(nist, nistPubA)),
		},
		// API variants of the signature operation
		{
			name: "sm2.sign.rs", noun: "nonce", g: grpSM2, hiOff: 1, light: true,
			run: rsRun(func(rd io.Reader) (*big.Int, *big.Int, error) {
				return sm2.Sign(rd, &sm2Priv(sm2dA).PrivateKey, sigHash)
			}),
			expect:        noRest(signExpect(c, sm2dA, sigHash)),
			recoverScalar: signRecover(c, sm2dA),
		},
		{
			name: "sm2.signwithsm2.rs", noun: "nonce", g: grpSM2, hiOff: 1, light: true,
			run: rsRun(func(rd io.Reader) (*big.Int, *big.Int, error) {
				return sm2.SignWithSM2(rd, &sm2Priv(sm2dA).PrivateKey, nil, sigMsg)
			}),
			expect:        noRest(signExpect(c, sm2dA, eGM)),
			recoverScalar: signRecover(c, sm2dA),
		},
		{
			name: "sm2.signwithsm2.method", noun: "nonce", g: grpSM2, hiOff: 1, light: true,
			run: signRun(func(rd io.Reader) ([]byte, error) {
				return sm2Priv(sm2dA).SignWithSM2(rd, nil, sigMsg)
			}),
			expect:        noRest(signExpect(c, sm2dA, eGM)),
			recoverScalar: signRecover(c, sm2dA),
		},
		{
			// key wrapping: 16 random bytes become the SM4 key, then that key is SM2-encrypted with a sampled scalar
			name: "sm2.envelope", noun: "scalar", g: grpSM2, hiOff: 1, light: true, pre: envKey, preReads: []int{16},
			run: func(rd io.Reader) obs {
				der, err := sm2.MarshalEnvelopedPrivateKey(rd, ecPub(sm2.P256(), pubB), sm2Priv(sm2dA))
				if err != nil {
					if len(der) != 0 {
						return obs{err: err, leak: fmt.Sprintf("enveloped key %x", der)}
					}
					return obs{err: err}
				}
				var env struct {
					Alg    asn1.RawValue
					Cipher sm2CipherASN1
					Pub    asn1.BitString
					Enc    asn1.BitString
				}
				rest, e := asn1.Unmarshal(der, &env)
				if e != nil || len(rest) != 0 || !fits32(env.Cipher.X, env.Cipher.Y) || env.Enc.BitLength != 32*8 {
					return obs{bad: fmt.Sprintf("SM2EnvelopedKey does not parse: %v %x", e, der)}
				}
				return obs{out: concat([]byte{4}, cat32(env.Cipher.X, env.Cipher.Y), env.Cipher.C3, env.Cipher.C2, env.Enc.Bytes)}
			},
			expect: func(v *big.Int, pre, rest []byte) ([]byte, int, bool) {
				ct, ok := envCore(v, pre)
				if !ok {
					return nil, 0, false
				}
				blk := sm4ref.New(pre)
				enc := make([]byte, 32)
				d := ecref.Bytes32(sm2dA)
				blk.Encrypt(enc[:16], d[:16])
				blk.Encrypt(enc[16:], d[16:])
				return concat(ct, enc), 0, true
			},
		},
	}
	return ops
}

// newGrpA5 is the SM2 alphabet plus the two smallest scalars (and the largest below n) that the encryption of the
// one-byte message encMsg1 to the fixed recipient must discard in step A5 (all-zero mask): found by search with the
// reference, deterministic.
func newGrpA5() *grp {
	g := newGrp("sm2", ecref.SM2().N)
	c := ecref.SM2()
	pubB := c.BaseMul(sm2dB)
	found := 0
	for k := int64(1); k < 5000 && found < 2; k++ {
		if _, _, _, ok := c.EncryptWithK(pubB, big.NewInt(k), encMsg1); !ok {
			found++
			g.vals = append(g.vals, cval{fmt.Sprintf("a5-zero-mask#%d", found), ecref.Bytes32(big.NewInt(k)), true})
		}
	}
	if found < 2 {
		panic("c12: no all-zero-mask scalar found below 5000")
	}
	return g
}

// ---------------------------------------------------------------------------------------------
// failed repeat on a protocol object: after a successful InitKeyExchange / RespondKeyExchange the same call is made
// once more with a random source that fails at its first read. The repeat must return an error, and the session the
// caller is in (the ephemeral key it has already sent) must be unaffected: the confirmation step still derives the
// key that belongs to the first, successful call. interludeAns < 0: no interlude (the plain operations).

var interludeAns = -1

func runInterlude(call func(r io.Reader) error) string {
	if interludeAns < 0 {
		return ""
	}
	rd := engine.NewScriptReader(midB, midA)
	rd.Fault = map[int]int{0: interludeAns}
	if err := call(rd); err == nil {
		return "the repeated call with a random source failing at its first read returned no error"
	}
	return ""
}

func withFailedRepeat(ops []*opDef) []*opDef {
	var out []*opDef
	for _, b := range ops {
		switch b.name {
		case "sm2.kx.init", "sm2.kx.respond", "sm9.kx.init", "sm9.kx.respond":
		default:
			continue
		}
		for _, fa := range faultAnswers {
			b, fa := b, fa
			o := &opDef{name: b.name + ".then-failed-repeat." + fa.name, noun: b.noun, g: b.g, hiOff: b.hiOff, either: b.either, light: true,
				expect: b.expect, recoverScalar: b.recoverScalar}
			o.run = func(rd io.Reader) obs {
				interludeAns = fa.ans
				defer func() { interludeAns = -1 }()
				return b.run(rd)
			}
			out = append(out, o)
		}
	}
	return out
}
