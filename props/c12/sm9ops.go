package c12

import (
	"bytes"
	"encoding/asn1"
	"encoding/binary"
	"encoding/hex"
	"fmt"
	"io"
	"math/big"
	"sync"

	"github.com/emmansun/gmsm/sm9"
	hook "github.com/emmansun/gmsm/verifhook"

	"verif/ref/ecref"
	"verif/ref/sm3ref"
	"verif/ref/sm4ref"
)

// ---------------------------------------------------------------------------------------------
// SM9 reference pieces written from GM/T 0044.2 (H1/H2) — G1 arithmetic is ecref.SM9G1()

var n9 = ecref.SM9G1().N

// hashToRange is H_v(Z, n) of GM/T 0044.2 §5.4.2.2/5.4.2.3: hlen = 8*ceil(5*log2(n)/32) = 320 bits,
// Ha = leftmost 40 bytes of SM3(v||Z||ct=1) || SM3(v||Z||ct=2), h = (Ha mod (n-1)) + 1.
func hashToRange(prefix byte, z []byte) *big.Int {
	var ha []byte
	for ct := uint32(1); len(ha) < 40; ct++ {
		m := append([]byte{prefix}, z...)
		m = binary.BigEndian.AppendUint32(m, ct)
		d := sm3ref.Sum(m)
		ha = append(ha, d[:]...)
	}
	h := new(big.Int).SetBytes(ha[:40])
	h.Mod(h, new(big.Int).Sub(n9, big.NewInt(1)))
	return h.Add(h, big.NewInt(1))
}

func h1(id []byte, hid byte) *big.Int { return hashToRange(1, append(append([]byte{}, id...), hid)) }
func h2(z []byte) *big.Int            { return hashToRange(2, z) }

// GM/T 0044.5 example master keys
var (
	sm9ks = hx("0130E78459D78545CB54C587E02CF480CE0B66340F319F348A1D5B1F2DC5F4")
	sm9ke = hx("01EDEE3778F441F8DEA3D9FA0ACC4E07EE36C93F9A08618AF4AD85CEDE1C22")
	idA   = []byte("Alice")
	idB   = []byte("Bob")
	// fixed ephemeral scalar of the simulated peer in the key-exchange operations
	sm9rFix = hx("5879DD1D51E175946F23B1B41E93BA31C584AE59A426EC1046A4D03B06C8")
	sm9Hash = []byte("Chinese IBS standard")
	sm9Msg  = []byte("Chinese IBE standard")
)

const (
	hidSign = 0x01
	hidKX   = 0x02
	hidEnc  = 0x03
)

// refUserSignKey is ds = [ks * (H1(ID||hid) + ks)^-1] P1.
func refUserSignKey(ks *big.Int, id []byte, hid byte) ecref.Point {
	t1 := new(big.Int).Add(h1(id, hid), ks)
	t1.Mod(t1, n9)
	t2 := new(big.Int).ModInverse(t1, n9)
	t2.Mul(t2, ks)
	t2.Mod(t2, n9)
	return ecref.SM9G1().BaseMul(t2)
}

// refUserEncPub is Q = [H1(ID||hid)] P1 + Ppub-e.
func refUserEncPub(ppub ecref.Point, id []byte, hid byte) ecref.Point {
	c := ecref.SM9G1()
	return c.Add(c.BaseMul(h1(id, hid)), ppub)
}

func xy(p ecref.Point) []byte { return p.Uncompressed()[1:] }

func unhex(s string) []byte {
	b, err := hex.DecodeString(s)
	if err != nil {
		panic(err)
	}
	return b
}

// sm9SelfTest anchors H1, H2, user-key derivation and the G1 formulas with the GM/T 0044.5 example values — pure
// reference code, no library call.
func sm9SelfTest() error {
	if got := fmt.Sprintf("%064x", h1(idA, hidSign)); got != "2acc468c3926b0bdb2767e99ff26e084de9ced8dbc7d5fbf418027b667862fab" {
		return fmt.Errorf("c12: SM9 H1 = %s", got)
	}
	z := unhex("4368696E65736520494253207374616E6461726481377B8FDBC2839B4FA2D0E0F8AA6853BBBE9E9C4099608F8612C6078ACD7563815AEBA217AD502DA0F48704CC73CABB3C06209BD87142E14CBD99E8BCA1680F30DADC5CD9E207AEE32209F6C3CA3EC0D800A1A42D33C73153DED47C70A39D2E8EAF5D179A1836B359A9D1D9BFC19F2EFCDB829328620962BD3FDF15F2567F58A543D25609AE943920679194ED30328BB33FD15660BDE485C6B79A7B32B013983F012DB04BA59FE88DB889321CC2373D4C0C35E84F7AB1FF33679BCA575D67654F8624EB435B838CCA77B2D0347E65D5E46964412A096F4150D8C5EDE5440DDF0656FCB663D24731E80292188A2471B8B68AA993899268499D23C89755A1A89744643CEAD40F0965F28E1CD2895C3D118E4F65C9A0E3E741B6DD52C0EE2D25F5898D60848026B7EFB8FCC1B2442ECF0795F8A81CEE99A6248F294C82C90D26BD6A814AAF475F128AEF43A128E37F80154AE6CB92CAD7D1501BAE30F750B3A9BD1F96B08E97997363911314705BFB9A9DBB97F75553EC90FBB2DDAE53C8F68E42")
	hh := h2(z)
	if got := fmt.Sprintf("%064x", hh); got != "823c4b21e4bd2dfe1ed92c606653e996668563152fc33f55d7bfbb9bd9705adb" {
		return fmt.Errorf("c12: SM9 H2 = %s", got)
	}
	c := ecref.SM9G1()
	// Annex A: S = [(r - h) mod N] dsA
	r := hx("033C8616B06704813203DFD00965022ED15975C662337AED648835DC4B1CBE")
	l := new(big.Int).Sub(r, hh)
	l.Mod(l, n9)
	s := c.Mul(l, refUserSignKey(sm9ks, idA, hidSign))
	if got := hex.EncodeToString(s.Uncompressed()); got != "0473bf96923ce58b6ad0e13e9643a406d8eb98417c50ef1b29cef9adb48b6d598c856712f1c2e0968ab7769f42a99586aed139d5b8b3e15891827cc2aced9baa05" {
		return fmt.Errorf("c12: SM9 Annex A signature point S = %s", got)
	}
	// Annex C: Ppub-e, QB, C = [r]QB
	ppub := c.BaseMul(sm9ke)
	if got := hex.EncodeToString(xy(ppub)); got != "787ed7b8a51f3ab84e0a66003f32da5c720b17eca7137d39abc66e3c80a892ff769de61791e5adc4b9ff85a31354900b202871279a8c49dc3f220f644c57a7b1" {
		return fmt.Errorf("c12: SM9 Annex C Ppub-e = %s", got)
	}
	qb := refUserEncPub(ppub, idB, hidEnc)
	if got := hex.EncodeToString(xy(qb)); got != "709d165808b0a43e2574e203fa885abcbab16a240c4c1916552e7c43d09763b8693269a6be2456f43333758274786b6051ff87b7f198da4ba1a2c6e336f51fcc" {
		return fmt.Errorf("c12: SM9 Annex C QB = %s", got)
	}
	cc := c.Mul(hx("74015F8489C01EF4270456F9E6475BFB602BDE7F33FD482AB4E3684A6722"), qb)
	if got := hex.EncodeToString(xy(cc)); got != "1edee2c3f465914491de44cefb2cb434ab02c308d9dc5e2067b4fed5aaac8a0f1c9b4c435eca35ab83bb734174c0f78fde81a53374aff3b3602bbc5e37be9a4c" {
		return fmt.Errorf("c12: SM9 Annex C C = %s", got)
	}
	return nil
}

// ---------------------------------------------------------------------------------------------
// library-side fixtures (built once per process; key derivation is not under test here)

type sm9Fix struct {
	signUser     *sm9.SignPrivateKey
	encPub       *sm9.EncryptMasterPublicKey
	userA, userB *sm9.EncryptPrivateKey

	dsA        ecref.Point // reference-derived user signing key
	ppubE      ecref.Point
	qEncB      ecref.Point // Bob, hid 3 (wrap / encrypt)
	qKXA, qKXB ecref.Point // hid 2 (key exchange)
	rFixOnA    []byte      // fixed peer ephemeral point [rFix]Q_A (sent by a simulated responder B to initiator A), 65 bytes
	rFixOnB    []byte      // [rFix]Q_B (sent by a simulated initiator A to responder B)

	gS, gE *hook.GT // e(P1, Ppub-s), e(Ppub-e, P2)
	g2Init *hook.GT // e(RB_fixed, deA)
	g1Resp *hook.GT // e(RA_fixed, deB)
	wS, wE func(v *big.Int) []byte
	g3Init func(v *big.Int) []byte
	g3Resp func(v *big.Int) []byte
}

var (
	sm9Once sync.Once
	sm9F    *sm9Fix
)

func derInt(v *big.Int) []byte {
	b, err := asn1.Marshal(v)
	if err != nil {
		panic(err)
	}
	return b
}

func must(err error, what string) {
	if err != nil {
		panic("c12 setup: " + what + ": " + err.Error())
	}
}

func hookG1(p ecref.Point) *hook.G1 {
	g := new(hook.G1)
	_, err := g.Unmarshal(xy(p))
	must(err, "G1.Unmarshal")
	return g
}

func hookG2(uncompressed []byte) *hook.G2 {
	if len(uncompressed) != 129 || uncompressed[0] != 4 {
		panic("c12 setup: G2 encoding")
	}
	g := new(hook.G2)
	_, err := g.Unmarshal(uncompressed[1:])
	must(err, "G2.Unmarshal")
	return g
}

// gtPow returns a memoised v -> Marshal(base^v) computed with the generic square-and-multiply GT.ScalarMult
// (the schemes use the table-driven ScalarBaseMultGT / cyclotomic ScalarMultGT instead).
func gtPow(base *hook.GT) func(v *big.Int) []byte {
	var mu sync.Mutex
	m := map[string][]byte{}
	return func(v *big.Int) []byte {
		k := string(v.Bytes())
		mu.Lock()
		defer mu.Unlock()
		if r, ok := m[k]; ok {
			return r
		}
		r := new(hook.GT).ScalarMult(base, v).Marshal()
		m[k] = r
		return r
	}
}

func fix9() *sm9Fix {
	sm9Once.Do(func() {
		f := &sm9Fix{}
		c := ecref.SM9G1()
		signMaster, err := sm9.UnmarshalSignMasterPrivateKeyASN1(derInt(sm9ks))
		must(err, "sign master key")
		f.signUser, err = signMaster.GenerateUserKey(idA, hidSign)
		must(err, "sign user key")
		encMaster, err := sm9.UnmarshalEncryptMasterPrivateKeyASN1(derInt(sm9ke))
		must(err, "encrypt master key")
		f.encPub = encMaster.PublicKey()
		f.userA, err = encMaster.GenerateUserKey(idA, hidKX)
		must(err, "user key A")
		f.userB, err = encMaster.GenerateUserKey(idB, hidKX)
		must(err, "user key B")

		f.dsA = refUserSignKey(sm9ks, idA, hidSign)
		f.ppubE = c.BaseMul(sm9ke)
		f.qEncB = refUserEncPub(f.ppubE, idB, hidEnc)
		f.qKXA = refUserEncPub(f.ppubE, idA, hidKX)
		f.qKXB = refUserEncPub(f.ppubE, idB, hidKX)
		f.rFixOnA = c.Mul(sm9rFix, f.qKXA).Uncompressed()
		f.rFixOnB = c.Mul(sm9rFix, f.qKXB).Uncompressed()

		f.gS = hook.Pair(hook.Gen1, hookG2(signMaster.PublicKey().Bytes()))
		f.gE = hook.Pair(hookG1(f.ppubE), hook.Gen2)
		rbOnA, rbOnB := new(hook.G1), new(hook.G1)
		_, err = rbOnA.Unmarshal(f.rFixOnA[1:])
		must(err, "fixed R on A")
		_, err = rbOnB.Unmarshal(f.rFixOnB[1:])
		must(err, "fixed R on B")
		f.g2Init = hook.Pair(rbOnA, hookG2(f.userA.Bytes()))
		f.g1Resp = hook.Pair(rbOnB, hookG2(f.userB.Bytes()))
		f.wS, f.wE = gtPow(f.gS), gtPow(f.gE)
		f.g3Init, f.g3Resp = gtPow(f.g2Init), gtPow(f.g1Resp)
		sm9F = f
	})
	if sm9F == nil {
		panic("c12 setup: SM9 fixtures unavailable")
	}
	return sm9F
}

func allZero(b []byte) bool {
	for _, x := range b {
		if x != 0 {
			return false
		}
	}
	return true
}

func pkcs7(m []byte, bs int) []byte {
	p := bs - len(m)%bs
	return append(append([]byte{}, m...), bytes.Repeat([]byte{byte(p)}, p)...)
}

func cbcEncryptRef(key, iv, padded []byte) []byte {
	c := sm4ref.New(key)
	out := make([]byte, len(padded))
	prev := iv
	for i := 0; i < len(padded); i += 16 {
		var blk [16]byte
		for j := 0; j < 16; j++ {
			blk[j] = padded[i+j] ^ prev[j]
		}
		c.Encrypt(out[i:i+16], blk[:])
		prev = out[i : i+16]
	}
	return out
}

func ecbEncryptRef(key, padded []byte) []byte {
	c := sm4ref.New(key)
	out := make([]byte, len(padded))
	for i := 0; i < len(padded); i += 16 {
		c.Encrypt(out[i:i+16], padded[i:i+16])
	}
	return out
}

// ofbRef: O_0 = IV, O_i = E(O_{i-1}), C = P xor O (GB/T 17964 / SP 800-38A OFB).
func ofbRef(key, iv, p []byte) []byte {
	c := sm4ref.New(key)
	out := make([]byte, len(p))
	o := append([]byte{}, iv...)
	for i := 0; i < len(p); i += 16 {
		c.Encrypt(o, o)
		for j := 0; j < 16 && i+j < len(p); j++ {
			out[i+j] = p[i+j] ^ o[j]
		}
	}
	return out
}

// cfbEncryptRef: full-block CFB, C_i = P_i xor E(C_{i-1}), C_0 = IV, last block truncated.
func cfbEncryptRef(key, iv, p []byte) []byte {
	c := sm4ref.New(key)
	out := make([]byte, len(p))
	prev := append([]byte{}, iv...)
	for i := 0; i < len(p); i += 16 {
		var ks [16]byte
		c.Encrypt(ks[:], prev)
		n := 0
		for j := 0; j < 16 && i+j < len(p); j++ {
			out[i+j] = p[i+j] ^ ks[j]
			n++
		}
		if n == 16 {
			prev = append([]byte{}, out[i:i+16]...)
		}
	}
	return out
}

type sm9SigASN1 struct {
	H []byte
	S asn1.BitString
}

func sm9Ops() []*opDef {
	c := ecref.SM9G1()

	signExpect := noRest(func(v *big.Int) ([]byte, bool) {
		f := fix9()
		w := f.wS(v)
		h := h2(concat(sm9Hash, w))
		l := new(big.Int).Sub(v, h)
		l.Mod(l, n9)
		if l.Sign() == 0 {
			return nil, false
		}
		return concat(ecref.Bytes32(h), c.Mul(l, f.dsA).Uncompressed()), true
	})
	// wrapCore: C = [v]Q_B, K = KDF(C || g^v || ID_B, klen)
	wrapCore := func(v *big.Int, klen int) (cpt []byte, key []byte) {
		f := fix9()
		cp := c.Mul(v, f.qEncB)
		cpt = cp.Uncompressed()
		key = sm3ref.KDF(concat(cpt[1:], f.wE(v), idB), klen)
		return
	}
	wrapExpect := noRest(func(v *big.Int) ([]byte, bool) {
		cpt, key := wrapCore(v, 32)
		if allZero(key) {
			return nil, false
		}
		return concat(key, cpt), true
	})
	kxShared := func(ra, rb, g1, g2, g3 []byte) []byte {
		return sm3ref.KDF(concat(idA, idB, ra[1:], rb[1:], g1, g2, g3), 16)
	}

	ops := []*opDef{
		{
			name: "sm9.keygen.sign-master", noun: "key", g: grpSM9, hiOff: 2, either: true, masked: true,
			run: func(rd io.Reader) obs {
				k, err := sm9.GenerateSignMasterKey(rd)
				if err != nil {
					if k != nil {
						return obs{err: err, leak: "a non-nil *SignMasterPrivateKey"}
					}
					return obs{err: err}
				}
				if k == nil || k.PublicKey() == nil {
					return obs{bad: "nil key without error"}
				}
				kb, pb := k.Bytes(), k.PublicKey().Bytes()
				if len(kb) != 32 || len(pb) != 129 {
					return obs{bad: fmt.Sprintf("key length %d, public key length %d", len(kb), len(pb))}
				}
				return obs{out: concat(kb, pb)}
			},
			expect: noRest(func(v *big.Int) ([]byte, bool) {
				p, err := new(hook.G2).ScalarMult(hook.Gen2, ecref.Bytes32(v))
				if err != nil {
					panic("c12 oracle: G2.ScalarMult: " + err.Error())
				}
				return concat(ecref.Bytes32(v), p.MarshalUncompressed()), true
			}),
			recoverScalar: func(out []byte) *big.Int { return new(big.Int).SetBytes(out[:32]) },
		},
		{
			name: "sm9.keygen.enc-master", noun: "key", g: grpSM9, hiOff: 2, either: true, masked: true,
			run: func(rd io.Reader) obs {
				k, err := sm9.GenerateEncryptMasterKey(rd)
				if err != nil {
					if k != nil {
						return obs{err: err, leak: "a non-nil *EncryptMasterPrivateKey"}
					}
					return obs{err: err}
				}
				if k == nil || k.PublicKey() == nil {
					return obs{bad: "nil key without error"}
				}
				kb, pb := k.Bytes(), k.PublicKey().Bytes()
				if len(kb) != 32 || len(pb) != 65 {
					return obs{bad: fmt.Sprintf("key length %d, public key length %d", len(kb), len(pb))}
				}
				return obs{out: concat(kb, pb)}
			},
			expect: noRest(func(v *big.Int) ([]byte, bool) {
				p := c.BaseMul(v)
				if p.Inf {
					return nil, false
				}
				return concat(ecref.Bytes32(v), p.Uncompressed()), true
			}),
			recoverScalar: func(out []byte) *big.Int { return new(big.Int).SetBytes(out[:32]) },
		},
		{
			name: "sm9.sign", noun: "nonce", g: grpSM9, hiOff: 1,
			run: func(rd io.Reader) obs {
				h, s, err := sm9.Sign(rd, fix9().signUser, sm9Hash)
				if err != nil {
					if h != nil || len(s) != 0 {
						return obs{err: err, leak: fmt.Sprintf("h non-nil=%v, S=%x", h != nil, s)}
					}
					return obs{err: err}
				}
				if !fits32(h) || len(s) != 65 {
					return obs{bad: fmt.Sprintf("h=%v, len(S)=%d", h, len(s))}
				}
				return obs{out: concat(ecref.Bytes32(h), s)}
			},
			expect: signExpect,
		},
		{
			name: "sm9.sign.asn1", noun: "nonce", g: grpSM9, hiOff: 1,
			run: func(rd io.Reader) obs {
				sig, err := fix9().signUser.Sign(rd, sm9Hash, nil)
				if err != nil {
					if len(sig) != 0 {
						return obs{err: err, leak: fmt.Sprintf("signature %x", sig)}
					}
					return obs{err: err}
				}
				var v sm9SigASN1
				rest, e := asn1.Unmarshal(sig, &v)
				if e != nil || len(rest) != 0 || len(v.H) != 32 || v.S.BitLength != 65*8 {
					return obs{bad: fmt.Sprintf("SM9Signature does not parse as SEQUENCE{OCTET STRING(32), BIT STRING(65 bytes)}: %v %x", e, sig)}
				}
				return obs{out: concat(v.H, v.S.Bytes)}
			},
			expect: signExpect,
		},
		{
			name: "sm9.wrap", noun: "scalar", g: grpSM9, hiOff: 1,
			run: func(rd io.Reader) obs {
				key, ct, err := sm9.WrapKey(rd, fix9().encPub, idB, hidEnc, 32)
				if err != nil {
					if len(key) != 0 || len(ct) != 0 {
						return obs{err: err, leak: fmt.Sprintf("key %x, cipher %x", key, ct)}
					}
					return obs{err: err}
				}
				if len(key) != 32 || len(ct) != 65 {
					return obs{bad: fmt.Sprintf("len(key)=%d len(cipher)=%d", len(key), len(ct))}
				}
				return obs{out: concat(key, ct)}
			},
			expect: wrapExpect,
		},
		{
			name: "sm9.kx.init", noun: "scalar", g: grpSM9, hiOff: 1,
			run: func(rd io.Reader) obs {
				f := fix9()
				ke := f.userA.NewKeyExchange(idA, idB, 16, false)
				ra, err := ke.InitKeyExchange(rd, hidKX)
				if err != nil {
					if len(ra) != 0 {
						return obs{err: err, leak: fmt.Sprintf("ephemeral key %x", ra)}
					}
					return obs{err: err}
				}
				if len(ra) != 65 {
					return obs{bad: fmt.Sprintf("len(RA)=%d", len(ra))}
				}
				out := append([]byte{}, ra...)
				if s := runInterlude(func(r io.Reader) error { _, err := ke.InitKeyExchange(r, hidKX); return err }); s != "" {
					return obs{bad: s}
				}
				key, _, err := ke.ConfirmResponder(append([]byte{}, f.rFixOnA...), nil)
				if err != nil {
					return obs{bad: "ConfirmResponder after InitKeyExchange: " + err.Error()}
				}
				return obs{out: concat(out, key)}
			},
			expect: noRest(func(v *big.Int) ([]byte, bool) {
				f := fix9()
				ra := c.Mul(v, f.qKXB)
				if ra.Inf {
					return nil, false
				}
				rab := ra.Uncompressed()
				key := kxShared(rab, f.rFixOnA, f.wE(v), f.g2Init.Marshal(), f.g3Init(v))
				return concat(rab, key), true
			}),
		},
		{
			name: "sm9.kx.respond", noun: "scalar", g: grpSM9, hiOff: 1,
			run: func(rd io.Reader) obs {
				f := fix9()
				ke := f.userB.NewKeyExchange(idB, idA, 16, true)
				rb, sb, err := ke.RespondKeyExchange(rd, hidKX, append([]byte{}, f.rFixOnB...))
				if err != nil {
					if len(rb) != 0 || len(sb) != 0 {
						return obs{err: err, leak: fmt.Sprintf("ephemeral key %x, confirmation %x", rb, sb)}
					}
					return obs{err: err}
				}
				if len(rb) != 65 || len(sb) != 32 {
					return obs{bad: fmt.Sprintf("len(RB)=%d len(SB)=%d", len(rb), len(sb))}
				}
				out := concat(rb, sb)
				if s := runInterlude(func(r io.Reader) error {
					_, _, err := ke.RespondKeyExchange(r, hidKX, append([]byte{}, f.rFixOnB...))
					return err
				}); s != "" {
					return obs{bad: s}
				}
				key, err := ke.ConfirmInitiator(nil)
				if err != nil {
					return obs{bad: "ConfirmInitiator after RespondKeyExchange: " + err.Error()}
				}
				return obs{out: concat(out, key)}
			},
			expect: noRest(func(v *big.Int) ([]byte, bool) {
				f := fix9()
				rb := c.Mul(v, f.qKXA)
				if rb.Inf {
					return nil, false
				}
				rbb := rb.Uncompressed()
				g1, g2, g3 := f.g1Resp.Marshal(), f.wE(v), f.g3Resp(v)
				inner := sm3ref.Sum(concat(g2, g3, idA, idB, f.rFixOnB[1:], rbb[1:]))
				sb := sm3ref.Sum(concat([]byte{0x82}, g1, inner[:]))
				key := kxShared(f.rFixOnB, rbb, g1, g2, g3)
				return concat(rbb, sb[:], key), true
			}),
		},
	}

	// sm9.WrapKey API variants (same internal sampling, different result plumbing)
	ops = append(ops,
		&opDef{
			name: "sm9.wrap.method", noun: "scalar", g: grpSM9, hiOff: 1, light: true,
			run: func(rd io.Reader) obs {
				key, der, err := fix9().encPub.WrapKey(rd, idB, hidEnc, 32)
				if err != nil {
					if len(key) != 0 || len(der) != 0 {
						return obs{err: err, leak: fmt.Sprintf("key %x, cipher %x", key, der)}
					}
					return obs{err: err}
				}
				var bs asn1.BitString
				rest, e := asn1.Unmarshal(der, &bs)
				if e != nil || len(rest) != 0 || bs.BitLength != 65*8 || len(key) != 32 {
					return obs{bad: fmt.Sprintf("cipher is not a BIT STRING of 65 bytes / key length %d: %v %x", len(key), e, der)}
				}
				return obs{out: concat(key, bs.Bytes)}
			},
			expect: wrapExpect,
		},
		&opDef{
			name: "sm9.wrap.keypackage", noun: "scalar", g: grpSM9, hiOff: 1, light: true,
			run: func(rd io.Reader) obs {
				der, err := fix9().encPub.WrapKeyASN1(rd, idB, hidEnc, 32)
				if err != nil {
					if len(der) != 0 {
						return obs{err: err, leak: fmt.Sprintf("key package %x", der)}
					}
					return obs{err: err}
				}
				var kp struct {
					Key    []byte
					Cipher asn1.BitString
				}
				rest, e := asn1.Unmarshal(der, &kp)
				if e != nil || len(rest) != 0 || kp.Cipher.BitLength != 65*8 || len(kp.Key) != 32 {
					return obs{bad: fmt.Sprintf("SM9KeyPackage does not parse: %v %x", e, der)}
				}
				return obs{out: concat(kp.Key, kp.Cipher.Bytes)}
			},
			expect: wrapExpect,
		},
	)

	// sm9.Encrypt for every encryption mode (the block modes read a 16-byte IV from the same reader after the scalar)
	type encMode struct {
		name    string
		opts    sm9.EncrypterOpts
		encType byte
		k1Len   int
		iv      bool
		c2      func(k1, iv []byte) []byte
		light   bool
	}
	padded := pkcs7(sm9Msg, 16)
	modes := []encMode{
		{name: "xor", opts: nil, encType: 0, k1Len: len(sm9Msg), c2: func(k1, iv []byte) []byte { return xorBytes(sm9Msg, k1) }},
		{name: "ecb", opts: sm9.SM4ECBEncrypterOpts, encType: 1, k1Len: 16, light: true, c2: func(k1, iv []byte) []byte { return ecbEncryptRef(k1, padded) }},
		{name: "cbc", opts: sm9.SM4CBCEncrypterOpts, encType: 2, k1Len: 16, iv: true, c2: func(k1, iv []byte) []byte { return concat(iv, cbcEncryptRef(k1, iv, padded)) }},
		{name: "ofb", opts: sm9.SM4OFBEncrypterOpts, encType: 4, k1Len: 16, iv: true, light: true, c2: func(k1, iv []byte) []byte { return concat(iv, ofbRef(k1, iv, sm9Msg)) }},
		{name: "cfb", opts: sm9.SM4CFBEncrypterOpts, encType: 8, k1Len: 16, iv: true, light: true, c2: func(k1, iv []byte) []byte { return concat(iv, cfbEncryptRef(k1, iv, sm9Msg)) }},
	}
	for _, m := range modes {
		m := m
		core := cached(func(v *big.Int) ([]byte, bool) {
			cpt, key := wrapCore(v, m.k1Len+32)
			if allZero(key[:m.k1Len]) {
				return nil, false
			}
			return concat(cpt[1:], key), true // 64 bytes C1, then K1 || K2
		})
		mkExpect := func(withType bool) func(v *big.Int, pre, rest []byte) ([]byte, int, bool) {
			return func(v *big.Int, pre, rest []byte) ([]byte, int, bool) {
				ck, ok := core(v)
				if !ok {
					return nil, 0, false
				}
				c1, k1, k2 := ck[:64], ck[64:64+m.k1Len], ck[64+m.k1Len:]
				var iv []byte
				n := 0
				if m.iv {
					if len(rest) < 16 {
						return nil, 0, false
					}
					iv, n = rest[:16], 16
				}
				c2 := m.c2(k1, iv)
				c3 := sm3ref.Sum(concat(c2, k2))
				out := concat(c1, c3[:], c2)
				if withType {
					out = append(out, m.encType)
				}
				return out, n, true
			}
		}
		var extraReads []int
		if m.iv {
			extraReads = []int{16}
		}
		ops = append(ops, &opDef{
			name: "sm9.encrypt." + m.name, noun: "scalar", g: grpSM9, hiOff: 1, extraReads: extraReads, light: m.light,
			run: func(rd io.Reader) obs {
				ct, err := sm9.Encrypt(rd, fix9().encPub, idB, hidEnc, sm9Msg, m.opts)
				if err != nil {
					if len(ct) != 0 {
						return obs{err: err, leak: fmt.Sprintf("ciphertext %x", ct)}
					}
					return obs{err: err}
				}
				if len(ct) < 64+32+len(sm9Msg) {
					return obs{bad: fmt.Sprintf("ciphertext length %d", len(ct))}
				}
				return obs{out: ct}
			},
			expect: mkExpect(false),
		})
		if m.name != "xor" && m.name != "cbc" {
			continue
		}
		ops = append(ops, &opDef{
			name: "sm9.encrypt." + m.name + ".asn1", noun: "scalar", g: grpSM9, hiOff: 1, extraReads: extraReads, light: true,
			run: func(rd io.Reader) obs {
				der, err := sm9.EncryptASN1(rd, fix9().encPub, idB, hidEnc, sm9Msg, m.opts)
				if err != nil {
					if len(der) != 0 {
						return obs{err: err, leak: fmt.Sprintf("ciphertext %x", der)}
					}
					return obs{err: err}
				}
				var ct struct {
					EncType int
					C1      asn1.BitString
					C3, C2  []byte
				}
				rest, e := asn1.Unmarshal(der, &ct)
				if e != nil || len(rest) != 0 || ct.C1.BitLength != 65*8 || ct.C1.Bytes[0] != 4 || ct.EncType < 0 || ct.EncType > 255 {
					return obs{bad: fmt.Sprintf("SM9Cipher does not parse: %v %x", e, der)}
				}
				return obs{out: concat(ct.C1.Bytes[1:], ct.C3, ct.C2, []byte{byte(ct.EncType)})}
			},
			expect: mkExpect(true),
		})
	}
	return ops
}

var (
	opsOnce sync.Once
	opsAll  []*opDef
)

func allOps() []*opDef {
	opsOnce.Do(func() { opsAll = append(sm2Ops(), sm9Ops()...); opsAll = append(opsAll, withFailedRepeat(opsAll)...) })
	return opsAll
}
