package c12

// Widening by checklist (DESIGN.md §11.5): further input dimensions of the E4 check. Everything here reuses the
// oracle of c12.go (walk / runSeq: the complete output equals the output recomputed from the first acceptable block,
// bytes consumed, read sizes; faults: error and nothing else) on
//   - further exported entry points and option values that reach the same sampling code      (widen_ops.go, "variant/")
//   - degenerate restart branches that need a chosen digest / a searched scalar               (widen_ops.go, "variant/")
//   - every legal way an io.Reader may deliver its bytes                                      (this file,   "reader/")
//   - boundary values at limb and byte boundaries, long runs of rejected blocks               (this file,   "values/")
//   - histories on one object: failing call then good call, warm and cold caches, two objects (widen_hist.go, "hist/")
//   - arguments laid out in one dirty record, arguments unchanged after the call              (widen_hist.go, this file)

import (
	"bytes"
	"errors"
	"fmt"
	"io"
	"math/big"
	"strings"
	"sync"

	"verif/engine"
	"verif/ref/ecref"
)

// ---------------------------------------------------------------------------------------------
// shapeReader: a scripted io.Reader that controls HOW the bytes of the stream are delivered. A "request" is one
// io.ReadFull of the library as the reader sees it: a Read on a fresh buffer followed by Reads for exactly the bytes
// still missing. One-byte reads that are not the continuation of a request are the randutil.MaybeReadByte coin and
// are served from a separate lane (as engine.ScriptReader does).

var errShape = errors.New("verif: injected reader fault (shape)")

type shapeReader struct {
	stream []byte
	pos    int

	chunk    int // > 0: every answer carries at most chunk bytes
	splitReq int // request whose first answer carries splitAt bytes (-1: none)
	splitAt  int
	zeroNil  map[int]int // request -> number of (0, nil) answers before its first data
	dirty    bool        // a short answer scribbles over the rest of the buffer (io.Reader: "may use all of p as scratch space")
	failReq  int         // request answered with failN bytes TOGETHER with failErr (-1: none); afterwards (0, failErr) for ever
	failN    int         // -1: the full request
	failErr  error
	coinAns  int // answer of the coin lane: 0 = (1, nil), 1 = (0, io.EOF), 2 = (0, errShape), 3 = (0, nil)

	req      int // index of the current request
	owed     int // bytes still missing from the current request
	first    bool
	failed   bool
	Requests int
	OneByte  int
	Consumed int
}

func newShapeReader(stream []byte) *shapeReader {
	return &shapeReader{stream: stream, splitReq: -1, failReq: -1, req: -1}
}

func (r *shapeReader) Read(p []byte) (int, error) {
	if len(p) == 0 {
		return 0, nil
	}
	if len(p) == 1 && r.owed != 1 {
		r.OneByte++
		switch r.coinAns {
		case 1:
			return 0, io.EOF
		case 2:
			return 0, errShape
		case 3:
			return 0, nil
		}
		p[0] = 0
		return 1, nil
	}
	if r.failed {
		return 0, r.failErr
	}
	if r.owed == 0 || len(p) != r.owed {
		r.req++
		r.Requests++
		r.owed = len(p)
		r.first = true
	}
	if r.first && r.zeroNil[r.req] > 0 {
		r.zeroNil[r.req]--
		return 0, nil
	}
	n := len(p)
	var err error
	switch {
	case r.first && r.req == r.failReq:
		if r.failN >= 0 && r.failN < n {
			n = r.failN
		}
		err = r.failErr
		r.failed = true
	case r.first && r.req == r.splitReq:
		if r.splitAt < n {
			n = r.splitAt
		}
	case r.chunk > 0 && r.chunk < n:
		n = r.chunk
	}
	r.first = false
	if r.pos+n > len(r.stream) {
		r.failed, r.failErr = true, io.EOF
		return 0, io.EOF
	}
	copy(p, r.stream[r.pos:r.pos+n])
	r.pos += n
	r.Consumed = r.pos
	r.owed -= n
	if r.dirty {
		for i := n; i < len(p); i++ {
			p[i] = 0xEE ^ byte(i)
		}
	}
	return n, err
}

// ---------------------------------------------------------------------------------------------
// the operations the new families run on

func skipInConfig(o *opDef, cfg string) bool {
	// see the comment in Run: SM2 signatures over NIST P-256 panic inside the standard library's purego stub
	return cfg == "c-purego" && (strings.HasPrefix(o.name, "sm2.sign.legacy-p256") || strings.HasPrefix(o.name, "hist/sm2.sign.legacy-p256"))
}

func isFailedRepeat(o *opDef) bool { return strings.Contains(o.name, ".then-failed-repeat.") }

var (
	wOnce         sync.Once
	wMini, wMicro []*opDef
)

func widenOps() (mini, micro []*opDef) {
	wOnce.Do(func() {
		wMini = append(sm2VariantOps(), sm9VariantOps()...)
		wMicro = append(histOps(), recordOps()...)
	})
	return wMini, wMicro
}

// rejBlock is a block every operation must reject (its masked form is zero).
func rejBlock(mask []byte) []byte { return xorBytes(make([]byte, 32), mask) }

// ---------------------------------------------------------------------------------------------
// family "reader/": every legal delivery of the same bytes gives the same result; data handed over together with an
// error; failing coin lane.

func readerCase(t *engine.T, o *opDef) {
	quick := t.Quick()
	mask, ok := o.getMask(t)
	if !ok {
		return
	}
	rej := rejBlock(mask)
	type st struct {
		lab string
		b   []byte
	}
	streams := []st{{"midA", concat(o.pre, midA)}, {"rej|midB", concat(o.pre, rej, midB)}}
	if !quick {
		streams = append(streams, st{"rej|rej|midA", concat(o.pre, rej, rej, midA)})
	}
	for _, s := range streams {
		full := withTails(s.b)
		r := runSeq(t, []*opDef{o}, full, s.lab)
		if len(r) != 1 || !r[0].ok {
			return
		}
		ff := r[0]
		nreq := ff.calls
		same := func(kind, desc string, rd *shapeReader) {
			ob, panicked := safeRun(t, o.name+"/reader-shape/"+kind, o, rd)
			t.Eval(1)
			t.Nontrivial(o.name + "/reader-shape/" + kind + "/" + desc)
			if panicked {
				return
			}
			where := fmt.Sprintf("%s on stream [%s], %s", o.name, s.lab, desc)
			if ob.err != nil || ob.bad != "" {
				t.Fail(o.name+"/reader-shape/"+kind+"/error", "%s: err=%v %s (the reader delivered every byte without error)", where, ob.err, ob.bad)
				return
			}
			if !bytes.Equal(ob.out, ff.out) || rd.Consumed != ff.end {
				t.Fail(o.name+"/reader-shape/"+kind+"/output-differs", "%s: output %s (consumed %d) differs from the output for plain full reads %s (consumed %d)",
					where, engine.Hex(ob.out), rd.Consumed, engine.Hex(ff.out), ff.end)
			}
		}
		dirties := []bool{true}
		if !quick {
			dirties = []bool{true, false}
		}
		for _, dirty := range dirties {
			for c := 1; c <= 33; c++ {
				rd := newShapeReader(full)
				rd.chunk, rd.dirty = c, dirty
				same("chunked", fmt.Sprintf("every answer carries at most %d bytes (dirty scratch=%v)", c, dirty), rd)
			}
			for k := 0; k < nreq; k++ {
				for j := 1; j <= 31; j++ {
					rd := newShapeReader(full)
					rd.splitReq, rd.splitAt, rd.dirty = k, j, dirty
					same("split", fmt.Sprintf("request #%d answered with %d bytes first (dirty scratch=%v)", k, j, dirty), rd)
				}
			}
			if t.Failed() {
				return
			}
		}
		for k := 0; k < nreq; k++ {
			rd := newShapeReader(full)
			rd.zeroNil = map[int]int{k: 3}
			same("zero-nil-repeated", fmt.Sprintf("request #%d answered with (0,nil) three times first", k), rd)
			rd = newShapeReader(full)
			rd.zeroNil = map[int]int{k: 1}
			rd.chunk, rd.dirty = 7, true
			same("zero-nil-then-chunks", fmt.Sprintf("request #%d answered with (0,nil), then chunks of 7", k), rd)
		}
		// data together with an error
		for k := 0; k < nreq; k++ {
			for _, fe := range []struct {
				name string
				err  error
			}{{"eof", io.EOF}, {"error", errShape}} {
				for _, n := range []int{1, 15, 16, 31, -1} {
					rd := newShapeReader(full)
					rd.failReq, rd.failN, rd.failErr, rd.dirty = k, n, fe.err, true
					ob, panicked := safeRun(t, o.name+"/reader-shape/data-with-error", o, rd)
					t.Eval(1)
					if panicked {
						continue
					}
					partial := n >= 0 && n < ff.reqLen(o, k)
					where := fmt.Sprintf("%s on stream [%s], request #%d of %d answered with %d bytes (-1: all) together with %s, every later read fails", o.name, s.lab, k, nreq, n, fe.name)
					t.Nontrivial(fmt.Sprintf("%s/reader-shape/data-with-error/%s/n=%d/k=%d", o.name, fe.name, n, k))
					switch {
					case ob.err != nil:
						if ob.leak != "" {
							t.Fail(o.name+"/reader-shape/data-with-error/output-with-error", "%s: error %v returned together with %s", where, ob.err, ob.leak)
						}
						t.Outcome(o.name + "/data-with-error/error")
					case partial:
						t.Fail(o.name+"/reader-shape/partial-data-with-error/no-error", "%s: no error returned (output %s %s)", where, engine.Hex(ob.out), ob.bad)
					default:
						// the request was served completely; io.ReadFull drops the error in that case. Success is then legal,
						// but only with the output that belongs to the bytes delivered.
						if ob.bad != "" || !bytes.Equal(ob.out, ff.out) || rd.Consumed != ff.end {
							t.Fail(o.name+"/reader-shape/full-data-with-error/output-differs", "%s: success with output %s %s (consumed %d), fault-free output %s (consumed %d)",
								where, engine.Hex(ob.out), ob.bad, rd.Consumed, engine.Hex(ff.out), ff.end)
						}
						t.Outcome(o.name + "/data-with-error/success")
					}
				}
			}
		}
		// the coin lane fails (the library ignores the result of that read): error, or the same output
		for ans := 1; ans <= 3; ans++ {
			rd := newShapeReader(full)
			rd.coinAns = ans
			ob, panicked := safeRun(t, o.name+"/reader-shape/coin", o, rd)
			t.Eval(1)
			t.Nontrivial(fmt.Sprintf("%s/reader-shape/coin/%d", o.name, ans))
			if panicked {
				continue
			}
			if ob.err != nil {
				if ob.leak != "" {
					t.Fail(o.name+"/reader-shape/coin/output-with-error", "%s on stream [%s], one-byte reads answered with kind %d: error %v together with %s", o.name, s.lab, ans, ob.err, ob.leak)
				}
				continue
			}
			if ob.bad != "" || !bytes.Equal(ob.out, ff.out) || rd.Consumed != ff.end {
				t.Fail(o.name+"/reader-shape/coin/output-differs", "%s on stream [%s], one-byte reads answered with kind %d (1: EOF, 2: error, 3: (0,nil)): output %s %s (consumed %d), want %s (consumed %d)",
					o.name, s.lab, ans, engine.Hex(ob.out), ob.bad, rd.Consumed, engine.Hex(ff.out), ff.end)
			}
		}
		if t.Failed() {
			return
		}
	}
	checkFixtures(t)
}

// reqLen is the size of request #k of the fault-free run (preReads, then 32-byte blocks, then extraReads).
func (r seqResult) reqLen(o *opDef, k int) int {
	if k < len(o.preReads) {
		return o.preReads[k]
	}
	if k >= r.calls-len(o.extraReads) {
		return o.extraReads[k-(r.calls-len(o.extraReads))]
	}
	return 32
}

// ---------------------------------------------------------------------------------------------
// family "values/": boundary values at byte and limb boundaries around the range check, and long runs of rejections.

func pow2(e uint) *big.Int { return new(big.Int).Lsh(big.NewInt(1), e) }

// extVals lists further boundary blocks for group order n over the field prime p (and their images under the
// documented key-generation tweak). Values outside [0, 2^256) are dropped, duplicates (also of the base alphabet) too.
func extVals(g *grp, p *big.Int) []cval {
	n := g.n
	add := func(a, b *big.Int) *big.Int { return new(big.Int).Add(a, b) }
	sub := func(a, b *big.Int) *big.Int { return new(big.Int).Sub(a, b) }
	one := big.NewInt(1)
	lowMask := sub(pow2(64), one)
	nLow0 := new(big.Int).AndNot(n, lowMask)
	nLowF := new(big.Int).Or(n, lowMask)
	top := new(big.Int).Rsh(n, 192)
	cand := []struct {
		l string
		v *big.Int
	}{
		{"2", big.NewInt(2)}, {"3", big.NewInt(3)}, {"255", big.NewInt(255)}, {"256", big.NewInt(256)},
		{"2^32", pow2(32)}, {"2^64-1", sub(pow2(64), one)}, {"2^64", pow2(64)}, {"2^128-1", sub(pow2(128), one)}, {"2^128", pow2(128)},
		{"2^192-1", sub(pow2(192), one)}, {"2^192", pow2(192)}, {"2^248-1", sub(pow2(248), one)}, {"2^248", pow2(248)},
		{"2^255-1", sub(pow2(255), one)}, {"2^255", pow2(255)}, {"2^255+1", add(pow2(255), one)},
		{"n-3", sub(n, big.NewInt(3))}, {"n+2", add(n, big.NewInt(2))},
		{"n-2^32", sub(n, pow2(32))}, {"n+2^32", add(n, pow2(32))},
		{"n-2^64", sub(n, pow2(64))}, {"n+2^64", add(n, pow2(64))},
		{"n-2^128", sub(n, pow2(128))}, {"n+2^128", add(n, pow2(128))},
		{"n-2^192", sub(n, pow2(192))}, {"n+2^192", add(n, pow2(192))},
		{"n-2^224", sub(n, pow2(224))}, {"n+2^224", add(n, pow2(224))},
		{"n&^(2^64-1)", nLow0}, {"n|(2^64-1)", nLowF},
		{"(n>>192)<<192", new(big.Int).Lsh(top, 192)}, {"((n>>192)+1)<<192", new(big.Int).Lsh(add(top, one), 192)},
		{"(n>>192)<<192-1", sub(new(big.Int).Lsh(top, 192), one)},
		{"p-1", sub(p, one)}, {"p", p}, {"p+1", add(p, one)},
		{"2^256-2", sub(two256m1, one)}, {"2^256-2^32", sub(pow2(256), pow2(32))}, {"2^256-2^224", sub(pow2(256), pow2(224))},
		{"2n mod 2^256", new(big.Int).And(add(n, n), two256m1)},
	}
	seen := map[string]bool{}
	for _, v := range g.vals {
		seen[string(v.b)] = true
	}
	var out []cval
	put := func(l string, b []byte) {
		if !seen[string(b)] {
			seen[string(b)] = true
			out = append(out, cval{l, b, false})
		}
	}
	for _, c := range cand {
		if c.v.Sign() < 0 || c.v.BitLen() > 256 {
			continue
		}
		b := ecref.Bytes32(c.v)
		put(c.l, b)
		put("x("+c.l+")", docMask(b))
	}
	return out
}

var (
	extOnce sync.Once
	extMap  map[*grp][]cval
)

func extFor(g *grp) []cval {
	extOnce.Do(func() {
		extMap = map[*grp][]cval{}
		sm2p := ecref.SM2().P
		for _, e := range []struct {
			g *grp
			p *big.Int
		}{{grpSM2, sm2p}, {grpSM2A5, sm2p}, {grpSM9, ecref.SM9G1().P}, {grpNIST, nistP256().P}, {grpNISTA5(), nistP256().P}, {grpSM9K0(), ecref.SM9G1().P}} {
			extMap[e.g] = extVals(e.g, e.p)
		}
	})
	return extMap[g]
}

var longRuns = []int{3, 4, 5, 8, 15, 16, 17, 32, 33, 64, 65, 100, 101, 102, 128, 129, 255, 256, 257}

func valuesCase(t *engine.T, o *opDef) {
	mask, ok := o.getMask(t)
	if !ok {
		return
	}
	for _, v := range extFor(o.g) {
		var s []byte
		switch o.class(new(big.Int).SetBytes(xorBytes(v.b, mask))) {
		case clsAcc:
			s = concat(o.pre, v.b)
		default:
			s = concat(o.pre, v.b, midA)
		}
		runSeq(t, []*opDef{o}, withTails(s), v.label)
		t.Nontrivial(o.name + "/values/" + v.label)
		if t.Failed() {
			return
		}
	}
	// long runs of rejected blocks: no retry cap, no fallback after many rejections
	var rejs [][]byte
	for _, cv := range o.g.vals {
		if o.class(new(big.Int).SetBytes(xorBytes(cv.b, mask))) == clsRej {
			rejs = append(rejs, cv.b)
		}
	}
	for i, n := range longRuns {
		if t.Quick() && i%2 == 1 {
			continue
		}
		s := append([]byte{}, o.pre...)
		for j := 0; j < n; j++ {
			s = append(s, rejs[(j+i)%len(rejs)]...)
		}
		s = append(s, midB...)
		res := runSeq(t, []*opDef{o}, withTails(s), fmt.Sprintf("%d rejected blocks|midB", n))
		t.Nontrivial(fmt.Sprintf("%s/values/rejections=%d", o.name, n))
		if t.Failed() {
			return
		}
		// a fault behind a long run of rejections is still an error
		if len(res) == 1 && res[0].ok && (n == 17 || n == 101 || !t.Quick()) {
			for _, fa := range faultAnswers {
				rd := engine.NewScriptReader(withTails(s))
				rd.Fault = map[int]int{res[0].calls - 1 - len(o.extraReads): fa.ans}
				ob, panicked := safeRun(t, o.name+"/fault@k", o, rd)
				t.Eval(1)
				if panicked {
					continue
				}
				if ob.err == nil {
					t.Fail(o.name+"/fault@k/no-error", "%s: %s at the read after %d rejected blocks: no error returned (output %s %s)", o.name, fa.name, n, engine.Hex(ob.out), ob.bad)
				} else if ob.leak != "" {
					t.Fail(o.name+"/fault@k/output-with-error", "%s: %s at the read after %d rejected blocks: error %v together with %s", o.name, fa.name, n, ob.err, ob.leak)
				}
			}
		}
	}
	checkFixtures(t)
}

// ---------------------------------------------------------------------------------------------
// reduced treatments for the added operations

// microStreams: no rejection, one, two, and one stream per value the operation itself passes over (restart branches).
func microStreams(o *opDef, mask []byte) []stream {
	rej := cval{"rej", rejBlock(mask), false}
	var nImg cval
	for _, cv := range o.g.vals {
		if cv.label == "n" {
			nImg = cval{"x'(n)", xorBytes(cv.b, mask), false}
		}
	}
	a, b := cval{"midA", midA, true}, cval{"midB", midB, true}
	out := []stream{{[]cval{a}}, {[]cval{rej, b}}, {[]cval{rej, nImg, a}}}
	for _, cv := range o.g.vals {
		if (o.opRejects != nil || o.opEither != nil) && cv.label != "midA" && cv.label != "midB" &&
			o.class(new(big.Int).SetBytes(xorBytes(cv.b, mask))) == clsEither && !(o.either && strings.HasSuffix(cv.label, "n-1")) {
			out = append(out, stream{[]cval{cv, b}}, stream{[]cval{rej, cv, cv, a}})
		}
	}
	return out
}

func microCase(t *engine.T, o *opDef) {
	mask, ok := o.getMask(t)
	if !ok {
		return
	}
	contentCase(t, o, microStreams(o, mask), true)
	checkFixtures(t)
}

// ---------------------------------------------------------------------------------------------
// arguments stay what they were (dimension 5): every byte slice / big integer the operations are called with.

type fixture struct {
	name    string
	cur     func() []byte
	want    []byte
	restore func()
}

var (
	fixOnce sync.Once
	fixAll  []fixture
)

func fixtures() []fixture {
	fixOnce.Do(func() {
		addB := func(name string, p *[]byte) {
			want := append([]byte{}, (*p)...)
			fixAll = append(fixAll, fixture{name, func() []byte { return *p }, want, func() { *p = append([]byte{}, want...) }})
		}
		addI := func(name string, v *big.Int) {
			enc := func() []byte { return []byte(v.Text(16)) }
			want := enc()
			fixAll = append(fixAll, fixture{name, enc, want, func() { v.SetString(string(want), 16) }})
		}
		addB("sigHash", &sigHash)
		addB("sigMsg", &sigMsg)
		addB("encMsg", &encMsg)
		addB("encMsg1", &encMsg1)
		addB("uidA", &uidA)
		addB("uidB", &uidB)
		addB("idA", &idA)
		addB("idB", &idB)
		addB("sm9Hash", &sm9Hash)
		addB("sm9Msg", &sm9Msg)
		addB("sm9Msg1", &sm9Msg1)
		addB("midA", &midA)
		addB("midB", &midB)
		addI("sm2dA", sm2dA)
		addI("sm2dB", sm2dB)
		addI("sm2rFix", sm2rFix)
		addI("sm9ks", sm9ks)
		addI("sm9ke", sm9ke)
		addI("sm9rFix", sm9rFix)
	})
	return fixAll
}

func checkFixtures(t *engine.T) {
	for _, f := range fixtures() {
		if !bytes.Equal(f.cur(), f.want) {
			t.Fail("integrity/argument-modified", "the caller's %s was modified by an operation of this case: now %x, was %x", f.name, f.cur(), f.want)
			f.restore() // keep the damage inside this case
		}
	}
}

// ---------------------------------------------------------------------------------------------

func runWiden(c *engine.Ctx, ops []*opDef) {
	fixtures()
	mini, micro := widenOps()
	keep := func(in []*opDef) (out []*opDef) {
		for _, o := range in {
			if !skipInConfig(o, c.Config) {
				out = append(out, o)
			}
		}
		return
	}
	mini, micro = keep(mini), keep(micro)
	quick := c.Quick()

	// 4. added operations, content + faults over the whole alphabet (streams of <= 2 blocks, thorough <= 3)
	for _, o := range mini {
		o := o
		for _, first := range o.g.vals {
			first := first
			c.Case(fmt.Sprintf("variant/%s/first=%s", o.name, first.label), func(t *engine.T) {
				mask, ok := o.getMask(t)
				if !ok {
					return
				}
				n := 2
				if !quick {
					n = 3
				}
				contentCase(t, o, o.streamsFrom(first, mask, n, false), quick)
				checkFixtures(t)
			})
		}
		// the added operation before and after three others on one reader
		c.Case(fmt.Sprintf("variant-cross/%s", o.name), func(t *engine.T) {
			ma, ok := o.getMask(t)
			if !ok {
				return
			}
			for _, b := range ops {
				switch b.name {
				case "sm2.keygen", "sm9.sign", "sm9.encrypt.cbc", "ecdh.keygen":
				default:
					continue
				}
				mb, ok := b.getMask(t)
				if !ok {
					continue
				}
				ra, rb := rejBlock(ma), rejBlock(mb)
				runSeq(t, []*opDef{o, b}, withTails(concat(o.pre, ra, midA, b.pre, rb, midB)), "variant-cross-ab")
				runSeq(t, []*opDef{b, o}, withTails(concat(b.pre, rb, midB, o.pre, ra, midA)), "variant-cross-ba")
				runSeq(t, []*opDef{o, o}, withTails(concat(o.pre, midB, o.pre, ra, midA)), "variant-cross-aa")
				t.Nontrivial(o.name + "<->" + b.name)
			}
			checkFixtures(t)
		})
	}

	// 5. histories on one object, cold objects, record layouts
	for _, o := range micro {
		o := o
		c.Case("hist/"+strings.TrimPrefix(o.name, "hist/"), func(t *engine.T) { microCase(t, o) })
		if quick {
			continue
		}
		for _, first := range o.g.vals {
			first := first
			c.Case(fmt.Sprintf("hist-alphabet/%s/first=%s", strings.TrimPrefix(o.name, "hist/"), first.label), func(t *engine.T) {
				mask, ok := o.getMask(t)
				if !ok {
					return
				}
				contentCase(t, o, o.streamsFrom(first, mask, 2, false), true)
				checkFixtures(t)
			})
		}
	}

	// 6. reader shapes and 7. boundary values, for every operation
	var every []*opDef
	for _, o := range ops {
		if !isFailedRepeat(o) {
			every = append(every, o)
		}
	}
	every = append(every, mini...)
	for _, o := range every {
		o := o
		c.Case("reader/"+o.name, func(t *engine.T) { readerCase(t, o) })
	}
	for _, o := range every {
		o := o
		c.Case("values/"+o.name, func(t *engine.T) { valuesCase(t, o) })
	}
}

func widenRule() string {
	mini, micro := widenOps()
	var mn, mc []string
	for _, o := range mini {
		mn = append(mn, o.name)
	}
	for _, o := range micro {
		mc = append(mc, strings.TrimPrefix(o.name, "hist/"))
	}
	return fmt.Sprintf(" WIDENED (second pass, same oracle): %d further entry points / option values / restart branches (%s) with content+faults over the whole alphabet for streams of <=2 (thorough <=3) blocks and in sequence with four other operations; "+
		"restart branches are entered on purpose: digests chosen so that one nonce gives r=0, r+k=n or s=0 (SM2 curve and NIST P-256), scalars searched with the reference for which the SM2 (legacy path) mask or the first SM9 KDF byte is zero. "+
		"HISTORIES on one object (%d: %s): the measured call follows a failing call (three fault kinds, also after a rejected block), a good call, both, or runs while a second object is in use, cold (freshly decoded) SM9 keys, arguments carved from one dirty record that must be unchanged afterwards; returned buffers are overwritten by the harness. "+
		"READER: for every operation the stream is delivered in every chunk size 1..33, with the first answer of every request cut at every position 1..31 (rest of the buffer scribbled over), with repeated (0,nil), with data AND error in one answer (partial: error required; complete: error or the same output), with a failing one-byte lane: same output, same consumption. "+
		"VALUES: %d further blocks per group (limb and byte boundaries around n, p-1, p, p+1, 2^k, 2^k-1 and their XOR images) and runs of up to 257 rejected blocks (fault after the run).",
		len(mini), strings.Join(mn, ", "), len(micro), strings.Join(mc, ", "), len(extVals(grpSM2, ecref.SM2().P)))
}
