package c12

// Histories on one object (dimensions 2 and 6) and arguments laid out in one dirty record (dimensions 1, 3, 5).
//
// A session binds the drawing call of an operation to one long-lived object (an *sm2.PrivateKey with its cached
// inverse of d+1, a KeyExchange object, a freshly decoded - cold - SM9 key whose tables are built on first use). A
// history operation runs other calls on that object before (and, for protocol objects, after) the measured call:
//   after-failed(...)                         a call whose random source fails at its first read
//   after-rejected-block-then-failed(error)   a call whose random source delivers a block that must be rejected, then fails
//   after-good                                a successful call with another stream (its result is checked and overwritten)
//   after-good-then-failed(error)             both
//   after-refused-peer-value                  responder objects: a call that draws its scalar and is then refused because the
//                                             peer's point is not on the curve (the scalar of that call must not be used again)
//   while-other-object-in-use                 a second object of the same kind makes a successful call first and is
//                                             finished afterwards: its own result must be unaffected
//   then-rejected-block-then-failed(...)      protocol objects: after the measured call a failing call, then the
//                                             confirmation step must still belong to the measured call
//   then-good-on-other-object                 protocol objects: another object draws before the confirmation step
// The measured call is then judged by the unchanged oracle of the base operation (content + every fault position).

import (
	"bytes"
	"crypto/elliptic"
	"encoding/asn1"
	"fmt"
	"io"
	"math/big"

	"github.com/emmansun/gmsm/sm2"
	"github.com/emmansun/gmsm/sm9"

	"verif/engine"
	"verif/ref/ecref"
)

type bound struct {
	call   func(rd io.Reader) obs
	finish func() ([]byte, string) // later step on the same object; its result is appended to the output
	// refused: the drawing call with a peer value the object must refuse (a point that is not on the curve) and a
	// healthy random source; returns a complaint or "". The scalar drawn for the refused call must not be used again.
	refused func(rd io.Reader) string
}

type sessDef struct {
	name string
	base *opDef
	fin  bool // bind().finish != nil
	ref  bool // bind().refused != nil
	bind func() bound
}

func sessions() []sessDef {
	c := ecref.SM2()
	pubA, pubB := c.BaseMul(sm2dA), c.BaseMul(sm2dB)
	rFixPt := c.BaseMul(sm2rFix)
	signSess := func(name, base string, mk func() *sm2.PrivateKey, sign func(k *sm2.PrivateKey, rd io.Reader) ([]byte, error)) sessDef {
		return sessDef{name: name, base: opByName(base), bind: func() bound {
			k := mk()
			return bound{call: func(rd io.Reader) obs { return sigObs(sign(k, rd)) }}
		}}
	}
	ss := []sessDef{
		signSess("sm2.sign", "sm2.sign", func() *sm2.PrivateKey { return sm2Priv(sm2dA) },
			func(k *sm2.PrivateKey, rd io.Reader) ([]byte, error) { return sm2.SignASN1(rd, k, sigHash, nil) }),
		signSess("sm2.sign.gm", "sm2.sign.gm", func() *sm2.PrivateKey { return sm2Priv(sm2dA) },
			func(k *sm2.PrivateKey, rd io.Reader) ([]byte, error) {
				return k.Sign(rd, sigMsg, sm2.DefaultSM2SignerOpts)
			}),
		signSess("sm2.sign.legacy-p256", "sm2.sign.legacy-p256", func() *sm2.PrivateKey { return legacyPriv(sm2dA) },
			func(k *sm2.PrivateKey, rd io.Reader) ([]byte, error) { return sm2.SignASN1(rd, k, sigHash, nil) }),
		{name: "sm2.kx.init", base: opByName("sm2.kx.init"), fin: true, bind: func() bound {
			ke, err := sm2.NewKeyExchange(sm2Priv(sm2dA), ecPub(sm2.P256(), pubB), uidA, uidB, 16, false)
			must(err, "NewKeyExchange")
			return bound{
				call: func(rd io.Reader) obs {
					ra, err := ke.InitKeyExchange(rd)
					if err != nil {
						if ra != nil {
							return obs{err: err, leak: "a non-nil ephemeral public key"}
						}
						return obs{err: err}
					}
					if ra == nil || !fits32(ra.X, ra.Y) {
						return obs{bad: "nil ephemeral key"}
					}
					return obs{out: cat32(ra.X, ra.Y)}
				},
				finish: func() ([]byte, string) {
					key, _, err := ke.ConfirmResponder(ecPub(sm2.P256(), rFixPt), nil)
					if err != nil {
						return nil, "ConfirmResponder after InitKeyExchange: " + err.Error()
					}
					out := append([]byte{}, key...)
					scribble(key)
					return out, ""
				}}
		}},
		{name: "sm2.kx.respond", base: opByName("sm2.kx.respond"), fin: true, ref: true, bind: func() bound {
			ke, err := sm2.NewKeyExchange(sm2Priv(sm2dB), ecPub(sm2.P256(), pubA), uidB, uidA, 16, true)
			must(err, "NewKeyExchange")
			return bound{
				refused: func(rd io.Reader) string {
					rb, sb, err := ke.RepondKeyExchange(rd, ecPub(sm2.P256(), ecref.Point{X: big.NewInt(1), Y: big.NewInt(1)}))
					if err == nil || rb != nil || len(sb) != 0 {
						return fmt.Sprintf("RepondKeyExchange with an initiator point that is not on the curve: err=%v, results nil=%v", err, rb == nil && len(sb) == 0)
					}
					return ""
				},
				call: func(rd io.Reader) obs {
					rb, sb, err := ke.RepondKeyExchange(rd, ecPub(sm2.P256(), rFixPt))
					if err != nil {
						if rb != nil || len(sb) != 0 {
							return obs{err: err, leak: fmt.Sprintf("ephemeral key non-nil=%v, confirmation %x", rb != nil, sb)}
						}
						return obs{err: err}
					}
					if rb == nil || !fits32(rb.X, rb.Y) || len(sb) != 32 {
						return obs{bad: "nil ephemeral key or confirmation value of wrong size"}
					}
					out := concat(cat32(rb.X, rb.Y), sb)
					scribble(sb)
					return obs{out: out}
				},
				finish: func() ([]byte, string) {
					key, err := ke.ConfirmInitiator(nil)
					if err != nil {
						return nil, "ConfirmInitiator after RepondKeyExchange: " + err.Error()
					}
					out := append([]byte{}, key...)
					scribble(key)
					return out, ""
				}}
		}},
		{name: "sm9.sign.warmkey", base: opByName("sm9.sign.asn1"), bind: func() bound {
			return bound{call: func(rd io.Reader) obs { return sm9SigObs(fix9().signUser.Sign(rd, sm9Hash, nil)) }}
		}},
		{name: "sm9.sign.coldkey", base: opByName("sm9.sign.asn1"), bind: func() bound {
			k := coldSignKey()
			return bound{call: func(rd io.Reader) obs { return sm9SigObs(k.Sign(rd, sm9Hash, nil)) }}
		}},
		{name: "sm9.wrap.coldkey", base: opByName("sm9.wrap"), bind: func() bound {
			pub, err := sm9.UnmarshalEncryptMasterPublicKeyRaw(fix9().encPub.Bytes())
			must(err, "UnmarshalEncryptMasterPublicKeyRaw")
			return bound{call: func(rd io.Reader) obs {
				key, ct, err := sm9.WrapKey(rd, pub, idB, hidEnc, 32)
				if err != nil {
					if len(key) != 0 || len(ct) != 0 {
						return obs{err: err, leak: fmt.Sprintf("key %x, cipher %x", key, ct)}
					}
					return obs{err: err}
				}
				if len(key) != 32 || len(ct) != 65 {
					return obs{bad: fmt.Sprintf("len(key)=%d len(cipher)=%d", len(key), len(ct))}
				}
				out := concat(key, ct)
				scribble(key)
				scribble(ct)
				return obs{out: out}
			}}
		}},
		{name: "sm9.kx.init", base: opByName("sm9.kx.init"), fin: true, bind: func() bound {
			f := fix9()
			ke := f.userA.NewKeyExchange(idA, idB, 16, false)
			return bound{
				call: func(rd io.Reader) obs {
					ra, err := ke.InitKeyExchange(rd, hidKX)
					if err != nil {
						if len(ra) != 0 {
							return obs{err: err, leak: fmt.Sprintf("ephemeral key %x", ra)}
						}
						return obs{err: err}
					}
					if len(ra) != 65 {
						return obs{bad: fmt.Sprintf("len(RA)=%d", len(ra))}
					}
					return obs{out: append([]byte{}, ra...)}
				},
				finish: func() ([]byte, string) {
					key, _, err := ke.ConfirmResponder(append([]byte{}, f.rFixOnA...), nil)
					if err != nil {
						return nil, "ConfirmResponder after InitKeyExchange: " + err.Error()
					}
					out := append([]byte{}, key...)
					scribble(key)
					return out, ""
				}}
		}},
		{name: "sm9.kx.respond", base: opByName("sm9.kx.respond"), fin: true, ref: true, bind: func() bound {
			f := fix9()
			ke := f.userB.NewKeyExchange(idB, idA, 16, true)
			return bound{
				refused: func(rd io.Reader) string {
					bad := append([]byte{}, f.rFixOnB...)
					bad[64] ^= 1
					rb, sb, err := ke.RespondKeyExchange(rd, hidKX, bad)
					if err == nil || len(rb) != 0 || len(sb) != 0 {
						return fmt.Sprintf("RespondKeyExchange with an initiator point that is not on the curve: err=%v, results empty=%v", err, len(rb) == 0 && len(sb) == 0)
					}
					return ""
				},
				call: func(rd io.Reader) obs {
					rb, sb, err := ke.RespondKeyExchange(rd, hidKX, append([]byte{}, f.rFixOnB...))
					if err != nil {
						if len(rb) != 0 || len(sb) != 0 {
							return obs{err: err, leak: fmt.Sprintf("ephemeral key %x, confirmation %x", rb, sb)}
						}
						return obs{err: err}
					}
					if len(rb) != 65 || len(sb) != 32 {
						return obs{bad: fmt.Sprintf("len(RB)=%d len(SB)=%d", len(rb), len(sb))}
					}
					out := concat(rb, sb)
					scribble(sb)
					return obs{out: out}
				},
				finish: func() ([]byte, string) {
					key, err := ke.ConfirmInitiator(nil)
					if err != nil {
						return nil, "ConfirmInitiator after RespondKeyExchange: " + err.Error()
					}
					out := append([]byte{}, key...)
					scribble(key)
					return out, ""
				}}
		}},
	}
	return ss
}

func sm9SigObs(sig []byte, err error) obs {
	if err != nil {
		if len(sig) != 0 {
			return obs{err: err, leak: fmt.Sprintf("signature %x", sig)}
		}
		return obs{err: err}
	}
	var v sm9SigASN1
	rest, e := asn1.Unmarshal(sig, &v)
	if e != nil || len(rest) != 0 || len(v.H) != 32 || v.S.BitLength != 65*8 {
		return obs{bad: fmt.Sprintf("SM9Signature does not parse as SEQUENCE{OCTET STRING(32), BIT STRING(65 bytes)}: %v %x", e, sig)}
	}
	out := concat(v.H, v.S.Bytes)
	scribble(sig)
	return obs{out: out}
}

// coldSignKey decodes the user signing key and the master public key again: no pairing value, no table yet.
func coldSignKey() *sm9.SignPrivateKey {
	f := fix9()
	der, err := asn1.Marshal(struct{ A, B asn1.BitString }{
		asn1.BitString{Bytes: f.signUser.Bytes(), BitLength: 8 * len(f.signUser.Bytes())},
		asn1.BitString{Bytes: f.signUser.MasterPublic().Bytes(), BitLength: 8 * len(f.signUser.MasterPublic().Bytes())},
	})
	must(err, "marshal SM9 signing key")
	k, err := sm9.UnmarshalSignPrivateKeyASN1(der)
	must(err, "UnmarshalSignPrivateKeyASN1")
	return k
}

type interStep struct {
	name string
	pre  []string // steps before the measured call
	post []string // steps after it (protocol objects only)
}

var interSteps = []interStep{
	{name: "after-failed(error)", pre: []string{"fail0:error"}},
	{name: "after-failed(eof)", pre: []string{"fail0:eof"}},
	{name: "after-failed(short+eof)", pre: []string{"fail0:short+eof"}},
	{name: "after-rejected-block-then-failed(error)", pre: []string{"fail1:error"}},
	{name: "after-good", pre: []string{"good"}},
	{name: "after-good-then-failed(error)", pre: []string{"good", "fail1:error"}},
	{name: "while-other-object-in-use", pre: []string{"other"}},
	{name: "after-refused-peer-value", pre: []string{"refused"}},
	{name: "after-good-then-refused-peer-value", pre: []string{"good", "refused"}},
	{name: "then-rejected-block-then-failed(error)", post: []string{"fail1:error"}},
	{name: "then-rejected-block-then-failed(eof)", post: []string{"fail1:eof"}},
	{name: "then-rejected-block-then-failed(short+eof)", post: []string{"fail1:short+eof"}},
	{name: "then-good-on-other-object", post: []string{"other"}},
}

func ansByName(n string) int {
	for _, fa := range faultAnswers {
		if fa.name == n {
			return fa.ans
		}
	}
	panic("c12: fault answer " + n)
}

func histOps() []*opDef {
	var out []*opDef
	for _, s := range sessions() {
		for _, st := range interSteps {
			s, st := s, st
			if len(st.post) > 0 && !s.fin {
				continue
			}
			if !s.ref && (len(st.pre) > 0 && st.pre[len(st.pre)-1] == "refused") {
				continue
			}
			goodV := new(big.Int).SetBytes(tails[1])
			// step runs one interposed call; it returns a complaint or ""
			step := func(b bound, kind string, others *[]bound) string {
				switch {
				case kind == "refused":
					if msg := b.refused(engine.NewScriptReader(tails[2], tails[0], tails[1])); msg != "" {
						return msg
					}
				case kind == "good" || kind == "other":
					tgt := b
					if kind == "other" {
						tgt = s.bind()
						*others = append(*others, tgt)
					}
					ob := tgt.call(engine.NewScriptReader(tails[1], tails[2], tails[0]))
					exp, _, ok := s.base.expect(goodV, nil, nil)
					if ob.err != nil || ob.bad != "" || !ok || len(ob.out) == 0 || !bytes.HasPrefix(exp, ob.out) {
						return fmt.Sprintf("interposed successful call (%s): err=%v %s output %x, expected a prefix of %x", kind, ob.err, ob.bad, ob.out, exp)
					}
				default:
					var idx int
					var ansName string
					if _, err := fmt.Sscanf(kind, "fail%d:%s", &idx, &ansName); err != nil {
						panic("c12: step " + kind)
					}
					rd := engine.NewScriptReader(make([]byte, 32), ecref.Bytes32(two256m1), midB, midA)
					if idx == 0 {
						rd = engine.NewScriptReader(midB, midA)
					}
					rd.Fault = map[int]int{idx: ansByName(ansName)}
					ob := b.call(rd)
					if ob.err == nil {
						return "interposed call with a failing random source (" + kind + ") returned no error"
					}
					if ob.leak != "" {
						return "interposed call with a failing random source (" + kind + ") returned an error together with " + ob.leak
					}
				}
				return ""
			}
			o := &opDef{name: "hist/" + s.name + "/" + st.name, noun: s.base.noun, g: s.base.g, hiOff: s.base.hiOff, either: s.base.either, light: true,
				expect: s.base.expect, recoverScalar: s.base.recoverScalar, opRejects: s.base.opRejects, extraReads: s.base.extraReads}
			o.run = func(rd io.Reader) obs {
				b := s.bind()
				var others []bound
				for _, k := range st.pre {
					if msg := step(b, k, &others); msg != "" {
						return obs{bad: msg, badKey: "interposed-call"}
					}
				}
				ob := b.call(rd)
				if ob.err != nil || ob.bad != "" {
					return ob
				}
				out := ob.out
				for _, k := range st.post {
					if msg := step(b, k, &others); msg != "" {
						return obs{bad: msg, badKey: "interposed-call"}
					}
				}
				if b.finish != nil {
					key, bad := b.finish()
					if bad != "" {
						return obs{bad: bad}
					}
					out = concat(out, key)
				}
				// the other object's session must be its own
				for _, ob2 := range others {
					if ob2.finish == nil {
						continue
					}
					key, bad := ob2.finish()
					exp, _, _ := s.base.expect(goodV, nil, nil)
					if bad != "" || !bytes.HasSuffix(exp, key) || len(key) == 0 {
						return obs{bad: fmt.Sprintf("the second object, used alternately, finished with %x %s; expected the key at the end of %x", key, bad, exp), badKey: "other-object-disturbed"}
					}
				}
				return obs{out: out}
			}
			out = append(out, o)
		}
	}
	return out
}

// ---------------------------------------------------------------------------------------------
// record layouts: the byte-slice arguments of one call are carved from ONE array, each directly followed by the next,
// every capacity reaching to the end of the array, which ends in 640 bytes of dirty slack. The array must be unchanged afterwards
// and the result must be the one for the arguments alone.

type record struct {
	buf, want []byte
	parts     [][]byte
}

func layRecord(args ...[]byte) *record {
	r := &record{}
	for _, a := range args {
		r.buf = append(r.buf, a...)
	}
	for i := 0; i < 640; i++ { // ample: whatever the callee appends to an argument (a GT element is 384 bytes) lands in this array
		r.buf = append(r.buf, 0xD0^byte(i*11))
	}
	r.buf = r.buf[:len(r.buf):len(r.buf)]
	off := 0
	for _, a := range args {
		r.parts = append(r.parts, r.buf[off:off+len(a)])
		off += len(a)
	}
	r.want = append([]byte{}, r.buf...)
	return r
}

// seal reports a modified record through the observation.
func (r *record) seal(ob obs) obs {
	if bytes.Equal(r.buf, r.want) {
		return ob
	}
	msg := fmt.Sprintf("the array holding the arguments was modified at offset %d: %x, was %x", engine.FirstDiff(r.buf, r.want), r.buf, r.want)
	if ob.err != nil {
		ob.leak = msg
		return ob
	}
	return obs{bad: msg, badKey: "argument-record-modified"}
}

func recordOps() []*opDef {
	c := ecref.SM2()
	pubB := c.BaseMul(sm2dB)
	clone := func(base *opDef, run func(rd io.Reader) obs) *opDef {
		return &opDef{name: "hist/record/" + base.name, noun: base.noun, g: base.g, hiOff: base.hiOff, either: base.either, light: true,
			expect: base.expect, recoverScalar: base.recoverScalar, opRejects: base.opRejects, opEither: base.opEither,
			pre: base.pre, preReads: base.preReads, extraReads: base.extraReads, run: run}
	}
	var ops []*opDef
	// SM2 signature: message || uid
	ops = append(ops, clone(opByName("sm2.sign.gm"), func(rd io.Reader) obs {
		r := layRecord(sigMsg, ecref.DefaultUID)
		return r.seal(sigObs(sm2Priv(sm2dA).Sign(rd, r.parts[0], sm2.NewSM2SignerOption(true, r.parts[1]))))
	}))
	// SM2 signature over a digest with dirty spare capacity
	ops = append(ops, clone(opByName("sm2.sign"), func(rd io.Reader) obs {
		r := layRecord(sigHash)
		return r.seal(sigObs(sm2.SignASN1(rd, sm2Priv(sm2dA), r.parts[0], nil)))
	}))
	// SM2 encryption, one-byte message (restart branch) followed by live bytes
	for _, nm := range []string{"sm2.encrypt.1byte", "sm2.encrypt.legacy-p256.1byte"} {
		base := opByName(nm)
		curve, pub := elliptic.Curve(sm2.P256()), pubB
		if nm != "sm2.encrypt.1byte" {
			curve, pub = elliptic.P256(), nistP256().BaseMul(sm2dA)
		}
		ops = append(ops, clone(base, func(rd io.Reader) obs {
			r := layRecord(encMsg1, []byte("next field"))
			ct, err := sm2.Encrypt(rd, ecPub(curve, pub), r.parts[0], nil)
			if err != nil {
				if len(ct) != 0 {
					return r.seal(obs{err: err, leak: fmt.Sprintf("ciphertext %x", ct)})
				}
				return r.seal(obs{err: err})
			}
			return r.seal(obs{out: append([]byte{}, ct...)})
		}))
	}
	// SM2 key exchange: uid || peer uid
	{
		base := opByName("sm2.kx.init")
		rFixPt := c.BaseMul(sm2rFix)
		ops = append(ops, clone(base, func(rd io.Reader) obs {
			r := layRecord(uidA, uidB)
			ke, err := sm2.NewKeyExchange(sm2Priv(sm2dA), ecPub(sm2.P256(), pubB), r.parts[0], r.parts[1], 16, false)
			must(err, "NewKeyExchange")
			ra, err := ke.InitKeyExchange(rd)
			if err != nil {
				if ra != nil {
					return r.seal(obs{err: err, leak: "a non-nil ephemeral public key"})
				}
				return r.seal(obs{err: err})
			}
			if ra == nil || !fits32(ra.X, ra.Y) {
				return obs{bad: "nil ephemeral key"}
			}
			out := cat32(ra.X, ra.Y)
			key, _, err := ke.ConfirmResponder(ecPub(sm2.P256(), rFixPt), nil)
			if err != nil {
				return obs{bad: "ConfirmResponder after InitKeyExchange: " + err.Error()}
			}
			return r.seal(obs{out: concat(out, key)})
		}))
	}
	// SM9 signature over a digest with dirty spare capacity
	ops = append(ops, clone(opByName("sm9.sign.asn1"), func(rd io.Reader) obs {
		r := layRecord(sm9Hash)
		return r.seal(sm9SigObs(fix9().signUser.Sign(rd, r.parts[0], nil)))
	}))
	// SM9 one-byte encapsulation (restart branch): uid followed by live bytes
	{
		base := opByName("sm9.wrap.klen1")
		ops = append(ops, clone(base, func(rd io.Reader) obs {
			r := layRecord(idB, []byte("next field"))
			key, ct, err := sm9.WrapKey(rd, fix9().encPub, r.parts[0], hidEnc, 1)
			if err != nil {
				if len(key) != 0 || len(ct) != 0 {
					return r.seal(obs{err: err, leak: fmt.Sprintf("key %x, cipher %x", key, ct)})
				}
				return r.seal(obs{err: err})
			}
			if len(key) != 1 || len(ct) != 65 {
				return obs{bad: fmt.Sprintf("len(key)=%d len(cipher)=%d", len(key), len(ct))}
			}
			return r.seal(obs{out: concat(key, ct)})
		}))
	}
	// SM9 encryption: uid || plaintext, XOR (one byte, K1 = 0 branch) and CBC (padding + IV)
	for _, nm := range []string{"sm9.encrypt.xor.1byte", "sm9.encrypt.cbc"} {
		base := opByName(nm)
		msg, opts := sm9Msg1, sm9.EncrypterOpts(nil)
		if nm == "sm9.encrypt.cbc" {
			msg, opts = sm9Msg, sm9.SM4CBCEncrypterOpts
		}
		ops = append(ops, clone(base, func(rd io.Reader) obs {
			r := layRecord(idB, msg)
			ct, err := sm9.Encrypt(rd, fix9().encPub, r.parts[0], hidEnc, r.parts[1], opts)
			if err != nil {
				if len(ct) != 0 {
					return r.seal(obs{err: err, leak: fmt.Sprintf("ciphertext %x", ct)})
				}
				return r.seal(obs{err: err})
			}
			if len(ct) < 64+32+len(msg) {
				return obs{bad: fmt.Sprintf("ciphertext length %d", len(ct))}
			}
			return r.seal(obs{out: append([]byte{}, ct...)})
		}))
	}
	// SM9 key exchange, responder: uid || peer uid || RA
	{
		base := opByName("sm9.kx.respond")
		ops = append(ops, clone(base, func(rd io.Reader) obs {
			f := fix9()
			r := layRecord(idB, idA, f.rFixOnB)
			ke := f.userB.NewKeyExchange(r.parts[0], r.parts[1], 16, true)
			rb, sb, err := ke.RespondKeyExchange(rd, hidKX, r.parts[2])
			if err != nil {
				if len(rb) != 0 || len(sb) != 0 {
					return r.seal(obs{err: err, leak: fmt.Sprintf("ephemeral key %x, confirmation %x", rb, sb)})
				}
				return r.seal(obs{err: err})
			}
			if len(rb) != 65 || len(sb) != 32 {
				return obs{bad: fmt.Sprintf("len(RB)=%d len(SB)=%d", len(rb), len(sb))}
			}
			out := concat(rb, sb)
			key, err := ke.ConfirmInitiator(nil)
			if err != nil {
				return obs{bad: "ConfirmInitiator after RespondKeyExchange: " + err.Error()}
			}
			return r.seal(obs{out: concat(out, key)})
		}))
	}
	return ops
}
