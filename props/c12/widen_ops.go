package c12

// Added operations (dimension 8: every accepted variant / rarely used entry point; dimension 10: restart branches that
// need a chosen digest or a searched scalar). They get the reduced treatment of widen.go ("variant/").

import (
	"crypto"
	"crypto/aes"
	"crypto/cipher"
	"crypto/elliptic"
	"crypto/x509"
	"crypto/x509/pkix"
	"encoding/asn1"
	"fmt"
	"io"
	"math/big"
	"sync"

	"github.com/emmansun/gmsm/padding"
	"github.com/emmansun/gmsm/sm2"
	"github.com/emmansun/gmsm/sm9"
	"github.com/emmansun/gmsm/smx509"

	"verif/ref/ecref"
	"verif/ref/sm3ref"
)

// ---------------------------------------------------------------------------------------------
// helpers shared by the added operations

func scribble(b []byte) {
	for i := range b {
		b[i] = 0xA5 ^ byte(i*7)
	}
}

// sigObs turns the result of a DER-returning signing call into an observation and then overwrites the returned
// buffer (results belong to the caller).
func sigObs(sig []byte, err error) obs {
	if err != nil {
		if len(sig) != 0 {
			return obs{err: err, leak: fmt.Sprintf("signature %x", sig)}
		}
		return obs{err: err}
	}
	r, s, ok := ecref.ParseStrictDERSig(sig)
	if !ok || !fits32(r, s) {
		return obs{bad: fmt.Sprintf("signature is not strict DER SEQUENCE{INTEGER,INTEGER} with 0<=r,s<2^256: %x", sig)}
	}
	scribble(sig)
	return obs{out: cat32(r, s)}
}

func rsObs(r, s *big.Int, err error) obs {
	if err != nil {
		if r != nil || s != nil {
			return obs{err: err, leak: fmt.Sprintf("r=%v s=%v", r, s)}
		}
		return obs{err: err}
	}
	if !fits32(r, s) {
		return obs{bad: fmt.Sprintf("r=%v s=%v", r, s)}
	}
	out := cat32(r, s)
	r.SetInt64(-1)
	s.SetInt64(-1)
	return obs{out: out}
}

func signExp(cv *ecref.Curve, d *big.Int, e []byte) func(v *big.Int) ([]byte, bool) {
	return cached(func(v *big.Int) ([]byte, bool) {
		r, s, ok := cv.SignWithK(d, v, e)
		if !ok {
			return nil, false
		}
		return cat32(r, s), true
	})
}

func signRec(cv *ecref.Curve, d *big.Int) func(out []byte) *big.Int {
	return func(out []byte) *big.Int {
		if len(out) != 64 {
			return nil
		}
		return cv.RecoverK(d, new(big.Int).SetBytes(out[:32]), new(big.Int).SetBytes(out[32:]))
	}
}

func rest0(f func(v *big.Int) ([]byte, bool)) func(v *big.Int, pre, rest []byte) ([]byte, int, bool) {
	return func(v *big.Int, pre, rest []byte) ([]byte, int, bool) {
		e, ok := f(v)
		return e, 0, ok
	}
}

// retryDigest returns the digest for which nonce k0 makes the signing loop of GB/T 32918.2 restart in the named
// branch: "r=0": e = -x1; "r+k=n": e = -k0 - x1; "s=0": e = k0/d - x1 (then k0 - r d = 0).
func retryDigest(cv *ecref.Curve, d, k0 *big.Int, branch string) []byte {
	n := cv.N
	x1 := new(big.Int).Mod(cv.BaseMul(k0).X, n)
	e := new(big.Int)
	switch branch {
	case "r=0":
		e.Neg(x1)
	case "r+k=n":
		e.Neg(k0)
		e.Sub(e, x1)
	case "s=0":
		e.ModInverse(d, n)
		e.Mul(e, k0)
		e.Sub(e, x1)
	default:
		panic("c12: unknown restart branch")
	}
	e.Mod(e, n)
	// check the construction with the reference before it is used
	r := new(big.Int).Add(e, x1)
	r.Mod(r, n)
	ok := false
	switch branch {
	case "r=0":
		ok = r.Sign() == 0
	case "r+k=n":
		ok = r.Sign() != 0 && new(big.Int).Add(r, k0).Cmp(n) == 0
	case "s=0":
		t := new(big.Int).Mul(r, d)
		t.Sub(k0, t)
		t.Mod(t, n)
		ok = r.Sign() != 0 && new(big.Int).Add(r, k0).Cmp(n) != 0 && t.Sign() == 0
	}
	if _, _, sok := cv.SignWithK(d, k0, ecref.Bytes32(e)); !ok || sok {
		panic("c12: restart digest construction failed for " + branch)
	}
	return ecref.Bytes32(e)
}

// a5Group is the alphabet of curve order n plus the two smallest scalars for which rejects() holds (searched with the
// reference, deterministic).
func a5Group(name string, n *big.Int, label string, limit int64, rejects func(k *big.Int) bool) *grp {
	g := newGrp(name, n)
	found := 0
	for k := int64(2); k < limit && found < 2; k++ {
		if rejects(big.NewInt(k)) {
			found++
			g.vals = append(g.vals, cval{fmt.Sprintf("%s#%d", label, found), ecref.Bytes32(big.NewInt(k)), true})
		}
	}
	if found < 2 {
		panic("c12: search for restart scalars (" + label + ") found fewer than two below the limit")
	}
	return g
}

var (
	nistA5Once sync.Once
	nistA5     *grp
)

// grpNISTA5: NIST P-256 alphabet plus two scalars whose mask for the one-byte message to the legacy recipient is zero.
func grpNISTA5() *grp {
	nistA5Once.Do(func() {
		nist := nistP256()
		pub := nist.BaseMul(sm2dA)
		nistA5 = a5Group("p256", nist.N, "a5-zero-mask", 20000, func(k *big.Int) bool {
			_, _, _, ok := nist.EncryptWithK(pub, k, encMsg1)
			return !ok
		})
	})
	return nistA5
}

// ---------------------------------------------------------------------------------------------
// SM2

func sm2VariantOps() []*opDef {
	c := ecref.SM2()
	pubB := c.BaseMul(sm2dB)
	nist := nistP256()
	nistPubA, nistPubB := nist.BaseMul(sm2dA), nist.BaseMul(sm2dB)
	rFixSM2 := c.BaseMul(sm2rFix)
	rFixNist := nist.BaseMul(sm2rFix)
	_ = rFixSM2

	// plain ciphertexts in the other point forms / splicing order
	type form struct {
		name   string
		opts   *sm2.EncrypterOpts
		c1     func(p ecref.Point) []byte
		c2c3   bool
		hybrid bool
	}
	unc := func(p ecref.Point) []byte { return p.Uncompressed() }
	cmp := func(p ecref.Point) []byte { return p.Compressed() }
	forms := []form{
		{"compressed-c1c2c3", sm2.NewPlainEncrypterOpts(sm2.MarshalCompressed, sm2.C1C2C3), cmp, true, false},
		{"compressed", sm2.NewPlainEncrypterOpts(sm2.MarshalCompressed, sm2.C1C3C2), cmp, false, false},
		{"hybrid-c1c2c3", sm2.NewPlainEncrypterOpts(sm2.MarshalHybrid, sm2.C1C2C3), unc, true, true},
	}
	encOp := func(name string, g *grp, cv *ecref.Curve, curve elliptic.Curve, pub ecref.Point, f form, msg []byte, rejects func(v *big.Int) bool) *opDef {
		exp := cached(func(v *big.Int) ([]byte, bool) {
			c1, c2, c3, ok := cv.EncryptWithK(pub, v, msg)
			if !ok || c1.Inf {
				return nil, false
			}
			if f.c2c3 {
				return concat(f.c1(c1), c2, c3), true
			}
			return concat(f.c1(c1), c3, c2), true
		})
		return &opDef{name: name, noun: "scalar", g: g, hiOff: 1, light: true, opRejects: rejects,
			run: func(rd io.Reader) obs {
				ct, err := sm2.Encrypt(rd, ecPub(curve, pub), msg, f.opts)
				if err != nil {
					if len(ct) != 0 {
						return obs{err: err, leak: fmt.Sprintf("ciphertext %x", ct)}
					}
					return obs{err: err}
				}
				out := append([]byte{}, ct...)
				scribble(ct)
				// the hybrid form (06/07 || x || y) is compared as x || y; the SM2-curve path answers a hybrid request with 04
				if f.hybrid && len(out) > 0 && (out[0] == 6 || out[0] == 7) {
					out[0] = 4
				}
				return obs{out: out}
			},
			expect: rest0(exp)}
	}
	var ops []*opDef
	for _, f := range forms {
		ops = append(ops, encOp("sm2.encrypt."+f.name, grpSM2, c, sm2.P256(), pubB, f, encMsg, nil))
	}
	for _, f := range forms[:1] {
		ops = append(ops, encOp("sm2.encrypt.legacy-p256."+f.name, grpNIST, nist, elliptic.P256(), nistPubA, f, encMsg, nil))
	}
	ops = append(ops, encOp("sm2.encrypt.legacy-p256.hybrid-c1c2c3", grpNIST, nist, elliptic.P256(), nistPubA, forms[2], encMsg, nil))

	// legacy path: ASN.1 form, and the one-byte message whose all-zero mask restarts step A1
	asn1Op := func(name string, g *grp, msg []byte, rejects func(v *big.Int) bool, exp func(v *big.Int) ([]byte, bool)) *opDef {
		return &opDef{name: name, noun: "scalar", g: g, hiOff: 1, light: true, opRejects: rejects,
			run: func(rd io.Reader) obs {
				ct, err := sm2.EncryptASN1(rd, ecPub(elliptic.P256(), nistPubA), msg)
				if err != nil {
					if len(ct) != 0 {
						return obs{err: err, leak: fmt.Sprintf("ciphertext %x", ct)}
					}
					return obs{err: err}
				}
				var v sm2CipherASN1
				rest, e := asn1.Unmarshal(ct, &v)
				if e != nil || len(rest) != 0 || !fits32(v.X, v.Y) {
					return obs{bad: fmt.Sprintf("ASN.1 ciphertext does not parse: %v %x", e, ct)}
				}
				scribble(ct)
				return obs{out: concat([]byte{4}, cat32(v.X, v.Y), v.C3, v.C2)}
			},
			expect: rest0(exp)}
	}
	legacyExp := func(msg []byte) func(v *big.Int) ([]byte, bool) {
		return cached(func(v *big.Int) ([]byte, bool) {
			c1, c2, c3, ok := nist.EncryptWithK(nistPubA, v, msg)
			if !ok || c1.Inf {
				return nil, false
			}
			return concat(c1.Uncompressed(), c3, c2), true
		})
	}
	ops = append(ops, asn1Op("sm2.encrypt.legacy-p256.asn1", grpNIST, encMsg, nil, legacyExp(encMsg)))
	exp1 := legacyExp(encMsg1)
	a5 := func(v *big.Int) bool { _, ok := exp1(v); return !ok }
	ops = append(ops,
		asn1Op("sm2.encrypt.legacy-p256.asn1.1byte", grpNISTA5(), encMsg1, a5, exp1),
		&opDef{name: "sm2.encrypt.legacy-p256.1byte", noun: "scalar", g: grpNISTA5(), hiOff: 1, light: true, opRejects: a5,
			run: func(rd io.Reader) obs {
				ct, err := sm2.Encrypt(rd, ecPub(elliptic.P256(), nistPubA), encMsg1, nil)
				if err != nil {
					if len(ct) != 0 {
						return obs{err: err, leak: fmt.Sprintf("ciphertext %x", ct)}
					}
					return obs{err: err}
				}
				return obs{out: append([]byte{}, ct...)}
			},
			expect: rest0(exp1)})

	// signature entry points and option values
	eGMA := c.Digest(uidA, c.BaseMul(sm2dA), sigMsg)
	ops = append(ops,
		&opDef{name: "sm2.sign.opts-customuid", noun: "nonce", g: grpSM2, hiOff: 1, light: true,
			run: func(rd io.Reader) obs {
				return sigObs(sm2Priv(sm2dA).Sign(rd, sigMsg, sm2.NewSM2SignerOption(true, uidA)))
			},
			expect: rest0(signExp(c, sm2dA, eGMA)), recoverScalar: signRec(c, sm2dA)},
		&opDef{name: "sm2.sign.opts-cryptohash", noun: "nonce", g: grpSM2, hiOff: 1, light: true,
			run: func(rd io.Reader) obs {
				return sigObs(sm2Priv(sm2dA).Sign(rd, sigHash, crypto.SHA256))
			},
			expect: rest0(signExp(c, sm2dA, sigHash)), recoverScalar: signRec(c, sm2dA)},
		&opDef{name: "sm2.sign.opts-nogm", noun: "nonce", g: grpSM2, hiOff: 1, light: true,
			run: func(rd io.Reader) obs {
				return sigObs(sm2.SignASN1(rd, sm2Priv(sm2dA), sigHash, sm2.NewSM2SignerOption(false, uidA)))
			},
			expect: rest0(signExp(c, sm2dA, sigHash)), recoverScalar: signRec(c, sm2dA)},
		&opDef{name: "sm2.sign.legacy-p256.rs", noun: "nonce", g: grpNIST, hiOff: 1, light: true,
			run: func(rd io.Reader) obs {
				r, s, err := sm2.Sign(rd, &legacyPriv(sm2dA).PrivateKey, sigHash)
				return rsObs(r, s, err)
			},
			expect: rest0(signExp(nist, sm2dA, sigHash)), recoverScalar: signRec(nist, sm2dA)},
	)

	// a signing entry point outside the sm2 package that hands the caller's random source on: the PKCS#10 request.
	// The nonce is recovered from the signature with the private key (k = s(1+d) + rd) after the signature has been
	// verified by the reference over the TBS bytes of the request itself, which pins (r, s) to that nonce.
	pubA := c.BaseMul(sm2dA)
	ops = append(ops, &opDef{name: "smx509.csr", noun: "nonce", g: grpSM2, hiOff: 1, light: true,
		run: func(rd io.Reader) obs {
			der, err := smx509.CreateCertificateRequest(rd, &x509.CertificateRequest{Subject: pkix.Name{CommonName: "c12"}}, sm2Priv(sm2dA))
			if err != nil {
				if len(der) != 0 {
					return obs{err: err, leak: fmt.Sprintf("request %x", der)}
				}
				return obs{err: err}
			}
			var csr struct {
				TBS asn1.RawValue
				Alg asn1.RawValue
				Sig asn1.BitString
			}
			rest, e := asn1.Unmarshal(der, &csr)
			if e != nil || len(rest) != 0 {
				return obs{bad: fmt.Sprintf("CertificationRequest does not parse: %v %x", e, der)}
			}
			r, s, ok := ecref.ParseStrictDERSig(csr.Sig.RightAlign())
			if !ok || !fits32(r, s) {
				return obs{bad: fmt.Sprintf("signature is not strict DER SEQUENCE{INTEGER,INTEGER}: %x", csr.Sig.Bytes)}
			}
			if !c.Verify(pubA, c.Digest(ecref.DefaultUID, pubA, csr.TBS.FullBytes), r, s) {
				return obs{bad: fmt.Sprintf("the signature of the request does not verify over its TBS bytes: %x", der)}
			}
			return obs{out: ecref.Bytes32(c.RecoverK(sm2dA, r, s))}
		},
		expect:        func(v *big.Int, pre, rest []byte) ([]byte, int, bool) { return ecref.Bytes32(v), 0, true },
		recoverScalar: func(out []byte) *big.Int { return new(big.Int).SetBytes(out) }})

	// restart branches of the signing loop, entered with a chosen digest: midA is the nonce that must be passed over
	k0 := new(big.Int).SetBytes(midA)
	for _, br := range []string{"r=0", "r+k=n", "s=0"} {
		br := br
		e := retryDigest(c, sm2dA, k0, br)
		exp := signExp(c, sm2dA, e)
		ops = append(ops, &opDef{name: "sm2.sign.restart(" + br + ")", noun: "nonce", g: grpSM2, hiOff: 1, light: true,
			opRejects: func(v *big.Int) bool { _, ok := exp(v); return !ok },
			run: func(rd io.Reader) obs {
				return sigObs(sm2.SignASN1(rd, sm2Priv(sm2dA), e, nil))
			},
			expect: rest0(exp), recoverScalar: signRec(c, sm2dA)})
		en := retryDigest(nist, sm2dA, k0, br)
		expn := signExp(nist, sm2dA, en)
		ops = append(ops, &opDef{name: "sm2.sign.legacy-p256.restart(" + br + ")", noun: "nonce", g: grpNIST, hiOff: 1, light: true,
			opRejects: func(v *big.Int) bool { _, ok := expn(v); return !ok },
			run: func(rd io.Reader) obs {
				return sigObs(sm2.SignASN1(rd, legacyPriv(sm2dA), en, nil))
			},
			expect: rest0(expn), recoverScalar: signRec(nist, sm2dA)})
	}

	// key exchange over a curve that is not SM2 (randFieldElement with the curve taken from the key)
	ops = append(ops,
		&opDef{name: "sm2.kx.init.legacy-p256", noun: "scalar", g: grpNIST, hiOff: 1, light: true,
			run: func(rd io.Reader) obs {
				ke, err := sm2.NewKeyExchange(legacyPriv(sm2dA), ecPub(elliptic.P256(), nistPubB), uidA, uidB, 16, false)
				if err != nil {
					panic("c12 setup: NewKeyExchange: " + err.Error())
				}
				ra, err := ke.InitKeyExchange(rd)
				if err != nil {
					if ra != nil {
						return obs{err: err, leak: "a non-nil ephemeral public key"}
					}
					return obs{err: err}
				}
				if ra == nil || !fits32(ra.X, ra.Y) {
					return obs{bad: "nil ephemeral key"}
				}
				out := cat32(ra.X, ra.Y)
				key, _, err := ke.ConfirmResponder(ecPub(elliptic.P256(), rFixNist), nil)
				if err != nil {
					return obs{bad: "ConfirmResponder after InitKeyExchange: " + err.Error()}
				}
				return obs{out: concat(out, key)}
			},
			expect: rest0(cached(func(v *big.Int) ([]byte, bool) {
				ra := nist.BaseMul(v)
				kr := nist.KeyExchange(true, sm2dA, v, uidA, uidB, nistPubB, rFixNist, 16)
				if ra.Inf || !kr.OK {
					return nil, false
				}
				return concat(cat32(ra.X, ra.Y), kr.Key), true
			}))},
		&opDef{name: "sm2.kx.respond.legacy-p256", noun: "scalar", g: grpNIST, hiOff: 1, light: true,
			run: func(rd io.Reader) obs {
				ke, err := sm2.NewKeyExchange(legacyPriv(sm2dB), ecPub(elliptic.P256(), nistPubA), uidB, uidA, 16, true)
				if err != nil {
					panic("c12 setup: NewKeyExchange: " + err.Error())
				}
				rb, sb, err := ke.RepondKeyExchange(rd, ecPub(elliptic.P256(), rFixNist))
				if err != nil {
					if rb != nil || len(sb) != 0 {
						return obs{err: err, leak: fmt.Sprintf("ephemeral key non-nil=%v, confirmation %x", rb != nil, sb)}
					}
					return obs{err: err}
				}
				if rb == nil || !fits32(rb.X, rb.Y) || len(sb) != 32 {
					return obs{bad: "nil ephemeral key or confirmation value of wrong size"}
				}
				out := concat(cat32(rb.X, rb.Y), sb)
				scribble(sb)
				key, err := ke.ConfirmInitiator(nil)
				if err != nil {
					return obs{bad: "ConfirmInitiator after RepondKeyExchange: " + err.Error()}
				}
				return obs{out: concat(out, key)}
			},
			expect: rest0(cached(func(v *big.Int) ([]byte, bool) {
				rb := nist.BaseMul(v)
				kr := nist.KeyExchange(false, sm2dB, v, uidB, uidA, nistPubA, rFixNist, 16)
				if rb.Inf || !kr.OK {
					return nil, false
				}
				return concat(cat32(rb.X, rb.Y), kr.S1, kr.Key), true
			}))},
	)
	return ops
}

// ---------------------------------------------------------------------------------------------
// SM9

var sm9Msg1 = []byte{0x5c}

// w9Core: C = [v]Q_B and K = KDF(C || g^v || ID_B, klen) (GM/T 0044.4 key encapsulation), memoised per klen.
var (
	w9Mu   sync.Mutex
	w9Memo = map[string][2][]byte{}
)

func w9Core(v *big.Int, klen int) (cpt, key []byte) {
	k := fmt.Sprintf("%d/%x", klen, v)
	w9Mu.Lock()
	defer w9Mu.Unlock()
	if r, ok := w9Memo[k]; ok {
		return r[0], r[1]
	}
	f := fix9()
	cpt = ecref.SM9G1().Mul(v, f.qEncB).Uncompressed()
	key = sm3ref.KDF(concat(cpt[1:], f.wE(v), idB), klen)
	w9Memo[k] = [2][]byte{cpt, key}
	return
}

var (
	k0Once sync.Once
	k0Grp  *grp
)

// grpSM9K0: SM9 alphabet plus two scalars for which the first byte of KDF(C || w || ID_B) is zero: the whole key of a
// one-byte encapsulation (the operation must draw again) and K1 of a one-byte XOR encryption.
func grpSM9K0() *grp {
	k0Once.Do(func() {
		k0Grp = a5Group("sm9", n9, "kdf-byte0-zero", 20000, func(k *big.Int) bool {
			_, key := w9Core(k, 1)
			return key[0] == 0
		})
	})
	return k0Grp
}

func sm9VariantOps() []*opDef {
	padded := pkcs7(sm9Msg, 16)
	aesCBC := func(k1, iv []byte) []byte {
		blk, err := aes.NewCipher(k1)
		if err != nil {
			panic(err)
		}
		out := make([]byte, len(padded))
		cipher.NewCBCEncrypter(blk, iv).CryptBlocks(out, padded)
		return concat(iv, out)
	}
	type mode struct {
		name    string
		opts    sm9.EncrypterOpts
		encType byte
		k1Len   int
		iv      bool
		msg     []byte
		c2      func(k1, iv []byte) []byte
		asn1    bool
		g       *grp
		either  func(v *big.Int) bool
	}
	k1Zero := func(v *big.Int) bool { _, key := w9Core(v, 1+32); return key[0] == 0 }
	modes := []mode{
		{name: "ecb.asn1", opts: sm9.SM4ECBEncrypterOpts, encType: 1, k1Len: 16, msg: sm9Msg, asn1: true, g: grpSM9, c2: func(k1, iv []byte) []byte { return ecbEncryptRef(k1, padded) }},
		{name: "ofb.asn1", opts: sm9.SM4OFBEncrypterOpts, encType: 4, k1Len: 16, iv: true, msg: sm9Msg, asn1: true, g: grpSM9, c2: func(k1, iv []byte) []byte { return concat(iv, ofbRef(k1, iv, sm9Msg)) }},
		{name: "cfb.asn1", opts: sm9.SM4CFBEncrypterOpts, encType: 8, k1Len: 16, iv: true, msg: sm9Msg, asn1: true, g: grpSM9, c2: func(k1, iv []byte) []byte { return concat(iv, cfbEncryptRef(k1, iv, sm9Msg)) }},
		{name: "cbc-aes256", opts: sm9.NewCBCEncrypterOpts(padding.NewPKCS7Padding(16), aes.NewCipher, 32), encType: 2, k1Len: 32, iv: true, msg: sm9Msg, g: grpSM9, c2: aesCBC},
		// one-byte message: K1 is one byte. GM/T 0044.4 restarts when K1 is all zero; the library restarts only when the
		// whole K1||K2 is. The property statement fixes neither, so such a scalar is a don't-care value here.
		{name: "xor.1byte", opts: nil, encType: 0, k1Len: 1, msg: sm9Msg1, g: grpSM9K0(), either: k1Zero, c2: func(k1, iv []byte) []byte { return xorBytes(sm9Msg1, k1) }},
		{name: "xor.1byte.asn1", opts: nil, encType: 0, k1Len: 1, msg: sm9Msg1, asn1: true, g: grpSM9K0(), either: k1Zero, c2: func(k1, iv []byte) []byte { return xorBytes(sm9Msg1, k1) }},
	}
	var ops []*opDef
	for _, m := range modes {
		m := m
		var extraReads []int
		if m.iv {
			extraReads = []int{16}
		}
		expect := func(v *big.Int, pre, rest []byte) ([]byte, int, bool) {
			cpt, key := w9Core(v, m.k1Len+32)
			if allZero(key) {
				return nil, 0, false
			}
			k1, k2 := key[:m.k1Len], key[m.k1Len:]
			var iv []byte
			n := 0
			if m.iv {
				if len(rest) < 16 {
					return nil, 0, false
				}
				iv, n = rest[:16], 16
			}
			c2 := m.c2(k1, iv)
			c3 := sm3ref.Sum(concat(c2, k2))
			out := concat(cpt[1:], c3[:], c2)
			if m.asn1 {
				out = append(out, m.encType)
			}
			return out, n, true
		}
		run := func(rd io.Reader) obs {
			ct, err := sm9.Encrypt(rd, fix9().encPub, idB, hidEnc, m.msg, m.opts)
			if err != nil {
				if len(ct) != 0 {
					return obs{err: err, leak: fmt.Sprintf("ciphertext %x", ct)}
				}
				return obs{err: err}
			}
			if len(ct) < 64+32+len(m.msg) {
				return obs{bad: fmt.Sprintf("ciphertext length %d", len(ct))}
			}
			out := append([]byte{}, ct...)
			scribble(ct)
			return obs{out: out}
		}
		if m.asn1 {
			run = func(rd io.Reader) obs {
				der, err := fix9().encPub.Encrypt(rd, idB, hidEnc, m.msg, m.opts)
				if err != nil {
					if len(der) != 0 {
						return obs{err: err, leak: fmt.Sprintf("ciphertext %x", der)}
					}
					return obs{err: err}
				}
				var ct struct {
					EncType int
					C1      asn1.BitString
					C3, C2  []byte
				}
				rest, e := asn1.Unmarshal(der, &ct)
				if e != nil || len(rest) != 0 || ct.C1.BitLength != 65*8 || ct.C1.Bytes[0] != 4 || ct.EncType < 0 || ct.EncType > 255 {
					return obs{bad: fmt.Sprintf("SM9Cipher does not parse: %v %x", e, der)}
				}
				out := concat(ct.C1.Bytes[1:], ct.C3, ct.C2, []byte{byte(ct.EncType)})
				scribble(der)
				return obs{out: out}
			}
		}
		ops = append(ops, &opDef{name: "sm9.encrypt." + m.name, noun: "scalar", g: m.g, hiOff: 1, light: true, extraReads: extraReads,
			opEither: m.either, run: run, expect: expect})
	}

	// one-byte key encapsulation: one scalar in 256 derives the all-zero key and must be replaced by the next block
	wrapZero := func(v *big.Int) bool { _, key := w9Core(v, 1); return key[0] == 0 }
	wrap1Exp := func(v *big.Int, pre, rest []byte) ([]byte, int, bool) {
		cpt, key := w9Core(v, 1)
		if allZero(key) {
			return nil, 0, false
		}
		return concat(key, cpt), 0, true
	}
	ops = append(ops,
		&opDef{name: "sm9.wrap.klen1", noun: "scalar", g: grpSM9K0(), hiOff: 1, light: true, opRejects: wrapZero,
			run: func(rd io.Reader) obs {
				key, ct, err := sm9.WrapKey(rd, fix9().encPub, idB, hidEnc, 1)
				if err != nil {
					if len(key) != 0 || len(ct) != 0 {
						return obs{err: err, leak: fmt.Sprintf("key %x, cipher %x", key, ct)}
					}
					return obs{err: err}
				}
				if len(key) != 1 || len(ct) != 65 {
					return obs{bad: fmt.Sprintf("len(key)=%d len(cipher)=%d", len(key), len(ct))}
				}
				out := concat(key, ct)
				scribble(key)
				scribble(ct)
				return obs{out: out}
			},
			expect: wrap1Exp},
		&opDef{name: "sm9.wrap.klen1.keypackage", noun: "scalar", g: grpSM9K0(), hiOff: 1, light: true, opRejects: wrapZero,
			run: func(rd io.Reader) obs {
				der, err := fix9().encPub.WrapKeyASN1(rd, idB, hidEnc, 1)
				if err != nil {
					if len(der) != 0 {
						return obs{err: err, leak: fmt.Sprintf("key package %x", der)}
					}
					return obs{err: err}
				}
				var kp struct {
					Key    []byte
					Cipher asn1.BitString
				}
				rest, e := asn1.Unmarshal(der, &kp)
				if e != nil || len(rest) != 0 || kp.Cipher.BitLength != 65*8 || len(kp.Key) != 1 {
					return obs{bad: fmt.Sprintf("SM9KeyPackage does not parse: %v %x", e, der)}
				}
				return obs{out: concat(kp.Key, kp.Cipher.Bytes)}
			},
			expect: wrap1Exp},
	)
	return ops
}

func opByName(name string) *opDef {
	for _, o := range allOps() {
		if o.name == name {
			return o
		}
	}
	for _, o := range wMini {
		if o.name == name {
			return o
		}
	}
	panic("c12: no operation named " + name)
}
