// Package c13: hostile-bytes robustness (DESIGN §4 C13, kernel E3). Every exported entry point that consumes
// externally supplied bytes is driven with all byte strings of length <= 2 (<= 3 in the thorough tier for the
// fast parsers), with every 1-deviation mutant (substitution set, truncations, extensions, DER-aware edits) of
// 2-6 valid seed artefacts produced by the library itself, with deep-nesting probes, and - thorough tier - with
// all 2-deviation substitution mutants of the first 24 bytes (whole artefact when <= 128 bytes).
// Oracle: the call returns. A panic is a violation keyed `<entry point>/panic@<innermost gmsm frame>`; worker
// death and watchdog expiry are attributed by the engine to the case in flight.
package c13

import (
	"bytes"
	"crypto/rand"
	"fmt"
	"os"
	"strings"
	"syscall"

	"verif/engine"
)

type Prop struct{}

func (Prop) ID() string    { return "C13" }
func (Prop) Level() string { return "exploration" }
func (Prop) Configs(tier string) []string {
	// c-nopclmul / c-noaes: the symmetric decryptors run other code there (table-driven GHASH over the asm block, Go
	// SM4); only the bindings that reach it directly (AEAD Open, pkcs content ciphers, SM9 block-mode decryption)
	return []string{"c-default", "c-purego", "c-nopclmul", "c-noaes"}
}

// tierBinding: the entry points repeated on the further SM4 dispatch tiers.
func tierBinding(name string) bool {
	for _, p := range []string{"cipher.New", "pkcs.GetCipher+Decrypt[", "pkcs.Cipher.Decrypt[", "sm9.Decrypt[", "pkcs7.DecryptUsingPSK", "cfca.DecryptBySM4CBC"} {
		if strings.Contains(name, p) {
			return true
		}
	}
	return false
}

func (Prop) Rule() string {
	eps := allEPs()
	nFast, nSeeds, nHostile := 0, 0, 0
	for _, e := range eps {
		if e.fast {
			nFast++
		}
		for _, s := range e.seeds {
			nSeeds++
			if s.hostile {
				nHostile++
			}
		}
	}
	return fmt.Sprintf("E3 on %d entry-point bindings (exported functions of sm2, sm9, ecdh, smx509, pkcs, pkcs7, pkcs8, cfca, padding, cipher that parse, verify or decrypt caller-supplied bytes, each bound to fixed valid non-hostile arguments), "+
		"plus the follow-up methods of every successfully parsed object (pkcs7 Verify*/Decrypt*/DecryptAndVerify*/GetRecipients/DecryptUsingPSK/UnmarshalSignedAttribute, certificate CheckSignature/CheckSignatureFrom/Verify/VerifyHostname, CSR/CRL CheckSignature, key accessors and one use of a parsed public key), %d (entry point, seed) pairs. "+
		"Per entry point: all byte strings of length 0..2 (length 0..1 for one binding that runs a pairing per call whatever the input); thorough tier: also all strings of length 3 for the %d bindings whose call on a 3-byte input costs under ~1 µs. "+
		"Per (entry point, seed): the seed itself, then every 1-deviation mutant = each byte position x {00,01,7f,80,ff,b^01,b^80,b+1,b-1} (all 255 other values for artefacts flagged small - signatures, raw points and keys, padded blocks, AEAD and SM2/SM9 ciphertexts - except, in the quick tier, where every accepted mutant costs a pairing; thorough tier: all 255 values for every artefact <= 160 bytes), "+
		"every truncation length, prefix drops 1/2/4, 5 extensions, and per TLV of the lenient DER tree: length +1/-1/0/indefinite/huge/non-minimal, BER indefinite+EOC, 17 tag swaps incl. high-tag form, delete/duplicate/swap-with-next/empty/wrap in SEQUENCE, OCTET STRING, [0]/NULL/600-byte INTEGER/unwrap, INTEGER and string content edits; "+
		"PEM and base64 carried artefacts are mutated at DER level (re-encoded) and at text level; nesting probes of depth 100 and 10000 (definite, indefinite open, indefinite closed) each in a case of its own; "+
		"thorough tier adds all 2-deviation substitution pairs from the 9-value set within the first 24 bytes (whole artefact when <= 128 bytes and no pairing is involved). "+
		"%d of the seeds are 'authentic-hostile': produced by the library from adversarial parameters where the hostile size is protected by a MAC or by public-key encryption and therefore out of reach of byte mutation (SM9 ciphertext whose authenticated C2 is not block aligned, EnvelopedData carrying a 5-byte content key). "+
		"Cost parameters of the key-derivation function inside seeds (PBKDF2/PBES1 iteration count and key length, scrypt N/r/p) are excluded from substitution. Every input is handed over in a buffer that ends at a PROT_NONE page with a canary in front. "+
		"Oracle: the call returns (value or error); a panic is a violation keyed `<entry point>[>follow-up]/panic@<innermost gmsm frame>`; worker death (SIGSEGV past the guard page, stack exhaustion) and watchdog expiry are violations of the case in flight. "+
		"distinct_nontrivial counts distinct (entry point, seed, mutation class, accepted/rejected) classes reached; distinct_outcomes counts (entry point, accepted/rejected/panicked); inputs_accepted/rejected/panicked are totals over all calls.",
		len(eps), nSeeds, nFast, nHostile)
}

func (Prop) Assumptions() []string {
	return []string{
		"inputs further than two substitutions / one structural edit away from a seed and longer than 3 bytes are not explored; recursion depth is probed to 10^4 only",
		"coverage-guided fuzzing named in the property's quantifier is sampling and is deliberately not used",
		"documented crypto/cipher preconditions whose sizes the caller controls (nonce length of AEAD.Open, block size given to a padding constructor: 8, 16, 32 only) are respected; sizes that come out of the hostile artefact (IV, ciphertext length, key length) are not",
		"seeds are built by the library under a deterministic crypto/rand.Reader replacement and are bit-identical in the default and purego builds; the RSA keys, the two PKCS#7 SignedData with a signing-time attribute (pkcs7 stamps time.Now()) and one SM2-over-NIST-P256 signature (its signer cannot run under -tags purego because the standard library's p256 Inverse is unimplemented there) are embedded constants produced once by `c13 gen-embedded`",
		"KDF cost parameters (iteration counts, scrypt N/r/p, RSA modulus size) are never mutated upward by substitution; DER edits can raise an iteration count to at most 0x2ff and scrypt N to 4096",
		"configurations: amd64 default dispatch and -tags purego; arm64/ppc64le/s390x assembly is not covered; guard pages detect reads/writes past the end of the input buffer only (not past internally allocated buffers)",
		"the non-hostile arguments (uid, hid, password, recipient key and certificate, trust pool, verification time 2026-06-01, additional data, nonce) are fixed valid values; hostile values of two arguments at once are not combined",
		"follow-up methods are driven only where they are part of processing the hostile artefact; re-marshalling an SM9 user key that was (legitimately) encoded without its master public key dereferences nil and is documented API usage, not driven",
		"sm2.KeyExchange.ConfirmResponder(rB *ecdsa.PublicKey, sB []byte), sm2.Verify/sm9.Verify with *big.Int arguments and all block-mode decrypters of package cipher (XTS, HCTR, BC, OFBNLF, ECB: documented panicking preconditions) are outside the enumerated space",
		"a seed the library under test cannot build, or rejects, is reported as measured evidence (seeds_unbuildable / seeds_not_accepted), not as a C13 violation",
	}
}

// ---------------------------------------------------------------------------------------------
// framework

// seedT is one valid artefact. gen is memoized; protect returns byte ranges excluded from substitution.
type seedT struct {
	name    string
	gen     func() []byte
	protect func(seed []byte) [][2]int
	parts   int // number of cases the 1-deviation enumeration is split into (default 1)
	// hostile marks an artefact that the library produced from adversarial parameters (e.g. an SM9 ciphertext
	// whose authenticated C2 is not a whole number of blocks): it is expected to be rejected, not accepted.
	hostile      bool
	thoroughOnly bool
}

// epT binds one entry point (with fixed non-hostile arguments) to its seeds.
type epT struct {
	name  string
	call  func(x *cx, in []byte) bool // performs the guarded calls; reports whether the primary call accepted the input
	seeds []seedT
	fast  bool // thorough tier: all 3-byte strings
	der   bool // run the nesting probes
	small bool // AllValues substitution (artefact is short)
	// costly: a successful parse is followed by a pairing or similarly expensive work. Quick tier then uses the
	// small substitution set even when small is set, and the 2-deviation window is 24 bytes.
	costly       bool
	thoroughOnly bool
	// enc wraps DER into the carried form (PEM, base64). Mutation then happens on both levels.
	enc func(der []byte) []byte
	// pairLimit overrides the 2-deviation window (0 = default rule; <0 = no pair enumeration).
	pairLimit int
	// shortMax1 restricts the all-short-strings enumeration to length <= 1 (entry points that run a pairing for
	// every input whatever its content, e.g. a key-exchange confirmation whose hostile argument is only compared).
	shortMax1 bool
	// noShort3 etc. are derived from fast.
}

// cx is the per-case call context.
type cx struct {
	t    *engine.T
	ep   *epT
	desc string
	in   []byte
	seen map[string]int
	g1   gcache

	nOK, nErr, nPanic int
	suppressed        int
	panics            int
	classesOK         map[string]struct{}
	classesErr        map[string]struct{}
	selfErr           error
}

func newCx(t *engine.T, e *epT) *cx {
	return &cx{t: t, ep: e, seen: map[string]int{}, classesOK: map[string]struct{}{}, classesErr: map[string]struct{}{}}
}

func normMsg(s string) string {
	b := []byte(s)
	out := b[:0]
	prevDigit := false
	for _, c := range b {
		if c >= '0' && c <= '9' {
			if !prevDigit {
				out = append(out, '#')
			}
			prevDigit = true
			continue
		}
		prevDigit = false
		out = append(out, c)
	}
	if len(out) > 120 {
		out = out[:120]
	}
	return string(out)
}

func hexHead(b []byte, n int) string {
	if len(b) <= n {
		return fmt.Sprintf("%x", b)
	}
	return fmt.Sprintf("%x…", b[:n])
}

// g runs fn under t.Guard(name, …). The panic value is augmented with the input that caused it; after three
// reports of the same (name, normalised message) in one case further identical panics are only counted, so
// that entry points that panic on most inputs do not turn the case into a stack-dump benchmark.
func (x *cx) g(name string, fn func()) (panicked bool) {
	inner := func() {
		defer func() {
			if r := recover(); r != nil {
				panicked = true
				x.panics++
				k := name + "|" + normMsg(fmt.Sprint(r))
				x.seen[k]++
				if x.seen[k] > 3 {
					x.suppressed++
					return
				}
				panic(fmt.Sprintf("%v   [input %q, %d bytes: %s]", r, x.desc, len(x.in), hexHead(x.in, 64)))
			}
		}()
		fn()
	}
	if x.t == nil { // self-test mode
		func() {
			defer func() {
				if r := recover(); r != nil {
					panicked = true
					if x.selfErr == nil {
						x.selfErr = fmt.Errorf("%s panicked on its own seed: %v", name, r)
					}
				}
			}()
			fn()
		}()
		return
	}
	if x.t.Guard(name, inner) {
		panicked = true
	}
	return
}

func mutClass(desc string) string {
	if strings.HasPrefix(desc, "der#") {
		if i := strings.IndexByte(desc, '/'); i >= 0 {
			s := desc[i+1:]
			if j := strings.IndexAny(s, "=:"); j >= 0 {
				s = s[:j]
			}
			return "der/" + s
		}
	}
	if i := strings.IndexAny(desc, "@="); i >= 0 {
		return desc[:i]
	}
	return desc
}

// run feeds one input to the entry point.
func (x *cx) run(desc string, in []byte) {
	x.desc = desc
	x.in = x.g1.copy(in)
	before := x.panics
	ok := x.ep.call(x, x.in)
	if x.panics != before {
		x.nPanic++
	} else if ok {
		x.nOK++
	} else {
		x.nErr++
	}
	cl := mutClass(desc)
	if ok {
		if _, had := x.classesOK[cl]; !had {
			x.classesOK[cl] = struct{}{}
		}
	} else {
		if _, had := x.classesErr[cl]; !had {
			x.classesErr[cl] = struct{}{}
		}
	}
}

// finish flushes per-case accounting into the engine.
func (x *cx) finish(seedName string, n int) {
	t := x.t
	t.Eval(n)
	for c := range x.classesOK {
		t.Nontrivial(x.ep.name + "|" + seedName + "|" + c + "|accepted")
	}
	for c := range x.classesErr {
		t.Nontrivial(x.ep.name + "|" + seedName + "|" + c + "|rejected")
	}
	if x.nOK > 0 {
		t.Outcome(x.ep.name + ":accepted")
	}
	if x.nErr > 0 {
		t.Outcome(x.ep.name + ":rejected")
	}
	if x.nPanic > 0 {
		t.Outcome(x.ep.name + ":panicked")
	}
	t.Extra("inputs_accepted", x.nOK)
	t.Extra("inputs_rejected", x.nErr)
	t.Extra("inputs_panicked", x.nPanic)
	if !x.g1.release() {
		t.Fail(x.ep.name+"/write-before-buffer", "canary in front of the input buffer was overwritten")
	}
}

// gcache keeps one guard buffer per input length (bounded), so that the mmap cost is paid once per length.
type gcache struct{ m map[int]*engine.GuardBuf }

func (g *gcache) copy(b []byte) []byte {
	if g.m == nil {
		g.m = map[int]*engine.GuardBuf{}
	}
	gb := g.m[len(b)]
	if gb == nil {
		if len(g.m) >= 3000 {
			g.release()
			g.m = map[int]*engine.GuardBuf{}
		}
		gb = engine.NewGuardBuf(len(b))
		g.m[len(b)] = gb
	}
	copy(gb.B, b)
	return gb.B
}

func (g *gcache) release() bool {
	ok := true
	for _, gb := range g.m {
		if !gb.Check() {
			ok = false
		}
		gb.Free()
	}
	g.m = nil
	return ok
}

// ---------------------------------------------------------------------------------------------
// seeds (memoized, built under a deterministic crypto/rand.Reader)

var seedMemo = map[string][]byte{}

func laneOf(name string) byte {
	var h uint32 = 2166136261
	for i := 0; i < len(name); i++ {
		h = (h ^ uint32(name[i])) * 16777619
	}
	return byte(h>>8) | 1
}

// detRand returns a fresh deterministic stream for the named purpose.
func detRand(name string) *engine.DetReader { return &engine.DetReader{Lane: laneOf(name)} }

// withDetRand runs f with crypto/rand.Reader replaced by a deterministic stream (the library calls crypto/rand
// directly in pkcs7, pkcs8 and smx509.MarshalCSRResponse).
func withDetRand(name string, f func()) {
	old := rand.Reader
	rand.Reader = detRand("global:" + name)
	defer func() { rand.Reader = old }()
	f()
}

func (s seedT) get() []byte {
	if b, ok := seedMemo[s.name]; ok {
		return b
	}
	var b []byte
	withDetRand(s.name, func() { b = s.gen() })
	if len(b) == 0 {
		panic("c13: seed " + s.name + " is empty")
	}
	b = append([]byte{}, b...)
	seedMemo[s.name] = b
	return b
}

// tryGet builds the seed; a failure of the library to build its own artefact is reported as an error string.
func (s seedT) tryGet() (b []byte, err error) {
	defer func() {
		if r := recover(); r != nil {
			err = fmt.Errorf("%v", r)
		}
	}()
	return s.get(), nil
}

var seedReg = map[string]seedT{}

func regSeed(s seedT) {
	if _, ok := seedReg[s.name]; !ok {
		seedReg[s.name] = s
	}
}

// seedMemoOr returns the named seed (building it when needed); used for fixed non-hostile companions.
func seedMemoOr(name string) []byte {
	s, ok := seedReg[name]
	if !ok {
		panic("c13: unknown seed " + name)
	}
	return s.get()
}

var slowOnShortInputs = []string{
	"sm9.KeyExchange.RespondKeyExchange", "pkcs.GetCipher+Decrypt[", "pkcs.Cipher.Decrypt[", "pkcs8.ParsePrivateKey[",
	"cfca.ParseSM2", "cfca.DecryptBySM4CBC[password]", "pkcs7.DegenerateCertificate", "smx509.DecryptPEMBlock[block.Bytes",
	"smx509.ParseDERCRL", "smx509.ParseCSRResponse", "smx509.ParseCertificates", "smx509.ParseCertificateRequest",
	"smx509.ParseCFCACertificateRequest", "smx509.ParseCertificate", "smx509.ParsePKIXPublicKey", "smx509.ParsePKCS1PublicKey",
	"smx509.ParsePKCS1PrivateKey", "smx509.ParseSM2PrivateKey", "smx509.ParseTypedECPrivateKey", "smx509.ParsePKCS8PrivateKey",
	"smx509.ParseECPrivateKey",
}

var epsCache []*epT

func allEPs() []*epT {
	if epsCache != nil {
		return epsCache
	}
	var eps []*epT
	eps = append(eps, epsSM2()...)
	eps = append(eps, epsECDH()...)
	eps = append(eps, epsSM9()...)
	eps = append(eps, epsSMX509()...)
	eps = append(eps, epsPKCS()...)
	eps = append(eps, epsPKCS8()...)
	eps = append(eps, epsPKCS7()...)
	eps = append(eps, epsCFCA()...)
	eps = append(eps, epsPadding()...)
	eps = append(eps, epsCipher()...)
	for _, e := range eps {
		for _, s := range e.seeds {
			regSeed(s)
		}
		// DESIGN: the length-3 enumeration is for parsers under ~1 µs per call. Measured with `c13 bench-short`:
		// the encoding/asn1 (reflection) front-ends and everything that derives a key or schedules a cipher before
		// looking at the input cost 1.5-18 µs on 3-byte inputs and are enumerated to length 2 only.
		for _, p := range slowOnShortInputs {
			if strings.HasPrefix(e.name, p) {
				e.fast = false
			}
		}
	}
	epsCache = eps
	return eps
}

func must[T any](v T, err error) T {
	if err != nil {
		panic(fmt.Sprintf("c13 seed construction: %v", err))
	}
	return v
}

func must0(err error) {
	if err != nil {
		panic(fmt.Sprintf("c13 seed construction: %v", err))
	}
}

// ---------------------------------------------------------------------------------------------
// case enumeration

var nestProbes = []string{"der/nest=100", "der/nest-indef-open=100", "der/nest-indef=100", "der/nest=10000", "der/nest-indef-open=10000", "der/nest-indef=10000"}

var nestMemo map[string][]byte

// nestProbe returns the engine's deep-nesting probe of that name (one enumeration pass per process).
func nestProbe(name string) []byte {
	if nestMemo == nil {
		nestMemo = map[string][]byte{}
		engine.EachMutant([]byte{0x05, 0x00}, engine.MutOpt{DER: true, NoTrunc: true, NoExtend: true}, func(desc string, m []byte) {
			if isNest(desc) {
				nestMemo[desc] = append([]byte{}, m...)
			}
		})
	}
	return nestMemo[name]
}

func isNest(desc string) bool { return strings.HasPrefix(desc, "der/nest") }

func protectedChanged(seed, m []byte, pr [][2]int) bool {
	for _, r := range pr {
		if r[1] > len(m) || r[1] > len(seed) {
			return true
		}
		if !bytes.Equal(seed[r[0]:r[1]], m[r[0]:r[1]]) {
			return true
		}
	}
	return false
}

// buildSeed returns the seed, or records (as measured evidence, not as a violation) that the library under
// test could not build it.
func buildSeed(t *engine.T, s seedT) ([]byte, [][2]int, bool) {
	seed, err := s.tryGet()
	if err != nil {
		t.Extra("seeds_unbuildable", 1)
		t.Sample(map[string]any{"seed": s.name, "unbuildable": err.Error()})
		return nil, nil, false
	}
	var pr [][2]int
	if s.protect != nil {
		pr = s.protect(seed)
	}
	return seed, pr, true
}

var devTimes = os.Getenv("C13_DEV_TIMES") == "1"

func cpuMillis() int64 {
	var ru syscall.Rusage
	syscall.Getrusage(syscall.RUSAGE_SELF, &ru)
	return (ru.Utime.Sec+ru.Stime.Sec)*1000 + int64(ru.Utime.Usec+ru.Stime.Usec)/1000
}

// kase is c.Case; with C13_DEV_TIMES=1 (development aid) the CPU time of every executed case goes to stderr.
func kase(c *engine.Ctx, name string, fn func(t *engine.T)) {
	if !devTimes {
		c.Case(name, fn)
		return
	}
	c.Case(name, func(t *engine.T) {
		t0 := cpuMillis()
		defer func() { fmt.Fprintf(os.Stderr, "CPU %7d ms  %s\n", cpuMillis()-t0, name) }()
		fn(t)
	})
}

func runEP(c *engine.Ctx, e *epT) {
	quick := c.Quick()
	if quick && e.thoroughOnly {
		return
	}
	// all strings of length <= 2
	shortMax := 2
	if e.shortMax1 {
		shortMax = 1
	}
	kase(c, fmt.Sprintf("%s/short<=%d", e.name, shortMax), func(t *engine.T) {
		x := newCx(t, e)
		n := engine.EachShort(shortMax, func(b []byte) { x.run("short", b) })
		x.finish("-", n)
	})
	if !quick && e.fast && !e.shortMax1 {
		for chunk := 0; chunk < 16; chunk++ {
			lo, hi := chunk*16, chunk*16+15
			kase(c, fmt.Sprintf("%s/short=3/b0=%02x-%02x", e.name, lo, hi), func(t *engine.T) {
				x := newCx(t, e)
				n := 0
				var b [3]byte
				for b0 := lo; b0 <= hi; b0++ {
					for b1 := 0; b1 < 256; b1++ {
						for b2 := 0; b2 < 256; b2++ {
							b[0], b[1], b[2] = byte(b0), byte(b1), byte(b2)
							x.run("short", b[:])
							n++
						}
					}
				}
				x.finish("-", n)
			})
		}
	}
	if e.der {
		for _, p := range nestProbes {
			p := p
			kase(c, e.name+"/"+p, func(t *engine.T) {
				x := newCx(t, e)
				m := nestProbe(p)
				if m == nil {
					panic("c13: nesting probe " + p + " not produced by the engine")
				}
				if e.enc != nil {
					m = e.enc(m)
				}
				x.run(p, m)
				x.finish("-", 1)
			})
		}
	}
	for _, s := range e.seeds {
		s := s
		if quick && s.thoroughOnly {
			continue
		}
		K := s.parts
		if K < 1 {
			K = 1
		}
		for k := 0; k < K; k++ {
			k := k
			kase(c, fmt.Sprintf("%s/%s/mut1/%d-of-%d", e.name, s.name, k, K), func(t *engine.T) {
				x := newCx(t, e)
				seed, pr, ok := buildSeed(t, s)
				if !ok {
					return
				}
				// all 255 values per position: artefacts flagged small (quick: unless every accepted mutant costs a
				// pairing), and in the thorough tier every artefact of at most 160 bytes.
				allValues := (e.small && !(quick && e.costly)) || (!quick && len(seed) <= 160)
				idx, n := 0, 0
				mine := func() bool { i := idx; idx++; return i%K == k }
				// the unmodified seed first (vacuity guard)
				if k == 0 {
					carried := seed
					if e.enc != nil {
						carried = e.enc(seed)
					}
					x.run("seed", carried)
					n++
					if x.nOK != 1 && !s.hostile {
						t.Extra("seeds_not_accepted", 1)
						t.Sample(map[string]any{"entry_point": e.name, "seed": s.name, "seed_not_accepted": true})
					}
				}
				engine.EachMutant(seed, engine.MutOpt{AllValues: allValues, DER: true, Protect: pr}, func(desc string, m []byte) {
					if isNest(desc) || !mine() {
						return
					}
					if e.enc != nil {
						m = e.enc(m)
					}
					x.run(desc, m)
					n++
				})
				if e.enc != nil {
					engine.EachMutant(e.enc(seed), engine.MutOpt{}, func(desc string, m []byte) {
						if !mine() {
							return
						}
						x.run("text:"+desc, m)
						n++
					})
				}
				t.Sample(map[string]any{"entry_point": e.name, "seed": s.name, "seed_len": len(seed), "mutants": n, "accepted": x.nOK, "rejected": x.nErr, "panicked": x.nPanic})
				x.finish(s.name, n)
			})
		}
		if !quick && e.pairLimit >= 0 {
			// 2-deviation substitution pairs; the window is decided from the static flags and the seed length.
			const P = 8
			for k := 0; k < P; k++ {
				k := k
				kase(c, fmt.Sprintf("%s/%s/pair2/%d-of-%d", e.name, s.name, k, P), func(t *engine.T) {
					x := newCx(t, e)
					seed, pr, ok := buildSeed(t, s)
					if !ok {
						return
					}
					limit := 24
					if e.pairLimit > 0 {
						limit = e.pairLimit
					} else if len(seed) <= 128 && !e.costly {
						limit = len(seed)
					}
					idx, n := 0, 0
					engine.EachPair2(seed, limit, func(desc string, m []byte) {
						i := idx
						idx++
						if i%P != k {
							return
						}
						if pr != nil && protectedChanged(seed, m, pr) {
							return
						}
						if e.enc != nil {
							x.run(desc, e.enc(m))
						} else {
							x.run(desc, m)
						}
						n++
					})
					x.finish(s.name, n)
				})
			}
		}
	}
}

func (Prop) Run(c *engine.Ctx) {
	// C13_DEV_FILTER (development aid only): restrict the run to entry points whose name contains the string.
	filter := os.Getenv("C13_DEV_FILTER")
	for _, e := range allEPs() {
		if filter != "" && !strings.Contains(e.name, filter) {
			continue
		}
		if (c.Config == "c-nopclmul" || c.Config == "c-noaes") && !tierBinding(e.name) {
			continue
		}
		runEP(c, e)
	}
	if c.Config == "c-nopclmul" || c.Config == "c-noaes" {
		return
	}
	if filter == "" || strings.Contains("sm9.KeyExchange/history", filter) {
		runKXHist(c)
	}
	if filter == "" || strings.Contains("sm9.Decrypt+UnwrapKey/uid-alignment", filter) {
		runUIDAlignment(c)
	}
	if filter == "" || strings.Contains("padding.Unpad/length-block-as-integer", filter) {
		runPadIntFields(c)
	}
	if filter != "" {
		kase(c, "dev-filter-active", func(t *engine.T) { t.Eval(1); t.Cap("C13_DEV_FILTER=" + filter + ": partial run, not evidence") })
	}
}

// SelfTest validates the harness itself: unique names, every seed builds twice to identical bytes (no hidden
// time / crypto/rand dependence) and the protect ranges are sane. With C13_STRICT=1 (development) it
// additionally requires every non-hostile seed to be accepted without panic by its entry point; in normal runs
// non-acceptance is reported as measured evidence (seeds_not_accepted), because a library under test that
// rejects valid input violates other properties, not C13.
func (Prop) SelfTest() error {
	strict := os.Getenv("C13_STRICT") == "1"
	eps := allEPs()
	names := map[string]bool{}
	first := map[string][]byte{}
	for _, e := range eps {
		if names[e.name] {
			return fmt.Errorf("duplicate entry point binding %q", e.name)
		}
		if strings.ContainsAny(e.name, " \t\n") {
			return fmt.Errorf("entry point name %q contains white space (finding keys must be single tokens)", e.name)
		}
		names[e.name] = true
		for _, s := range e.seeds {
			b, err := s.tryGet()
			if err != nil {
				if strict {
					return fmt.Errorf("seed %s cannot be built: %v", s.name, err)
				}
				continue
			}
			if old, ok := first[s.name]; ok && !bytes.Equal(old, b) {
				return fmt.Errorf("seed name %q is bound to two different artefacts", s.name)
			}
			first[s.name] = b
		}
	}
	resetKeys()
	seedMemo = map[string][]byte{}
	for _, e := range eps {
		for _, s := range e.seeds {
			b, err := s.tryGet()
			if err != nil {
				continue
			}
			if !bytes.Equal(b, first[s.name]) {
				return fmt.Errorf("seed %q is not deterministic (two builds differ)", s.name)
			}
			if s.protect != nil {
				for _, r := range s.protect(b) {
					if r[0] < 0 || r[1] > len(b) || r[0] >= r[1] {
						return fmt.Errorf("seed %s: bad protect range %v", s.name, r)
					}
				}
			}
			if strict && !s.hostile {
				x := &cx{ep: e, seen: map[string]int{}}
				carried := b
				if e.enc != nil {
					carried = e.enc(b)
				}
				x.desc, x.in = "seed", carried
				ok := e.call(x, carried)
				if x.selfErr != nil {
					return fmt.Errorf("entry point %s, seed %s: %v", e.name, s.name, x.selfErr)
				}
				if !ok {
					return fmt.Errorf("entry point %s does not accept its seed %s", e.name, s.name)
				}
			}
		}
	}
	return nil
}
