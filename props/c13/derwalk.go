package c13

// Minimal definite-length TLV walker over a *valid* seed, used only to locate cost parameters (INTEGERs in
// algorithm parameters) that must not be substituted (DESIGN §2.5 rule 7).

type tlv struct {
	tag          byte
	off, hdr, ln int // b[off] is the tag, content is b[off+hdr : off+hdr+ln]
}

func readTLV(b []byte, off int) (tlv, bool) {
	if off+2 > len(b) {
		return tlv{}, false
	}
	t := tlv{tag: b[off], off: off}
	if t.tag&0x1f == 0x1f {
		return tlv{}, false
	}
	l := int(b[off+1])
	h := 2
	if l&0x80 != 0 {
		k := l & 0x7f
		if k == 0 || k > 3 || off+2+k > len(b) {
			return tlv{}, false
		}
		l = 0
		for i := 0; i < k; i++ {
			l = l<<8 | int(b[off+2+i])
		}
		h += k
	}
	if off+h+l > len(b) {
		return tlv{}, false
	}
	t.hdr, t.ln = h, l
	return t, true
}

// children returns the TLVs directly inside the content of parent.
func children(b []byte, parent tlv) []tlv {
	var out []tlv
	off, end := parent.off+parent.hdr, parent.off+parent.hdr+parent.ln
	for off < end {
		t, ok := readTLV(b[:end], off)
		if !ok {
			return out
		}
		out = append(out, t)
		off += t.hdr + t.ln
	}
	return out
}

// intRanges collects [length octets .. end of content) of every INTEGER below node (constructed nodes only).
func intRanges(b []byte, node tlv, out *[][2]int) {
	if node.tag == 0x02 {
		*out = append(*out, [2]int{node.off + 1, node.off + node.hdr + node.ln})
		return
	}
	if node.tag&0x20 == 0 {
		return
	}
	for _, c := range children(b, node) {
		intRanges(b, c, out)
	}
}

// protectAlgInts protects every INTEGER inside the first element (the AlgorithmIdentifier) of the outer SEQUENCE:
// PBKDF2/PBES1 iteration count and key length, scrypt N/r/p, GCM ICV length.
func protectAlgInts(seed []byte) [][2]int {
	root, ok := readTLV(seed, 0)
	if !ok {
		panic("c13: protectAlgInts: seed does not parse")
	}
	ch := children(seed, root)
	if len(ch) == 0 {
		panic("c13: protectAlgInts: seed has no children")
	}
	var out [][2]int
	intRanges(seed, ch[0], &out)
	if len(out) == 0 {
		panic("c13: protectAlgInts: no INTEGER found in the algorithm identifier")
	}
	return out
}

// protectAllInts protects every INTEGER of a bare parameter structure (AlgorithmIdentifier or PBES2-params).
func protectAllInts(seed []byte) [][2]int {
	root, ok := readTLV(seed, 0)
	if !ok {
		panic("c13: protectAllInts: seed does not parse")
	}
	var out [][2]int
	intRanges(seed, root, &out)
	return out
}

// protectKDFInts takes a PBES AlgorithmIdentifier (PBES1: SEQ{oid, SEQ{salt, iter}}; PBES2: SEQ{oid, SEQ{kdfAlg, encAlg}})
// located at node and protects the INTEGERs of the key-derivation part only (not e.g. the GCM ICV length).
func kdfInts(b []byte, alg tlv) [][2]int {
	ch := children(b, alg)
	if len(ch) < 2 {
		panic("c13: kdfInts: algorithm identifier without parameters")
	}
	params := ch[1]
	pc := children(b, params)
	var out [][2]int
	if len(pc) > 0 && pc[0].tag == 0x30 { // PBES2-params: first element is the KDF AlgorithmIdentifier
		intRanges(b, pc[0], &out)
	} else {
		intRanges(b, params, &out)
	}
	if len(out) == 0 {
		panic("c13: kdfInts: no INTEGER found")
	}
	return out
}

// protectKDFIntsAlg: seed is the bare AlgorithmIdentifier.
func protectKDFIntsAlg(seed []byte) [][2]int {
	root, ok := readTLV(seed, 0)
	if !ok {
		panic("c13: protectKDFIntsAlg: seed does not parse")
	}
	return kdfInts(seed, root)
}

// protectKDFIntsP8: seed is EncryptedPrivateKeyInfo ::= SEQ{ AlgorithmIdentifier, OCTET STRING }.
func protectKDFIntsP8(seed []byte) [][2]int {
	root, ok := readTLV(seed, 0)
	if !ok {
		panic("c13: protectKDFIntsP8: seed does not parse")
	}
	ch := children(seed, root)
	if len(ch) == 0 {
		panic("c13: protectKDFIntsP8: empty")
	}
	return kdfInts(seed, ch[0])
}
