package c13

const rsa2048PEM = ``
const rsa1024PEM = ``
const p7SignedSM2AttrsHex = ""
const p7SignedRSAAttrsHex = ""
