package c13

import (
	stdcipher "crypto/cipher"
	"fmt"

	"github.com/emmansun/gmsm/cipher"
	"github.com/emmansun/gmsm/padding"
	"github.com/emmansun/gmsm/sm4"
)

func epsPadding() []*epT {
	type scheme struct {
		name string
		mk   padding.NewPaddingFunc
	}
	schemes := []scheme{
		{"PKCS7", padding.NewPKCS7Padding}, {"ANSIX923", padding.NewANSIX923Padding},
		{"ISO9797M2", padding.NewISO9797M2Padding}, {"ISO9797M3", padding.NewISO9797M3Padding},
	}
	var eps []*epT
	for _, sc := range schemes {
		for _, bs := range []uint{8, 16, 32} {
			sc, bs := sc, bs
			n := fmt.Sprintf("padding.%s[bs=%d].Unpad", sc.name, bs)
			mkSeed := func(tag string, msg []byte) seedT {
				return seedT{name: fmt.Sprintf("pad-%s-%d-%s", sc.name, bs, tag), hostile: sc.name == "ISO9797M3" && bs == 8, gen: func() []byte {
					// Pad may write into spare capacity of its argument: hand it a private copy
					return sc.mk(bs).Pad(append(make([]byte, 0, len(msg)), msg...))
				}}
			}
			eps = append(eps, &epT{name: n, small: true, fast: true,
				seeds: []seedT{mkSeed("19", msgShort), mkSeed("32", msgBlock), mkSeed("1", []byte{0x80})},
				call: func(x *cx, in []byte) (ok bool) {
					p := sc.mk(bs)
					x.g(n, func() {
						out, err := p.Unpad(in)
						ok = err == nil
						if ok && len(out) > len(in) {
							panic("Unpad returned more bytes than it was given")
						}
					})
					return
				}})
		}
	}
	return eps
}

type aeadVariant struct {
	name  string
	mk    func(b stdcipher.Block) (stdcipher.AEAD, error)
	nonce int
}

var aeadVariants = []aeadVariant{
	{"cipher.NewCCM(sm4)", func(b stdcipher.Block) (stdcipher.AEAD, error) { return cipher.NewCCM(b) }, 12},
	{"cipher.NewCCMWithNonceAndTagSize(sm4,7,4)", func(b stdcipher.Block) (stdcipher.AEAD, error) { return cipher.NewCCMWithNonceAndTagSize(b, 7, 4) }, 7},
	{"cipher.NewCCMWithNonceAndTagSize(sm4,13,8)", func(b stdcipher.Block) (stdcipher.AEAD, error) { return cipher.NewCCMWithNonceAndTagSize(b, 13, 8) }, 13},
	{"crypto/cipher.NewGCM(sm4)", func(b stdcipher.Block) (stdcipher.AEAD, error) { return stdcipher.NewGCM(b) }, 12},
	{"crypto/cipher.NewGCMWithNonceSize(sm4,16)", func(b stdcipher.Block) (stdcipher.AEAD, error) { return stdcipher.NewGCMWithNonceSize(b, 16) }, 16},
	{"crypto/cipher.NewGCMWithTagSize(sm4,12)", func(b stdcipher.Block) (stdcipher.AEAD, error) { return stdcipher.NewGCMWithTagSize(b, 12) }, 12},
}

var aeadAAD = []byte("c13 additional data")

func aeadOf(v aeadVariant) stdcipher.AEAD {
	b := must(sm4.NewCipher(symKey[:16]))
	return must(v.mk(b))
}

func epsCipher() []*epT {
	var eps []*epT
	for _, v := range aeadVariants {
		v := v
		nonce := make([]byte, v.nonce)
		for i := range nonce {
			nonce[i] = byte(0x30 + i)
		}
		seal := func(tag string, msg []byte) seedT {
			return S(fmt.Sprintf("aead-%s-%s", v.name, tag), func() []byte { return aeadOf(v).Seal(nil, nonce, msg, aeadAAD) })
		}
		n := v.name + ".Open[ciphertext]"
		var a stdcipher.AEAD
		get := func() stdcipher.AEAD {
			if a == nil {
				a = aeadOf(v)
			}
			return a
		}
		eps = append(eps, &epT{name: n, small: true, fast: true,
			seeds: []seedT{seal("0", nil), seal("19", msgShort), seal("55", msgLong)},
			call: func(x *cx, in []byte) (ok bool) {
				x.g(n, func() { _, err := get().Open(nil, nonce, in, aeadAAD); ok = err == nil })
				return
			}})
		n2 := v.name + ".Open[additional-data]"
		eps = append(eps, &epT{name: n2, small: true, pairLimit: -1,
			seeds: []seedT{S("aead-aad", func() []byte { return aeadAAD })},
			call: func(x *cx, in []byte) (ok bool) {
				ct := seedMemoOr(fmt.Sprintf("aead-%s-%s", v.name, "19"))
				x.g(n2, func() { _, err := get().Open(nil, nonce, ct, in); ok = err == nil })
				return
			}})
	}
	return eps
}
