package c13

import (
	"crypto/x509/pkix"
	"encoding/asn1"
	"strings"

	"github.com/emmansun/gmsm/pkcs"
	"github.com/emmansun/gmsm/pkcs8"
	"github.com/emmansun/gmsm/smx509"
)

var symKey = []byte("0123456789abcdefFEDCBA9876543210") // 32 bytes; ciphers take a prefix of KeySize()

type namedCipher struct {
	name string
	c    pkcs.Cipher
}

var pkcsCiphers = []namedCipher{
	{"SM4-CBC", pkcs.SM4CBC}, {"SM4-GCM", pkcs.SM4GCM}, {"SM4-ECB", pkcs.SM4ECB}, {"SM4", pkcs.SM4},
	{"AES-128-CBC", pkcs.AES128CBC}, {"AES-256-GCM", pkcs.AES256GCM}, {"DES-CBC", pkcs.DESCBC}, {"3DES-CBC", pkcs.TripleDESCBC},
}

type algCT struct {
	alg []byte // DER AlgorithmIdentifier
	ct  []byte
}

var algCTMemo = map[string]algCT{}

func cipherPair(nc namedCipher) algCT {
	if p, ok := algCTMemo[nc.name]; ok {
		return p
	}
	alg, ct, err := nc.c.Encrypt(detRand("pkcs-cipher:"+nc.name), symKey[:nc.c.KeySize()], msgLong)
	must0(err)
	p := algCT{alg: must(asn1.Marshal(*alg)), ct: ct}
	algCTMemo[nc.name] = p
	return p
}

type pbesSeed struct {
	name     string
	enc      func() pkcs.PBESEncrypter
	thorough bool
}

func pbes1(f func() (*pkcs.PBES1, error)) func() pkcs.PBESEncrypter {
	return func() pkcs.PBESEncrypter { return must(f()) }
}

var pbesSeeds = []pbesSeed{
	{"pbes2-pbkdf2sha256-aes256cbc", func() pkcs.PBESEncrypter {
		return pkcs.NewPBESEncrypter(pkcs.AES256CBC, pkcs.NewPBKDF2Opts(pkcs.SHA256, 8, 2))
	}, false},
	{"smpbes-pbkdf2sm3-sm4cbc", func() pkcs.PBESEncrypter { return pkcs.NewSMPBESEncrypter(8, 2) }, false},
	{"pbes2-scrypt-sm4gcm", func() pkcs.PBESEncrypter { return pkcs.NewPBESEncrypter(pkcs.SM4GCM, pkcs.NewScryptOpts(8, 16, 8, 1)) }, false},
	{"pbes2-pbkdf2sm3-sm4ecb", func() pkcs.PBESEncrypter {
		return pkcs.NewPBESEncrypter(pkcs.SM4ECB, pkcs.NewPBKDF2Opts(pkcs.SM3, 8, 1))
	}, false},
	{"pbes1-sha1-des", pbes1(func() (*pkcs.PBES1, error) { return pkcs.NewPbeWithSHA1AndDESCBC(detRand("pbes1-sha1-des"), 8, 2) }), false},
	{"pbes1-md5-rc2", pbes1(func() (*pkcs.PBES1, error) { return pkcs.NewPbeWithMD5AndRC2CBC(detRand("pbes1-md5-rc2"), 8, 2) }), false},
	{"pbes2-pbkdf2sha1-aes128gcm", func() pkcs.PBESEncrypter {
		return pkcs.NewPBESEncrypter(pkcs.AES128GCM, pkcs.NewPBKDF2Opts(pkcs.SHA1, 8, 2))
	}, true},
	{"pbes2-pbkdf2sha512-3des", func() pkcs.PBESEncrypter {
		return pkcs.NewPBESEncrypter(pkcs.TripleDESCBC, pkcs.NewPBKDF2Opts(pkcs.SHA512, 8, 2))
	}, true},
	{"pbes2-pbkdf2sha224-des", func() pkcs.PBESEncrypter {
		return pkcs.NewPBESEncrypter(pkcs.DESCBC, pkcs.NewPBKDF2Opts(pkcs.SHA224, 8, 2))
	}, true},
	{"pbes1-md2-des", pbes1(func() (*pkcs.PBES1, error) { return pkcs.NewPbeWithMD2AndDESCBC(detRand("pbes1-md2-des"), 8, 2) }), true},
	{"pbes1-sha1-rc2", pbes1(func() (*pkcs.PBES1, error) { return pkcs.NewPbeWithSHA1AndRC2CBC(detRand("pbes1-sha1-rc2"), 8, 2) }), true},
}

// encrypted PKCS#8 of the SM2 EE key under the given PBES
func p8Encrypted(p pbesSeed) []byte {
	return must(pkcs8.MarshalPrivateKey(kr.SM2EE(), password, p.enc()))
}

type encInfo struct {
	Alg  pkix.AlgorithmIdentifier
	Data []byte
}

func splitP8(der []byte) encInfo {
	var e encInfo
	_, err := asn1.Unmarshal(der, &e)
	must0(err)
	return e
}

func epsPKCS() []*epT {
	var eps []*epT
	// --- pkcs.GetCipher + Cipher.Decrypt: hostile AlgorithmIdentifier (IV / nonce / ICV length live here)
	for _, nc := range pkcsCiphers {
		nc := nc
		n := "pkcs.GetCipher+Decrypt[alg," + nc.name + "]"
		eps = append(eps, &epT{name: n, der: true, fast: true, small: true,
			seeds: []seedT{{name: "algid-" + nc.name, gen: func() []byte { return cipherPair(nc).alg }}},
			call: func(x *cx, in []byte) (ok bool) {
				var alg pkix.AlgorithmIdentifier
				if rest, err := asn1.Unmarshal(in, &alg); err != nil || len(rest) != 0 {
					return false
				}
				ct := cipherPair(nc).ct
				x.g(n, func() {
					c, err := pkcs.GetCipher(alg)
					if err != nil {
						return
					}
					_, err = c.Decrypt(symKey[:c.KeySize()], &alg.Parameters, ct)
					ok = err == nil
				})
				return
			}})
		n2 := "pkcs.Cipher.Decrypt[ciphertext," + nc.name + "]"
		eps = append(eps, &epT{name: n2, fast: strings.HasPrefix(nc.name, "SM4-"), pairLimit: 24,
			seeds: []seedT{{name: "ct-" + nc.name, gen: func() []byte { return cipherPair(nc).ct }}},
			call: func(x *cx, in []byte) (ok bool) {
				var alg pkix.AlgorithmIdentifier
				_, err := asn1.Unmarshal(cipherPair(nc).alg, &alg)
				must0(err)
				x.g(n2, func() {
					c, err := pkcs.GetCipher(alg)
					must0(err)
					_, err = c.Decrypt(symKey[:c.KeySize()], &alg.Parameters, in)
					ok = err == nil
				})
				return
			}})
	}
	// --- PBES1 / PBES2 Decrypt on their own (parameters hostile, then ciphertext hostile)
	for _, p := range pbesSeeds {
		p := p
		isPBES1 := len(p.name) >= 5 && p.name[:5] == "pbes1"
		typ := "pkcs.PBES2Params.Decrypt"
		if isPBES1 {
			typ = "pkcs.PBES1.Decrypt"
		}
		decrypt := func(algDER, ct []byte) (ok, parsed bool) {
			var alg pkix.AlgorithmIdentifier
			if rest, err := asn1.Unmarshal(algDER, &alg); err != nil || len(rest) != 0 {
				return false, false
			}
			if isPBES1 {
				if !pkcs.IsPBES1(alg) {
					return false, false
				}
				_, _, err := (&pkcs.PBES1{Algorithm: alg}).Decrypt(password, ct)
				return err == nil, true
			}
			var params pkcs.PBES2Params
			if _, err := asn1.Unmarshal(alg.Parameters.FullBytes, &params); err != nil {
				return false, false
			}
			_, _, err := params.Decrypt(password, ct)
			return err == nil, true
		}
		n := typ + "[alg," + p.name + "]"
		eps = append(eps, &epT{name: n, der: true, thoroughOnly: p.thorough,
			seeds: []seedT{{name: "p8alg-" + p.name, protect: protectKDFIntsAlg, gen: func() []byte {
				return must(asn1.Marshal(splitP8(seedMemoOr("p8enc-" + p.name)).Alg))
			}}},
			call: func(x *cx, in []byte) (ok bool) {
				ct := splitP8(seedMemoOr("p8enc-" + p.name)).Data
				x.g(n, func() { ok, _ = decrypt(in, ct) })
				return
			}})
		n2 := typ + "[ciphertext," + p.name + "]"
		eps = append(eps, &epT{name: n2, pairLimit: 24, thoroughOnly: p.thorough,
			seeds: []seedT{{name: "p8ct-" + p.name, gen: func() []byte { return splitP8(seedMemoOr("p8enc-" + p.name)).Data }}},
			call: func(x *cx, in []byte) (ok bool) {
				alg := must(asn1.Marshal(splitP8(seedMemoOr("p8enc-" + p.name)).Alg))
				x.g(n2, func() { ok, _ = decrypt(alg, in) })
				return
			}})
	}
	return eps
}

func epsPKCS8() []*epT {
	var eps []*epT
	// encrypted containers
	var encSeeds []seedT
	for _, p := range pbesSeeds {
		p := p
		s := seedT{name: "p8enc-" + p.name, gen: func() []byte { return p8Encrypted(p) }, protect: protectKDFIntsP8, thoroughOnly: p.thorough}
		regSeed(s)
		encSeeds = append(encSeeds, s)
	}
	eps = append(eps, &epT{name: "pkcs8.ParsePrivateKey[password]", der: true, fast: true, seeds: encSeeds,
		call: func(x *cx, in []byte) (ok bool) {
			x.g("pkcs8.ParsePrivateKey[password]", func() { _, _, err := pkcs8.ParsePrivateKey(in, password); ok = err == nil })
			return
		}})
	eps = append(eps, &epT{name: "pkcs8.ParsePKCS8PrivateKeySM2[password]", der: true, pairLimit: -1,
		seeds: []seedT{encSeeds[1]},
		call: func(x *cx, in []byte) (ok bool) {
			x.g("pkcs8.ParsePKCS8PrivateKeySM2[password]", func() { _, err := pkcs8.ParsePKCS8PrivateKeySM2(in, password); ok = err == nil })
			return
		}})
	// an encrypted container whose payload is an SM9 key / an RSA key (decrypted payload goes to other parsers)
	eps = append(eps, &epT{name: "pkcs8.ParseSM9EncryptPrivateKey[password]", der: true, pairLimit: -1,
		seeds: []seedT{{name: "p8enc-smpbes-sm9encuser", protect: protectKDFIntsP8, gen: func() []byte {
			return must(pkcs8.MarshalPrivateKey(kr.SM9EncUser(), password, pkcs.NewSMPBESEncrypter(8, 2)))
		}}},
		call: func(x *cx, in []byte) (ok bool) {
			x.g("pkcs8.ParseSM9EncryptPrivateKey[password]", func() { _, err := pkcs8.ParseSM9EncryptPrivateKey(in, password); ok = err == nil })
			return
		}})
	// unencrypted: the typed wrappers over smx509.ParsePKCS8PrivateKey
	plain := func(n, seedName string, gen func() []byte, f func(in []byte) error) *epT {
		return &epT{name: n, der: true, fast: n == "pkcs8.ParsePrivateKey[no-password]", pairLimit: -1, seeds: []seedT{{name: seedName, gen: gen}},
			call: func(x *cx, in []byte) (ok bool) {
				x.g(n, func() { ok = f(in) == nil })
				return
			}}
	}
	eps = append(eps,
		plain("pkcs8.ParsePrivateKey[no-password]", "p8-sm2", func() []byte { return must(smx509.MarshalPKCS8PrivateKey(kr.SM2EE())) },
			func(in []byte) error { _, _, err := pkcs8.ParsePrivateKey(in, nil); return err }),
		plain("pkcs8.ParsePKCS8PrivateKeySM2", "p8-sm2", func() []byte { return must(smx509.MarshalPKCS8PrivateKey(kr.SM2EE())) },
			func(in []byte) error { _, err := pkcs8.ParsePKCS8PrivateKeySM2(in); return err }),
		plain("pkcs8.ParsePKCS8PrivateKeyRSA", "p8-rsa1024", func() []byte { return must(smx509.MarshalPKCS8PrivateKey(kr.RSA1024())) },
			func(in []byte) error { _, err := pkcs8.ParsePKCS8PrivateKeyRSA(in); return err }),
		plain("pkcs8.ParsePKCS8PrivateKeyECDSA", "p8-ecdsa-p256", func() []byte { return must(smx509.MarshalPKCS8PrivateKey(kr.NIST())) },
			func(in []byte) error { _, err := pkcs8.ParsePKCS8PrivateKeyECDSA(in); return err }),
		plain("pkcs8.ParseSM9SignMasterPrivateKey", "p8-sm9-signmaster", func() []byte { return must(smx509.MarshalPKCS8PrivateKey(kr.SM9SignMaster())) },
			func(in []byte) error { _, err := pkcs8.ParseSM9SignMasterPrivateKey(in); return err }),
		plain("pkcs8.ParseSM9SignPrivateKey", "p8-sm9-signuser", func() []byte { return must(smx509.MarshalPKCS8PrivateKey(kr.SM9SignUser())) },
			func(in []byte) error { _, err := pkcs8.ParseSM9SignPrivateKey(in); return err }),
		plain("pkcs8.ParseSM9EncryptMasterPrivateKey", "p8-sm9-encmaster", func() []byte { return must(smx509.MarshalPKCS8PrivateKey(kr.SM9EncMaster())) },
			func(in []byte) error { _, err := pkcs8.ParseSM9EncryptMasterPrivateKey(in); return err }),
		plain("pkcs8.ParseSM9EncryptPrivateKey", "p8-sm9-encuser", func() []byte { return must(smx509.MarshalPKCS8PrivateKey(kr.SM9EncUser())) },
			func(in []byte) error { _, err := pkcs8.ParseSM9EncryptPrivateKey(in); return err }),
	)
	return eps
}
