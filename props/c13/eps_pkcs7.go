package c13

import (
	"bytes"
	"crypto/ecdsa"
	"encoding/asn1"
	"encoding/base64"
	"fmt"
	"time"

	"github.com/emmansun/gmsm/cfca"
	"github.com/emmansun/gmsm/pkcs"
	"github.com/emmansun/gmsm/pkcs7"
	"github.com/emmansun/gmsm/sm2"
	"github.com/emmansun/gmsm/sm3"
	"github.com/emmansun/gmsm/smx509"
)

var p7Content = []byte("c13: content carried in PKCS#7")

func p7Digest() []byte { h := sm3.Sum(p7Content); return h[:] }

func p7SignedNoAttr() []byte {
	sd := must(pkcs7.NewSMSignedData(p7Content))
	must0(sd.SignWithoutAttr(kr.EECert(), kr.SM2EE(), pkcs7.SignerInfoConfig{}))
	return must(sd.Finish())
}
func p7SignedDetached() []byte {
	return must(cfca.SignMessageDetach(p7Content, kr.EECert(), kr.SM2EE()))
}
func p7SignedDigest() []byte { return must(cfca.SignDigestDetach(p7Digest(), kr.EECert(), kr.SM2EE())) }
func p7Degenerate() []byte   { return must(pkcs7.DegenerateCertificate(kr.EECert().Raw)) }
func p7EnvelopedSM2() []byte {
	return must(pkcs7.EncryptSM(pkcs.SM4CBC, p7Content, []*smx509.Certificate{kr.EncCert()}))
}
func p7EnvelopedRSA() []byte {
	return must(pkcs7.Encrypt(pkcs.AES128GCM, p7Content, []*smx509.Certificate{kr.RSA1024Cert()}))
}
func p7EnvelopedCFCA() []byte {
	return must(cfca.EnvelopeMessage(pkcs.SM4CBC, p7Content, []*smx509.Certificate{kr.EncCert()}))
}
func p7EnvelopedCFCALegacy() []byte {
	return must(cfca.EnvelopeMessageLegacy(pkcs.SM4ECB, p7Content, []*smx509.Certificate{kr.EncCert()}))
}
func p7EncryptedPSKSM() []byte {
	return must(pkcs7.EncryptSMUsingPSK(pkcs.SM4GCM, p7Content, symKey[:16]))
}
func p7EncryptedPSK() []byte {
	return must(pkcs7.EncryptUsingPSK(pkcs.AES256CBC, p7Content, symKey[:32]))
}
func p7SignedEnveloped() []byte {
	s := must(pkcs7.NewSMSignedAndEnvelopedData(p7Content, pkcs.SM4CBC))
	must0(s.AddSigner(kr.EECert(), kr.SM2EE()))
	must0(s.AddRecipient(kr.EncCert()))
	return must(s.Finish())
}

// p7EnvelopedWrongKeyLen: the recipient info carries (SM2-encrypted, hence not reachable by byte mutation) a
// 5-byte content-encryption key; any sender holding the recipient certificate can produce this.
func p7EnvelopedWrongKeyLen() []byte {
	ed := must(pkcs7.NewSM2EnvelopedData(pkcs.SM4CBC, p7Content))
	must0(ed.AddRecipient(kr.EncCert(), 1, func(cert *smx509.Certificate, key []byte) ([]byte, error) {
		return sm2.EncryptASN1(detRand("p7-wrong-key-len"), cert.PublicKey.(*ecdsa.PublicKey), key[:5])
	}))
	return must(ed.Finish())
}

func p7Follow(x *cx, n string, p7 *pkcs7.PKCS7) {
	x.g(n+">Verify", func() { p7.Verify() })
	x.g(n+">VerifyAsDigest", func() { p7.VerifyAsDigest() })
	x.g(n+">VerifyWithChain", func() { p7.VerifyWithChain(kr.Pool()) })
	x.g(n+">VerifyAsDigestWithChain", func() { p7.VerifyAsDigestWithChain(kr.Pool()) })
	x.g(n+">VerifyWithChainAtTime", func() { tv := tVerify; p7.VerifyWithChainAtTime(kr.Pool(), &tv) })
	x.g(n+">GetOnlySigner", func() { p7.GetOnlySigner() })
	x.g(n+">UnmarshalSignedAttribute", func() {
		var tm time.Time
		p7.UnmarshalSignedAttribute(pkcs7.OIDAttributeSigningTime, &tm)
		var d []byte
		p7.UnmarshalSignedAttribute(pkcs7.OIDAttributeMessageDigest, &d)
	})
	x.g(n+">GetRecipients", func() { p7.GetRecipients() })
	x.g(n+">Decrypt[sm2]", func() { p7.Decrypt(kr.EncCert(), kr.SM2Enc()) })
	x.g(n+">Decrypt[rsa]", func() { p7.Decrypt(kr.RSA1024Cert(), kr.RSA1024()) })
	x.g(n+">DecryptCFCA", func() { p7.DecryptCFCA(kr.EncCert(), kr.SM2Enc()) })
	x.g(n+">DecryptUsingPSK[16]", func() { p7.DecryptUsingPSK(symKey[:16]) })
	x.g(n+">DecryptUsingPSK[32]", func() { p7.DecryptUsingPSK(symKey[:32]) })
	x.g(n+">DecryptAndVerify", func() { p7.DecryptAndVerify(kr.EncCert(), kr.SM2Enc(), func() error { return p7.Verify() }) })
	x.g(n+">DecryptAndVerifyOnlyOne", func() { p7.DecryptAndVerifyOnlyOne(kr.SM2Enc(), func() error { return p7.Verify() }) })
}

func epsPKCS7() []*epT {
	seeds := []seedT{
		{name: "p7-signed-sm2-noattr", gen: p7SignedNoAttr, parts: 6},
		{name: "p7-signed-sm2-attrs-chain", gen: func() []byte { return unhex(p7SignedSM2AttrsHex) }, parts: 12},
		{name: "p7-signed-rsa1024-attrs", gen: func() []byte { return unhex(p7SignedRSAAttrsHex) }, parts: 6},
		{name: "p7-signed-sm2-digest-detached", gen: p7SignedDigest, parts: 6},
		{name: "p7-degenerate", gen: p7Degenerate, parts: 4},
		{name: "p7-enveloped-sm2-sm4cbc", gen: p7EnvelopedSM2, parts: 3},
		{name: "p7-enveloped-rsa1024-aes128gcm", gen: p7EnvelopedRSA, parts: 3},
		{name: "p7-enveloped-cfca-skid", gen: p7EnvelopedCFCA, parts: 3},
		{name: "p7-enveloped-cfca-legacy-sm4ecb", gen: p7EnvelopedCFCALegacy, parts: 3},
		{name: "p7-encrypted-psk-sm4gcm", gen: p7EncryptedPSKSM},
		{name: "p7-encrypted-psk-aes256cbc", gen: p7EncryptedPSK},
		{name: "p7-signed-enveloped-sm2", gen: p7SignedEnveloped, parts: 8},
		{name: "p7-enveloped-sm2-5-byte-content-key", gen: p7EnvelopedWrongKeyLen, parts: 3, hostile: true},
	}
	for _, s := range seeds {
		regSeed(s)
	}
	eps := []*epT{
		{name: "pkcs7.Parse", der: true, fast: true, seeds: seeds,
			call: func(x *cx, in []byte) (ok bool) {
				var p7 *pkcs7.PKCS7
				x.g("pkcs7.Parse", func() { var err error; p7, err = pkcs7.Parse(in); ok = err == nil && p7 != nil })
				if ok {
					p7Follow(x, "pkcs7.Parse", p7)
				}
				return
			}},
		{name: "pkcs7.ParseWithSession", der: true, pairLimit: -1, seeds: []seedT{seeds[5]},
			call: func(x *cx, in []byte) (ok bool) {
				var p7 *pkcs7.PKCS7
				x.g("pkcs7.ParseWithSession", func() {
					var err error
					p7, err = pkcs7.ParseWithSession(pkcs7.DefaultSession{}, in)
					ok = err == nil && p7 != nil
				})
				if ok {
					x.g("pkcs7.ParseWithSession>Decrypt[sm2]", func() { p7.Decrypt(kr.EncCert(), kr.SM2Enc()) })
				}
				return
			}},
		{name: "pkcs7.DegenerateCertificate", der: true, fast: true, pairLimit: -1, seeds: []seedT{certSeeds[3]},
			call: func(x *cx, in []byte) (ok bool) {
				var out []byte
				x.g("pkcs7.DegenerateCertificate", func() { var err error; out, err = pkcs7.DegenerateCertificate(in); ok = err == nil })
				if ok {
					x.g("pkcs7.DegenerateCertificate>Parse", func() { pkcs7.Parse(out) })
				}
				return
			}},
	}
	return eps
}

// ---------------------------------------------------------------------------------------------
// cfca

func cfcaEscrowDER() []byte {
	// X || Y || D of the escrowed key, SM2-encrypted (C1C3C2, uncompressed, 0x04 stripped) to the temporary key
	k := kr.SM2Enc()
	plain := make([]byte, 96)
	k.X.FillBytes(plain[:32])
	k.Y.FillBytes(plain[32:64])
	k.D.FillBytes(plain[64:])
	ct := must(sm2.Encrypt(detRand("cfca-escrow"), &kr.SM2Tmp().PublicKey, plain, nil))
	return must(asn1.Marshal(struct {
		Version      int
		EncryptedKey []byte
	}{1, ct[1:]}))
}

func epsCFCA() []*epT {
	b64 := func(der []byte) []byte { return []byte(base64.StdEncoding.EncodeToString(der)) }
	b64Prefixed := func(der []byte) []byte {
		body := base64.StdEncoding.EncodeToString(der)
		// commas are legal separators and are stripped by the parser
		if len(body) > 40 {
			body = body[:40] + "," + body[40:]
		}
		return []byte(fmt.Sprintf("0000000000000001000000000000000100000000000000000000000000000000%016d%s", len(body), body))
	}
	escrow := func(n string, enc func([]byte) []byte) *epT {
		return &epT{name: n, der: true, fast: true, enc: enc, pairLimit: -1,
			seeds: []seedT{{name: "cfca-escrow-der", gen: cfcaEscrowDER, parts: 2}},
			call: func(x *cx, in []byte) (ok bool) {
				x.g(n, func() { _, err := cfca.ParseEscrowPrivateKey(kr.SM2Tmp(), in); ok = err == nil })
				return
			}}
	}
	return []*epT{
		{name: "cfca.ParseSM2", der: true, fast: true,
			seeds: []seedT{{name: "cfca-sm2-p12", parts: 4, gen: func() []byte { return must(cfca.MarshalSM2(password, kr.SM2EE(), kr.EECert())) }}},
			call: func(x *cx, in []byte) (ok bool) {
				x.g("cfca.ParseSM2", func() { _, _, err := cfca.ParseSM2(password, in); ok = err == nil })
				return
			}},
		escrow("cfca.ParseEscrowPrivateKey[base64]", b64),
		escrow("cfca.ParseEscrowPrivateKey[prefixed]", b64Prefixed),
		{name: "cfca.ParseCertificateRequest", der: true, pairLimit: -1,
			seeds: []seedT{{name: "cfca-csr-sm2", gen: cfcaCSRSM2, parts: 2}},
			call: func(x *cx, in []byte) (ok bool) {
				x.g("cfca.ParseCertificateRequest", func() { _, err := cfca.ParseCertificateRequest(in); ok = err == nil })
				return
			}},
		{name: "cfca.OpenEnvelopedMessage", der: true, fast: true,
			seeds: []seedT{{name: "p7-enveloped-cfca-skid", gen: p7EnvelopedCFCA, parts: 3}},
			call: func(x *cx, in []byte) (ok bool) {
				x.g("cfca.OpenEnvelopedMessage", func() { _, err := cfca.OpenEnvelopedMessage(in, kr.EncCert(), kr.SM2Enc()); ok = err == nil })
				return
			}},
		{name: "cfca.OpenEnvelopedMessageLegacy", der: true,
			seeds: []seedT{{name: "p7-enveloped-cfca-legacy-sm4ecb", gen: p7EnvelopedCFCALegacy, parts: 3}},
			call: func(x *cx, in []byte) (ok bool) {
				x.g("cfca.OpenEnvelopedMessageLegacy", func() { _, err := cfca.OpenEnvelopedMessageLegacy(in, kr.EncCert(), kr.SM2Enc()); ok = err == nil })
				return
			}},
		{name: "cfca.VerifyMessageAttach", der: true, pairLimit: -1,
			seeds: []seedT{{name: "p7-signed-sm2-noattr", gen: p7SignedNoAttr, parts: 6}},
			call: func(x *cx, in []byte) (ok bool) {
				x.g("cfca.VerifyMessageAttach", func() { ok = cfca.VerifyMessageAttach(in) == nil })
				return
			}},
		{name: "cfca.VerifyMessageDetach", der: true, pairLimit: -1,
			seeds: []seedT{{name: "p7-signed-sm2-detached", gen: p7SignedDetached, parts: 6}},
			call: func(x *cx, in []byte) (ok bool) {
				x.g("cfca.VerifyMessageDetach", func() { ok = cfca.VerifyMessageDetach(in, p7Content) == nil })
				return
			}},
		{name: "cfca.VerifyDigestDetach", der: true, pairLimit: -1,
			seeds: []seedT{{name: "p7-signed-sm2-digest-detached", gen: p7SignedDigest, parts: 6}},
			call: func(x *cx, in []byte) (ok bool) {
				x.g("cfca.VerifyDigestDetach", func() { ok = cfca.VerifyDigestDetach(in, p7Digest()) == nil })
				return
			}},
		{name: "cfca.DecryptBySM4CBC", fast: true, small: true,
			seeds: []seedT{
				S("cfca-sm4cbc-19", func() []byte { return must(cfca.EncryptBySM4CBC(msgShort, password)) }),
				S("cfca-sm4cbc-32", func() []byte { return must(cfca.EncryptBySM4CBC(msgBlock, password)) }),
			},
			call: func(x *cx, in []byte) (ok bool) {
				x.g("cfca.DecryptBySM4CBC", func() { _, err := cfca.DecryptBySM4CBC(in, password); ok = err == nil })
				return
			}},
		{name: "cfca.DecryptBySM4CBC[password]", fast: true, small: true,
			seeds: []seedT{S("cfca-password", func() []byte { return bytes.Clone(password) })},
			call: func(x *cx, in []byte) (ok bool) {
				ct := seedMemoOr("cfca-sm4cbc-19")
				x.g("cfca.DecryptBySM4CBC[password]", func() { _, err := cfca.DecryptBySM4CBC(ct, in); ok = err == nil })
				x.g("cfca.NewSM4CBCBlockMode[password]", func() { cfca.NewSM4CBCBlockMode(in, false) })
				return
			}},
	}
}
