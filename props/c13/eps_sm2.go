package c13

import (
	"crypto/ecdsa"
	"encoding/asn1"
	"math/big"

	"github.com/emmansun/gmsm/ecdh"
	"github.com/emmansun/gmsm/sm2"
	"github.com/emmansun/gmsm/sm3"
)

func S(name string, gen func() []byte) seedT { return seedT{name: name, gen: gen} }

var (
	msgShort = []byte("c13 hostile bytes!?")                                     // 19 bytes, not a block multiple
	msgBlock = []byte("0123456789abcdef0123456789abcdef")                        // 32 bytes
	msgLong  = []byte("The quick brown fox jumps over the lazy dog. 0123456789") // 55 bytes
)

func fixedHash() []byte { h := sm3.Sum([]byte("c13 digest")); return h[:] }

func epsSM2() []*epT {
	hash := fixedHash()
	sigSeed := func(name string) seedT {
		return S(name, func() []byte { return must(sm2.SignASN1(detRand(name), kr.SM2EE(), hash, nil)) })
	}
	sigSeedSM2 := func(name string) seedT {
		return S(name, func() []byte {
			return must(kr.SM2EE().Sign(detRand(name), msgShort, sm2.NewSM2SignerOption(true, sm2UID)))
		})
	}
	nistSig := func(name string) seedT {
		// embedded: the signer (not the verifier) of this path cannot run under -tags purego, see gen.go
		return S(name, func() []byte { return unhex(sm2SigNISTHex) })
	}
	enc := func(name string, key func() *ecdsa.PublicKey, msg []byte, opts func() *sm2.EncrypterOpts) seedT {
		return S(name, func() []byte {
			var o *sm2.EncrypterOpts
			if opts != nil {
				o = opts()
			}
			return must(sm2.Encrypt(detRand(name), key(), msg, o))
		})
	}
	eePub := func() *ecdsa.PublicKey { return &kr.SM2EE().PublicKey }
	nistPub := func() *ecdsa.PublicKey { return &kr.NIST().PublicKey }
	c1c2c3 := func() *sm2.EncrypterOpts { return sm2.NewPlainEncrypterOpts(sm2.MarshalUncompressed, sm2.C1C2C3) }
	compressed := func() *sm2.EncrypterOpts { return sm2.NewPlainEncrypterOpts(sm2.MarshalCompressed, sm2.C1C3C2) }
	hybrid := func() *sm2.EncrypterOpts { return sm2.NewPlainEncrypterOpts(sm2.MarshalHybrid, sm2.C1C3C2) }
	asn1o := func() *sm2.EncrypterOpts { return sm2.ASN1EncrypterOpts }

	plain := enc("sm2ct-plain-c1c3c2", eePub, msgShort, nil)
	plainComp := enc("sm2ct-plain-compressed", eePub, msgShort, compressed)
	plainC1C2C3 := enc("sm2ct-plain-c1c2c3", eePub, msgShort, c1c2c3)
	ctASN1 := enc("sm2ct-asn1", eePub, msgShort, asn1o)
	ctASN1Long := enc("sm2ct-asn1-55", eePub, msgLong, asn1o)
	nistPlain := enc("sm2ct-nist-plain", nistPub, msgShort, nil)
	nistHybrid := enc("sm2ct-nist-hybrid", nistPub, msgShort, hybrid)
	nistC1C2C3 := enc("sm2ct-nist-c1c2c3", nistPub, msgShort, c1c2c3)
	nistASN1 := enc("sm2ct-nist-asn1", nistPub, msgShort, asn1o)

	return []*epT{
		{name: "sm2.VerifyASN1", small: true, fast: true, der: true,
			seeds: []seedT{sigSeed("sm2sig-a"), sigSeed("sm2sig-b")},
			call: func(x *cx, in []byte) (ok bool) {
				x.g("sm2.VerifyASN1", func() { ok = sm2.VerifyASN1(&kr.SM2EE().PublicKey, hash, in) })
				return
			}},
		{name: "sm2.VerifyASN1WithSM2", small: true, der: true,
			seeds: []seedT{sigSeedSM2("sm2sig-withuid")},
			call: func(x *cx, in []byte) (ok bool) {
				x.g("sm2.VerifyASN1WithSM2", func() { ok = sm2.VerifyASN1WithSM2(&kr.SM2EE().PublicKey, sm2UID, msgShort, in) })
				return
			}},
		{name: "sm2.VerifyASN1[NIST-P256-key]", small: true, fast: true, der: true,
			seeds: []seedT{nistSig("sm2sig-nist")},
			call: func(x *cx, in []byte) (ok bool) {
				x.g("sm2.VerifyASN1[NIST-P256-key]", func() { ok = sm2.VerifyASN1(&kr.NIST().PublicKey, hash, in) })
				return
			}},
		{name: "sm2.RecoverPublicKeysFromSM2Signature", small: true, fast: true, der: true,
			// the second seed is a pair anyone can construct for the fixed digest: r = x([s]G) + e, so that one of the
			// two candidate points equals [s]G and "its" key is the point at infinity
			seeds: []seedT{sigSeed("sm2sig-a"), {name: "sm2sig-recover-candidate-at-infinity", hostile: true, gen: func() []byte {
				n := sm2.P256().Params().N
				sv := big.NewInt(7)
				x, _ := sm2.P256().ScalarBaseMult(sv.Bytes())
				r := new(big.Int).Add(x, new(big.Int).SetBytes(hash))
				r.Mod(r, n)
				return must(asn1.Marshal(struct{ R, S *big.Int }{r, sv}))
			}}},
			call: func(x *cx, in []byte) (ok bool) {
				x.g("sm2.RecoverPublicKeysFromSM2Signature", func() {
					pubs, err := sm2.RecoverPublicKeysFromSM2Signature(hash, in)
					ok = err == nil && len(pubs) > 0
				})
				return
			}},
		{name: "sm2.Decrypt", small: true, fast: true, der: true,
			seeds: []seedT{plain, plainComp, ctASN1, ctASN1Long},
			call: func(x *cx, in []byte) (ok bool) {
				x.g("sm2.Decrypt", func() { _, err := sm2.Decrypt(kr.SM2EE(), in); ok = err == nil })
				return
			}},
		{name: "sm2.PrivateKey.Decrypt[C1C2C3]", small: true,
			seeds: []seedT{plainC1C2C3},
			call: func(x *cx, in []byte) (ok bool) {
				x.g("sm2.PrivateKey.Decrypt[C1C2C3]", func() {
					_, err := kr.SM2EE().Decrypt(nil, in, sm2.NewPlainDecrypterOpts(sm2.C1C2C3))
					ok = err == nil
				})
				return
			}},
		{name: "sm2.PrivateKey.Decrypt[ASN1-opts]", small: true, der: true,
			seeds: []seedT{ctASN1},
			call: func(x *cx, in []byte) (ok bool) {
				x.g("sm2.PrivateKey.Decrypt[ASN1-opts]", func() {
					_, err := kr.SM2EE().Decrypt(nil, in, sm2.ASN1DecrypterOpts)
					ok = err == nil
				})
				return
			}},
		{name: "sm2.Decrypt[NIST-P256-key]", small: true, fast: true, der: true,
			seeds: []seedT{nistPlain, nistHybrid, nistASN1},
			call: func(x *cx, in []byte) (ok bool) {
				x.g("sm2.Decrypt[NIST-P256-key]", func() { _, err := sm2.Decrypt(kr.NISTasSM2(), in); ok = err == nil })
				return
			}},
		{name: "sm2.PrivateKey.Decrypt[NIST-P256-key,C1C2C3]", small: true,
			seeds: []seedT{nistC1C2C3},
			call: func(x *cx, in []byte) (ok bool) {
				x.g("sm2.PrivateKey.Decrypt[NIST-P256-key,C1C2C3]", func() {
					_, err := kr.NISTasSM2().Decrypt(nil, in, sm2.NewPlainDecrypterOpts(sm2.C1C2C3))
					ok = err == nil
				})
				return
			}},
		{name: "sm2.PrivateKey.Decrypt[NIST-P256-key,ASN1-opts]", small: true, der: true,
			seeds: []seedT{nistASN1},
			call: func(x *cx, in []byte) (ok bool) {
				x.g("sm2.PrivateKey.Decrypt[NIST-P256-key,ASN1-opts]", func() {
					_, err := kr.NISTasSM2().Decrypt(nil, in, sm2.ASN1DecrypterOpts)
					ok = err == nil
				})
				return
			}},
		{name: "sm2.ASN1Ciphertext2Plain", small: true, fast: true, der: true,
			seeds: []seedT{ctASN1},
			call: func(x *cx, in []byte) (ok bool) {
				x.g("sm2.ASN1Ciphertext2Plain", func() { _, err := sm2.ASN1Ciphertext2Plain(in, nil); ok = err == nil })
				x.g("sm2.ASN1Ciphertext2Plain[compressed,C1C2C3]", func() {
					sm2.ASN1Ciphertext2Plain(in, sm2.NewPlainEncrypterOpts(sm2.MarshalCompressed, sm2.C1C2C3))
				})
				return
			}},
		{name: "sm2.PlainCiphertext2ASN1", small: true, fast: true,
			seeds: []seedT{plain, plainComp},
			call: func(x *cx, in []byte) (ok bool) {
				x.g("sm2.PlainCiphertext2ASN1", func() { _, err := sm2.PlainCiphertext2ASN1(in, sm2.C1C3C2); ok = err == nil })
				x.g("sm2.PlainCiphertext2ASN1[C1C2C3]", func() { sm2.PlainCiphertext2ASN1(in, sm2.C1C2C3) })
				return
			}},
		{name: "sm2.AdjustCiphertextSplicingOrder", small: true, fast: true,
			seeds: []seedT{plain, plainComp},
			call: func(x *cx, in []byte) (ok bool) {
				x.g("sm2.AdjustCiphertextSplicingOrder", func() {
					_, err := sm2.AdjustCiphertextSplicingOrder(in, sm2.C1C3C2, sm2.C1C2C3)
					ok = err == nil
				})
				x.g("sm2.AdjustCiphertextSplicingOrder[C1C2C3->C1C3C2]", func() {
					sm2.AdjustCiphertextSplicingOrder(in, sm2.C1C2C3, sm2.C1C3C2)
				})
				return
			}},
		{name: "sm2.ParseEnvelopedPrivateKey", der: true, fast: true,
			seeds: []seedT{S("sm2-enveloped-key", func() []byte {
				return must(sm2.MarshalEnvelopedPrivateKey(detRand("sm2-enveloped-key"), &kr.SM2EE().PublicKey, kr.SM2Enc()))
			})},
			call: func(x *cx, in []byte) (ok bool) {
				x.g("sm2.ParseEnvelopedPrivateKey", func() {
					k, err := sm2.ParseEnvelopedPrivateKey(kr.SM2EE(), in)
					ok = err == nil && k != nil
				})
				return
			}},
		{name: "sm2.NewPublicKey", small: true, fast: true,
			seeds: []seedT{S("sm2-pub-uncompressed", func() []byte {
				return must(kr.SM2EE().ECDH()).PublicKey().Bytes()
			})},
			call: func(x *cx, in []byte) (ok bool) {
				var pub *ecdsa.PublicKey
				x.g("sm2.NewPublicKey", func() { var err error; pub, err = sm2.NewPublicKey(in); ok = err == nil })
				if ok {
					x.g("sm2.NewPublicKey>VerifyASN1", func() { sm2.VerifyASN1(pub, hash, []byte{0x30, 0x06, 0x02, 0x01, 0x01, 0x02, 0x01, 0x01}) })
					x.g("sm2.NewPublicKey>PublicKeyToECDH", func() { sm2.PublicKeyToECDH(pub) })
				}
				return
			}},
		{name: "sm2.NewPrivateKey", small: true, fast: true,
			seeds: []seedT{S("sm2-priv-raw", func() []byte { return kr.SM2EE().D.FillBytes(make([]byte, 32)) })},
			call: func(x *cx, in []byte) (ok bool) {
				var k *sm2.PrivateKey
				x.g("sm2.NewPrivateKey", func() { var err error; k, err = sm2.NewPrivateKey(in); ok = err == nil })
				if ok {
					x.g("sm2.NewPrivateKey>ECDH", func() { k.ECDH() })
				}
				return
			}},
		{name: "sm2.KeyExchange.ConfirmInitiator", small: true,
			seeds: []seedT{S("sm2-kx-s1", func() []byte { _, s1 := sm2KX(); return s1 })},
			call: func(x *cx, in []byte) (ok bool) {
				resp, _ := sm2KX()
				x.g("sm2.KeyExchange.ConfirmInitiator", func() { _, err := resp.ConfirmInitiator(in); ok = err == nil })
				return
			}},
	}
}

var sm2kxResp *sm2.KeyExchange
var sm2kxS1 []byte

// sm2KX runs a key exchange up to the point where the responder waits for the initiator's confirmation s1.
func sm2KX() (*sm2.KeyExchange, []byte) {
	if sm2kxResp == nil {
		ini := must(sm2.NewKeyExchange(kr.SM2EE(), &kr.SM2Enc().PublicKey, sm2UID, []byte("responder"), 32, true))
		resp := must(sm2.NewKeyExchange(kr.SM2Enc(), &kr.SM2EE().PublicKey, []byte("responder"), sm2UID, 32, true))
		rA := must(ini.InitKeyExchange(detRand("sm2kx:a")))
		rB, sB, err := resp.RepondKeyExchange(detRand("sm2kx:b"), rA)
		must0(err)
		_, s1, err := ini.ConfirmResponder(rB, sB)
		must0(err)
		sm2kxResp, sm2kxS1 = resp, s1
	}
	return sm2kxResp, sm2kxS1
}

func epsECDH() []*epT {
	return []*epT{
		{name: "ecdh.P256.NewPublicKey", small: true, fast: true,
			seeds: []seedT{S("sm2-pub-uncompressed", func() []byte { return must(kr.SM2EE().ECDH()).PublicKey().Bytes() })},
			call: func(x *cx, in []byte) (ok bool) {
				var pub *ecdh.PublicKey
				x.g("ecdh.P256.NewPublicKey", func() { var err error; pub, err = ecdh.P256().NewPublicKey(in); ok = err == nil })
				if ok {
					priv := must(kr.SM2Enc().ECDH())
					x.g("ecdh.P256.NewPublicKey>ECDH", func() { priv.ECDH(pub) })
					x.g("ecdh.P256.NewPublicKey>SM2ZA", func() { pub.SM2ZA(sm3.New(), sm2UID) })
					x.g("ecdh.P256.NewPublicKey>SM2MQV", func() { priv.SM2MQV(priv, pub, pub) })
					x.g("ecdh.P256.NewPublicKey>SM2SharedKey", func() { pub.SM2SharedKey(false, 16, pub, pub, sm2UID, sm2UID) })
				}
				return
			}},
		{name: "ecdh.P256.NewPrivateKey", small: true, fast: true,
			seeds: []seedT{S("sm2-priv-raw", func() []byte { return kr.SM2EE().D.FillBytes(make([]byte, 32)) })},
			call: func(x *cx, in []byte) (ok bool) {
				var k *ecdh.PrivateKey
				x.g("ecdh.P256.NewPrivateKey", func() { var err error; k, err = ecdh.P256().NewPrivateKey(in); ok = err == nil })
				if ok {
					x.g("ecdh.P256.NewPrivateKey>PublicKey", func() { k.PublicKey().Bytes() })
				}
				return
			}},
	}
}
