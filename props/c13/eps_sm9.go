package c13

import (
	"encoding/pem"
	"io"
	"math/big"

	"github.com/emmansun/gmsm/sm9"
)

// hostileOpts is an EncrypterOpts that announces a standard encryption type but emits a C2 the standard
// decrypter of that type cannot digest (the SM9 MAC C3 is computed by the library over whatever C2 is, so any
// sender holding only public parameters can produce such a ciphertext).
type hostileOpts struct {
	sm9.EncrypterOpts
	c2 []byte
}

func (h *hostileOpts) Encrypt(rand io.Reader, key, plaintext []byte) ([]byte, error) {
	return append([]byte{}, h.c2...), nil
}

func pemEnc(typ string) func([]byte) []byte {
	return func(der []byte) []byte { return pem.EncodeToMemory(&pem.Block{Type: typ, Bytes: der}) }
}

func epsSM9() []*epT {
	hash := fixedHash()
	signPub := func() *sm9.SignMasterPublicKey { return kr.SM9SignMaster().PublicKey() }
	encPub := func() *sm9.EncryptMasterPublicKey { return kr.SM9EncMaster().PublicKey() }
	sig := func(name string) seedT {
		return S(name, func() []byte { return must(sm9.SignASN1(detRand(name), kr.SM9SignUser(), hash)) })
	}
	rawCT := func(name string, msg []byte, opts sm9.EncrypterOpts) seedT {
		return S(name, func() []byte { return must(sm9.Encrypt(detRand(name), encPub(), sm9UID, sm9HidEnc, msg, opts)) })
	}
	derCT := func(name string, msg []byte, opts sm9.EncrypterOpts) seedT {
		return S(name, func() []byte {
			return must(sm9.EncryptASN1(detRand(name), encPub(), sm9UID, sm9HidEnc, msg, opts))
		})
	}
	hostile := func(name string, base sm9.EncrypterOpts, c2 []byte) seedT {
		s := derCT(name, msgShort, &hostileOpts{EncrypterOpts: base, c2: c2})
		s.hostile = true
		return s
	}
	rawHostile := func(name string, base sm9.EncrypterOpts, c2 []byte) seedT {
		s := rawCT(name, msgShort, &hostileOpts{EncrypterOpts: base, c2: c2})
		s.hostile = true
		return s
	}
	rawDec := func(tag string, opts sm9.EncrypterOpts, seeds ...seedT) *epT {
		n := "sm9.Decrypt[" + tag + "]"
		return &epT{name: n, small: true, costly: true, fast: true, seeds: seeds,
			call: func(x *cx, in []byte) (ok bool) {
				x.g(n, func() { _, err := sm9.Decrypt(kr.SM9EncUser(), sm9UID, in, opts); ok = err == nil })
				return
			}}
	}
	b21 := make([]byte, 21)
	b16 := make([]byte, 16)
	for i := range b21 {
		b21[i] = byte(0xa0 + i)
	}
	copy(b16, b21)
	// authenticated C2 of every length class around one, two and three blocks (a guard written as a block count lets
	// ragged lengths above two blocks through)
	bN := func(n int) []byte {
		b := make([]byte, n)
		for i := range b {
			b[i] = byte(0xa0 + i)
		}
		return b
	}

	eps := []*epT{
		{name: "sm9.VerifyASN1", small: true, costly: true, fast: true, der: true,
			seeds: []seedT{sig("sm9sig-a"), sig("sm9sig-b")},
			call: func(x *cx, in []byte) (ok bool) {
				x.g("sm9.VerifyASN1", func() { ok = sm9.VerifyASN1(signPub(), sm9UID, sm9HidSign, hash, in) })
				return
			}},
		{name: "sm9.SignMasterPublicKey.Verify", costly: true, der: true, pairLimit: -1,
			seeds: []seedT{sig("sm9sig-a")},
			call: func(x *cx, in []byte) (ok bool) {
				x.g("sm9.SignMasterPublicKey.Verify", func() { ok = signPub().Verify(sm9UID, sm9HidSign, hash, in) })
				return
			}},
		{name: "sm9.Verify[raw-S]", small: true, costly: true, fast: true, pairLimit: 24,
			seeds: []seedT{S("sm9sig-a-rawS", func() []byte { _, s := splitSM9Sig(seedMemoOr("sm9sig-a")); return s })},
			call: func(x *cx, in []byte) (ok bool) {
				h, _ := splitSM9Sig(seedMemoOr("sm9sig-a"))
				x.g("sm9.Verify[raw-S]", func() { ok = sm9.Verify(signPub(), sm9UID, sm9HidSign, hash, new(big.Int).SetBytes(h), in) })
				return
			}},
		rawDec("XOR", nil, rawCT("sm9ct-raw-xor", msgShort, nil)),
		rawDec("SM4-CBC", sm9.SM4CBCEncrypterOpts, rawCT("sm9ct-raw-cbc", msgShort, sm9.SM4CBCEncrypterOpts),
			rawHostile("sm9ct-raw-cbc-partial-block", sm9.SM4CBCEncrypterOpts, b21),
			rawHostile("sm9ct-raw-cbc-33", sm9.SM4CBCEncrypterOpts, bN(33)), rawHostile("sm9ct-raw-cbc-47", sm9.SM4CBCEncrypterOpts, bN(47)),
			rawHostile("sm9ct-raw-cbc-49", sm9.SM4CBCEncrypterOpts, bN(49)), rawHostile("sm9ct-raw-cbc-1", sm9.SM4CBCEncrypterOpts, bN(1))),
		rawDec("SM4-ECB", sm9.SM4ECBEncrypterOpts, rawCT("sm9ct-raw-ecb", msgShort, sm9.SM4ECBEncrypterOpts),
			rawHostile("sm9ct-raw-ecb-partial-block", sm9.SM4ECBEncrypterOpts, b21),
			rawHostile("sm9ct-raw-ecb-33", sm9.SM4ECBEncrypterOpts, bN(33)), rawHostile("sm9ct-raw-ecb-47", sm9.SM4ECBEncrypterOpts, bN(47)),
			rawHostile("sm9ct-raw-ecb-1", sm9.SM4ECBEncrypterOpts, bN(1))),
		rawDec("SM4-CFB", sm9.SM4CFBEncrypterOpts, rawCT("sm9ct-raw-cfb", msgShort, sm9.SM4CFBEncrypterOpts)),
		rawDec("SM4-OFB", sm9.SM4OFBEncrypterOpts, rawCT("sm9ct-raw-ofb", msgShort, sm9.SM4OFBEncrypterOpts)),
		{name: "sm9.DecryptASN1", costly: true, fast: true, der: true,
			seeds: []seedT{
				derCT("sm9ct-der-xor", msgShort, nil),
				derCT("sm9ct-der-cbc", msgShort, sm9.SM4CBCEncrypterOpts),
				derCT("sm9ct-der-ecb", msgBlock, sm9.SM4ECBEncrypterOpts),
				derCT("sm9ct-der-cfb", msgShort, sm9.SM4CFBEncrypterOpts),
				derCT("sm9ct-der-ofb", msgShort, sm9.SM4OFBEncrypterOpts),
				hostile("sm9ct-der-cbc-partial-block", sm9.SM4CBCEncrypterOpts, b21),
				hostile("sm9ct-der-ecb-partial-block", sm9.SM4ECBEncrypterOpts, b21),
				hostile("sm9ct-der-cbc-iv-only", sm9.SM4CBCEncrypterOpts, b16),
				hostile("sm9ct-der-cbc-33", sm9.SM4CBCEncrypterOpts, bN(33)), hostile("sm9ct-der-cbc-47", sm9.SM4CBCEncrypterOpts, bN(47)),
				hostile("sm9ct-der-ecb-33", sm9.SM4ECBEncrypterOpts, bN(33)),
			},
			call: func(x *cx, in []byte) (ok bool) {
				x.g("sm9.DecryptASN1", func() { _, err := sm9.DecryptASN1(kr.SM9EncUser(), sm9UID, in); ok = err == nil })
				return
			}},
		{name: "sm9.EncryptPrivateKey.Decrypt[opts=uid]", costly: true, der: true, pairLimit: -1,
			seeds: []seedT{derCT("sm9ct-der-cbc", msgShort, sm9.SM4CBCEncrypterOpts)},
			call: func(x *cx, in []byte) (ok bool) {
				x.g("sm9.EncryptPrivateKey.Decrypt[opts=uid]", func() { _, err := kr.SM9EncUser().Decrypt(nil, in, sm9UID); ok = err == nil })
				x.g("sm9.EncryptPrivateKey.DecryptASN1", func() { kr.SM9EncUser().DecryptASN1(sm9UID, in) })
				return
			}},
		{name: "sm9.EncryptPrivateKey.Decrypt[DecrypterOptsWithUID,nil]", costly: true, der: true, pairLimit: -1,
			seeds: []seedT{derCT("sm9ct-der-xor", msgShort, nil)},
			call: func(x *cx, in []byte) (ok bool) {
				o := must(sm9.NewDecrypterOptsWithUID(nil, sm9UID))
				x.g("sm9.EncryptPrivateKey.Decrypt[DecrypterOptsWithUID,nil]", func() { _, err := kr.SM9EncUser().Decrypt(nil, in, o); ok = err == nil })
				return
			}},
		{name: "sm9.EncryptPrivateKey.Decrypt[DecrypterOptsWithUID,SM4-CBC]", small: true, costly: true, der: true, pairLimit: -1,
			seeds: []seedT{rawCT("sm9ct-raw-cbc", msgShort, sm9.SM4CBCEncrypterOpts), derCT("sm9ct-der-cbc", msgShort, sm9.SM4CBCEncrypterOpts)},
			call: func(x *cx, in []byte) (ok bool) {
				o := must(sm9.NewDecrypterOptsWithUID(sm9.SM4CBCEncrypterOpts, sm9UID))
				x.g("sm9.EncryptPrivateKey.Decrypt[DecrypterOptsWithUID,SM4-CBC]", func() { _, err := kr.SM9EncUser().Decrypt(nil, in, o); ok = err == nil })
				return
			}},
		{name: "sm9.UnwrapKey", small: true, costly: true, fast: true,
			seeds: []seedT{
				S("sm9-wrapped-raw65", func() []byte {
					_, c, err := sm9.WrapKey(detRand("sm9-wrapped-raw65"), encPub(), sm9UID, sm9HidEnc, 16)
					must0(err)
					return c
				}),
				S("sm9-wrapped-raw64", func() []byte {
					_, c, err := sm9.WrapKey(detRand("sm9-wrapped-raw64"), encPub(), sm9UID, sm9HidEnc, 16)
					must0(err)
					return c[1:]
				}),
			},
			call: func(x *cx, in []byte) (ok bool) {
				x.g("sm9.UnwrapKey", func() { _, err := sm9.UnwrapKey(kr.SM9EncUser(), sm9UID, in, 16); ok = err == nil })
				return
			}},
		{name: "sm9.EncryptPrivateKey.UnwrapKey", small: true, costly: true, fast: true, der: true,
			seeds: []seedT{S("sm9-wrapped-der", func() []byte {
				_, c, err := encPub().WrapKey(detRand("sm9-wrapped-der"), sm9UID, sm9HidEnc, 16)
				must0(err)
				return c
			})},
			call: func(x *cx, in []byte) (ok bool) {
				x.g("sm9.EncryptPrivateKey.UnwrapKey", func() { _, err := kr.SM9EncUser().UnwrapKey(sm9UID, in, 16); ok = err == nil })
				return
			}},
		{name: "sm9.UnmarshalSM9KeyPackage", small: true, costly: true, fast: true, der: true,
			seeds: []seedT{S("sm9-keypackage", func() []byte {
				return must(encPub().WrapKeyASN1(detRand("sm9-keypackage"), sm9UID, sm9HidEnc, 16))
			})},
			call: func(x *cx, in []byte) (ok bool) {
				var c []byte
				x.g("sm9.UnmarshalSM9KeyPackage", func() { var err error; _, c, err = sm9.UnmarshalSM9KeyPackage(in); ok = err == nil })
				if ok {
					x.g("sm9.UnmarshalSM9KeyPackage>UnwrapKey", func() { sm9.UnwrapKey(kr.SM9EncUser(), sm9UID, c, 16) })
				}
				return
			}},
	}

	// ---- the twelve key unmarshallers
	type keyEP struct {
		name  string
		pem   string
		seeds []seedT
		parse func(in []byte) (follow func(x *cx, n string), err error)
	}
	signMasterPubFollow := func(p *sm9.SignMasterPublicKey) func(x *cx, n string) {
		return func(x *cx, n string) {
			x.g(n+">Bytes/Marshal", func() { p.Bytes(); p.MarshalASN1(); p.MarshalCompressedASN1(); p.Equal(p) })
			x.g(n+">Verify", func() { p.Verify(sm9UID, sm9HidSign, hash, seedMemoOr("sm9sig-a")) })
		}
	}
	encMasterPubFollow := func(p *sm9.EncryptMasterPublicKey) func(x *cx, n string) {
		return func(x *cx, n string) {
			x.g(n+">Bytes/Marshal", func() { p.Bytes(); p.MarshalASN1(); p.MarshalCompressedASN1(); p.Equal(p) })
			x.g(n+">WrapKey", func() { p.WrapKey(detRand("follow"), sm9UID, sm9HidEnc, 16) })
		}
	}
	signPrivFollow := func(p *sm9.SignPrivateKey) func(x *cx, n string) {
		return func(x *cx, n string) {
			x.g(n+">Bytes/Marshal", func() { p.Bytes(); p.MarshalASN1(); p.MarshalCompressedASN1(); p.Equal(p) })
		}
	}
	encPrivFollow := func(p *sm9.EncryptPrivateKey) func(x *cx, n string) {
		return func(x *cx, n string) {
			x.g(n+">Bytes/Marshal", func() { p.Bytes(); p.MarshalASN1(); p.MarshalCompressedASN1(); p.Equal(p) })
			x.g(n+">UnwrapKey", func() { p.UnwrapKey(sm9UID, seedMemoOr("sm9-wrapped-der"), 16) })
		}
	}
	keps := []keyEP{
		{name: "sm9.UnmarshalSignMasterPrivateKeyASN1",
			seeds: []seedT{
				S("sm9-signmaster-priv-der", func() []byte { return must(kr.SM9SignMaster().MarshalASN1()) }),
			},
			parse: func(in []byte) (func(x *cx, n string), error) {
				k, err := sm9.UnmarshalSignMasterPrivateKeyASN1(in)
				if err != nil {
					return nil, err
				}
				return func(x *cx, n string) {
					x.g(n+">Bytes/Marshal/PublicKey", func() { k.Bytes(); k.MarshalASN1(); k.PublicKey().Bytes(); k.Equal(k) })
				}, nil
			}},
		{name: "sm9.UnmarshalSignMasterPublicKeyRaw",
			seeds: []seedT{
				S("sm9-signmaster-pub-raw", func() []byte { return signPub().Bytes() }),
			},
			parse: func(in []byte) (func(x *cx, n string), error) {
				k, err := sm9.UnmarshalSignMasterPublicKeyRaw(in)
				if err != nil {
					return nil, err
				}
				return signMasterPubFollow(k), nil
			}},
		{name: "sm9.UnmarshalSignMasterPublicKeyASN1",
			seeds: []seedT{
				S("sm9-signmaster-pub-der", func() []byte { return must(signPub().MarshalASN1()) }),
				S("sm9-signmaster-pub-der-compressed", func() []byte { return must(signPub().MarshalCompressedASN1()) }),
			},
			parse: func(in []byte) (func(x *cx, n string), error) {
				k, err := sm9.UnmarshalSignMasterPublicKeyASN1(in)
				if err != nil {
					return nil, err
				}
				return signMasterPubFollow(k), nil
			}},
		{name: "sm9.ParseSignMasterPublicKeyPEM", pem: "SM9 SIGN MASTER PUBLIC KEY",
			seeds: []seedT{
				S("sm9-signmaster-pub-der", func() []byte { return must(signPub().MarshalASN1()) }),
			},
			parse: func(in []byte) (func(x *cx, n string), error) {
				k, err := sm9.ParseSignMasterPublicKeyPEM(in)
				if err != nil {
					return nil, err
				}
				return signMasterPubFollow(k), nil
			}},
		{name: "sm9.UnmarshalSignPrivateKeyRaw",
			seeds: []seedT{
				S("sm9-signuser-priv-raw", func() []byte { return kr.SM9SignUser().Bytes() }),
			},
			parse: func(in []byte) (func(x *cx, n string), error) {
				k, err := sm9.UnmarshalSignPrivateKeyRaw(in)
				if err != nil {
					return nil, err
				}
				return signPrivFollow(k), nil
			}},
		{name: "sm9.UnmarshalSignPrivateKeyASN1",
			seeds: []seedT{
				S("sm9-signuser-priv-der", func() []byte { return must(kr.SM9SignUser().MarshalASN1()) }),
				S("sm9-signuser-priv-der-compressed", func() []byte { return must(kr.SM9SignUser().MarshalCompressedASN1()) }),
			},
			parse: func(in []byte) (func(x *cx, n string), error) {
				k, err := sm9.UnmarshalSignPrivateKeyASN1(in)
				if err != nil {
					return nil, err
				}
				return signPrivFollow(k), nil
			}},
		{name: "sm9.UnmarshalEncryptMasterPrivateKeyASN1",
			seeds: []seedT{
				S("sm9-encmaster-priv-der", func() []byte { return must(kr.SM9EncMaster().MarshalASN1()) }),
			},
			parse: func(in []byte) (func(x *cx, n string), error) {
				k, err := sm9.UnmarshalEncryptMasterPrivateKeyASN1(in)
				if err != nil {
					return nil, err
				}
				return func(x *cx, n string) {
					x.g(n+">Bytes/Marshal/PublicKey", func() { k.Bytes(); k.MarshalASN1(); k.PublicKey().Bytes(); k.Equal(k) })
				}, nil
			}},
		{name: "sm9.UnmarshalEncryptMasterPublicKeyRaw",
			seeds: []seedT{
				S("sm9-encmaster-pub-raw", func() []byte { return encPub().Bytes() }),
			},
			parse: func(in []byte) (func(x *cx, n string), error) {
				k, err := sm9.UnmarshalEncryptMasterPublicKeyRaw(in)
				if err != nil {
					return nil, err
				}
				return encMasterPubFollow(k), nil
			}},
		{name: "sm9.UnmarshalEncryptMasterPublicKeyASN1",
			seeds: []seedT{
				S("sm9-encmaster-pub-der", func() []byte { return must(encPub().MarshalASN1()) }),
				S("sm9-encmaster-pub-der-compressed", func() []byte { return must(encPub().MarshalCompressedASN1()) }),
			},
			parse: func(in []byte) (func(x *cx, n string), error) {
				k, err := sm9.UnmarshalEncryptMasterPublicKeyASN1(in)
				if err != nil {
					return nil, err
				}
				return encMasterPubFollow(k), nil
			}},
		{name: "sm9.ParseEncryptMasterPublicKeyPEM", pem: "SM9 ENC MASTER PUBLIC KEY",
			seeds: []seedT{
				S("sm9-encmaster-pub-der", func() []byte { return must(encPub().MarshalASN1()) }),
			},
			parse: func(in []byte) (func(x *cx, n string), error) {
				k, err := sm9.ParseEncryptMasterPublicKeyPEM(in)
				if err != nil {
					return nil, err
				}
				return encMasterPubFollow(k), nil
			}},
		{name: "sm9.UnmarshalEncryptPrivateKeyRaw",
			seeds: []seedT{
				S("sm9-encuser-priv-raw", func() []byte { return kr.SM9EncUser().Bytes() }),
			},
			parse: func(in []byte) (func(x *cx, n string), error) {
				k, err := sm9.UnmarshalEncryptPrivateKeyRaw(in)
				if err != nil {
					return nil, err
				}
				return func(x *cx, n string) {
					x.g(n+">Bytes/Marshal", func() { k.Bytes(); k.MarshalASN1(); k.MarshalCompressedASN1(); k.Equal(k) })
				}, nil
			}},
		{name: "sm9.UnmarshalEncryptPrivateKeyASN1",
			seeds: []seedT{
				S("sm9-encuser-priv-der", func() []byte { return must(kr.SM9EncUser().MarshalASN1()) }),
				S("sm9-encuser-priv-der-compressed", func() []byte { return must(kr.SM9EncUser().MarshalCompressedASN1()) }),
			},
			parse: func(in []byte) (func(x *cx, n string), error) {
				k, err := sm9.UnmarshalEncryptPrivateKeyASN1(in)
				if err != nil {
					return nil, err
				}
				return encPrivFollow(k), nil
			}},
	}
	for _, ke := range keps {
		ke := ke
		e := &epT{name: ke.name, small: true, costly: true, fast: true, der: true, seeds: ke.seeds, pairLimit: 24}
		if ke.pem != "" {
			e.enc = pemEnc(ke.pem)
			e.pairLimit = -1
		}
		e.call = func(x *cx, in []byte) (ok bool) {
			var follow func(x *cx, n string)
			x.g(ke.name, func() {
				f, err := ke.parse(in)
				ok = err == nil
				follow = f
			})
			if ok && follow != nil {
				follow(x, ke.name)
			}
			return
		}
		eps = append(eps, e)
	}

	// ---- key exchange (peer-supplied raw bytes)
	eps = append(eps,
		&epT{name: "sm9.KeyExchange.RespondKeyExchange", small: true, costly: true, fast: true, pairLimit: 24,
			seeds: []seedT{S("sm9-kx-rA", func() []byte {
				ini := kr.SM9EncUser().NewKeyExchange(sm9UID, sm9UIDBob, 16, true)
				return must(ini.InitKeyExchange(detRand("sm9kx:a"), sm9HidEnc))
			})},
			call: func(x *cx, in []byte) (ok bool) {
				if sm9kxResp == nil {
					sm9kxResp = kr.SM9EncBob().NewKeyExchange(sm9UIDBob, sm9UID, 16, true)
				}
				resp := sm9kxResp
				x.g("sm9.KeyExchange.RespondKeyExchange", func() {
					_, _, err := resp.RespondKeyExchange(detRand("sm9kx:b"), sm9HidEnc, in)
					ok = err == nil
				})
				return
			}},
		&epT{name: "sm9.KeyExchange.ConfirmResponder[rB]", small: true, costly: true, fast: true, pairLimit: 24,
			seeds: []seedT{S("sm9-kx-rB", func() []byte { rB, _ := sm9KXResponse(); return rB })},
			call: func(x *cx, in []byte) (ok bool) {
				_, sB := sm9KXResponse()
				ini := sm9KXInitiator()
				x.g("sm9.KeyExchange.ConfirmResponder[rB]", func() { _, _, err := ini.ConfirmResponder(in, sB); ok = err == nil })
				return
			}},
		&epT{name: "sm9.KeyExchange.ConfirmResponder[sB]", small: true, costly: true, pairLimit: -1, shortMax1: true,
			seeds: []seedT{S("sm9-kx-sB", func() []byte { _, sB := sm9KXResponse(); return sB })},
			call: func(x *cx, in []byte) (ok bool) {
				rB, _ := sm9KXResponse()
				ini := sm9KXInitiator()
				x.g("sm9.KeyExchange.ConfirmResponder[sB]", func() { _, _, err := ini.ConfirmResponder(rB, in); ok = err == nil })
				return
			}},
	)
	return eps
}

// splitSM9Sig takes SEQUENCE{OCTET STRING h, BIT STRING S} (a valid seed) apart.
func splitSM9Sig(der []byte) (h, s []byte) {
	root, ok := readTLV(der, 0)
	if !ok {
		panic("c13: splitSM9Sig")
	}
	ch := children(der, root)
	if len(ch) != 2 {
		panic("c13: splitSM9Sig: shape")
	}
	h = der[ch[0].off+ch[0].hdr : ch[0].off+ch[0].hdr+ch[0].ln]
	s = der[ch[1].off+ch[1].hdr+1 : ch[1].off+ch[1].hdr+ch[1].ln]
	return
}

var sm9kxRB, sm9kxSB []byte
var sm9kxIni, sm9kxResp sm9.KeyExchange

// sm9KXInitiator is an initiator that has sent rA (same stream as the one that produced the seeds). It is reused
// across inputs: ConfirmResponder overwrites all per-run state it reads.
func sm9KXInitiator() sm9.KeyExchange {
	if sm9kxIni == nil {
		ini := kr.SM9EncUser().NewKeyExchange(sm9UID, sm9UIDBob, 16, true)
		must(ini.InitKeyExchange(detRand("sm9kx:a"), sm9HidEnc))
		sm9kxIni = ini
	}
	return sm9kxIni
}

func sm9KXResponse() ([]byte, []byte) {
	if sm9kxRB == nil {
		ini := kr.SM9EncUser().NewKeyExchange(sm9UID, sm9UIDBob, 16, true)
		rA := must(ini.InitKeyExchange(detRand("sm9kx:a"), sm9HidEnc))
		resp := kr.SM9EncBob().NewKeyExchange(sm9UIDBob, sm9UID, 16, true)
		rB, sB, err := resp.RespondKeyExchange(detRand("sm9kx:b"), sm9HidEnc, rA)
		must0(err)
		sm9kxRB, sm9kxSB = rB, sB
	}
	return sm9kxRB, sm9kxSB
}
