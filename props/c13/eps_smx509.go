package c13

import (
	"crypto/ecdsa"
	"crypto/ed25519"
	"crypto/elliptic"
	"crypto/x509"
	"crypto/x509/pkix"
	"encoding/asn1"
	"encoding/pem"
	"math/big"
	"net"
	"time"

	"golang.org/x/crypto/cryptobyte"

	"github.com/emmansun/gmsm/sm9"
	"github.com/emmansun/gmsm/smx509"
)

func certFollow(x *cx, n string, c *smx509.Certificate) {
	x.g(n+">CheckSignature", func() { c.CheckSignature(c.SignatureAlgorithm, c.RawTBSCertificate, c.Signature) })
	x.g(n+">CheckSignatureFrom", func() { c.CheckSignatureFrom(kr.CACert()) })
	x.g(n+">Verify", func() {
		c.Verify(smx509.VerifyOptions{Roots: kr.Pool(), Intermediates: kr.Pool(), CurrentTime: tVerify, DNSName: "ee.example.com",
			KeyUsages: []x509.ExtKeyUsage{x509.ExtKeyUsageAny}})
	})
	x.g(n+">VerifyHostname", func() { c.VerifyHostname("ee.example.com"); c.VerifyHostname("10.1.2.3") })
	x.g(n+">ToX509/Equal", func() { c.ToX509(); c.Equal(c) })
	// a parsed hostile certificate used as issuer of a good one
	x.g(n+">asParent.CheckSignatureFrom", func() { kr.EECert().CheckSignatureFrom(c) })
}

var certSeeds = []seedT{
	{name: "cert-sm2-ee", gen: func() []byte { return kr.EECert().Raw }, parts: 4},
	{name: "cert-sm2-ca", gen: func() []byte { return kr.CACert().Raw }, parts: 4},
	{name: "cert-rsa2048", gen: func() []byte { return kr.RSACert().Raw }, parts: 4},
	{name: "cert-ecdsa-p256", gen: func() []byte { return kr.ECDSACert().Raw }, parts: 2},
	// every further curve the decoders accept: relabelling edits (mutenum oid=...) then offer each key type under each
	// algorithm identifier
	{name: "cert-ecdsa-p224", gen: func() []byte { return curveCert(elliptic.P224(), "p224", x509.ECDSAWithSHA256) }, parts: 2},
	{name: "cert-ecdsa-p384", gen: func() []byte { return curveCert(elliptic.P384(), "p384", x509.ECDSAWithSHA384) }, parts: 2},
	{name: "cert-ecdsa-p521", gen: func() []byte { return curveCert(elliptic.P521(), "p521", x509.ECDSAWithSHA512) }, parts: 2},
	{name: "cert-ed25519", gen: edCert, parts: 2},
}

func curveKey(c elliptic.Curve, tag string) *ecdsa.PrivateKey {
	return must(ecdsa.GenerateKey(c, detRand("key:"+tag)))
}

func curveCert(c elliptic.Curve, tag string, alg x509.SignatureAlgorithm) []byte {
	k := curveKey(c, tag)
	return kr.selfSigned(tag+".example.com", 0x7000+int64(len(tag))*int64(tag[1]), alg, &k.PublicKey, k).Raw
}

func edKey() ed25519.PrivateKey {
	_, k, err := ed25519.GenerateKey(detRand("key:ed25519"))
	if err != nil {
		panic(err)
	}
	return k
}

func edCert() []byte {
	k := edKey()
	return kr.selfSigned("ed25519.example.com", 0x7ed5, x509.PureEd25519, k.Public(), k).Raw
}

func curveCSR(c elliptic.Curve, tag string, alg x509.SignatureAlgorithm) []byte {
	tpl := &x509.CertificateRequest{Subject: name(tag + "-csr.example.com"), DNSNames: []string{tag + "-csr.example.com"}, SignatureAlgorithm: alg}
	return must(smx509.CreateCertificateRequest(detRand("csr-"+tag), tpl, curveKey(c, tag)))
}

func csrSM2() []byte {
	tpl := &x509.CertificateRequest{
		Subject:         name("csr.example.com"),
		DNSNames:        []string{"csr.example.com", "alt.example.com"},
		EmailAddresses:  []string{"csr@example.com"},
		IPAddresses:     []net.IP{net.IPv4(10, 9, 8, 7)},
		ExtraExtensions: []pkix.Extension{{Id: asn1.ObjectIdentifier{2, 5, 29, 15}, Critical: true, Value: []byte{0x03, 0x02, 0x05, 0xa0}}},
	}
	return must(smx509.CreateCertificateRequest(detRand("csr-sm2"), tpl, kr.SM2EE()))
}

func csrRSA() []byte {
	tpl := &x509.CertificateRequest{Subject: name("rsa-csr.example.com"), DNSNames: []string{"rsa-csr.example.com"}, SignatureAlgorithm: x509.SHA256WithRSA}
	return must(smx509.CreateCertificateRequest(detRand("csr-rsa"), tpl, kr.RSA1024()))
}

func crlSM2() []byte {
	tpl := &x509.RevocationList{
		Number:     big.NewInt(7),
		ThisUpdate: tNotBefore.Add(24 * time.Hour),
		NextUpdate: tNotAfter,
		RevokedCertificateEntries: []x509.RevocationListEntry{
			{SerialNumber: big.NewInt(0x2002), RevocationTime: tNotBefore.Add(48 * time.Hour), ReasonCode: 1},
			{SerialNumber: big.NewInt(0x77), RevocationTime: tNotBefore.Add(72 * time.Hour),
				ExtraExtensions: []pkix.Extension{{Id: asn1.ObjectIdentifier{2, 5, 29, 24}, Value: []byte{0x18, 0x0f, '2', '0', '2', '1', '0', '1', '0', '1', '0', '0', '0', '0', '0', '0', 'Z'}}}},
		},
		ExtraExtensions: []pkix.Extension{{Id: asn1.ObjectIdentifier{1, 2, 156, 10197, 98, 2}, Value: []byte{0x05, 0x00}}},
	}
	return must(smx509.CreateRevocationList(detRand("crl-sm2"), tpl, kr.CACert(), kr.SM2CA()))
}

func cfcaCSRSM2() []byte {
	tpl := &x509.CertificateRequest{Subject: name("cfca.example.com")}
	return must(smx509.CreateCFCACertificateRequest(detRand("cfca-csr-sm2"), tpl, kr.SM2EE(), &kr.SM2Tmp().PublicKey, "challenge-pwd"))
}

func cfcaCSRRSA() []byte {
	tpl := &x509.CertificateRequest{Subject: name("cfca-rsa.example.com"), SignatureAlgorithm: x509.SHA256WithRSA}
	return must(smx509.CreateCFCACertificateRequest(detRand("cfca-csr-rsa"), tpl, kr.RSA1024(), &kr.RSA1024().PublicKey, "challenge-pwd"))
}

func csrResponseFull() []byte {
	return must(smx509.MarshalCSRResponse([]*smx509.Certificate{kr.EECert()}, kr.SM2Enc(), []*smx509.Certificate{kr.EncCert()}))
}
func csrResponseSignOnly() []byte {
	return must(smx509.MarshalCSRResponse([]*smx509.Certificate{kr.EECert()}, nil, nil))
}

type pemSeed struct {
	name string
	alg  smx509.PEMCipher
}

var pemSeeds = []pemSeed{{"pemenc-sm4", smx509.PEMCipherSM4}, {"pemenc-aes128", smx509.PEMCipherAES128}, {"pemenc-des", smx509.PEMCipherDES}, {"pemenc-3des", smx509.PEMCipher3DES}, {"pemenc-aes256", smx509.PEMCipherAES256}}

func pemBlockOf(p pemSeed) *pem.Block {
	data := must(smx509.MarshalSM2PrivateKey(kr.SM2EE()))
	return must(smx509.EncryptPEMBlock(detRand(p.name), "EC PRIVATE KEY", data, password, p.alg))
}

func epsSMX509() []*epT {
	der := func(n string, seeds []seedT, parse func(in []byte) (any, error), follow func(x *cx, n string, v any)) *epT {
		return &epT{name: n, der: true, fast: true, seeds: seeds,
			call: func(x *cx, in []byte) (ok bool) {
				var v any
				x.g(n, func() { var err error; v, err = parse(in); ok = err == nil })
				if ok && follow != nil {
					follow(x, n, v)
				}
				return
			}}
	}
	csrFollow := func(x *cx, n string, v any) {
		c := v.(*smx509.CertificateRequest)
		x.g(n+">CheckSignature", func() { c.CheckSignature() })
		x.g(n+">ToX509", func() { c.ToX509() })
	}
	csrSeeds := []seedT{{name: "csr-sm2", gen: csrSM2, parts: 2}, {name: "csr-rsa1024", gen: csrRSA, parts: 2},
		{name: "csr-ecdsa-p224", gen: func() []byte { return curveCSR(elliptic.P224(), "p224", x509.ECDSAWithSHA256) }, parts: 2},
		{name: "csr-ecdsa-p256", gen: func() []byte { return curveCSR(elliptic.P256(), "p256c", x509.ECDSAWithSHA256) }, parts: 2},
		{name: "csr-ecdsa-p384", gen: func() []byte { return curveCSR(elliptic.P384(), "p384", x509.ECDSAWithSHA384) }, parts: 2},
		{name: "csr-ecdsa-p521", gen: func() []byte { return curveCSR(elliptic.P521(), "p521", x509.ECDSAWithSHA512) }, parts: 2},
		{name: "csr-ed25519", gen: func() []byte {
			tpl := &x509.CertificateRequest{Subject: name("ed-csr.example.com"), SignatureAlgorithm: x509.PureEd25519}
			return must(smx509.CreateCertificateRequest(detRand("csr-ed"), tpl, edKey()))
		}, parts: 2}}
	crlSeeds := []seedT{{name: "crl-sm2", gen: crlSM2, parts: 2}}
	pkixSeeds := []seedT{
		S("pkix-pub-sm2", func() []byte { return must(smx509.MarshalPKIXPublicKey(&kr.SM2EE().PublicKey)) }),
		S("pkix-pub-rsa1024", func() []byte { return must(smx509.MarshalPKIXPublicKey(&kr.RSA1024().PublicKey)) }),
		S("pkix-pub-ecdsa-p256", func() []byte { return must(smx509.MarshalPKIXPublicKey(&kr.NIST().PublicKey)) }),
		S("pkix-pub-ecdh-sm2", func() []byte { return must(smx509.MarshalPKIXPublicKey(must(kr.SM2EE().ECDH()).PublicKey())) }),
	}
	p8Seeds := []seedT{
		S("p8-sm2", func() []byte { return must(smx509.MarshalPKCS8PrivateKey(kr.SM2EE())) }),
		S("p8-rsa1024", func() []byte { return must(smx509.MarshalPKCS8PrivateKey(kr.RSA1024())) }),
		S("p8-ecdsa-p256", func() []byte { return must(smx509.MarshalPKCS8PrivateKey(kr.NIST())) }),
		S("p8-sm9-signmaster", func() []byte { return must(smx509.MarshalPKCS8PrivateKey(kr.SM9SignMaster())) }),
		S("p8-sm9-encmaster", func() []byte { return must(smx509.MarshalPKCS8PrivateKey(kr.SM9EncMaster())) }),
		S("p8-sm9-signuser", func() []byte { return must(smx509.MarshalPKCS8PrivateKey(kr.SM9SignUser())) }),
		S("p8-sm9-encuser", func() []byte { return must(smx509.MarshalPKCS8PrivateKey(kr.SM9EncUser())) }),
	}
	sec1SM2 := S("sec1-sm2", func() []byte { return must(smx509.MarshalSM2PrivateKey(kr.SM2EE())) })
	sec1NIST := S("sec1-p256", func() []byte { return must(smx509.MarshalECPrivateKey(kr.NIST())) })

	eps := []*epT{
		der("smx509.ParseCertificate", certSeeds,
			func(in []byte) (any, error) { return smx509.ParseCertificate(in) },
			func(x *cx, n string, v any) { certFollow(x, n, v.(*smx509.Certificate)) }),
		der("smx509.ParseCertificates", []seedT{{name: "cert-bundle-ee+ca", parts: 6, gen: func() []byte {
			return append(append([]byte{}, kr.EECert().Raw...), kr.CACert().Raw...)
		}}},
			func(in []byte) (any, error) { return smx509.ParseCertificates(in) },
			func(x *cx, n string, v any) {
				for _, c := range v.([]*smx509.Certificate) {
					x.g(n+">CheckSignatureFrom", func() { c.CheckSignatureFrom(kr.CACert()) })
				}
			}),
		der("smx509.ParseCertificateRequest", csrSeeds,
			func(in []byte) (any, error) { return smx509.ParseCertificateRequest(in) }, csrFollow),
		der("smx509.ParseRevocationList", crlSeeds,
			func(in []byte) (any, error) { return smx509.ParseRevocationList(in) },
			func(x *cx, n string, v any) {
				rl := v.(*smx509.RevocationList)
				x.g(n+">CheckSignatureFrom", func() { rl.CheckSignatureFrom(kr.CACert()) })
				x.g(n+">ToX509", func() { rl.ToX509() })
			}),
		der("smx509.ParseDERCRL", crlSeeds,
			func(in []byte) (any, error) { return smx509.ParseDERCRL(in) },
			func(x *cx, n string, v any) {
				x.g(n+">CheckCRLSignature", func() { kr.CACert().CheckCRLSignature(v.(*pkix.CertificateList)) })
			}),
		der("smx509.ParsePKIXPublicKey", pkixSeeds,
			func(in []byte) (any, error) { return smx509.ParsePKIXPublicKey(in) },
			func(x *cx, n string, v any) {
				x.g(n+">MarshalPKIXPublicKey", func() { smx509.MarshalPKIXPublicKey(v) })
			}),
		der("smx509.ParsePKCS8PrivateKey", p8Seeds,
			func(in []byte) (any, error) { return smx509.ParsePKCS8PrivateKey(in) },
			func(x *cx, n string, v any) {
				switch v.(type) {
				case *sm9.SignPrivateKey, *sm9.EncryptPrivateKey:
					// An SM9 user key may legitimately be encoded without its master public key ("should be handled
					// separately" in the API documentation); re-marshalling such a key dereferences the missing part.
					// That is an API-usage matter of the caller, not a hostile-bytes defect: not driven.
					return
				}
				x.g(n+">MarshalPKCS8PrivateKey", func() { smx509.MarshalPKCS8PrivateKey(v) })
			}),
		der("smx509.ParseECPrivateKey", []seedT{sec1NIST, sec1SM2},
			func(in []byte) (any, error) { return smx509.ParseECPrivateKey(in) }, nil),
		der("smx509.ParseSM2PrivateKey", []seedT{sec1SM2},
			func(in []byte) (any, error) { return smx509.ParseSM2PrivateKey(in) }, nil),
		der("smx509.ParseTypedECPrivateKey", []seedT{sec1SM2, sec1NIST},
			func(in []byte) (any, error) { return smx509.ParseTypedECPrivateKey(in) }, nil),
		der("smx509.ParsePKCS1PrivateKey", []seedT{{name: "pkcs1-priv-rsa1024", parts: 2, gen: func() []byte { return smx509.MarshalPKCS1PrivateKey(kr.RSA1024()) }}},
			func(in []byte) (any, error) { return smx509.ParsePKCS1PrivateKey(in) }, nil),
		der("smx509.ParsePKCS1PublicKey", []seedT{S("pkcs1-pub-rsa1024", func() []byte { return smx509.MarshalPKCS1PublicKey(&kr.RSA1024().PublicKey) })},
			func(in []byte) (any, error) { return smx509.ParsePKCS1PublicKey(in) }, nil),
		der("smx509.ParseCFCACertificateRequest", []seedT{{name: "cfca-csr-sm2", gen: cfcaCSRSM2, parts: 2}, {name: "cfca-csr-rsa1024", gen: cfcaCSRRSA, parts: 2}},
			func(in []byte) (any, error) { return smx509.ParseCFCACertificateRequest(in) },
			func(x *cx, n string, v any) {
				c := v.(*smx509.CertificateRequestCFCA)
				x.g(n+">CheckSignature", func() { c.CheckSignature() })
			}),
		der("smx509.ParseCSRResponse", []seedT{{name: "csr-response-full", gen: csrResponseFull, parts: 6}, {name: "csr-response-sign-only", gen: csrResponseSignOnly, parts: 4}},
			func(in []byte) (any, error) { return smx509.ParseCSRResponse(kr.SM2EE(), in) }, nil),
		der("smx509.ParseName", []seedT{S("rdn-subject", func() []byte { return kr.EECert().RawSubject })},
			func(in []byte) (any, error) { return smx509.ParseName(cryptobyte.String(in)) }, nil),
	}

	// PEM carried forms
	pemEP := func(n, typ string, seeds []seedT, parse func(in []byte) (any, error), follow func(x *cx, n string, v any)) *epT {
		e := der(n, seeds, parse, follow)
		e.enc = pemEnc(typ)
		e.pairLimit = -1
		e.fast = false
		return e
	}
	eps = append(eps,
		pemEP("smx509.ParseCertificatePEM", "CERTIFICATE", []seedT{certSeeds[0]},
			func(in []byte) (any, error) { return smx509.ParseCertificatePEM(in) },
			func(x *cx, n string, v any) {
				x.g(n+">CheckSignatureFrom", func() { v.(*smx509.Certificate).CheckSignatureFrom(kr.CACert()) })
			}),
		pemEP("smx509.ParseCertificateRequestPEM", "CERTIFICATE REQUEST", []seedT{csrSeeds[0]},
			func(in []byte) (any, error) { return smx509.ParseCertificateRequestPEM(in) }, csrFollow),
		pemEP("smx509.ParseCRL[PEM]", "X509 CRL", crlSeeds,
			func(in []byte) (any, error) { return smx509.ParseCRL(in) }, nil),
	)
	// CertPool.AppendCertsFromPEM: the mutated certificate is followed by a good one in the same bundle.
	{
		n := "smx509.CertPool.AppendCertsFromPEM"
		e := &epT{name: n, der: true, fast: true, pairLimit: -1, seeds: []seedT{certSeeds[1]},
			enc: func(der []byte) []byte {
				return append(pem.EncodeToMemory(&pem.Block{Type: "CERTIFICATE", Bytes: der}), pem.EncodeToMemory(&pem.Block{Type: "CERTIFICATE", Bytes: kr.RSACert().Raw})...)
			},
			call: func(x *cx, in []byte) (ok bool) {
				pool := smx509.NewCertPool()
				x.g(n, func() { ok = pool.AppendCertsFromPEM(in) })
				if ok {
					x.g(n+">Subjects/Clone/Equal", func() { pool.Subjects(); pool.Equal(pool.Clone()) })
					x.g(n+">Verify(ee)", func() {
						kr.EECert().Verify(smx509.VerifyOptions{Roots: pool, CurrentTime: tVerify, KeyUsages: []x509.ExtKeyUsage{x509.ExtKeyUsageAny}})
					})
				}
				return
			}}
		eps = append(eps, e)
	}

	// DecryptPEMBlock: three hostile axes
	var textSeeds, bytesSeeds, dekSeeds []seedT
	for _, p := range pemSeeds {
		p := p
		textSeeds = append(textSeeds, S(p.name+"-text", func() []byte { return pem.EncodeToMemory(pemBlockOf(p)) }))
	}
	for _, p := range pemSeeds[:3] {
		p := p
		bytesSeeds = append(bytesSeeds, S(p.name+"-bytes", func() []byte { return pemBlockOf(p).Bytes }))
	}
	for _, p := range pemSeeds[:2] {
		p := p
		dekSeeds = append(dekSeeds, S(p.name+"-dekinfo", func() []byte { return []byte(pemBlockOf(p).Headers["DEK-Info"]) }))
	}
	eps = append(eps,
		&epT{name: "smx509.DecryptPEMBlock[PEM-text]", fast: true, seeds: textSeeds, pairLimit: -1,
			call: func(x *cx, in []byte) (ok bool) {
				blk, _ := pem.Decode(in)
				if blk == nil {
					return false
				}
				x.g("smx509.DecryptPEMBlock[PEM-text]", func() {
					smx509.IsEncryptedPEMBlock(blk)
					_, err := smx509.DecryptPEMBlock(blk, password)
					ok = err == nil
				})
				return
			}},
	)
	for i, s := range bytesSeeds {
		i, s := i, s
		n := "smx509.DecryptPEMBlock[block.Bytes," + pemSeeds[i].name + "]"
		eps = append(eps, &epT{name: n, fast: i == 0, seeds: []seedT{s}, pairLimit: -1,
			call: func(x *cx, in []byte) (ok bool) {
				hdr := pemBlockOf(pemSeeds[i]).Headers
				x.g(n, func() {
					_, err := smx509.DecryptPEMBlock(&pem.Block{Type: "EC PRIVATE KEY", Headers: hdr, Bytes: in}, password)
					ok = err == nil
				})
				return
			}})
	}
	for i, s := range dekSeeds {
		i, s := i, s
		n := "smx509.DecryptPEMBlock[DEK-Info," + pemSeeds[i].name + "]"
		eps = append(eps, &epT{name: n, fast: true, small: true, seeds: []seedT{s},
			call: func(x *cx, in []byte) (ok bool) {
				body := pemBlockCache(i).Bytes
				x.g(n, func() {
					_, err := smx509.DecryptPEMBlock(&pem.Block{Type: "EC PRIVATE KEY", Headers: map[string]string{"Proc-Type": "4,ENCRYPTED", "DEK-Info": string(in)}, Bytes: body}, password)
					ok = err == nil
				})
				return
			}})
	}
	return eps
}

var pemBlocks = map[int]*pem.Block{}

func pemBlockCache(i int) *pem.Block {
	if b, ok := pemBlocks[i]; ok {
		return b
	}
	b := pemBlockOf(pemSeeds[i])
	pemBlocks[i] = b
	return b
}
