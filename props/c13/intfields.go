package c13

import (
	"fmt"
	"math/big"

	"github.com/emmansun/gmsm/padding"

	"verif/engine"
)

// Length fields taken as integers. Byte substitutions and truncations of a valid padded string never produce the values
// at which an accumulator of a particular width or signedness misbehaves (the two's complement of -8k in 64 bits, 2^63,
// 2^32 +/- d ...): every block-aligned input of 1..3 blocks whose FIRST block (the length block of ISO/IEC 9797-1
// method 3) is such an integer, big-endian, for every scheme and a set of block sizes. Oracle: Unpad returns.
func padIntFieldCase(t *engine.T, name string, mk padding.NewPaddingFunc, bs int) {
	one := big.NewInt(1)
	seen := map[string]bool{}
	var vals []*big.Int
	add := func(v *big.Int) {
		if v.Sign() < 0 || v.BitLen() > 8*bs || seen[v.String()] {
			return
		}
		seen[v.String()] = true
		vals = append(vals, v)
	}
	maxD := int64(8 * (4*bs + 2))
	for d := int64(0); d <= maxD; d++ {
		add(big.NewInt(d))
	}
	for _, w := range []uint{7, 8, 15, 16, 31, 32, 63, 64, uint(8*bs - 1), uint(8 * bs)} {
		pw := new(big.Int).Lsh(one, w)
		for d := int64(0); d <= maxD; d++ {
			add(new(big.Int).Add(pw, big.NewInt(d)))
			add(new(big.Int).Sub(pw, big.NewInt(d)))
		}
	}
	p := mk(uint(bs))
	key := fmt.Sprintf("padding.%s[bs=%d].Unpad/length-block-as-integer", name, bs)
	buf := make([]byte, 4*bs)
	reported := false
	for nb := 0; nb <= 2; nb++ {
		for fill := 0; fill < 2; fill++ {
			in := buf[:bs+nb*bs]
			for i := bs; i < len(in); i++ {
				in[i] = 0
				if fill == 1 {
					in[i] = byte(0x11 + i)
				}
			}
			for _, v := range vals {
				v.FillBytes(in[:bs])
				arg := append([]byte{}, in...)
				if reported {
					func() {
						defer func() {
							if recover() != nil {
								t.Extra("panics_observed", 1)
							}
						}()
						p.Unpad(arg)
					}()
				} else if t.Guard(key, func() {
					defer func() {
						if r := recover(); r != nil {
							panic(fmt.Sprintf("%v   [input %x]", r, in))
						}
					}()
					p.Unpad(arg)
				}) {
					reported = true
				}
				t.Eval(1)
			}
		}
	}
	t.Nontrivial(key)
	t.Extra("length_block_values", len(vals))
}

func runPadIntFields(c *engine.Ctx) {
	for _, sc := range []struct {
		name string
		mk   padding.NewPaddingFunc
	}{{"PKCS7", padding.NewPKCS7Padding}, {"ANSIX923", padding.NewANSIX923Padding}, {"ISO9797M2", padding.NewISO9797M2Padding}, {"ISO9797M3", padding.NewISO9797M3Padding}} {
		for _, bs := range []int{1, 2, 4, 7, 8, 9, 15, 16, 17, 24, 32} {
			sc, bs := sc, bs
			if sc.name != "ISO9797M3" && bs != 8 && bs != 16 {
				continue // the other schemes have a one-byte length, covered by substitution; two sizes as a control
			}
			kase(c, fmt.Sprintf("padding.%s[bs=%d].Unpad/length-block-as-integer", sc.name, bs), func(t *engine.T) { padIntFieldCase(t, sc.name, sc.mk, bs) })
		}
	}
}
