package c13

import (
	"crypto"
	"crypto/ecdsa"
	"crypto/elliptic"
	"crypto/rsa"
	"crypto/x509"
	"crypto/x509/pkix"
	"encoding/asn1"
	"encoding/pem"
	"math/big"
	"net"
	"net/url"
	"time"

	"github.com/emmansun/gmsm/sm2"
	"github.com/emmansun/gmsm/sm9"
	"github.com/emmansun/gmsm/smx509"
)

// Fixed key material, built once per process from deterministic streams (nothing here depends on time or on
// crypto/rand). Everything is lazy: a worker that replays one case builds only what that case needs.

type keyring struct {
	sm2CA, sm2EE, sm2Enc, sm2Tmp *sm2.PrivateKey
	nist                         *ecdsa.PrivateKey // NIST P-256, used for the "legacy curve" paths of package sm2
	nistSM2                      *sm2.PrivateKey
	rsa2048, rsa1024             *rsa.PrivateKey

	caCert, eeCert, encCert, rsaCert, rsa1024Cert, ecdsaCert *smx509.Certificate
	pool                                                     *smx509.CertPool

	sm9SignMaster *sm9.SignMasterPrivateKey
	sm9EncMaster  *sm9.EncryptMasterPrivateKey
	sm9SignUser   *sm9.SignPrivateKey
	sm9EncUser    *sm9.EncryptPrivateKey
	sm9EncBob     *sm9.EncryptPrivateKey
}

var kr = &keyring{}

func resetKeys() {
	kr = &keyring{}
	sm2kxResp, sm2kxS1 = nil, nil
	sm9kxRB, sm9kxSB = nil, nil
	sm9kxIni, sm9kxResp = nil, nil
	algCTMemo = map[string]algCT{}
	pemBlocks = map[int]*pem.Block{}
}

var (
	tNotBefore = time.Date(2020, 1, 1, 0, 0, 0, 0, time.UTC)
	tNotAfter  = time.Date(2120, 1, 1, 0, 0, 0, 0, time.UTC)
	tVerify    = time.Date(2026, 6, 1, 0, 0, 0, 0, time.UTC)
	sm9UID     = []byte("Alice")
	sm9UIDBob  = []byte("Bob")
	sm2UID     = []byte("1234567812345678")
	password   = []byte("password")
)

const (
	sm9HidSign byte = 0x01
	sm9HidEnc  byte = 0x03
)

func (k *keyring) SM2CA() *sm2.PrivateKey {
	if k.sm2CA == nil {
		k.sm2CA = must(sm2.GenerateKey(detRand("key:sm2CA")))
	}
	return k.sm2CA
}
func (k *keyring) SM2EE() *sm2.PrivateKey {
	if k.sm2EE == nil {
		k.sm2EE = must(sm2.GenerateKey(detRand("key:sm2EE")))
	}
	return k.sm2EE
}
func (k *keyring) SM2Enc() *sm2.PrivateKey {
	if k.sm2Enc == nil {
		k.sm2Enc = must(sm2.GenerateKey(detRand("key:sm2Enc")))
	}
	return k.sm2Enc
}
func (k *keyring) SM2Tmp() *sm2.PrivateKey {
	if k.sm2Tmp == nil {
		k.sm2Tmp = must(sm2.GenerateKey(detRand("key:sm2Tmp")))
	}
	return k.sm2Tmp
}
func (k *keyring) NIST() *ecdsa.PrivateKey {
	if k.nist == nil {
		k.nist = must(ecdsa.GenerateKey(elliptic.P256(), detRand("key:nist")))
	}
	return k.nist
}

// NISTasSM2 is an sm2.PrivateKey over NIST P-256: package sm2 routes such keys to its "legacy" generic-curve code.
func (k *keyring) NISTasSM2() *sm2.PrivateKey {
	if k.nistSM2 == nil {
		// the same construction sm2.Sign (legacy API) uses internally
		key := new(sm2.PrivateKey)
		key.PrivateKey = *k.NIST()
		k.nistSM2 = key
	}
	return k.nistSM2
}

func parseRSAPEM(s string) *rsa.PrivateKey {
	b, _ := pem.Decode([]byte(s))
	if b == nil {
		panic("c13: embedded RSA key does not decode")
	}
	return must(x509.ParsePKCS1PrivateKey(b.Bytes))
}
func (k *keyring) RSA2048() *rsa.PrivateKey {
	if k.rsa2048 == nil {
		k.rsa2048 = parseRSAPEM(rsa2048PEM)
	}
	return k.rsa2048
}
func (k *keyring) RSA1024() *rsa.PrivateKey {
	if k.rsa1024 == nil {
		k.rsa1024 = parseRSAPEM(rsa1024PEM)
	}
	return k.rsa1024
}

func name(cn string) pkix.Name {
	return pkix.Name{CommonName: cn, Organization: []string{"verif"}, Country: []string{"CN"}, OrganizationalUnit: []string{"c13"}}
}

func (k *keyring) CACert() *smx509.Certificate {
	if k.caCert == nil {
		_, permitted, _ := net.ParseCIDR("10.0.0.0/8")
		tpl := &x509.Certificate{
			SerialNumber:                big.NewInt(0x1001),
			Subject:                     name("c13 root"),
			NotBefore:                   tNotBefore,
			NotAfter:                    tNotAfter,
			KeyUsage:                    x509.KeyUsageCertSign | x509.KeyUsageCRLSign | x509.KeyUsageDigitalSignature,
			BasicConstraintsValid:       true,
			IsCA:                        true,
			MaxPathLen:                  2,
			SubjectKeyId:                []byte{1, 2, 3, 4, 5, 6, 7, 8},
			PermittedDNSDomains:         []string{"example.com", ".example.org"},
			ExcludedDNSDomains:          []string{"bad.example.com"},
			PermittedIPRanges:           []*net.IPNet{permitted},
			PermittedEmailAddresses:     []string{"example.com"},
			PermittedURIDomains:         []string{".example.com"},
			PermittedDNSDomainsCritical: true,
			PolicyIdentifiers:           []asn1.ObjectIdentifier{{2, 5, 29, 32, 0}},
		}
		der := must(smx509.CreateCertificate(detRand("cert:ca"), tpl, tpl, &k.SM2CA().PublicKey, k.SM2CA()))
		k.caCert = must(smx509.ParseCertificate(der))
	}
	return k.caCert
}

func (k *keyring) EECert() *smx509.Certificate {
	if k.eeCert == nil {
		u, _ := url.Parse("https://www.example.com/path")
		tpl := &x509.Certificate{
			SerialNumber:          big.NewInt(0x2002),
			Subject:               name("ee.example.com"),
			NotBefore:             tNotBefore,
			NotAfter:              tNotAfter,
			KeyUsage:              x509.KeyUsageDigitalSignature | x509.KeyUsageKeyEncipherment,
			ExtKeyUsage:           []x509.ExtKeyUsage{x509.ExtKeyUsageServerAuth, x509.ExtKeyUsageEmailProtection},
			UnknownExtKeyUsage:    []asn1.ObjectIdentifier{{1, 2, 156, 10197, 99}},
			BasicConstraintsValid: true,
			DNSNames:              []string{"ee.example.com", "*.example.org"},
			EmailAddresses:        []string{"ee@example.com"},
			IPAddresses:           []net.IP{net.IPv4(10, 1, 2, 3)},
			URIs:                  []*url.URL{u},
			SubjectKeyId:          []byte{9, 8, 7, 6},
			OCSPServer:            []string{"http://ocsp.example.com"},
			IssuingCertificateURL: []string{"http://ca.example.com/ca.cer"},
			CRLDistributionPoints: []string{"http://crl.example.com/ca.crl"},
			PolicyIdentifiers:     []asn1.ObjectIdentifier{{1, 2, 156, 10197, 6, 1}},
			ExtraExtensions:       []pkix.Extension{{Id: asn1.ObjectIdentifier{1, 2, 156, 10197, 98, 1}, Value: []byte{0x04, 0x02, 0xaa, 0xbb}}},
		}
		der := must(smx509.CreateCertificate(detRand("cert:ee"), tpl, k.CACert().ToX509(), &k.SM2EE().PublicKey, k.SM2CA()))
		k.eeCert = must(smx509.ParseCertificate(der))
	}
	return k.eeCert
}

func (k *keyring) EncCert() *smx509.Certificate {
	if k.encCert == nil {
		tpl := &x509.Certificate{
			SerialNumber: big.NewInt(0x3003),
			Subject:      name("enc.example.com"),
			NotBefore:    tNotBefore,
			NotAfter:     tNotAfter,
			KeyUsage:     x509.KeyUsageKeyEncipherment | x509.KeyUsageDataEncipherment,
			SubjectKeyId: []byte{0xe, 0xc, 1, 2},
			DNSNames:     []string{"enc.example.com"},
		}
		der := must(smx509.CreateCertificate(detRand("cert:enc"), tpl, k.CACert().ToX509(), &k.SM2Enc().PublicKey, k.SM2CA()))
		k.encCert = must(smx509.ParseCertificate(der))
	}
	return k.encCert
}

func (k *keyring) selfSigned(cn string, serial int64, alg x509.SignatureAlgorithm, pub any, priv crypto.Signer) *smx509.Certificate {
	tpl := &x509.Certificate{
		SerialNumber:          big.NewInt(serial),
		Subject:               name(cn),
		NotBefore:             tNotBefore,
		NotAfter:              tNotAfter,
		KeyUsage:              x509.KeyUsageDigitalSignature | x509.KeyUsageKeyEncipherment | x509.KeyUsageCertSign,
		BasicConstraintsValid: true,
		IsCA:                  true,
		SignatureAlgorithm:    alg,
		DNSNames:              []string{cn},
	}
	der := must(smx509.CreateCertificate(detRand("cert:"+cn), tpl, tpl, pub, priv))
	return must(smx509.ParseCertificate(der))
}

func (k *keyring) RSACert() *smx509.Certificate {
	if k.rsaCert == nil {
		k.rsaCert = k.selfSigned("rsa2048.example.com", 0x4004, x509.SHA256WithRSA, &k.RSA2048().PublicKey, k.RSA2048())
	}
	return k.rsaCert
}
func (k *keyring) RSA1024Cert() *smx509.Certificate {
	if k.rsa1024Cert == nil {
		k.rsa1024Cert = k.selfSigned("rsa1024.example.com", 0x5005, x509.SHA256WithRSA, &k.RSA1024().PublicKey, k.RSA1024())
	}
	return k.rsa1024Cert
}
func (k *keyring) ECDSACert() *smx509.Certificate {
	if k.ecdsaCert == nil {
		k.ecdsaCert = k.selfSigned("p256.example.com", 0x6006, x509.ECDSAWithSHA256, &k.NIST().PublicKey, k.NIST())
	}
	return k.ecdsaCert
}

// Pool is the trust pool used by every chain-building follow-up (never nil: a nil pool means "system roots").
func (k *keyring) Pool() *smx509.CertPool {
	if k.pool == nil {
		p := smx509.NewCertPool()
		p.AddCert(k.CACert())
		p.AddCert(k.RSACert())
		k.pool = p
	}
	return k.pool
}

func (k *keyring) SM9SignMaster() *sm9.SignMasterPrivateKey {
	if k.sm9SignMaster == nil {
		k.sm9SignMaster = must(sm9.GenerateSignMasterKey(detRand("key:sm9sign")))
	}
	return k.sm9SignMaster
}
func (k *keyring) SM9EncMaster() *sm9.EncryptMasterPrivateKey {
	if k.sm9EncMaster == nil {
		k.sm9EncMaster = must(sm9.GenerateEncryptMasterKey(detRand("key:sm9enc")))
	}
	return k.sm9EncMaster
}
func (k *keyring) SM9SignUser() *sm9.SignPrivateKey {
	if k.sm9SignUser == nil {
		k.sm9SignUser = must(k.SM9SignMaster().GenerateUserKey(sm9UID, sm9HidSign))
	}
	return k.sm9SignUser
}
func (k *keyring) SM9EncUser() *sm9.EncryptPrivateKey {
	if k.sm9EncUser == nil {
		k.sm9EncUser = must(k.SM9EncMaster().GenerateUserKey(sm9UID, sm9HidEnc))
	}
	return k.sm9EncUser
}
func (k *keyring) SM9EncBob() *sm9.EncryptPrivateKey {
	if k.sm9EncBob == nil {
		k.sm9EncBob = must(k.SM9EncMaster().GenerateUserKey(sm9UIDBob, sm9HidEnc))
	}
	return k.sm9EncBob
}
