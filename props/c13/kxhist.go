package c13

import (
	"bytes"
	"fmt"
	"strings"

	"github.com/emmansun/gmsm/sm9"

	"verif/engine"
)

// kx-hist: the SM9 key exchange object is a small state machine that is fed with bytes from the peer. The entry point
// bindings above offer every hostile string to ONE step of an object; they never reach states such as "a session was
// accepted, then a message was refused, then the protocol went on". Here every history up to a depth bound over the
// alphabet below is executed on a fresh real object (explicit-state search, successor = replay of the path); the
// object is used in both roles. Oracle (C13 only): no call panics, overruns or fails to return. Whether a step that
// follows a refused message succeeds is not judged.

type kxWorld struct {
	gen            bool
	rA, rA2        []byte // Alice's first messages of two sessions (valid for the object as responder)
	sA             []byte // Alice's confirmation for the session (rA, object answering with stream "kxh:b")
	rY, sY         []byte // Alice's answer to the object's own first message (valid for the object as initiator)
	hostR, hostS   []namedBytes
	hostRY, hostSY []namedBytes
}

type namedBytes struct {
	name string
	b    []byte
}

func hostileOf(v []byte, other []byte) []namedBytes {
	flip := append([]byte{}, v...)
	if len(flip) > 0 {
		flip[len(flip)-1] ^= 1
	}
	out := []namedBytes{
		{"nil", nil},
		{"empty", []byte{}},
		{"1byte", []byte{0x04}},
		{"cut-1", append([]byte{}, v[:max(len(v)-1, 0)]...)},
		{"half", append([]byte{}, v[:len(v)/2]...)},
		{"plus-1", append(append([]byte{}, v...), 0)},
		{"last-bit", flip},
		{"zeros", make([]byte, len(v))},
	}
	if other != nil {
		out = append(out, namedBytes{"other-session", append([]byte{}, other...)})
	}
	return out
}

func newObj(gen bool) sm9.KeyExchange {
	return kr.SM9EncBob().NewKeyExchange(sm9UIDBob, sm9UID, 16, gen)
}

func newAlice(gen bool) sm9.KeyExchange {
	return kr.SM9EncUser().NewKeyExchange(sm9UID, sm9UIDBob, 16, gen)
}

func buildKXWorld(gen bool) (*kxWorld, error) {
	w := &kxWorld{gen: gen}
	a := newAlice(gen)
	rA, err := a.InitKeyExchange(detRand("kxh:a"), sm9HidEnc)
	if err != nil {
		return nil, err
	}
	o := newObj(gen)
	rB, sB, err := o.RespondKeyExchange(detRand("kxh:b"), sm9HidEnc, rA)
	if err != nil {
		return nil, err
	}
	_, sA, err := a.ConfirmResponder(rB, sB)
	if err != nil {
		return nil, err
	}
	a2 := newAlice(gen)
	rA2, err := a2.InitKeyExchange(detRand("kxh:a2"), sm9HidEnc)
	if err != nil {
		return nil, err
	}
	// the object as initiator, Alice answering
	o2 := newObj(gen)
	rX, err := o2.InitKeyExchange(detRand("kxh:x"), sm9HidEnc)
	if err != nil {
		return nil, err
	}
	a3 := newAlice(gen)
	rY, sY, err := a3.RespondKeyExchange(detRand("kxh:y"), sm9HidEnc, rX)
	if err != nil {
		return nil, err
	}
	w.rA, w.rA2, w.sA, w.rY, w.sY = rA, rA2, sA, rY, sY
	if !gen { // no confirmation values in this mode: the hostile ones are built from a fixed 32-byte string
		w.sA, w.sY = nil, nil
	}
	conf := func(v []byte) []byte {
		if v == nil {
			return bytes.Repeat([]byte{0x5a}, 32)
		}
		return v
	}
	w.hostR = hostileOf(rA, nil)
	w.hostS = hostileOf(conf(sA), bytes.Repeat([]byte{0xa5}, 32))
	w.hostRY = hostileOf(rY, rA)
	w.hostSY = hostileOf(conf(sY), bytes.Repeat([]byte{0xa5}, 32))
	return w, nil
}

type kxOp struct {
	name string
	f    func(o sm9.KeyExchange) error
}

// A step is offered only where the local application may make it: ConfirmResponder after one of its own
// InitKeyExchange calls succeeded, ConfirmInitiator after one of its RespondKeyExchange calls succeeded. Calling the
// steps out of order is a mistake of the caller, not hostile input, and is not part of this space; a refused message
// that arrives in between does not take the right to continue the accepted session away.
func (o kxOp) needs() string {
	switch {
	case strings.HasPrefix(o.name, "ConfirmResponder"):
		return "Init"
	case strings.HasPrefix(o.name, "ConfirmInitiator"):
		return "Respond"
	}
	return ""
}

func (w *kxWorld) ops() []kxOp {
	cp := func(b []byte) []byte {
		if b == nil {
			return nil
		}
		return append(make([]byte, 0, len(b)+8), b...)
	}
	ops := []kxOp{
		{"Init", func(o sm9.KeyExchange) error { _, err := o.InitKeyExchange(detRand("kxh:x"), sm9HidEnc); return err }},
		{"Respond(valid)", func(o sm9.KeyExchange) error {
			_, _, err := o.RespondKeyExchange(detRand("kxh:b"), sm9HidEnc, cp(w.rA))
			return err
		}},
		{"Respond(other-session)", func(o sm9.KeyExchange) error {
			_, _, err := o.RespondKeyExchange(detRand("kxh:b"), sm9HidEnc, cp(w.rA2))
			return err
		}},
		{"ConfirmResponder(valid,valid)", func(o sm9.KeyExchange) error { _, _, err := o.ConfirmResponder(cp(w.rY), cp(w.sY)); return err }},
		{"ConfirmInitiator(valid)", func(o sm9.KeyExchange) error { _, err := o.ConfirmInitiator(cp(w.sA)); return err }},
	}
	for _, h := range w.hostR {
		h := h
		ops = append(ops, kxOp{"Respond(" + h.name + ")", func(o sm9.KeyExchange) error {
			_, _, err := o.RespondKeyExchange(detRand("kxh:b"), sm9HidEnc, cp(h.b))
			return err
		}})
	}
	for _, h := range w.hostRY {
		h := h
		ops = append(ops, kxOp{"ConfirmResponder(" + h.name + ",valid)", func(o sm9.KeyExchange) error {
			_, _, err := o.ConfirmResponder(cp(h.b), cp(w.sY))
			return err
		}})
	}
	for _, h := range w.hostSY {
		h := h
		ops = append(ops, kxOp{"ConfirmResponder(valid," + h.name + ")", func(o sm9.KeyExchange) error {
			_, _, err := o.ConfirmResponder(cp(w.rY), cp(h.b))
			return err
		}})
	}
	for _, h := range w.hostS {
		h := h
		ops = append(ops, kxOp{"ConfirmInitiator(" + h.name + ")", func(o sm9.KeyExchange) error { _, err := o.ConfirmInitiator(cp(h.b)); return err }})
	}
	return ops
}

// guardTrace is t.Guard with the history in the message (the finding key names the step and the frame only).
func guardTrace(t *engine.T, key string, trace []string, fn func()) bool {
	return t.Guard(key, func() {
		defer func() {
			if r := recover(); r != nil {
				panic(fmt.Sprintf("%v   [history on a fresh object: %v]", r, trace))
			}
		}()
		fn()
	})
}

// kxHistCase runs every history of the given depth that starts with ops[first].
func kxHistCase(t *engine.T, gen bool, first, depth int) {
	w, err := buildKXWorld(gen)
	if err != nil {
		t.Sample(map[string]any{"part": "kx-hist", "unbuildable": err.Error()})
		t.Extra("seeds_unbuildable", 1)
		return
	}
	ops := w.ops()
	if first >= len(ops) {
		return
	}
	idx := make([]int, depth)
	idx[0] = first
	reported := map[string]bool{}
	histories, steps, skipped := 0, 0, 0
	for {
		o := newObj(gen)
		var trace []string
		did := map[string]bool{}
		for d := 0; d < depth; d++ {
			op := ops[idx[d]]
			if n := op.needs(); n != "" && !did[n] {
				skipped++
				break
			}
			trace = append(trace, op.name)
			var e error
			key := "sm9.KeyExchange/history/" + op.name
			if reported[key] { // one replayable instance per (step, frame) is enough; later ones are only counted
				func() {
					defer func() {
						if r := recover(); r != nil {
							t.Extra("panics_observed", 1)
							e = fmt.Errorf("panic")
						}
					}()
					e = op.f(o)
				}()
				if e != nil && e.Error() == "panic" {
					break
				}
			} else if guardTrace(t, key, trace, func() { e = op.f(o) }) {
				reported[key] = true
				t.Extra("panics_observed", 1)
				break // the object may be in any state after a panic
			}
			steps++
			t.Eval(1)
			if e == nil {
				t.Outcome("kx-hist/" + op.name + "/ok")
				if strings.HasPrefix(op.name, "Init") {
					did["Init"] = true
				} else if strings.HasPrefix(op.name, "Respond") {
					did["Respond"] = true
				}
			} else {
				t.Outcome("kx-hist/" + op.name + "/error")
			}
		}
		histories++
		// next history (first operation fixed)
		d := depth - 1
		for d >= 1 {
			idx[d]++
			if idx[d] < len(ops) {
				break
			}
			idx[d] = 0
			d--
		}
		if d < 1 {
			break
		}
	}
	t.Extra("kx_histories_cut_at_a_step_the_caller_may_not_make", skipped)
	t.AddTraces(histories)
	t.AddTransitions(steps)
	t.AddStates(histories)
	t.Nontrivial(fmt.Sprintf("kx-hist/gen=%v/first=%s/depth=%d", gen, ops[first].name, depth))
	if first == 0 {
		names := make([]string, len(ops))
		for i, o := range ops {
			names[i] = o.name
		}
		t.Sample(map[string]any{"part": "kx-hist", "confirmation": gen, "alphabet": names, "depth": depth, "histories_per_first_op": histories})
	}
}

func runKXHist(c *engine.Ctx) {
	depth := 3
	nops := 5 + 8 + 9 + 9 + 9 // see ops(): fixed by hostileOf
	for _, gen := range []bool{true, false} {
		for first := 0; first < nops; first++ {
			gen, first := gen, first
			kase(c, fmt.Sprintf("sm9.KeyExchange/history/confirm=%v/depth=%d/first=%d", gen, depth, first), func(t *engine.T) { kxHistCase(t, gen, first, depth) })
		}
		if !c.Quick() {
			// depth 4 over the valid steps and the three shortest hostile forms of every argument
			kase(c, fmt.Sprintf("sm9.KeyExchange/history/confirm=%v/depth=4/reduced", gen), func(t *engine.T) { kxHistReduced(t, gen, 4) })
		}
	}
}

// kxHistReduced: deeper histories over a reduced alphabet (valid steps + nil / empty / cut-1 forms).
func kxHistReduced(t *engine.T, gen bool, depth int) {
	w, err := buildKXWorld(gen)
	if err != nil {
		t.Extra("seeds_unbuildable", 1)
		return
	}
	var ops []kxOp
	for _, o := range w.ops() {
		n := o.name
		if !bytes.Contains([]byte(n), []byte("(")) || bytes.Contains([]byte(n), []byte("valid)")) && !bytes.Contains([]byte(n), []byte(",")) ||
			bytes.Contains([]byte(n), []byte("nil")) || bytes.Contains([]byte(n), []byte("empty")) || bytes.Contains([]byte(n), []byte("cut-1")) || n == "ConfirmResponder(valid,valid)" || n == "Respond(other-session)" {
			ops = append(ops, o)
		}
	}
	idx := make([]int, depth)
	histories, steps := 0, 0
	reported := map[string]bool{}
	for {
		o := newObj(gen)
		var trace []string
		did := map[string]bool{}
		for d := 0; d < depth; d++ {
			op := ops[idx[d]]
			if n := op.needs(); n != "" && !did[n] {
				break
			}
			trace = append(trace, op.name)
			key := "sm9.KeyExchange/history/" + op.name
			panicked := false
			var e error
			if reported[key] {
				func() {
					defer func() {
						if recover() != nil {
							panicked = true
						}
					}()
					e = op.f(o)
				}()
			} else if guardTrace(t, key, trace, func() { e = op.f(o) }) {
				reported[key] = true
				panicked = true
			}
			if panicked {
				t.Extra("panics_observed", 1)
				break
			}
			steps++
			t.Eval(1)
			if e == nil && strings.HasPrefix(op.name, "Init") {
				did["Init"] = true
			} else if e == nil && strings.HasPrefix(op.name, "Respond") {
				did["Respond"] = true
			}
		}
		histories++
		d := depth - 1
		for d >= 0 {
			idx[d]++
			if idx[d] < len(ops) {
				break
			}
			idx[d] = 0
			d--
		}
		if d < 0 {
			break
		}
	}
	t.AddTraces(histories)
	t.AddTransitions(steps)
	t.AddStates(histories)
	t.Nontrivial(fmt.Sprintf("kx-hist/reduced/gen=%v/depth=%d/ops=%d", gen, depth, len(ops)))
}

// ---- identity-length alignment of the decryptors. The KDF input of SM9 decryption and key unwrapping is
// C1 || w || uid, so the decryptor's OWN identity length moves the alignment of the hashed prefix, and the length of
// the hostile C2 chooses the number of output blocks (the lane class of the multi-lane KDF). One fixed identity, as
// in the entry point bindings above, visits one residue. Here: every identity length 0..63 (+64, 65) x C2 lengths in
// every lane class; the input is a genuine C1 followed by junk (C3, C2), offered to Decrypt (raw form) and UnwrapKey. Oracle: returns, no panic.
func uidAlignmentCase(t *engine.T, lo, hi int) {
	master := kr.SM9EncMaster()
	for L := lo; L <= hi; L++ {
		uid := make([]byte, L)
		for i := range uid {
			uid[i] = byte('a' + i%26)
		}
		var user *sm9.EncryptPrivateKey
		var c1 []byte
		if t.Guard("sm9.uid-alignment/setup", func() {
			var err error
			user, err = master.GenerateUserKey(uid, sm9HidEnc)
			if err != nil {
				user = nil
				return
			}
			_, c1, err = sm9.WrapKey(detRand(fmt.Sprintf("uid-align:%d", L)), master.PublicKey(), uid, sm9HidEnc, 16)
			if err != nil {
				c1 = nil
			}
		}) || user == nil || c1 == nil {
			t.Extra("seeds_unbuildable", 1)
			continue
		}
		for _, n := range []int{1, 31, 32, 33, 64, 65, 96, 97, 128, 129, 224, 225, 257, 1000} {
			junk := make([]byte, 32+n)
			for i := range junk {
				junk[i] = byte(0x3c + 7*i)
			}
			raw := append(append([]byte{}, c1...), junk...)
			t.Guard("sm9.Decrypt[raw]/uid-alignment", func() { sm9.Decrypt(user, uid, raw, sm9.DefaultEncrypterOpts) })
			t.Guard("sm9.UnwrapKey/uid-alignment", func() { sm9.UnwrapKey(user, uid, c1, n) })
			t.Eval(2)
		}
		t.Nontrivial(fmt.Sprintf("sm9.uid-alignment/%d", L%64))
	}
}

func runUIDAlignment(c *engine.Ctx) {
	for lo := 0; lo <= 65; lo += 6 {
		lo := lo
		hi := min(lo+5, 65)
		kase(c, fmt.Sprintf("sm9.Decrypt+UnwrapKey/uid-alignment/uidlen=%d..%d", lo, hi), func(t *engine.T) { uidAlignmentCase(t, lo, hi) })
	}
}
