// Package c14: key serialisations round-trip exactly and never yield a different key (DESIGN §4 C14).
// Kernels: E2 (full product keys x containers x options) and E3 (single-byte alterations of the three
// protected containers). All "randomness" (salts, IVs, SM2 ephemeral scalars, SM4 wrapping keys) comes from
// engine.DetReader streams; the check never touches crypto/rand or math/rand.
package c14

import (
	"fmt"
	"hash/fnv"
	"math/big"
	"reflect"

	"verif/engine"
	"verif/ref/ecref"
	"verif/ref/sm4ref"
)

type Prop struct{}

func (Prop) ID() string    { return "C14" }
func (Prop) Level() string { return "exploration" }
func (Prop) Configs(tier string) []string {
	// the containers are protected by SM4 (CBC/GCM/ECB), SM3 and the SM2 curve: the tiers on which those differ
	// (table-driven GCM over the asm block, Go SM4, AVX instead of AVX2) are part of "every offered cipher"
	return []string{"c-default", "c-purego", "c-nopclmul", "c-noaes", "c-noavx2"}
}

func (Prop) SelfTest() error {
	if err := ecref.SelfTest(); err != nil {
		return err
	}
	if err := sm4ref.SelfTest(); err != nil {
		return err
	}
	// the hash chain and the edge scalars must lie in the valid ranges the checks assume
	n := sm2N()
	for _, s := range sm2Scalars() {
		if s.d.Sign() <= 0 || s.d.Cmp(new(big.Int).Sub(n, big.NewInt(2))) > 0 {
			return fmt.Errorf("c14: sm2 scalar %s outside [1,n-2]", s.name)
		}
	}
	for _, s := range sm9Scalars() {
		if s.d.Sign() <= 0 || s.d.Cmp(new(big.Int).Sub(sm9N, big.NewInt(2))) > 0 {
			return fmt.Errorf("c14: sm9 scalar %s outside [1,N-2]", s.name)
		}
	}
	if sm9N.Cmp(ecref.SM9G1().N) != 0 {
		return fmt.Errorf("c14: SM9 order constant disagrees with the reference curve")
	}
	// the DER walker used to name regions of a mutated container
	if sp := topChildren([]byte{0x30, 0x07, 0x02, 0x01, 0x05, 0x04, 0x02, 0xaa, 0xbb}); len(sp) != 2 || sp[0] != (span{2, 5}) || sp[1] != (span{5, 9}) {
		return fmt.Errorf("c14: DER walker self-test failed: %v", sp)
	}
	// cost guard must refuse a raised iteration count and accept the seed
	return costGuardSelfTest()
}

func (Prop) Rule() string {
	return "E2: full product of the key alphabet (SM2 and ECDH scalars {1,2,n-2,2^248-1,2^255,3 hash-chain values}; SM9 sign/encrypt master keys from scalars {1,2,hash-chain,N-2,2^248-1}, " +
		"one user key and the master public key of each: six SM9 kinds; embedded RSA-1024/2048; ECDSA P-256 {chain,1,n-1}, P-384 {chain,2^376-1}, P-224 {chain,2^216-1}, P-521 {chain,2^520,n-1}) x containers " +
		"(PKCS#8 plain; PKCS#8 PBES2 with each of the 12 pkcs ciphers [SM4 ECB/CBC/GCM, CFCA SM4 OID, AES-128/192/256 CBC/GCM, DES, 3DES] x each KDF option [PBKDF2 x 8 PRFs x count 1,2 x salt sizes, ShangMi PBKDF2 OID, scrypt N=16] " +
		"under the PBES2 OID, the ShangMi PBES OID with SM4-CBC x each KDF option, hand-built PBES2 seeds with DEFAULT prf/absent keyLength, six PBES1 variants x count 1,2; SEC1; PKCS#1; PKIX public key; " +
		"legacy RFC 1423 PEM with all six ciphers x every inner format; SM2 enveloped key x 3 recipients; CFCA blob with a deterministic self-signed certificate; SM9 raw/ASN.1/'compressed ASN.1'/SEQUENCE-wrapped/PEM and compressed point encodings). " +
		"Oracle: decode(encode(k)) equals k by the type's Equal in both directions AND field comparison AND, for SM2/ECDH/SM9-encrypt-master, the reference point d*G computed by ref/ecref; re-encoding the decoded key is byte-identical (with the same deterministic stream where the encoding is randomised). " +
		"Wrong secret: passwords {empty, 1 byte, last bit flipped, +1 byte} for every encrypted container and 4-5 wrong unwrapping keys for the enveloped key: no key object may be returned (error at decryption or at the inner parse). " +
		"E3: every byte x {xor 01, xor 80} (thorough: all 255 other values for enveloped key and CFCA blob, the 8 single-bit flips and xor ff for GCM PKCS#8) of SM2 enveloped key, CFCA blob and GCM-protected PKCS#8 (4 GCM ciphers x 2-4 KDFs x every private key): error, or a key equal to the original; a panic counts as a violation. " +
		"Range: scalars {0, n-1 (SM2 only), n, n+1, 2^bits-1} in fixed/minimal/zero-padded OCTET STRING form (SM9 masters: {0,N-1,N,N+1,2^256-1,2^256,-1,-chain} as INTEGER) offered in hand-built SEC1, PKCS#8 (both algorithm OIDs), PKCS#8 under every PBES2 cipher and PBES1 variant, " +
		"legacy PEM under every cipher, SM2 enveloped key, CFCA blob, raw constructors, SM9 INTEGER / SEQUENCE / PKCS#8 forms: must be refused; the same hand-built containers with the extreme valid scalars {1, n-2 | n-1} must be accepted with exactly that scalar (guards against vacuous refusal). " +
		"Range also on P-224 and P-521. " +
		"Widening in the generic input dimensions (cases widen/*): " +
		"INTEGRITY - every key x every container kind (plain and typed PKCS#8, each of the 12 PBES2 ciphers with KDFs round-robin [thorough: x all 5 KDFs], ShangMi PBES, DEFAULT-prf seeds, 6 PBES1, 6 PEM ciphers, SEC1, PKCS#1, PKIX, SM9 ASN.1/raw, enveloped key x 2 recipients, CFCA blob, the raw constructors sm2.NewPrivateKey/NewPublicKey, ecdh NewPrivateKey/NewPublicKey, sm9 Unmarshal*Raw) " +
		"x 3 argument layouts (each argument ending at an inaccessible page; record container||password with capacities reaching to the end; record password||container||dirty tail) x the call history wrong password -> right password -> right password again: " +
		"no key for the wrong password, the key for the right one both times, no byte of any input region (spare capacity included) changes during a decode, the returned keys survive the caller overwriting all its input buffers and the other returned key, and the same memory refilled with another key of the kind decodes to that key. " +
		"OWNERSHIP - every encoder of every key (PKCS#8, SEC1, PKCS#1, PKIX, 12 PBES2 + 6 PEM wrappers on one stream, enveloped key, CFCA blob, every Bytes()/MarshalASN1()/MarshalCompressedASN1() of the SM9 and ecdh types) called three times on a fresh key object with the harness overwriting every returned buffer (spare capacity included) in between: same bytes every time, key object still the key. " +
		"HISTORY - every ordered pair (a,b) of decode operations (all containers of two keys of different kinds under different passwords and KDFs, each encrypted one also with a wrong password; thorough: five keys) run as a;b;a inside one case: every call answers as when run alone (process-wide cipher/KDF tables); one PBESEncrypter object (12 PBES2, ShangMi, 6 PBES1) used for small/large/small keys with alternating passwords, after a failing random source, interleaved with a second object: byte-identical to a fresh encrypter on the same stream. " +
		"LENGTH CLASSES - SM9 master keys with scalars 2^(8j-1)-1 and 2^(8j)-1 (inner INTEGER of every length 3..34, i.e. every residue mod 8 and mod 16 over 1-3 blocks) through 6 PEM ciphers x 2 inner formats, 12 PBES2 ciphers, ShangMi PBES, 6 PBES1: round trip and one wrong password; SM2/ECDH scalars 2^(8j)-1 for every j=1..31 (every count of leading zero bytes) through PKCS#8, SEC1 (+minimal/padded forms), raw, enveloped key and CFCA blob with the standards' shape checks. " +
		"VARIANTS - the 8 typed parse helpers of pkcs8 with a password on 3 encrypted containers per key (right type: the key; other type: no key; wrong password: no key); hand-built enveloped keys with symAlgID 1.2.156.10197.1.104 with and without NULL, CFCA blobs with the SM4-CBC OID and fixed-width scalar, PBES2 with the bare SM4 OID and no parameters (ECB): must decode to the key, wrong secret no key; RSA public keys with e in {3,5,17,257,65537,65539,2^31-1} through PKIX and PKCS#1; crypto/ecdh P-256/384/521 private and public keys x 4 scalars through PKCS#8 and PKIX. " +
		"MISMATCH - enveloped key and CFCA blob for every SM2 key with the public part replaced by -(dG), (d+1)G, 2(dG), G and the scalar by n-d: refused; the matching pair accepted. " +
		"CAPACITY - every padding encrypter (12 PBES2, ShangMi, 6 PBES1, 6 PEM, cfca.EncryptBySM4CBC) x 6 plaintext length classes (padding 1, 8, 9, full block, ...) x 6 capacity classes of the plaintext (none, 1, padding-1, exact fit, padding+1, ample; dirty) x 3 of the password: result identical to the exactly-sized call, plaintext bytes and the password's whole array unchanged. " +
		"distinct_nontrivial counts distinct (container, option class, key class) combinations decoded plus distinct (container, region, outcome) classes of E3 and (container, curve, scalar, encoding) range offers, plus the (family, container, layout | operation pair | length class | capacity class) classes of the widening."
}

func (Prop) Assumptions() []string {
	return []string{
		"reference for 'the same key': the scalar itself plus d*G on the SM2 curve / ke*P1 on BN G1 computed by ref/ecref (affine math/big arithmetic, anchored by GB/T 32918 and GM/T 0044 vectors); SM9 G2 points (sign master public key, encrypt user key) and RSA/ECDSA keys are compared with the original object only",
		"valid scalar ranges: SM2 and ECDH-on-SM2 [1,n-2] (GB/T 32918.1, as documented at sm2.NewPrivateKey), SM9 master keys [1,N-2] (as enforced by the library's own constructor), generic ECDSA [1,n-1]",
		"a wrong password that is equivalent to the right one by the definition of the KDF (HMAC zero-padding: pw and pw||00; HMAC pre-hashing of passwords longer than the block) is not a wrong password and is not enumerated",
		"cost parameters inside artefacts (PBKDF2 count, scrypt N/r/p) are never mutated upward: E3 mutants whose KDF parameters parse to a higher cost than the seeds are skipped and counted in cost_rule_skipped",
		"salts, IVs, nonces, SM4 wrapping keys and SM2 ephemeral scalars come from fixed deterministic streams (one per option); other salt/IV values are not explored. pkcs8.MarshalPrivateKey itself (which reads crypto/rand internally) is exercised once per key with the library's default options and judged by round trip only",
		"PBKDF2 counts 1-2 and scrypt N<=16 only; containers produced by other tools (OpenSSL, GmSSL, CFCA SADK) are not part of the space except for the hand-built DEFAULT-prf PBES2 seeds",
		"dispatch configurations: c-default and c-purego on amd64; arm64/ppc64le/s390x assembly is not covered",
		"ownership oracles are limited to what the property implies for keys: a decoder has no destination in caller memory (inputs incl. their spare capacity stay unchanged), a returned key or buffer does not change when the caller overwrites its own buffers or another result. Not judged: what an encrypter writes into the spare capacity behind the *plaintext* it pads (append-like), the *smx509.Certificate returned by cfca.ParseSM2 (crypto/x509 keeps references into the input by design), the *pkix.AlgorithmIdentifier returned by PBES1.Encrypt (documented field of the object), sm2.PrivateKey.FromECPrivateKey (a documented shallow copy)",
		"hand-built variants (enveloped key / CFCA OID forms, PBES2 with the bare SM4 OID) are required to decode only where the library source has an explicit branch for that form; every other non-library form is judged by 'error, or the same key'",
		"history: decode operations only read process-wide tables; user-registered ciphers/KDFs (pkcs.RegisterCipher/RegisterKDF) and changes of pkcs.DefaultOpts are not part of the space",
	}
}

func lane(s string) byte {
	h := fnv.New32a()
	h.Write([]byte(s))
	return byte(h.Sum32())
}

func isNil(v any) bool {
	if v == nil {
		return true
	}
	rv := reflect.ValueOf(v)
	switch rv.Kind() {
	case reflect.Ptr, reflect.Slice, reflect.Map, reflect.Interface:
		return rv.IsNil()
	}
	return false
}

func errClass(err error) string {
	if err == nil {
		return "nil"
	}
	s := err.Error()
	if len(s) > 60 {
		s = s[:60]
	}
	return s
}

func (Prop) Run(c *engine.Ctx) {
	quick := c.Quick()
	var ks []*key
	var err error
	func() {
		// a panic while the library builds or marshals a key of the alphabet is a finding, not a harness error
		defer func() {
			if r := recover(); r != nil {
				err = fmt.Errorf("panic: %v", r)
			}
		}()
		ks, err = allKeys()
	}()
	if err != nil {
		c.Case("setup/keys", func(t *engine.T) {
			t.Eval(1)
			t.Fail("setup/key-construction-refused", "a key of the declared alphabet could not be built or marshalled: %v", err)
		})
		return
	}
	pws := passwords(quick)
	kdfs := kdfOpts(quick)
	ciphers := pbes2Ciphers()

	c.Case("keys/reference", func(t *engine.T) { checkKeyObjects(t, ks) })

	for _, k := range ks {
		k := k
		c.Case("plain/"+k.name, func(t *engine.T) { checkPlain(t, k) })
		c.Case("api/pkcs8.MarshalPrivateKey/"+k.name, func(t *engine.T) { checkAPI(t, k) })
		for _, co := range ciphers {
			co := co
			c.Case("pkcs8-pbes2/"+k.name+"/"+co.name, func(t *engine.T) { checkPBES2(t, k, co, kdfs, pws) })
		}
		c.Case("pkcs8-smpbes/"+k.name, func(t *engine.T) { checkSMPBES(t, k, kdfs, pws) })
		c.Case("pkcs8-defaultprf/"+k.name, func(t *engine.T) { checkDefaultPRF(t, k, pws) })
		c.Case("pkcs8-pbes1/"+k.name, func(t *engine.T) { checkPBES1(t, k, pws) })
		c.Case("pem/"+k.name, func(t *engine.T) { checkPEM(t, k, pws) })
		if k.kind == "sm2" {
			c.Case("enveloped/"+k.name, func(t *engine.T) { checkEnveloped(t, k, ks) })
			c.Case("cfca/"+k.name, func(t *engine.T) { checkCFCA(t, k, pws) })
		}
	}
	// public-only SM9 kinds (master public keys) are derived from the master private keys
	for _, k := range ks {
		k := k
		if k.kind == "sm9-signmaster" || k.kind == "sm9-encmaster" {
			c.Case("sm9-public/"+k.name, func(t *engine.T) { checkSM9Public(t, k) })
		}
	}

	// E3 on protected containers
	for _, k := range ks {
		k := k
		if k.kind == "sm2" {
			c.Case("protect/enveloped/"+k.name, func(t *engine.T) { protectEnveloped(t, k, ks) })
			c.Case("protect/cfca/"+k.name, func(t *engine.T) { protectCFCA(t, k) })
		}
		for _, co := range ciphers {
			co := co
			if !co.gcm {
				continue
			}
			c.Case("protect/gcm/"+k.name+"/"+co.name, func(t *engine.T) { protectGCM(t, k, co) })
		}
	}

	// range
	runRange(c)

	// generic input dimensions (widen*.go); appended so that the case indices of the families above stay put
	runWiden(c, ks)
}
