// Package c14: key serialisations round-trip exactly and never yield a different key (DESIGN §4 C14).
// Kernels: E2 (full product keys x containers x options) and E3 (single-byte alterations of the three
// protected containers). All "randomness" (salts, IVs, SM2 ephemeral scalars, SM4 wrapping keys) comes from
// engine.DetReader streams; the check never touches crypto/rand or math/rand.
package c14

import (
	"fmt"
	"hash/fnv"
	"math/big"
	"reflect"

	"verif/engine"
	"verif/ref/ecref"
	"verif/ref/sm4ref"
)

type Prop struct{}

func (Prop) ID() string    { return "C14" }
func (Prop) Level() string { return "exploration" }
func (Prop) Configs(tier string) []string {
	return []string{"c-default", "c-purego"}
}

func (Prop) SelfTest() error {
	if err := ecref.SelfTest(); err != nil {
		return err
	}
	if err := sm4ref.SelfTest(); err != nil {
		return err
	}
	// the hash chain and the edge scalars must lie in the valid ranges the checks assume
	n := sm2N()
	for _, s := range sm2Scalars() {
		if s.d.Sign() <= 0 || s.d.Cmp(new(big.Int).Sub(n, big.NewInt(2))) > 0 {
			return fmt.Errorf("c14: sm2 scalar %s outside [1,n-2]", s.name)
		}
	}
	for _, s := range sm9Scalars() {
		if s.d.Sign() <= 0 || s.d.Cmp(new(big.Int).Sub(sm9N, big.NewInt(2))) > 0 {
			return fmt.Errorf("c14: sm9 scalar %s outside [1,N-2]", s.name)
		}
	}
	if sm9N.Cmp(ecref.SM9G1().N) != 0 {
		return fmt.Errorf("c14: SM9 order constant disagrees with the reference curve")
	}
	// the DER walker used to name regions of a mutated container
	if sp := topChildren([]byte{0x30, 0x07, 0x02, 0x01, 0x05, 0x04, 0x02, 0xaa, 0xbb}); len(sp) != 2 || sp[0] != (span{2, 5}) || sp[1] != (span{5, 9}) {
		return fmt.Errorf("c14: DER walker self-test failed: %v", sp)
	}
	// cost guard must refuse a raised iteration count and accept the seed
	return costGuardSelfTest()
}

func (Prop) Rule() string {
	return "E2: full product of the key alphabet (SM2 and ECDH scalars {1,2,n-2,2^248-1,2^255,3 hash-chain values}; SM9 sign/encrypt master keys from scalars {1,2,hash-chain,N-2,2^248-1}, " +
		"one user key and the master public key of each: six SM9 kinds; embedded RSA-1024/2048; ECDSA P-256 {chain,1,n-1}, P-384 {chain,2^376-1}) x containers " +
		"(PKCS#8 plain; PKCS#8 PBES2 with each of the 12 pkcs ciphers [SM4 ECB/CBC/GCM, CFCA SM4 OID, AES-128/192/256 CBC/GCM, DES, 3DES] x each KDF option [PBKDF2 x 8 PRFs x count 1,2 x salt sizes, ShangMi PBKDF2 OID, scrypt N=16] " +
		"under the PBES2 OID, the ShangMi PBES OID with SM4-CBC x each KDF option, hand-built PBES2 seeds with DEFAULT prf/absent keyLength, six PBES1 variants x count 1,2; SEC1; PKCS#1; PKIX public key; " +
		"legacy RFC 1423 PEM with all six ciphers x every inner format; SM2 enveloped key x 3 recipients; CFCA blob with a deterministic self-signed certificate; SM9 raw/ASN.1/'compressed ASN.1'/SEQUENCE-wrapped/PEM and compressed point encodings). " +
		"Oracle: decode(encode(k)) equals k by the type's Equal in both directions AND field comparison AND, for SM2/ECDH/SM9-encrypt-master, the reference point d*G computed by ref/ecref; re-encoding the decoded key is byte-identical (with the same deterministic stream where the encoding is randomised). " +
		"Wrong secret: passwords {empty, 1 byte, last bit flipped, +1 byte} for every encrypted container and 4-5 wrong unwrapping keys for the enveloped key: no key object may be returned (error at decryption or at the inner parse). " +
		"E3: every byte x {xor 01, xor 80} (thorough: all 255 other values for enveloped key and CFCA blob, the 8 single-bit flips and xor ff for GCM PKCS#8) of SM2 enveloped key, CFCA blob and GCM-protected PKCS#8 (4 GCM ciphers x 2-4 KDFs x every private key): error, or a key equal to the original; a panic counts as a violation. " +
		"Range: scalars {0, n-1 (SM2 only), n, n+1, 2^bits-1} in fixed/minimal/zero-padded OCTET STRING form (SM9 masters: {0,N-1,N,N+1,2^256-1,2^256,-1,-chain} as INTEGER) offered in hand-built SEC1, PKCS#8 (both algorithm OIDs), PKCS#8 under every PBES2 cipher and PBES1 variant, " +
		"legacy PEM under every cipher, SM2 enveloped key, CFCA blob, raw constructors, SM9 INTEGER / SEQUENCE / PKCS#8 forms: must be refused; the same hand-built containers with the extreme valid scalars {1, n-2 | n-1} must be accepted with exactly that scalar (guards against vacuous refusal). " +
		"distinct_nontrivial counts distinct (container, option class, key class) combinations decoded plus distinct (container, region, outcome) classes of E3 and (container, curve, scalar, encoding) range offers."
}

func (Prop) Assumptions() []string {
	return []string{
		"reference for 'the same key': the scalar itself plus d*G on the SM2 curve / ke*P1 on BN G1 computed by ref/ecref (affine math/big arithmetic, anchored by GB/T 32918 and GM/T 0044 vectors); SM9 G2 points (sign master public key, encrypt user key) and RSA/ECDSA keys are compared with the original object only",
		"valid scalar ranges: SM2 and ECDH-on-SM2 [1,n-2] (GB/T 32918.1, as documented at sm2.NewPrivateKey), SM9 master keys [1,N-2] (as enforced by the library's own constructor), generic ECDSA [1,n-1]",
		"a wrong password that is equivalent to the right one by the definition of the KDF (HMAC zero-padding: pw and pw||00; HMAC pre-hashing of passwords longer than the block) is not a wrong password and is not enumerated",
		"cost parameters inside artefacts (PBKDF2 count, scrypt N/r/p) are never mutated upward: E3 mutants whose KDF parameters parse to a higher cost than the seeds are skipped and counted in cost_rule_skipped",
		"salts, IVs, nonces, SM4 wrapping keys and SM2 ephemeral scalars come from fixed deterministic streams (one per option); other salt/IV values are not explored. pkcs8.MarshalPrivateKey itself (which reads crypto/rand internally) is exercised once per key with the library's default options and judged by round trip only",
		"PBKDF2 counts 1-2 and scrypt N<=16 only; containers produced by other tools (OpenSSL, GmSSL, CFCA SADK) are not part of the space except for the hand-built DEFAULT-prf PBES2 seeds",
		"dispatch configurations: c-default and c-purego on amd64; arm64/ppc64le/s390x assembly is not covered",
	}
}

func lane(s string) byte {
	h := fnv.New32a()
	h.Write([]byte(s))
	return byte(h.Sum32())
}

func isNil(v any) bool {
	if v == nil {
		return true
	}
	rv := reflect.ValueOf(v)
	switch rv.Kind() {
	case reflect.Ptr, reflect.Slice, reflect.Map, reflect.Interface:
		return rv.IsNil()
	}
	return false
}

func errClass(err error) string {
	if err == nil {
		return "nil"
	}
	s := err.Error()
	if len(s) > 60 {
		s = s[:60]
	}
	return s
}

func (Prop) Run(c *engine.Ctx) {
	quick := c.Quick()
	var ks []*key
	var err error
	func() {
		// a panic while the library builds or marshals a key of the alphabet is a finding, not a harness error
		defer func() {
			if r := recover(); r != nil {
				err = fmt.Errorf("panic: %v", r)
			}
		}()
		ks, err = allKeys()
	}()
	if err != nil {
		c.Case("setup/keys", func(t *engine.T) {
			t.Eval(1)
			t.Fail("setup/key-construction-refused", "a key of the declared alphabet could not be built or marshalled: %v", err)
		})
		return
	}
	pws := passwords(quick)
	kdfs := kdfOpts(quick)
	ciphers := pbes2Ciphers()

	c.Case("keys/reference", func(t *engine.T) { checkKeyObjects(t, ks) })

	for _, k := range ks {
		k := k
		c.Case("plain/"+k.name, func(t *engine.T) { checkPlain(t, k) })
		c.Case("api/pkcs8.MarshalPrivateKey/"+k.name, func(t *engine.T) { checkAPI(t, k) })
		for _, co := range ciphers {
			co := co
			c.Case("pkcs8-pbes2/"+k.name+"/"+co.name, func(t *engine.T) { checkPBES2(t, k, co, kdfs, pws) })
		}
		c.Case("pkcs8-smpbes/"+k.name, func(t *engine.T) { checkSMPBES(t, k, kdfs, pws) })
		c.Case("pkcs8-defaultprf/"+k.name, func(t *engine.T) { checkDefaultPRF(t, k, pws) })
		c.Case("pkcs8-pbes1/"+k.name, func(t *engine.T) { checkPBES1(t, k, pws) })
		c.Case("pem/"+k.name, func(t *engine.T) { checkPEM(t, k, pws) })
		if k.kind == "sm2" {
			c.Case("enveloped/"+k.name, func(t *engine.T) { checkEnveloped(t, k, ks) })
			c.Case("cfca/"+k.name, func(t *engine.T) { checkCFCA(t, k, pws) })
		}
	}
	// public-only SM9 kinds (master public keys) are derived from the master private keys
	for _, k := range ks {
		k := k
		if k.kind == "sm9-signmaster" || k.kind == "sm9-encmaster" {
			c.Case("sm9-public/"+k.name, func(t *engine.T) { checkSM9Public(t, k) })
		}
	}

	// E3 on protected containers
	for _, k := range ks {
		k := k
		if k.kind == "sm2" {
			c.Case("protect/enveloped/"+k.name, func(t *engine.T) { protectEnveloped(t, k, ks) })
			c.Case("protect/cfca/"+k.name, func(t *engine.T) { protectCFCA(t, k) })
		}
		for _, co := range ciphers {
			co := co
			if !co.gcm {
				continue
			}
			c.Case("protect/gcm/"+k.name+"/"+co.name, func(t *engine.T) { protectGCM(t, k, co) })
		}
	}

	// range
	runRange(c)
}
